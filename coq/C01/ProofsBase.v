(* C01 base: the inner loops of lib/Exec.v ([fix go] over field groups, the two [fold_left] loops)
   restated as named top-level functions, proved equal to the originals, and one-step unfolding
   equations for [exec_sels] / [exec_field] / [complete] / [flatten] / [group] on which all later
   proofs rest.  lib/Exec.v is not modified. *)
From Coq Require Import Lia ZifyNat ZifyN ZifyBool.
From Gv Require Import lib.Bytes lib.Json lib.Gql lib.Exec.
Open Scope N_scope.

Definition sres := (option (list (bytes * json)) * list xerr)%type.
Definition grp := (name * selection * list selection)%type.

(* ---- generic helpers ---- *)
Lemma bytes_eqb_refl a : bytes_eqb a a = true.
Proof. induction a as [|x a IH]; simpl; [reflexivity|]. rewrite N.eqb_refl, IH. reflexivity. Qed.
Lemma bytes_eqb_eq a b : bytes_eqb a b = true <-> a = b.
Proof.
  split.
  - revert b. induction a as [|x a IH]; intros [|y b] H; simpl in H; try discriminate; [reflexivity|].
    apply andb_true_iff in H. destruct H as [H1 H2]. apply N.eqb_eq in H1. apply IH in H2. congruence.
  - intros ->. apply bytes_eqb_refl.
Qed.
Lemma bytes_eqb_sym a b : bytes_eqb a b = bytes_eqb b a.
Proof.
  destruct (bytes_eqb a b) eqn:E.
  - apply bytes_eqb_eq in E. subst. symmetry. apply bytes_eqb_refl.
  - destruct (bytes_eqb b a) eqn:E'; [|reflexivity]. apply bytes_eqb_eq in E'. subst.
    rewrite bytes_eqb_refl in E. discriminate.
Qed.
Lemma bytes_eqb_neq a b : bytes_eqb a b = false <-> a <> b.
Proof.
  split.
  - intros H ->. rewrite bytes_eqb_refl in H. discriminate.
  - intros H. destruct (bytes_eqb a b) eqn:E; [|reflexivity]. apply bytes_eqb_eq in E. contradiction.
Qed.

(* ---- out-of-fuel freedom ---- *)
Definition is_oof (e : xerr) : bool := match e with XOutOfFuel => true | _ => false end.
Definition no_oof (l : list xerr) : bool := forallb (fun e => negb (is_oof e)) l.
Lemma no_oof_app a b : no_oof (a ++ b) = no_oof a && no_oof b.
Proof. apply forallb_app. Qed.
Definition flat_no_oof (r : flat) : bool :=
  match r with FlatBad e => negb (is_oof e) | FlatOk _ => true end.

(* ---- flatten ---- *)
Section Flatten.
  Variable sc : schema.
  Variable frags : list fragment.
  Variable vars : list (bytes * json).

  Definition flat_here (rec : list selection -> flat) (objty : name) (s : selection) : flat :=
    match s with
    | SField _ _ _ dirs _ => if included vars dirs then FlatOk [s] else FlatOk []
    | SInline cond dirs sub =>
      if negb (included vars dirs) then FlatOk []
      else match cond with
           | None => rec sub
           | Some c =>
             match kind_of sc c with
             | None => if bytes_eqb c [95;69;110;116;105;116;121] then rec sub
                       else FlatBad (XInvalid c)
             | Some _ => if type_applies sc objty c then rec sub else FlatOk []
             end
           end
    | SSpread n dirs =>
      if negb (included vars dirs) then FlatOk []
      else match find_frag n frags with
           | None => FlatBad (XInvalid n)
           | Some fr => if type_applies sc objty (fr_type fr) then rec (fr_sels fr) else FlatOk []
           end
    end.

  Definition flat_seq (a b : flat) : flat :=
    match a with
    | FlatBad e => FlatBad e
    | FlatOk l1 => match b with FlatBad e => FlatBad e | FlatOk l2 => FlatOk (l1 ++ l2) end
    end.

  Lemma flatten_0 objty sels : flatten sc frags vars 0 objty sels = FlatBad XOutOfFuel.
  Proof. reflexivity. Qed.
  Lemma flatten_S_nil f objty : flatten sc frags vars (S f) objty [] = FlatOk [].
  Proof. reflexivity. Qed.
  Lemma flatten_S_cons f objty s rest :
    flatten sc frags vars (S f) objty (s :: rest) =
    flat_seq (flat_here (flatten sc frags vars f objty) objty s) (flatten sc frags vars f objty rest).
  Proof. destruct s; reflexivity. Qed.
End Flatten.

(* ---- the named loops ---- *)
Definition sels_go (ef : name -> selection -> list selection -> list pel -> cres) (path : list pel) :=
  fix go (gs : list grp) : sres :=
    match gs with
    | [] => (Some [], [])
    | (key, s, subs) :: rest =>
      let r := ef key s subs (path ++ [PN key]) in
      if c_viol r then (None, c_errs r)
      else
        let '(o, e2) := go rest in
        (match o with Some l => Some ((key, c_json r) :: l) | None => None end, c_errs r ++ e2)
    end.

Definition ojson (o : option (list (bytes * json))) : json :=
  match o with Some l => JObj l | None => JNull end.

Section Loops.
  Variable U : universe.

  (* the [_entities] loop *)
  Definition ent_step (es : name -> oval -> list selection -> list pel -> sres)
             (subs : list selection) (path : list pel)
    : list json * list xerr * bool * N -> json -> list json * list xerr * bool * N :=
    fun acc r =>
      let '(items, errs, viol, i) := acc in
      match find_by_repr U r with
      | None => (items ++ [JNull], errs, viol, i + 1)
      | Some e =>
        let '(o, e2) := es (en_type e) {| ov_ent := e; ov_repr := Some r |} subs (path ++ [PI i]) in
        match o with
        | Some l => (items ++ [JObj l], errs ++ e2, viol, i + 1)
        | None => (items ++ [JNull], errs ++ e2, viol, i + 1)
        end
      end.

  Definition ent_item (es : name -> oval -> list selection -> list pel -> sres)
             (subs : list selection) (path : list pel) (i : N) (r : json) : json * list xerr :=
    match find_by_repr U r with
    | None => (JNull, [])
    | Some e =>
      let '(o, e2) := es (en_type e) {| ov_ent := e; ov_repr := Some r |} subs (path ++ [PI i]) in
      (ojson o, e2)
    end.

  Fixpoint ent_loop (es : name -> oval -> list selection -> list pel -> sres)
           (subs : list selection) (path : list pel) (i : N) (reprs : list json) : list json * list xerr :=
    match reprs with
    | [] => ([], [])
    | r :: rest =>
      let '(it, e) := ent_item es subs path i r in
      let '(its, es') := ent_loop es subs path (i + 1) rest in
      (it :: its, e ++ es')
    end.

  Lemma ent_fold_loop es subs path reprs :
    forall items0 errs0 v0 i0,
      fold_left (ent_step es subs path) reprs (items0, errs0, v0, i0) =
      (items0 ++ fst (ent_loop es subs path i0 reprs),
       errs0 ++ snd (ent_loop es subs path i0 reprs), v0, i0 + N.of_nat (length reprs)).
  Proof.
    induction reprs as [|r rest IH]; intros items0 errs0 v0 i0.
    - simpl. rewrite !app_nil_r, N.add_0_r. reflexivity.
    - cbn [fold_left ent_loop length].
      unfold ent_step at 2. unfold ent_item.
      destruct (find_by_repr U r) as [e|].
      + destruct (es (en_type e) {| ov_ent := e; ov_repr := Some r |} subs (path ++ [PI i0])) as [o e2].
        destruct (ent_loop es subs path (i0 + 1) rest) as [its es'] eqn:EL.
        destruct o as [l|]; rewrite IH, EL; cbn [fst snd ojson];
          rewrite <- !app_assoc; cbn [app]; f_equal; lia.
      + destruct (ent_loop es subs path (i0 + 1) rest) as [its es'] eqn:EL.
        rewrite IH, EL. cbn [fst snd]. rewrite <- !app_assoc. cbn [app]. f_equal. lia.
  Qed.

  (* the list loop of [complete] *)
  Definition lst_step (cf : fval -> list pel -> cres) (path : list pel)
    : list json * list xerr * bool * N -> fval -> list json * list xerr * bool * N :=
    fun acc it =>
      let '(out, errs, viol, i) := acc in
      let r := cf it (path ++ [PI i]) in
      (out ++ [c_json r], errs ++ c_errs r, viol || c_viol r, i + 1).

  Fixpoint lst_loop (cf : fval -> list pel -> cres) (path : list pel) (i : N) (items : list fval)
    : list json * list xerr * bool :=
    match items with
    | [] => ([], [], false)
    | it :: rest =>
      let r := cf it (path ++ [PI i]) in
      let '(out, errs, viol) := lst_loop cf path (i + 1) rest in
      (c_json r :: out, c_errs r ++ errs, c_viol r || viol)
    end.

  Lemma lst_fold_loop cf path items :
    forall out0 errs0 v0 i0,
      fold_left (lst_step cf path) items (out0, errs0, v0, i0) =
      (out0 ++ fst (fst (lst_loop cf path i0 items)),
       errs0 ++ snd (fst (lst_loop cf path i0 items)),
       v0 || snd (lst_loop cf path i0 items), i0 + N.of_nat (length items)).
  Proof.
    induction items as [|it rest IH]; intros out0 errs0 v0 i0.
    - simpl. rewrite !app_nil_r, N.add_0_r, orb_false_r. reflexivity.
    - cbn [fold_left lst_loop length]. unfold lst_step at 2.
      destruct (lst_loop cf path (i0 + 1) rest) as [[out errs] viol] eqn:EL.
      rewrite IH, EL. cbn [fst snd]. rewrite <- !app_assoc, orb_assoc. cbn [app]. f_equal. lia.
  Qed.
End Loops.

(* ---- one-step equations of the mutual fixpoint ---- *)
Section Eqns.
  Variable sc : schema.
  Variable U : universe.
  Variable frags : list fragment.
  Variable vars : list (bytes * json).
  Variable md : mode.

  Notation exec_sels' := (exec_sels sc U frags vars md).
  Notation exec_field' := (exec_field sc U frags vars md).
  Notation complete' := (complete sc U frags vars md).
  Notation flatten' := (flatten sc frags vars).

  Definition is_entities (fname objty : name) : bool :=
    match md with Sub => bytes_eqb fname s_entities && bytes_eqb objty (s_query sc) | Mono => false end.
  Definition reprs_of (args : list argument) : list json :=
    match assoc s_representations args with
    | Some v => match lit_json vars v with Some (JArr l) => l | _ => [] end
    | None => []
    end.
  Definition field_fval (ov : oval) (fname : name) : fval :=
    match assoc fname (en_fields (ov_ent ov)) with Some v => v | None => FSc JNull end.
  Definition bad (e : xerr) : cres := {| c_json := JNull; c_errs := [e]; c_viol := true |}.

  Lemma exec_sels_0 objty ov sels path : exec_sels' 0 objty ov sels path = (None, [XOutOfFuel]).
  Proof. reflexivity. Qed.
  Lemma exec_field_0 objty ov key s subs path : exec_field' 0 objty ov key s subs path = bad XOutOfFuel.
  Proof. reflexivity. Qed.
  Lemma complete_0 t ov fname cargs fv subs path : complete' 0 t ov fname cargs fv subs path = bad XOutOfFuel.
  Proof. reflexivity. Qed.

  Lemma exec_sels_S f objty ov sels path :
    exec_sels' (S f) objty ov sels path =
    match flatten' (S f) objty sels with
    | FlatBad e => (None, [e])
    | FlatOk fl => sels_go (exec_field' f objty ov) path (group (S (length fl)) fl)
    end.
  Proof. reflexivity. Qed.

  Lemma exec_field_S_raw f objty ov key s subs path :
    exec_field' (S f) objty ov key s subs path =
    match s with
    | SField _ fname args _ _ =>
      if bytes_eqb fname s_typename then {| c_json := JStr objty; c_errs := []; c_viol := false |}
      else if is_entities fname objty then
        let '(items, errs, viol, _) :=
          fold_left (ent_step U (exec_sels' f) subs path) (reprs_of args) ([], [], false, 0) in
        {| c_json := JArr items; c_errs := errs; c_viol := viol |}
      else
        match find_type objty (s_types sc) with
        | None => bad (XInvalid objty)
        | Some td =>
          match find_field fname (td_fields td) with
          | None => bad (XInvalid fname)
          | Some fd =>
            complete' f (fd_type fd) ov fname (coerce_args sc vars (fd_args fd) args) (field_fval ov fname) subs path
          end
        end
    | _ => bad (XInvalid [])
    end.
  Proof. destruct s; reflexivity. Qed.

  Lemma exec_field_S f objty ov key s subs path :
    exec_field' (S f) objty ov key s subs path =
    match s with
    | SField _ fname args _ _ =>
      if bytes_eqb fname s_typename then {| c_json := JStr objty; c_errs := []; c_viol := false |}
      else if is_entities fname objty then
        {| c_json := JArr (fst (ent_loop U (exec_sels' f) subs path 0 (reprs_of args)));
           c_errs := snd (ent_loop U (exec_sels' f) subs path 0 (reprs_of args));
           c_viol := false |}
      else
        match find_type objty (s_types sc) with
        | None => bad (XInvalid objty)
        | Some td =>
          match find_field fname (td_fields td) with
          | None => bad (XInvalid fname)
          | Some fd =>
            complete' f (fd_type fd) ov fname (coerce_args sc vars (fd_args fd) args) (field_fval ov fname) subs path
          end
        end
    | _ => bad (XInvalid [])
    end.
  Proof.
    rewrite exec_field_S_raw. destruct s; try reflexivity.
    destruct (bytes_eqb fname s_typename); [reflexivity|].
    destruct (is_entities fname objty); [|reflexivity].
    rewrite ent_fold_loop. reflexivity.
  Qed.

  Definition obj_target (cargs : list (bytes * json)) (fv : fval) : option (option entity) :=
    match fv with
    | FRef t' k => match find_entity U t' k with Some e => Some (Some e) | None => None end
    | FLookup t' a =>
      match assoc a cargs with
      | Some j => Some (find_entity U t' (json_key_string j))
      | None => Some None
      end
    | FNullRef | FSc JNull => Some None
    | _ => None
    end.
  Definition obj_type_ok (n : name) (e : entity) : bool :=
    match kind_of sc n with None => bytes_eqb n [95;69;110;116;105;116;121] | _ => possible sc n (en_type e) end.
  Definition is_leaf_kind (n : name) : option bool :=   (* Some true: leaf; Some false: composite; None: input object *)
    match kind_of sc n with
    | Some KScalar | Some KEnum => Some true
    | Some KInputObject => None
    | _ => Some false
    end.

  Definition complete_obj (f : nat) (n : name) (cargs : list (bytes * json)) (fv : fval)
             (subs : list selection) (path : list pel) : cres :=
    match obj_target cargs fv with
    | None => cnull [XErr path]
    | Some None => cnull []
    | Some (Some e) =>
      if negb (obj_type_ok n e) then cnull [XErr path]
      else
        let '(o, errs) := exec_sels' f (en_type e) {| ov_ent := e; ov_repr := None |} subs path in
        match o with
        | Some l => {| c_json := JObj l; c_errs := errs; c_viol := false |}
        | None => cnull errs
        end
    end.

  Definition nonnull_wrap (path : list pel) (r : cres) : cres :=
    match c_json r with
    | JNull => {| c_json := JNull;
                  c_errs := match c_errs r with [] => [XErr path] | e => e end;
                  c_viol := true |}
    | _ => r
    end.

  Definition list_finish (r : list json * list xerr * bool) : cres :=
    let '(out, errs, viol) := r in
    if viol then cnull errs else {| c_json := JArr out; c_errs := errs; c_viol := false |}.

  Lemma complete_S f t ov fname cargs fv subs path :
    complete' (S f) t ov fname cargs fv subs path =
    match t with
    | TNonNull t' => nonnull_wrap path (complete' f t' ov fname cargs fv subs path)
    | TList t' =>
      match fv with
      | FLst items =>
        list_finish (lst_loop (fun it p => complete' f t' ov fname cargs it subs p) path 0 items)
      | FSc JNull | FNullRef => cnull []
      | FSc (JArr js) => complete' f t ov fname cargs (FLst (map FSc js)) subs path
      | _ => cnull [XErr path]
      end
    | TNamed n =>
      match is_leaf_kind n with
      | Some true => leaf_value md ov fname cargs fv path
      | Some false => complete_obj f n cargs fv subs path
      | None => cnull [XInvalid n]
      end
    end.
  Proof.
    destruct t as [n|t'|t'].
    - unfold is_leaf_kind, complete_obj, obj_type_ok, obj_target.
      cbn [complete]. destruct (kind_of sc n) as [[]|]; reflexivity.
    - destruct fv as [j|t0 k| |l| | |t0 a|fs]; try reflexivity.
      + change (complete' (S f) (TList t') ov fname cargs (FLst l) subs path)
          with (let '(out, errs, viol, _) :=
                    fold_left (lst_step (fun it p => complete' f t' ov fname cargs it subs p) path) l ([], [], false, 0) in
                if viol then cnull errs else {| c_json := JArr out; c_errs := errs; c_viol := false |}).
        rewrite lst_fold_loop. unfold list_finish.
        destruct (lst_loop _ path 0 l) as [[out errs] viol]. reflexivity.
    - reflexivity.
  Qed.
End Eqns.

(* ---- group: fuel independence and a fuel-free characterisation ---- *)
Definition same_key (k : name) (x : selection) : bool := bytes_eqb (sel_key x) k.
Definition sel_subs (x : selection) : list selection :=
  match x with SField _ _ _ _ ss => ss | _ => [] end.

Lemma group_S f s rest :
  group (S f) (s :: rest) =
  (sel_key s, s, flat_map sel_subs (s :: filter (same_key (sel_key s)) rest))
    :: group f (filter (fun x => negb (same_key (sel_key s) x)) rest).
Proof. reflexivity. Qed.

Lemma filter_length_le {A} (p : A -> bool) l : (length (filter p l) <= length l)%nat.
Proof. induction l as [|x l IH]; simpl; [lia|]. destruct (p x); simpl; lia. Qed.

Lemma group_fuel : forall n m l, (length l < n)%nat -> (length l < m)%nat -> group n l = group m l.
Proof.
  induction n as [|n IH]; intros m l Hn Hm; [lia|].
  destruct m as [|m]; [lia|].
  destruct l as [|s rest]; [reflexivity|].
  rewrite !group_S. f_equal.
  simpl in Hn, Hm.
  pose proof (filter_length_le (fun x => negb (same_key (sel_key s) x)) rest).
  apply IH; lia.
Qed.

Definition groups (l : list selection) : list grp := group (S (length l)) l.

Lemma groups_nil : groups [] = [].
Proof. reflexivity. Qed.
Lemma groups_cons s rest :
  groups (s :: rest) =
  (sel_key s, s, flat_map sel_subs (s :: filter (same_key (sel_key s)) rest))
    :: groups (filter (fun x => negb (same_key (sel_key s) x)) rest).
Proof.
  unfold groups. cbn [length]. rewrite group_S. f_equal.
  pose proof (filter_length_le (fun x => negb (same_key (sel_key s) x)) rest).
  apply group_fuel; lia.
Qed.
