(* C01: one simulation lemma relating two executions of the same selections on the same entity that
   differ in (a) the execution mode, (b) the representation attached to the object and (c) a
   path prefix.  Instances: path relocation, subgraph-mode == monolithic-mode on selections
   without [_entities], and the object under [_entities] == the plain object (E3). *)
From Coq Require Import Lia ZifyNat ZifyN ZifyBool.
From Gv Require Import lib.Bytes lib.Json lib.Gql lib.Exec C01.ProofsBase C01.ProofsFuel.
Open Scope N_scope.

(* ---- relocation of error paths ---- *)
Definition shift_err (pre : list pel) (e : xerr) : xerr :=
  match e with XErr p => XErr (pre ++ p) | _ => e end.
Definition shift_errs (pre : list pel) (l : list xerr) : list xerr := map (shift_err pre) l.
Definition shift_cres (pre : list pel) (r : cres) : cres :=
  {| c_json := c_json r; c_errs := shift_errs pre (c_errs r); c_viol := c_viol r |}.
Definition shift_sres (pre : list pel) (r : sres) : sres := (fst r, shift_errs pre (snd r)).

Lemma shift_errs_app pre a b : shift_errs pre (a ++ b) = shift_errs pre a ++ shift_errs pre b.
Proof. apply map_app. Qed.
Lemma shift_errs_nil_pre l : shift_errs [] l = l.
Proof. unfold shift_errs. induction l as [|e l IH]; [reflexivity|]. cbn [map]. rewrite IH. destruct e; reflexivity. Qed.
Lemma shift_sres_nil_pre r : shift_sres [] r = r.
Proof. destruct r. unfold shift_sres. cbn [fst snd]. rewrite shift_errs_nil_pre. reflexivity. Qed.
Lemma no_oof_shift pre l : no_oof (shift_errs pre l) = no_oof l.
Proof. unfold shift_errs, no_oof. induction l as [|e l IH]; [reflexivity|]. cbn [map forallb]. rewrite IH. destruct e; reflexivity. Qed.
Lemma shift_errs_shift a b l : shift_errs a (shift_errs b l) = shift_errs (a ++ b) l.
Proof.
  unfold shift_errs. induction l as [|e l IH]; [reflexivity|]. cbn [map]. rewrite IH. f_equal.
  destruct e; cbn [shift_err]; [rewrite app_assoc|..]; reflexivity.
Qed.

(* ---- selections that never mention [_entities] ---- *)
Fixpoint sel_noent (s : selection) : bool :=
  match s with
  | SField _ fname _ _ ss => negb (bytes_eqb fname s_entities) && forallb sel_noent ss
  | SInline _ _ ss => forallb sel_noent ss
  | SSpread _ _ => true
  end.
Definition sels_noent (l : list selection) : bool := forallb sel_noent l.
Definition frags_noent (frags : list fragment) : bool := forallb (fun fr => sels_noent (fr_sels fr)) frags.

(* ---- the values a [FReq] field reads ---- *)
Definition req_read (md : mode) (ro : option json) (e : entity) (f : name) : option json :=
  match md, ro with
  | Sub, Some (JObj m) => obj_get f m
  | _, _ => match assoc f (en_fields e) with Some (FSc j) => Some j | _ => None end
  end.
Fixpoint fval_reqs (fv : fval) : list name :=
  match fv with
  | FReq fs => fs
  | FLst l => flat_map fval_reqs l
  | _ => []
  end.
Definition ent_fval (e : entity) (fname : name) : fval :=
  match assoc fname (en_fields e) with Some v => v | None => FSc JNull end.
Definition sel_fname (s : selection) : name := match s with SField _ n _ _ _ => n | _ => [] end.

Lemma fval_reqs_map_FSc js : flat_map fval_reqs (map FSc js) = [].
Proof. induction js as [|j js IH]; [reflexivity|]. cbn. exact IH. Qed.

Lemma leaf_value_req md ov fname args fs path :
  leaf_value md ov fname args (FReq fs) path =
  let vals := map (req_read md (ov_repr ov) (ov_ent ov)) fs in
  if forallb (fun o => match o with Some _ => true | None => false end) vals then
    {| c_json := JStr (fname ++ [91] ++
                       (fix go (l : list (option json)) : bytes :=
                          match l with
                          | [] => []
                          | [Some j] => jmarshal j
                          | Some j :: r => jmarshal j ++ 44 :: go r
                          | None :: r => go r
                          end) vals ++ [93]);
       c_errs := []; c_viol := false |}
  else cnull [XErr path].
Proof. reflexivity. Qed.

Section Sim.
  Variable sc : schema.
  Variable U : universe.
  Variable frags : list fragment.
  Variable vars : list (bytes * json).
  Variables md1 md2 : mode.
  Variable pre : list pel.

  Notation flatten' := (flatten sc frags vars).
  Notation es1 := (exec_sels sc U frags vars md1).
  Notation es2 := (exec_sels sc U frags vars md2).
  Notation ef1 := (exec_field sc U frags vars md1).
  Notation ef2 := (exec_field sc U frags vars md2).
  Notation co1 := (complete sc U frags vars md1).
  Notation co2 := (complete sc U frags vars md2).

  (* either the modes coincide or [_entities] is never selected *)
  Definition NE (sels : list selection) : Prop :=
    md1 = md2 \/ (frags_noent frags = true /\ sels_noent sels = true).
  Definition NEg (g : grp) : Prop :=
    md1 = md2 \/ (frags_noent frags = true /\ sel_noent (snd (fst g)) = true /\ sels_noent (snd g) = true).

  Lemma find_frag_noent n fr : frags_noent frags = true -> find_frag n frags = Some fr -> sels_noent (fr_sels fr) = true.
  Proof.
    unfold frags_noent. induction frags as [|x l IH]; cbn; [discriminate|].
    intros H Hf. apply andb_true_iff in H. destruct H as [H1 H2].
    destruct (bytes_eqb n (fr_name x)); [injection Hf as <-; exact H1|apply IH; assumption].
  Qed.

  Lemma flatten_noent : frags_noent frags = true ->
    forall f objty sels fl, sels_noent sels = true -> flatten' f objty sels = FlatOk fl -> sels_noent fl = true.
  Proof.
    intros Hfr. induction f as [|f IH]; intros objty sels fl Hs Hf; [rewrite flatten_0 in Hf; discriminate|].
    destruct sels as [|s rest]; [rewrite flatten_S_nil in Hf; injection Hf as <-; reflexivity|].
    rewrite flatten_S_cons in Hf.
    cbn [sels_noent forallb] in Hs. apply andb_true_iff in Hs. destruct Hs as [Hs Hrest].
    destruct (flat_here sc frags vars (flatten' f objty) objty s) as [l1|e] eqn:Eh; [|discriminate].
    cbn [flat_seq] in Hf. destruct (flatten' f objty rest) as [l2|e] eqn:Er; [|discriminate].
    injection Hf as <-. unfold sels_noent. rewrite forallb_app.
    apply andb_true_iff. split; [|apply (IH objty rest); assumption].
    destruct s as [a n args dirs ss|cond dirs ss|n dirs]; cbn [flat_here] in Eh.
    - destruct (included vars dirs); injection Eh as <-; [|reflexivity]. cbn [forallb]. rewrite Hs. reflexivity.
    - cbn [sel_noent] in Hs.
      destruct (negb (included vars dirs)); [injection Eh as <-; reflexivity|].
      destruct cond as [c|]; [|apply (IH objty ss); assumption].
      destruct (kind_of sc c).
      + destruct (type_applies sc objty c); [apply (IH objty ss); assumption|injection Eh as <-; reflexivity].
      + destruct (bytes_eqb c [95; 69; 110; 116; 105; 116; 121]); [apply (IH objty ss); assumption|discriminate].
    - destruct (negb (included vars dirs)); [injection Eh as <-; reflexivity|].
      destruct (find_frag n frags) as [fr|] eqn:Ef; [|discriminate].
      destruct (type_applies sc objty (fr_type fr)); [|injection Eh as <-; reflexivity].
      apply (IH objty (fr_sels fr)); [|exact Eh]. apply (find_frag_noent n); assumption.
  Qed.

  Lemma sel_subs_noent s : sel_noent s = true -> sels_noent (sel_subs s) = true.
  Proof.
    destruct s; cbn; try reflexivity. intros H. apply andb_true_iff in H. apply H.
  Qed.
  Lemma flat_map_subs_noent l : sels_noent l = true -> sels_noent (flat_map sel_subs l) = true.
  Proof.
    induction l as [|s l IH]; [reflexivity|]. cbn [sels_noent forallb flat_map]. intros H.
    apply andb_true_iff in H. destruct H as [H1 H2]. unfold sels_noent. rewrite forallb_app.
    apply andb_true_iff. split; [apply sel_subs_noent; exact H1|apply IH; exact H2].
  Qed.
  Lemma filter_noent p l : sels_noent l = true -> sels_noent (filter p l) = true.
  Proof.
    induction l as [|s l IH]; [reflexivity|]. cbn [sels_noent forallb filter]. intros H.
    apply andb_true_iff in H. destruct H as [H1 H2]. destruct (p s); [cbn [forallb]; rewrite H1|]; apply IH; exact H2.
  Qed.

  (* facts about the groups of a list, by induction on its length *)
  Lemma groups_Forall (P : selection -> Prop) (Q : grp -> Prop) :
    (forall s same, P s -> Forall P same -> Q (sel_key s, s, flat_map sel_subs (s :: same))) ->
    forall n l, (length l <= n)%nat -> Forall P l -> Forall Q (groups l).
  Proof.
    intros HQ. induction n as [|n IH]; intros l Hlen HP.
    - destruct l; [constructor|simpl in Hlen; lia].
    - destruct l as [|s rest]; [constructor|].
      rewrite groups_cons. inversion HP as [|? ? Hs Hrest]; subst.
      assert (Hfil : forall p, Forall P (filter p rest)).
      { intros p. apply Forall_forall. intros x Hx. apply filter_In in Hx.
        rewrite Forall_forall in Hrest. apply Hrest. apply Hx. }
      constructor.
      + apply HQ; [exact Hs|apply Hfil].
      + apply IH; [|apply Hfil].
        pose proof (filter_length_le (fun x => negb (same_key (sel_key s) x)) rest). simpl in Hlen. lia.
  Qed.

  Lemma groups_NEg fl : NE fl -> Forall NEg (groups fl).
  Proof.
    intros [Hm|[Hfr Hs]].
    - apply Forall_forall. intros g _. left. exact Hm.
    - apply (groups_Forall (fun s => sel_noent s = true) NEg) with (n := length fl); [|lia|].
      + intros s same Hs1 Hsame. right. cbn [fst snd]. repeat split; [exact Hfr|exact Hs1|].
        apply flat_map_subs_noent. cbn [sels_noent forallb]. rewrite Hs1. cbn [andb].
        apply forallb_forall. rewrite Forall_forall in Hsame. exact Hsame.
      + apply Forall_forall. intros x Hx. unfold sels_noent in Hs. rewrite forallb_forall in Hs. apply Hs. exact Hx.
  Qed.

  Lemma groups_first_in fl : Forall (fun g : grp => In (snd (fst g)) fl) (groups fl).
  Proof.
    apply (groups_Forall (fun s => In s fl)) with (n := length fl); [|lia|].
    - intros s same Hs _. exact Hs.
    - apply Forall_forall. intros x Hx. exact Hx.
  Qed.

  Lemma NE_flatten f objty sels fl : NE sels -> flatten' f objty sels = FlatOk fl -> NE fl.
  Proof.
    intros [Hm|[Hfr Hs]] Hf; [left; exact Hm|right]. split; [exact Hfr|].
    apply (flatten_noent Hfr f objty sels); assumption.
  Qed.

  (* ---- loops ---- *)
  Lemma sels_go_sim (f1 f2 : name -> selection -> list selection -> list pel -> cres) p gs :
    Forall (fun g : grp => forall p', f1 (fst (fst g)) (snd (fst g)) (snd g) (pre ++ p') =
                                      shift_cres pre (f2 (fst (fst g)) (snd (fst g)) (snd g) p')) gs ->
    sels_go f1 (pre ++ p) gs = shift_sres pre (sels_go f2 p gs).
  Proof.
    induction gs as [|[[key s] subs] rest IH]; intros HF; [reflexivity|].
    inversion HF as [|? ? Hg Hrest]; subst. cbn [fst snd] in Hg.
    cbn [sels_go]. rewrite <- app_assoc. rewrite Hg. cbn [shift_cres c_viol c_errs c_json].
    destruct (c_viol (f2 key s subs (p ++ [PN key]))); [reflexivity|].
    rewrite (IH Hrest).
    destruct (sels_go f2 p rest) as [o e2]. unfold shift_sres. cbn [fst snd].
    rewrite shift_errs_app. reflexivity.
  Qed.

  Lemma lst_loop_sim (c1 c2 : fval -> list pel -> cres) p items :
    (forall it p', In it items -> c1 it (pre ++ p') = shift_cres pre (c2 it p')) ->
    forall i, lst_loop c1 (pre ++ p) i items =
              (let '(out, errs, viol) := lst_loop c2 p i items in (out, shift_errs pre errs, viol)).
  Proof.
    induction items as [|it rest IH]; intros Hc i; [reflexivity|].
    cbn [lst_loop]. rewrite <- app_assoc. rewrite (Hc it _ (or_introl eq_refl)).
    rewrite IH; [|intros it' p' Hin; apply Hc; right; exact Hin].
    destruct (lst_loop c2 p (i + 1) rest) as [[out errs] viol].
    cbn [shift_cres c_json c_errs c_viol]. rewrite shift_errs_app. reflexivity.
  Qed.

  Lemma ent_loop_sim (s1 s2 : name -> oval -> list selection -> list pel -> sres) subs p reprs :
    (forall t ov p', s1 t ov subs (pre ++ p') = shift_sres pre (s2 t ov subs p')) ->
    forall i, ent_loop U s1 subs (pre ++ p) i reprs =
              (let '(its, errs) := ent_loop U s2 subs p i reprs in (its, shift_errs pre errs)).
  Proof.
    intros Hs. induction reprs as [|r rest IH]; intros i; [reflexivity|].
    cbn [ent_loop]. unfold ent_item. rewrite IH.
    destruct (ent_loop U s2 subs p (i + 1) rest) as [its errs].
    destruct (find_by_repr U r) as [e|]; [|reflexivity].
    rewrite <- app_assoc. rewrite Hs.
    destruct (s2 (en_type e) {| ov_ent := e; ov_repr := Some r |} subs (p ++ [PI i])) as [o e2].
    unfold shift_sres. cbn [fst snd]. rewrite shift_errs_app. reflexivity.
  Qed.

  Lemma nonnull_wrap_shift p r :
    nonnull_wrap (pre ++ p) (shift_cres pre r) = shift_cres pre (nonnull_wrap p r).
  Proof.
    destruct r as [j errs viol]. unfold nonnull_wrap, shift_cres. cbn [c_json c_errs c_viol].
    destruct j; try reflexivity. destruct errs; reflexivity.
  Qed.

  Lemma leaf_value_sim e ro1 ro2 fname cargs fv p :
    (forall x, In x (fval_reqs fv) -> req_read md1 ro1 e x = req_read md2 ro2 e x) ->
    leaf_value md1 {| ov_ent := e; ov_repr := ro1 |} fname cargs fv (pre ++ p) =
    shift_cres pre (leaf_value md2 {| ov_ent := e; ov_repr := ro2 |} fname cargs fv p).
  Proof.
    intros Hr. destruct fv as [j|t0 k| |l| | |t0 a|fs]; try reflexivity.
    rewrite !leaf_value_req. cbn [ov_repr ov_ent]. cbn [fval_reqs] in Hr.
    rewrite (map_ext_in _ _ fs Hr).
    cbv zeta. destruct (forallb _ _); reflexivity.
  Qed.

  Definition RQ (e : entity) (ro1 ro2 : option json) (fv : fval) : Prop :=
    forall x, In x (fval_reqs fv) -> req_read md1 ro1 e x = req_read md2 ro2 e x.

  Definition sim_at (f : nat) : Prop :=
    (forall objty e ro1 ro2 sels p,
        NE sels -> (forall x, req_read md1 ro1 e x = req_read md2 ro2 e x) ->
        es1 f objty {| ov_ent := e; ov_repr := ro1 |} sels (pre ++ p) =
        shift_sres pre (es2 f objty {| ov_ent := e; ov_repr := ro2 |} sels p)) /\
    (forall objty e ro1 ro2 key s subs p,
        NEg (key, s, subs) -> RQ e ro1 ro2 (ent_fval e (sel_fname s)) ->
        ef1 f objty {| ov_ent := e; ov_repr := ro1 |} key s subs (pre ++ p) =
        shift_cres pre (ef2 f objty {| ov_ent := e; ov_repr := ro2 |} key s subs p)) /\
    (forall t e ro1 ro2 fname cargs fv subs p,
        NE subs -> RQ e ro1 ro2 fv ->
        co1 f t {| ov_ent := e; ov_repr := ro1 |} fname cargs fv subs (pre ++ p) =
        shift_cres pre (co2 f t {| ov_ent := e; ov_repr := ro2 |} fname cargs fv subs p)).

  Lemma shift_bad e : (forall p, e <> XErr p) -> bad e = shift_cres pre (bad e).
  Proof. intros H. destruct e; try reflexivity. exfalso. apply (H path). reflexivity. Qed.

  (* selection-set level, given the field level at the fuel below *)
  Lemma sels_sim_step f objty e ro1 ro2 sels p :
    (forall key s subs p',
        NEg (key, s, subs) -> RQ e ro1 ro2 (ent_fval e (sel_fname s)) ->
        ef1 f objty {| ov_ent := e; ov_repr := ro1 |} key s subs (pre ++ p') =
        shift_cres pre (ef2 f objty {| ov_ent := e; ov_repr := ro2 |} key s subs p')) ->
    NE sels ->
    (forall fl, flatten' (S f) objty sels = FlatOk fl ->
                forall s, In s fl -> RQ e ro1 ro2 (ent_fval e (sel_fname s))) ->
    es1 (S f) objty {| ov_ent := e; ov_repr := ro1 |} sels (pre ++ p) =
    shift_sres pre (es2 (S f) objty {| ov_ent := e; ov_repr := ro2 |} sels p).
  Proof.
    intros Hef Hne Hrq. rewrite !exec_sels_S.
    destruct (flatten' (S f) objty sels) as [fl|er] eqn:Efl.
    - apply sels_go_sim.
      pose proof (groups_NEg fl (NE_flatten _ _ _ _ Hne Efl)) as HN.
      pose proof (groups_first_in fl) as HI.
      fold (groups fl).
      rewrite Forall_forall in *. intros [[key s] subs] Hg p'. cbn [fst snd].
      apply Hef; [apply (HN _ Hg)|]. apply (Hrq fl eq_refl). apply (HI _ Hg).
    - (* flatten only fails with XInvalid / XOutOfFuel *)
      unfold shift_sres. cbn [fst snd shift_errs map].
      assert (Hnx : forall q, er <> XErr q).
      { clear -Efl. revert objty sels Efl. generalize (S f) as n.
        induction n as [|n IH]; intros objty sels Efl q; [rewrite flatten_0 in Efl; injection Efl as <-; discriminate|].
        destruct sels as [|s rest]; [rewrite flatten_S_nil in Efl; discriminate|].
        rewrite flatten_S_cons in Efl.
        destruct (flat_here sc frags vars (flatten' n objty) objty s) as [l1|e1] eqn:Eh.
        - cbn [flat_seq] in Efl. destruct (flatten' n objty rest) as [l2|e2] eqn:Er; [discriminate|].
          injection Efl as <-. apply (IH _ _ Er).
        - cbn [flat_seq] in Efl. injection Efl as <-.
          destruct s as [a n0 args dirs ss|cond dirs ss|n0 dirs]; cbn [flat_here] in Eh.
          + destruct (included vars dirs); discriminate.
          + destruct (negb (included vars dirs)); [discriminate|].
            destruct cond as [c|]; [|apply (IH _ _ Eh)].
            destruct (kind_of sc c).
            * destruct (type_applies sc objty c); [apply (IH _ _ Eh)|discriminate].
            * destruct (bytes_eqb c [95; 69; 110; 116; 105; 116; 121]); [apply (IH _ _ Eh)|].
              injection Eh as <-. discriminate.
          + destruct (negb (included vars dirs)); [discriminate|].
            destruct (find_frag n0 frags) as [fr|]; [|injection Eh as <-; discriminate].
            destruct (type_applies sc objty (fr_type fr)); [apply (IH _ _ Eh)|discriminate]. }
      destruct er; try reflexivity. exfalso. apply (Hnx path). reflexivity.
  Qed.

  Lemma sim_all : forall f, sim_at f.
  Proof.
    induction f as [|f [IHs [IHf IHc]]].
    - split; [|split]; intros; [rewrite !exec_sels_0|rewrite !exec_field_0|rewrite !complete_0]; reflexivity.
    - split; [|split].
      + (* exec_sels *)
        intros objty e ro1 ro2 sels p Hne Hrq.
        apply sels_sim_step; [|exact Hne|].
        * intros key s subs p' Hg Hr. apply IHf; assumption.
        * intros fl _ s _ x _. apply Hrq.
      + (* exec_field *)
        intros objty e ro1 ro2 key s subs p Hg Hrq. rewrite !exec_field_S.
        destruct s as [a fname args dirs ss| |]; try reflexivity.
        destruct (bytes_eqb fname s_typename); [reflexivity|].
        assert (Hsubs : NE subs).
        { destruct Hg as [Hm|(Hfr & _ & Hs)]; [left; exact Hm|right; split; assumption]. }
        assert (Hie : is_entities sc md1 fname objty = is_entities sc md2 fname objty /\
                      (is_entities sc md2 fname objty = true -> md1 = md2)).
        { destruct Hg as [Hm|(Hfr & Hs & _)]; [rewrite Hm; split; auto|].
          cbn [snd fst sel_noent] in Hs. apply andb_true_iff in Hs. destruct Hs as [Hs _].
          apply negb_true_iff in Hs. unfold is_entities. rewrite Hs.
          destruct md1, md2; cbn; split; auto; discriminate. }
        destruct Hie as [Hie Hmd]. rewrite Hie.
        destruct (is_entities sc md2 fname objty).
        * specialize (Hmd eq_refl).
          rewrite (ent_loop_sim (es1 f) (es2 f)).
          -- destruct (ent_loop U (es2 f) subs p 0 (reprs_of vars args)) as [its errs]. reflexivity.
          -- intros t [e' ro'] p'. apply IHs; [exact Hsubs|]. intros x. rewrite Hmd. reflexivity.
        * destruct (find_type objty (s_types sc)) as [td|]; [|reflexivity].
          destruct (find_field fname (td_fields td)) as [fd|]; [|reflexivity].
          unfold field_fval. cbn [ov_ent]. apply IHc; [exact Hsubs|exact Hrq].
      + (* complete *)
        intros t e ro1 ro2 fname cargs fv subs p Hne Hrq. rewrite !complete_S.
        destruct t as [n|t'|t'].
        * destruct (is_leaf_kind sc n) as [[|]|]; [apply leaf_value_sim; exact Hrq| |reflexivity].
          unfold complete_obj.
          destruct (obj_target U cargs fv) as [[e'|]|]; try reflexivity.
          destruct (negb (obj_type_ok sc n e')); [reflexivity|].
          rewrite (IHs (en_type e') e' None None subs p Hne).
          2:{ intros x. unfold req_read. destruct md1, md2; reflexivity. }
          destruct (es2 f (en_type e') {| ov_ent := e'; ov_repr := None |} subs p) as [[l|] errs]; reflexivity.
        * destruct fv as [j|t0 k| |l| | |t0 a|fs]; try reflexivity.
          -- destruct j; try reflexivity.
             apply IHc; [exact Hne|]. intros x Hx. cbn [fval_reqs] in Hx. rewrite fval_reqs_map_FSc in Hx. destruct Hx.
          -- rewrite (lst_loop_sim (fun it p0 => co1 f t' {| ov_ent := e; ov_repr := ro1 |} fname cargs it subs p0)
                                   (fun it p0 => co2 f t' {| ov_ent := e; ov_repr := ro2 |} fname cargs it subs p0)).
             ++ destruct (lst_loop _ p 0 l) as [[out errs] viol]. unfold list_finish. destruct viol; reflexivity.
             ++ intros it p' Hin. apply IHc; [exact Hne|]. intros x Hx. apply Hrq. cbn [fval_reqs].
                apply in_flat_map. exists it. split; assumption.
        * rewrite (IHc t' e ro1 ro2 fname cargs fv subs p Hne Hrq). apply nonnull_wrap_shift.
  Qed.
End Sim.

(* ---- instances ---- *)
Section Instances.
  Variable sc : schema.
  Variable U : universe.
  Variable frags : list fragment.
  Variable vars : list (bytes * json).

  (* path relocation *)
  Theorem exec_sels_path_shift md pre f objty ov sels p :
    exec_sels sc U frags vars md f objty ov sels (pre ++ p) =
    shift_sres pre (exec_sels sc U frags vars md f objty ov sels p).
  Proof.
    destruct ov as [e ro]. apply (sim_all sc U frags vars md md pre f); [left; reflexivity|reflexivity].
  Qed.
  Corollary exec_sels_path_nil md pre f objty ov sels :
    exec_sels sc U frags vars md f objty ov sels pre =
    shift_sres pre (exec_sels sc U frags vars md f objty ov sels []).
  Proof. rewrite <- (app_nil_r pre) at 1. apply exec_sels_path_shift. Qed.

  (* subgraph mode == monolithic mode for an object without representation, as long as
     [_entities] is not selected *)
  Theorem exec_sels_sub_mono f objty e sels p :
    frags_noent frags = true -> sels_noent sels = true ->
    exec_sels sc U frags vars Sub f objty {| ov_ent := e; ov_repr := None |} sels p =
    exec_sels sc U frags vars Mono f objty {| ov_ent := e; ov_repr := None |} sels p.
  Proof.
    intros Hfr Hs.
    pose proof (sim_all sc U frags vars Sub Mono [] f) as [H _].
    specialize (H objty e None None sels p). cbn [app] in H. rewrite H.
    - apply shift_sres_nil_pre.
    - right. split; assumption.
    - reflexivity.
  Qed.

  (* the object under [_entities] (subgraph mode, with representation [r]) == the plain object in
     monolithic mode, provided the required values read from [r] agree with the entity's own, for
     the [FReq] fields selected at top level *)
  Theorem exec_sels_repr_sim f objty e r sels pre fl :
    frags_noent frags = true -> sels_noent sels = true ->
    flatten sc frags vars f objty sels = FlatOk fl ->
    (forall s, In s fl -> forall x, In x (fval_reqs (ent_fval e (sel_fname s))) ->
                         req_read Sub (Some r) e x = req_read Mono None e x) ->
    exec_sels sc U frags vars Sub f objty {| ov_ent := e; ov_repr := Some r |} sels pre =
    shift_sres pre (exec_sels sc U frags vars Mono f objty {| ov_ent := e; ov_repr := None |} sels []).
  Proof.
    intros Hfr Hs Hfl Hrq. destruct f as [|f]; [rewrite flatten_0 in Hfl; discriminate|].
    rewrite <- (app_nil_r pre) at 1.
    apply sels_sim_step; [| right; split; assumption|].
    - intros key s subs p' Hg Hr. apply (sim_all sc U frags vars Sub Mono pre f); assumption.
    - intros fl' Hfl' s Hin. rewrite Hfl in Hfl'. injection Hfl' as <-. intros x Hx. apply (Hrq s Hin x Hx).
  Qed.
End Instances.
