(* C01 / E3: entity join.  For a key-consistent universe, [_entities] in subgraph mode answers a
   representation built from an entity's key with exactly the object that monolithic execution of
   the same selections on that entity produces. *)
From Coq Require Import PeanoNat Lia ZifyNat ZifyN ZifyBool.
From Gv Require Import lib.Bytes lib.Json lib.Gql lib.Exec C01.ProofsBase C01.ProofsFuel C01.ProofsSim.
Open Scope N_scope.

(* ---- json_eqb is reflexive ---- *)
Lemma json_eqb_refl : forall a, json_eqb a a = true.
Proof.
  induction a as [| b | r | s | l IH | m IH] using json_ind'; cbn [json_eqb].
  - reflexivity.
  - apply eqb_reflx.
  - apply bytes_eqb_refl.
  - apply bytes_eqb_refl.
  - induction IH as [|x l Hx HF IHl]; [reflexivity|]. rewrite Hx. exact IHl.
  - induction IH as [|[k v] m Hx HF IHm]; [reflexivity|]. cbn [snd] in Hx. rewrite bytes_eqb_refl, Hx. exact IHm.
Qed.

(* ---- representations and key consistency ---- *)
Definition repr_members (e : entity) (ks : list name) : list (bytes * json) :=
  flat_map (fun k => match assoc k (en_fields e) with Some (FSc j) => [(k, j)] | _ => [] end) ks.
(* [__typename] plus the listed leaf fields of [e] with their [FSc] values *)
Definition repr_of (e : entity) (ks : list name) : json :=
  JObj ((s_typename, JStr (en_type e)) :: repr_members e ks).

Definition repr_match_ent (U : universe) (r : json) (e : entity) : bool :=
  match r with
  | JObj m =>
    match obj_get s_typename m with
    | Some (JStr t) => bytes_eqb (en_type e) t && repr_matches U 8 e m
    | _ => false
    end
  | _ => false
  end.

Lemma find_by_repr_find U r : find_by_repr U r = find (repr_match_ent U r) U.
Proof.
  assert (Hnone : forall l : universe, find (fun _ => false) l = None) by (induction l; auto).
  unfold find_by_repr, repr_match_ent. destruct r; try (symmetry; apply Hnone).
  destruct (obj_get s_typename members) as [[]|]; try (symmetry; apply Hnone). reflexivity.
Qed.

(* keys identify entities: for every entity and every key declared for its type, exactly one entity
   of the universe matches the representation built from that key (FEDLAB.md) *)
Definition key_consistent (decls : list (name * list name)) (U : universe) : bool :=
  forallb (fun e =>
    forallb (fun d => negb (bytes_eqb (fst d) (en_type e)) ||
                      Nat.eqb (length (filter (repr_match_ent U (repr_of e (snd d))) U)) 1) decls) U.

Lemma repr_members_in e ks k j : In (k, j) (repr_members e ks) -> assoc k (en_fields e) = Some (FSc j).
Proof.
  unfold repr_members. intros H. apply in_flat_map in H. destruct H as (k' & _ & H).
  destruct (assoc k' (en_fields e)) as [[]|] eqn:E; try destruct H.
  - injection H as <- <-. exact E.
  - destruct H.
Qed.

Lemma repr_match_self U e ks : repr_match_ent U (repr_of e ks) e = true.
Proof.
  unfold repr_match_ent, repr_of. cbn [obj_get]. rewrite !bytes_eqb_refl. cbn [andb].
  cbn [repr_matches forallb]. rewrite bytes_eqb_refl. cbn [andb].
  apply forallb_forall. intros [k j] Hin. apply repr_members_in in Hin.
  destruct (bytes_eqb k s_typename); [reflexivity|]. rewrite Hin. apply json_eqb_refl.
Qed.

Lemma find_unique {A} (p : A -> bool) (l : list A) (e : A) :
  length (filter p l) = 1%nat -> In e l -> p e = true -> find p l = Some e.
Proof.
  intros Hlen Hin Hp.
  destruct (filter p l) as [|x [|y t]] eqn:Ef; try discriminate.
  assert (He : In e (filter p l)) by (apply filter_In; auto). rewrite Ef in He. destruct He as [<-|[]].
  destruct (find p l) as [e'|] eqn:Efi.
  - apply find_some in Efi. assert (He' : In e' (filter p l)) by (apply filter_In; exact Efi).
    rewrite Ef in He'. destruct He' as [<-|[]]. reflexivity.
  - exfalso. apply (find_none _ _ Efi) in Hin. congruence.
Qed.

Theorem key_consistent_find decls U e ks :
  key_consistent decls U = true -> In e U -> In (en_type e, ks) decls ->
  find_by_repr U (repr_of e ks) = Some e.
Proof.
  intros Hk He Hd. unfold key_consistent in Hk. rewrite forallb_forall in Hk.
  specialize (Hk e He). rewrite forallb_forall in Hk. specialize (Hk _ Hd). cbn [fst snd] in Hk.
  rewrite bytes_eqb_refl in Hk. cbn [negb orb] in Hk. apply Nat.eqb_eq in Hk.
  rewrite find_by_repr_find. apply find_unique; [exact Hk|exact He|apply repr_match_self].
Qed.

(* a representation that carries further leaf fields of the entity still identifies it *)
Lemma find_stronger {A} (p p' : A -> bool) l e :
  find p l = Some e -> (forall x, p' x = true -> p x = true) -> p' e = true -> find p' l = Some e.
Proof.
  intros Hf Himp He. induction l as [|x l IH]; [discriminate|]. cbn [find] in *.
  destruct (p x) eqn:Epx.
  - injection Hf as ->. rewrite He. reflexivity.
  - destruct (p' x) eqn:Ep'x; [apply Himp in Ep'x; congruence|]. apply IH. exact Hf.
Qed.

Lemma find_by_repr_extend U e ks rs :
  find_by_repr U (repr_of e ks) = Some e -> find_by_repr U (repr_of e (ks ++ rs)) = Some e.
Proof.
  rewrite !find_by_repr_find. intros H. apply (find_stronger _ _ _ _ H); [|apply repr_match_self].
  intros x. unfold repr_match_ent, repr_of. cbn [obj_get]. rewrite !bytes_eqb_refl.
  intros Hx. apply andb_true_iff in Hx. destruct Hx as [H1 H2]. rewrite H1. cbn [andb].
  cbn [repr_matches forallb] in *. rewrite bytes_eqb_refl in *. cbn [andb] in *.
  unfold repr_members in H2. rewrite flat_map_app, forallb_app in H2. apply andb_true_iff in H2. apply H2.
Qed.

Lemma Forall2_impl' {A B} (P Q : A -> B -> Prop) la lb :
  (forall a b, P a b -> Q a b) -> Forall2 P la lb -> Forall2 Q la lb.
Proof. intros H HF. induction HF; constructor; auto. Qed.

(* what a required field reads from such a representation *)
Lemma obj_get_repr_members e x kr :
  obj_get x (repr_members e kr) =
  if mem_bytes x kr then match assoc x (en_fields e) with Some (FSc j) => Some j | _ => None end else None.
Proof.
  induction kr as [|k kr IH]; [reflexivity|].
  unfold repr_members in *. cbn [flat_map mem_bytes].
  destruct (bytes_eqb x k) eqn:Exk; cbn [orb].
  - apply bytes_eqb_eq in Exk. subst k.
    destruct (assoc x (en_fields e)) as [[j| | | | | | |]|] eqn:Ea; cbn [app obj_get];
      try (rewrite IH; destruct (mem_bytes x kr); reflexivity).
    rewrite bytes_eqb_refl. reflexivity.
  - destruct (assoc k (en_fields e)) as [[j| | | | | | |]|]; cbn [app obj_get]; try exact IH.
    rewrite Exk. exact IH.
Qed.

Definition sel_reqs (e : entity) (fl : list selection) : list name :=
  flat_map (fun s => fval_reqs (ent_fval e (sel_fname s))) fl.
(* every value required by a selected [FReq] field is carried by the representation fields [kr] *)
Definition reqs_covered (e : entity) (fl : list selection) (kr : list name) : bool :=
  forallb (fun x => mem_bytes x kr && negb (bytes_eqb x s_typename)) (sel_reqs e fl).

Lemma reqs_covered_agree e fl kr :
  reqs_covered e fl kr = true ->
  forall s, In s fl -> forall x, In x (fval_reqs (ent_fval e (sel_fname s))) ->
                       req_read Sub (Some (repr_of e kr)) e x = req_read Mono None e x.
Proof.
  intros Hc s Hs x Hx. unfold reqs_covered in Hc. rewrite forallb_forall in Hc.
  assert (Hin : In x (sel_reqs e fl)) by (apply in_flat_map; exists s; split; assumption).
  specialize (Hc x Hin). apply andb_true_iff in Hc. destruct Hc as [Hm Ht]. apply negb_true_iff in Ht.
  unfold req_read, repr_of. cbn [obj_get]. rewrite Ht. rewrite obj_get_repr_members, Hm. reflexivity.
Qed.

Lemma reqs_covered_nil e fl kr : sel_reqs e fl = [] -> reqs_covered e fl kr = true.
Proof. unfold reqs_covered. intros ->. reflexivity. Qed.

Section Join.
  Variable sc : schema.
  Variable U : universe.
  Variable frags : list fragment.
  Variable vars : list (bytes * json).

  Notation flatten' := (flatten sc frags vars).
  Notation exec_sels' := (exec_sels sc U frags vars).
  Notation exec_field' := (exec_field sc U frags vars).

  (* [... on T { sel }] on an object of type [T] is [sel] *)
  Lemma exec_sels_inline_on md g T ov sel p :
    kind_of sc T <> None ->
    no_oof (snd (exec_sels' md g T ov sel p)) = true ->
    exec_sels' md (S g) T ov [SInline (Some T) [] sel] p = exec_sels' md g T ov sel p.
  Proof.
    intros Hk Hn. destruct g as [|g]; [rewrite exec_sels_0 in Hn; discriminate|].
    rewrite exec_sels_S. rewrite exec_sels_S in Hn. rewrite exec_sels_S.
    rewrite (flatten_S_cons sc frags vars (S g) T). cbn [flat_here included negb].
    destruct (kind_of sc T) as [k|]; [|contradiction].
    assert (Ha : type_applies sc T T = true) by (unfold type_applies; rewrite bytes_eqb_refl; reflexivity).
    rewrite Ha. rewrite flatten_S_nil.
    destruct (flatten' (S g) T sel) as [fl|e]; cbn [flat_seq]; [|reflexivity].
    rewrite app_nil_r.
    apply sels_go_ext_noof; [|exact Hn].
    intros key s subs p' Hp. apply exec_field_fuel_mono; [lia|exact Hp].
  Qed.

  (* the [_entities] loop against a list of entities *)
  Fixpoint join_loop (mono : entity -> sres) (path : list pel) (i : N) (es : list entity)
    : list json * list xerr :=
    match es with
    | [] => ([], [])
    | e :: rest =>
      let '(its, ers) := join_loop mono path (i + 1) rest in
      (ojson (fst (mono e)) :: its, shift_errs (path ++ [PI i]) (snd (mono e)) ++ ers)
    end.

  Lemma ent_loop_join (esf : name -> oval -> list selection -> list pel -> sres) mono subs path :
    forall rs es i,
      Forall2 (fun r e => find_by_repr U r = Some e /\
                          forall pth, esf (en_type e) {| ov_ent := e; ov_repr := Some r |} subs pth =
                                      shift_sres pth (mono e)) rs es ->
      ent_loop U esf subs path i rs = join_loop mono path i es.
  Proof.
    induction rs as [|r rs IH]; intros es i HF; inversion HF as [|? e ? es' [Hfind Hitem] Hrest]; subst; [reflexivity|].
    cbn [ent_loop join_loop]. unfold ent_item. rewrite Hfind, Hitem, (IH es' (i + 1) Hrest).
    destruct (join_loop mono path (i + 1) es') as [its ers]. reflexivity.
  Qed.

  Definition mono_at (fM : nat) (T : name) (sel : list selection) (e : entity) : sres :=
    exec_sels' Mono fM T {| ov_ent := e; ov_repr := None |} sel [].

  (* one item: the object executed under [_entities] *)
  Lemma entity_item fM g T sel e r fl pth :
    kind_of sc T <> None -> frags_noent frags = true -> sels_noent sel = true ->
    en_type e = T ->
    flatten' fM T sel = FlatOk fl ->
    (forall s, In s fl -> forall x, In x (fval_reqs (ent_fval e (sel_fname s))) ->
                         req_read Sub (Some r) e x = req_read Mono None e x) ->
    no_oof (snd (mono_at fM T sel e)) = true ->
    (fM <= g)%nat ->
    exec_sels' Sub (S g) (en_type e) {| ov_ent := e; ov_repr := Some r |} [SInline (Some T) [] sel] pth =
    shift_sres pth (mono_at fM T sel e).
  Proof.
    intros Hk Hfr Hs HT Hfl Hrq Hn Hle. rewrite HT. unfold mono_at in *.
    assert (Hsim : exec_sels' Sub g T {| ov_ent := e; ov_repr := Some r |} sel pth =
                   shift_sres pth (exec_sels' Mono fM T {| ov_ent := e; ov_repr := None |} sel [])).
    { rewrite (exec_sels_repr_sim sc U frags vars g T e r sel pth fl Hfr Hs);
        [|apply flatten_mono_ok with (f := fM); assumption|exact Hrq].
      rewrite (exec_sels_fuel_mono sc U frags vars Mono fM g); [reflexivity|exact Hle|exact Hn]. }
    rewrite exec_sels_inline_on; [exact Hsim|exact Hk|].
    rewrite Hsim. unfold shift_sres. cbn [snd]. rewrite no_oof_shift. exact Hn.
  Qed.

  (* E3 at field level, for a list of representations *)
  Theorem entity_join_field_list fM f T sel fl ovq key a args dirs ss path rs es :
    kind_of sc T <> None -> frags_noent frags = true -> sels_noent sel = true ->
    reprs_of vars args = rs ->
    flatten' fM T sel = FlatOk fl ->
    Forall2 (fun r e =>
               find_by_repr U r = Some e /\ en_type e = T /\
               (forall s, In s fl -> forall x, In x (fval_reqs (ent_fval e (sel_fname s))) ->
                                    req_read Sub (Some r) e x = req_read Mono None e x) /\
               no_oof (snd (mono_at fM T sel e)) = true) rs es ->
    (fM + 2 <= f)%nat ->
    exec_field' Sub f (s_query sc) ovq key (SField a s_entities args dirs ss) [SInline (Some T) [] sel] path =
    {| c_json := JArr (fst (join_loop (mono_at fM T sel) path 0 es));
       c_errs := snd (join_loop (mono_at fM T sel) path 0 es);
       c_viol := false |}.
  Proof.
    intros Hk Hfr Hs Hrs Hfl HF Hle.
    destruct f as [|[|g]]; try lia. rewrite exec_field_S.
    assert (Hne : bytes_eqb s_entities s_typename = false) by reflexivity. rewrite Hne.
    unfold is_entities. rewrite !bytes_eqb_refl. cbn [andb]. rewrite Hrs.
    rewrite (ent_loop_join _ (mono_at fM T sel) _ path rs es 0); [reflexivity|].
    eapply Forall2_impl'; [|exact HF]. cbn beta. intros r e (Hfind & HT & Hrq & Hn). split; [exact Hfind|].
    intros pth. apply (entity_item fM g T sel e r fl pth); try assumption. lia.
  Qed.
End Join.

(* ---- the request document and [execute] ---- *)
Definition entities_field (subs : list selection) : selection :=
  SField None s_entities [(s_representations, VVar s_representations)] [] subs.
Definition entities_op (vds : list vardef) (T : name) (sel : list selection) : operation :=
  {| op_kind := OpQuery; op_name := None; op_vars := vds; op_dirs := [];
     op_sels := [entities_field [SInline (Some T) [] sel]] |}.
(* query(vds){ _entities(representations:$representations){ ... on T { sel } } }  + fragments *)
Definition entities_doc (vds : list vardef) (T : name) (sel : list selection) (frags : list fragment) : document :=
  DOp (entities_op vds T sel) :: map DFrag frags.

Lemma doc_frags_map frags : doc_frags (map DFrag frags) = frags.
Proof. induction frags as [|f l IH]; [reflexivity|]. cbn. rewrite IH. reflexivity. Qed.
Lemma doc_ops_map frags : doc_ops (map DFrag frags) = [].
Proof. induction frags as [|f l IH]; [reflexivity|]. cbn. exact IH. Qed.

Definition supplied_members (supplied : json) : list (bytes * json) :=
  match supplied with JObj m => m | _ => [] end.

Section JoinExecute.
  Variable sc : schema.
  Variable U : universe.
  Variable frags : list fragment.

  Theorem entity_join_execute_list fM f vds T sel supplied root fl rs es :
    let vars := effective_vars (entities_op vds T sel) (supplied_members supplied) in
    find_entity U (s_query sc) [] = Some root ->
    kind_of sc T <> None -> frags_noent frags = true -> sels_noent sel = true ->
    assoc s_representations vars = Some (JArr rs) ->
    flatten sc frags vars fM T sel = FlatOk fl ->
    Forall2 (fun r e =>
               find_by_repr U r = Some e /\ en_type e = T /\
               (forall s, In s fl -> forall x, In x (fval_reqs (ent_fval e (sel_fname s))) ->
                                    req_read Sub (Some r) e x = req_read Mono None e x) /\
               no_oof (snd (mono_at sc U frags vars fM T sel e)) = true) rs es ->
    (fM + 3 <= f)%nat ->
    execute f sc U Sub (entities_doc vds T sel frags) None supplied =
    {| rs_data := JObj [(s_entities, JArr (fst (join_loop (mono_at sc U frags vars fM T sel) [PN s_entities] 0 es)))];
       rs_errs := snd (join_loop (mono_at sc U frags vars fM T sel) [PN s_entities] 0 es) |}.
  Proof.
    intros vars Hroot Hk Hfr Hs Hv Hfl HF Hle.
    unfold execute, entities_doc. cbn [pick_op doc_ops]. rewrite doc_ops_map.
    cbn [op_kind entities_op root_type]. rewrite Hroot.
    cbn [doc_frags]. rewrite doc_frags_map.
    change (effective_vars _ (match supplied with JObj m => m | _ => [] end)) with vars.
    cbn [op_sels entities_op].
    destruct f as [|[|f]]; try lia.
    rewrite exec_sels_S. rewrite flatten_S_cons, flatten_S_nil.
    unfold entities_field at 1. cbn [flat_here included flat_seq app length].
    assert (Hg : forall s0 : list selection,
               group 2 [SField None s_entities [(s_representations, VVar s_representations)] [] s0] =
               [(s_entities, SField None s_entities [(s_representations, VVar s_representations)] [] s0, s0)]).
    { intros s0. cbn. rewrite app_nil_r. reflexivity. }
    rewrite Hg. cbn [sels_go app].
    assert (Hre : reprs_of vars [(s_representations, VVar s_representations)] = rs).
    { unfold reprs_of. cbn [assoc]. rewrite bytes_eqb_refl. cbn [lit_json]. rewrite Hv. reflexivity. }
    rewrite (entity_join_field_list sc U frags vars fM (S f) T sel fl _ _ _ _ _ _ _ rs es Hk Hfr Hs Hre Hfl HF); [|lia].
    cbn [c_viol c_json c_errs]. rewrite app_nil_r. reflexivity.
  Qed.
End JoinExecute.

(* ---- E3 with key consistency, through [execute] ---- *)
Lemma Forall2_map_l {A B} (P : B -> A -> Prop) (g : A -> B) l :
  Forall (fun a => P (g a) a) l -> Forall2 P (map g l) l.
Proof. induction 1; cbn; constructor; auto. Qed.

Lemma join_loop_items sc U frags vars fM T sel path es :
  forall i, fst (join_loop (mono_at sc U frags vars fM T sel) path i es) =
            map (fun e => ojson (fst (mono_at sc U frags vars fM T sel e))) es.
Proof.
  induction es as [|e es IH]; intros i; [reflexivity|]. cbn [join_loop map].
  specialize (IH (i + 1)). destruct (join_loop _ path (i + 1) es) as [its ers]. cbn [fst] in *. rewrite IH. reflexivity.
Qed.

Section JoinKeyed.
  Variable sc : schema.
  Variable U : universe.
  Variable frags : list fragment.
  Variable decls : list (name * list name).

  (* several representations, each built from the key [ks] plus the required leaf fields [rq]:
     the i-th item is the i-th entity's object *)
  Theorem entity_join_list_requires_execute fM f vds T sel supplied root fl ks rq es :
    let vars := effective_vars (entities_op vds T sel) (supplied_members supplied) in
    let mono := mono_at sc U frags vars fM T sel in
    key_consistent decls U = true -> In (T, ks) decls ->
    find_entity U (s_query sc) [] = Some root ->
    kind_of sc T <> None -> frags_noent frags = true -> sels_noent sel = true ->
    assoc s_representations vars = Some (JArr (map (fun e => repr_of e (ks ++ rq)) es)) ->
    flatten sc frags vars fM T sel = FlatOk fl ->
    Forall (fun e => In e U /\ en_type e = T /\ reqs_covered e fl (ks ++ rq) = true /\
                     no_oof (snd (mono e)) = true) es ->
    (fM + 3 <= f)%nat ->
    execute f sc U Sub (entities_doc vds T sel frags) None supplied =
    {| rs_data := JObj [(s_entities, JArr (map (fun e => ojson (fst (mono e))) es))];
       rs_errs := snd (join_loop mono [PN s_entities] 0 es) |}.
  Proof.
    intros vars mono Hkc Hd Hroot Hk Hfr Hs Hv Hfl HF Hle.
    rewrite (entity_join_execute_list sc U frags fM f vds T sel supplied root fl
               (map (fun e => repr_of e (ks ++ rq)) es) es Hroot Hk Hfr Hs Hv Hfl); [| |exact Hle].
    - fold vars. fold mono. unfold mono. rewrite join_loop_items. reflexivity.
    - apply Forall2_map_l. eapply Forall_impl; [|exact HF]. cbn beta.
      intros e (Hin & HT & Hrq & Hn). split; [|split; [exact HT|split; [|exact Hn]]].
      + apply find_by_repr_extend. apply (key_consistent_find decls); [exact Hkc|exact Hin|rewrite HT; exact Hd].
      + apply reqs_covered_agree. exact Hrq.
  Qed.
End JoinKeyed.

Section JoinKeyedCorollaries.
  Variable sc : schema.
  Variable U : universe.
  Variable frags : list fragment.
  Variable decls : list (name * list name).

  (* one representation carrying the key and the required leaf fields *)
  Theorem entity_join_requires_execute fM f vds T sel supplied root fl ks rq e :
    let vars := effective_vars (entities_op vds T sel) (supplied_members supplied) in
    let mono := exec_sels sc U frags vars Mono fM T {| ov_ent := e; ov_repr := None |} sel [] in
    key_consistent decls U = true -> In (T, ks) decls -> In e U -> en_type e = T ->
    find_entity U (s_query sc) [] = Some root ->
    kind_of sc T <> None -> frags_noent frags = true -> sels_noent sel = true ->
    assoc s_representations vars = Some (JArr [repr_of e (ks ++ rq)]) ->
    flatten sc frags vars fM T sel = FlatOk fl ->
    reqs_covered e fl (ks ++ rq) = true ->
    no_oof (snd mono) = true ->
    (fM + 3 <= f)%nat ->
    execute f sc U Sub (entities_doc vds T sel frags) None supplied =
    {| rs_data := JObj [(s_entities, JArr [ojson (fst mono)])];
       rs_errs := shift_errs [PN s_entities; PI 0] (snd mono) |}.
  Proof.
    intros vars mono Hkc Hd Hin HT Hroot Hk Hfr Hs Hv Hfl Hrq Hn Hle.
    rewrite (entity_join_list_requires_execute sc U frags decls fM f vds T sel supplied root fl ks rq [e]
               Hkc Hd Hroot Hk Hfr Hs Hv Hfl); [| |exact Hle].
    - cbn [map join_loop snd fst]. rewrite app_nil_r. reflexivity.
    - constructor; [|constructor]. repeat split; assumption.
  Qed.

  (* E3: no [FReq] field selected, representation = key only *)
  Theorem entity_join_execute fM f vds T sel supplied root fl ks e :
    let vars := effective_vars (entities_op vds T sel) (supplied_members supplied) in
    let mono := exec_sels sc U frags vars Mono fM T {| ov_ent := e; ov_repr := None |} sel [] in
    key_consistent decls U = true -> In (T, ks) decls -> In e U -> en_type e = T ->
    find_entity U (s_query sc) [] = Some root ->
    kind_of sc T <> None -> frags_noent frags = true -> sels_noent sel = true ->
    assoc s_representations vars = Some (JArr [repr_of e ks]) ->
    flatten sc frags vars fM T sel = FlatOk fl ->
    sel_reqs e fl = [] ->
    no_oof (snd mono) = true ->
    (fM + 3 <= f)%nat ->
    execute f sc U Sub (entities_doc vds T sel frags) None supplied =
    {| rs_data := JObj [(s_entities, JArr [ojson (fst mono)])];
       rs_errs := shift_errs [PN s_entities; PI 0] (snd mono) |}.
  Proof.
    intros vars mono Hkc Hd Hin HT Hroot Hk Hfr Hs Hv Hfl Hrq Hn Hle.
    apply (entity_join_requires_execute fM f vds T sel supplied root fl ks [] e); try assumption.
    - rewrite app_nil_r. exact Hv.
    - apply reqs_covered_nil. exact Hrq.
  Qed.

  (* several representations, no [FReq] field selected *)
  Theorem entity_join_list_execute fM f vds T sel supplied root fl ks es :
    let vars := effective_vars (entities_op vds T sel) (supplied_members supplied) in
    let mono := mono_at sc U frags vars fM T sel in
    key_consistent decls U = true -> In (T, ks) decls ->
    find_entity U (s_query sc) [] = Some root ->
    kind_of sc T <> None -> frags_noent frags = true -> sels_noent sel = true ->
    assoc s_representations vars = Some (JArr (map (fun e => repr_of e ks) es)) ->
    flatten sc frags vars fM T sel = FlatOk fl ->
    Forall (fun e => In e U /\ en_type e = T /\ sel_reqs e fl = [] /\ no_oof (snd (mono e)) = true) es ->
    (fM + 3 <= f)%nat ->
    execute f sc U Sub (entities_doc vds T sel frags) None supplied =
    {| rs_data := JObj [(s_entities, JArr (map (fun e => ojson (fst (mono e))) es))];
       rs_errs := snd (join_loop mono [PN s_entities] 0 es) |}.
  Proof.
    intros vars mono Hkc Hd Hroot Hk Hfr Hs Hv Hfl HF Hle.
    apply (entity_join_list_requires_execute sc U frags decls fM f vds T sel supplied root fl ks [] es); try assumption.
    - erewrite map_ext; [exact Hv|]. intros e. rewrite app_nil_r. reflexivity.
    - eapply Forall_impl; [|exact HF]. cbn beta. intros e (H1 & H2 & H3 & H4).
      repeat split; try assumption. apply reqs_covered_nil. exact H3.
  Qed.
End JoinKeyedCorollaries.
