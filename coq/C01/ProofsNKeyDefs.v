(* C01 / (6): keys with one level of nesting ( @key(fields: "id nk { code }") ): definitions.
   A nested key field is a pair (field name, inner leaf names).  The representation of an entity carries, for such a
   field, the object of the inner leaves of the entity the field refers to. *)
From Coq Require Import PeanoNat Lia.
From Gv Require Import lib.Bytes lib.Json lib.Gql lib.Exec
     C01.ProofsBase C01.ProofsSim C01.ProofsJoin C01.ProofsTwoStep C01.ProofsCtxBase.
Open Scope N_scope.

Definition nkspec := list (name * list name).

(* the selection asking for a nested key field:  nk { code ... } *)
Definition nsel (kn : name * list name) : selection := SField None (fst kn) [] [] (map key_sel (snd kn)).
Definition nsels (kn : nkspec) : list selection := map nsel kn.

(* the entity a nested key field of [e] refers to *)
Definition nref (U : universe) (e : entity) (k : name) : option entity :=
  match assoc k (en_fields e) with Some (FRef t' k') => find_entity U t' k' | _ => None end.
(* the representation member of a nested key field *)
Definition nmember (U : universe) (e : entity) (kn : name * list name) : list (bytes * json) :=
  match nref U e (fst kn) with Some e' => [(fst kn, JObj (repr_members e' (snd kn)))] | None => [] end.
Definition nmembers (U : universe) (e : entity) (kn : nkspec) : list (bytes * json) := flat_map (nmember U e) kn.

(* __typename, the leaf fields [ks], the nested key fields [kn] *)
Definition repr_of_n (U : universe) (e : entity) (ks : list name) (kn : nkspec) : json :=
  JObj ((s_typename, JStr (en_type e)) :: repr_members e ks ++ nmembers U e kn).

(* read off a member list: the leaf fields as they are, of a nested field's object the inner leaves only *)
Definition proj_inner (inner : list name) (v : json) : json :=
  match v with JObj o => JObj (map (fun i => (i, get_member i o)) inner) | _ => v end.
Definition repr_from_n (ks : list name) (kn : nkspec) (m : list (bytes * json)) : json :=
  JObj (map (fun k => (k, get_member k m)) (key_names ks) ++
        map (fun x : name * list name => (fst x, proj_inner (snd x) (get_member (fst x) m))) kn).

Lemma repr_of_n_nil U e ks : repr_of_n U e ks [] = repr_of e ks.
Proof. unfold repr_of_n, repr_of. cbn [nmembers flat_map]. rewrite app_nil_r. reflexivity. Qed.
Lemma repr_from_n_nil ks m : repr_from_n ks [] m = repr_from ks m.
Proof. unfold repr_from_n, repr_from. cbn [map]. rewrite app_nil_r. reflexivity. Qed.

(* (U3n) a nested key field of [e]: declared with a named (possibly non-null) composite type, holding a reference to an
   existing entity of a possible type whose inner fields are plain non-null leaves *)
Definition nkey_ok_b (sc : schema) (U : universe) (e : entity) (kn : name * list name) : bool :=
  negb (bytes_eqb (fst kn) s_typename) &&
  match find_type (en_type e) (s_types sc) with
  | Some td =>
    match find_field (fst kn) (td_fields td) with
    | Some fd =>
      match fd_type fd with
      | TNamed T' | TNonNull (TNamed T') =>
        match is_leaf_kind sc T' with Some false => true | _ => false end &&
        match nref U e (fst kn) with
        | Some e' => obj_type_ok sc T' e' && forallb (key_field_ok sc e') (snd kn)
        | None => false
        end
      | _ => false
      end
    | None => false
    end
  | None => false
  end.

(* nested keys identify entities: for every entity and the nested key declared for its type (leaf part, nested part),
   exactly one entity of the universe matches the representation built from it *)
Definition nkey_consistent (ndecls : list (name * (list name * nkspec))) (U : universe) : bool :=
  forallb (fun e =>
    forallb (fun d : name * (list name * nkspec) =>
               negb (bytes_eqb (fst d) (en_type e)) ||
               Nat.eqb (length (filter (repr_match_ent U (repr_of_n U e (fst (snd d)) (snd (snd d)))) U)) 1) ndecls) U.
