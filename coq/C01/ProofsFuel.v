(* C01 / E1: fuel monotonicity.  A result without [XOutOfFuel] does not change when more fuel is
   supplied; hence "the response" is well defined. *)
From Coq Require Import Lia ZifyNat ZifyN ZifyBool.
From Gv Require Import lib.Bytes lib.Json lib.Gql lib.Exec C01.ProofsBase.
Open Scope N_scope.

(* ---- congruence of the named loops under "agree whenever no out-of-fuel" ---- *)
Lemma sels_go_ext_noof ef ef' path gs :
  (forall key s subs p, no_oof (c_errs (ef key s subs p)) = true -> ef' key s subs p = ef key s subs p) ->
  no_oof (snd (sels_go ef path gs)) = true ->
  sels_go ef' path gs = sels_go ef path gs.
Proof.
  intros Hext. induction gs as [|[[key s] subs] rest IH]; intros Hn; [reflexivity|].
  cbn [sels_go] in *.
  destruct (c_viol (ef key s subs (path ++ [PN key]))) eqn:Ev.
  - cbn [snd] in Hn. rewrite (Hext _ _ _ _ Hn), Ev. reflexivity.
  - destruct (sels_go ef path rest) as [o e2] eqn:Er. cbn [snd] in Hn, IH.
    rewrite no_oof_app in Hn. apply andb_true_iff in Hn. destruct Hn as [Hn1 Hn2].
    rewrite (Hext _ _ _ _ Hn1), Ev, (IH Hn2). reflexivity.
Qed.

Lemma ent_loop_ext_noof U es es' subs path reprs :
  (forall t ov ss p, no_oof (snd (es t ov ss p)) = true -> es' t ov ss p = es t ov ss p) ->
  forall i, no_oof (snd (ent_loop U es subs path i reprs)) = true ->
  ent_loop U es' subs path i reprs = ent_loop U es subs path i reprs.
Proof.
  intros Hext. induction reprs as [|r rest IH]; intros i Hn; [reflexivity|].
  cbn [ent_loop] in *. unfold ent_item in *.
  destruct (find_by_repr U r) as [e|].
  - destruct (es (en_type e) {| ov_ent := e; ov_repr := Some r |} subs (path ++ [PI i])) as [o e2] eqn:Ee.
    destruct (ent_loop U es subs path (i + 1) rest) as [its es2] eqn:El.
    cbn [snd] in Hn. rewrite no_oof_app in Hn. apply andb_true_iff in Hn. destruct Hn as [Hn1 Hn2].
    rewrite Hext; rewrite Ee; [|exact Hn1]. rewrite IH; rewrite El; [reflexivity|exact Hn2].
  - destruct (ent_loop U es subs path (i + 1) rest) as [its es2] eqn:El.
    cbn [snd app] in Hn. rewrite IH; rewrite El; [reflexivity|exact Hn].
Qed.

Lemma lst_loop_ext_noof (cf cf' : fval -> list pel -> cres) path items :
  (forall it p, no_oof (c_errs (cf it p)) = true -> cf' it p = cf it p) ->
  forall i, no_oof (snd (fst (lst_loop cf path i items))) = true ->
  lst_loop cf' path i items = lst_loop cf path i items.
Proof.
  intros Hext. induction items as [|it rest IH]; intros i Hn; [reflexivity|].
  cbn [lst_loop] in *.
  destruct (lst_loop cf path (i + 1) rest) as [[out errs] viol] eqn:El.
  cbn [fst snd] in Hn, IH. rewrite no_oof_app in Hn. apply andb_true_iff in Hn. destruct Hn as [Hn1 Hn2].
  rewrite (Hext _ _ Hn1). rewrite IH; rewrite El; [reflexivity|exact Hn2].
Qed.

Lemma list_finish_errs r : c_errs (list_finish r) = snd (fst r).
Proof. destruct r as [[out errs] viol]. unfold list_finish. destruct viol; reflexivity. Qed.

Lemma nonnull_wrap_noof path r : no_oof (c_errs (nonnull_wrap path r)) = true -> no_oof (c_errs r) = true.
Proof.
  unfold nonnull_wrap. destruct (c_json r); try (intros H; exact H).
  cbn [c_errs]. destruct (c_errs r); [reflexivity|intros H; exact H].
Qed.

Section Fuel.
  Variable sc : schema.
  Variable U : universe.
  Variable frags : list fragment.
  Variable vars : list (bytes * json).
  Variable md : mode.

  Notation exec_sels' := (exec_sels sc U frags vars md).
  Notation exec_field' := (exec_field sc U frags vars md).
  Notation complete' := (complete sc U frags vars md).
  Notation flatten' := (flatten sc frags vars).

  Lemma flat_here_ext_noof (rec rec' : list selection -> flat) objty s :
    (forall l, flat_no_oof (rec l) = true -> rec' l = rec l) ->
    flat_no_oof (flat_here sc frags vars rec objty s) = true ->
    flat_here sc frags vars rec' objty s = flat_here sc frags vars rec objty s.
  Proof.
    intros Hext Hn. destruct s as [a n args dirs ss|cond dirs ss|n dirs]; cbn [flat_here] in *.
    - reflexivity.
    - destruct (negb (included vars dirs)); [reflexivity|].
      destruct cond as [c|]; [|apply Hext; exact Hn].
      destruct (kind_of sc c).
      + destruct (type_applies sc objty c); [apply Hext; exact Hn|reflexivity].
      + destruct (bytes_eqb c [95; 69; 110; 116; 105; 116; 121]); [apply Hext; exact Hn|reflexivity].
    - destruct (negb (included vars dirs)); [reflexivity|].
      destruct (find_frag n frags) as [fr|]; [|reflexivity].
      destruct (type_applies sc objty (fr_type fr)); [apply Hext; exact Hn|reflexivity].
  Qed.

  Lemma flat_seq_noof a b :
    flat_no_oof (flat_seq a b) = true ->
    flat_no_oof a = true /\ (forall l, a = FlatOk l -> flat_no_oof b = true).
  Proof.
    destruct a as [l1|e]; cbn [flat_seq].
    - destruct b as [l2|e]; cbn [flat_no_oof]; intros H; split; auto.
    - cbn [flat_no_oof]. intros H. split; [exact H|]. intros l Hl. discriminate.
  Qed.

  Theorem flatten_mono : forall f f' objty sels,
      (f <= f')%nat -> flat_no_oof (flatten' f objty sels) = true ->
      flatten' f' objty sels = flatten' f objty sels.
  Proof.
    induction f as [|f IH]; intros f' objty sels Hle Hn.
    - rewrite flatten_0 in Hn. discriminate.
    - destruct f' as [|f']; [lia|]. assert (Hle' : (f <= f')%nat) by lia.
      destruct sels as [|s rest]; [reflexivity|].
      rewrite !flatten_S_cons in *.
      apply flat_seq_noof in Hn. destruct Hn as [Hh Hr].
      rewrite (flat_here_ext_noof (flatten' f objty) (flatten' f' objty)); [|intros l Hl; apply IH; assumption|exact Hh].
      destruct (flat_here sc frags vars (flatten' f objty) objty s) as [l1|e] eqn:Eh; [|reflexivity].
      rewrite (IH f' objty rest Hle' (Hr l1 eq_refl)). reflexivity.
  Qed.

  Corollary flatten_mono_ok f f' objty sels fl :
    (f <= f')%nat -> flatten' f objty sels = FlatOk fl -> flatten' f' objty sels = FlatOk fl.
  Proof. intros Hle H. rewrite <- H. apply flatten_mono; [exact Hle|rewrite H; reflexivity]. Qed.

  Definition fuel_mono_at (f : nat) : Prop :=
    (forall f' objty ov sels path, (f <= f')%nat ->
        no_oof (snd (exec_sels' f objty ov sels path)) = true ->
        exec_sels' f' objty ov sels path = exec_sels' f objty ov sels path) /\
    (forall f' objty ov key s subs path, (f <= f')%nat ->
        no_oof (c_errs (exec_field' f objty ov key s subs path)) = true ->
        exec_field' f' objty ov key s subs path = exec_field' f objty ov key s subs path) /\
    (forall f' t ov fname cargs fv subs path, (f <= f')%nat ->
        no_oof (c_errs (complete' f t ov fname cargs fv subs path)) = true ->
        complete' f' t ov fname cargs fv subs path = complete' f t ov fname cargs fv subs path).

  Lemma fuel_mono_all : forall f, fuel_mono_at f.
  Proof.
    induction f as [|f [IHs [IHf IHc]]].
    - repeat split; intros; [rewrite exec_sels_0 in *|rewrite exec_field_0 in *|rewrite complete_0 in *]; discriminate.
    - repeat split.
      + (* exec_sels *)
        intros f' objty ov sels path Hle Hn. destruct f' as [|f']; [lia|]. assert (Hle' : (f <= f')%nat) by lia.
        rewrite !exec_sels_S in *.
        assert (Hfl : flatten' (S f') objty sels = flatten' (S f) objty sels).
        { apply flatten_mono; [lia|]. destruct (flatten' (S f) objty sels) as [fl|e]; [reflexivity|].
          cbn in Hn. rewrite andb_true_r in Hn. exact Hn. }
        rewrite Hfl. destruct (flatten' (S f) objty sels) as [fl|e]; [|reflexivity].
        apply sels_go_ext_noof; [|exact Hn].
        intros key s subs p Hp. apply IHf; assumption.
      + (* exec_field *)
        intros f' objty ov key s subs path Hle Hn. destruct f' as [|f']; [lia|]. assert (Hle' : (f <= f')%nat) by lia.
        rewrite !exec_field_S in *.
        destruct s as [a fname args dirs ss| |]; try reflexivity.
        destruct (bytes_eqb fname s_typename); [reflexivity|].
        destruct (is_entities sc md fname objty).
        * cbn [c_errs] in Hn.
          rewrite (ent_loop_ext_noof U (exec_sels' f) (exec_sels' f')); [reflexivity| |exact Hn].
          intros t ov' ss' p Hp. apply IHs; assumption.
        * destruct (find_type objty (s_types sc)) as [td|]; [|reflexivity].
          destruct (find_field fname (td_fields td)) as [fd|]; [|reflexivity].
          apply IHc; assumption.
      + (* complete *)
        intros f' t ov fname cargs fv subs path Hle Hn. destruct f' as [|f']; [lia|]. assert (Hle' : (f <= f')%nat) by lia.
        rewrite !complete_S in *.
        destruct t as [n|t'|t'].
        * destruct (is_leaf_kind sc n) as [[|]|]; try reflexivity.
          unfold complete_obj in *.
          destruct (obj_target U cargs fv) as [[e|]|]; try reflexivity.
          destruct (negb (obj_type_ok sc n e)); [reflexivity|].
          destruct (exec_sels' f (en_type e) {| ov_ent := e; ov_repr := None |} subs path) as [o errs] eqn:Ee.
          assert (Hne : no_oof errs = true) by (destruct o; exact Hn).
          rewrite (IHs f' _ _ _ _ Hle'); rewrite Ee; [reflexivity|exact Hne].
        * destruct fv as [j|t0 k| |l| | |t0 a|fs]; try reflexivity.
          -- destruct j; try reflexivity. apply IHc; assumption.
          -- rewrite list_finish_errs in Hn.
             rewrite (lst_loop_ext_noof (fun it p => complete' f t' ov fname cargs it subs p)
                                        (fun it p => complete' f' t' ov fname cargs it subs p));
               [reflexivity| |exact Hn].
             intros it p Hp. apply IHc; assumption.
        * apply nonnull_wrap_noof in Hn. rewrite (IHc f' t' ov fname cargs fv subs path Hle' Hn). reflexivity.
  Qed.

  Theorem exec_sels_fuel_mono f f' objty ov sels path :
    (f <= f')%nat -> no_oof (snd (exec_sels' f objty ov sels path)) = true ->
    exec_sels' f' objty ov sels path = exec_sels' f objty ov sels path.
  Proof. intros. apply (fuel_mono_all f); assumption. Qed.
  Theorem exec_field_fuel_mono f f' objty ov key s subs path :
    (f <= f')%nat -> no_oof (c_errs (exec_field' f objty ov key s subs path)) = true ->
    exec_field' f' objty ov key s subs path = exec_field' f objty ov key s subs path.
  Proof. intros. apply (fuel_mono_all f); assumption. Qed.
  Theorem complete_fuel_mono f f' t ov fname cargs fv subs path :
    (f <= f')%nat -> no_oof (c_errs (complete' f t ov fname cargs fv subs path)) = true ->
    complete' f' t ov fname cargs fv subs path = complete' f t ov fname cargs fv subs path.
  Proof. intros. apply (fuel_mono_all f); assumption. Qed.
End Fuel.

Theorem execute_fuel_mono f f' sc U md doc opname supplied :
  (f <= f')%nat -> no_oof (rs_errs (execute f sc U md doc opname supplied)) = true ->
  execute f' sc U md doc opname supplied = execute f sc U md doc opname supplied.
Proof.
  intros Hle Hn. unfold execute in *.
  destruct (pick_op doc opname) as [o|]; [|reflexivity].
  destruct (root_type sc (op_kind o)) as [rt|]; [|reflexivity].
  destruct (find_entity U rt []) as [root|]; [|reflexivity].
  destruct (exec_sels sc U (doc_frags doc) _ md f rt _ (op_sels o) []) as [r errs] eqn:E.
  cbn [rs_errs] in Hn.
  rewrite (exec_sels_fuel_mono sc U _ _ md f f' _ _ _ _ Hle); rewrite E; [reflexivity|exact Hn].
Qed.
