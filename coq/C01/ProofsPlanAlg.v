(* C01 / (4), part 1: the state algebra of plan execution (entity fetches applied to the members of
   the root response), independent of what the fetches compute. *)
From Coq Require Import PeanoNat Lia.
From Gv Require Import lib.Bytes lib.Json lib.Gql lib.Exec
     C01.ProofsBase C01.ProofsSplit C01.ProofsSim C01.ProofsTwoStep.
Open Scope N_scope.


Fixpoint replace_member (key : name) (v' : json) (ms : list (bytes * json)) : list (bytes * json) :=
  match ms with
  | [] => []
  | (k, v) :: r => if bytes_eqb key k then (k, v') :: r else (k, v) :: replace_member key v' r
  end.

(* an entity fetch, abstractly: what it makes of the value found at its response key *)
Definition fetch_fun := json -> sres.     (* input: the member value; output: one-member result or None, plus errors *)

Definition apply_fetch (key : name) (F : fetch_fun) (st : sres) : sres :=
  match st with
  | (Some ms, errs) =>
    match obj_get key ms with
    | Some v =>
      let r := F v in
      (match fst r with Some [(_, v')] => Some (replace_member key v' ms) | _ => None end, errs ++ snd r)
    | None => st
    end
  | (None, _) => st
  end.

Lemma apply_fetch_hit key F v ms errs :
  obj_get key ms = Some v ->
  apply_fetch key F (Some ms, errs) =
  (match fst (F v) with Some [(_, v')] => Some (replace_member key v' ms) | _ => None end, errs ++ snd (F v)).
Proof. intros H. cbn [apply_fetch]. rewrite H. reflexivity. Qed.

Definition run_fetches (fs : list (name * fetch_fun)) (st : sres) : sres :=
  fold_left (fun s kf => apply_fetch (fst kf) (snd kf) s) fs st.

Lemma run_fetches_none fs errs : run_fetches fs (None, errs) = (None, errs).
Proof. induction fs as [|[k F] r IH]; [reflexivity|]. cbn [run_fetches fold_left apply_fetch fst snd]. exact IH. Qed.

Lemma run_fetches_cons k F fs st : run_fetches ((k, F) :: fs) st = run_fetches fs (apply_fetch k F st).
Proof. reflexivity. Qed.

(* errors only accumulate *)
Lemma run_fetches_errs fs : forall o E,
    run_fetches fs (o, E) = (fst (run_fetches fs (o, [])), E ++ snd (run_fetches fs (o, []))).
Proof.
  induction fs as [|[k F] r IH]; intros o E; [cbn; rewrite app_nil_r; reflexivity|].
  rewrite !run_fetches_cons. destruct o as [ms|]; cbn [apply_fetch].
  - destruct (obj_get k ms) as [v|].
    + cbn [app]. rewrite (IH _ (E ++ snd (F v))), (IH _ (snd (F v))). cbn [fst snd]. rewrite app_assoc. reflexivity.
    + apply IH.
  - rewrite !run_fetches_none. cbn. rewrite app_nil_r. reflexivity.
Qed.

(* frame: fetches at other keys do not see a member *)
Lemma obj_get_cons_ne key k x ms : bytes_eqb key k = false -> obj_get key ((k, x) :: ms) = obj_get key ms.
Proof. intros H. cbn [obj_get]. rewrite H. reflexivity. Qed.

Lemma run_fetches_frame k x fs : forall ms,
    forallb (fun kf => negb (bytes_eqb (fst kf) k)) fs = true ->
    run_fetches fs (Some ((k, x) :: ms), []) =
    (option_map (cons (k, x)) (fst (run_fetches fs (Some ms, []))), snd (run_fetches fs (Some ms, []))).
Proof.
  induction fs as [|[k' F] r IH]; intros ms Hk; [reflexivity|].
  cbn [forallb fst] in Hk. apply andb_true_iff in Hk. destruct Hk as [Hk1 Hk2]. apply negb_true_iff in Hk1.
  rewrite !run_fetches_cons. cbn [apply_fetch]. rewrite (obj_get_cons_ne k' k x ms Hk1).
  destruct (obj_get k' ms) as [v|]; [|apply IH; exact Hk2].
  cbn [app replace_member]. rewrite Hk1.
  destruct (fst (F v)) as [[|[k0 v'] [|? ?]]|].
  - rewrite !run_fetches_none. reflexivity.
  - rewrite (run_fetches_errs r (Some ((k, x) :: replace_member k' v' ms)) (snd (F v))).
    rewrite (run_fetches_errs r (Some (replace_member k' v' ms)) (snd (F v))).
    rewrite (IH _ Hk2). reflexivity.
  - rewrite !run_fetches_none. reflexivity.
  - rewrite !run_fetches_none. reflexivity.
Qed.

(* ---- the merge of per-field results, relaxed (all errors kept) vs execution order (split_merge) ---- *)
Lemma app_nil_iff {A} (a b : list A) : a ++ b = [] <-> a = [] /\ b = [].
Proof. split; [apply app_eq_nil|intros [-> ->]; reflexivity]. Qed.
