(* C01 / (6): plan TREES.  The client's selection annotated, at every object position, with who resolves what:
   the source that produced the object (tag 0) or one of the entity fetches placed at this position (tag j >= 1);
   a composite field whose sub-selection has fetches below carries the annotated sub-selection ([PDown]).
   [gateway3]: root fetches, then recursively: at every object the entity fetches of its position (one request per
   object, representation read off the object), the members assembled in the CLIENT's order from the sources, the
   nested positions filled the same way; non-null violations propagate as in the renderer. *)
From Coq Require Import PeanoNat Lia.
From Gv Require Import lib.Bytes lib.Json lib.Gql lib.Exec
     C01.ProofsBase C01.ProofsFuel C01.ProofsSplit C01.ProofsSim C01.ProofsJoin C01.ProofsOverlap
     C01.ProofsTwoStep C01.ProofsViol C01.ProofsCtxBase C01.ProofsCtx C01.ProofsTwoStepWf C01.ProofsPlanAlg
     C01.ProofsPlan C01.ProofsPlanOk C01.ProofsDedup C01.ProofsListHop
     C01.ProofsTvStatic C01.ProofsTvDefs C01.ProofsTvHidden C01.ProofsPlanGen C01.ProofsPlan2 C01.ProofsFuelSuff C01.ProofsSelEq C01.ProofsSelMerge C01.ProofsNKeyDefs C01.ProofsNKeyExec.
Open Scope N_scope.

Notation fetch3 := (list (nat * list (name * list name)) * nat * list name)%type.
Inductive pitem :=
| PKeep (s : selection)
| PDown (a : option name) (n : name) (args : list argument) (sh : fshape) (T : name) (sub : ptree)
| PAbs (a : option name) (n : name) (args : list argument) (sh : fshape) (T : name)
       (csel rsel : list selection) (alts : list (name * bool * ptree))
with ptree :=
| PT (items : list (nat * pitem)) (fetches : list (list (nat * list (name * list name)) * nat * list name)).
(* fetch: (deps, subgraph, representation fields); deps = [(source, the representation fields that source is asked for); ..]:
   an entity fetch may read its representation off several earlier sources (key from one, @requires inputs from another);
   a representation field is (name, inner): inner = [] a leaf, else a NESTED key field  name { inner leaves }  (ProofsNKeyDefs) *)

Definition pt_items (pt : ptree) := match pt with PT items _ => items end.
Definition pt_fetches (pt : ptree) := match pt with PT _ fetches => fetches end.
Definition item_key (it : pitem) : name :=
  match it with PKeep s => sel_key s | PDown a n _ _ _ _ => response_name a n | PAbs a n _ _ _ _ _ _ => response_name a n end.
(* [PAbs]: a composite field whose objects are resolved per RUNTIME type (interface / union positions, or a selection with
   inline fragments): [csel] the client's sub-selection verbatim, [rsel] the sub-selection the source is asked for (it selects
   __typename), [alts] one plan tree per concrete object type, over the selections flattened at that type; the flag of an
   alternative: the source is asked for __typename IN FRONT of the tree's projection (the planner's own __typename, where
   neither the client nor a key asks for it); it is read for the runtime type and dropped *)
Fixpoint find_alt (C : name) (alts : list (name * bool * ptree)) : option (bool * ptree) :=
  match alts with
  | [] => None
  | (C', h, pt) :: r => if bytes_eqb C C' then Some (h, pt) else find_alt C r
  end.
(* the members without a leading __typename *)
Definition drop_tn (l : list (bytes * json)) : list (bytes * json) :=
  match l with
  | (k, _) :: r => if bytes_eqb k s_typename then r else l
  | [] => l
  end.

(* the client's selection, verbatim *)
Fixpoint item_client (it : pitem) : selection :=
  match it with
  | PKeep s => s
  | PDown a n args sh T sub => SField a n args [] (pt_client sub)
  | PAbs a n args sh T csel rsel alts => SField a n args [] csel
  end
with pt_client (pt : ptree) : list selection :=
  match pt with
  | PT items _ => (fix go (l : list (nat * pitem)) : list selection :=
                     match l with [] => [] | (_, it) :: r => item_client it :: go r end) items
  end.

(* the key selections source [t] is asked for: those of the fetches that read their representation off it *)
Notation dep3 := (nat * list (name * list name))%type.
Definition deps_on (t : nat) (f : fetch3) : bool := existsb (fun d : dep3 => Nat.eqb (fst d) t) (fst (fst f)).
Definition keys_of (t : nat) (f : fetch3) : list (name * list name) :=
  flat_map snd (filter (fun d : dep3 => Nat.eqb (fst d) t) (fst (fst f))).
(* the leaf fields; the nested fields, one entry per name *)
Definition is_nil {A} (l : list A) : bool := match l with [] => true | _ => false end.
Definition kl_of (all : list (name * list name)) : list name := map fst (filter (fun x => is_nil (snd x)) all).
Fixpoint kn_dedup (seen : list name) (all : list (name * list name)) : nkspec :=
  match all with
  | [] => []
  | x :: r => if is_nil (snd x) || mem_bytes (fst x) seen then kn_dedup seen r else x :: kn_dedup (fst x :: seen) r
  end.
Definition kn_of (all : list (name * list name)) : nkspec := kn_dedup [] all.
Definition keys_from (t : nat) (fetches : list (fetch3)) : list selection :=
  match filter (deps_on t) fetches with
  | [] => []
  | fs => key_sels (kl_of (flat_map (keys_of t) fs)) ++ nsels (kn_of (flat_map (keys_of t) fs))
  end.
(* the nested / leaf representation fields of one fetch *)
Definition fetch_kn (deps : list dep3) : nkspec := kn_of (flat_map snd deps).
Definition fetch_kl (deps : list dep3) (ks : list name) : list name :=
  filter (fun k => negb (mem_bytes k (map fst (fetch_kn deps)))) ks.

(* what the source that produced the object is asked for at a position *)
Fixpoint item_proj (it : pitem) : selection :=
  match it with
  | PKeep s => s
  | PDown a n args sh T sub => SField a n args [] (pt_proj sub)
  | PAbs a n args sh T csel rsel alts => SField a n args [] rsel
  end
with pt_proj (pt : ptree) : list selection :=
  match pt with
  | PT items fetches =>
    (fix go (l : list (nat * pitem)) : list selection :=
       match l with [] => [] | (t, it) :: r => if Nat.eqb t 0 then item_proj it :: go r else go r end) items
    ++ keys_from 0 fetches
  end.
(* what the j-th entity fetch of the position is asked for (inside  ... on T { }) *)
Definition src_proj (j : nat) (items : list (nat * pitem)) (fetches : list (fetch3)) : list selection :=
  map (fun ti => item_proj (snd ti)) (filter (fun ti => Nat.eqb (fst ti) j) items) ++ keys_from j fetches.

(* the planner's __typename is put in front of an entity selection that does not select __typename itself *)
Definition add_tn (tn : bool) (sel : list selection) : bool := tn && sels_top_nokey s_typename sel.
Definition ent_sel3 (tn : bool) (sel : list selection) : list selection := if add_tn tn sel then tn_sel :: sel else sel.

(* a root field: which root subgraph, and the annotated field *)
Record rfield3 := { r3_root : nat; r3_item : pitem }.
Definition r3_key (d : rfield3) : name := item_key (r3_item d).
Definition client_doc3 (vdsM : list vardef) (frags : list fragment) (ds : list rfield3) : document :=
  query_doc vdsM (map (fun d => item_client (r3_item d)) ds) frags.
Definition roots_of3 (ds : list rfield3) : list nat := nat_nodup (map r3_root ds).
Definition fields_of3 (g : nat) (ds : list rfield3) : list rfield3 := filter (fun d => Nat.eqb (r3_root d) g) ds.

(* ---- the subgraph requests of the model (entity requests: one per position and fetch; the engine batches them) ---- *)
Inductive mreq3 :=
| MRoot3 (sub : nat) (doc : document)
| MEntity3 (path : list name) (sub : nat) (doc : document) (repr_fields : list name).

Fixpoint item_reqs (vdsM : list vardef) (frags : list fragment) (tn : bool) (path : list name) (it : pitem) : list mreq3 :=
  match it with
  | PKeep _ => []
  | PDown a n args sh T sub => pt_reqs vdsM frags tn (path ++ [response_name a n]) T sub
  | PAbs a n args sh T csel rsel alts =>
    (fix goa (l : list (name * bool * ptree)) : list mreq3 :=
       match l with [] => [] | (C, _, pt) :: r => pt_reqs vdsM frags tn (path ++ [response_name a n]) C pt ++ goa r end) alts
  end
with pt_reqs (vdsM : list vardef) (frags : list fragment) (tn : bool) (path : list name) (T : name) (pt : ptree) : list mreq3 :=
  match pt with
  | PT items fetches =>
    (fix gof (j : nat) (fs : list (fetch3)) : list mreq3 :=
       match fs with
       | [] => []
       | (_, si, ks) :: r =>
         MEntity3 path si (entities_doc (rep_vd :: vdsM) T (ent_sel3 tn (src_proj j items fetches)) frags) (key_names ks) :: gof (S j) r
       end) 1%nat fetches ++
    (fix go (l : list (nat * pitem)) : list mreq3 :=
       match l with [] => [] | (_, it) :: r => item_reqs vdsM frags tn path it ++ go r end) items
  end.
Definition model_requests3 (vdsM : list vardef) (frags : list fragment) (tn : bool) (ds : list rfield3) : list mreq3 :=
  map (fun g => MRoot3 g (query_doc vdsM (map (fun d => item_proj (r3_item d)) (fields_of3 g ds)) frags)) (roots_of3 ds) ++
  flat_map (fun d => item_reqs vdsM frags tn [] (r3_item d)) ds.

(* the requests that are SENT: the fields the gateway resolves itself (root [__typename], root index = number of subgraphs) need none *)
Definition model_requests3s (nsubs : nat) (vdsM : list vardef) (frags : list fragment) (tn : bool) (ds : list rfield3) : list mreq3 :=
  filter (fun r => match r with MRoot3 g _ => Nat.ltb g nsubs | MEntity3 _ _ _ _ => true end) (model_requests3 vdsM frags tn ds).

Section Gw3.
  Variable U : universe.
  Variables (sc : schema) (subs : list schema) (frags : list fragment) (vdsM : list vardef) (supM : list (bytes * json)).
  Variable eQ : entity.
  Variables (f1 f2 : nat).
  Variable tn : bool.

  Notation vars := (pvars vdsM supM).
  Notation ovQ := {| ov_ent := eQ; ov_repr := None |}.
  Notation Q := (s_query sc).
  Notation sub_at' := (sub_at sc subs).

  (* one entity fetch for one object: the members of the entity object, and the errors of the response *)
  Definition fetch_one (T : name) (sel : list selection) (l1 : list (bytes * json)) (si : nat) (ks : list name) (kn : nkspec)
    : option (list (bytes * json)) * list xerr :=
    let resp := execute (if add_tn tn sel then S f2 else f2) (sub_at' si) U Sub
                        (entities_doc (rep_vd :: vdsM) T (ent_sel3 tn sel) frags) None
                        (JObj ((s_representations, JArr [repr_from_n ks kn l1]) :: supM)) in
    match rs_data resp with
    | JObj [(_, JArr [x])] =>
      (match (if add_tn tn sel then strip_tn x else x) with JObj lb => Some lb | _ => None end, rs_errs resp)
    | _ => (None, rs_errs resp)
    end.

  (* the members of all sources so far, merged (first occurrence of a key wins, as in the loader's object merge) *)
  Definition merged (srcs : list (option (list (bytes * json)))) : list (bytes * json) :=
    flat_map (fun o => match o with Some m => m | None => [] end) srcs.

  (* the sources of a position, in order: source 0 (given), then one per fetch; a fetch reads its representation off
     the object merged so far; a missing source (null entity, violation) makes the ones asked after it missing too *)
  Fixpoint fetch_all (T : name) (items : list (nat * pitem)) (all : list (fetch3))
           (srcs : list (option (list (bytes * json)))) (j : nat) (fs : list (fetch3))
    : list (option (list (bytes * json))) * list xerr :=
    match fs with
    | [] => (srcs, [])
    | (deps, si, ks) :: r =>
      let '(o, e) := if forallb (fun d : dep3 => negb (is_none (nth (fst d) srcs None))) deps
                     then fetch_one T (src_proj j items all) (merged srcs) si (fetch_kl deps ks) (fetch_kn deps)
                     else (None, []) in
      let '(os, es) := fetch_all T items all (srcs ++ [o]) (S j) r in
      (os, e ++ es)
    end.

  (* (value, errors, non-null violation) *)
  Definition vres := (json * list xerr * bool)%type.
  (* the one-member result of a field whose value has been processed *)
  Definition vres_sres (key : name) (r : vres) : sres :=
    let '(v, e, viol) := r in (if viol then None else Some [(key, v)], e).

  (* the fetches of the fields of a position: every [PDown] field gets its value filled *)
  Definition item_fetches (lift : fshape -> name -> ptree -> json -> vres) (lifta : fshape -> list (name * bool * ptree) -> json -> vres)
             (items : list (nat * pitem)) : list (name * fetch_fun) :=
    flat_map (fun ti => match snd ti with
                        | PKeep _ => []
                        | PDown a n args sh T' sub => [(response_name a n, fun v => vres_sres (response_name a n) (lift sh T' sub v))]
                        | PAbs a n args sh T' csel rsel alts => [(response_name a n, fun v => vres_sres (response_name a n) (lifta sh alts v))]
                        end) items.

  (* a value of the given shape, every object in it processed by [lo] *)
  Definition lift_shape (lo : bool -> json -> vres) (sh : fshape) (v : json) : vres :=
    match sh with
    | ShObj nn => lo nn v
    | ShList nnl nni =>
      match v with
      | JArr xs =>
        let rs := map (lo nni) xs in
        let errs := flat_map (fun r : vres => snd (fst r)) rs in
        if existsb (fun r : vres => snd r) rs then (JNull, errs, nnl)
        else (JArr (map (fun r : vres => fst (fst r)) rs), errs, false)
      | _ => (v, [], false)
      end
    end.

  Fixpoint fill (k : nat) (T : name) (pt : ptree) (l1 : list (bytes * json)) : sres :=
    match k with
    | O => (None, [XOutOfFuel])
    | S k' =>
      match pt with
      | PT items fetches =>
        let '(srcs, ferrs) := fetch_all T items fetches [Some l1] 1%nat fetches in
        if existsb (fun o => is_none o) srcs then (None, ferrs)
        else
          (* the members of the object in the client's order, each read off its source *)
          let st0 : sres :=
              (Some (map (fun ti => (item_key (snd ti),
                                     get_member (item_key (snd ti)) (match nth (fst ti) srcs None with Some m => m | None => [] end)))
                         items), ferrs) in
          run_fetches (item_fetches (lift k') (lifta k') items) st0
      end
    end
  with lift (k : nat) (sh : fshape) (T' : name) (sub : ptree) (v : json) : vres :=
    match k with
    | O => (JNull, [XOutOfFuel], true)
    | S k' =>
      let lift_obj (nn : bool) (x : json) : vres :=
          match x with
          | JObj l => match fill k' T' sub l with
                      | (Some l', e) => (JObj l', e, false)
                      | (None, e) => (JNull, e, nn)
                      end
          | _ => (x, [], false)
          end in
      match sh with
      | ShObj nn => lift_obj nn v
      | ShList nnl nni =>
        match v with
        | JArr xs =>
          let rs := map (lift_obj nni) xs in
          let errs := flat_map (fun r : vres => snd (fst r)) rs in
          if existsb (fun r : vres => snd r) rs then (JNull, errs, nnl)
          else (JArr (map (fun r : vres => fst (fst r)) rs), errs, false)
        | _ => (v, [], false)
        end
      end
    end
  with lifta (k : nat) (sh : fshape) (alts : list (name * bool * ptree)) (v : json) : vres :=
    match k with
    | O => (JNull, [XOutOfFuel], true)
    | S k' =>
      (* the plan tree of the object's runtime type, read off its __typename member *)
      lift_shape (fun (nn : bool) (x : json) =>
                    match x with
                    | JObj l =>
                      match get_member s_typename l with
                      | JStr C =>
                        match find_alt C alts with
                        | Some (h, sub) => match fill k' C sub (if h then drop_tn l else l) with
                                      | (Some l', e) => (JObj l', e, false)
                                      | (None, e) => (JNull, e, nn)
                                      end
                        | None => (x, [], false)
                        end
                      | _ => (x, [], false)
                      end
                    | _ => (x, [], false)
                    end) sh v
    end.

  (* ---- the root: one request per root subgraph, the answers read in the client's order, every root field filled ---- *)
  Definition root_resp3 (g : nat) (ds : list rfield3) : sres :=
    exec_sels (sub_at' g) U frags vars Sub f1 Q ovQ (map (fun d => item_proj (r3_item d)) (fields_of3 g ds)) [].
  Definition root_state3 (ds : list rfield3) : sres :=
    let resps := map (fun g => root_resp3 g ds) (roots_of3 ds) in
    let errs := flat_map snd resps in
    if existsb (fun r : sres => is_none (fst r)) resps then (None, errs)
    else (Some (map (fun d => (r3_key d,
                               get_member (r3_key d) (match fst (root_resp3 (r3_root d) ds) with Some l => l | None => [] end))) ds),
          errs).
  Definition gateway3 (k : nat) (ds : list rfield3) : sres :=
    run_fetches (item_fetches (lift k) (lifta k) (map (fun d => (r3_root d, r3_item d)) ds)) (root_state3 ds).

  Definition mono_client3 (fM : nat) (ds : list rfield3) : sres :=
    exec_sels sc U frags vars Mono fM Q ovQ (map (fun d => item_client (r3_item d)) ds) [].
End Gw3.

(* ---- the universe-free validator of plan trees ---- *)
Definition plain_field (s : selection) : bool := match s with SField _ _ _ [] _ => true | _ => false end.
(* the LEAF representation fields of the fetches of a position; the names of the nested ones *)
Definition fetch_keys (fetches : list (fetch3)) : list name := s_typename :: flat_map (fun f : fetch3 => fetch_kl (fst (fst f)) (snd f)) fetches.
Definition fetch_nnames (fetches : list (fetch3)) : list name := flat_map (fun f : fetch3 => map fst (fetch_kn (fst (fst f)))) fetches.
Definition names_eqb (p q : list name) : bool :=
  (fix gi (p q : list name) : bool := match p, q with [] , [] => true | u :: p', v :: q' => bytes_eqb u v && gi p' q' | _, _ => false end) p q.
Definition nk_eqb (a b : nkspec) : bool :=
  (fix go (a b : nkspec) : bool :=
     match a, b with
     | [], [] => true
     | x :: a', y :: b' => bytes_eqb (fst x) (fst y) &&
                           names_eqb (snd x) (snd y) &&
                           go a' b'
     | _, _ => false
     end) a b.
(* a client field whose response key is the name of a representation field is that very field *)
Definition item_unaliased (K : list name) (it : pitem) : bool :=
  negb (mem_bytes (item_key it) K) ||
  match it with
  | PKeep (SField _ n _ _ _) => bytes_eqb n (item_key it)
  | _ => false
  end.
(* the subgraph (index) that answers for source [t] of a position whose own source is [cur] *)
Definition src_sub (cur : nat) (fetches : list (fetch3)) (t : nat) : nat :=
  match t with O => cur | S j => match nth_error fetches j with Some (_, si, _) => si | None => cur end end.

Definition flat_is (fl : flat) (l : list selection) : bool :=
  match fl with FlatOk l' => sels_eqb l' l | FlatBad _ => false end.
(* the same up to merging the fields of one response key (what the executor runs: ProofsSelMerge.exec_sels_gmerge) *)
Definition flat_merged_is (fl : flat) (l : list selection) : bool :=
  match fl with FlatOk l' => sels_eqb (gmerge l') l | FlatBad _ => false end.
(* the selection asks for __typename itself (no alias, no arguments) *)
Definition has_tn_sel (l : list selection) : bool :=
  existsb (fun s => match s with SField None n [] [] [] => bytes_eqb n s_typename | _ => false end) l.
Definition abs_fuel (csel rsel : list selection) : nat := S (sels_size csel + sels_size rsel).

Lemma names_eqb_eq : forall p q, names_eqb p q = true -> p = q.
Proof.
  induction p as [|u p IH]; intros [|v q] H; cbn in H; try discriminate; [reflexivity|].
  apply andb_true_iff in H. destruct H as [H1 H2]. apply bytes_eqb_eq in H1. rewrite (IH q H2). congruence.
Qed.
Lemma nk_eqb_eq : forall a b, nk_eqb a b = true -> a = b.
Proof.
  induction a as [|[x xi] a IH]; intros [|[y yi] b] H; cbn in H; try discriminate; [reflexivity|].
  apply andb_true_iff in H. destruct H as [H H3]. apply andb_true_iff in H. destruct H as [H1 H2].
  apply bytes_eqb_eq in H1. apply names_eqb_eq in H2. rewrite (IH b H3). congruence.
Qed.

Section Static3.
  Variables (sc : schema) (subs : list schema) (frags : list fragment) (vdsM : list vardef) (supM : list (bytes * json)).
  Variable kq : nat.
  Variable ab : bool.      (* positions resolved per runtime type ([PAbs]) allowed *)
  Variable decls : list (name * list name).
  Variable rdecls : list rdecl.
  Variable ndecls : list (name * (list name * nkspec)).   (* type, the nested key declared for it: leaf part, nested part *)
  Variable tn : bool.
  Notation vars := (pvars vdsM supM).
  Notation Q := (s_query sc).
  Notation sub_at' := (sub_at sc subs).

  (* the representation identifies the entity: a declared flat key among its leaf fields and no nested field, or the declared
     nested key: its leaf part among the leaf fields, its nested part exactly the nested fields *)
  Definition key_static_b (T : name) (kl : list name) (kn : nkspec) : bool :=
    (is_nil kn && key_covered decls T kl) ||
    existsb (fun d : name * (list name * nkspec) => bytes_eqb (fst d) T && names_incl (fst (snd d)) kl && nk_eqb kn (snd (snd d))) ndecls.
  (* every leaf representation field is a field of a declared key (flat, or the leaf part of the nested one) or a declared @requires input *)
  Definition repr_fields_ok_n (T : name) (kl : list name) : bool :=
    forallb (fun x => existsb (fun d : name * list name => bytes_eqb (fst d) T && mem_bytes x (snd d)) decls ||
                      existsb (fun rd : rdecl => bytes_eqb (fst (fst rd)) T && mem_bytes x (snd rd)) rdecls ||
                      existsb (fun d : name * (list name * nkspec) => bytes_eqb (fst d) T && mem_bytes x (fst (snd d))) ndecls) kl.

  Definition field_ty_ok (T : name) (n : name) (sh : fshape) (T' : name) : bool :=
    match find_type T (s_types sc) with
    | Some td => match find_field n (td_fields td) with
                 | Some fd => ty_eqb (fd_type fd) (shape_ty sh T')
                 | None => false
                 end
    | None => false
    end.

  Fixpoint fetches_static_b (T : name) (items : list (nat * pitem)) (all : list (fetch3))
           (j : nat) (fs : list (fetch3)) : bool :=
    match fs with
    | [] => true
    | (deps, si, ks) :: r =>
      (negb (is_none (hd_error deps)) && forallb (fun d : dep3 => Nat.ltb (fst d) j) deps &&
       names_incl ks (map fst (flat_map snd deps)) && names_incl (map fst (flat_map snd deps)) ks) && Nat.ltb si (length subs) &&
      key_static_b T (fetch_kl deps ks) (fetch_kn deps) && repr_fields_ok_n T (fetch_kl deps ks) &&
      (* a name is a leaf or a nested field, not both; all entries of a nested field are the same *)
      forallb (fun x : name * list name => if is_nil (snd x) then negb (mem_bytes (fst x) (map fst (fetch_kn deps)))
                                           else existsb (fun y : name * list name => nk_eqb [x] [y]) (fetch_kn deps)) (flat_map snd deps) &&
      sels_noent (src_proj j items all) &&
      req_ok_b (sub_at' si) frags vars not_repr kq T (src_proj j items all) &&
      reqs_static_b rdecls T (src_proj j items all) (fetch_kl deps ks) &&
      fetches_static_b T items all (S j) r
    end.

  Fixpoint pt_static_b (k : nat) (T : name) (pt : ptree) : bool :=
    match k with
    | O => false
    | S k' =>
      match pt with
      | PT items fetches =>
        declared_obj sc T && negb (bytes_eqb T s_Entity) &&
        names_distinct (map (fun ti => item_key (snd ti)) items) &&
        forallb (fun ti => Nat.leb (fst ti) (length fetches)) items &&
        forallb (fun ti => item_unaliased (fetch_keys fetches) (snd ti)) items &&
        (* a nested key field is not selected by the client at this position, nor a leaf representation field *)
        forallb (fun k => negb (mem_bytes k (map (fun ti => item_key (snd ti)) items)) && negb (mem_bytes k (fetch_keys fetches))) (fetch_nnames fetches) &&
        fetches_static_b T items fetches 1%nat fetches &&
        forallb (fun ti => item_static_b k' T (snd ti)) items
      end
    end
  with item_static_b (k : nat) (T : name) (it : pitem) : bool :=
    match k with
    | O => false
    | S k' =>
      match it with
      | PKeep s => plain_field s && sel_nospread s
      | PDown a n args sh T' sub =>
        negb (bytes_eqb n s_typename) && field_ty_ok T n sh T' &&
        match is_leaf_kind sc T' with Some false => true | _ => false end &&
        pt_static_b k' T' sub
      | PAbs a n args sh T' csel rsel alts =>
        ab && negb (bytes_eqb n s_typename) && field_ty_ok T n sh T' &&
        match is_leaf_kind sc T' with Some false => true | _ => false end &&
        negb (bytes_eqb T' s_Entity) &&
        sels_nospread csel && sels_nospread rsel &&
        (* every object type the field can return has its plan tree, over the selections flattened at that type *)
        forallb (fun td => negb (is_obj_kind (td_kind td) && type_applies sc (td_name td) T') ||
                           match find_alt (td_name td) alts with
                           | Some (h, sub) =>
                             flat_merged_is (flatten sc frags vars (abs_fuel csel rsel) (td_name td) csel) (pt_client sub) &&
                             flat_is (flatten sc frags vars (abs_fuel csel rsel) (td_name td) rsel)
                                     (if h then tn_sel :: pt_proj sub else pt_proj sub) &&
                             (if h then sels_top_nokey s_typename (pt_proj sub) else has_tn_sel (pt_proj sub)) &&
                             pt_static_b k' (td_name td) sub
                           | None => false
                           end) (s_types sc)
      end
    end.

  (* a root field is resolved by the root fetch of a subgraph, or -- [__typename] only -- by the gateway itself
     ([r3_root] = the number of subgraphs: no request; the model evaluates it on the supergraph schema) *)
  Definition is_typename_leaf (it : pitem) : bool :=
    match it with PKeep (SField _ n [] [] []) => bytes_eqb n s_typename | _ => false end.
  Definition rfield3_static_b (k : nat) (d : rfield3) : bool :=
    (if is_typename_leaf (r3_item d) then Nat.eqb (r3_root d) (length subs)
     else
       negb (bytes_eqb (match r3_item d with PKeep (SField _ n _ _ _) => n | PDown _ n _ _ _ _ => n | PAbs _ n _ _ _ _ _ _ => n | _ => [] end) s_typename) &&
       Nat.ltb (r3_root d) (length subs) &&
       req_ok_b (sub_at' (r3_root d)) frags vars (fun _ => true) kq Q [item_proj (r3_item d)]) &&
    sels_noent [item_proj (r3_item d)] &&
    item_static_b k Q (r3_item d).

  (* THE VALIDATOR OF PLAN TREES *)
  (* at most one nested key per type; its nested fields and their inner names are distinct *)
  Definition ndecls_wf_b : bool :=
    names_distinct (map fst ndecls) &&
    forallb (fun d : name * (list name * nkspec) => names_distinct (map fst (snd (snd d))) && forallb ninner_distinct_b (snd (snd d))) ndecls.
  Definition tvg_static_b (k : nat) (ds : list rfield3) : bool :=
    ndecls_wf_b &&
    forallb (config_wf_b sc) subs &&
    names_distinct (map r3_key ds) &&
    forallb (fun vd => not_repr (vd_name vd)) vdsM &&
    forallb (rfield3_static_b k) ds.
End Static3.
(* the validator of plan trees without / with positions resolved per runtime type *)
Definition tv3_static_b sc subs frags vdsM supM kq decls rdecls k ds : bool :=
  tvg_static_b sc subs frags vdsM supM kq false decls rdecls [] k ds.
Definition tv4_static_b sc subs frags vdsM supM kq decls rdecls k ds : bool :=
  tvg_static_b sc subs frags vdsM supM kq true decls rdecls [] k ds.
(* ... and with keys with one level of nesting ([ndecls]: per type the nested key declared for it) *)
Definition tv5_static_b sc subs frags vdsM supM kq decls rdecls ndecls k ds : bool :=
  tvg_static_b sc subs frags vdsM supM kq true decls rdecls ndecls k ds.

(* ---- fuel: every selection list a plan tree executes (recursively) ---- *)
Fixpoint pt_need (sc : schema) (pt : ptree) : nat :=
  match pt with
  | PT items fetches =>
    Nat.max (fuel_bound sc (pt_proj pt) + 10)
      (Nat.max (fuel_bound sc (pt_client pt) + 10)
         (Nat.max (fold_right Nat.max O (map (fun j => (fuel_bound sc (src_proj j items fetches) + 10)%nat) (seq 1 (length fetches))))
            ((fix go (l : list (nat * pitem)) : nat :=
                match l with
                | [] => O
                | (_, it) :: r => Nat.max (match it with
                                           | PDown _ _ _ _ _ sub => pt_need sc sub
                                           | PAbs _ _ _ _ _ csel rsel alts =>
                                             (fix goa (l : list (name * bool * ptree)) : nat :=
                                                match l with [] => abs_fuel csel rsel | (_, _, pt) :: r' => Nat.max (pt_need sc pt) (goa r') end) alts
                                           | PKeep _ => O end) (go r)
                end) items)))
  end.
Definition alts_need (sc : schema) (csel rsel : list selection) (alts : list (name * bool * ptree)) : nat :=
  (fix goa (l : list (name * bool * ptree)) : nat :=
     match l with [] => abs_fuel csel rsel | (_, _, pt) :: r' => Nat.max (pt_need sc pt) (goa r') end) alts.
Definition sub_need (sc : schema) (it : pitem) : nat :=
  match it with
  | PDown _ _ _ _ _ sub => pt_need sc sub
  | PAbs _ _ _ _ _ csel rsel alts => alts_need sc csel rsel alts
  | PKeep _ => O
  end.
Definition item_need (sc : schema) (it : pitem) : nat :=
  Nat.max (fuel_bound sc [item_proj it] + 10) (Nat.max (fuel_bound sc [item_client it] + 10)
    (sub_need sc it)).
Definition ds_need (sc : schema) (ds : list rfield3) : nat :=
  Nat.max (fuel_bound sc (map (fun d => item_proj (r3_item d)) ds) + 10)
    (Nat.max (fuel_bound sc (map (fun d => item_client (r3_item d)) ds) + 10)
       (fold_right Nat.max O (map (fun d => item_need sc (r3_item d)) ds))).

(* list-typed fields hold lists, in every entity: NOT needed by the theorems (a list field holding null or a
   non-list value is followed exactly, ProofsPlan3Field.list_value); kept as a statistic of the sampled universes *)
Definition lists_ok_b (sc : schema) (U : universe) : bool :=
  forallb (fun e => match find_type (en_type e) (s_types sc) with
                    | Some td => forallb (fun fd => negb (is_list_ty (fd_type fd)) ||
                                                    match field_fval {| ov_ent := e; ov_repr := None |} (fd_name fd) with
                                                    | FLst _ => true | _ => false end) (td_fields td)
                    | None => true
                    end) U.
Definition univ3_contract_b (sc : schema) (subs : list schema) (decls : list (name * list name)) (rdecls : list rdecl) (U : universe) : bool :=
  univ_contract_b sc decls rdecls subs U.

(* for positions resolved per runtime type: every entity has a declared object type *)
Definition types_ok_b (sc : schema) (U : universe) : bool := forallb (fun e => declared_obj sc (en_type e)) U.
Definition univ4_contract_b (sc : schema) (subs : list schema) (decls : list (name * list name)) (rdecls : list rdecl) (U : universe) : bool :=
  univ3_contract_b sc subs decls rdecls U && types_ok_b sc U.

(* nested keys: the declared nested key identifies the entities of its type; its leaf part are plain non-null leaves,
   its nested part references to existing entities with plain non-null inner leaves *)
Definition nent_contract_b (sc : schema) (ndecls : list (name * (list name * nkspec))) (U : universe) (e : entity) : bool :=
  forallb (fun d : name * (list name * nkspec) =>
             negb (bytes_eqb (fst d) (en_type e)) ||
             (forallb (key_field_ok sc e) (fst (snd d)) && forallb (nkey_ok_b sc U e) (snd (snd d)))) ndecls.
Definition nkey_contract_b (sc : schema) (ndecls : list (name * (list name * nkspec))) (U : universe) : bool :=
  nkey_consistent ndecls U && forallb (nent_contract_b sc ndecls U) U.
Definition univ5_contract_b (sc : schema) (subs : list schema) (decls : list (name * list name)) (rdecls : list rdecl)
           (ndecls : list (name * (list name * nkspec))) (U : universe) : bool :=
  univ4_contract_b sc subs decls rdecls U && nkey_contract_b sc ndecls U.

(* ---- the statements of the induction over plan trees ---- *)
Section Spec3.
  Variable U : universe.
  Variables (sc : schema) (subs : list schema) (vdsM : list vardef) (supM : list (bytes * json)).
  Variables (f2 kq : nat).
  Variable tn : bool.
  Variable decls : list (name * list name).
  Variable rdecls : list rdecl.
  Variable ndecls : list (name * (list name * nkspec)).
  Variable ab : bool.
  Notation vars := (pvars vdsM supM).

  (* monolithic execution on an entity *)
  Definition mex (C : nat) (T : name) (e : entity) (sels : list selection) (p : list pel) : sres :=
    exec_sels sc U [] vars Mono C T {| ov_ent := e; ov_repr := None |} sels p.

  (* what filling does to the one-member result of a [PDown] field *)
  Definition tr3 (k : nat) (key : name) (sh : fshape) (T' : name) (sub : ptree) (r : sres) : sres :=
    match r with
    | (Some [(_, v)], e0) =>
      let x := vres_sres key (lift U sc subs [] vdsM supM f2 tn k sh T' sub v) in (fst x, e0 ++ snd x)
    | _ => r
    end.
  Definition tr3a (k : nat) (key : name) (sh : fshape) (alts : list (name * bool * ptree)) (r : sres) : sres :=
    match r with
    | (Some [(_, v)], e0) =>
      let x := vres_sres key (lifta U sc subs [] vdsM supM f2 tn k sh alts v) in (fst x, e0 ++ snd x)
    | _ => r
    end.

  (* POSITION: the object of an entity [e] as its source returned it (projection), filled, is the object the monolith
     returns for the client's selection; a projection that is already null makes the client's selection null *)
  Definition PS_at (k : nat) : Prop :=
    forall (T : name) (pt : ptree) (e : entity) (p : list pel),
      pt_static_b sc subs [] vdsM supM kq ab decls rdecls ndecls k T pt = true ->
      In e U -> en_type e = T ->
      (pt_need sc pt <= f2)%nat ->
      match mex f2 T e (pt_proj pt) p with
      | (Some l1, e1) =>
        fst (fill U sc subs [] vdsM supM f2 tn k T pt l1) = fst (mex f2 T e (pt_client pt) p) /\
        (e1 ++ snd (fill U sc subs [] vdsM supM f2 tn k T pt l1) = [] <-> snd (mex f2 T e (pt_client pt) p) = []) /\
        (has_tn_sel (pt_proj pt) = true -> get_member s_typename l1 = JStr T)
      | (None, _) => fst (mex f2 T e (pt_client pt) p) = None
      end.

  (* FIELD: a composite field with fetches below it; [q] is the path the source was executed at *)
  Definition FL_at (k : nat) : Prop :=
    forall (T : name) (e : entity) (a : option name) (n : name) (args : list argument) (sh : fshape) (T' : name) (sub : ptree)
           (p q : list pel),
      item_static_b sc subs [] vdsM supM kq ab decls rdecls ndecls k T (PDown a n args sh T' sub) = true ->
      In e U -> en_type e = T ->
      (item_need sc (PDown a n args sh T' sub) <= f2)%nat ->
      sres_weq (tr3 k (response_name a n) sh T' sub (mex f2 T e [SField a n args [] (pt_proj sub)] q))
               (mex f2 T e [SField a n args [] (pt_client sub)] p).

  (* FIELD resolved per runtime type *)
  Definition FA_at (k : nat) : Prop :=
    forall (T : name) (e : entity) (a : option name) (n : name) (args : list argument) (sh : fshape) (T' : name)
           (csel rsel : list selection) (alts : list (name * bool * ptree)) (p q : list pel),
      item_static_b sc subs [] vdsM supM kq ab decls rdecls ndecls k T (PAbs a n args sh T' csel rsel alts) = true ->
      In e U -> en_type e = T ->
      (item_need sc (PAbs a n args sh T' csel rsel alts) <= f2)%nat ->
      sres_weq (tr3a k (response_name a n) sh alts (mex f2 T e [SField a n args [] rsel] q))
               (mex f2 T e [SField a n args [] csel] p).
End Spec3.
