(* C01 / E2, overlapping response keys: the groups of a concatenation, and what the merged execution
   computes ("first field wins, sub-selections concatenate"). *)
From Coq Require Import Lia ZifyNat ZifyN ZifyBool.
From Gv Require Import lib.Bytes lib.Json lib.Gql lib.Exec
     C01.ProofsBase C01.ProofsFuel C01.ProofsSplit C01.ProofsSim.
Open Scope N_scope.

(* a group of [la] extended with the sub-selections of the same-key fields of [lb] *)
Definition ext_group (lb : list selection) (g : grp) : grp :=
  (fst (fst g), snd (fst g), snd g ++ flat_map sel_subs (filter (same_key (fst (fst g))) lb)).
(* the fields of [lb] whose response key does not occur in [la] *)
Definition new_keys (la lb : list selection) : list selection :=
  filter (fun x => negb (has_key (sel_key x) la)) lb.

Lemma filter_true {A} (l : list A) : filter (fun _ => true) l = l.
Proof. induction l as [|x l IH]; [reflexivity|]. cbn. rewrite IH. reflexivity. Qed.
Lemma filter_ext' {A} (p q : A -> bool) l : (forall x, p x = q x) -> filter p l = filter q l.
Proof. intros H. induction l as [|x l IH]; [reflexivity|]. cbn. rewrite H, IH. reflexivity. Qed.
Lemma filter_filter_imp {A} (p q : A -> bool) l :
  (forall x, p x = true -> q x = true) -> filter p (filter q l) = filter p l.
Proof.
  intros H. induction l as [|x l IH]; [reflexivity|]. cbn [filter].
  destruct (q x) eqn:Eq; cbn [filter].
  - rewrite IH. reflexivity.
  - destruct (p x) eqn:Ep; [apply H in Ep; congruence|]. exact IH.
Qed.
Lemma existsb_filter_imp {A} (p q : A -> bool) l :
  (forall x, p x = true -> q x = true) -> existsb p (filter q l) = existsb p l.
Proof.
  intros H. induction l as [|x l IH]; [reflexivity|]. cbn [filter existsb].
  destruct (q x) eqn:Eq; cbn [existsb].
  - rewrite IH. reflexivity.
  - destruct (p x) eqn:Ep; [apply H in Ep; congruence|]. exact IH.
Qed.

Lemma groups_key_of fl : Forall (fun g : grp => fst (fst g) = sel_key (snd (fst g))) (groups fl).
Proof.
  apply (groups_Forall (fun _ => True)) with (n := length fl); [|lia|].
  - intros s same _ _. reflexivity.
  - apply Forall_forall. intros; exact I.
Qed.

Lemma groups_has_key fl : Forall (fun g : grp => has_key (fst (fst g)) fl = true) (groups fl).
Proof.
  apply (groups_Forall (fun s => In s fl)) with (n := length fl); [|lia|].
  - intros s same Hs _. cbn [fst]. unfold has_key. apply existsb_exists. exists s. split; [exact Hs|].
    unfold same_key. apply bytes_eqb_refl.
  - apply Forall_forall. intros x Hx. exact Hx.
Qed.

Lemma groups_app : forall n la lb,
    (length la <= n)%nat ->
    groups (la ++ lb) = map (ext_group lb) (groups la) ++ groups (new_keys la lb).
Proof.
  induction n as [|n IH]; intros la lb Hlen.
  - destruct la; [|simpl in Hlen; lia]. cbn [app groups_nil map]. unfold new_keys. cbn [has_key existsb negb].
    rewrite filter_true. reflexivity.
  - destruct la as [|s rest].
    { cbn [app map]. unfold new_keys. cbn [has_key existsb negb]. rewrite filter_true. reflexivity. }
    cbn [app]. rewrite !groups_cons. cbn [map]. rewrite <- app_comm_cons.
    set (k := sel_key s).
    f_equal.
    + unfold ext_group. cbn [fst snd]. fold k. f_equal.
      rewrite filter_app. cbn [flat_map]. rewrite flat_map_app, app_assoc. reflexivity.
    + rewrite filter_app.
      set (la' := filter (fun x => negb (same_key k x)) rest).
      set (lb' := filter (fun x => negb (same_key k x)) lb).
      rewrite (IH la' lb').
      2:{ unfold la'. pose proof (filter_length_le (fun x => negb (same_key k x)) rest). simpl in Hlen. lia. }
      f_equal.
      * (* the extensions agree on the groups of la' (their keys differ from k) *)
        apply map_ext_in. intros g Hg.
        assert (Hk' : bytes_eqb (fst (fst g)) k = false).
        { assert (HF : Forall (fun g : grp => bytes_eqb (fst (fst g)) k = false) (groups la')).
          { apply (groups_Forall (fun x => negb (same_key k x) = true)) with (n := length la'); [|lia|].
            - intros s0 same Hs0 _. cbn [fst]. apply negb_true_iff in Hs0. exact Hs0.
            - apply Forall_forall. intros x Hx. unfold la' in Hx. apply filter_In in Hx. apply Hx. }
          rewrite Forall_forall in HF. apply HF. exact Hg. }
        unfold ext_group. f_equal. f_equal. f_equal. unfold lb'.
        apply filter_filter_imp. intros x Hx. unfold same_key in *. apply bytes_eqb_eq in Hx.
        rewrite Hx. rewrite bytes_eqb_sym in Hk'. rewrite bytes_eqb_sym, Hk'. reflexivity.
      * (* the remaining fields of lb are the same *)
        f_equal. unfold new_keys, lb'.
        clear IH Hlen. induction lb as [|x lb IHlb]; [reflexivity|].
        cbn [filter]. unfold has_key at 2. cbn [existsb]. fold (has_key (sel_key x) rest).
        change (same_key (sel_key x) s) with (bytes_eqb k (sel_key x)).
        change (same_key k x) with (bytes_eqb (sel_key x) k).
        rewrite (bytes_eqb_sym k (sel_key x)).
        destruct (bytes_eqb (sel_key x) k) eqn:Exk; cbn [negb orb filter].
        -- exact IHlb.
        -- assert (Hh : has_key (sel_key x) la' = has_key (sel_key x) rest).
           { unfold has_key, la'. apply existsb_filter_imp. intros y Hy. unfold same_key in *.
             apply bytes_eqb_eq in Hy. rewrite Hy, Exk. reflexivity. }
           rewrite Hh. destruct (has_key (sel_key x) rest); cbn [negb]; [exact IHlb|]. f_equal. exact IHlb.
Qed.

(* every field of [lb] whose key also occurs in [la] has no sub-selections *)
Definition overlap_nosubs (la lb : list selection) : bool :=
  forallb (fun x => negb (has_key (sel_key x) la) || match sel_subs x with [] => true | _ => false end) lb.

Lemma ext_group_id la lb :
  overlap_nosubs la lb = true -> map (ext_group lb) (groups la) = groups la.
Proof.
  intros Ho. rewrite <- (map_id (groups la)) at 2. apply map_ext_in. intros [[k s] subs] Hg.
  unfold ext_group. cbn [fst snd]. f_equal.
  assert (Hk : has_key k la = true).
  { pose proof (groups_has_key la) as HF. rewrite Forall_forall in HF. apply (HF _ Hg). }
  assert (He : flat_map sel_subs (filter (same_key k) lb) = []).
  { unfold overlap_nosubs in Ho. rewrite forallb_forall in Ho.
    induction lb as [|x lb IHlb]; [reflexivity|]. cbn [filter].
    assert (IH' : flat_map sel_subs (filter (same_key k) lb) = []).
    { apply IHlb. intros y Hy. apply Ho. right. exact Hy. }
    destruct (same_key k x) eqn:Ex; [|exact IH'].
    cbn [flat_map]. rewrite IH', app_nil_r.
    specialize (Ho x (or_introl eq_refl)). unfold same_key in Ex. apply bytes_eqb_eq in Ex. rewrite Ex, Hk in Ho.
    cbn [negb orb] in Ho. destruct (sel_subs x); [reflexivity|discriminate]. }
  rewrite He. apply app_nil_r.
Qed.

Section Overlap.
  Variable sc : schema.
  Variable U : universe.
  Variable frags : list fragment.
  Variable vars : list (bytes * json).
  Variable md : mode.

  Notation exec_sels' := (exec_sels sc U frags vars md).
  Notation exec_field' := (exec_field sc U frags vars md).
  Notation flatten' := (flatten sc frags vars).

  (* execution of an already flattened field list (the loop of [exec_sels] at fuel [f]) *)
  Definition exec_flat (f : nat) (objty : name) (ov : oval) (fl : list selection) (path : list pel) : sres :=
    sels_go (exec_field' (pred f) objty ov) path (groups fl).

  Lemma exec_sels_flat f objty ov sels path fl :
    flatten' f objty sels = FlatOk fl -> exec_sels' f objty ov sels path = exec_flat f objty ov fl path.
  Proof.
    intros Hfl. destruct f as [|f]; [rewrite flatten_0 in Hfl; discriminate|].
    rewrite exec_sels_S, Hfl. reflexivity.
  Qed.

  (* general law: overlapping keys allowed, no side condition.  The merged execution runs, for every
     group of A, A's first field with the sub-selections of the same-key fields of B appended, then
     the fields of B with new keys. *)
  Theorem exec_split_overlap_groups f objty ov A B path la lb :
    flatten' f objty A = FlatOk la -> flatten' f objty B = FlatOk lb ->
    flat_no_oof (flatten' f objty (A ++ B)) = true ->
    exec_sels' f objty ov (A ++ B) path =
    split_merge (sels_go (exec_field' (pred f) objty ov) path (map (ext_group lb) (groups la)))
                (exec_flat f objty ov (new_keys la lb) path).
  Proof.
    intros Ha Hb Hab. destruct f as [|f]; [rewrite flatten_0 in Ha; discriminate|].
    rewrite exec_sels_S. unfold exec_flat. cbn [pred].
    destruct (flatten' (S f) objty (A ++ B)) as [l|e] eqn:Eab.
    - destruct (flatten_app_inv sc frags vars _ _ _ _ _ Eab) as (la' & lb' & Ha' & Hb' & ->).
      rewrite Ha in Ha'. rewrite Hb in Hb'. injection Ha' as <-. injection Hb' as <-.
      fold (groups (la ++ lb)). rewrite (groups_app (length la) la lb (le_n _)).
      apply sels_go_app.
    - exfalso.
      pose proof (flatten_app sc frags vars _ _ _ _ _ _ _ Ha Hb) as Hok.
      rewrite (flatten_mono sc frags vars (S f) (S f + S f) objty (A ++ B)) in Hok; [|lia|rewrite Eab; exact Hab].
      rewrite Eab in Hok. discriminate.
  Qed.

  (* E2 with overlapping keys, under the explicit hypothesis [overlap_nosubs]: the fields of B whose
     key already occurs in A are answered by A (first field wins); the rest is merged. *)
  Theorem exec_split_overlap_partial f objty ov A B path la lb :
    flatten' f objty A = FlatOk la -> flatten' f objty B = FlatOk lb ->
    flat_no_oof (flatten' f objty (A ++ B)) = true ->
    overlap_nosubs la lb = true ->
    exec_sels' f objty ov (A ++ B) path =
    split_merge (exec_sels' f objty ov A path) (exec_flat f objty ov (new_keys la lb) path).
  Proof.
    intros Ha Hb Hab Ho.
    rewrite (exec_split_overlap_groups f objty ov A B path la lb Ha Hb Hab).
    rewrite (ext_group_id la lb Ho).
    rewrite (exec_sels_flat f objty ov A path la Ha). reflexivity.
  Qed.
End Overlap.

(* ---- overlapping identical leaf fields: the data is the key-wise merge of the two results ---- *)
Definition members_key_in (k : name) (l : list (bytes * json)) : bool :=
  existsb (fun kv => bytes_eqb k (fst kv)) l.
(* key-wise merge: the members of [la], then the members of [lb] whose key is new *)
Definition merge_members (la lb : list (bytes * json)) : list (bytes * json) :=
  la ++ filter (fun kv => negb (members_key_in (fst kv) la)) lb.
Definition merge_opt (oa ob : option (list (bytes * json))) : option (list (bytes * json)) :=
  match oa, ob with Some la, Some lb => Some (merge_members la lb) | _, _ => None end.

Definition sel_args (s : selection) : list argument := match s with SField _ _ a _ _ => a | _ => [] end.
Definition is_field (s : selection) : bool := match s with SField _ _ _ _ _ => true | _ => false end.
(* fields with the same response key in the two lists are the same field with the same arguments
   (FieldsInSetCanMerge for leaves) *)
Definition overlap_same (la lb : list selection) : Prop :=
  forall sa sb, In sa la -> In sb lb -> sel_key sa = sel_key sb ->
                sel_fname sa = sel_fname sb /\ sel_args sa = sel_args sb.

Lemma filter_comm {A} (p q : A -> bool) l : filter p (filter q l) = filter q (filter p l).
Proof.
  induction l as [|x l IH]; [reflexivity|]. cbn [filter].
  destruct (q x) eqn:Eq, (p x) eqn:Ep; cbn [filter]; rewrite ?Eq, ?Ep, IH; reflexivity.
Qed.

Lemma groups_filter_key (q : name -> bool) : forall n l,
    (length l <= n)%nat ->
    groups (filter (fun x => q (sel_key x)) l) = filter (fun g : grp => q (fst (fst g))) (groups l).
Proof.
  induction n as [|n IH]; intros l Hlen.
  - destruct l; [reflexivity|simpl in Hlen; lia].
  - destruct l as [|s rest]; [reflexivity|].
    rewrite (groups_cons s rest). cbn [filter fst].
    assert (Hlen' : (length (filter (fun x => negb (same_key (sel_key s) x)) rest) <= n)%nat).
    { pose proof (filter_length_le (fun x => negb (same_key (sel_key s) x)) rest). simpl in Hlen. lia. }
    destruct (q (sel_key s)) eqn:Eq.
    + rewrite groups_cons. f_equal.
      * f_equal. f_equal. f_equal. apply filter_filter_imp.
        intros x Hx. unfold same_key in Hx. apply bytes_eqb_eq in Hx. rewrite Hx. exact Eq.
      * rewrite filter_comm. apply IH. exact Hlen'.
    + rewrite <- (IH _ Hlen'). f_equal. symmetry. apply filter_filter_imp.
      intros x Hx. unfold same_key. destruct (bytes_eqb (sel_key x) (sel_key s)) eqn:E; [|reflexivity].
      apply bytes_eqb_eq in E. rewrite E, Eq in Hx. discriminate.
Qed.

Lemma sels_go_filter ef p (q : name -> bool) gs :
  Forall (fun g : grp => q (fst (fst g)) = false ->
                         c_viol (ef (fst (fst g)) (snd (fst g)) (snd g) (p ++ [PN (fst (fst g))])) = false) gs ->
  fst (sels_go ef p (filter (fun g : grp => q (fst (fst g))) gs)) =
  option_map (filter (fun kv : bytes * json => q (fst kv))) (fst (sels_go ef p gs)).
Proof.
  induction gs as [|[[key s] subs] rest IH]; intros HF; [reflexivity|].
  inversion HF as [|? ? Hg Hrest]; subst. cbn [fst snd] in Hg. specialize (IH Hrest).
  cbn [filter fst]. destruct (q key) eqn:Eq.
  - cbn [sels_go]. destruct (c_viol (ef key s subs (p ++ [PN key]))); [reflexivity|].
    destruct (sels_go ef p (filter _ rest)) as [o1 e1]. destruct (sels_go ef p rest) as [o2 e2].
    cbn [fst] in *. rewrite IH. destruct o2; cbn [option_map filter fst]; [rewrite Eq|]; reflexivity.
  - cbn [sels_go]. rewrite (Hg eq_refl).
    destruct (sels_go ef p rest) as [o2 e2]. cbn [fst] in *. rewrite IH.
    destruct o2; cbn [option_map filter fst]; [rewrite Eq|]; reflexivity.
Qed.

Lemma sels_go_some_noviol ef p gs l errs :
  sels_go ef p gs = (Some l, errs) ->
  Forall (fun g : grp => c_viol (ef (fst (fst g)) (snd (fst g)) (snd g) (p ++ [PN (fst (fst g))])) = false) gs.
Proof.
  revert l errs. induction gs as [|[[key s] subs] rest IH]; intros l errs H; [constructor|].
  cbn [sels_go] in H. destruct (c_viol (ef key s subs (p ++ [PN key]))) eqn:Ev; [discriminate|].
  destruct (sels_go ef p rest) as [[l'|] e2] eqn:Er; [|discriminate].
  constructor; [exact Ev|apply (IH l' e2); reflexivity].
Qed.

Lemma sels_go_member_keys ef p gs l errs :
  sels_go ef p gs = (Some l, errs) ->
  forall k, members_key_in k l = existsb (fun g : grp => bytes_eqb k (fst (fst g))) gs.
Proof.
  revert l errs. induction gs as [|[[key s] subs] rest IH]; intros l errs H k; cbn [sels_go] in H.
  - injection H as <- <-. reflexivity.
  - destruct (c_viol (ef key s subs (p ++ [PN key]))); [discriminate|].
    destruct (sels_go ef p rest) as [[l'|] e2] eqn:Er; [|discriminate].
    injection H as <- <-. unfold members_key_in. cbn [existsb fst]. f_equal. apply (IH l' e2). reflexivity.
Qed.

Lemma has_key_groups la k : has_key k la = existsb (fun g : grp => bytes_eqb k (fst (fst g))) (groups la).
Proof.
  destruct (has_key k la) eqn:Eh.
  - symmetry. destruct (existsb _ (groups la)) eqn:Ee; [reflexivity|].
    (* a field with key k exists, hence a group *)
    exfalso. revert Eh Ee. generalize (le_n (length la)). generalize (length la) at 2 as n.
    intros n. revert la. induction n as [|n IH]; intros la Hlen Eh Ee.
    + destruct la; [discriminate|simpl in Hlen; lia].
    + destruct la as [|s rest]; [discriminate|]. rewrite groups_cons in Ee. cbn [existsb fst] in Ee.
      apply orb_false_iff in Ee. destruct Ee as [Ee1 Ee2].
      unfold has_key in Eh. cbn [existsb] in Eh. unfold same_key in Eh at 1.
      rewrite (bytes_eqb_sym (sel_key s) k) in Eh. rewrite Ee1 in Eh. cbn [orb] in Eh.
      apply (IH (filter (fun x => negb (same_key (sel_key s) x)) rest)); [| |exact Ee2].
      * pose proof (filter_length_le (fun x => negb (same_key (sel_key s) x)) rest). simpl in Hlen. lia.
      * unfold has_key. rewrite existsb_filter_imp; [exact Eh|].
        intros y Hy. unfold same_key in *. apply bytes_eqb_eq in Hy. rewrite Hy, Ee1. reflexivity.
  - symmetry. destruct (existsb _ (groups la)) eqn:Ee; [|reflexivity].
    apply existsb_exists in Ee. destruct Ee as (g & Hg & Hk). apply bytes_eqb_eq in Hk.
    pose proof (groups_has_key la) as HF. rewrite Forall_forall in HF. specialize (HF _ Hg).
    rewrite <- Hk in HF. congruence.
Qed.

Lemma groups_Forall_key (P : selection -> Prop) (Q : grp -> Prop) :
  (forall s same, P s -> Forall (fun x => P x /\ sel_key x = sel_key s) same ->
                  Q (sel_key s, s, flat_map sel_subs (s :: same))) ->
  forall n l, (length l <= n)%nat -> Forall P l -> Forall Q (groups l).
Proof.
  intros HQ. induction n as [|n IH]; intros l Hlen HP.
  - destruct l; [constructor|simpl in Hlen; lia].
  - destruct l as [|s rest]; [constructor|].
    rewrite groups_cons. inversion HP as [|? ? Hs Hrest]; subst.
    rewrite Forall_forall in Hrest.
    constructor.
    + apply HQ; [exact Hs|]. apply Forall_forall. intros x Hx. apply filter_In in Hx. destruct Hx as [Hx Hk].
      split; [apply Hrest; exact Hx|]. unfold same_key in Hk. apply bytes_eqb_eq in Hk. exact Hk.
    + apply IH.
      * pose proof (filter_length_le (fun x => negb (same_key (sel_key s) x)) rest). simpl in Hlen. lia.
      * apply Forall_forall. intros x Hx. apply filter_In in Hx. apply Hrest. apply Hx.
Qed.

(* groups of [lb] whose key occurs in [la] carry no sub-selections *)
Lemma overlap_nosubs_group la lb :
  overlap_nosubs la lb = true ->
  Forall (fun g : grp => has_key (fst (fst g)) la = true -> snd g = []) (groups lb).
Proof.
  intros Ho. unfold overlap_nosubs in Ho. rewrite forallb_forall in Ho.
  apply (groups_Forall_key (fun x => In x lb)) with (n := length lb); [|lia|apply Forall_forall; auto].
  intros s same Hs Hsame Hk. cbn [fst snd] in *.
  assert (Hall : forall x, In x (s :: same) -> sel_subs x = []).
  { intros x Hx.
    assert (Hxl : In x lb /\ sel_key x = sel_key s).
    { destruct Hx as [<-|Hx]; [split; [exact Hs|reflexivity]|]. rewrite Forall_forall in Hsame. apply Hsame. exact Hx. }
    destruct Hxl as [Hxl Hkx]. specialize (Ho x Hxl). rewrite Hkx, Hk in Ho. cbn [negb orb] in Ho.
    destruct (sel_subs x); [reflexivity|discriminate]. }
  induction (s :: same) as [|x l IH]; [reflexivity|]. cbn [flat_map].
  rewrite (Hall x (or_introl eq_refl)). cbn [app]. apply IH. intros y Hy. apply Hall. right. exact Hy.
Qed.

Section OverlapData.
  Variable sc : schema.
  Variable U : universe.
  Variable frags : list fragment.
  Variable vars : list (bytes * json).
  Variable md : mode.

  Notation exec_sels' := (exec_sels sc U frags vars md).
  Notation exec_field' := (exec_field sc U frags vars md).
  Notation flatten' := (flatten sc frags vars).

  Lemma flatten_all_fields : forall f objty sels fl,
      flatten' f objty sels = FlatOk fl -> forallb is_field fl = true.
  Proof.
    induction f as [|f IH]; intros objty sels fl Hf; [rewrite flatten_0 in Hf; discriminate|].
    destruct sels as [|s rest]; [rewrite flatten_S_nil in Hf; injection Hf as <-; reflexivity|].
    rewrite flatten_S_cons in Hf.
    destruct (flat_here sc frags vars (flatten' f objty) objty s) as [l1|e] eqn:Eh; [|discriminate].
    cbn [flat_seq] in Hf. destruct (flatten' f objty rest) as [l2|e] eqn:Er; [|discriminate].
    injection Hf as <-. rewrite forallb_app. apply andb_true_iff. split; [|apply (IH objty rest); exact Er].
    destruct s as [a n args dirs ss|cond dirs ss|n dirs]; cbn [flat_here] in Eh.
    - destruct (included vars dirs); injection Eh as <-; reflexivity.
    - destruct (negb (included vars dirs)); [injection Eh as <-; reflexivity|].
      destruct cond as [c|]; [|apply (IH objty ss); exact Eh].
      destruct (kind_of sc c).
      + destruct (type_applies sc objty c); [apply (IH objty ss); exact Eh|injection Eh as <-; reflexivity].
      + destruct (bytes_eqb c [95; 69; 110; 116; 105; 116; 121]); [apply (IH objty ss); exact Eh|discriminate].
    - destruct (negb (included vars dirs)); [injection Eh as <-; reflexivity|].
      destruct (find_frag n frags) as [fr|]; [|discriminate].
      destruct (type_applies sc objty (fr_type fr)); [apply (IH objty (fr_sels fr)); exact Eh|injection Eh as <-; reflexivity].
  Qed.

  (* a field's result depends on the selection only through its name and arguments *)
  Lemma exec_field_same f objty ov key sa sb subs p :
    is_field sa = true -> is_field sb = true ->
    sel_fname sa = sel_fname sb -> sel_args sa = sel_args sb ->
    exec_field' f objty ov key sa subs p = exec_field' f objty ov key sb subs p.
  Proof.
    intros Ha Hb Hn Hargs. destruct f as [|f]; [reflexivity|]. rewrite !exec_field_S.
    destruct sa as [a1 n1 args1 d1 s1| |], sb as [a2 n2 args2 d2 s2| |]; try discriminate.
    cbn in Hn, Hargs. subst. reflexivity.
  Qed.

  (* E2, overlapping keys, data level: if overlapping fields are leaves without sub-selections (both
     ways) and are the same field with the same arguments, the members of the merged execution are
     the key-wise merge of the members of the two executions; null propagates from either *)
  Theorem exec_split_overlap_data f objty ov A B path la lb :
    flatten' f objty A = FlatOk la -> flatten' f objty B = FlatOk lb ->
    flat_no_oof (flatten' f objty (A ++ B)) = true ->
    overlap_nosubs la lb = true -> overlap_nosubs lb la = true -> overlap_same la lb ->
    fst (exec_sels' f objty ov (A ++ B) path) =
    merge_opt (fst (exec_sels' f objty ov A path)) (fst (exec_sels' f objty ov B path)).
  Proof.
    intros Ha Hb Hab Ho1 Ho2 Hsame.
    rewrite (exec_split_overlap_partial sc U frags vars md f objty ov A B path la lb Ha Hb Hab Ho1).
    rewrite (exec_sels_flat sc U frags vars md f objty ov A path la Ha).
    rewrite (exec_sels_flat sc U frags vars md f objty ov B path lb Hb).
    unfold exec_flat, split_merge, merge_opt.
    set (ef := exec_field' (pred f) objty ov).
    destruct (sels_go ef path (groups la)) as [[lam|] ea] eqn:HA; cbn [fst snd]; [|reflexivity].
    (* the new-key groups of lb are the groups of lb filtered by key *)
    unfold new_keys.
    rewrite (groups_filter_key (fun k => negb (has_key k la)) (length lb) lb (le_n _)).
    rewrite (sels_go_filter ef path (fun k => negb (has_key k la)) (groups lb)).
    - destruct (sels_go ef path (groups lb)) as [[lbm|] eb]; cbn [fst option_map]; [|reflexivity].
      unfold merge_members. f_equal. f_equal. apply filter_ext'. intros [k v]. cbn [fst]. f_equal.
      rewrite (sels_go_member_keys ef path (groups la) lam ea HA k). apply has_key_groups.
    - (* overlapping groups of lb do not violate: they compute what la's group computes *)
      pose proof (sels_go_some_noviol ef path (groups la) lam ea HA) as HnvA.
      pose proof (groups_first_in lb) as HinB. pose proof (groups_key_of lb) as HkB.
      pose proof (overlap_nosubs_group la lb Ho1) as HsB.
      pose proof (groups_first_in la) as HinA. pose proof (groups_key_of la) as HkA.
      pose proof (overlap_nosubs_group lb la Ho2) as HsA.
      pose proof (groups_has_key lb) as HhB.
      pose proof (flatten_all_fields f objty A la Ha) as HfA. pose proof (flatten_all_fields f objty B lb Hb) as HfB.
      rewrite forallb_forall in HfA, HfB.
      rewrite Forall_forall in *. intros [[kb sb] subsb] Hgb Hq. cbn [fst snd] in *.
      apply negb_false_iff in Hq.
      specialize (HinB _ Hgb). specialize (HkB _ Hgb). specialize (HsB _ Hgb Hq). specialize (HhB _ Hgb).
      cbn [fst snd] in *. subst subsb.
      rewrite has_key_groups in Hq. apply existsb_exists in Hq. destruct Hq as ([[ka sa] subsa] & Hga & Hk).
      cbn [fst] in Hk. apply bytes_eqb_eq in Hk. subst ka.
      specialize (HinA _ Hga). specialize (HkA _ Hga). specialize (HsA _ Hga HhB). specialize (HnvA _ Hga).
      cbn [fst snd] in *. subst subsa.
      destruct (Hsame sa sb HinA HinB) as [Hn Hargs]; [congruence|].
      unfold ef in *. rewrite <- (exec_field_same (pred f) objty ov kb sa sb [] _ (HfA _ HinA) (HfB _ HinB) Hn Hargs).
      exact HnvA.
  Qed.
End OverlapData.
