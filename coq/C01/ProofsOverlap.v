(* C01 / E2, overlapping response keys: the groups of a concatenation, and what the merged execution
   computes ("first field wins, sub-selections concatenate"). *)
From Coq Require Import Lia ZifyNat ZifyN ZifyBool.
From Gv Require Import lib.Bytes lib.Json lib.Gql lib.Exec
     C01.ProofsBase C01.ProofsFuel C01.ProofsSplit C01.ProofsSim.
Open Scope N_scope.

(* a group of [la] extended with the sub-selections of the same-key fields of [lb] *)
Definition ext_group (lb : list selection) (g : grp) : grp :=
  (fst (fst g), snd (fst g), snd g ++ flat_map sel_subs (filter (same_key (fst (fst g))) lb)).
(* the fields of [lb] whose response key does not occur in [la] *)
Definition new_keys (la lb : list selection) : list selection :=
  filter (fun x => negb (has_key (sel_key x) la)) lb.

Lemma filter_true {A} (l : list A) : filter (fun _ => true) l = l.
Proof. induction l as [|x l IH]; [reflexivity|]. cbn. rewrite IH. reflexivity. Qed.
Lemma filter_ext' {A} (p q : A -> bool) l : (forall x, p x = q x) -> filter p l = filter q l.
Proof. intros H. induction l as [|x l IH]; [reflexivity|]. cbn. rewrite H, IH. reflexivity. Qed.
Lemma filter_filter_imp {A} (p q : A -> bool) l :
  (forall x, p x = true -> q x = true) -> filter p (filter q l) = filter p l.
Proof.
  intros H. induction l as [|x l IH]; [reflexivity|]. cbn [filter].
  destruct (q x) eqn:Eq; cbn [filter].
  - rewrite IH. reflexivity.
  - destruct (p x) eqn:Ep; [apply H in Ep; congruence|]. exact IH.
Qed.
Lemma existsb_filter_imp {A} (p q : A -> bool) l :
  (forall x, p x = true -> q x = true) -> existsb p (filter q l) = existsb p l.
Proof.
  intros H. induction l as [|x l IH]; [reflexivity|]. cbn [filter existsb].
  destruct (q x) eqn:Eq; cbn [existsb].
  - rewrite IH. reflexivity.
  - destruct (p x) eqn:Ep; [apply H in Ep; congruence|]. exact IH.
Qed.

Lemma groups_key_of fl : Forall (fun g : grp => fst (fst g) = sel_key (snd (fst g))) (groups fl).
Proof.
  apply (groups_Forall (fun _ => True)) with (n := length fl); [|lia|].
  - intros s same _ _. reflexivity.
  - apply Forall_forall. intros; exact I.
Qed.

Lemma groups_has_key fl : Forall (fun g : grp => has_key (fst (fst g)) fl = true) (groups fl).
Proof.
  apply (groups_Forall (fun s => In s fl)) with (n := length fl); [|lia|].
  - intros s same Hs _. cbn [fst]. unfold has_key. apply existsb_exists. exists s. split; [exact Hs|].
    unfold same_key. apply bytes_eqb_refl.
  - apply Forall_forall. intros x Hx. exact Hx.
Qed.

Lemma groups_app : forall n la lb,
    (length la <= n)%nat ->
    groups (la ++ lb) = map (ext_group lb) (groups la) ++ groups (new_keys la lb).
Proof.
  induction n as [|n IH]; intros la lb Hlen.
  - destruct la; [|simpl in Hlen; lia]. cbn [app groups_nil map]. unfold new_keys. cbn [has_key existsb negb].
    rewrite filter_true. reflexivity.
  - destruct la as [|s rest].
    { cbn [app map]. unfold new_keys. cbn [has_key existsb negb]. rewrite filter_true. reflexivity. }
    cbn [app]. rewrite !groups_cons. cbn [map]. rewrite <- app_comm_cons.
    set (k := sel_key s).
    f_equal.
    + unfold ext_group. cbn [fst snd]. fold k. f_equal.
      rewrite filter_app. cbn [flat_map]. rewrite flat_map_app, app_assoc. reflexivity.
    + rewrite filter_app.
      set (la' := filter (fun x => negb (same_key k x)) rest).
      set (lb' := filter (fun x => negb (same_key k x)) lb).
      rewrite (IH la' lb').
      2:{ unfold la'. pose proof (filter_length_le (fun x => negb (same_key k x)) rest). simpl in Hlen. lia. }
      f_equal.
      * (* the extensions agree on the groups of la' (their keys differ from k) *)
        apply map_ext_in. intros g Hg.
        assert (Hk' : bytes_eqb (fst (fst g)) k = false).
        { assert (HF : Forall (fun g : grp => bytes_eqb (fst (fst g)) k = false) (groups la')).
          { apply (groups_Forall (fun x => negb (same_key k x) = true)) with (n := length la'); [|lia|].
            - intros s0 same Hs0 _. cbn [fst]. apply negb_true_iff in Hs0. exact Hs0.
            - apply Forall_forall. intros x Hx. unfold la' in Hx. apply filter_In in Hx. apply Hx. }
          rewrite Forall_forall in HF. apply HF. exact Hg. }
        unfold ext_group. f_equal. f_equal. f_equal. unfold lb'.
        apply filter_filter_imp. intros x Hx. unfold same_key in *. apply bytes_eqb_eq in Hx.
        rewrite Hx. rewrite bytes_eqb_sym in Hk'. rewrite bytes_eqb_sym, Hk'. reflexivity.
      * (* the remaining fields of lb are the same *)
        f_equal. unfold new_keys, lb'.
        clear IH Hlen. induction lb as [|x lb IHlb]; [reflexivity|].
        cbn [filter]. unfold has_key at 2. cbn [existsb]. fold (has_key (sel_key x) rest).
        change (same_key (sel_key x) s) with (bytes_eqb k (sel_key x)).
        change (same_key k x) with (bytes_eqb (sel_key x) k).
        rewrite (bytes_eqb_sym k (sel_key x)).
        destruct (bytes_eqb (sel_key x) k) eqn:Exk; cbn [negb orb filter].
        -- exact IHlb.
        -- assert (Hh : has_key (sel_key x) la' = has_key (sel_key x) rest).
           { unfold has_key, la'. apply existsb_filter_imp. intros y Hy. unfold same_key in *.
             apply bytes_eqb_eq in Hy. rewrite Hy, Exk. reflexivity. }
           rewrite Hh. destruct (has_key (sel_key x) rest); cbn [negb]; [exact IHlb|]. f_equal. exact IHlb.
Qed.

(* every field of [lb] whose key also occurs in [la] has no sub-selections *)
Definition overlap_nosubs (la lb : list selection) : bool :=
  forallb (fun x => negb (has_key (sel_key x) la) || match sel_subs x with [] => true | _ => false end) lb.

Lemma ext_group_id la lb :
  overlap_nosubs la lb = true -> map (ext_group lb) (groups la) = groups la.
Proof.
  intros Ho. rewrite <- (map_id (groups la)) at 2. apply map_ext_in. intros [[k s] subs] Hg.
  unfold ext_group. cbn [fst snd]. f_equal.
  assert (Hk : has_key k la = true).
  { pose proof (groups_has_key la) as HF. rewrite Forall_forall in HF. apply (HF _ Hg). }
  assert (He : flat_map sel_subs (filter (same_key k) lb) = []).
  { unfold overlap_nosubs in Ho. rewrite forallb_forall in Ho.
    induction lb as [|x lb IHlb]; [reflexivity|]. cbn [filter].
    assert (IH' : flat_map sel_subs (filter (same_key k) lb) = []).
    { apply IHlb. intros y Hy. apply Ho. right. exact Hy. }
    destruct (same_key k x) eqn:Ex; [|exact IH'].
    cbn [flat_map]. rewrite IH', app_nil_r.
    specialize (Ho x (or_introl eq_refl)). unfold same_key in Ex. apply bytes_eqb_eq in Ex. rewrite Ex, Hk in Ho.
    cbn [negb orb] in Ho. destruct (sel_subs x); [reflexivity|discriminate]. }
  rewrite He. apply app_nil_r.
Qed.

Section Overlap.
  Variable sc : schema.
  Variable U : universe.
  Variable frags : list fragment.
  Variable vars : list (bytes * json).
  Variable md : mode.

  Notation exec_sels' := (exec_sels sc U frags vars md).
  Notation exec_field' := (exec_field sc U frags vars md).
  Notation flatten' := (flatten sc frags vars).

  (* execution of an already flattened field list (the loop of [exec_sels] at fuel [f]) *)
  Definition exec_flat (f : nat) (objty : name) (ov : oval) (fl : list selection) (path : list pel) : sres :=
    sels_go (exec_field' (pred f) objty ov) path (groups fl).

  Lemma exec_sels_flat f objty ov sels path fl :
    flatten' f objty sels = FlatOk fl -> exec_sels' f objty ov sels path = exec_flat f objty ov fl path.
  Proof.
    intros Hfl. destruct f as [|f]; [rewrite flatten_0 in Hfl; discriminate|].
    rewrite exec_sels_S, Hfl. reflexivity.
  Qed.

  (* general law: overlapping keys allowed, no side condition.  The merged execution runs, for every
     group of A, A's first field with the sub-selections of the same-key fields of B appended, then
     the fields of B with new keys. *)
  Theorem exec_split_overlap_groups f objty ov A B path la lb :
    flatten' f objty A = FlatOk la -> flatten' f objty B = FlatOk lb ->
    flat_no_oof (flatten' f objty (A ++ B)) = true ->
    exec_sels' f objty ov (A ++ B) path =
    split_merge (sels_go (exec_field' (pred f) objty ov) path (map (ext_group lb) (groups la)))
                (exec_flat f objty ov (new_keys la lb) path).
  Proof.
    intros Ha Hb Hab. destruct f as [|f]; [rewrite flatten_0 in Ha; discriminate|].
    rewrite exec_sels_S. unfold exec_flat. cbn [pred].
    destruct (flatten' (S f) objty (A ++ B)) as [l|e] eqn:Eab.
    - destruct (flatten_app_inv sc frags vars _ _ _ _ _ Eab) as (la' & lb' & Ha' & Hb' & ->).
      rewrite Ha in Ha'. rewrite Hb in Hb'. injection Ha' as <-. injection Hb' as <-.
      fold (groups (la ++ lb)). rewrite (groups_app (length la) la lb (le_n _)).
      apply sels_go_app.
    - exfalso.
      pose proof (flatten_app sc frags vars _ _ _ _ _ _ _ Ha Hb) as Hok.
      rewrite (flatten_mono sc frags vars (S f) (S f + S f) objty (A ++ B)) in Hok; [|lia|rewrite Eab; exact Hab].
      rewrite Eab in Hok. discriminate.
  Qed.

  (* E2 with overlapping keys, under the explicit hypothesis [overlap_nosubs]: the fields of B whose
     key already occurs in A are answered by A (first field wins); the rest is merged. *)
  Theorem exec_split_overlap_partial f objty ov A B path la lb :
    flatten' f objty A = FlatOk la -> flatten' f objty B = FlatOk lb ->
    flat_no_oof (flatten' f objty (A ++ B)) = true ->
    overlap_nosubs la lb = true ->
    exec_sels' f objty ov (A ++ B) path =
    split_merge (exec_sels' f objty ov A path) (exec_flat f objty ov (new_keys la lb) path).
  Proof.
    intros Ha Hb Hab Ho.
    rewrite (exec_split_overlap_groups f objty ov A B path la lb Ha Hb Hab).
    rewrite (ext_group_id la lb Ho).
    rewrite (exec_sels_flat f objty ov A path la Ha). reflexivity.
  Qed.
End Overlap.
