(* C01 / (4): a plan with two root fields (one with an entity fetch) checked and run. *)
From Coq Require Import PeanoNat Lia.
From Gv Require Import lib.Bytes lib.Json lib.Gql lib.Exec
     C01.ProofsBase C01.ProofsFuel C01.ProofsSplit C01.ProofsSim C01.ProofsJoin C01.ProofsOverlap
     C01.ProofsTwoStep C01.ProofsCtxBase C01.ProofsCtx C01.ProofsTwoStepWf C01.ProofsPlanAlg C01.ProofsPlan C01.ProofsPlanOk
     C01.Examples.
Open Scope N_scope.

Definition bother : bytes := [111;116;104;101;114].
(* client:  { product { name price }  other: product { id name } }
   plan:    root fetch on subgraph 1: { product { name __typename id }  other: product { id name } }
            entity fetch at [product] on subgraph 2, key id: { price } *)
Definition d_prod : dfield :=
  {| df_alias := None; df_name := bproduct; df_args := []; df_nn := false; df_selA := [fld bname []];
     df_fetch := Some {| ef_sub := S2; ef_T := bProduct; ef_ks := [bid]; ef_sel := [fld bprice []] |} |}.
Definition d_other : dfield :=
  {| df_alias := Some bother; df_name := bproduct; df_args := []; df_nn := false;
     df_selA := [fld bid []; fld bname []]; df_fetch := None |}.
Definition ds0 : list dfield := [d_prod; d_other].

Example ex_plan_shape :
  plan_of S0 [] [] [] S1 5 ds0 =
  [RootFetch S1 [SField None bproduct [] [] ([fld bname []] ++ key_sels [bid]);
                 SField (Some bother) bproduct [] [] ([fld bid []; fld bname []] ++ [])];
   EntityFetch [bproduct] false {| ef_sub := S2; ef_T := bProduct; ef_ks := [bid]; ef_sel := [fld bprice []] |} [fld bname []]].
Proof. vm_compute. reflexivity. Qed.

Example ex_plan_ok : plan_ok_b U0 S0 [] [] [] S1 5 6 decls0 ds0 = true.
Proof. vm_compute. reflexivity. Qed.

Example ex_plan_run :
  run_plan U0 S0 [] [] [] e_root 40 40 (plan_of S0 [] [] [] S1 5 ds0) =
  (Some [(bproduct, JObj [(bname, JStr bChair); (bprice, JNum b10)]);
         (bother, JObj [(bid, JStr bp1); (bname, JStr bChair)])], []) /\
  mono_plan U0 S0 [] [] [] e_root 20 ds0 =
  (Some [(bproduct, JObj [(bname, JStr bChair); (bprice, JNum b10)]);
         (bother, JObj [(bid, JStr bp1); (bname, JStr bChair)])], []).
Proof. split; vm_compute; reflexivity. Qed.

(* a plan whose entity fetch asks subgraph 1 for a field it does not own is rejected *)
Definition d_bad : dfield :=
  {| df_alias := None; df_name := bproduct; df_args := []; df_nn := false; df_selA := [fld bname []];
     df_fetch := Some {| ef_sub := S1; ef_T := bProduct; ef_ks := [bid]; ef_sel := [fld bprice []] |} |}.
Example ex_plan_not_ok : plan_ok_b U0 S0 [] [] [] S1 5 6 decls0 [d_bad] = false.
Proof. vm_compute. reflexivity. Qed.

Example plan_ok_sound_applies : forall f1 f2, (60 <= f1)%nat -> (70 <= f2)%nat ->
  fst (run_plan U0 S0 [] [] [] e_root f1 f2 (plan_of S0 [] [] [] S1 5 ds0)) =
  Some [(bproduct, JObj [(bname, JStr bChair); (bprice, JNum b10)]);
        (bother, JObj [(bid, JStr bp1); (bname, JStr bChair)])].
Proof.
  intros f1 f2 Hf1 Hf2.
  destruct (plan_ok_sound_keys_partial U0 S0 [] [] [] S1 e_root 5 6 f1 f2 20 decls0 eq_refl ds0 ex_plan_ok) as [Hd _].
  - vm_compute. reflexivity.
  - vm_compute. lia.
  - vm_compute. lia.
  - vm_compute. lia.
  - rewrite Hd. vm_compute. reflexivity.
Qed.
