(* C01 / (5): the plan algebra of ProofsPlan.v made generic, so that the same induction serves every
   kind of root field (entity fetch on a single object, on a list, with the planner's __typename,
   resolved by its own root subgraph ...).

   A root field [d] is described abstractly by
     [key d]   its response key,
     [a_of d]  what the root subgraph answers for the field alone (a one-member result),
     [m_of d]  what the monolith answers for the client's field alone,
     [tr d]    what the entity fetch of the field (if any) makes of a one-member result.
   If every field is linked ([wlink]: [tr d (a_of d)] has the data of [m_of d] and errors iff it has),
   then applying all fetches to the merged root answer gives the data of the merged monolithic
   answers, and errors iff. *)
From Coq Require Import PeanoNat Lia.
From Gv Require Import lib.Bytes lib.Json lib.Gql lib.Exec
     C01.ProofsBase C01.ProofsSplit C01.ProofsSim C01.ProofsTwoStep C01.ProofsPlanAlg.
Open Scope N_scope.

(* weak equality of results: same data, errors iff *)
Definition sres_weq (a b : sres) : Prop := fst a = fst b /\ (snd a = [] <-> snd b = []).

Lemma sres_weq_refl a : sres_weq a a.
Proof. split; [reflexivity|tauto]. Qed.
Lemma sres_weq_trans a b c : sres_weq a b -> sres_weq b c -> sres_weq a c.
Proof. intros [H1 H2] [H3 H4]. split; [congruence|tauto]. Qed.
Lemma sres_weq_sym a b : sres_weq a b -> sres_weq b a.
Proof. intros [H1 H2]. split; [congruence|tauto]. Qed.

Fixpoint names_distinct (l : list name) : bool :=
  match l with [] => true | k :: r => negb (mem_bytes k r) && names_distinct r end.

Section Gen.
  Variable fld : Type.
  Variable key : fld -> name.
  Variables a_of m_of : fld -> sres.
  Variable tr : fld -> sres -> sres.
  Variable has_fetch : fld -> bool.

  Definition ffun (d : fld) : fetch_fun := fun v => tr d (Some [(key d, v)], []).
  Definition gefs (ds : list fld) : list (name * fetch_fun) :=
    flat_map (fun d => if has_fetch d then [(key d, ffun d)] else []) ds.
  Definition Rfold (ds : list fld) : sres := fold_right (fun d acc => split_merge (a_of d) acc) (Some [], []) ds.
  Definition Mfold (ds : list fld) : sres := fold_right (fun d acc => split_merge (m_of d) acc) (Some [], []) ds.

  Definition one_member (k : name) (r : sres) : Prop :=
    (exists e, r = (None, e)) \/ (exists v e, r = (Some [(k, v)], e)).

  Hypothesis Hshape_a : forall d, one_member (key d) (a_of d).
  Hypothesis Hshape_m : forall d, one_member (key d) (m_of d).
  Hypothesis Hnone_a : forall d e, a_of d = (None, e) -> e <> [].
  Hypothesis Hnone_m : forall d e, m_of d = (None, e) -> e <> [].
  Hypothesis Htr_none : forall d e, tr d (None, e) = (None, e).
  Hypothesis Htr_prefix : forall d o e,
      fst (tr d (o, e)) = fst (tr d (o, [])) /\ (snd (tr d (o, e)) = [] <-> e = [] /\ snd (tr d (o, [])) = []).
  Hypothesis Htr_id : forall d, has_fetch d = false -> forall r, tr d r = r.

  Definition wlink (d : fld) : Prop := no_oof (snd (m_of d)) = true -> sres_weq (tr d (a_of d)) (m_of d).

  Lemma fold_none_errs (g : fld -> sres) (Hg : forall d e, g d = (None, e) -> e <> []) ds errs :
    fold_right (fun d acc => split_merge (g d) acc) (Some [], []) ds = (None, errs) -> errs <> [].
  Proof.
    revert errs. induction ds as [|d ds IH]; intros errs H; [discriminate|].
    cbn [fold_right] in H.
    set (F := fold_right (fun d acc => split_merge (g d) acc) (Some [], []) ds) in *.
    unfold split_merge in H.
    destruct (g d) as [[la|] ea] eqn:Eg; cbn [fst snd] in H.
    - destruct F as [[lb|] eb] eqn:Ef; cbn [fst snd] in H; [discriminate|].
      injection H as <-. intros Hn. apply app_eq_nil in Hn. destruct Hn as [_ Hn]. apply (IH eb eq_refl Hn).
    - injection H as <-. apply (Hg d ea Eg).
  Qed.

  Lemma gefs_cons d r : gefs (d :: r) = (if has_fetch d then [(key d, ffun d)] else []) ++ gefs r.
  Proof. reflexivity. Qed.

  Lemma gefs_keys k ds :
    mem_bytes k (map key ds) = false -> forallb (fun kf => negb (bytes_eqb (fst kf) k)) (gefs ds) = true.
  Proof.
    induction ds as [|d r IH]; [reflexivity|]. cbn [map mem_bytes]. rewrite gefs_cons.
    intros H. apply orb_false_iff in H. destruct H as [H1 H2]. rewrite forallb_app.
    apply andb_true_iff. split; [|apply IH; exact H2].
    destruct (has_fetch d); [|reflexivity]. cbn [forallb fst]. rewrite bytes_eqb_sym, H1. reflexivity.
  Qed.

  Theorem gen_alg : forall ds,
      Forall wlink ds -> names_distinct (map key ds) = true ->
      no_oof (snd (Mfold ds)) = true ->
      sres_weq (run_fetches (gefs ds) (Rfold ds)) (Mfold ds).
  Proof.
    induction ds as [|d ds IH]; intros Hlink Hk Hn.
    - cbn. apply sres_weq_refl.
    - inversion Hlink as [|? ? Hld Hlrest]; subst.
      cbn [map names_distinct] in Hk. apply andb_true_iff in Hk. destruct Hk as [Hk1 Hk2]. apply negb_true_iff in Hk1.
      change (Rfold (d :: ds)) with (split_merge (a_of d) (Rfold ds)).
      change (Mfold (d :: ds)) with (split_merge (m_of d) (Mfold ds)) in Hn |- *.
      set (A' := Rfold ds) in *. set (M' := Mfold ds) in *.
      assert (IH' : no_oof (snd M') = true -> sres_weq (run_fetches (gefs ds) A') M')
        by (intros HnM; apply IH; assumption).
      assert (Hnm : no_oof (snd (m_of d)) = true /\ (fst (m_of d) <> None -> no_oof (snd M') = true)).
      { unfold split_merge in Hn. destruct (fst (m_of d)) eqn:Ef; cbn [snd] in Hn.
        - rewrite no_oof_app in Hn. apply andb_true_iff in Hn. destruct Hn as [H1 H2]. split; [exact H1|intros _; exact H2].
        - split; [exact Hn|intros H; contradiction]. }
      destruct Hnm as [Hnm HnM'].
      destruct (Hld Hnm) as [Hld1 Hld2].
      assert (HMnone : forall errs, M' = (None, errs) -> errs <> []) by (intros errs H; apply (fold_none_errs m_of Hnone_m ds errs H)).
      assert (HAnone : forall errs, A' = (None, errs) -> errs <> []) by (intros errs H; apply (fold_none_errs a_of Hnone_a ds errs H)).
      destruct (Hshape_a d) as [[e Ha]|[v [e Ha]]].
      + (* the head is null already after the root fetch *)
        rewrite Ha in Hld1, Hld2 |- *. rewrite Htr_none in Hld1, Hld2. cbn [fst snd] in Hld1, Hld2.
        destruct (m_of d) as [om em] eqn:Em. cbn [fst snd] in Hld1, Hld2. subst om.
        unfold split_merge. cbn [fst snd]. rewrite run_fetches_none. split; [reflexivity|exact Hld2].
      + rewrite Ha in Hld1, Hld2 |- *.
        destruct (Hshape_m d) as [[em Hm]|[vm [em Hm]]].
        * (* the head becomes null in the monolith *)
          rewrite Hm in Hld1, Hld2 |- *. unfold split_merge at 2. cbn [fst snd] in Hld1, Hld2 |- *.
          pose proof (Hnone_m d em Hm) as Hem.
          destruct A' as [oR eR] eqn:EA'. unfold split_merge. cbn [fst snd].
          destruct (has_fetch d) eqn:Efd.
          2:{ rewrite (Htr_id d Efd) in Hld1. discriminate. }
          rewrite gefs_cons, Efd. cbn [app].
          destruct (Htr_prefix d (Some [(key d, v)]) e) as [P1 P2].
          assert (HF1 : fst (ffun d v) = None) by exact (eq_trans (eq_sym P1) Hld1).
          assert (HF2 : em = [] <-> e = [] /\ snd (ffun d v) = []) by (unfold ffun; split; [intros Hq; apply P2, Hld2, Hq|intros Hq; apply Hld2, P2, Hq]).
          destruct oR as [mr|].
          -- rewrite run_fetches_cons. rewrite (apply_fetch_hit (key d) (ffun d) v) by (cbn [obj_get]; rewrite bytes_eqb_refl; reflexivity).
             rewrite HF1. rewrite run_fetches_none. cbn [fst snd].
             split; [reflexivity|]. split; [|intros H; contradiction].
             intros H. apply app_eq_nil in H. destruct H as [H1 H2]. apply app_eq_nil in H1. destruct H1 as [H1 _].
             exfalso. apply Hem. apply HF2. split; [exact H1|exact H2].
          -- rewrite run_fetches_none. cbn [fst snd]. split; [reflexivity|]. split; [|intros H; contradiction].
             intros H. apply app_eq_nil in H. destruct H as [_ H]. exfalso. apply (HAnone eR eq_refl H).
        * (* the head has a value in the monolith *)
          rewrite Hm in Hld1, Hld2 |- *. cbn [fst snd] in Hld1, Hld2.
          assert (HnM : no_oof (snd M') = true) by (apply HnM'; rewrite Hm; discriminate).
          destruct (IH' HnM) as [IH1 IH2].
          destruct A' as [oR eR] eqn:EA'. destruct M' as [oM eM] eqn:EM'.
          unfold split_merge. cbn [fst snd] in *.
          assert (Hhead : exists ex, (em = [] <-> e = [] /\ ex = []) /\
                    forall mr E, run_fetches (gefs (d :: ds)) (Some ((key d, v) :: mr), E) =
                                 run_fetches (gefs ds) (Some ((key d, vm) :: mr), E ++ ex)).
          { rewrite gefs_cons. destruct (has_fetch d) eqn:Efd.
            - destruct (Htr_prefix d (Some [(key d, v)]) e) as [P1 P2].
              assert (HF1 : fst (ffun d v) = Some [(key d, vm)]) by exact (eq_trans (eq_sym P1) Hld1).
              assert (HF2 : em = [] <-> e = [] /\ snd (ffun d v) = []) by (unfold ffun; split; [intros Hq; apply P2, Hld2, Hq|intros Hq; apply Hld2, P2, Hq]).
              exists (snd (ffun d v)). split; [exact HF2|]. intros mr E. cbn [app]. rewrite run_fetches_cons.
              rewrite (apply_fetch_hit (key d) (ffun d) v) by (cbn [obj_get]; rewrite bytes_eqb_refl; reflexivity).
              rewrite HF1. cbn [replace_member]. rewrite bytes_eqb_refl. reflexivity.
            - rewrite (Htr_id d Efd) in Hld1, Hld2. cbn [fst snd] in Hld1, Hld2. injection Hld1 as ->.
              exists []. split; [tauto|]. intros mr E. cbn [app]. rewrite app_nil_r. reflexivity. }
          destruct Hhead as (ex & Hex & Hrun). unfold name in *.
          destruct oR as [mr|].
          -- cbn [app]. rewrite Hrun. rewrite run_fetches_errs.
             rewrite (run_fetches_frame (key d) vm (gefs ds) mr (gefs_keys _ _ Hk1)).
             rewrite (run_fetches_errs (gefs ds) (Some mr) eR) in IH1, IH2. cbn [fst snd] in IH1, IH2 |- *.
             rewrite IH1. split; [destruct oM; reflexivity|]. cbn [snd].
             rewrite !app_nil_iff. rewrite app_nil_iff in IH2. tauto.
          -- rewrite run_fetches_none in IH1, IH2 |- *. cbn [fst snd] in IH1, IH2 |- *. rewrite <- IH1.
             split; [reflexivity|].
             pose proof (HAnone eR eq_refl) as HeR. pose proof (HMnone eM) as HeM. rewrite <- IH1 in HeM. specialize (HeM eq_refl).
             cbn [snd]. rewrite !app_nil_iff. tauto.
  Qed.
End Gen.
