(* C01 / (6): a plan TREE with an entity fetch below an entity fetch, checked by the validator and run
   (non-vacuity of tv3_sound). *)
From Coq Require Import PeanoNat Lia.
From Gv Require Import lib.Bytes lib.Json lib.Gql lib.Exec
     C01.ProofsBase C01.ProofsJoin C01.ProofsTwoStep C01.ProofsPlanAlg C01.ProofsPlanGen C01.ProofsTvStatic C01.ProofsTvDefs
     C01.ProofsPlan2 C01.ProofsFuelSuff C01.ProofsPlan3 C01.ProofsPlan3Main C01.Examples.
Open Scope N_scope.

Definition bMaker : bytes := [77;97;107;101;114].
Definition bmaker : bytes := [109;97;107;101;114].
Definition btitle : bytes := [116;105;116;108;101].
Definition brating : bytes := [114;97;116;105;110;103].
Definition bm1 : bytes := [109;49].
Definition bAcme : bytes := [65;99;109;101].
Definition b5 : bytes := [53].

(* supergraph:  Query { product: Product }  Product { id name price maker: Maker }  Maker { id title rating } *)
Definition T0 : schema :=
  mk_schema [objt bQuery [fdef bproduct (TNamed bProduct)];
             objt bProduct [fdef bid (TNonNull (TNamed bID)); fdef bname (TNamed bString); fdef bprice (TNamed bInt);
                            fdef bmaker (TNamed bMaker)];
             objt bMaker [fdef bid (TNonNull (TNamed bID)); fdef btitle (TNamed bString); fdef brating (TNamed bInt)]].
(* subgraph 0: Query.product, Product {id name};  subgraph 1: Product {id price maker}, Maker {id title};  subgraph 2: Maker {id rating} *)
Definition TA : schema :=
  mk_schema [objt bQuery [fdef bproduct (TNamed bProduct)];
             objt bProduct [fdef bid (TNonNull (TNamed bID)); fdef bname (TNamed bString)]].
Definition TB : schema :=
  mk_schema [objt bQuery [];
             objt bProduct [fdef bid (TNonNull (TNamed bID)); fdef bprice (TNamed bInt); fdef bmaker (TNamed bMaker)];
             objt bMaker [fdef bid (TNonNull (TNamed bID)); fdef btitle (TNamed bString)]].
Definition TC : schema :=
  mk_schema [objt bQuery []; objt bMaker [fdef bid (TNonNull (TNamed bID)); fdef brating (TNamed bInt)]].
Definition tsubs : list schema := [TA; TB; TC].

Definition t_root : entity := {| en_type := bQuery; en_key := []; en_fields := [(bproduct, FRef bProduct bp1)] |}.
Definition t_p1 : entity :=
  {| en_type := bProduct; en_key := bp1;
     en_fields := [(bid, FSc (JStr bp1)); (bname, FSc (JStr bChair)); (bprice, FSc (JNum b10)); (bmaker, FRef bMaker bm1)] |}.
Definition t_m1 : entity :=
  {| en_type := bMaker; en_key := bm1; en_fields := [(bid, FSc (JStr bm1)); (btitle, FSc (JStr bAcme)); (brating, FSc (JNum b5))] |}.
Definition TU : universe := [t_root; t_p1; t_m1].
Definition tdecls : list (name * list name) := [(bProduct, [bid]); (bMaker, [bid])].

(* client:  { product { name price maker { title rating } } }
   real plan: root fetch on 0:            { product { name __typename id } }
              entity fetch at product on 1:        ... on Product { __typename price maker { title __typename id } }
              entity fetch at product.maker on 2:  ... on Maker { __typename rating }      (depends on the previous fetch) *)
Definition pt_maker : ptree := PT [(0%nat, PKeep (fld btitle [])); (1%nat, PKeep (fld brating []))] [([(0%nat, [bid])], 2%nat, [bid])].
Definition pt_product : ptree :=
  PT [(0%nat, PKeep (fld bname [])); (1%nat, PKeep (fld bprice []));
      (1%nat, PDown None bmaker [] (ShObj false) bMaker pt_maker)] [([(0%nat, [bid])], 1%nat, [bid])].
Definition ds3_0 : list rfield3 := [{| r3_root := 0%nat; r3_item := PDown None bproduct [] (ShObj false) bProduct pt_product |}].

Example ex_tv3_accepts : tv3_static_b T0 tsubs [] [] [] 8 tdecls [] 8 ds3_0 = true.
Proof. vm_compute. reflexivity. Qed.
Example ex_tv3_contract : univ3_contract_b T0 tsubs tdecls [] TU = true.
Proof. vm_compute. reflexivity. Qed.

Example ex_tv3_client_doc :
  client_doc3 [] [] ds3_0 =
  query_doc [] [fld bproduct [fld bname []; fld bprice []; fld bmaker [fld btitle []; fld brating []]]] [].
Proof. reflexivity. Qed.

Example ex_tv3_requests :
  model_requests3 [] [] true ds3_0 =
  [MRoot3 0 (query_doc [] [fld bproduct ([fld bname []] ++ key_sels [bid])] []);
   MEntity3 [bproduct] 1 (entities_doc [rep_vd] bProduct [tn_sel; fld bprice []; fld bmaker ([fld btitle []] ++ key_sels [bid])] []) [s_typename; bid];
   MEntity3 [bproduct; bmaker] 2 (entities_doc [rep_vd] bMaker [tn_sel; fld brating []] []) [s_typename; bid]].
Proof. vm_compute. reflexivity. Qed.

Example ex_tv3_run :
  gateway3 TU T0 tsubs [] [] [] t_root 200 200 true 8 ds3_0 =
  (Some [(bproduct, JObj [(bname, JStr bChair); (bprice, JNum b10);
                          (bmaker, JObj [(btitle, JStr bAcme); (brating, JNum b5)])])], []) /\
  mono_client3 TU T0 [] [] [] t_root 200 ds3_0 =
  (Some [(bproduct, JObj [(bname, JStr bChair); (bprice, JNum b10);
                          (bmaker, JObj [(btitle, JStr bAcme); (brating, JNum b5)])])], []).
Proof. split; vm_compute; reflexivity. Qed.

(* a tree whose nested fetch asks the wrong subgraph is rejected *)
Definition pt_maker_bad : ptree := PT [(0%nat, PKeep (fld btitle [])); (1%nat, PKeep (fld brating []))] [([(0%nat, [bid])], 1%nat, [bid])].
Definition ds3_bad : list rfield3 :=
  [{| r3_root := 0%nat;
      r3_item := PDown None bproduct [] (ShObj false) bProduct
                       (PT [(0%nat, PKeep (fld bname [])); (1%nat, PKeep (fld bprice []));
                            (1%nat, PDown None bmaker [] (ShObj false) bMaker pt_maker_bad)] [([(0%nat, [bid])], 1%nat, [bid])]) |}].
Example ex_tv3_rejects : tv3_static_b T0 tsubs [] [] [] 8 tdecls [] 8 ds3_bad = false.
Proof. vm_compute. reflexivity. Qed.

Example tv3_sound_applies : forall F, (ds_need T0 ds3_0 <= F)%nat ->
  sres_weq (gateway3 TU T0 tsubs [] [] [] t_root F F true 8 ds3_0) (mono_client3 TU T0 [] [] [] t_root F ds3_0).
Proof.
  intros F HF. apply (tv3_sound T0 tsubs [] [] 8 tdecls [] true 8 ds3_0 ex_tv3_accepts TU t_root ex_tv3_contract eq_refl F HF).
Qed.

(* ---- the root __typename (resolved by the gateway itself: root index = number of subgraphs, no request) and an entity
        fetch that reads its representation off TWO earlier sources (key from the root fetch, @requires input from another
        entity fetch), on the configuration of Examples.v split over three subgraphs ---- *)
Definition SA : schema := S1.
Definition SB : schema := mk_schema [objt bQuery []; objt bProduct [fdef bid (TNonNull (TNamed bID)); fdef bprice (TNamed bInt)]].
Definition SC : schema := mk_schema [objt bQuery []; objt bProduct [fdef bid (TNonNull (TNamed bID)); fdef bshipping (TNamed bString)]].
Definition subs3 : list schema := [SA; SB; SC].
Definition rdecls3 : list rdecl := [(bProduct, bshipping, [bprice])].

(* client:  { __typename product { name shipping } }
   real plan: root fetch on 0:  { product { name __typename id } }
              entity fetch on 1 (representation {__typename id} off the root fetch):    ... on Product { __typename price }
              entity fetch on 2 (representation {__typename price id}: price off the fetch on 1, id off the root fetch):
                                                                                       ... on Product { __typename shipping } *)
Definition pt_req : ptree :=
  PT [(0%nat, PKeep (fld bname [])); (2%nat, PKeep (fld bshipping []))]
     [([(0%nat, [bid])], 1%nat, [bid]); ([(1%nat, [bprice]); (0%nat, [bid])], 2%nat, [bprice; bid])].
Definition ds3_req : list rfield3 :=
  [{| r3_root := 3%nat; r3_item := PKeep (fld s_typename []) |};
   {| r3_root := 0%nat; r3_item := PDown None bproduct [] (ShObj false) bProduct pt_req |}].

Example ex_tv3_req_accepts : tv3_static_b S0 subs3 [] [] [] 8 decls0 rdecls3 8 ds3_req = true.
Proof. vm_compute. reflexivity. Qed.
Example ex_tv3_req_contract : univ3_contract_b S0 subs3 decls0 rdecls3 U0 = true.
Proof. vm_compute. reflexivity. Qed.
Example ex_tv3_req_requests :
  model_requests3s 3 [] [] true ds3_req =
  [MRoot3 0 (query_doc [] [fld bproduct ([fld bname []] ++ key_sels [bid; bid])] []);
   MEntity3 [bproduct] 1 (entities_doc [rep_vd] bProduct (key_sels [bprice]) []) [s_typename; bid];
   MEntity3 [bproduct] 2 (entities_doc [rep_vd] bProduct [tn_sel; fld bshipping []] []) [s_typename; bprice; bid]].
Proof. vm_compute. reflexivity. Qed.
Example ex_tv3_req_run :
  gateway3 U0 S0 subs3 [] [] [] e_root 200 200 true 8 ds3_req = mono_client3 U0 S0 [] [] [] e_root 200 ds3_req /\
  fst (mono_client3 U0 S0 [] [] [] e_root 200 ds3_req) <> None /\ snd (mono_client3 U0 S0 [] [] [] e_root 200 ds3_req) = [].
Proof. vm_compute. split; [reflexivity|]. split; [discriminate|reflexivity]. Qed.

(* the @requires input taken off a source that was not asked for it: rejected *)
Definition ds3_req_bad : list rfield3 :=
  [{| r3_root := 0%nat;
      r3_item := PDown None bproduct [] (ShObj false) bProduct
                       (PT [(0%nat, PKeep (fld bname [])); (2%nat, PKeep (fld bshipping []))]
                           [([(0%nat, [bid])], 1%nat, [bid]); ([(0%nat, [bid])], 2%nat, [bprice; bid])]) |}].
Example ex_tv3_req_rejects : tv3_static_b S0 subs3 [] [] [] 8 decls0 rdecls3 8 ds3_req_bad = false.
Proof. vm_compute. reflexivity. Qed.
(* a root field other than __typename "resolved by the gateway itself": rejected *)
Example ex_tv3_static_root_rejects :
  tv3_static_b S0 subs3 [] [] [] 8 decls0 rdecls3 8 [{| r3_root := 3%nat; r3_item := PKeep (fld bproduct [fld bname []]) |}] = false.
Proof. vm_compute. reflexivity. Qed.

Example tv3_sound_applies_req : forall F, (ds_need S0 ds3_req <= F)%nat ->
  sres_weq (gateway3 U0 S0 subs3 [] [] [] e_root F F true 8 ds3_req) (mono_client3 U0 S0 [] [] [] e_root F ds3_req).
Proof.
  intros F HF. apply (tv3_sound S0 subs3 [] [] 8 decls0 rdecls3 true 8 ds3_req ex_tv3_req_accepts U0 e_root ex_tv3_req_contract eq_refl F HF).
Qed.
