(* C01 / (6): a plan TREE with an entity fetch below an entity fetch, checked by the validator and run
   (non-vacuity of tv3_sound). *)
From Coq Require Import PeanoNat Lia.
From Gv Require Import lib.Bytes lib.Json lib.Gql lib.Exec
     C01.ProofsBase C01.ProofsJoin C01.ProofsTwoStep C01.ProofsPlanAlg C01.ProofsPlanGen C01.ProofsTvStatic C01.ProofsTvDefs
     C01.ProofsPlan2 C01.ProofsFuelSuff C01.ProofsNKeyDefs C01.ProofsPlan3 C01.ProofsPlan3Main C01.Examples C01.ExamplesWf C01.ExamplesAbstract.
Open Scope N_scope.

Definition bMaker : bytes := [77;97;107;101;114].
Definition bmaker : bytes := [109;97;107;101;114].
Definition btitle : bytes := [116;105;116;108;101].
Definition brating : bytes := [114;97;116;105;110;103].
Definition bm1 : bytes := [109;49].
Definition bAcme : bytes := [65;99;109;101].
Definition b5 : bytes := [53].

(* supergraph:  Query { product: Product }  Product { id name price maker: Maker }  Maker { id title rating } *)
Definition T0 : schema :=
  mk_schema [objt bQuery [fdef bproduct (TNamed bProduct)];
             objt bProduct [fdef bid (TNonNull (TNamed bID)); fdef bname (TNamed bString); fdef bprice (TNamed bInt);
                            fdef bmaker (TNamed bMaker)];
             objt bMaker [fdef bid (TNonNull (TNamed bID)); fdef btitle (TNamed bString); fdef brating (TNamed bInt)]].
(* subgraph 0: Query.product, Product {id name};  subgraph 1: Product {id price maker}, Maker {id title};  subgraph 2: Maker {id rating} *)
Definition TA : schema :=
  mk_schema [objt bQuery [fdef bproduct (TNamed bProduct)];
             objt bProduct [fdef bid (TNonNull (TNamed bID)); fdef bname (TNamed bString)]].
Definition TB : schema :=
  mk_schema [objt bQuery [];
             objt bProduct [fdef bid (TNonNull (TNamed bID)); fdef bprice (TNamed bInt); fdef bmaker (TNamed bMaker)];
             objt bMaker [fdef bid (TNonNull (TNamed bID)); fdef btitle (TNamed bString)]].
Definition TC : schema :=
  mk_schema [objt bQuery []; objt bMaker [fdef bid (TNonNull (TNamed bID)); fdef brating (TNamed bInt)]].
Definition tsubs : list schema := [TA; TB; TC].

Definition t_root : entity := {| en_type := bQuery; en_key := []; en_fields := [(bproduct, FRef bProduct bp1)] |}.
Definition t_p1 : entity :=
  {| en_type := bProduct; en_key := bp1;
     en_fields := [(bid, FSc (JStr bp1)); (bname, FSc (JStr bChair)); (bprice, FSc (JNum b10)); (bmaker, FRef bMaker bm1)] |}.
Definition t_m1 : entity :=
  {| en_type := bMaker; en_key := bm1; en_fields := [(bid, FSc (JStr bm1)); (btitle, FSc (JStr bAcme)); (brating, FSc (JNum b5))] |}.
Definition TU : universe := [t_root; t_p1; t_m1].
Definition tdecls : list (name * list name) := [(bProduct, [bid]); (bMaker, [bid])].

(* client:  { product { name price maker { title rating } } }
   real plan: root fetch on 0:            { product { name __typename id } }
              entity fetch at product on 1:        ... on Product { __typename price maker { title __typename id } }
              entity fetch at product.maker on 2:  ... on Maker { __typename rating }      (depends on the previous fetch) *)
Definition pt_maker : ptree := PT [(0%nat, PKeep (fld btitle [])); (1%nat, PKeep (fld brating []))] [([(0%nat, [(bid, [])])], 2%nat, [bid])].
Definition pt_product : ptree :=
  PT [(0%nat, PKeep (fld bname [])); (1%nat, PKeep (fld bprice []));
      (1%nat, PDown None bmaker [] (ShObj false) bMaker pt_maker)] [([(0%nat, [(bid, [])])], 1%nat, [bid])].
Definition ds3_0 : list rfield3 := [{| r3_root := 0%nat; r3_item := PDown None bproduct [] (ShObj false) bProduct pt_product |}].

Example ex_tv3_accepts : tv3_static_b T0 tsubs [] [] [] 8 tdecls [] 8 ds3_0 = true.
Proof. vm_compute. reflexivity. Qed.
Example ex_tv3_contract : univ3_contract_b T0 tsubs tdecls [] TU = true.
Proof. vm_compute. reflexivity. Qed.

Example ex_tv3_client_doc :
  client_doc3 [] [] ds3_0 =
  query_doc [] [fld bproduct [fld bname []; fld bprice []; fld bmaker [fld btitle []; fld brating []]]] [].
Proof. reflexivity. Qed.

Example ex_tv3_requests :
  model_requests3 [] [] true ds3_0 =
  [MRoot3 0 (query_doc [] [fld bproduct ([fld bname []] ++ key_sels [bid])] []);
   MEntity3 [bproduct] 1 (entities_doc [rep_vd] bProduct [tn_sel; fld bprice []; fld bmaker ([fld btitle []] ++ key_sels [bid])] []) [s_typename; bid];
   MEntity3 [bproduct; bmaker] 2 (entities_doc [rep_vd] bMaker [tn_sel; fld brating []] []) [s_typename; bid]].
Proof. vm_compute. reflexivity. Qed.

Example ex_tv3_run :
  gateway3 TU T0 tsubs [] [] [] t_root 200 200 true 8 ds3_0 =
  (Some [(bproduct, JObj [(bname, JStr bChair); (bprice, JNum b10);
                          (bmaker, JObj [(btitle, JStr bAcme); (brating, JNum b5)])])], []) /\
  mono_client3 TU T0 [] [] [] t_root 200 ds3_0 =
  (Some [(bproduct, JObj [(bname, JStr bChair); (bprice, JNum b10);
                          (bmaker, JObj [(btitle, JStr bAcme); (brating, JNum b5)])])], []).
Proof. split; vm_compute; reflexivity. Qed.

(* a tree whose nested fetch asks the wrong subgraph is rejected *)
Definition pt_maker_bad : ptree := PT [(0%nat, PKeep (fld btitle [])); (1%nat, PKeep (fld brating []))] [([(0%nat, [(bid, [])])], 1%nat, [bid])].
Definition ds3_bad : list rfield3 :=
  [{| r3_root := 0%nat;
      r3_item := PDown None bproduct [] (ShObj false) bProduct
                       (PT [(0%nat, PKeep (fld bname [])); (1%nat, PKeep (fld bprice []));
                            (1%nat, PDown None bmaker [] (ShObj false) bMaker pt_maker_bad)] [([(0%nat, [(bid, [])])], 1%nat, [bid])]) |}].
Example ex_tv3_rejects : tv3_static_b T0 tsubs [] [] [] 8 tdecls [] 8 ds3_bad = false.
Proof. vm_compute. reflexivity. Qed.

Example tv3_sound_applies : forall F, (ds_need T0 ds3_0 <= F)%nat ->
  sres_weq (gateway3 TU T0 tsubs [] [] [] t_root F F true 8 ds3_0) (mono_client3 TU T0 [] [] [] t_root F ds3_0).
Proof.
  intros F HF. apply (tv3_sound T0 tsubs [] [] 8 tdecls [] true 8 ds3_0 ex_tv3_accepts TU t_root ex_tv3_contract eq_refl F HF).
Qed.

(* ---- the root __typename (resolved by the gateway itself: root index = number of subgraphs, no request) and an entity
        fetch that reads its representation off TWO earlier sources (key from the root fetch, @requires input from another
        entity fetch), on the configuration of Examples.v split over three subgraphs ---- *)
Definition SA : schema := S1.
Definition SB : schema := mk_schema [objt bQuery []; objt bProduct [fdef bid (TNonNull (TNamed bID)); fdef bprice (TNamed bInt)]].
Definition SC : schema := mk_schema [objt bQuery []; objt bProduct [fdef bid (TNonNull (TNamed bID)); fdef bshipping (TNamed bString)]].
Definition subs3 : list schema := [SA; SB; SC].
Definition rdecls3 : list rdecl := [(bProduct, bshipping, [bprice])].

(* client:  { __typename product { name shipping } }
   real plan: root fetch on 0:  { product { name __typename id } }
              entity fetch on 1 (representation {__typename id} off the root fetch):    ... on Product { __typename price }
              entity fetch on 2 (representation {__typename price id}: price off the fetch on 1, id off the root fetch):
                                                                                       ... on Product { __typename shipping } *)
Definition pt_req : ptree :=
  PT [(0%nat, PKeep (fld bname [])); (2%nat, PKeep (fld bshipping []))]
     [([(0%nat, [(bid, [])])], 1%nat, [bid]); ([(1%nat, [(bprice, [])]); (0%nat, [(bid, [])])], 2%nat, [bprice; bid])].
Definition ds3_req : list rfield3 :=
  [{| r3_root := 3%nat; r3_item := PKeep (fld s_typename []) |};
   {| r3_root := 0%nat; r3_item := PDown None bproduct [] (ShObj false) bProduct pt_req |}].

Example ex_tv3_req_accepts : tv3_static_b S0 subs3 [] [] [] 8 decls0 rdecls3 8 ds3_req = true.
Proof. vm_compute. reflexivity. Qed.
Example ex_tv3_req_contract : univ3_contract_b S0 subs3 decls0 rdecls3 U0 = true.
Proof. vm_compute. reflexivity. Qed.
Example ex_tv3_req_requests :
  model_requests3s 3 [] [] true ds3_req =
  [MRoot3 0 (query_doc [] [fld bproduct ([fld bname []] ++ key_sels [bid; bid])] []);
   MEntity3 [bproduct] 1 (entities_doc [rep_vd] bProduct (key_sels [bprice]) []) [s_typename; bid];
   MEntity3 [bproduct] 2 (entities_doc [rep_vd] bProduct [tn_sel; fld bshipping []] []) [s_typename; bprice; bid]].
Proof. vm_compute. reflexivity. Qed.
Example ex_tv3_req_run :
  gateway3 U0 S0 subs3 [] [] [] e_root 200 200 true 8 ds3_req = mono_client3 U0 S0 [] [] [] e_root 200 ds3_req /\
  fst (mono_client3 U0 S0 [] [] [] e_root 200 ds3_req) <> None /\ snd (mono_client3 U0 S0 [] [] [] e_root 200 ds3_req) = [].
Proof. vm_compute. split; [reflexivity|]. split; [discriminate|reflexivity]. Qed.

(* the @requires input taken off a source that was not asked for it: rejected *)
Definition ds3_req_bad : list rfield3 :=
  [{| r3_root := 0%nat;
      r3_item := PDown None bproduct [] (ShObj false) bProduct
                       (PT [(0%nat, PKeep (fld bname [])); (2%nat, PKeep (fld bshipping []))]
                           [([(0%nat, [(bid, [])])], 1%nat, [bid]); ([(0%nat, [(bid, [])])], 2%nat, [bprice; bid])]) |}].
Example ex_tv3_req_rejects : tv3_static_b S0 subs3 [] [] [] 8 decls0 rdecls3 8 ds3_req_bad = false.
Proof. vm_compute. reflexivity. Qed.
(* a root field other than __typename "resolved by the gateway itself": rejected *)
Example ex_tv3_static_root_rejects :
  tv3_static_b S0 subs3 [] [] [] 8 decls0 rdecls3 8 [{| r3_root := 3%nat; r3_item := PKeep (fld bproduct [fld bname []]) |}] = false.
Proof. vm_compute. reflexivity. Qed.

Example tv3_sound_applies_req : forall F, (ds_need S0 ds3_req <= F)%nat ->
  sres_weq (gateway3 U0 S0 subs3 [] [] [] e_root F F true 8 ds3_req) (mono_client3 U0 S0 [] [] [] e_root F ds3_req).
Proof.
  intros F HF. apply (tv3_sound S0 subs3 [] [] 8 decls0 rdecls3 true 8 ds3_req ex_tv3_req_accepts U0 e_root ex_tv3_req_contract eq_refl F HF).
Qed.

(* ---- a position resolved per RUNTIME type ([PAbs]): the configuration of ExamplesAbstract.v
        (interface Node; A, B implement Node; subgraph 0 owns Query.node and A.a1, subgraph 1 owns A.a2 and B.b1) ---- *)
Definition subsA : list schema := [SA1; SA2].
Definition declsA : list (name * list name) := [(bA, [bid]); (bB, [bid])].
(* client:  { node { ... on A { a1 a2 } ... on B { b1 } } }
   real plan: root fetch on 0:  { node { __typename ... on A { a1 __typename id } ... on B { __typename id } } }
              entity fetch at node on 1, for A:  ... on A { __typename a2 }        for B:  ... on B { __typename b1 } *)
Definition cselN : list selection := [SInline (Some bA) [] [fld ba1 []; fld ba2 []]; SInline (Some bB) [] [fld bb1f []]].
Definition ptA : ptree := PT [(0%nat, PKeep (fld ba1 [])); (1%nat, PKeep (fld ba2 []))] [([(0%nat, [(bid, [])])], 1%nat, [bid])].
Definition ptB : ptree := PT [(1%nat, PKeep (fld bb1f []))] [([(0%nat, [(bid, [])])], 1%nat, [bid])].
Definition rselN : list selection := [SInline (Some bA) [] (pt_proj ptA); SInline (Some bB) [] (pt_proj ptB)].
Definition ds4_0 : list rfield3 :=
  [{| r3_root := 0%nat; r3_item := PAbs None bnode [] (ShObj false) bNode cselN rselN [(bA, false, ptA); (bB, false, ptB)] |}].

Example ex_tv4_accepts : tv4_static_b SA0 subsA [] [] [] 8 declsA [] 8 ds4_0 = true.
Proof. vm_compute. reflexivity. Qed.
Example ex_tv4_contract_A : univ4_contract_b SA0 subsA declsA [] (UA bA bka) = true.
Proof. vm_compute. reflexivity. Qed.
Example ex_tv4_contract_B : univ4_contract_b SA0 subsA declsA [] (UA bB bkb) = true.
Proof. vm_compute. reflexivity. Qed.
Example ex_tv4_client_doc : client_doc3 [] [] ds4_0 = query_doc [] [fld bnode cselN] [].
Proof. reflexivity. Qed.
Example ex_tv4_requests :
  model_requests3s 2 [] [] true ds4_0 =
  [MRoot3 0 (query_doc [] [fld bnode [SInline (Some bA) [] ([fld ba1 []] ++ key_sels [bid]); SInline (Some bB) [] (key_sels [bid])]] []);
   MEntity3 [bnode] 1 (entities_doc [rep_vd] bA [tn_sel; fld ba2 []] []) [s_typename; bid];
   MEntity3 [bnode] 1 (entities_doc [rep_vd] bB [tn_sel; fld bb1f []] []) [s_typename; bid]].
Proof. vm_compute. reflexivity. Qed.
Example ex_tv4_run_A :
  gateway3 (UA bA bka) SA0 subsA [] [] [] (rootN bA bka) 200 200 true 8 ds4_0 =
  (Some [(bnode, JObj [(ba1, JStr bx); (ba2, JStr by_)])], []) /\
  mono_client3 (UA bA bka) SA0 [] [] [] (rootN bA bka) 200 ds4_0 = (Some [(bnode, JObj [(ba1, JStr bx); (ba2, JStr by_)])], []).
Proof. split; vm_compute; reflexivity. Qed.
Example ex_tv4_run_B :
  gateway3 (UA bB bkb) SA0 subsA [] [] [] (rootN bB bkb) 200 200 true 8 ds4_0 =
  (Some [(bnode, JObj [(bb1f, JStr by_)])], []) /\
  mono_client3 (UA bB bkb) SA0 [] [] [] (rootN bB bkb) 200 ds4_0 = (Some [(bnode, JObj [(bb1f, JStr by_)])], []).
Proof. split; vm_compute; reflexivity. Qed.

(* the planner's own __typename (flag true): B's alternative has neither a key nor a client __typename;
   client:  { node { ... on A { a1 a2 } ... on B { id } } } *)
Definition cselH : list selection := [SInline (Some bA) [] [fld ba1 []; fld ba2 []]; SInline (Some bB) [] [fld bid []]].
Definition ptBh : ptree := PT [(0%nat, PKeep (fld bid []))] [].
Definition rselH : list selection := [SInline (Some bA) [] (pt_proj ptA); SInline (Some bB) [] (tn_sel :: pt_proj ptBh)].
Definition ds4_h : list rfield3 :=
  [{| r3_root := 0%nat; r3_item := PAbs None bnode [] (ShObj false) bNode cselH rselH [(bA, false, ptA); (bB, true, ptBh)] |}].
Example ex_tv4_hidden_accepts : tv4_static_b SA0 subsA [] [] [] 8 declsA [] 8 ds4_h = true.
Proof. vm_compute. reflexivity. Qed.
Example ex_tv4_hidden_run_B :
  gateway3 (UA bB bkb) SA0 subsA [] [] [] (rootN bB bkb) 200 200 true 8 ds4_h = (Some [(bnode, JObj [(bid, JStr bkb)])], []) /\
  mono_client3 (UA bB bkb) SA0 [] [] [] (rootN bB bkb) 200 ds4_h = (Some [(bnode, JObj [(bid, JStr bkb)])], []).
Proof. split; vm_compute; reflexivity. Qed.

(* rejected: an alternative missing (no plan tree for B), the wrong tree under a type, and a tree with such a position
   given to the validator of trees WITHOUT them *)
Example ex_tv4_rejects_missing :
  tv4_static_b SA0 subsA [] [] [] 8 declsA [] 8
    [{| r3_root := 0%nat; r3_item := PAbs None bnode [] (ShObj false) bNode cselN rselN [(bA, false, ptA)] |}] = false.
Proof. vm_compute. reflexivity. Qed.
Example ex_tv4_rejects_swapped :
  tv4_static_b SA0 subsA [] [] [] 8 declsA [] 8
    [{| r3_root := 0%nat; r3_item := PAbs None bnode [] (ShObj false) bNode cselN rselN [(bA, false, ptB); (bB, false, ptA)] |}] = false.
Proof. vm_compute. reflexivity. Qed.
Example ex_tv3_rejects_abs : tv3_static_b SA0 subsA [] [] [] 8 declsA [] 8 ds4_0 = false.
Proof. vm_compute. reflexivity. Qed.

Example tv4_sound_applies : forall F, (ds_need SA0 ds4_0 <= F)%nat ->
  sres_weq (gateway3 (UA bA bka) SA0 subsA [] [] [] (rootN bA bka) F F true 8 ds4_0) (mono_client3 (UA bA bka) SA0 [] [] [] (rootN bA bka) F ds4_0).
Proof.
  intros F HF. apply (tv4_sound SA0 subsA [] [] 8 declsA [] true 8 ds4_0 ex_tv4_accepts (UA bA bka) (rootN bA bka) ex_tv4_contract_A eq_refl F HF).
Qed.

(* ---- a key with one level of nesting:  Product @key(fields: "id nk { code }")  ---- *)
Definition bnk : bytes := [110;107].
Definition bcode : bytes := [99;111;100;101].
Definition bc1 : bytes := [99;49].
(* supergraph:  Query { product: Product }  Product { id: ID! nk: Maker! name price }  Maker { code: ID! } *)
Definition N0 : schema :=
  mk_schema [objt bQuery [fdef bproduct (TNamed bProduct)];
             objt bProduct [fdef bid (TNonNull (TNamed bID)); fdef bnk (TNonNull (TNamed bMaker)); fdef bname (TNamed bString); fdef bprice (TNamed bInt)];
             objt bMaker [fdef bcode (TNonNull (TNamed bID))]].
Definition NA : schema :=
  mk_schema [objt bQuery [fdef bproduct (TNamed bProduct)];
             objt bProduct [fdef bid (TNonNull (TNamed bID)); fdef bnk (TNonNull (TNamed bMaker)); fdef bname (TNamed bString)];
             objt bMaker [fdef bcode (TNonNull (TNamed bID))]].
Definition NB : schema :=
  mk_schema [objt bQuery [];
             objt bProduct [fdef bid (TNonNull (TNamed bID)); fdef bnk (TNonNull (TNamed bMaker)); fdef bprice (TNamed bInt)];
             objt bMaker [fdef bcode (TNonNull (TNamed bID))]].
Definition nsubs : list schema := [NA; NB].
Definition n_root : entity := {| en_type := bQuery; en_key := []; en_fields := [(bproduct, FRef bProduct bp1)] |}.
Definition n_p1 : entity :=
  {| en_type := bProduct; en_key := bp1;
     en_fields := [(bid, FSc (JStr bp1)); (bnk, FRef bMaker bm1); (bname, FSc (JStr bChair)); (bprice, FSc (JNum b10))] |}.
Definition n_p2 : entity :=   (* the same id, another maker: only the nested key tells them apart *)
  {| en_type := bProduct; en_key := bp2;
     en_fields := [(bid, FSc (JStr bp1)); (bnk, FRef bMaker bc1); (bname, FSc (JStr bTable)); (bprice, FSc (JNum b20))] |}.
Definition n_m1 : entity := {| en_type := bMaker; en_key := bm1; en_fields := [(bcode, FSc (JStr bm1))] |}.
Definition n_m2 : entity := {| en_type := bMaker; en_key := bc1; en_fields := [(bcode, FSc (JStr bc1))] |}.
Definition NU : universe := [n_root; n_p2; n_p1; n_m1; n_m2].
Definition ndecls5 : list (name * (list name * nkspec)) := [(bProduct, ([bid], [(bnk, [bcode])]))].

(* client:  { product { name price } }
   real plan: root fetch on 0:  { product { name __typename id nk { code } } }
              entity fetch on 1 with the representation {__typename, id, nk: {code}}:  ... on Product { __typename price } *)
Definition pt_nk : ptree :=
  PT [(0%nat, PKeep (fld bname [])); (1%nat, PKeep (fld bprice []))] [([(0%nat, [(bid, []); (bnk, [bcode])])], 1%nat, [bid; bnk])].
Definition ds5_0 : list rfield3 := [{| r3_root := 0%nat; r3_item := PDown None bproduct [] (ShObj false) bProduct pt_nk |}].

Example ex_tv5_accepts : tv5_static_b N0 nsubs [] [] [] 8 [] [] ndecls5 8 ds5_0 = true.
Proof. vm_compute. reflexivity. Qed.
Example ex_tv5_contract : univ5_contract_b N0 nsubs [] [] ndecls5 NU = true.
Proof. vm_compute. reflexivity. Qed.
Example ex_tv5_requests :
  model_requests3s 2 [] [] true ds5_0 =
  [MRoot3 0 (query_doc [] [fld bproduct ([fld bname []] ++ key_sels [bid] ++ [fld bnk [fld bcode []]])] []);
   MEntity3 [bproduct] 1 (entities_doc [rep_vd] bProduct [tn_sel; fld bprice []] []) [s_typename; bid; bnk]].
Proof. vm_compute. reflexivity. Qed.
Example ex_tv5_run :
  gateway3 NU N0 nsubs [] [] [] n_root 200 200 true 8 ds5_0 =
  (Some [(bproduct, JObj [(bname, JStr bChair); (bprice, JNum b10)])], []) /\
  mono_client3 NU N0 [] [] [] n_root 200 ds5_0 = (Some [(bproduct, JObj [(bname, JStr bChair); (bprice, JNum b10)])], []).
Proof. split; vm_compute; reflexivity. Qed.
(* the leaf part alone does not identify the product in this universe: a flat key [id] is not consistent *)
Example ex_tv5_flat_key_inconsistent : key_consistent [(bProduct, [bid])] NU = false.
Proof. vm_compute. reflexivity. Qed.
(* the nested field missing from the representation: rejected *)
Example ex_tv5_rejects :
  tv5_static_b N0 nsubs [] [] [] 8 [] [] ndecls5 8
    [{| r3_root := 0%nat; r3_item := PDown None bproduct [] (ShObj false) bProduct
          (PT [(0%nat, PKeep (fld bname [])); (1%nat, PKeep (fld bprice []))] [([(0%nat, [(bid, [])])], 1%nat, [bid])]) |}] = false.
Proof. vm_compute. reflexivity. Qed.
Example tv5_sound_applies : forall F, (ds_need N0 ds5_0 <= F)%nat ->
  sres_weq (gateway3 NU N0 nsubs [] [] [] n_root F F true 8 ds5_0) (mono_client3 NU N0 [] [] [] n_root F ds5_0).
Proof.
  intros F HF. apply (tv5_sound N0 nsubs [] [] 8 [] [] true ndecls5 8 ds5_0 ex_tv5_accepts NU n_root ex_tv5_contract eq_refl F HF).
Qed.
