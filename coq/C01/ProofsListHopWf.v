(* C01: the list hop with the schema-agreement hypotheses replaced by the booleans of ProofsCtx. *)
From Coq Require Import PeanoNat Lia.
From Gv Require Import lib.Bytes lib.Json lib.Gql lib.Exec
     C01.ProofsBase C01.ProofsFuel C01.ProofsSplit C01.ProofsSim C01.ProofsJoin C01.ProofsOverlap
     C01.ProofsTwoStep C01.ProofsDedup C01.ProofsViol C01.ProofsCtxBase C01.ProofsCtx C01.ProofsTwoStepWf
     C01.ProofsListHop.
Open Scope N_scope.

Lemma vars2l_of_client vdsM supM T selB rs selsM :
  forallb (fun vd => not_repr (vd_name vd)) vdsM = true ->
  vars2l_of vdsM supM T selB rs = (s_representations, JArr rs) :: effective_vars (query_op vdsM selsM) supM.
Proof.
  intros Hn. unfold vars2l_of, effective_vars. cbn [op_vars entities_op query_op flat_map vd_name rep_vd assoc].
  rewrite bytes_eqb_refl. cbn [app]. f_equal.
  induction vdsM as [|vd l IH]; [reflexivity|]. cbn [forallb] in Hn. apply andb_true_iff in Hn. destruct Hn as [H1 H2].
  cbn [flat_map]. rewrite (IH H2). f_equal. cbn [assoc]. unfold not_repr in H1. apply negb_true_iff in H1. rewrite H1. reflexivity.
Qed.
Lemma vars2l_agree_client vdsM supM T selB selsM :
  forallb (fun vd => not_repr (vd_name vd)) vdsM = true ->
  forall rs m, not_repr m = true ->
               assoc m (vars2l_of vdsM supM T selB rs) = assoc m (effective_vars (query_op vdsM selsM) supM).
Proof.
  intros Hn rs m Hm. rewrite (vars2l_of_client vdsM supM T selB rs selsM Hn). cbn [assoc].
  unfold not_repr in Hm. apply negb_true_iff in Hm. rewrite Hm. reflexivity.
Qed.

Section ListHopWf.
  Variable U : universe.
  Variables (sc : schema) (frags : list fragment) (vars : list (bytes * json)).
  Variables (sc1 sc2 : schema) (vds2 : list vardef) (sup2 : list (bytes * json)).
  Variable root2 : entity.
  Variables (P : name) (eP : entity) (af : option name) (f : name) (args : list argument) (dirs : list directive).
  Variable path : list pel.
  Variables (nnl nni : bool) (n : name) (td : type_def) (fd : field_def).
  Variable items : list fval.
  Variables (T : name) (ks : list name) (selA selB : list selection) (flA flB : list selection).
  Variables (g0 k1 k2 : nat).

  Notation ovP := {| ov_ent := eP; ov_repr := None |}.
  Notation fld X := (SField af f args dirs X).

  Hypothesis Hname : bytes_eqb f s_typename = false.
  Hypothesis Htd : find_type P (s_types sc) = Some td.
  Hypothesis Hfd : find_field f (td_fields td) = Some fd.
  Hypothesis Hty : fd_type fd = list_ty nnl nni n.
  Hypothesis Hcomp : is_leaf_kind sc n = Some false.
  Hypothesis Hfv : hop_fv ovP f = FLst items.
  Hypothesis Hfr : frags_noent frags = true.
  Hypothesis Hs1 : sels_noent [fld (selA ++ key_sels ks)] = true.
  Hypothesis HsB : sels_noent selB = true.
  Hypothesis Hwf1 : config_wf_b sc sc1 = true.
  Hypothesis Hu1 : univ_ok_b sc1 U = true.
  Hypothesis Hreq1 : req_ok_b sc1 frags vars (fun _ => true) k1 P [fld (selA ++ key_sels ks)] = true.
  Hypothesis HeP : In eP U.
  Hypothesis HeT : en_type eP = P.
  Hypothesis Hwf2 : config_wf_b sc sc2 = true.
  Hypothesis Hu2 : univ_ok_b sc2 U = true.
  Hypothesis Hreq2 : req_ok_b sc2 frags vars not_repr k2 T selB = true.
  Hypothesis Hv2 : forall rs m, not_repr m = true -> assoc m (vars2l_of vds2 sup2 T selB rs) = assoc m vars.
  Hypothesis Hroot2 : find_entity U (s_query sc2) [] = Some root2.
  Hypothesis HflA : flatten sc frags vars g0 T selA = FlatOk flA.
  Hypothesis HflB : flatten sc frags vars g0 T selB = FlatOk flB.
  Hypothesis Hdisj : keys_disjoint flA flB = true.
  Hypothesis Hunal : keys_unaliased ks flA = true.
  Hypothesis Hent : forall it e,
      In it items -> obj_target U (hop_cargs sc vars args fd) it = Some (Some e) -> obj_type_ok sc n e = true ->
      en_type e = T /\ find_by_repr U (repr_of e ks) = Some e /\
      forallb (key_field_ok sc e) ks = true /\ reqs_covered e flB ks = true.

  Theorem federated_two_step_list_wf_main fM f1 f2 :
    no_oof (snd (mono_hop U sc frags vars P eP af f args dirs path selA selB fM)) = true ->
    (list_hop_fuel_bound ks g0 fM <= f1)%nat -> (list_hop_fuel_bound ks g0 fM + g0 <= f2)%nat ->
    fst (two_step_list U sc1 frags vars sc2 frags vds2 sup2 P eP af f args dirs path nnl nni T ks selA selB flA f1 f2) =
    fst (mono_hop U sc frags vars P eP af f args dirs path selA selB fM) /\
    (snd (two_step_list U sc1 frags vars sc2 frags vds2 sup2 P eP af f args dirs path nnl nni T ks selA selB flA f1 f2) = [] <->
     snd (mono_hop U sc frags vars P eP af f args dirs path selA selB fM) = []).
  Proof.
    pose proof Hreq2 as Hr2. unfold req_ok_b in Hr2.
    apply andb_true_iff in Hr2. destruct Hr2 as [Hr2 _]. apply andb_true_iff in Hr2. destruct Hr2 as [Hr2 HdT].
    apply andb_true_iff in Hr2. destruct Hr2 as [Hfs2 HsynB].
    apply (federated_two_step_list_main U sc frags vars sc1 frags vars sc2 frags vds2 sup2 root2 P eP af f args dirs path
             nnl nni n td fd items T ks selA selB flA flB flB g0 g0); try assumption.
    - intros fuel. apply (req_ok_sound_same_vars sc sc1 U frags vars k1 P eP None _ path Hwf1 Hu1 Hreq1 HeP HeT).
    - unfold declared_obj in HdT. unfold kind_of. destruct (builtin_scalar T); [discriminate|].
      destruct (find_type T (s_types sc2)); discriminate.
    - intros rs.
      rewrite (flatten_agree sc sc2 frags vars (vars2l_of vds2 sup2 T selB rs) not_repr
                             (wf_kind_of_decl sc sc2 Hwf2) (wf_type_applies sc sc2 Hwf2) (Hv2 rs) Hfs2 g0 T selB HdT HsynB).
      exact HflB.
    - intros it e Hin He Hok. destruct (Hent it e Hin He Hok) as (HT & Hfind & Hkeys & Hreq).
      split; [exact HT|]. split; [exact Hfind|]. split; [exact Hkeys|]. split; [exact Hreq|].
      intros rs fuel.
      apply (req_ok_sound sc sc2 U frags vars (vars2l_of vds2 sup2 T selB rs) not_repr k2 T e None selB [] Hwf2 Hu2 (Hv2 rs) Hreq2);
        [apply (obj_target_In _ _ _ _ He)|exact HT].
  Qed.
End ListHopWf.
