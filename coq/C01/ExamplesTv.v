(* C01 / (5): a real-plan-shaped translation checked by the validator and run (non-vacuity of tv2_sound). *)
From Coq Require Import PeanoNat Lia Permutation.
From Gv Require Import lib.Bytes lib.Json lib.Gql lib.Exec
     C01.ProofsBase C01.ProofsFuel C01.ProofsSplit C01.ProofsSim C01.ProofsJoin C01.ProofsOverlap
     C01.ProofsTwoStep C01.ProofsCtxBase C01.ProofsCtx C01.ProofsTwoStepWf C01.ProofsPlanAlg C01.ProofsPlan C01.ProofsPlanOk
     C01.ProofsTvStatic C01.ProofsTvDefs C01.ProofsTvHidden C01.ProofsPlanGen C01.ProofsPlan2 C01.ProofsPlan2Link
     C01.ProofsPlan2Root C01.ProofsTvOrder C01.ProofsTvMain C01.Examples.
Open Scope N_scope.

Definition bother2 : bytes := [111;116;104;101;114].
(* client (as the planner sees it):  { product { price name }  other: product { id name } }
   real plan: root fetch on subgraph 0:   { product { name __typename id }  other: product { id name } }
              entity fetch at [product] on subgraph 1, representation {__typename id}:
                query($representations: [_Any!]!){_entities(representations: $representations){... on Product {__typename price}}} *)
Definition d2_prod : dfield2 :=
  {| d2_alias := None; d2_name := bproduct; d2_args := []; d2_shape := ShObj false; d2_root := 0%nat;
     d2_sel := [(true, fld bprice []); (false, fld bname [])];
     d2_fetch := Some (1%nat, bProduct, [bid]) |}.
Definition d2_other : dfield2 :=
  {| d2_alias := Some bother2; d2_name := bproduct; d2_args := []; d2_shape := ShObj false; d2_root := 0%nat;
     d2_sel := [(false, fld bid []); (false, fld bname [])]; d2_fetch := None |}.
Definition ds2_0 : list dfield2 := [d2_prod; d2_other].
Definition subs0 : list schema := [S1; S2].
Definition rdecls0 : list rdecl := [(bProduct, bshipping, [bprice])].

Example ex_tv2_accepts : tv2_static_b S0 subs0 [] [] [] 5 6 decls0 rdecls0 true ds2_0 = true.
Proof. vm_compute. reflexivity. Qed.

Example ex_tv2_contract : univ2_contract_b S0 subs0 decls0 rdecls0 U0 = true.
Proof. vm_compute. reflexivity. Qed.

(* the client's document, verbatim *)
Example ex_tv2_client_doc :
  client_doc2 [] [] ds2_0 =
  query_doc [] [SField None bproduct [] [] [fld bprice []; fld bname []];
                SField (Some bother2) bproduct [] [] [fld bid []; fld bname []]] [].
Proof. reflexivity. Qed.

(* the requests of the model: one root request, one entity request starting with __typename *)
Example ex_tv2_requests :
  model_requests2 [] [] true ds2_0 =
  [MRoot 0 (query_doc [] [SField None bproduct [] [] ([fld bname []] ++ key_sels [bid]);
                          SField (Some bother2) bproduct [] [] ([fld bid []; fld bname []] ++ [])] []);
   MEntity bproduct 1 (entities_doc [rep_vd] bProduct [tn_sel; fld bprice []] []) [s_typename; bid] false].
Proof. vm_compute. reflexivity. Qed.

Example ex_tv2_run :
  gateway2 U0 S0 subs0 [] [] [] e_root 5 60 70 true ds2_0 =
  (Some [(bproduct, JObj [(bname, JStr bChair); (bprice, JNum b10)]);
         (bother2, JObj [(bid, JStr bp1); (bname, JStr bChair)])], []) /\
  mono_client2 U0 S0 [] [] [] e_root 20 ds2_0 =
  (Some [(bproduct, JObj [(bprice, JNum b10); (bname, JStr bChair)]);
         (bother2, JObj [(bid, JStr bp1); (bname, JStr bChair)])], []).
Proof. split; vm_compute; reflexivity. Qed.

(* a plan whose entity fetch asks the wrong subgraph is rejected *)
Definition d2_bad : dfield2 :=
  {| d2_alias := None; d2_name := bproduct; d2_args := []; d2_shape := ShObj false; d2_root := 0%nat;
     d2_sel := [(true, fld bprice []); (false, fld bname [])];
     d2_fetch := Some (0%nat, bProduct, [bid]) |}.
Example ex_tv2_rejects : tv2_static_b S0 subs0 [] [] [] 5 6 decls0 rdecls0 true [d2_bad] = false.
Proof. vm_compute. reflexivity. Qed.

Example tv2_sound_applies : forall f1 f2, (70 <= f1)%nat -> (80 <= f2)%nat ->
  sres_peq (mono_client2 U0 S0 [] [] [] e_root 20 ds2_0) (gateway2 U0 S0 subs0 [] [] [] e_root 5 f1 f2 true ds2_0).
Proof.
  intros f1 f2 Hf1 Hf2.
  apply (tv2_sound S0 subs0 [] [] [] 5 6 decls0 rdecls0 true ds2_0 ex_tv2_accepts U0 e_root ex_tv2_contract eq_refl 20 20 f1 f2).
  - vm_compute. reflexivity.
  - vm_compute. reflexivity.
  - vm_compute. lia.
  - vm_compute. lia.
  - vm_compute. lia.
Qed.
