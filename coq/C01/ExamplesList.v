(* C01 / (2): list hop and de-duplication, evaluated and instantiated. *)
From Coq Require Import PeanoNat Lia.
From Gv Require Import lib.Bytes lib.Json lib.Gql lib.Exec
     C01.ProofsBase C01.ProofsFuel C01.ProofsSplit C01.ProofsSim C01.ProofsJoin C01.ProofsOverlap
     C01.ProofsTwoStep C01.ProofsDedup C01.ProofsViol C01.ProofsCtxBase C01.ProofsCtx C01.ProofsTwoStepWf
     C01.ProofsListHop C01.ProofsListHopWf C01.Examples.
Open Scope N_scope.

Definition bproducts : bytes := [112;114;111;100;117;99;116;115].
(* supergraph: Query { products: [Product] } ; subgraph 1 owns products, id, name ; subgraph 2 = S2 *)
Definition SL0 : schema :=
  mk_schema [objt bQuery [fdef bproducts (TList (TNamed bProduct))];
             objt bProduct [fdef bid (TNonNull (TNamed bID)); fdef bname (TNamed bString);
                            fdef bprice (TNamed bInt); fdef bshipping (TNamed bString)]].
Definition SL1 : schema :=
  mk_schema [objt bQuery [fdef bproducts (TList (TNamed bProduct))];
             objt bProduct [fdef bid (TNonNull (TNamed bID)); fdef bname (TNamed bString)]].
(* the list contains p1 twice and a null *)
Definition items0 : list fval := [FRef bProduct bp1; FRef bProduct bp2; FRef bProduct bp1; FNullRef].
Definition e_rootL : entity := {| en_type := bQuery; en_key := []; en_fields := [(bproducts, FLst items0)] |}.
Definition UL : universe := [e_rootL; e_p1; e_p2].

Example ex_list_mono :
  execute 30 SL0 UL Mono (query [fld bproducts [fld bname []; fld bprice []]]) None (JObj []) =
  {| rs_data := JObj [(bproducts, JArr [JObj [(bname, JStr bChair); (bprice, JNum b10)];
                                         JObj [(bname, JStr bTable); (bprice, JNum b20)];
                                         JObj [(bname, JStr bChair); (bprice, JNum b10)]; JNull])];
     rs_errs := [] |}.
Proof. vm_compute. reflexivity. Qed.

(* step 1 returns four items, three objects; only two distinct representations are sent *)
Example ex_list_dedup :
  dedup (collect_reprs [bid]
           [JObj [(bname, JStr bChair); (s_typename, JStr bProduct); (bid, JStr bp1)];
            JObj [(bname, JStr bTable); (s_typename, JStr bProduct); (bid, JStr bp2)];
            JObj [(bname, JStr bChair); (s_typename, JStr bProduct); (bid, JStr bp1)]; JNull]) =
  [repr_of e_p1 [bid]; repr_of e_p2 [bid]].
Proof. vm_compute. reflexivity. Qed.

Example ex_list_two_step_eval :
  two_step_list UL SL1 [] [] S2 [] [] [] bQuery e_rootL None bproducts [] [] [] false false bProduct [bid]
                [fld bname []] [fld bprice []] [fld bname []] 30 30 =
  mono_hop UL SL0 [] [] bQuery e_rootL None bproducts [] [] [] [fld bname []] [fld bprice []] 30.
Proof. vm_compute. reflexivity. Qed.

(* (2a) applies: the duplicated and the de-duplicated [_entities] calls *)
Example ex_dedup_field :
  let args := [(s_representations, VList [VVar bid; VVar bname; VVar bid])] in
  let args' := [(s_representations, VList [VVar bid; VVar bname])] in
  let vars := [(bid, repr_of e_p1 [bid]); (bname, repr_of e_p2 [bid])] in
  let q a := exec_field S2 UL [] vars Sub 12 bQuery {| ov_ent := e_rootL; ov_repr := None |} s_entities
                        (SField None s_entities a [] []) [SInline (Some bProduct) [] [fld bprice []]] [] in
  c_json (q args) = JArr (undedup [repr_of e_p1 [bid]; repr_of e_p2 [bid]; repr_of e_p1 [bid]]
                                  [JObj [(bprice, JNum b10)]; JObj [(bprice, JNum b20)]]) /\
  c_json (q args') = JArr [JObj [(bprice, JNum b10)]; JObj [(bprice, JNum b20)]].
Proof. split; vm_compute; reflexivity. Qed.

Example ex_list_wf_bools :
  config_wf_b SL0 SL1 = true /\ config_wf_b SL0 S2 = true /\ univ_ok_b SL1 UL = true /\ univ_ok_b S2 UL = true /\
  req_ok_b SL1 [] [] (fun _ => true) 6 bQuery [SField None bproducts [] [] ([fld bname []] ++ key_sels [bid])] = true /\
  req_ok_b S2 [] [] not_repr 6 bProduct [fld bprice []] = true.
Proof. repeat split; vm_compute; reflexivity. Qed.

Example federated_two_step_list_applies : forall f1 f2, (50 <= f1)%nat -> (60 <= f2)%nat ->
  fst (two_step_list UL SL1 [] [] S2 [] [] [] bQuery e_rootL None bproducts [] [] [] false false bProduct [bid]
                     [fld bname []] [fld bprice []] [fld bname []] f1 f2) =
  Some [(bproducts, JArr [JObj [(bname, JStr bChair); (bprice, JNum b10)];
                          JObj [(bname, JStr bTable); (bprice, JNum b20)];
                          JObj [(bname, JStr bChair); (bprice, JNum b10)]; JNull])].
Proof.
  intros f1 f2 Hf1 Hf2.
  destruct ex_list_wf_bools as (B1 & B2 & B3 & B4 & B5 & B6).
  assert (H : fst (two_step_list UL SL1 [] [] S2 [] [] [] bQuery e_rootL None bproducts [] [] [] false false bProduct [bid]
                                 [fld bname []] [fld bprice []] [fld bname []] f1 f2) =
              fst (mono_hop UL SL0 [] [] bQuery e_rootL None bproducts [] [] [] [fld bname []] [fld bprice []] 16) /\
              (snd (two_step_list UL SL1 [] [] S2 [] [] [] bQuery e_rootL None bproducts [] [] [] false false bProduct [bid]
                                  [fld bname []] [fld bprice []] [fld bname []] f1 f2) = [] <->
               snd (mono_hop UL SL0 [] [] bQuery e_rootL None bproducts [] [] [] [fld bname []] [fld bprice []] 16) = [])).
  { apply (federated_two_step_list_wf_main UL SL0 [] [] SL1 S2 [] [] e_rootL bQuery e_rootL None bproducts [] [] []
              false false bProduct
              (objt bQuery [fdef bproducts (TList (TNamed bProduct))]) (fdef bproducts (TList (TNamed bProduct)))
              items0 bProduct [bid] [fld bname []] [fld bprice []] [fld bname []] [fld bprice []] 5 6 6);
      try assumption;
      match goal with
      | |- forall _, _ => idtac
      | |- (_ <= _)%nat => vm_compute; lia
      | |- In _ _ => left; reflexivity
      | _ => vm_compute; reflexivity
      end.
    - intros rs m Hm. unfold vars2l_of, effective_vars. cbn. unfold not_repr in Hm. apply negb_true_iff in Hm. rewrite Hm. reflexivity.
    - intros it e Hin He _. cbn in Hin.
      destruct Hin as [<-|[<-|[<-|[<-|[]]]]]; vm_compute in He; try discriminate; injection He as <-; repeat split; vm_compute; reflexivity. }
  destruct H as [Hd _]. rewrite Hd. vm_compute. reflexivity.
Qed.
