(* C01 / (5) translation validation, part 2: small shared definitions.

   The client's sub-selection under an entity-typed field is kept in the CLIENT's order, each
   top-level selection tagged with who resolves it (false: the root fetch, true: the entity fetch).
   [sel_untagged] / [sel_tagged] are the two parts; the real planner starts every entity selection
   with a planner-added [__typename] ([tn_sel]). *)
From Coq Require Import PeanoNat Lia.
From Gv Require Import lib.Bytes lib.Json lib.Gql lib.Exec
     C01.ProofsBase C01.ProofsTwoStep.
Open Scope N_scope.

Definition sel_untagged (ts : list (bool * selection)) : list selection :=
  map snd (filter (fun x => negb (fst x)) ts).
Definition sel_tagged (ts : list (bool * selection)) : list selection :=
  map snd (filter (fun x => fst x) ts).

Definition tn_sel : selection := key_sel s_typename.
Definition ent_sel (tn : bool) (selB : list selection) : list selection := if tn then tn_sel :: selB else selB.
