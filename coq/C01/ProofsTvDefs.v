(* C01 / (5) translation validation, part 2: the form a REAL plan is translated to.

   A [dfield2] is one root field of the (normalised) client operation together with what the real
   plan does for it: the client's sub-selection in the CLIENT's order, each top-level selection
   tagged with who resolves it (false: the root fetch, true: the entity fetch at this field), and
   the entity fetch (subgraph schema, entity type, representation fields).

   [to_dfield] forgets the order (root part first, fetched part second): that is the [dfield] of
   the plan theorem.  [client_sel2] is the client's field verbatim, so
   [query_doc vdsM (map client_sel2 ds2) frags] is the operation the planner was given.
   [model_requests] are the subgraph requests the model sends for the plan: the translation is
   CHECKED by comparing them with the requests of the real plan and of real end-to-end runs. *)
From Coq Require Import PeanoNat Lia.
From Gv Require Import lib.Bytes lib.Json lib.Gql lib.Exec
     C01.ProofsBase C01.ProofsFuel C01.ProofsSplit C01.ProofsSim C01.ProofsJoin C01.ProofsOverlap
     C01.ProofsTwoStep C01.ProofsViol C01.ProofsCtxBase C01.ProofsCtx C01.ProofsTwoStepWf C01.ProofsPlanAlg
     C01.ProofsPlan C01.ProofsPlanOk C01.ProofsTvStatic.
Open Scope N_scope.

Record dfield2 := {
  d2_alias : option name; d2_name : name; d2_args : list argument; d2_nn : bool;
  d2_sel : list (bool * selection);
  d2_fetch : option (schema * name * list name) }.

Definition sel_untagged (ts : list (bool * selection)) : list selection :=
  map snd (filter (fun x => negb (fst x)) ts).
Definition sel_tagged (ts : list (bool * selection)) : list selection :=
  map snd (filter (fun x => fst x) ts).

Definition to_dfield (d : dfield2) : dfield :=
  {| df_alias := d2_alias d; df_name := d2_name d; df_args := d2_args d; df_nn := d2_nn d;
     df_selA := sel_untagged (d2_sel d);
     df_fetch := match d2_fetch d with
                 | Some (sub, T, ks) => Some {| ef_sub := sub; ef_T := T; ef_ks := ks; ef_sel := sel_tagged (d2_sel d) |}
                 | None => None
                 end |}.

Definition client_sel2 (d : dfield2) : selection :=
  SField (d2_alias d) (d2_name d) (d2_args d) [] (map snd (d2_sel d)).

(* the client operation the translation stands for *)
Definition client_doc (vdsM : list vardef) (frags : list fragment) (ds2 : list dfield2) : document :=
  query_doc vdsM (map client_sel2 ds2) frags.

(* ---- the subgraph requests of the model ---- *)
Definition tn_sel : selection := key_sel s_typename.
(* the real planner starts every entity selection with __typename *)
Definition ent_sel (tn : bool) (selB : list selection) : list selection := if tn then tn_sel :: selB else selB.

Inductive mreq :=
| MRoot (sub : schema) (doc : document)
| MEntity (key : name) (sub : schema) (doc : document) (repr_fields : list name).

Definition model_requests (vdsM : list vardef) (frags : list fragment) (sc0 : schema) (tn : bool) (ds : list dfield) : list mreq :=
  MRoot sc0 (query_doc vdsM (map root_sel ds) frags) ::
  flat_map (fun d => match df_fetch d with
                     | Some phi => [MEntity (df_key d) (ef_sub phi)
                                            (entities_doc (rep_vd :: vdsM) (ef_T phi) (ent_sel tn (ef_sel phi)) frags)
                                            (key_names (ef_ks phi))]
                     | None => []
                     end) ds.

(* ---- the validator evaluated on a translated real plan ---- *)
(* tags: root part first, fetched part second (client order == model order) *)
Fixpoint tags_ordered (seen_true : bool) (ts : list (bool * selection)) : bool :=
  match ts with
  | [] => true
  | (b, _) :: r => if b then tags_ordered true r else negb seen_true && tags_ordered seen_true r
  end.

Section TvCheck.
  Variables (sc : schema) (frags : list fragment) (vdsM : list vardef) (supM : list (bytes * json)).
  Variable sc0 : schema.
  Variables (g0 kq : nat).
  Variable decls : list (name * list name).
  Variable rdecls : list rdecl.

  Definition field2_shape_b (tn : bool) (d : dfield2) : bool :=
    match d2_fetch d with
    | None => forallb (fun x => negb (fst x)) (d2_sel d)
    | Some _ => tags_ordered false (d2_sel d) && negb tn
    end.

  Definition tv_static_b (tn : bool) (ds2 : list dfield2) : bool :=
    plan_static_b sc frags vdsM supM sc0 g0 kq decls rdecls (map to_dfield ds2) &&
    forallb (field2_shape_b tn) ds2.
End TvCheck.
