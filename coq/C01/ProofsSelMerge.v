(* C01 / (6): the "merged" form of a flattened field list -- one plain field per response key, carrying the merged
   sub-selections of all fields of that key -- executes exactly like the original list (used for positions resolved per runtime type). *)
From Coq Require Import List Bool PeanoNat Lia.
Import ListNotations.
From Gv Require Import lib.Bytes lib.Json lib.Gql lib.Exec
     C01.ProofsBase C01.ProofsFuel C01.ProofsSplit C01.ProofsSim C01.ProofsOverlap C01.ProofsPlan.

Definition gnorm (g : grp) : selection :=
  match g with
  | (_, SField a n args _ _, subs) => SField a n args [] subs
  | (_, s, _) => s
  end.
Definition gmerge (l : list selection) : list selection := map gnorm (groups l).

Definition gren (g : grp) : grp := (fst (fst g), gnorm g, snd g).

Lemma gmerge_nil : gmerge [] = [].
Proof. reflexivity. Qed.

Lemma gmerge_cons s rest :
  gmerge (s :: rest) =
  gnorm (sel_key s, s, flat_map sel_subs (s :: filter (same_key (sel_key s)) rest))
    :: gmerge (filter (fun x => negb (same_key (sel_key s) x)) rest).
Proof. unfold gmerge. rewrite groups_cons. reflexivity. Qed.

Lemma gnorm_key k s subs : sel_key (gnorm (k, s, subs)) = sel_key s.
Proof. destruct s; reflexivity. Qed.

Lemma gnorm_is_field k s subs : is_field (gnorm (k, s, subs)) = is_field s.
Proof. destruct s; reflexivity. Qed.

Lemma forallb_filter_keep {A} (p q : A -> bool) l : forallb p l = true -> forallb p (filter q l) = true.
Proof.
  induction l as [|x l IH]; [reflexivity|]. cbn [forallb filter]. intros H.
  apply andb_true_iff in H. destruct H as [H1 H2].
  destruct (q x); cbn [forallb]; [rewrite H1|]; auto.
Qed.

Lemma existsb_filter_true {A} (p q : A -> bool) l : existsb p (filter q l) = true -> existsb p l = true.
Proof.
  intros H. apply existsb_exists in H. destruct H as (x & Hx & Hp). apply filter_In in Hx.
  apply existsb_exists. exists x. split; [apply Hx|exact Hp].
Qed.

(* ---- (E) ---- *)
Lemma length_groups_le_n : forall n l, (length l <= n)%nat -> (length (groups l) <= length l)%nat.
Proof.
  induction n as [|n IH]; intros l Hlen.
  - destruct l; [cbn; lia|simpl in Hlen; lia].
  - destruct l as [|s rest]; [cbn; lia|].
    rewrite groups_cons. cbn [length].
    pose proof (filter_length_le (fun x => negb (same_key (sel_key s) x)) rest) as Hf.
    assert (Hl : (length (filter (fun x => negb (same_key (sel_key s) x)) rest) <= n)%nat)
      by (simpl in Hlen; clear - Hlen Hf; lia).
    pose proof (IH _ Hl) as Hr. clear - Hf Hr. lia.
Qed.

Lemma length_gmerge_le l : (length (gmerge l) <= length l)%nat.
Proof. unfold gmerge. rewrite map_length. apply (length_groups_le_n (length l)). apply le_n. Qed.

(* ---- keys of the merged list ---- *)
Lemma has_key_gmerge_n k : forall n l,
    (length l <= n)%nat -> has_key k (gmerge l) = true -> has_key k l = true.
Proof.
  induction n as [|n IH]; intros l Hlen H.
  - destruct l; [exact H|simpl in Hlen; lia].
  - destruct l as [|s rest]; [exact H|].
    rewrite gmerge_cons in H. unfold has_key in *. cbn [existsb] in *.
    apply orb_true_iff in H. destruct H as [H|H].
    + unfold same_key in H. rewrite gnorm_key in H. unfold same_key. rewrite H. reflexivity.
    + apply orb_true_iff. right.
      apply (existsb_filter_true _ (fun x => negb (same_key (sel_key s) x))).
      apply IH; [|exact H].
      pose proof (filter_length_le (fun x => negb (same_key (sel_key s) x)) rest) as Hf.
      simpl in Hlen. clear - Hlen Hf. lia.
Qed.

Lemma has_key_gmerge k l : has_key k (gmerge l) = true -> has_key k l = true.
Proof. apply (has_key_gmerge_n k (length l)). apply le_n. Qed.

Lemma has_key_filter_self k rest :
  has_key k (filter (fun x => negb (same_key k x)) rest) = false.
Proof.
  unfold has_key. destruct (existsb _ _) eqn:E; [|reflexivity].
  apply existsb_exists in E. destruct E as (x & Hx & Hk). apply filter_In in Hx. destruct Hx as [_ Hn].
  rewrite Hk in Hn. discriminate.
Qed.

Lemma has_key_gmerge_filter k rest :
  has_key k (gmerge (filter (fun x => negb (same_key k x)) rest)) = false.
Proof.
  destruct (has_key k (gmerge _)) eqn:E; [|reflexivity].
  apply has_key_gmerge in E. rewrite has_key_filter_self in E. discriminate.
Qed.

(* ---- (A) ---- *)
Lemma gmerge_keys_distinct_n : forall n l, (length l <= n)%nat -> keys_distinct (gmerge l) = true.
Proof.
  induction n as [|n IH]; intros l Hlen.
  - destruct l; [reflexivity|simpl in Hlen; lia].
  - destruct l as [|s rest]; [reflexivity|].
    rewrite gmerge_cons. cbn [keys_distinct]. rewrite gnorm_key, has_key_gmerge_filter. cbn [negb andb].
    apply IH.
    pose proof (filter_length_le (fun x => negb (same_key (sel_key s) x)) rest) as Hf.
    simpl in Hlen. clear - Hlen Hf. lia.
Qed.

Lemma gmerge_keys_distinct l : forallb is_field l = true -> keys_distinct (gmerge l) = true.
Proof. intros _. apply (gmerge_keys_distinct_n (length l)). apply le_n. Qed.

(* ---- (B) ---- *)
Lemma groups_fields l :
  forallb is_field l = true -> Forall (fun g : grp => is_field (snd (fst g)) = true) (groups l).
Proof.
  intros H. apply (groups_Forall (fun s => is_field s = true)) with (n := length l).
  - intros s same Hs _. exact Hs.
  - apply le_n.
  - apply Forall_forall. rewrite forallb_forall in H. exact H.
Qed.

Lemma gmerge_plain l :
  forallb is_field l = true ->
  Forall (fun s => exists a n args ss, s = SField a n args [] ss) (gmerge l).
Proof.
  intros H. unfold gmerge. apply Forall_map.
  eapply Forall_impl; [|apply groups_fields; exact H].
  intros [[k s] subs] Hg. cbn [fst snd] in Hg.
  destruct s as [a n args d ss| |]; try discriminate.
  exists a, n, args, subs. reflexivity.
Qed.

(* ---- the groups of the merged list ---- *)
Lemma groups_gmerge_n : forall n l,
    (length l <= n)%nat -> forallb is_field l = true -> groups (gmerge l) = map gren (groups l).
Proof.
  induction n as [|n IH]; intros l Hlen HF.
  - destruct l; [reflexivity|simpl in Hlen; lia].
  - destruct l as [|s rest]; [reflexivity|].
    cbn [forallb] in HF. apply andb_true_iff in HF. destruct HF as [Hs HF].
    rewrite gmerge_cons. rewrite (groups_cons s rest). cbn [map].
    set (subs := flat_map sel_subs (s :: filter (same_key (sel_key s)) rest)).
    set (R := filter (fun x => negb (same_key (sel_key s) x)) rest).
    rewrite groups_cons. rewrite gnorm_key.
    assert (Hk : has_key (sel_key s) (gmerge R) = false) by apply has_key_gmerge_filter.
    rewrite (filter_none (same_key (sel_key s)) (gmerge R) Hk).
    rewrite (filter_all (fun x => negb (same_key (sel_key s) x)) (gmerge R)).
    2:{ unfold has_key in Hk. rewrite <- Hk. apply existsb_ext'. intros x. apply negb_involutive. }
    f_equal.
    + unfold gren. cbn [fst snd]. f_equal.
      destruct s as [a nm args d ss| |]; try discriminate.
      cbn [gnorm flat_map sel_subs]. apply app_nil_r.
    + apply IH.
      * pose proof (filter_length_le (fun x => negb (same_key (sel_key s) x)) rest) as Hf.
        simpl in Hlen. unfold R. clear - Hlen Hf. lia.
      * unfold R. apply forallb_filter_keep. exact HF.
Qed.

Lemma groups_gmerge l : forallb is_field l = true -> groups (gmerge l) = map gren (groups l).
Proof. apply (groups_gmerge_n (length l)). apply le_n. Qed.

Lemma sels_go_gren ef path gs :
  Forall (fun g : grp => forall p, ef (fst (fst g)) (gnorm g) (snd g) p = ef (fst (fst g)) (snd (fst g)) (snd g) p) gs ->
  sels_go ef path (map gren gs) = sels_go ef path gs.
Proof.
  induction gs as [|[[key s] subs] rest IH]; intros HF; [reflexivity|].
  inversion HF as [|? ? Hg Hrest]; subst. cbn [fst snd] in Hg.
  cbn [map]. unfold gren at 1. cbn [fst snd sels_go].
  rewrite Hg, (IH Hrest). reflexivity.
Qed.

Section Merge.
  Variable sc : schema.
  Variable U : universe.
  Variable frags : list fragment.
  Variable vars : list (bytes * json).
  Variable md : mode.

  (* ---- (C) ---- *)
  Theorem exec_flat_gmerge f objty ov l path :
    forallb is_field l = true ->
    exec_flat sc U frags vars md f objty ov (gmerge l) path = exec_flat sc U frags vars md f objty ov l path.
  Proof.
    intros HF. unfold exec_flat. rewrite (groups_gmerge l HF).
    apply sels_go_gren.
    eapply Forall_impl; [|apply groups_fields; exact HF].
    intros [[k s] subs] Hg p. cbn [fst snd] in *.
    apply exec_field_same.
    - rewrite gnorm_is_field. exact Hg.
    - exact Hg.
    - destruct s; reflexivity.
    - destruct s; reflexivity.
  Qed.

  (* ---- (D) ---- *)
  Theorem exec_sels_gmerge kf f objty ov X l path :
    flatten sc frags vars kf objty X = FlatOk l -> (kf <= f)%nat -> (length (gmerge l) < f)%nat ->
    exec_sels sc U frags vars md f objty ov X path = exec_sels sc U frags vars md f objty ov (gmerge l) path.
  Proof.
    intros Hfl Hle Hlen.
    pose proof (flatten_all_fields sc frags vars kf objty X l Hfl) as HF.
    pose proof (flatten_mono_ok sc frags vars kf f objty X l Hle Hfl) as Hfl'.
    rewrite (exec_sels_flat sc U frags vars md f objty ov X path l Hfl').
    rewrite (exec_sels_flat sc U frags vars md f objty ov (gmerge l) path (gmerge l)).
    - symmetry. apply exec_flat_gmerge. exact HF.
    - apply flatten_plain; [apply gmerge_plain; exact HF|exact Hlen].
  Qed.
End Merge.

Print Assumptions gmerge_keys_distinct.
Print Assumptions gmerge_plain.
Print Assumptions exec_flat_gmerge.
Print Assumptions exec_sels_gmerge.
Print Assumptions length_gmerge_le.
