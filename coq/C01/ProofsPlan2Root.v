(* C01 / (5) translation validation, part 6: the root fetches and the plan theorem of the v2 model.
   - one request per root subgraph, the answers merged and read in the client's order, is (data
     equal, errors iff) the fold of the per-field root answers ([root_state_weq]);
   - the monolith on the client's fields is the fold of the per-field monolithic answers;
   - with the generic plan algebra and the per-field links: [gateway2] has the data of the monolith
     and errors iff ([plan2_sound]). *)
From Coq Require Import PeanoNat Lia.
From Gv Require Import lib.Bytes lib.Json lib.Gql lib.Exec
     C01.ProofsBase C01.ProofsFuel C01.ProofsSplit C01.ProofsSim C01.ProofsJoin C01.ProofsOverlap
     C01.ProofsTwoStep C01.ProofsViol C01.ProofsCtxBase C01.ProofsCtx C01.ProofsTwoStepWf C01.ProofsPlanAlg
     C01.ProofsPlan C01.ProofsPlanOk C01.ProofsDedup C01.ProofsListHop
     C01.ProofsTvStatic C01.ProofsTvDefs C01.ProofsTvHidden C01.ProofsPlanGen C01.ProofsPlan2 C01.ProofsPlan2Link.
Open Scope N_scope.

(* ---- lists of naturals ---- *)
Lemma nat_mem_In x l : nat_mem x l = true <-> In x l.
Proof.
  induction l as [|y l IH]; cbn; [split; [discriminate|intros []]|].
  rewrite orb_true_iff, IH, Nat.eqb_eq. split; intros [H|H]; auto.
Qed.
Lemma nat_nodup_In x l : In x (nat_nodup l) <-> In x l.
Proof.
  induction l as [|y l IH]; cbn; [tauto|].
  destruct (nat_mem y l) eqn:E.
  - rewrite IH. split; [auto|]. intros [<-|H]; [apply nat_mem_In; exact E|exact H].
  - cbn. rewrite IH. tauto.
Qed.

Lemma names_distinct_filter {A} (key : A -> name) (p : A -> bool) l :
  names_distinct (map key l) = true -> names_distinct (map key (filter p l)) = true.
Proof.
  induction l as [|x l IH]; [reflexivity|]. cbn [map names_distinct filter]. intros H.
  apply andb_true_iff in H. destruct H as [H1 H2]. destruct (p x); [|apply IH; exact H2].
  cbn [map names_distinct]. rewrite (IH H2), andb_true_r. apply negb_true_iff in H1. apply negb_true_iff.
  destruct (mem_bytes (key x) (map key (filter p l))) eqn:E; [|reflexivity].
  apply mem_bytes_In in E. apply in_map_iff in E. destruct E as (y & Hy & Hin). apply filter_In in Hin.
  assert (Hm : mem_bytes (key x) (map key l) = true) by (apply mem_bytes_In; apply in_map_iff; exists y; tauto).
  congruence.
Qed.

(* ---- the abstract statement: groups of fields, each group folded, read back in field order ---- *)
Section RootAbs.
  Variable fld : Type.
  Variable key : fld -> name.
  Variable a_of : fld -> sres.
  Variable root : fld -> nat.

  Hypothesis Hshape_a : forall d, one_member (key d) (a_of d).
  Hypothesis Hnone_a : forall d e, a_of d = (None, e) -> e <> [].

  Notation Rfold' := (Rfold fld a_of).
  Definition aval (d : fld) : option json :=
    match a_of d with (Some [(_, v)], _) => Some v | _ => None end.
  Definition is_some {A} (o : option A) : bool := match o with Some _ => true | None => false end.
  Definition the_val (d : fld) : json := match aval d with Some v => v | None => JNull end.

  Lemma aval_shape d :
    (exists e, a_of d = (None, e) /\ aval d = None) \/ (exists v e, a_of d = (Some [(key d, v)], e) /\ aval d = Some v).
  Proof.
    destruct (Hshape_a d) as [[e H]|[v [e H]]]; unfold aval; rewrite H; [left|right]; repeat eexists.
  Qed.

  Lemma Rfold_fst l :
    fst (Rfold' l) = if forallb (fun d => is_some (aval d)) l then Some (map (fun d => (key d, the_val d)) l) else None.
  Proof.
    induction l as [|d l IH]; [reflexivity|]. cbn [Rfold fold_right forallb map]. fold (Rfold' l).
    unfold split_merge. destruct (aval_shape d) as [(e & Ha & Hv)|(v & e & Ha & Hv)]; rewrite Ha; cbn [fst snd].
    - rewrite Hv. reflexivity.
    - rewrite IH. rewrite Hv. cbn [is_some andb].
      destruct (forallb (fun d0 => is_some (aval d0)) l); [|reflexivity].
      cbn [app]. f_equal. f_equal. unfold the_val. rewrite Hv. reflexivity.
  Qed.

  Lemma Rfold_snd l : snd (Rfold' l) = [] <-> (forall d, In d l -> snd (a_of d) = []).
  Proof.
    induction l as [|d l IH]; [cbn; split; [intros _ d []|reflexivity]|].
    cbn [Rfold fold_right]. fold (Rfold' l). unfold split_merge.
    destruct (aval_shape d) as [(e & Ha & Hv)|(v & e & Ha & Hv)]; rewrite Ha; cbn [fst snd].
    - split.
      + intros ->. exfalso. apply (Hnone_a d [] Ha). reflexivity.
      + intros H. specialize (H d (or_introl eq_refl)). rewrite Ha in H. exact H.
    - rewrite app_nil_iff, IH. split.
      + intros [-> H] d' [<-|Hin]; [rewrite Ha; reflexivity|apply H; exact Hin].
      + intros H. split; [specialize (H d (or_introl eq_refl)); rewrite Ha in H; exact H|].
        intros d' Hin. apply H. right. exact Hin.
  Qed.

  Definition groups_of (ds : list fld) : list nat := nat_nodup (map root ds).
  Definition group_fields (g : nat) (ds : list fld) : list fld := filter (fun d => Nat.eqb (root d) g) ds.
  Definition root_state_abs (ds : list fld) : sres :=
    let resps := map (fun g => Rfold' (group_fields g ds)) (groups_of ds) in
    let errs := flat_map snd resps in
    if existsb (fun r => is_none (fst r)) resps then (None, errs)
    else (Some (map (fun d => (key d, get_member (key d) (match fst (Rfold' (group_fields (root d) ds)) with Some l => l | None => [] end))) ds),
          errs).

  Lemma in_group d ds : In d ds -> In (root d) (groups_of ds) /\ In d (group_fields (root d) ds).
  Proof.
    intros H. split.
    - apply nat_nodup_In. apply in_map. exact H.
    - apply filter_In. split; [exact H|apply Nat.eqb_refl].
  Qed.

  Lemma get_member_map (l : list fld) d :
    names_distinct (map key l) = true -> In d l ->
    get_member (key d) (map (fun x => (key x, the_val x)) l) = the_val d.
  Proof.
    induction l as [|x l IH]; intros Hk Hin; [destruct Hin|].
    cbn [map names_distinct] in Hk. apply andb_true_iff in Hk. destruct Hk as [Hk1 Hk2]. apply negb_true_iff in Hk1.
    unfold get_member in *. cbn [map obj_get].
    destruct Hin as [->|Hin].
    - rewrite bytes_eqb_refl. reflexivity.
    - destruct (bytes_eqb (key d) (key x)) eqn:E.
      + apply bytes_eqb_eq in E. exfalso.
        assert (Hm : mem_bytes (key x) (map key l) = true) by (apply mem_bytes_In; rewrite <- E; apply in_map; exact Hin).
        congruence.
      + apply IH; assumption.
  Qed.

  Lemma all_some_groups ds :
    forallb (fun d => is_some (aval d)) ds =
    negb (existsb (fun r : sres => is_none (fst r)) (map (fun g => Rfold' (group_fields g ds)) (groups_of ds))).
  Proof.
    destruct (forallb (fun d => is_some (aval d)) ds) eqn:Eall.
    - symmetry. apply negb_true_iff. destruct (existsb _ _) eqn:Ee; [|reflexivity]. exfalso.
      apply existsb_exists in Ee. destruct Ee as (r & Hr & Hnone). apply in_map_iff in Hr. destruct Hr as (g & <- & Hg).
      rewrite Rfold_fst in Hnone.
      destruct (forallb (fun d => is_some (aval d)) (group_fields g ds)) eqn:Eg; [discriminate|].
      assert (Hsub : forallb (fun d => is_some (aval d)) (group_fields g ds) = true).
      { apply forallb_forall. intros d Hd. apply filter_In in Hd. rewrite forallb_forall in Eall. apply Eall. apply Hd. }
      congruence.
    - symmetry. apply negb_false_iff.
      assert (Hex : exists d, In d ds /\ is_some (aval d) = false).
      { clear -Eall. induction ds as [|x l IH]; [discriminate|]. cbn [forallb] in Eall. apply andb_false_iff in Eall.
        destruct Eall as [H|H]; [exists x; split; [left; reflexivity|exact H]|].
        destruct (IH H) as (d & Hd & Hv). exists d. split; [right; exact Hd|exact Hv]. }
      destruct Hex as (d & Hd & Hv). destruct (in_group d ds Hd) as [Hg Hf].
      apply existsb_exists. exists (Rfold' (group_fields (root d) ds)). split.
      + apply in_map_iff. exists (root d). split; [reflexivity|exact Hg].
      + rewrite Rfold_fst.
        destruct (forallb (fun d0 => is_some (aval d0)) (group_fields (root d) ds)) eqn:Eg; [|reflexivity].
        rewrite forallb_forall in Eg. specialize (Eg d Hf). congruence.
  Qed.

  Theorem root_state_abs_weq ds :
    names_distinct (map key ds) = true -> sres_weq (root_state_abs ds) (Rfold' ds).
  Proof.
    intros Hk. unfold root_state_abs. cbv zeta.
    pose proof (all_some_groups ds) as Hall. unfold sres in *.
    split.
    - rewrite Rfold_fst.
      match goal with |- context [if ?b then _ else _] => destruct b eqn:Ee end;
        cbn [negb] in Hall; rewrite Hall; cbn [fst]; [reflexivity|].
      f_equal. apply map_ext_in. intros d Hd. f_equal.
      destruct (in_group d ds Hd) as [Hg Hf]. rewrite Rfold_fst.
      assert (Hsub : forallb (fun d0 => is_some (aval d0)) (group_fields (root d) ds) = true).
      { apply forallb_forall. intros x Hx. apply filter_In in Hx. rewrite forallb_forall in Hall. apply Hall. apply Hx. }
      rewrite Hsub. apply get_member_map; [|exact Hf]. apply names_distinct_filter. exact Hk.
    - assert (Hs : flat_map snd (map (fun g => Rfold' (group_fields g ds)) (groups_of ds)) = [] <->
                   (forall d, In d ds -> snd (a_of d) = [])).
      { clear Hall. split.
        - intros H d Hd. destruct (in_group d ds Hd) as [Hg Hf].
          assert (Hgr : snd (Rfold' (group_fields (root d) ds)) = []).
          { clear -H Hg. induction (groups_of ds) as [|g l IH]; [destruct Hg|]. cbn [map flat_map] in H.
            apply app_eq_nil in H. destruct H as [H1 H2]. destruct Hg as [->|Hg]; [exact H1|apply IH; assumption]. }
          apply (proj1 (Rfold_snd _) Hgr d Hf).
        - intros H. induction (groups_of ds) as [|g l IH]; [reflexivity|]. cbn [map flat_map]. rewrite IH, app_nil_r.
          apply Rfold_snd. intros d Hd. apply filter_In in Hd. apply H. apply Hd. }
      rewrite Rfold_snd.
      match goal with |- context [if ?b then _ else _] => destruct b end; cbn [snd]; exact Hs.
  Qed.
End RootAbs.

(* ---- a list of plain, distinctly keyed fields executes field by field ---- *)
Lemma has_key_map_fields {A} (sel : A -> selection) (key : A -> name) k (l : list A) :
  (forall x, sel_key (sel x) = key x) -> has_key k (map sel l) = mem_bytes k (map key l).
Proof.
  intros H. unfold has_key. induction l as [|x l IH]; [reflexivity|]. cbn [map existsb mem_bytes]. rewrite IH.
  unfold same_key. rewrite H, bytes_eqb_sym. reflexivity.
Qed.
Lemma keys_distinct_map_fields {A} (sel : A -> selection) (key : A -> name) (l : list A) :
  (forall x, sel_key (sel x) = key x) -> keys_distinct (map sel l) = names_distinct (map key l).
Proof.
  intros H. induction l as [|x l IH]; [reflexivity|]. cbn [map keys_distinct names_distinct].
  rewrite IH, (has_key_map_fields sel key _ l H), H. reflexivity.
Qed.

Lemma exec_fields_fold sc' U frags vars md f objty ov (l : list selection) :
  Forall (fun s => exists a n args ss, s = SField a n args [] ss) l ->
  keys_distinct l = true -> (length l < f)%nat ->
  exec_sels sc' U frags vars md f objty ov l [] =
  fold_right (fun s acc => split_merge (exec_sels sc' U frags vars md f objty ov [s] []) acc) (Some [], []) l.
Proof.
  induction l as [|s l IH]; intros HF Hk Hlen.
  - cbn [fold_right]. apply exec_nil. simpl in Hlen. lia.
  - rewrite (exec_cons_split sc' U frags vars md f objty ov s l []); [|exact HF|exact Hk|exact Hlen].
    cbn [fold_right]. f_equal. apply IH.
    + inversion HF; assumption.
    + cbn [keys_distinct] in Hk. apply andb_true_iff in Hk. apply Hk.
    + simpl in Hlen. lia.
Qed.

Lemma fold_right_map {A B C} (g : A -> B) (h : B -> C -> C) (c : C) (l : list A) :
  fold_right h c (map g l) = fold_right (fun x acc => h (g x) acc) c l.
Proof. induction l as [|x l IH]; [reflexivity|]. cbn. rewrite IH. reflexivity. Qed.

(* ---- the structural facts about [tr2] ---- *)
Section Tr2Facts.
  Variable U : universe.
  Variables (sc : schema) (subs : list schema) (frags : list fragment) (vdsM : list vardef) (supM : list (bytes * json)).
  Variables (g0 f2 : nat).
  Variable tn : bool.
  Notation tr' := (tr2 U sc subs frags vdsM supM g0 f2 tn).

  Lemma tr2_none d e : tr' d (None, e) = (None, e).
  Proof. unfold tr2. destruct (d2_fetch d) as [[[si T] ks]|]; [|reflexivity]. destruct (d2_shape d), tn; reflexivity. Qed.

  Lemma tr2_id d : d2_has_fetch d = false -> forall r, tr' d r = r.
  Proof. unfold d2_has_fetch, tr2. destruct (d2_fetch d) as [[[si T] ks]|]; [discriminate|reflexivity]. Qed.

  Lemma merge_at_prefix nn kf p' flA l1 x e X :
    fst (merge_at nn kf p' flA l1 x (e ++ X)) = fst (merge_at nn kf p' flA l1 x ([] ++ X)) /\
    (snd (merge_at nn kf p' flA l1 x (e ++ X)) = [] <-> e = [] /\ snd (merge_at nn kf p' flA l1 x ([] ++ X)) = []).
  Proof.
    cbn [app]. unfold merge_at, field_result, obj_cres, nonnull_wrap, cnull. cbn [fst snd].
    destruct x; cbn [fst snd c_json c_errs c_viol]; destruct nn; cbn [fst snd c_json c_errs c_viol];
      try (rewrite app_nil_iff; tauto);
      try (split; [reflexivity|]; destruct (e ++ X) eqn:E1; destruct X eqn:E2; cbn;
           try (apply app_eq_nil in E1; destruct E1; subst); split; try discriminate; try tauto; intros [? ?]; try discriminate; subst; try discriminate).
  Qed.

  Ltac fin_prefix :=
    repeat match goal with |- context [match ?v with _ => _ end] => destruct v end; cbn [fst snd app]; rewrite ?app_nil_iff; tauto.

  Lemma tr2_prefix d o e :
    fst (tr' d (o, e)) = fst (tr' d (o, [])) /\ (snd (tr' d (o, e)) = [] <-> e = [] /\ snd (tr' d (o, [])) = []).
  Proof.
    unfold tr2. destruct (d2_fetch d) as [[[si T] ks]|]; [|cbn [fst snd]; tauto].
    destruct (d2_shape d) as [nn|nnl nni], tn.
    - (* step2h *)
      unfold step2h.
      destruct o as [[|[k0 v] [|? ?]]|]; try (cbn [fst snd]; tauto); try fin_prefix.
      destruct v; try (cbn [fst snd]; tauto).
      destruct (rs_data (execute (S f2) _ U Sub _ None _)) as [| | | | |[|[k1 x] [|? ?]]]; try (cbn [fst snd]; tauto); try fin_prefix.
      destruct x as [| | | |[|x [|? ?]]|]; try (cbn [fst snd]; tauto).
      apply merge_at_prefix.
    - (* step2 *)
      unfold step2.
      destruct o as [[|[k0 v] [|? ?]]|]; try (cbn [fst snd]; tauto); try fin_prefix.
      destruct v; try (cbn [fst snd]; tauto).
      destruct (rs_data (execute f2 _ U Sub _ None _)) as [| | | | |[|[k1 x] [|? ?]]]; try (cbn [fst snd]; tauto); try fin_prefix.
      destruct x as [| | | |[|x [|? ?]]|]; try (cbn [fst snd]; tauto).
      apply merge_at_prefix.
    - (* step2h_list *)
      unfold step2h_list. fin_prefix.
    - (* step2_list *)
      unfold step2_list. fin_prefix.
  Qed.
End Tr2Facts.

(* ---- the plan theorem of the v2 model ---- *)
Section Plan2Sound.
  Variable U : universe.
  Variables (sc : schema) (subs : list schema) (frags : list fragment) (vdsM : list vardef) (supM : list (bytes * json)).
  Variable eQ : entity.
  Variables (g0 kq f1 f2 fM : nat).
  Variable decls : list (name * list name).
  Variable rdecls : list rdecl.
  Variable tn : bool.

  Notation vars := (pvars vdsM supM).
  Notation Q := (s_query sc).
  Notation ovQ := {| ov_ent := eQ; ov_repr := None |}.
  Notation a_of' := (a_of2 U sc subs frags vdsM supM eQ f1).
  Notation m_of' := (m_of2 U sc frags vdsM supM eQ fM).
  Notation tr' := (tr2 U sc subs frags vdsM supM g0 f2 tn).

  Hypothesis HeQ : find_entity U Q [] = Some eQ.

  Lemma plain_sel2 (sel : dfield2 -> selection) ds :
    (forall d, exists a n args ss, sel d = SField a n args [] ss) ->
    Forall (fun s => exists a n args ss, s = SField a n args [] ss) (map sel ds).
  Proof. intros H. apply Forall_forall. intros s Hs. apply in_map_iff in Hs. destruct Hs as (d & <- & _). apply H. Qed.

  Lemma root_resp_fold g ds :
    names_distinct (map d2_key ds) = true -> (length ds + 1 < f1)%nat ->
    root_resp U sc subs frags vdsM supM eQ f1 g ds = Rfold dfield2 a_of' (fields_of g ds).
  Proof.
    intros Hk Hlen. unfold root_resp.
    assert (Hlen' : (length (map root_sel2 (fields_of g ds)) < f1)%nat).
    { rewrite map_length. unfold fields_of. pose proof (filter_length_le (fun d => Nat.eqb (d2_root d) g) ds). lia. }
    rewrite exec_fields_fold; [| | |exact Hlen'].
    - rewrite fold_right_map. unfold Rfold.
      assert (Hg : forall d, In d (fields_of g ds) -> d2_root d = g).
      { intros d Hd. apply filter_In in Hd. apply Nat.eqb_eq. apply Hd. }
      revert Hg. generalize (fields_of g ds) as l. clear.
      induction l as [|d l IH]; intros Hg; [reflexivity|]. cbn [fold_right]. rewrite IH; [|intros x Hx; apply Hg; right; exact Hx].
      unfold a_of2. rewrite (Hg d (or_introl eq_refl)). reflexivity.
    - apply plain_sel2. intros d. unfold root_sel2. repeat eexists.
    - rewrite (keys_distinct_map_fields root_sel2 d2_key); [|intros d; reflexivity].
      apply names_distinct_filter. exact Hk.
  Qed.

  Lemma root_state_weq ds :
    names_distinct (map d2_key ds) = true -> (length ds + 1 < f1)%nat ->
    sres_weq (root_state U sc subs frags vdsM supM eQ f1 ds) (Rfold dfield2 a_of' ds).
  Proof.
    intros Hk Hlen.
    assert (Heq : root_state U sc subs frags vdsM supM eQ f1 ds = root_state_abs dfield2 d2_key a_of' d2_root ds).
    { unfold root_state, root_state_abs, roots_of, groups_of. cbv zeta.
      assert (Hm : map (fun g => root_resp U sc subs frags vdsM supM eQ f1 g ds) (nat_nodup (map d2_root ds)) =
                   map (fun g => Rfold dfield2 a_of' (group_fields dfield2 d2_root g ds)) (nat_nodup (map d2_root ds))).
      { apply map_ext. intros g. apply root_resp_fold; assumption. }
      rewrite Hm.
      destruct (existsb _ _); [reflexivity|]. f_equal. f_equal. apply map_ext. intros d.
      rewrite (root_resp_fold (d2_root d) ds Hk Hlen). reflexivity. }
    rewrite Heq. apply root_state_abs_weq; [| |exact Hk].
    - intros d. unfold a_of2, root_sel2, d2_key.
      destruct (single_field_shape (sub_at sc subs (d2_root d)) U frags vars Sub f1 (d2_alias d) (d2_name d) (d2_args d)
                  (d2_selA d ++ match d2_fetch d with Some (_, _, ks) => key_sels ks | None => [] end) Q ovQ [])
        as [[e H]|[v [e H]]]; [left; exists e; exact H|right; exists v, e; exact H].
    - intros d e H. unfold a_of2 in H. apply (exec_sels_none_errs _ U frags vars Sub _ _ _ _ _ _ H).
  Qed.

  Lemma mono_ab2_fold ds :
    names_distinct (map d2_key ds) = true -> (length ds < fM)%nat ->
    mono_ab2 U sc frags vdsM supM eQ fM ds = Mfold dfield2 m_of' ds.
  Proof.
    intros Hk Hlen. unfold mono_ab2. rewrite exec_fields_fold.
    - rewrite fold_right_map. reflexivity.
    - apply plain_sel2. intros d. unfold ab_sel2. repeat eexists.
    - rewrite (keys_distinct_map_fields ab_sel2 d2_key); [exact Hk|intros d; reflexivity].
    - rewrite map_length. exact Hlen.
  Qed.

  (* the gateway model returns the monolith's data (client's fields, root part first) and has
     errors iff the monolith has -- for every universe of the contract *)
  Theorem plan2_sound ds :
    plan2_static_b sc subs frags vdsM supM g0 kq decls rdecls tn ds = true ->
    univ2_contract_b sc subs decls rdecls U = true ->
    no_oof (snd (mono_ab2 U sc frags vdsM supM eQ fM ds)) = true ->
    (length ds + 2 <= fM)%nat -> (plan2_fuel g0 fM ds <= f1)%nat -> (plan2_fuel g0 fM ds + g0 <= f2)%nat ->
    sres_weq (gateway2 U sc subs frags vdsM supM eQ g0 f1 f2 tn ds) (mono_ab2 U sc frags vdsM supM eQ fM ds).
  Proof.
    intros Hok Hc Hn HfM Hf1 Hf2.
    assert (Hk : names_distinct (map d2_key ds) = true).
    { pose proof Hok as Hok'. unfold plan2_static_b in Hok'.
      repeat (apply andb_true_iff in Hok'; destruct Hok' as [Hok' ?]). assumption. }
    assert (Hlen1 : (length ds + 1 < f1)%nat) by (clear -Hf1; unfold plan2_fuel in Hf1; lia).
    rewrite (mono_ab2_fold ds Hk) in Hn |- * by lia.
    unfold gateway2.
    destruct (root_state_weq ds Hk Hlen1) as [R1 R2].
    assert (Hgen : sres_weq (run_fetches (gefs dfield2 d2_key tr' d2_has_fetch ds) (Rfold dfield2 a_of' ds)) (Mfold dfield2 m_of' ds)).
    { apply (gen_alg dfield2 d2_key a_of' m_of' tr' d2_has_fetch).
      - intros d. unfold a_of2, root_sel2, d2_key.
        destruct (single_field_shape (sub_at sc subs (d2_root d)) U frags vars Sub f1 (d2_alias d) (d2_name d) (d2_args d)
                    (d2_selA d ++ match d2_fetch d with Some (_, _, ks) => key_sels ks | None => [] end) Q ovQ [])
          as [[e H]|[v [e H]]]; [left; exists e; exact H|right; exists v, e; exact H].
      - intros d. unfold m_of2, ab_sel2, d2_key.
        destruct (single_field_shape sc U frags vars Mono fM (d2_alias d) (d2_name d) (d2_args d)
                    (d2_selA d ++ d2_selB d) Q ovQ [])
          as [[e H]|[v [e H]]]; [left; exists e; exact H|right; exists v, e; exact H].
      - intros d e H. unfold a_of2 in H. apply (exec_sels_none_errs _ U frags vars Sub _ _ _ _ _ _ H).
      - intros d e H. unfold m_of2 in H. apply (exec_sels_none_errs _ U frags vars Mono _ _ _ _ _ _ H).
      - apply tr2_none.
      - apply tr2_prefix.
      - apply tr2_id.
      - apply Forall_forall. intros d Hin.
        apply (link2_of U sc subs frags vdsM supM eQ g0 kq f1 f2 fM decls rdecls tn HeQ ds d Hok Hc Hin Hf1 Hf2).
      - exact Hk.
      - exact Hn. }
    (* the root state differs from the fold only in its errors (both empty or both not) *)
    destruct (root_state U sc subs frags vdsM supM eQ f1 ds) as [oR eR] eqn:ER.
    destruct (Rfold dfield2 a_of' ds) as [oF eF] eqn:EF. cbn [fst snd] in R1, R2. subst oF.
    rewrite (run_fetches_errs _ oR eR). rewrite (run_fetches_errs _ oR eF) in Hgen.
    destruct Hgen as [G1 G2]. cbn [fst snd] in G1, G2 |- *. split; [exact G1|]. cbn [snd].
    rewrite app_nil_iff. rewrite app_nil_iff in G2. tauto.
  Qed.
End Plan2Sound.
