(* C01 / context agreement, part 2: [req_ok_b] and [req_ok_sound].  A request that is executable on
   the subgraph schema sc' is executed (monolithic mode) identically under the supergraph schema
   sc, for every fuel, provided sc' is a well-formed projection of sc ([config_wf_b]), the
   universe only reaches sc'-declared object types through sc'-fields ([univ_ok_b]) and the two
   variable environments agree on the variables the request uses. *)
From Coq Require Import PeanoNat Lia.
From Gv Require Import lib.Bytes lib.Json lib.Gql lib.Exec
     C01.ProofsBase C01.ProofsFuel C01.ProofsSim C01.ProofsCtxBase.
Open Scope N_scope.

(* ---- syntactic side: type conditions declared in sc', variables within A ---- *)
Definition args_vars_in (A : name -> bool) (args : list argument) : bool :=
  forallb (fun kv : argument => value_vars_in A (snd kv)) args.
Definition dirs_vars_in (A : name -> bool) (dirs : list directive) : bool :=
  forallb (fun d => args_vars_in A (d_args d)) dirs.

Section Syn.
  Variable sc' : schema.
  Variable A : name -> bool.
  Fixpoint sel_syn (s : selection) : bool :=
    match s with
    | SField _ _ args dirs ss => args_vars_in A args && dirs_vars_in A dirs && forallb sel_syn ss
    | SInline c dirs ss =>
      match c with Some c => declared sc' c | None => true end && dirs_vars_in A dirs && forallb sel_syn ss
    | SSpread _ dirs => dirs_vars_in A dirs
    end.
  Definition sels_syn (l : list selection) : bool := forallb sel_syn l.
  Definition frags_syn (frags : list fragment) : bool :=
    forallb (fun fr => declared sc' (fr_type fr) && sels_syn (fr_sels fr)) frags.
End Syn.

Definition children (s : selection) : list selection :=
  match s with SField _ _ _ _ ss => ss | SInline _ _ ss => ss | SSpread _ _ => [] end.

(* ---- hereditary predicates survive flatten and group ---- *)
Section Hered.
  Variable pr : selection -> bool.
  Hypothesis pr_children : forall s, pr s = true -> forallb pr (children s) = true.
  Variable sc : schema.
  Variable frags : list fragment.
  Variable vars : list (bytes * json).
  Hypothesis pr_frags : forall n fr, find_frag n frags = Some fr -> forallb pr (fr_sels fr) = true.

  Lemma flatten_pred : forall f objty sels fl,
      forallb pr sels = true -> flatten sc frags vars f objty sels = FlatOk fl -> forallb pr fl = true.
  Proof.
    induction f as [|f IH]; intros objty sels fl Hs Hf; [rewrite flatten_0 in Hf; discriminate|].
    destruct sels as [|s rest]; [rewrite flatten_S_nil in Hf; injection Hf as <-; reflexivity|].
    rewrite flatten_S_cons in Hf. cbn [forallb] in Hs. apply andb_true_iff in Hs. destruct Hs as [Hs Hrest].
    destruct (flat_here sc frags vars (flatten sc frags vars f objty) objty s) as [l1|e] eqn:Eh; [|discriminate].
    cbn [flat_seq] in Hf. destruct (flatten sc frags vars f objty rest) as [l2|e] eqn:Er; [|discriminate].
    injection Hf as <-. rewrite forallb_app. apply andb_true_iff. split; [|apply (IH objty rest); assumption].
    pose proof (pr_children s Hs) as Hc.
    destruct s as [a n args dirs ss|cond dirs ss|n dirs]; cbn [flat_here children] in Eh, Hc.
    - destruct (included vars dirs); injection Eh as <-; [|reflexivity]. cbn [forallb]. rewrite Hs. reflexivity.
    - destruct (negb (included vars dirs)); [injection Eh as <-; reflexivity|].
      destruct cond as [c|]; [|apply (IH objty ss); assumption].
      destruct (kind_of sc c).
      + destruct (type_applies sc objty c); [apply (IH objty ss); assumption|injection Eh as <-; reflexivity].
      + destruct (bytes_eqb c [95; 69; 110; 116; 105; 116; 121]); [apply (IH objty ss); assumption|discriminate].
    - destruct (negb (included vars dirs)); [injection Eh as <-; reflexivity|].
      destruct (find_frag n frags) as [fr|] eqn:Ef; [|discriminate].
      destruct (type_applies sc objty (fr_type fr)); [|injection Eh as <-; reflexivity].
      apply (IH objty (fr_sels fr)); [|exact Eh]. apply (pr_frags n). exact Ef.
  Qed.

  Lemma groups_pred fl :
    forallb pr fl = true ->
    Forall (fun g : grp => pr (snd (fst g)) = true /\ forallb pr (snd g) = true) (groups fl).
  Proof.
    intros Hs. apply (groups_Forall (fun s => pr s = true)) with (n := length fl); [|lia|].
    - intros s same Hs1 Hsame. cbn [fst snd]. split; [exact Hs1|].
      assert (Hall : Forall (fun x => pr x = true) (s :: same)) by (constructor; assumption).
      clear -Hall pr_children. induction Hall as [|x l Hx HF IHl]; [reflexivity|].
      cbn [flat_map]. rewrite forallb_app, IHl, andb_true_r.
      destruct x; cbn [sel_subs]; try reflexivity. apply (pr_children _ Hx).
    - apply Forall_forall. intros x Hx. rewrite forallb_forall in Hs. apply Hs. exact Hx.
  Qed.
End Hered.

Lemma sel_syn_children sc' A s : sel_syn sc' A s = true -> forallb (sel_syn sc' A) (children s) = true.
Proof.
  destruct s as [a n args dirs ss|c dirs ss|n dirs]; cbn [sel_syn children]; intros H; [| |reflexivity];
    apply andb_true_iff in H; apply H.
Qed.
Lemma frags_syn_find sc' A frags n fr :
  frags_syn sc' A frags = true -> find_frag n frags = Some fr ->
  declared sc' (fr_type fr) = true /\ sels_syn sc' A (fr_sels fr) = true.
Proof.
  unfold frags_syn. induction frags as [|x l IH]; cbn; [discriminate|].
  intros H Hf. apply andb_true_iff in H. destruct H as [H1 H2].
  destruct (bytes_eqb n (fr_name x)); [injection Hf as <-; apply andb_true_iff in H1; exact H1|apply IH; assumption].
Qed.

(* ---- agreement of the pieces ---- *)
Lemma included_agree A vars vars' dirs :
  (forall n, A n = true -> assoc n vars' = assoc n vars) ->
  dirs_vars_in A dirs = true -> included vars' dirs = included vars dirs.
Proof.
  intros HA. induction dirs as [|d r IH]; intros Hd; [reflexivity|].
  cbn [dirs_vars_in forallb] in Hd. apply andb_true_iff in Hd. destruct Hd as [Hd Hr].
  cbn [included]. rewrite (IH Hr). f_equal.
  assert (Hif : dir_if vars' d = dir_if vars d).
  { unfold dir_if. destruct (assoc s_if (d_args d)) as [v|] eqn:Ea; [|reflexivity].
    apply assoc_In in Ea. unfold args_vars_in in Hd. rewrite forallb_forall in Hd.
    specialize (Hd _ Ea). cbn [snd] in Hd. rewrite (lit_json_agree A vars vars' HA v Hd). reflexivity. }
  rewrite Hif. reflexivity.
Qed.

Lemma declared_kind_some sc n : declared sc n = true -> kind_of sc n <> None.
Proof.
  unfold declared, kind_of. destruct (builtin_scalar n); [discriminate|].
  destruct (find_type n (s_types sc)); discriminate.
Qed.

Section FlattenAgree.
  Variables sc sc' : schema.
  Variable frags : list fragment.
  Variables vars vars' : list (bytes * json).
  Variable A : name -> bool.
  Hypothesis HK : forall n, declared sc' n = true -> kind_of sc' n = kind_of sc n.
  Hypothesis HT : forall o c, declared_obj sc' o = true -> declared sc' c = true ->
                              type_applies sc' o c = type_applies sc o c.
  Hypothesis HA : forall n, A n = true -> assoc n vars' = assoc n vars.
  Hypothesis Hfr : frags_syn sc' A frags = true.

  Lemma flatten_agree : forall f objty sels,
      declared_obj sc' objty = true -> sels_syn sc' A sels = true ->
      flatten sc' frags vars' f objty sels = flatten sc frags vars f objty sels.
  Proof.
    induction f as [|f IH]; intros objty sels Ho Hs; [reflexivity|].
    destruct sels as [|s rest]; [reflexivity|].
    rewrite !flatten_S_cons. cbn [sels_syn forallb] in Hs. apply andb_true_iff in Hs. destruct Hs as [Hs Hrest].
    rewrite (IH objty rest Ho Hrest). f_equal.
    destruct s as [a n args dirs ss|cond dirs ss|n dirs]; cbn [flat_here sel_syn] in *.
    - apply andb_true_iff in Hs. destruct Hs as [Hs _]. apply andb_true_iff in Hs. destruct Hs as [_ Hd].
      rewrite (included_agree A vars vars' dirs HA Hd). reflexivity.
    - apply andb_true_iff in Hs. destruct Hs as [Hs Hss]. apply andb_true_iff in Hs. destruct Hs as [Hc Hd].
      rewrite (included_agree A vars vars' dirs HA Hd).
      destruct (negb (included vars dirs)); [reflexivity|].
      destruct cond as [c|]; [|apply IH; assumption].
      rewrite (HK c Hc). pose proof (declared_kind_some sc' c Hc) as Hk. rewrite (HK c Hc) in Hk.
      destruct (kind_of sc c); [|contradiction].
      rewrite (HT objty c Ho Hc). destruct (type_applies sc objty c); [apply IH; assumption|reflexivity].
    - rewrite (included_agree A vars vars' dirs HA Hs).
      destruct (negb (included vars dirs)); [reflexivity|].
      destruct (find_frag n frags) as [fr|] eqn:Ef; [|reflexivity].
      destruct (frags_syn_find sc' A frags n fr Hfr Ef) as [Hc Hss].
      rewrite (HT objty (fr_type fr) Ho Hc). destruct (type_applies sc objty (fr_type fr)); [apply IH; assumption|reflexivity].
  Qed.
End FlattenAgree.

(* ---- coerce / coerce_args ---- *)
Definition coerce_obj_go (S : schema) (vars : list (bytes * json)) (cf : ty -> json -> json) (m : list (bytes * json)) :=
  fix go (defs : list inputvalue_def) : list (bytes * json) :=
    match defs with
    | [] => []
    | d :: r =>
      match obj_get (iv_name d) m with
      | Some v => (iv_name d, cf (iv_type d) v) :: go r
      | None =>
        match iv_default d with
        | Some dv => match lit_json vars dv with
                     | Some v => (iv_name d, cf (iv_type d) v) :: go r
                     | None => go r
                     end
        | None => go r
        end
      end
    end.

Lemma coerce_S S vars f t j :
  coerce S vars (Datatypes.S f) t j =
  match t with
  | TNonNull t' => coerce S vars f t' j
  | TList t' =>
    match j with
    | JNull => JNull
    | JArr items => JArr (map (coerce S vars f t') items)
    | _ => JArr [coerce S vars f t' j]
    end
  | TNamed n =>
    match find_type n (s_types S) with
    | Some td =>
      match td_kind td, j with
      | KInputObject, JObj m => JObj (coerce_obj_go S vars (coerce S vars f) m (td_input_fields td))
      | _, _ => j
      end
    | None => j
    end
  end.
Proof. destruct t; reflexivity. Qed.

Lemma coerce_args_cons S vars d r args :
  coerce_args S vars (d :: r) args =
  match (match assoc (iv_name d) args with Some v => lit_json vars v | None => None end) with
  | Some j => (iv_name d, coerce S vars 16 (iv_type d) j) :: coerce_args S vars r args
  | None =>
    match iv_default d with
    | Some dv => match lit_json vars dv with
                 | Some j => (iv_name d, coerce S vars 16 (iv_type d) j) :: coerce_args S vars r args
                 | None => coerce_args S vars r args
                 end
    | None => coerce_args S vars r args
    end
  end.
Proof. reflexivity. Qed.

Section CoerceAgree.
  Variables sc sc' : schema.
  Variables vars vars' : list (bytes * json).
  Variable A : name -> bool.
  Hypothesis Hwf : config_wf_b sc sc' = true.
  Hypothesis HA : forall n, A n = true -> assoc n vars' = assoc n vars.

  Lemma coerce_obj_go_agree (cf cf' : ty -> json -> json) m : forall defs' defs,
      map iv_core defs' = map iv_core defs -> ivs_ok sc' defs' = true ->
      (forall t v, type_ref_ok sc' (named_of t) = true -> cf' t v = cf t v) ->
      coerce_obj_go sc' vars' cf' m defs' = coerce_obj_go sc vars cf m defs.
  Proof.
    induction defs' as [|d' r' IH]; intros [|d r] Hc Hok Hcf; cbn [map] in Hc; try discriminate; [reflexivity|].
    injection Hc as Hn Hty Hdef Hr.
    cbn [ivs_ok forallb] in Hok. apply andb_true_iff in Hok. destruct Hok as [Hd1 Hok].
    apply andb_true_iff in Hd1. destruct Hd1 as [Href Hcl].
    cbn [coerce_obj_go]. fold (coerce_obj_go sc' vars' cf' m). fold (coerce_obj_go sc vars cf m).
    rewrite (IH r Hr Hok Hcf). rewrite Hn, <- Hty, <- Hdef.
    destruct (obj_get (iv_name d) m) as [v|]; [rewrite (Hcf _ v Href); reflexivity|].
    destruct (iv_default d') as [dv|]; [|reflexivity].
    rewrite (lit_json_closed vars vars' dv Hcl). destruct (lit_json vars dv) as [v|]; [rewrite (Hcf _ v Href)|]; reflexivity.
  Qed.

  Lemma coerce_agree : forall fuel t j,
      type_ref_ok sc' (named_of t) = true -> coerce sc' vars' fuel t j = coerce sc vars fuel t j.
  Proof.
    induction fuel as [|f IH]; intros t j Hr; [reflexivity|]. rewrite !coerce_S.
    destruct t as [n|t'|t']; cbn [named_of] in Hr.
    - destruct (find_type n (s_types sc')) as [td'|] eqn:E'.
      + destruct (wf_input sc sc' Hwf n td' E') as (td & -> & Hk & Hok & Hc). rewrite <- Hk.
        destruct (td_kind td'); try reflexivity. destruct j; try reflexivity.
        f_equal. apply coerce_obj_go_agree; [exact Hc|exact Hok|]. intros t v Ht. apply IH. exact Ht.
      + unfold type_ref_ok, declared in Hr. rewrite E' in Hr. rewrite orb_false_r in Hr.
        destruct (find_type n (s_types sc)) as [td|] eqn:E; [|reflexivity].
        pose proof (wf_builtin sc sc' Hwf) as HB. rewrite forallb_forall in HB.
        destruct (find_type_In _ _ _ E) as [Hin Hname]. specialize (HB td Hin). rewrite Hname, Hr in HB. cbn in HB.
        destruct (td_kind td); try reflexivity; try discriminate; destruct j; reflexivity.
    - destruct j; try (f_equal; f_equal; apply IH; exact Hr); [reflexivity|].
      f_equal. apply map_ext. intros x. apply IH. exact Hr.
    - apply IH. exact Hr.
  Qed.

  Lemma coerce_args_agree args : forall defs' defs,
      map iv_core defs' = map iv_core defs -> ivs_ok sc' defs' = true -> args_vars_in A args = true ->
      coerce_args sc' vars' defs' args = coerce_args sc vars defs args.
  Proof.
    induction defs' as [|d' r' IH]; intros [|d r] Hc Hok Ha; cbn [map] in Hc; try discriminate; [reflexivity|].
    injection Hc as Hn Hty Hdef Hr.
    cbn [ivs_ok forallb] in Hok. apply andb_true_iff in Hok. destruct Hok as [Hd1 Hok].
    apply andb_true_iff in Hd1. destruct Hd1 as [Href Hcl].
    rewrite !coerce_args_cons. rewrite (IH r Hr Hok Ha). rewrite Hn, <- Hty, <- Hdef.
    assert (Hsup : match assoc (iv_name d) args with Some v => lit_json vars' v | None => None end =
                   match assoc (iv_name d) args with Some v => lit_json vars v | None => None end).
    { destruct (assoc (iv_name d) args) as [v|] eqn:Ea; [|reflexivity]. apply assoc_In in Ea.
      unfold args_vars_in in Ha. rewrite forallb_forall in Ha. specialize (Ha _ Ea). cbn [snd] in Ha.
      apply (lit_json_agree A vars vars' HA v Ha). }
    rewrite Hsup. destruct (match assoc (iv_name d) args with Some v => lit_json vars v | None => None end).
    - rewrite (coerce_agree 16 _ _ Href). reflexivity.
    - destruct (iv_default d') as [dv|]; [|reflexivity].
      rewrite (lit_json_closed vars vars' dv Hcl). destruct (lit_json vars dv); [rewrite (coerce_agree 16 _ _ Href)|]; reflexivity.
  Qed.
End CoerceAgree.

(* ---- the request is executable on the subgraph: a type-level dry run of execution ---- *)
Section ReqOk.
  Variable sc' : schema.
  Variable frags : list fragment.
  Variable vars : list (bytes * json).

  (* one field group on an object of type [objty]: the field exists on [objty] in sc'; if its type
     is composite, the merged sub-selections are executable on every possible object type *)
  Definition dry_field (rec : name -> list selection -> bool) (objty : name) (s : selection) (subs : list selection) : bool :=
    match s with
    | SField _ fname _ _ _ =>
      bytes_eqb fname s_typename ||
      match find_type objty (s_types sc') with
      | None => false
      | Some td =>
        match find_field fname (td_fields td) with
        | None => false
        | Some fd =>
          let n := named_of (fd_type fd) in
          match is_leaf_kind sc' n with
          | Some true => true
          | Some false =>
            forallb (fun to => negb (is_obj_kind (td_kind to) && possible sc' n (td_name to)) || rec (td_name to) subs)
                    (s_types sc')
          | None => false
          end
        end
      end
    | _ => false
    end.

  Fixpoint dry (k : nat) (objty : name) (sels : list selection) : bool :=
    match k with
    | O => false
    | S k' =>
      match flatten sc' frags vars (S k') objty sels with
      | FlatBad _ => false
      | FlatOk fl => forallb (fun g : grp => dry_field (dry k') objty (snd (fst g)) (snd g)) (groups fl)
      end
    end.

  (* [req_ok_b]: type conditions declared, variables within A, every selected field exists *)
  Definition req_ok_b (A : name -> bool) (k : nat) (objty : name) (sels : list selection) : bool :=
    frags_syn sc' A frags && sels_syn sc' A sels && declared_obj sc' objty && dry k objty sels.
End ReqOk.

Lemma sels_go_ext (ef ef' : name -> selection -> list selection -> list pel -> cres) path gs :
  Forall (fun g : grp => forall p, ef' (fst (fst g)) (snd (fst g)) (snd g) p = ef (fst (fst g)) (snd (fst g)) (snd g) p) gs ->
  sels_go ef' path gs = sels_go ef path gs.
Proof.
  induction gs as [|[[key s] subs] rest IH]; intros HF; [reflexivity|].
  inversion HF as [|? ? Hg Hrest]; subst. cbn [fst snd] in Hg. cbn [sels_go]. rewrite Hg, (IH Hrest). reflexivity.
Qed.
Lemma lst_loop_ext_in (cf cf' : fval -> list pel -> cres) path items :
  (forall it p, In it items -> cf' it p = cf it p) ->
  forall i, lst_loop cf' path i items = lst_loop cf path i items.
Proof.
  induction items as [|it rest IH]; intros H i; [reflexivity|].
  cbn [lst_loop]. rewrite (H it _ (or_introl eq_refl)). rewrite IH; [reflexivity|].
  intros it' p Hin. apply H. right. exact Hin.
Qed.

Lemma refs_ok_item sc' l it : refs_ok sc' (FLst l) = true -> In it l -> refs_ok sc' it = true.
Proof.
  unfold refs_ok. cbn [fval_refs]. intros H Hin. rewrite forallb_forall in *. intros x Hx. apply H.
  apply in_flat_map. exists it. split; assumption.
Qed.
Lemma refs_ok_map_FSc sc' js : refs_ok sc' (FLst (map FSc js)) = true.
Proof. unfold refs_ok. cbn [fval_refs]. induction js as [|j js IH]; [reflexivity|]. cbn. exact IH. Qed.

Section CtxAgree.
  Variables sc sc' : schema.
  Variable U : universe.
  Variable frags : list fragment.
  Variables vars vars' : list (bytes * json).
  Variable A : name -> bool.
  Hypothesis Hwf : config_wf_b sc sc' = true.
  Hypothesis Huniv : univ_ok_b sc' U = true.
  Hypothesis HA : forall n, A n = true -> assoc n vars' = assoc n vars.
  Hypothesis Hfr : frags_syn sc' A frags = true.

  Notation es' := (exec_sels sc' U frags vars' Mono).
  Notation es := (exec_sels sc U frags vars Mono).
  Notation ef' := (exec_field sc' U frags vars' Mono).
  Notation ef := (exec_field sc U frags vars Mono).
  Notation co' := (complete sc' U frags vars' Mono).
  Notation co := (complete sc U frags vars Mono).
  Notation dry' := (dry sc' frags vars).

  Lemma HKd : forall n, declared sc' n = true -> kind_of sc' n = kind_of sc n.
  Proof. apply (wf_kind_of_decl sc sc' Hwf). Qed.
  Lemma HTd : forall o c, declared_obj sc' o = true -> declared sc' c = true -> type_applies sc' o c = type_applies sc o c.
  Proof. apply (wf_type_applies sc sc' Hwf). Qed.

  Lemma flatten_ctx f objty sels :
    declared_obj sc' objty = true -> sels_syn sc' A sels = true ->
    flatten sc' frags vars' f objty sels = flatten sc frags vars f objty sels.
  Proof. apply (flatten_agree sc sc' frags vars vars' A HKd HTd HA Hfr). Qed.
  Lemma flatten_ref f objty sels :
    declared_obj sc' objty = true -> sels_syn sc' A sels = true ->
    flatten sc' frags vars f objty sels = flatten sc frags vars f objty sels.
  Proof.
    apply (flatten_agree sc sc' frags vars vars A HKd HTd); [reflexivity|exact Hfr].
  Qed.

  Lemma univ_ent e : In e U -> ent_ok_b sc' e = true.
  Proof. intros H. unfold univ_ok_b in Huniv. rewrite forallb_forall in Huniv. apply Huniv. exact H. Qed.

  Definition type_chk (k : nat) (n : name) (subs : list selection) : Prop :=
    match is_leaf_kind sc' n with
    | Some true => True
    | Some false => forall o, declared_obj sc' o = true -> possible sc' n o = true -> dry' k o subs = true
    | None => False
    end.

  Definition ctx_at (f : nat) : Prop :=
    (forall k objty e ro sels path,
        declared_obj sc' objty = true -> ent_ok_b sc' e = true -> en_type e = objty ->
        sels_syn sc' A sels = true -> dry' k objty sels = true ->
        es' f objty {| ov_ent := e; ov_repr := ro |} sels path = es f objty {| ov_ent := e; ov_repr := ro |} sels path) /\
    (forall k objty e ro key s subs path,
        declared_obj sc' objty = true -> ent_ok_b sc' e = true -> en_type e = objty ->
        sel_syn sc' A s = true -> sels_syn sc' A subs = true -> dry_field sc' (dry' k) objty s subs = true ->
        ef' f objty {| ov_ent := e; ov_repr := ro |} key s subs path = ef f objty {| ov_ent := e; ov_repr := ro |} key s subs path) /\
    (forall k t e ro fname cargs fv subs path,
        sels_syn sc' A subs = true -> refs_ok sc' fv = true ->
        type_ref_ok sc' (named_of t) = true -> type_chk k (named_of t) subs ->
        co' f t {| ov_ent := e; ov_repr := ro |} fname cargs fv subs path = co f t {| ov_ent := e; ov_repr := ro |} fname cargs fv subs path).

  Lemma ctx_all : forall f, ctx_at f.
  Proof.
    induction f as [|f [IHs [IHf IHc]]].
    - split; [|split]; intros; reflexivity.
    - split; [|split].
      + (* exec_sels *)
        intros k objty e ro sels path Ho He HT Hs Hd. rewrite !exec_sels_S.
        rewrite (flatten_ctx (S f) objty sels Ho Hs).
        destruct (flatten sc frags vars (S f) objty sels) as [fl|er] eqn:Efl; [|reflexivity].
        (* the dry run saw the same flattened list *)
        destruct k as [|k']; [discriminate|]. cbn [dry] in Hd.
        destruct (flatten sc' frags vars (S k') objty sels) as [fl0|] eqn:Efl0; [|discriminate].
        assert (Hfl' : flatten sc' frags vars (S f) objty sels = FlatOk fl) by (rewrite flatten_ref; assumption).
        assert (Heq : fl0 = fl).
        { destruct (Nat.le_ge_cases (S f) (S k')) as [Hle|Hle].
          - pose proof (flatten_mono_ok sc' frags vars _ _ objty sels fl Hle Hfl') as H. rewrite Efl0 in H. congruence.
          - pose proof (flatten_mono_ok sc' frags vars _ _ objty sels fl0 Hle Efl0) as H. rewrite Hfl' in H. congruence. }
        subst fl0. fold (groups fl).
        apply sels_go_ext.
        assert (Hsyn : sels_syn sc' A fl = true).
        { apply (flatten_pred (sel_syn sc' A) (sel_syn_children sc' A) sc' frags vars) with (f := S f) (objty := objty) (sels := sels);
            [|exact Hs|exact Hfl'].
          intros n fr Hf. apply (frags_syn_find sc' A frags n fr Hfr Hf). }
        pose proof (groups_pred (sel_syn sc' A) (sel_syn_children sc' A) fl Hsyn) as HG.
        rewrite forallb_forall in Hd. rewrite Forall_forall in *.
        intros [[key s] subs] Hg p. cbn [fst snd]. destruct (HG _ Hg) as [Hs1 Hs2]. cbn [fst snd] in Hs1, Hs2.
        apply (IHf k'); try assumption. apply (Hd _ Hg).
      + (* exec_field *)
        intros k objty e ro key s subs path Ho He HT Hs Hsubs Hd. rewrite !exec_field_S.
        destruct s as [a fname args dirs ss| |]; try reflexivity.
        cbn [dry_field] in Hd. destruct (bytes_eqb fname s_typename); [reflexivity|]. cbn [orb] in Hd.
        unfold is_entities.
        destruct (find_type objty (s_types sc')) as [td'|] eqn:Et'; [|discriminate].
        destruct (find_field fname (td_fields td')) as [fd'|] eqn:Ef'; [|discriminate].
        destruct (wf_field sc sc' Hwf objty td' fname fd' Et' Ef') as (Href & Hivs & td & fd & -> & -> & Hty & Hcore).
        cbn [sel_syn] in Hs. apply andb_true_iff in Hs. destruct Hs as [Hs _]. apply andb_true_iff in Hs. destruct Hs as [Hargs _].
        rewrite (coerce_args_agree sc sc' vars vars' A Hwf HA args (fd_args fd') (fd_args fd) Hcore Hivs Hargs).
        rewrite <- Hty.
        apply (IHc k); [exact Hsubs| |exact Href|].
        * rewrite <- HT in Et'. apply (ent_ok_field sc' e ro td' fname fd' He Et' Ef').
        * unfold type_chk. cbv zeta in Hd. destruct (is_leaf_kind sc' (named_of (fd_type fd'))) as [[|]|]; [exact I| |discriminate].
          intros o Hdo Hpos. rewrite forallb_forall in Hd. unfold declared_obj in Hdo.
          destruct (find_type o (s_types sc')) as [to|] eqn:Eo; [|discriminate].
          destruct (find_type_In _ _ _ Eo) as [Hin Hname]. specialize (Hd to Hin). rewrite Hname, Hdo, Hpos in Hd. exact Hd.
      + (* complete *)
        intros k t e ro fname cargs fv subs path Hsubs Hrefs Href Hchk. rewrite !complete_S.
        destruct t as [n|t'|t']; cbn [named_of] in Href, Hchk.
        * rewrite <- (wf_is_leaf_kind sc sc' Hwf n Href). unfold type_chk in Hchk.
          destruct (is_leaf_kind sc' n) as [[|]|] eqn:Elk; [reflexivity| |reflexivity].
          unfold complete_obj.
          destruct (obj_target U cargs fv) as [[e'|]|] eqn:Etg; try reflexivity.
          (* the target entity has an sc'-declared object type and belongs to U *)
          assert (Htgt : In e' U /\ declared_obj sc' (en_type e') = true).
          { unfold obj_target in Etg. unfold refs_ok in Hrefs.
            destruct fv as [j|t0 k0| |l| | |t0 a0|fs]; try discriminate.
            - destruct j; discriminate.
            - cbn [fval_refs forallb] in Hrefs. rewrite andb_true_r in Hrefs.
              destruct (find_entity U t0 k0) as [e0|] eqn:Efe; [|discriminate]. injection Etg as <-.
              destruct (find_entity_In _ _ _ _ Efe) as [H1 H2]. rewrite H2. split; assumption.
            - cbn [fval_refs forallb] in Hrefs. rewrite andb_true_r in Hrefs.
              destruct (assoc a0 cargs) as [j|]; [|discriminate]. injection Etg as Etg.
              destruct (find_entity_In _ _ _ _ Etg) as [H1 H2]. rewrite H2. split; assumption. }
          destruct Htgt as [HinU Hdo].
          assert (Hdn : declared sc' n = true).
          { unfold type_ref_ok in Href. unfold is_leaf_kind, kind_of in Elk.
            destruct (builtin_scalar n); [discriminate|]. exact Href. }
          assert (Hok : obj_type_ok sc' n e' = obj_type_ok sc n e').
          { unfold obj_type_ok. rewrite <- (HKd n Hdn).
            destruct (kind_of sc' n); [|reflexivity]. unfold possible. rewrite (HTd _ _ Hdo Hdn). reflexivity. }
          rewrite <- Hok. destruct (obj_type_ok sc' n e') eqn:Eok; cbn [negb]; [|reflexivity].
          rewrite (IHs k (en_type e') e' None subs path Hdo (univ_ent e' HinU) eq_refl Hsubs); [reflexivity|].
          apply Hchk; [exact Hdo|].
          unfold obj_type_ok in Eok. pose proof (declared_kind_some sc' n Hdn) as Hk.
          destruct (kind_of sc' n); [exact Eok|contradiction].
        * destruct fv as [j|t0 k0| |l| | |t0 a0|fs]; try reflexivity.
          -- destruct j; try reflexivity.
             apply (IHc k); [exact Hsubs|apply refs_ok_map_FSc|exact Href|exact Hchk].
          -- rewrite (lst_loop_ext_in (fun it p => co f t' {| ov_ent := e; ov_repr := ro |} fname cargs it subs p)
                                      (fun it p => co' f t' {| ov_ent := e; ov_repr := ro |} fname cargs it subs p)); [reflexivity|].
             intros it p Hin. apply (IHc k); [exact Hsubs|apply (refs_ok_item sc' l it Hrefs Hin)|exact Href|exact Hchk].
        * rewrite (IHc k t' e ro fname cargs fv subs path Hsubs Hrefs Href Hchk). reflexivity.
  Qed.

  (* (1) context agreement *)
  Theorem req_ok_sound_gen k objty e ro sels path :
    req_ok_b sc' frags vars A k objty sels = true -> In e U -> en_type e = objty ->
    forall fuel,
      exec_sels sc' U frags vars' Mono fuel objty {| ov_ent := e; ov_repr := ro |} sels path =
      exec_sels sc U frags vars Mono fuel objty {| ov_ent := e; ov_repr := ro |} sels path.
  Proof.
    unfold req_ok_b. intros H Hin HT fuel.
    apply andb_true_iff in H. destruct H as [H Hd]. apply andb_true_iff in H. destruct H as [H Ho].
    apply andb_true_iff in H. destruct H as [_ Hs].
    apply (ctx_all fuel) with (k := k); try assumption. apply univ_ent. exact Hin.
  Qed.
End CtxAgree.
