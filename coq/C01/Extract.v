(* C01: the differential verdict data_equal is computed by the extracted json_eqb of lib/Json.v
   (the same function the reference executor's correspondence theorems are stated with). *)
From Gv Require Import lib.Bytes lib.Json lib.ExtractAnchor.
Require Import ExtrOcamlBasic.
Extraction Language OCaml.
Extraction "model.ml" extraction_anchor json_eqb.
