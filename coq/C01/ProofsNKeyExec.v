(* C01 / (6): executing nested key selections  nk { code ... }  on an entity: the member is the representation member. *)
From Coq Require Import PeanoNat Lia.
From Gv Require Import lib.Bytes lib.Json lib.Gql lib.Exec
     C01.ProofsBase C01.ProofsFuel C01.ProofsFuelSuff C01.ProofsSplit C01.ProofsSim C01.ProofsJoin C01.ProofsOverlap
     C01.ProofsTwoStep C01.ProofsViol C01.ProofsPlanAlg C01.ProofsPlan C01.ProofsPlan2Root C01.ProofsCtxBase
     C01.ProofsPlan3Keys C01.ProofsNKeyDefs.
Open Scope N_scope.

(* the inner names of a nested key field are pairwise distinct.  NEEDED: with a repeated inner name the executor
   answers one member per response key, while [repr_members] lists one member per occurrence. *)
Definition ninner_distinct_b (kn : name * list name) : bool := keys_distinct (map key_sel (snd kn)).

(* ---- groups of distinctly keyed fields: one group per field, in order ---- *)
Lemma groups_keys_distinct : forall l,
    keys_distinct l = true -> map (fun g : grp => fst (fst g)) (groups l) = map sel_key l.
Proof.
  induction l as [|s l IH]; intros H; [reflexivity|].
  cbn [keys_distinct] in H. apply andb_true_iff in H. destruct H as [H1 H2]. apply negb_true_iff in H1.
  rewrite groups_cons. cbn [map fst]. f_equal.
  rewrite (filter_all (fun x => negb (same_key (sel_key s) x)) l).
  - apply IH. exact H2.
  - unfold has_key in H1. rewrite <- H1. apply existsb_ext'. intros x. apply negb_involutive.
Qed.

Lemma sel_key_key_sels (l : list name) : map sel_key (map key_sel l) = l.
Proof. induction l as [|k l IH]; [reflexivity|]. cbn [map]. rewrite IH. reflexivity. Qed.

Lemma has_key_key_sels k l : has_key k (map key_sel l) = true <-> In k l.
Proof. rewrite has_key_In, sel_key_key_sels. tauto. Qed.

Lemma NoDup_keys_distinct (l : list name) : NoDup l -> keys_distinct (map key_sel l) = true.
Proof.
  induction 1 as [|k l Hk _ IH]; [reflexivity|]. cbn [map keys_distinct]. rewrite IH, andb_true_r.
  apply negb_true_iff. destruct (has_key (sel_key (key_sel k)) (map key_sel l)) eqn:E; [|reflexivity].
  apply has_key_key_sels in E. cbn in E. contradiction.
Qed.
Lemma keys_distinct_NoDup (l : list name) : keys_distinct (map key_sel l) = true -> NoDup l.
Proof.
  induction l as [|k l IH]; intros H; [constructor|]. cbn [map keys_distinct] in H.
  apply andb_true_iff in H. destruct H as [H1 H2]. apply negb_true_iff in H1. constructor; [|apply IH; exact H2].
  intros Hin. apply (has_key_key_sels k l) in Hin. cbn [sel_key key_sel response_name] in H1. rewrite Hin in H1. discriminate.
Qed.

Lemma plain_nsels kn : plain_sels (nsels kn).
Proof.
  unfold plain_sels, nsels. apply Forall_forall. intros s Hs. apply in_map_iff in Hs. destruct Hs as (x & <- & _).
  unfold nsel. repeat eexists.
Qed.
Lemma plain_key_sel_list (l : list name) : plain_sels (map key_sel l).
Proof.
  unfold plain_sels. apply Forall_forall. intros s Hs. apply in_map_iff in Hs. destruct Hs as (k & <- & _).
  exists None, k, [], []. reflexivity.
Qed.

(* ---- sizes and the generic fuel bound ---- *)
Lemma sels_size_key_sel_list (l : list name) : sels_size (map key_sel l) = length l.
Proof. induction l as [|k l IH]; [reflexivity|]. cbn [map length]. rewrite sels_size_cons, IH. reflexivity. Qed.
Lemma sel_size_nsel kn : sel_size (nsel kn) = S (length (snd kn)).
Proof. unfold nsel. rewrite sel_size_field, sels_size_key_sel_list. reflexivity. Qed.
Lemma sels_size_nsels_in kn x : In x kn -> (sel_size (nsel x) <= sels_size (nsels kn))%nat.
Proof.
  induction kn as [|y kn IH]; intros Hin; [destruct Hin|]. unfold nsels in *. cbn [map]. rewrite sels_size_cons.
  destruct Hin as [->|Hin]; [|specialize (IH Hin)]; lia.
Qed.
Lemma sels_size_length l : (length l <= sels_size l)%nat.
Proof.
  induction l as [|s l IH]; [apply le_n|]. rewrite sels_size_cons. cbn [length]. pose proof (sel_size_pos s). lia.
Qed.
Lemma fuel_bound_ge sc sels : (sels_size sels + 1 <= fuel_bound sc sels)%nat.
Proof. unfold fuel_bound, level_cost. apply arith_flat. Qed.

Lemma nsel_bound_arith sc kn C : (fuel_bound sc [nsel kn] + 6 <= C)%nat -> (length (snd kn) + 8 <= C)%nat.
Proof.
  intros H. pose proof (fuel_bound_ge sc [nsel kn]) as G. rewrite sels_size_cons, sels_size_nil, sel_size_nsel in G.
  clear - H G. lia.
Qed.
Lemma nsels_bound_arith sc kn C :
  (fuel_bound sc (nsels kn) + 6 <= C)%nat ->
  (length kn < C)%nat /\ forall x, In x kn -> (length (snd x) + 8 <= C)%nat.
Proof.
  intros H. pose proof (fuel_bound_ge sc (nsels kn)) as G. split.
  - pose proof (sels_size_length (nsels kn)) as L. unfold nsels in L at 1. rewrite map_length in L. clear - H G L. lia.
  - intros x Hx. pose proof (sels_size_nsels_in kn x Hx) as L. rewrite sel_size_nsel in L. clear - H G L. lia.
Qed.

Section NKeyExec.
  Variable sc : schema.
  Variable U : universe.
  Variable vars : list (bytes * json).
  Notation mexv C e sels p := (exec_sels sc U [] vars Mono C (en_type e) {| ov_ent := e; ov_repr := None |} sels p).

  (* what the boolean contract says *)
  Lemma nkey_ok_inv e kn :
    nkey_ok_b sc U e kn = true ->
    exists td fd (nn : bool) T' t' k' e',
      bytes_eqb (fst kn) s_typename = false /\
      find_type (en_type e) (s_types sc) = Some td /\
      find_field (fst kn) (td_fields td) = Some fd /\
      fd_type fd = (if nn then TNonNull (TNamed T') else TNamed T') /\
      is_leaf_kind sc T' = Some false /\
      assoc (fst kn) (en_fields e) = Some (FRef t' k') /\
      find_entity U t' k' = Some e' /\
      nref U e (fst kn) = Some e' /\
      obj_type_ok sc T' e' = true /\
      forallb (key_field_ok sc e') (snd kn) = true.
  Proof.
    unfold nkey_ok_b. intros H. apply andb_true_iff in H. destruct H as [Hn H]. apply negb_true_iff in Hn.
    destruct (find_type (en_type e) (s_types sc)) as [td|]; [|discriminate].
    destruct (find_field (fst kn) (td_fields td)) as [fd|] eqn:Efd; [|discriminate].
    assert (G : forall T', (match is_leaf_kind sc T' with Some false => true | _ => false end &&
                            match nref U e (fst kn) with
                            | Some e' => obj_type_ok sc T' e' && forallb (key_field_ok sc e') (snd kn)
                            | None => false
                            end) = true ->
                           exists t' k' e',
                             is_leaf_kind sc T' = Some false /\
                             assoc (fst kn) (en_fields e) = Some (FRef t' k') /\
                             find_entity U t' k' = Some e' /\
                             nref U e (fst kn) = Some e' /\
                             obj_type_ok sc T' e' = true /\
                             forallb (key_field_ok sc e') (snd kn) = true).
    { clear. intros T' H. apply andb_true_iff in H. destruct H as [Hl H].
      destruct (is_leaf_kind sc T') as [[|]|]; try discriminate.
      destruct (nref U e (fst kn)) as [e'|] eqn:En; [|discriminate].
      apply andb_true_iff in H. destruct H as [Ho Hi].
      pose proof En as En'. unfold nref in En'.
      destruct (assoc (fst kn) (en_fields e)) as [[j|t' k'| |l| | |t0 a|fs]|]; try discriminate.
      exists t', k', e'. repeat split; assumption. }
    destruct (fd_type fd) as [T'|t|[T'|t|t]] eqn:Ety; try discriminate.
    - destruct (G T' H) as (t' & k' & e' & G1 & G2 & G3 & G4 & G5 & G6).
      exists td, fd, false, T', t', k', e'. repeat split; assumption.
    - destruct (G T' H) as (t' & k' & e' & G1 & G2 & G3 & G4 & G5 & G6).
      exists td, fd, true, T', t', k', e'. repeat split; assumption.
  Qed.

  Lemma inner_key_ok e' (l : list name) :
    forallb (key_field_ok sc e') l = true ->
    Forall (fun x => exists k, x = key_sel k /\ key_ok sc e' k = true) (map key_sel l).
  Proof.
    intros H. apply Forall_forall. intros s Hs. apply in_map_iff in Hs. destruct Hs as (k & <- & Hk).
    exists k. split; [reflexivity|]. rewrite forallb_forall in H. unfold key_ok. rewrite (H k Hk). apply orb_true_r.
  Qed.

  (* (1), general form: no distinctness of the inner names; the object has one member per group of inner names *)
  Lemma exec_nsel_groups e kn p C :
    nkey_ok_b sc U e kn = true -> (length (snd kn) + 8 <= C)%nat ->
    exists e', nref U e (fst kn) = Some e' /\ forallb (key_field_ok sc e') (snd kn) = true /\
      mexv C e [nsel kn] p =
      (Some [(fst kn, JObj (map (fun g : grp => (fst (fst g), key_val e' (fst (fst g))))
                                (groups (map key_sel (snd kn)))))], []).
  Proof.
    intros Hok HC.
    destruct (nkey_ok_inv e kn Hok)
      as (td & fd & nn & T' & t' & k' & e' & Hname & Htd & Hfd & Hty & Hcomp & Ha & Hfe & Hnr & Hto & Hin).
    exists e'. split; [exact Hnr|]. split; [exact Hin|].
    set (c := (length (snd kn) + 4)%nat).
    assert (Hat : mexv (hop_fuel nn c) e [nsel kn] p =
                  (Some [(fst kn, JObj (map (fun g : grp => (fst (fst g), key_val e' (fst (fst g))))
                                            (groups (map key_sel (snd kn)))))], [])).
    { unfold nsel.
      rewrite (hop_exec sc U [] vars (en_type e) {| ov_ent := e; ov_repr := None |} None (fst kn) [] [] p nn T' td fd
                        Hname Htd Hfd Hty Hcomp c).
      cbn [included]. unfold complete_obj, hop_fv, field_fval. cbn [ov_ent]. rewrite Ha. cbn [obj_target].
      rewrite Hfe, Hto. cbn [negb].
      rewrite (exec_sels_flat sc U [] vars Mono c (en_type e') {| ov_ent := e'; ov_repr := None |}
                              (map key_sel (snd kn)) _ (map key_sel (snd kn))).
      2:{ apply flatten_plain_fields; [apply plain_key_sel_list|]. rewrite map_length. unfold c. clear. lia. }
      rewrite (keys_exec_flat sc U [] vars e' (snd kn) Hin (map key_sel (snd kn)) c);
        [|apply inner_key_ok; exact Hin|unfold c; clear; lia].
      unfold field_result, nonnull_wrap, hop_key. cbn [response_name].
      destruct nn; reflexivity. }
    rewrite <- Hat. apply exec_sels_fuel_mono.
    - unfold hop_fuel, c. clear - HC. destruct nn; lia.
    - rewrite Hat. reflexivity.
  Qed.

  (* (4) the shape of the representation member *)
  Lemma nmember_shape e kn :
    nkey_ok_b sc U e kn = true ->
    exists e', nref U e (fst kn) = Some e' /\ In e' U /\
               nmember U e kn = [(fst kn, JObj (map (fun i => (i, key_val e' i)) (snd kn)))].
  Proof.
    intros Hok.
    destruct (nkey_ok_inv e kn Hok)
      as (td & fd & nn & T' & t' & k' & e' & Hname & Htd & Hfd & Hty & Hcomp & Ha & Hfe & Hnr & Hto & Hin).
    exists e'. split; [exact Hnr|]. split; [apply (find_entity_In _ _ _ _ Hfe)|].
    unfold nmember. rewrite Hnr, (repr_members_keys sc e' (snd kn) Hin). reflexivity.
  Qed.

  (* (1) *)
  Lemma exec_nsel_len e kn p C :
    nkey_ok_b sc U e kn = true -> ninner_distinct_b kn = true -> (length (snd kn) + 8 <= C)%nat ->
    mexv C e [nsel kn] p = (Some (nmember U e kn), []).
  Proof.
    intros Hok Hd HC. destruct (exec_nsel_groups e kn p C Hok HC) as (e' & Hnr & Hin & ->).
    unfold nmember. rewrite Hnr, (repr_members_keys sc e' (snd kn) Hin).
    unfold ninner_distinct_b in Hd.
    rewrite <- (map_map (fun g : grp => fst (fst g)) (fun k => (k, key_val e' k))).
    rewrite (groups_keys_distinct _ Hd), sel_key_key_sels. reflexivity.
  Qed.

  Lemma exec_nsel e kn p C :
    nkey_ok_b sc U e kn = true -> ninner_distinct_b kn = true -> (fuel_bound sc [nsel kn] + 6 <= C)%nat ->
    mexv C e [nsel kn] p = (Some (nmember U e kn), []).
  Proof. intros Hok Hd HC. apply exec_nsel_len; [exact Hok|exact Hd|apply (nsel_bound_arith sc); exact HC]. Qed.

  (* (2) *)
  Lemma fold_nsels e kn p C :
    forallb (nkey_ok_b sc U e) kn = true -> forallb ninner_distinct_b kn = true ->
    (forall x, In x kn -> (length (snd x) + 8 <= C)%nat) ->
    fold_right (fun s acc => split_merge (mexv C e [s] p) acc) (Some [], []) (nsels kn) = (Some (nmembers U e kn), []).
  Proof.
    induction kn as [|x kn IH]; intros Hok Hd HC; [reflexivity|].
    cbn [forallb] in Hok, Hd. apply andb_true_iff in Hok. apply andb_true_iff in Hd.
    destruct Hok as [Hok1 Hok2]. destruct Hd as [Hd1 Hd2].
    unfold nsels in *. cbn [map fold_right].
    rewrite IH; [|exact Hok2|exact Hd2|intros y Hy; apply HC; right; exact Hy].
    rewrite (exec_nsel_len e x p C Hok1 Hd1); [|apply HC; left; reflexivity].
    unfold split_merge. cbn [fst snd app]. reflexivity.
  Qed.

  Lemma exec_nsels_len e kn p C :
    forallb (nkey_ok_b sc U e) kn = true -> forallb ninner_distinct_b kn = true ->
    keys_distinct (nsels kn) = true ->
    (length kn < C)%nat -> (forall x, In x kn -> (length (snd x) + 8 <= C)%nat) ->
    mexv C e (nsels kn) p = (Some (nmembers U e kn), []).
  Proof.
    intros Hok Hd Hk HC1 HC2.
    rewrite (exec_fields_fold_p sc U vars Mono C (en_type e) {| ov_ent := e; ov_repr := None |} (nsels kn) p);
      [|apply plain_nsels|exact Hk|unfold nsels; rewrite map_length; exact HC1].
    apply fold_nsels; assumption.
  Qed.

  Lemma exec_nsels e kn p C :
    forallb (nkey_ok_b sc U e) kn = true -> forallb ninner_distinct_b kn = true ->
    keys_distinct (nsels kn) = true ->
    (fuel_bound sc (nsels kn) + 6 <= C)%nat ->
    mexv C e (nsels kn) p = (Some (nmembers U e kn), []).
  Proof.
    intros Hok Hd Hk HC. destruct (nsels_bound_arith sc kn C HC) as [HC1 HC2].
    apply exec_nsels_len; assumption.
  Qed.

  (* (3) *)
  Lemma exec_app_nsels e A kn p C :
    plain_sels A -> keys_disjoint A (nsels kn) = true -> keys_distinct (nsels kn) = true ->
    forallb (nkey_ok_b sc U e) kn = true -> forallb ninner_distinct_b kn = true ->
    (length A + fuel_bound sc (nsels kn) + 6 <= C)%nat ->
    mexv C e (A ++ nsels kn) p =
    match mexv C e A p with
    | (Some la, ea) => (Some (la ++ nmembers U e kn), ea)
    | (None, ea) => (None, ea)
    end.
  Proof.
    intros HA Hdis Hk Hok Hd HC.
    assert (HCn : (fuel_bound sc (nsels kn) + 6 <= C)%nat) by (clear - HC; lia).
    destruct (nsels_bound_arith sc kn C HCn) as [HC1 _].
    assert (Hlen : (length A + length kn < C)%nat).
    { pose proof (fuel_bound_ge sc (nsels kn)) as G. pose proof (sels_size_length (nsels kn)) as L.
      unfold nsels in L at 1. rewrite map_length in L. clear - HC G L. lia. }
    rewrite (exec_split_eq sc U [] vars Mono C (en_type e) {| ov_ent := e; ov_repr := None |} A (nsels kn) p A (nsels kn)).
    - rewrite (exec_nsels e kn p C Hok Hd Hk HCn).
      destruct (mexv C e A p) as [[la|] ea]; unfold split_merge; cbn [fst snd]; rewrite ?app_nil_r; reflexivity.
    - apply flatten_plain; [exact HA|clear - Hlen; lia].
    - apply flatten_plain; [apply plain_nsels|unfold nsels; rewrite map_length; exact HC1].
    - rewrite flatten_plain; [reflexivity| |].
      + apply Forall_app. split; [exact HA|apply plain_nsels].
      + rewrite app_length. unfold nsels. rewrite map_length. exact Hlen.
    - exact Hdis.
  Qed.
  (* why (1) needs [ninner_distinct_b]: with a repeated inner name the executed object has one member, the
     representation member two *)
  Lemma exec_nsel_dup_differs e k a p C :
    nkey_ok_b sc U e (k, [a; a]) = true -> (10 <= C)%nat ->
    mexv C e [nsel (k, [a; a])] p <> (Some (nmember U e (k, [a; a])), []).
  Proof.
    intros Hok HC H.
    destruct (exec_nsel_groups e (k, [a; a]) p C Hok) as (e' & Hnr & _ & Hex); [cbn [snd length]; clear - HC; lia|].
    destruct (nmember_shape e (k, [a; a]) Hok) as (e'' & Hnr' & _ & Hsh).
    rewrite Hex, Hsh in H. cbn [snd map] in H. rewrite groups_cons in H. cbn [filter] in H.
    unfold same_key in H. cbn [sel_key key_sel response_name] in H. rewrite bytes_eqb_refl in H.
    cbn [negb filter map fst] in H. rewrite groups_nil in H. cbn [map] in H. discriminate H.
  Qed.
End NKeyExec.

Print Assumptions exec_nsel_groups.
Print Assumptions exec_nsel.
Print Assumptions exec_nsels.
Print Assumptions exec_app_nsels.
Print Assumptions nmember_shape.
Print Assumptions exec_nsel_dup_differs.
