(* C01 / (4): a small plan language and the soundness of plan execution, for plans whose entity
   fetches sit directly under distinct root fields (depth 1).  Induction over the root fields /
   fetch list; each node is discharged by [federated_two_step_wf]. *)
From Coq Require Import PeanoNat Lia.
From Gv Require Import lib.Bytes lib.Json lib.Gql lib.Exec
     C01.ProofsBase C01.ProofsFuel C01.ProofsSplit C01.ProofsSim C01.ProofsJoin C01.ProofsOverlap
     C01.ProofsTwoStep C01.ProofsViol C01.ProofsCtxBase C01.ProofsCtx C01.ProofsTwoStepWf C01.ProofsPlanAlg.
Open Scope N_scope.

(* ---- the plan language ---- *)
Record efetch := { ef_sub : schema; ef_T : name; ef_ks : list name; ef_sel : list selection }.
(* a root field of the client operation, decorated with how it is planned *)
Record dfield := {
  df_alias : option name; df_name : name; df_args : list argument; df_nn : bool;
  df_selA : list selection;            (* resolved by the root subgraph *)
  df_fetch : option efetch }.          (* the rest of the sub-selection, resolved by an entity fetch *)
Definition df_key (d : dfield) : name := response_name (df_alias d) (df_name d).
Definition client_sel (d : dfield) : selection :=
  SField (df_alias d) (df_name d) (df_args d) []
         (df_selA d ++ match df_fetch d with Some phi => ef_sel phi | None => [] end).
Definition root_sel (d : dfield) : selection :=
  SField (df_alias d) (df_name d) (df_args d) []
         (df_selA d ++ match df_fetch d with Some phi => key_sels (ef_ks phi) | None => [] end).

Inductive fetch :=
| RootFetch (sub : schema) (sels : list selection)
| EntityFetch (path : list name) (nn : bool) (phi : efetch) (flA : list selection).
Definition plan := list fetch.      (* a Sequence *)

Fixpoint keys_distinct (l : list selection) : bool :=
  match l with [] => true | s :: r => negb (has_key (sel_key s) r) && keys_distinct r end.

Lemma single_field_shape sc' U frags vars md f a n args ss objty ov p :
  (exists e, exec_sels sc' U frags vars md f objty ov [SField a n args [] ss] p = (None, e)) \/
  (exists v e, exec_sels sc' U frags vars md f objty ov [SField a n args [] ss] p = (Some [(response_name a n, v)], e)).
Proof.
  destruct f as [|f]; [left; eexists; reflexivity|]. rewrite exec_sels_S, flatten_S_cons. cbn [flat_here included].
  destruct f as [|f]; [left; eexists; reflexivity|]. rewrite flatten_S_nil. cbn [flat_seq app length].
  change (group 2 [SField a n args [] ss]) with (groups [SField a n args [] ss]). rewrite groups_cons.
  cbn [filter flat_map sel_subs sel_key]. rewrite groups_nil. cbn [sels_go].
  match goal with |- context [c_viol ?r] => destruct (c_viol r) end; [left|right]; repeat eexists.
Qed.

Lemma flatten_plain sc' frags vars l f objty :
  Forall (fun s => exists a n args ss, s = SField a n args [] ss) l -> (length l < f)%nat ->
  flatten sc' frags vars f objty l = FlatOk l.
Proof. intros. apply flatten_plain_fields; assumption. Qed.

(* the head field of a list of plain, distinctly keyed fields is executed independently *)
Lemma exec_cons_split sc' U frags vars md f objty ov s rest p :
  Forall (fun s => exists a n args ss, s = SField a n args [] ss) (s :: rest) ->
  keys_distinct (s :: rest) = true -> (length (s :: rest) < f)%nat ->
  exec_sels sc' U frags vars md f objty ov (s :: rest) p =
  split_merge (exec_sels sc' U frags vars md f objty ov [s] p) (exec_sels sc' U frags vars md f objty ov rest p).
Proof.
  intros HF Hk Hlen. inversion HF as [|? ? Hs Hrest]; subst.
  cbn [keys_distinct] in Hk. apply andb_true_iff in Hk. destruct Hk as [Hk1 _].
  change (s :: rest) with ([s] ++ rest).
  apply (exec_split_eq sc' U frags vars md f objty ov [s] rest p [s] rest).
  - apply flatten_plain; [constructor; [exact Hs|constructor]|simpl in *; lia].
  - apply flatten_plain; [exact Hrest|simpl in *; lia].
  - cbn [app]. rewrite flatten_plain; [reflexivity|exact HF|exact Hlen].
  - cbn [keys_disjoint forallb]. rewrite Hk1. reflexivity.
Qed.

Lemma exec_nil sc' U frags vars md f objty ov p :
  (1 <= f)%nat -> exec_sels sc' U frags vars md f objty ov [] p = (Some [], []).
Proof. intros H. destruct f as [|f]; [lia|]. reflexivity. Qed.

Section Plan.
  Variable U : universe.
  Variables (sc : schema) (frags : list fragment) (vdsM : list vardef) (supM : list (bytes * json)).
  Variable sc0 : schema.
  Variable eQ : entity.
  Variables (g0 f1 f2 fM : nat).

  Definition pvars : list (bytes * json) := effective_vars (query_op vdsM []) supM.
  Notation vars := pvars.
  Notation ovQ := {| ov_ent := eQ; ov_repr := None |}.
  Notation Q := (s_query sc).

  Definition flat_of (T : name) (sel : list selection) : list selection :=
    match flatten sc frags vars g0 T sel with FlatOk l => l | FlatBad _ => [] end.

  Definition plan_of (ds : list dfield) : plan :=
    RootFetch sc0 (map root_sel ds) ::
    flat_map (fun d => match df_fetch d with
                       | Some phi => [EntityFetch [df_key d] (df_nn d) phi (flat_of (ef_T phi) (df_selA d))]
                       | None => []
                       end) ds.

  (* what an entity fetch makes of the value found at its response key *)
  Definition fetch_fun_of (key : name) (nn : bool) (phi : efetch) (flA : list selection) : fetch_fun :=
    fun v => step2 U (ef_sub phi) frags vdsM supM (Some key) key [] nn (ef_T phi) (ef_ks phi) (ef_sel phi) flA
                   (Some [(key, v)], []) f2.

  Definition run_fetch (st : sres) (ft : fetch) : sres :=
    match ft with
    | RootFetch sub sels => exec_sels sub U frags vars Sub f1 Q ovQ sels []
    | EntityFetch [key] nn phi flA => apply_fetch key (fetch_fun_of key nn phi flA) st
    | EntityFetch _ _ _ _ => st
    end.
  Definition run_plan (p : plan) : sres := fold_left run_fetch p (Some [], []).
  Definition mono_plan (ds : list dfield) : sres :=
    exec_sels sc U frags vars Mono fM Q ovQ (map client_sel ds) [].

  Definition efs (ds : list dfield) : list (name * fetch_fun) :=
    flat_map (fun d => match df_fetch d with
                       | Some phi => [(df_key d, fetch_fun_of (df_key d) (df_nn d) phi (flat_of (ef_T phi) (df_selA d)))]
                       | None => []
                       end) ds.

  Lemma efs_cons d r :
    efs (d :: r) =
    match df_fetch d with
    | Some phi => [(df_key d, fetch_fun_of (df_key d) (df_nn d) phi (flat_of (ef_T phi) (df_selA d)))]
    | None => []
    end ++ efs r.
  Proof. reflexivity. Qed.

  Lemma run_plan_efs ds :
    run_plan (plan_of ds) = run_fetches (efs ds) (exec_sels sc0 U frags vars Sub f1 Q ovQ (map root_sel ds) []).
  Proof.
    unfold run_plan, plan_of. cbn [fold_left run_fetch].
    generalize (exec_sels sc0 U frags vars Sub f1 Q ovQ (map root_sel ds) []) as st.
    induction ds as [|d r IH]; intros st; [reflexivity|].
    cbn [flat_map efs]. fold (efs r). unfold run_fetches in *. rewrite !fold_left_app.
    destruct (df_fetch d) as [phi|]; cbn [fold_left run_fetch fst snd]; apply IH.
  Qed.

  (* per field: the step-1 result, the monolithic result, and the transformer of the fetch *)
  Definition a_of (d : dfield) : sres := exec_sels sc0 U frags vars Sub f1 Q ovQ [root_sel d] [].
  Definition m_of (d : dfield) : sres := exec_sels sc U frags vars Mono fM Q ovQ [client_sel d] [].
  Definition tr (d : dfield) (r : sres) : sres :=
    match df_fetch d with
    | Some phi => step2 U (ef_sub phi) frags vdsM supM (Some (df_key d)) (df_key d) [] (df_nn d) (ef_T phi) (ef_ks phi)
                        (ef_sel phi) (flat_of (ef_T phi) (df_selA d)) r f2
    | None => r
    end.
  Definition link (d : dfield) : Prop := no_oof (snd (m_of d)) = true -> tr d (a_of d) = m_of d.

  (* errors given to step 2 only prefix its errors *)
  Lemma step2_prefix sub key nn T ks selB flA o e :
    let r := step2 U sub frags vdsM supM (Some key) key [] nn T ks selB flA (o, e) f2 in
    let r0 := step2 U sub frags vdsM supM (Some key) key [] nn T ks selB flA (o, []) f2 in
    fst r = fst r0 /\ (snd r = [] <-> e = [] /\ snd r0 = []).
  Proof.
    cbv zeta. unfold step2.
    destruct o as [[|[k0 v] [|? ?]]|]; try (cbn [fst snd]; tauto).
    destruct v; try (cbn [fst snd]; tauto).
    destruct (rs_data (execute f2 sub U Sub _ None _)) as [| | | | |[|[k1 x] [|? ?]]]; try (cbn [fst snd]; tauto).
    destruct x as [| | | |[|x [|? ?]]|]; try (cbn [fst snd]; tauto).
    cbn [app]. unfold merge_at, field_result, obj_cres, nonnull_wrap, cnull. cbn [fst snd].
    set (X := rebase_errs _ _ _).
    destruct x; cbn [fst snd c_json c_errs c_viol]; destruct nn; cbn [fst snd c_json c_errs c_viol];
      try (rewrite app_nil_iff; tauto);
      try (split; [reflexivity|]; destruct (e ++ X) eqn:E1; destruct X eqn:E2; cbn;
           try (apply app_eq_nil in E1; destruct E1; subst); split; try discriminate; try tauto; intros [? ?]; try discriminate; subst; try discriminate).
    all: repeat match goal with |- context [match ?v with _ => _ end] => destruct v end; cbn [fst snd]; tauto.
  Qed.

  Lemma plain_root ds : Forall (fun s => exists a n args ss, s = SField a n args [] ss) (map root_sel ds).
  Proof. apply Forall_forall. intros s Hs. apply in_map_iff in Hs. destruct Hs as (d & <- & _). unfold root_sel. repeat eexists. Qed.
  Lemma plain_client ds : Forall (fun s => exists a n args ss, s = SField a n args [] ss) (map client_sel ds).
  Proof. apply Forall_forall. intros s Hs. apply in_map_iff in Hs. destruct Hs as (d & <- & _). unfold client_sel. repeat eexists. Qed.

  Lemma has_key_root_client k ds : has_key k (map client_sel ds) = has_key k (map root_sel ds).
  Proof. unfold has_key. induction ds as [|d r IH]; [reflexivity|]. cbn [map existsb]. rewrite IH. reflexivity. Qed.
  Lemma keys_distinct_client ds : keys_distinct (map client_sel ds) = keys_distinct (map root_sel ds).
  Proof.
    induction ds as [|d r IH]; [reflexivity|]. cbn [map keys_distinct]. rewrite IH, has_key_root_client. reflexivity.
  Qed.
  Lemma efs_keys k ds :
    has_key k (map root_sel ds) = false -> forallb (fun kf => negb (bytes_eqb (fst kf) k)) (efs ds) = true.
  Proof.
    unfold has_key. induction ds as [|d r IH]; [reflexivity|]. cbn [map existsb]. rewrite efs_cons.
    intros H. apply orb_false_iff in H. destruct H as [H1 H2]. rewrite forallb_app.
    apply andb_true_iff. split; [|apply IH; exact H2].
    destruct (df_fetch d); [|reflexivity]. cbn [forallb fst]. unfold same_key in H1. cbn [sel_key root_sel] in H1.
    unfold df_key. rewrite H1. reflexivity.
  Qed.

  Lemma tr_none d e : tr d (None, e) = (None, e).
  Proof. unfold tr. destruct (df_fetch d); reflexivity. Qed.

  Lemma plan_alg : forall ds,
      Forall link ds -> keys_distinct (map root_sel ds) = true ->
      (length ds + 2 <= f1)%nat -> (length ds + 2 <= fM)%nat ->
      no_oof (snd (mono_plan ds)) = true ->
      fst (run_fetches (efs ds) (exec_sels sc0 U frags vars Sub f1 Q ovQ (map root_sel ds) [])) = fst (mono_plan ds) /\
      (snd (run_fetches (efs ds) (exec_sels sc0 U frags vars Sub f1 Q ovQ (map root_sel ds) [])) = [] <->
       snd (mono_plan ds) = []).
  Proof.
    unfold mono_plan.
    induction ds as [|d ds IH]; intros Hlink Hk Hf1 HfM Hn.
    - cbn [map]. change (efs []) with (@nil (name * fetch_fun)). cbn [run_fetches fold_left]. rewrite !exec_nil by (simpl in *; lia). split; [reflexivity|tauto].
    - inversion Hlink as [|? ? Hld Hlrest]; subst.
      pose proof Hk as Hk'. cbn [map keys_distinct] in Hk'. apply andb_true_iff in Hk'. destruct Hk' as [Hk1 Hk2].
      apply negb_true_iff in Hk1.
      cbn [map] in Hn |- *.
      rewrite (exec_cons_split sc0 U frags vars Sub f1 Q ovQ (root_sel d) (map root_sel ds) []);
        [|apply (plain_root (d :: ds))|exact Hk|cbn [length]; rewrite map_length; simpl in Hf1; lia].
      rewrite (exec_cons_split sc U frags vars Mono fM Q ovQ (client_sel d) (map client_sel ds) []) in Hn |- *;
        try (apply (plain_client (d :: ds))); try (change (client_sel d :: map client_sel ds) with (map client_sel (d :: ds)); rewrite keys_distinct_client; exact Hk);
        try (cbn [length]; rewrite map_length; simpl in HfM; lia).
      fold (a_of d). fold (m_of d) in Hn |- *.
      set (A' := exec_sels sc0 U frags vars Sub f1 Q ovQ (map root_sel ds) []) in *.
      set (M' := exec_sels sc U frags vars Mono fM Q ovQ (map client_sel ds) []) in *.
      assert (IH' : no_oof (snd M') = true ->
                    fst (run_fetches (efs ds) A') = fst M' /\ (snd (run_fetches (efs ds) A') = [] <-> snd M' = [])).
      { intros HnM. apply IH; try assumption; simpl in Hf1, HfM; lia. }
      (* no out-of-fuel in the head's monolithic result, and in the tail's if the head is not null *)
      assert (Hnm : no_oof (snd (m_of d)) = true /\ (fst (m_of d) <> None -> no_oof (snd M') = true)).
      { unfold split_merge in Hn. destruct (fst (m_of d)) eqn:Ef; cbn [snd] in Hn.
        - rewrite no_oof_app in Hn. apply andb_true_iff in Hn. destruct Hn as [H1 H2]. split; [exact H1|intros _; exact H2].
        - split; [exact Hn|intros H; contradiction]. }
      destruct Hnm as [Hnm HnM'].
      specialize (Hld Hnm).
      assert (HMnone : forall errs, M' = (None, errs) -> errs <> []).
      { intros errs H. unfold M' in H. apply (exec_sels_none_errs sc U frags vars Mono _ _ _ _ _ _ H). }
      assert (HAnone : forall errs, A' = (None, errs) -> errs <> []).
      { intros errs H. unfold A' in H. apply (exec_sels_none_errs sc0 U frags vars Sub _ _ _ _ _ _ H). }
      assert (Hmnone : forall errs, m_of d = (None, errs) -> errs <> []).
      { intros errs H. unfold m_of in H. apply (exec_sels_none_errs sc U frags vars Mono _ _ _ _ _ _ H). }
      (* shape of the head's step-1 result *)
      destruct (single_field_shape sc0 U frags vars Sub f1 (df_alias d) (df_name d) (df_args d)
                  (df_selA d ++ match df_fetch d with Some phi => key_sels (ef_ks phi) | None => [] end) Q ovQ [])
        as [[e Ha]|[v [e Ha]]]; fold (root_sel d) in Ha; fold (a_of d) in Ha; fold (df_key d) in Ha.
      + (* the head is null already after the root fetch *)
        rewrite Ha in Hld |- *. rewrite tr_none in Hld. rewrite <- Hld.
        unfold split_merge. cbn [fst snd]. rewrite run_fetches_none. cbn [fst snd]. split; [reflexivity|tauto].
      + rewrite Ha in Hld |- *.
        destruct (single_field_shape sc U frags vars Mono fM (df_alias d) (df_name d) (df_args d)
                    (df_selA d ++ match df_fetch d with Some phi => ef_sel phi | None => [] end) Q ovQ [])
          as [[em Hm]|[vm [em Hm]]]; fold (client_sel d) in Hm; fold (m_of d) in Hm; fold (df_key d) in Hm.
        * (* the head becomes null in the monolith (violation in the fetched part) *)
          rewrite Hm in Hld |- *. unfold split_merge at 2. cbn [fst snd].
          pose proof (Hmnone em Hm) as Hem.
          destruct A' as [oR eR] eqn:EA'. unfold split_merge. cbn [fst snd].
          unfold tr in Hld. destruct (df_fetch d) as [phi|] eqn:Efd; [|discriminate].
          rewrite efs_cons, Efd. cbn [app].
          destruct (step2_prefix (ef_sub phi) (df_key d) (df_nn d) (ef_T phi) (ef_ks phi) (ef_sel phi)
                                 (flat_of (ef_T phi) (df_selA d)) (Some [(df_key d, v)]) e) as [P1 P2].
          cbv zeta in P1, P2. unfold name in *. rewrite Hld in P1, P2. cbn [fst snd] in P1, P2.
          set (Fd := fetch_fun_of (df_key d) (df_nn d) phi (flat_of (ef_T phi) (df_selA d))).
          assert (HF1 : fst (Fd v) = None) by (symmetry; exact P1).
          assert (HF2 : em = [] <-> e = [] /\ snd (Fd v) = []) by exact P2.
          destruct oR as [mr|].
          -- rewrite run_fetches_cons. rewrite (apply_fetch_hit (df_key d) Fd v) by (cbn [obj_get]; rewrite bytes_eqb_refl; reflexivity).
             rewrite HF1. rewrite run_fetches_none. cbn [fst snd].
             split; [reflexivity|]. split; [|intros H; contradiction].
             intros H. apply app_eq_nil in H. destruct H as [H1 H2]. apply app_eq_nil in H1. destruct H1 as [H1 _].
             exfalso. apply Hem. apply HF2. split; [exact H1|exact H2].
          -- rewrite run_fetches_none. cbn [fst snd]. split; [reflexivity|]. split; [|intros H; contradiction].
             intros H. apply app_eq_nil in H. destruct H as [_ H]. exfalso. apply (HAnone eR eq_refl H).
        * (* the head has a value in the monolith *)
          rewrite Hm in Hld |- *.
          assert (HnM : no_oof (snd M') = true) by (apply HnM'; rewrite Hm; discriminate).
          destruct (IH' HnM) as [IH1 IH2].
          destruct A' as [oR eR] eqn:EA'. destruct M' as [oM eM] eqn:EM'.
          unfold split_merge. cbn [fst snd] in *.
          (* what the fetches of the head do to the state, abstractly: value v', extra errors ex *)
          assert (Hhead : exists ex, (em = [] <-> e = [] /\ ex = []) /\
                    forall mr E, run_fetches (efs (d :: ds)) (Some ((df_key d, v) :: mr), E) =
                                 run_fetches (efs ds) (Some ((df_key d, vm) :: mr), E ++ ex)).
          { unfold tr in Hld. rewrite efs_cons. destruct (df_fetch d) as [phi|] eqn:Efd.
            - destruct (step2_prefix (ef_sub phi) (df_key d) (df_nn d) (ef_T phi) (ef_ks phi) (ef_sel phi)
                                     (flat_of (ef_T phi) (df_selA d)) (Some [(df_key d, v)]) e) as [P1 P2].
              cbv zeta in P1, P2. unfold name in *. rewrite Hld in P1, P2. cbn [fst snd] in P1, P2.
              set (Fd := fetch_fun_of (df_key d) (df_nn d) phi (flat_of (ef_T phi) (df_selA d))).
              assert (HF1 : fst (Fd v) = Some [(df_key d, vm)]) by (symmetry; exact P1).
              assert (HF2 : em = [] <-> e = [] /\ snd (Fd v) = []) by exact P2.
              exists (snd (Fd v)). split; [exact HF2|]. intros mr E. cbn [app]. rewrite run_fetches_cons.
              rewrite (apply_fetch_hit (df_key d) Fd v) by (cbn [obj_get]; rewrite bytes_eqb_refl; reflexivity).
              rewrite HF1. cbn [replace_member]. rewrite bytes_eqb_refl. reflexivity.
            - injection Hld as -> ->. exists []. split; [tauto|]. intros mr E. cbn [app]. rewrite app_nil_r. reflexivity. }
          destruct Hhead as (ex & Hex & Hrun). unfold name in *.
          destruct oR as [mr|].
          -- cbn [app]. rewrite Hrun. rewrite run_fetches_errs.
             rewrite (run_fetches_frame (df_key d) vm (efs ds) mr (efs_keys _ _ Hk1)).
             rewrite (run_fetches_errs (efs ds) (Some mr) eR) in IH1, IH2. cbn [fst snd] in IH1, IH2 |- *.
             rewrite IH1. split; [destruct oM; reflexivity|].
             rewrite !app_nil_iff. rewrite app_nil_iff in IH2. tauto.
          -- rewrite run_fetches_none in IH1, IH2 |- *. cbn [fst snd] in IH1, IH2 |- *. rewrite <- IH1.
             split; [reflexivity|].
             pose proof (HAnone eR eq_refl) as HeR. pose proof (HMnone eM) as HeM. rewrite <- IH1 in HeM. specialize (HeM eq_refl).
             rewrite !app_nil_iff. tauto.
  Qed.
End Plan.
