(* C01 / (2a): de-duplicating the representations of an [_entities] call and mapping the results
   back by index is transparent. *)
From Coq Require Import PeanoNat Lia.
From Gv Require Import lib.Bytes lib.Json lib.Gql lib.Exec
     C01.ProofsBase C01.ProofsFuel C01.ProofsSim C01.ProofsJoin.
Open Scope N_scope.

Lemma json_eqb_eq : forall a b, json_eqb a b = true -> a = b.
Proof.
  induction a as [| b0 | r | s | l IH | m IH] using json_ind'; intros b H; destruct b; cbn [json_eqb] in H; try discriminate.
  - reflexivity.
  - apply eqb_prop in H. congruence.
  - apply bytes_eqb_eq in H. congruence.
  - apply bytes_eqb_eq in H. congruence.
  - f_equal. revert items H. induction IH as [|x l Hx HF IHl]; intros [|y l1] H; try discriminate; [reflexivity|].
    apply andb_true_iff in H. destruct H as [H1 H2]. f_equal; [apply Hx; exact H1|apply IHl; exact H2].
  - f_equal. revert members H. induction IH as [|[k v] m Hx HF IHm]; intros [|[k1 v1] m1] H; try discriminate; [reflexivity|].
    apply andb_true_iff in H. destruct H as [H12 H3]. apply andb_true_iff in H12. destruct H12 as [H1 H2].
    apply bytes_eqb_eq in H1. cbn [snd] in Hx. apply Hx in H2. f_equal; [congruence|apply IHm; exact H3].
Qed.

Definition json_mem (x : json) (l : list json) : bool := existsb (json_eqb x) l.
Lemma json_mem_In x l : json_mem x l = true <-> In x l.
Proof.
  unfold json_mem. rewrite existsb_exists. split.
  - intros (y & Hy & He). apply json_eqb_eq in He. subst. exact Hy.
  - intros H. exists x. split; [exact H|apply json_eqb_refl].
Qed.

(* first occurrences, in order *)
Fixpoint dedup_from (seen : list json) (l : list json) : list json :=
  match l with
  | [] => []
  | x :: r => if json_mem x seen then dedup_from seen r else x :: dedup_from (x :: seen) r
  end.
Definition dedup (l : list json) : list json := dedup_from [] l.
Fixpoint index_of (x : json) (l : list json) : nat :=
  match l with
  | [] => O
  | y :: r => if json_eqb x y then O else S (index_of x r)
  end.

Lemma dedup_from_in seen l x : In x l -> In x seen \/ In x (dedup_from seen l).
Proof.
  revert seen. induction l as [|y r IH]; intros seen Hin; [destruct Hin|]. cbn [dedup_from].
  destruct (json_mem y seen) eqn:Em.
  - destruct Hin as [<-|Hin]; [left; apply json_mem_In; exact Em|apply IH; exact Hin].
  - destruct Hin as [<-|Hin]; [right; left; reflexivity|].
    destruct (IH (y :: seen) Hin) as [[<-|H]|H]; [right; left; reflexivity|left; exact H|right; right; exact H].
Qed.
Lemma dedup_from_sub seen l x : In x (dedup_from seen l) -> In x l.
Proof.
  revert seen. induction l as [|y r IH]; intros seen Hin; [destruct Hin|]. cbn [dedup_from] in Hin.
  destruct (json_mem y seen); [right; apply (IH seen); exact Hin|].
  destruct Hin as [<-|Hin]; [left; reflexivity|right; apply (IH (y :: seen)); exact Hin].
Qed.
Lemma dedup_in l x : In x (dedup l) <-> In x l.
Proof.
  split; [apply dedup_from_sub|]. intros H. destruct (dedup_from_in [] l x H) as [[]|H']. exact H'.
Qed.

Lemma nth_index_map {B} (g : json -> B) (d : B) l x :
  In x l -> nth (index_of x l) (map g l) d = g x.
Proof.
  induction l as [|y r IH]; intros Hin; [destruct Hin|]. cbn [index_of map].
  destruct (json_eqb x y) eqn:E; [apply json_eqb_eq in E; subst; reflexivity|].
  cbn [nth]. apply IH. destruct Hin as [<-|Hin]; [rewrite json_eqb_refl in E; discriminate|exact Hin].
Qed.

(* map the items of the de-duplicated call back to the original positions *)
Definition undedup (rs : list json) (items' : list json) : list json :=
  map (fun r => nth (index_of r (dedup rs)) items' JNull) rs.

Section Dedup.
  Variable sc : schema.
  Variable U : universe.
  Variable frags : list fragment.
  Variable vars : list (bytes * json).

  Notation es g := (exec_sels sc U frags vars Sub g).

  (* the JSON of one [_entities] item does not depend on its position *)
  Definition ent_res (g : nat) (subs : list selection) (r : json) : sres :=
    match find_by_repr U r with
    | None => (None, [])
    | Some e => es g (en_type e) {| ov_ent := e; ov_repr := Some r |} subs []
    end.
  Definition ent_json (g : nat) (subs : list selection) (r : json) : json :=
    match find_by_repr U r with None => JNull | Some _ => ojson (fst (ent_res g subs r)) end.

  Lemma ent_item_res g subs path i r :
    ent_item U (es g) subs path i r = (ent_json g subs r, shift_errs (path ++ [PI i]) (snd (ent_res g subs r))).
  Proof.
    unfold ent_item, ent_json, ent_res. destruct (find_by_repr U r) as [e|]; [|reflexivity].
    rewrite (exec_sels_path_nil sc U frags vars Sub (path ++ [PI i])).
    destruct (es g (en_type e) {| ov_ent := e; ov_repr := Some r |} subs []) as [o e2]. reflexivity.
  Qed.

  Lemma ent_loop_items g subs path rs : forall i,
      fst (ent_loop U (es g) subs path i rs) = map (ent_json g subs) rs.
  Proof.
    induction rs as [|r rest IH]; intros i; [reflexivity|]. cbn [ent_loop map]. rewrite ent_item_res.
    specialize (IH (i + 1)). destruct (ent_loop U (es g) subs path (i + 1) rest) as [its ers]. cbn [fst] in *.
    rewrite IH. reflexivity.
  Qed.

  Lemma shift_errs_nil pre l : shift_errs pre l = [] <-> l = [].
  Proof. destruct l; cbn; split; intros H; try reflexivity; discriminate. Qed.

  Lemma ent_loop_errs_nil g subs path rs : forall i,
      snd (ent_loop U (es g) subs path i rs) = [] <-> (forall r, In r rs -> snd (ent_res g subs r) = []).
  Proof.
    induction rs as [|r rest IH]; intros i; [cbn; split; [intros _ r []|reflexivity]|].
    cbn [ent_loop]. rewrite ent_item_res. specialize (IH (i + 1)).
    destruct (ent_loop U (es g) subs path (i + 1) rest) as [its ers]. cbn [snd] in *.
    split.
    - intros H. apply app_eq_nil in H. destruct H as [H1 H2]. apply shift_errs_nil in H1.
      intros r' [<-|Hin]; [exact H1|]. apply IH; assumption.
    - intros H. rewrite (proj2 (shift_errs_nil _ _) (H r (or_introl eq_refl))). cbn [app].
      apply IH. intros r' Hin. apply H. right. exact Hin.
  Qed.

  (* (2a) at the level of the [_entities] field: same variables, two argument lists *)
  Theorem dedup_transparent_field g ovq key a args args' dirs ss subs path rs :
    reprs_of vars args = rs -> reprs_of vars args' = dedup rs ->
    let r := exec_field sc U frags vars Sub (S g) (s_query sc) ovq key (SField a s_entities args dirs ss) subs path in
    let r' := exec_field sc U frags vars Sub (S g) (s_query sc) ovq key (SField a s_entities args' dirs ss) subs path in
    exists items', c_json r' = JArr items' /\ c_json r = JArr (undedup rs items') /\
                   (c_errs r = [] <-> c_errs r' = []).
  Proof.
    intros Hrs Hrs' r r'. unfold r, r'. rewrite !exec_field_S.
    assert (Hne : bytes_eqb s_entities s_typename = false) by reflexivity. rewrite Hne.
    unfold is_entities. rewrite !bytes_eqb_refl. cbn [andb c_json c_errs]. rewrite Hrs, Hrs'.
    exists (map (ent_json g subs) (dedup rs)). split; [rewrite ent_loop_items; reflexivity|]. split.
    - rewrite ent_loop_items. f_equal. unfold undedup. apply map_ext_in. intros x Hx.
      symmetry. apply nth_index_map. apply dedup_in. exact Hx.
    - rewrite !ent_loop_errs_nil. split; intros H x Hx; apply H; apply dedup_in; exact Hx.
  Qed.
End Dedup.
