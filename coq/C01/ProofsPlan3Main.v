(* C01 / (6): THE THEOREM OF PLAN TREES.  The validator [tv3_static_b] is evaluated on the translation of a real plan
   (any nesting of entity fetches below entity fetches, several fetches at one object, several root subgraphs, lists);
   if it accepts, then for EVERY universe of the contract the gateway model [gateway3] returns exactly the data a single
   server over the supergraph returns for the client's operation, and has errors iff that server has -- for every fuel
   above a computable bound (no out-of-fuel side condition: ProofsFuelSuff.v). *)
From Coq Require Import PeanoNat Lia.
From Gv Require Import lib.Bytes lib.Json lib.Gql lib.Exec
     C01.ProofsBase C01.ProofsFuel C01.ProofsSplit C01.ProofsSim C01.ProofsJoin C01.ProofsOverlap
     C01.ProofsTwoStep C01.ProofsViol C01.ProofsCtxBase C01.ProofsCtx C01.ProofsTwoStepWf C01.ProofsPlanAlg
     C01.ProofsPlan C01.ProofsPlanOk C01.ProofsDedup C01.ProofsListHop
     C01.ProofsTvStatic C01.ProofsTvDefs C01.ProofsTvHidden C01.ProofsPlanGen C01.ProofsPlan2 C01.ProofsPlan2Link
     C01.ProofsPlan2Root C01.ProofsFuelSuff C01.ProofsNKeyDefs C01.ProofsPlan3 C01.ProofsPlan3Keys C01.ProofsPlan3Fetch C01.ProofsPlan3Field
     C01.ProofsPlan3Pos C01.ProofsPlan3Step C01.ProofsPlan3Root.
Open Scope N_scope.

Section Main3.
  Variables (sc : schema) (subs : list schema) (vdsM : list vardef) (supM : list (bytes * json)).
  Variable kq : nat.
  Variable decls : list (name * list name).
  Variable rdecls : list rdecl.
  Variable tn : bool.

  (* induction over the depth of the plan tree: positions and the two kinds of fields together *)
  Lemma PS_FL_all ndecls ab U eQ F :
    find_entity U (s_query sc) [] = Some eQ ->
    forallb (fun vd => not_repr (vd_name vd)) vdsM = true ->
    forallb (config_wf_b sc) subs = true ->
    univ3_contract_b sc subs decls rdecls U = true ->
    (ab = true -> types_ok_b sc U = true) ->
    nkey_contract_b sc ndecls U = true ->
    ndecls_wf_b ndecls = true ->
    forall k, PS_at U sc subs vdsM supM F kq tn decls rdecls ndecls ab k /\ FL_at U sc subs vdsM supM F kq tn decls rdecls ndecls ab k /\
              FA_at U sc subs vdsM supM F kq tn decls rdecls ndecls ab k.
  Proof.
    intros HeQ Hnr Hwfs Hc Hty Hnc Hnwf. induction k as [|k (IHP & IHF & IHA)].
    - split; [|split].
      + intros T pt e p Hst. discriminate.
      + intros T e a n args sh T' sub p q Hst. discriminate.
      + intros T e a n args sh T' csel rsel alts p q Hst. discriminate.
    - split; [|split].
      + apply (PS_step U sc subs vdsM supM eQ F kq tn decls rdecls ndecls ab k HeQ Hnr Hwfs Hc Hnc Hnwf IHF IHA).
      + apply (FL_step U sc subs vdsM supM F kq tn decls rdecls ndecls ab k IHP).
      + apply (FA_step U sc subs vdsM supM F kq tn decls rdecls ndecls ab k Hty IHP).
  Qed.

  Lemma tvg_sound ndecls ab k ds :
    tvg_static_b sc subs [] vdsM supM kq ab decls rdecls ndecls k ds = true ->
    forall (U : universe) (eQ : entity),
      univ3_contract_b sc subs decls rdecls U = true ->
      (ab = true -> types_ok_b sc U = true) ->
      nkey_contract_b sc ndecls U = true ->
      find_entity U (s_query sc) [] = Some eQ ->
      forall F : nat, (ds_need sc ds <= F)%nat ->
        sres_weq (gateway3 U sc subs [] vdsM supM eQ F F tn k ds) (mono_client3 U sc [] vdsM supM eQ F ds).
  Proof.
    intros Hok U eQ Hc Hty Hnc HeQ F HF.
    pose proof Hok as Hok'. unfold tvg_static_b in Hok'.
    apply andb_true_iff in Hok'. destruct Hok' as [Hok' _].
    apply andb_true_iff in Hok'. destruct Hok' as [Hok' Hnr].
    apply andb_true_iff in Hok'. destruct Hok' as [Hwfs _].
    apply andb_true_iff in Hwfs. destruct Hwfs as [Hnwf Hwfs].
    destruct (PS_FL_all ndecls ab U eQ F HeQ Hnr Hwfs Hc Hty Hnc Hnwf k) as (_ & HFL & HFA).
    apply (root3_sound U sc subs vdsM supM eQ F kq tn decls rdecls ndecls ab k HeQ Hc HFL HFA ds Hok HF).
  Qed.

  Lemma nkey_contract_nil U : nkey_contract_b sc [] U = true.
  Proof.
    unfold nkey_contract_b, nkey_consistent, nent_contract_b. apply andb_true_iff. split; apply forallb_forall; intros e _; reflexivity.
  Qed.

  (* plan trees without positions resolved per runtime type *)
  Theorem tv3_sound k ds :
    tv3_static_b sc subs [] vdsM supM kq decls rdecls k ds = true ->
    forall (U : universe) (eQ : entity),
      univ3_contract_b sc subs decls rdecls U = true ->
      find_entity U (s_query sc) [] = Some eQ ->
      forall F : nat, (ds_need sc ds <= F)%nat ->
        sres_weq (gateway3 U sc subs [] vdsM supM eQ F F tn k ds) (mono_client3 U sc [] vdsM supM eQ F ds).
  Proof.
    intros Hok U eQ Hc HeQ F HF. apply (tvg_sound [] false k ds Hok U eQ Hc); [discriminate|apply nkey_contract_nil|exact HeQ|exact HF].
  Qed.

  (* plan trees with positions resolved per runtime type (interface / union positions) *)
  Theorem tv4_sound k ds :
    tv4_static_b sc subs [] vdsM supM kq decls rdecls k ds = true ->
    forall (U : universe) (eQ : entity),
      univ4_contract_b sc subs decls rdecls U = true ->
      find_entity U (s_query sc) [] = Some eQ ->
      forall F : nat, (ds_need sc ds <= F)%nat ->
        sres_weq (gateway3 U sc subs [] vdsM supM eQ F F tn k ds) (mono_client3 U sc [] vdsM supM eQ F ds).
  Proof.
    intros Hok U eQ Hc HeQ F HF. unfold univ4_contract_b in Hc. apply andb_true_iff in Hc. destruct Hc as [Hc Hty].
    apply (tvg_sound [] true k ds Hok U eQ Hc); [intros _; exact Hty|apply nkey_contract_nil|exact HeQ|exact HF].
  Qed.

  (* ... and with keys with one level of nesting *)
  Theorem tv5_sound ndecls k ds :
    tv5_static_b sc subs [] vdsM supM kq decls rdecls ndecls k ds = true ->
    forall (U : universe) (eQ : entity),
      univ5_contract_b sc subs decls rdecls ndecls U = true ->
      find_entity U (s_query sc) [] = Some eQ ->
      forall F : nat, (ds_need sc ds <= F)%nat ->
        sres_weq (gateway3 U sc subs [] vdsM supM eQ F F tn k ds) (mono_client3 U sc [] vdsM supM eQ F ds).
  Proof.
    intros Hok U eQ Hc HeQ F HF. unfold univ5_contract_b in Hc. apply andb_true_iff in Hc. destruct Hc as [Hc Hnc].
    unfold univ4_contract_b in Hc. apply andb_true_iff in Hc. destruct Hc as [Hc Hty].
    apply (tvg_sound ndecls true k ds Hok U eQ Hc); [intros _; exact Hty|exact Hnc|exact HeQ|exact HF].
  Qed.

  (* the same with the monolith as [execute] on the client's document *)
  Theorem tv3_sound_execute k ds :
    tv3_static_b sc subs [] vdsM supM kq decls rdecls k ds = true ->
    forall (U : universe) (eQ : entity),
      univ3_contract_b sc subs decls rdecls U = true ->
      find_entity U (s_query sc) [] = Some eQ ->
      forall F : nat, (ds_need sc ds <= F)%nat ->
        sres_weq (gateway3 U sc subs [] vdsM supM eQ F F tn k ds)
                 (sres_of_response (execute F sc U Mono (client_doc3 vdsM [] ds) None (JObj supM))).
  Proof.
    intros Hok U eQ Hc HeQ F HF.
    unfold client_doc3. rewrite (execute_query F sc U Mono vdsM _ [] (JObj supM) eQ HeQ). rewrite sres_response_id.
    apply (tv3_sound k ds Hok U eQ Hc HeQ F HF).
  Qed.
  Theorem tv4_sound_execute k ds :
    tv4_static_b sc subs [] vdsM supM kq decls rdecls k ds = true ->
    forall (U : universe) (eQ : entity),
      univ4_contract_b sc subs decls rdecls U = true ->
      find_entity U (s_query sc) [] = Some eQ ->
      forall F : nat, (ds_need sc ds <= F)%nat ->
        sres_weq (gateway3 U sc subs [] vdsM supM eQ F F tn k ds)
                 (sres_of_response (execute F sc U Mono (client_doc3 vdsM [] ds) None (JObj supM))).
  Proof.
    intros Hok U eQ Hc HeQ F HF.
    unfold client_doc3. rewrite (execute_query F sc U Mono vdsM _ [] (JObj supM) eQ HeQ). rewrite sres_response_id.
    apply (tv4_sound k ds Hok U eQ Hc HeQ F HF).
  Qed.
  Theorem tv5_sound_execute ndecls k ds :
    tv5_static_b sc subs [] vdsM supM kq decls rdecls ndecls k ds = true ->
    forall (U : universe) (eQ : entity),
      univ5_contract_b sc subs decls rdecls ndecls U = true ->
      find_entity U (s_query sc) [] = Some eQ ->
      forall F : nat, (ds_need sc ds <= F)%nat ->
        sres_weq (gateway3 U sc subs [] vdsM supM eQ F F tn k ds)
                 (sres_of_response (execute F sc U Mono (client_doc3 vdsM [] ds) None (JObj supM))).
  Proof.
    intros Hok U eQ Hc HeQ F HF.
    unfold client_doc3. rewrite (execute_query F sc U Mono vdsM _ [] (JObj supM) eQ HeQ). rewrite sres_response_id.
    apply (tv5_sound ndecls k ds Hok U eQ Hc HeQ F HF).
  Qed.
End Main3.
Print Assumptions tv3_sound.
Print Assumptions tv3_sound_execute.
Print Assumptions tv4_sound.
Print Assumptions tv4_sound_execute.
Print Assumptions tv5_sound.
Print Assumptions tv5_sound_execute.
