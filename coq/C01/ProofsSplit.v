(* C01 / E2: selection sets over one object can be executed independently and merged. *)
From Coq Require Import Lia ZifyNat ZifyN ZifyBool.
From Gv Require Import lib.Bytes lib.Json lib.Gql lib.Exec C01.ProofsBase C01.ProofsFuel.
Open Scope N_scope.

(* the response keys of the two flattened selection lists are disjoint *)
Definition has_key (k : name) (l : list selection) : bool := existsb (same_key k) l.
Definition keys_disjoint (la lb : list selection) : bool :=
  forallb (fun a => negb (has_key (sel_key a) lb)) la.

(* merge of two selection-set results on the same object: members and errors concatenate; a
   non-null violation (None) in either makes the object null; a violation in the first stops
   execution (its errors only) *)
Definition split_merge (ra rb : sres) : sres :=
  match fst ra with
  | None => ra
  | Some la => (match fst rb with Some lb => Some (la ++ lb) | None => None end, snd ra ++ snd rb)
  end.

Lemma sels_go_app ef path g1 g2 :
  sels_go ef path (g1 ++ g2) = split_merge (sels_go ef path g1) (sels_go ef path g2).
Proof.
  induction g1 as [|[[key s] subs] rest IH].
  - cbn [app sels_go]. unfold split_merge. cbn [fst snd app]. destruct (sels_go ef path g2) as [[l|] e]; reflexivity.
  - cbn [app sels_go].
    destruct (c_viol (ef key s subs (path ++ [PN key]))); [reflexivity|].
    rewrite IH. destruct (sels_go ef path rest) as [[l|] e2]; unfold split_merge; cbn [fst snd]; [|reflexivity].
    destruct (sels_go ef path g2) as [[l2|] e3]; cbn [fst snd]; rewrite app_assoc; reflexivity.
Qed.

(* ---- groups of a concatenation with disjoint keys ---- *)
Lemma filter_none {A} (p : A -> bool) l : existsb p l = false -> filter p l = [].
Proof.
  induction l as [|x l IH]; simpl; [reflexivity|]. intros H. apply orb_false_iff in H. destruct H as [H1 H2].
  rewrite H1. apply IH. exact H2.
Qed.
Lemma filter_all {A} (p : A -> bool) l : existsb (fun x => negb (p x)) l = false -> filter p l = l.
Proof.
  induction l as [|x l IH]; simpl; [reflexivity|]. intros H. apply orb_false_iff in H. destruct H as [H1 H2].
  apply negb_false_iff in H1. rewrite H1. f_equal. apply IH. exact H2.
Qed.

Lemma existsb_ext' {A} (p q : A -> bool) l : (forall x, p x = q x) -> existsb p l = existsb q l.
Proof. intros H. induction l as [|x l IH]; simpl; [reflexivity|]. rewrite H, IH. reflexivity. Qed.

Lemma keys_disjoint_filter p la lb : keys_disjoint la lb = true -> keys_disjoint (filter p la) lb = true.
Proof.
  unfold keys_disjoint. induction la as [|a la IH]; simpl; [reflexivity|].
  intros H. apply andb_true_iff in H. destruct H as [H1 H2].
  destruct (p a); simpl; [rewrite H1|]; auto.
Qed.

Lemma groups_app_disjoint : forall n la lb,
    (length la <= n)%nat -> keys_disjoint la lb = true -> groups (la ++ lb) = groups la ++ groups lb.
Proof.
  induction n as [|n IH]; intros la lb Hlen Hd.
  - destruct la; [reflexivity|simpl in Hlen; lia].
  - destruct la as [|s la]; [reflexivity|].
    cbn [app]. rewrite !groups_cons.
    cbn [keys_disjoint forallb] in Hd. apply andb_true_iff in Hd. destruct Hd as [Hs Hd].
    apply negb_true_iff in Hs. unfold has_key in Hs.
    rewrite !filter_app.
    rewrite (filter_none (same_key (sel_key s)) lb Hs), app_nil_r.
    rewrite (filter_all (fun x => negb (same_key (sel_key s) x)) lb).
    2:{ rewrite <- Hs. apply existsb_ext'. intros x. apply negb_involutive. }
    cbn [app]. f_equal.
    apply IH.
    + pose proof (filter_length_le (fun x => negb (same_key (sel_key s) x)) la). simpl in Hlen. lia.
    + apply keys_disjoint_filter. exact Hd.
Qed.

Section Split.
  Variable sc : schema.
  Variable U : universe.
  Variable frags : list fragment.
  Variable vars : list (bytes * json).
  Variable md : mode.

  Notation exec_sels' := (exec_sels sc U frags vars md).
  Notation exec_field' := (exec_field sc U frags vars md).
  Notation flatten' := (flatten sc frags vars).

  (* flatten of a concatenation *)
  Lemma flatten_app_inv : forall f objty A B l,
      flatten' f objty (A ++ B) = FlatOk l ->
      exists la lb, flatten' f objty A = FlatOk la /\ flatten' f objty B = FlatOk lb /\ l = la ++ lb.
  Proof.
    induction f as [|f IH]; intros objty A B l H; [rewrite flatten_0 in H; discriminate|].
    destruct A as [|s A].
    - exists [], l. cbn [app] in H. split; [reflexivity|split; [exact H|reflexivity]].
    - cbn [app] in H. rewrite flatten_S_cons in H. rewrite flatten_S_cons.
      destruct (flat_here sc frags vars (flatten' f objty) objty s) as [l1|e]; [|discriminate].
      cbn [flat_seq] in *.
      destruct (flatten' f objty (A ++ B)) as [l2|e] eqn:E2; [|discriminate].
      injection H as <-.
      destruct (IH _ _ _ _ E2) as (la & lb & Ha & Hb & ->).
      exists (l1 ++ la), lb. rewrite Ha. repeat split.
      + apply flatten_mono_ok with (f := f); [lia|exact Hb].
      + apply app_assoc.
  Qed.

  Lemma flatten_app : forall fa fb objty A B la lb,
      flatten' fa objty A = FlatOk la -> flatten' fb objty B = FlatOk lb ->
      flatten' (fa + fb) objty (A ++ B) = FlatOk (la ++ lb).
  Proof.
    induction fa as [|fa IH]; intros fb objty A B la lb Ha Hb; [rewrite flatten_0 in Ha; discriminate|].
    destruct A as [|s A].
    - rewrite flatten_S_nil in Ha. injection Ha as <-. cbn [app].
      apply flatten_mono_ok with (f := fb); [lia|exact Hb].
    - rewrite flatten_S_cons in Ha. cbn [app]. change (S fa + fb)%nat with (S (fa + fb)). rewrite flatten_S_cons.
      destruct (flat_here sc frags vars (flatten' fa objty) objty s) as [l1|e] eqn:Eh; [|discriminate].
      cbn [flat_seq] in Ha. destruct (flatten' fa objty A) as [l2|e] eqn:E2; [|discriminate].
      injection Ha as <-.
      rewrite (flat_here_ext_noof sc frags vars (flatten' fa objty) (flatten' (fa + fb) objty)).
      + rewrite Eh. cbn [flat_seq]. rewrite (IH fb objty A B l2 lb E2 Hb). rewrite app_assoc. reflexivity.
      + intros l Hl. apply flatten_mono; [lia|exact Hl].
      + rewrite Eh. reflexivity.
  Qed.

  (* E2, exact-fuel form: no out-of-fuel side condition is needed *)
  Theorem exec_split_eq f objty ov A B path la lb :
    flatten' f objty A = FlatOk la -> flatten' f objty B = FlatOk lb ->
    flat_no_oof (flatten' f objty (A ++ B)) = true ->
    keys_disjoint la lb = true ->
    exec_sels' f objty ov (A ++ B) path =
    split_merge (exec_sels' f objty ov A path) (exec_sels' f objty ov B path).
  Proof.
    intros Ha Hb Hab Hd. destruct f as [|f]; [rewrite flatten_0 in Ha; discriminate|].
    rewrite !exec_sels_S. rewrite Ha, Hb.
    destruct (flatten' (S f) objty (A ++ B)) as [l|e] eqn:Eab.
    - destruct (flatten_app_inv _ _ _ _ _ Eab) as (la' & lb' & Ha' & Hb' & ->).
      rewrite Ha in Ha'. rewrite Hb in Hb'. injection Ha' as <-. injection Hb' as <-.
      fold (groups (la ++ lb)). fold (groups la). fold (groups lb).
      rewrite (groups_app_disjoint (length la) la lb (le_n _) Hd).
      apply sels_go_app.
    - exfalso. (* flatten (A ++ B) cannot be invalid when both parts flatten *)
      pose proof (flatten_app _ _ _ _ _ _ _ Ha Hb) as Hok.
      rewrite (flatten_mono sc frags vars (S f) (S f + S f) objty (A ++ B)) in Hok; [|lia|rewrite Eab; exact Hab].
      rewrite Eab in Hok. discriminate.
  Qed.

  (* E2: disjoint selection sets, executed with their own fuel, merge into the execution of the
     concatenation at any sufficiently large fuel *)
  Theorem exec_split fa fb f objty ov A B path la lb :
    flatten' fa objty A = FlatOk la -> flatten' fb objty B = FlatOk lb ->
    keys_disjoint la lb = true ->
    no_oof (snd (exec_sels' fa objty ov A path)) = true ->
    (fst (exec_sels' fa objty ov A path) <> None -> no_oof (snd (exec_sels' fb objty ov B path)) = true) ->
    (fa + fb <= f)%nat ->
    exec_sels' f objty ov (A ++ B) path =
    split_merge (exec_sels' fa objty ov A path) (exec_sels' fb objty ov B path).
  Proof.
    intros Ha Hb Hd Hna Hnb Hle.
    pose proof (flatten_app _ _ _ _ _ _ _ Ha Hb) as Hab.
    apply flatten_mono_ok with (f' := f) in Hab; [|exact Hle].
    rewrite (exec_split_eq f objty ov A B path la lb).
    - rewrite (exec_sels_fuel_mono sc U frags vars md fa f); [|lia|exact Hna].
      unfold split_merge. destruct (fst (exec_sels' fa objty ov A path)) eqn:Ef; [|reflexivity].
      rewrite (exec_sels_fuel_mono sc U frags vars md fb f); [reflexivity|lia|].
      apply Hnb. discriminate.
    - apply flatten_mono_ok with (f := fa); [lia|exact Ha].
    - apply flatten_mono_ok with (f := fb); [lia|exact Hb].
    - rewrite Hab. reflexivity.
    - exact Hd.
  Qed.
End Split.
