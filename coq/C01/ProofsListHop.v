(* C01 / (2b): list hop.  A field returning a list of entities ([T], [T]!, [T!], [T!]!): one
   [_entities] call with the de-duplicated representations, results mapped back by index and merged
   item-wise, equals monolithic execution (data; errors are empty on one side iff on the other). *)
From Coq Require Import PeanoNat Lia.
From Gv Require Import lib.Bytes lib.Json lib.Gql lib.Exec
     C01.ProofsBase C01.ProofsFuel C01.ProofsSplit C01.ProofsSim C01.ProofsJoin C01.ProofsOverlap
     C01.ProofsTwoStep C01.ProofsDedup C01.ProofsViol C01.ProofsCtxBase C01.ProofsCtx.
Open Scope N_scope.

(* ---- one entity: selA ++ selB and selA ++ keys, split (the core of E4, per entity) ---- *)
Section ItemSplit.
  Variable U : universe.
  Variables (sc : schema) (frags : list fragment) (vars : list (bytes * json)).
  Variables (T : name) (ks : list name) (selA selB flA flB : list selection).
  Variable C : nat.
  Variable e : entity.
  Variable q : list pel.

  Hypothesis HfA : flatten sc frags vars C T selA = FlatOk flA.
  Hypothesis HfB : flatten sc frags vars C T selB = FlatOk flB.
  Hypothesis HfK : flatten sc frags vars C T (key_sels ks) = FlatOk (key_sels ks).
  Hypothesis HfAB : flatten sc frags vars C T (selA ++ selB) = FlatOk (flA ++ flB).
  Hypothesis HfAK : flatten sc frags vars C T (selA ++ key_sels ks) = FlatOk (flA ++ key_sels ks).
  Hypothesis Hdisj : keys_disjoint flA flB = true.
  Hypothesis Hunal : keys_unaliased ks flA = true.
  Hypothesis HT : en_type e = T.
  Hypothesis Hkeys : forallb (key_field_ok sc e) ks = true.
  Hypothesis Hc : (4 <= C)%nat.

  Notation ov := {| ov_ent := e; ov_repr := None |}.
  Definition item_EA : sres := exec_flat sc U frags vars Mono C T ov flA q.
  Definition item_EB0 : sres := exec_sels sc U frags vars Mono C T ov selB [].

  Lemma item_mono_split :
    exec_sels sc U frags vars Mono C T ov (selA ++ selB) q = split_merge item_EA (shift_sres q item_EB0).
  Proof.
    rewrite (exec_split_eq sc U frags vars Mono C T ov selA selB q flA flB HfA HfB); [|rewrite HfAB; reflexivity|exact Hdisj].
    rewrite (exec_sels_flat sc U frags vars Mono C T ov selA q flA HfA).
    rewrite (exec_sels_path_nil sc U frags vars Mono q C T ov selB). reflexivity.
  Qed.

  Lemma item_step1_split :
    exec_sels sc U frags vars Mono C T ov (selA ++ key_sels ks) q =
    split_merge item_EA (Some (added_members e ks flA), []).
  Proof.
    rewrite (exec_split_overlap_partial sc U frags vars Mono C T ov selA (key_sels ks) q flA (key_sels ks) HfA HfK).
    - rewrite (exec_sels_flat sc U frags vars Mono C T ov selA q flA HfA). f_equal.
      rewrite <- HT.
      apply (keys_exec_flat sc U frags vars e ks Hkeys (new_keys flA (key_sels ks)) C q);
        [apply (added_sels_keys sc e ks Hkeys flA)|exact Hc].
    - rewrite HfAK. reflexivity.
    - unfold overlap_nosubs. apply forallb_forall. intros x Hx. unfold key_sels in Hx. apply in_map_iff in Hx.
      destruct Hx as (k & <- & _). cbn. apply orb_true_r.
  Qed.

  Lemma item_reads la ea :
    item_EA = (Some la, ea) ->
    repr_from ks (la ++ added_members e ks flA) = repr_of e ks /\
    keep_selected flA (la ++ added_members e ks flA) = la.
  Proof.
    intros HEA. unfold item_EA in HEA. rewrite <- HT in HEA. split.
    - apply (repr_from_keys sc U frags vars e ks Hkeys flA la ea C q Hunal Hc HEA).
    - apply (keep_selected_members sc U frags vars e ks flA la ea C q HEA).
  Qed.
End ItemSplit.

(* ---- the gateway's item-wise functions ---- *)
Definition is_null (j : json) : bool := match j with JNull => true | _ => false end.
Definition collect_item (ks : list name) (x : json) : list json :=
  match x with JObj l1 => [repr_from ks l1] | _ => [] end.
(* the representations of the non-null items of the first response, in order *)
Definition collect_reprs (ks : list name) (xs : list json) : list json := flat_map (collect_item ks) xs.
(* merge the entity object found for an item into it (dropping planner-added keys); a null entity
   object nulls the item *)
Definition merge_item (ks : list name) (flA : list selection) (look : json -> json) (x : json) : json :=
  match x with
  | JObj l1 => match look (repr_from ks l1) with
               | JObj lb => JObj (keep_selected flA l1 ++ lb)
               | _ => JNull
               end
  | _ => x
  end.

Lemma merge_item_ext ks flA look look' xs :
  (forall r, In r (collect_reprs ks xs) -> look r = look' r) ->
  map (merge_item ks flA look) xs = map (merge_item ks flA look') xs.
Proof.
  induction xs as [|x xs IH]; intros H; [reflexivity|]. cbn [map]. f_equal.
  - destruct x; try reflexivity. cbn [merge_item]. rewrite (H (repr_from ks members)); [reflexivity|].
    unfold collect_reprs. cbn [flat_map collect_item]. left. reflexivity.
  - apply IH. intros r Hr. apply H. unfold collect_reprs in *. cbn [flat_map]. apply in_or_app. right. exact Hr.
Qed.

Section ItemWrap.
  Variable nni : bool.
  Definition itemwrap (q : list pel) (c : cres) : cres := if nni then nonnull_wrap q c else c.
  Lemma itemwrap_json q c : c_json (itemwrap q c) = c_json c.
  Proof. unfold itemwrap, nonnull_wrap. destruct nni; [|reflexivity]. destruct (c_json c) eqn:E; try exact E; reflexivity. Qed.
  Lemma itemwrap_viol q c : c_viol c = false -> c_viol (itemwrap q c) = nni && is_null (c_json c).
  Proof. unfold itemwrap, nonnull_wrap. intros H. destruct nni; [|exact H]. destruct (c_json c); cbn; try exact H; reflexivity. Qed.
  Lemma itemwrap_errs_nil q c :
    c_errs (itemwrap q c) = [] <-> c_errs c = [] /\ nni && is_null (c_json c) = false.
  Proof.
    unfold itemwrap, nonnull_wrap. destruct nni; cbn [andb]; [|tauto].
    destruct (c_json c); cbn [is_null c_errs]; try tauto.
    destruct (c_errs c); split; try discriminate; intros [? ?]; discriminate.
  Qed.
  Lemma itemwrap_noof q c : no_oof (c_errs (itemwrap q c)) = true -> no_oof (c_errs c) = true.
  Proof. unfold itemwrap. destruct nni; [apply nonnull_wrap_noof|auto]. Qed.
End ItemWrap.

Section ListItems.
  Variable U : universe.
  Variables (sc : schema) (frags : list fragment) (vars : list (bytes * json)).
  Variables (nni : bool) (n : name) (cargs : list (bytes * json)).
  Variables (T : name) (ks : list name) (selA selB flA flB : list selection).
  Variable C : nat.

  Hypothesis HfA : flatten sc frags vars C T selA = FlatOk flA.
  Hypothesis HfB : flatten sc frags vars C T selB = FlatOk flB.
  Hypothesis HfK : flatten sc frags vars C T (key_sels ks) = FlatOk (key_sels ks).
  Hypothesis HfAB : flatten sc frags vars C T (selA ++ selB) = FlatOk (flA ++ flB).
  Hypothesis HfAK : flatten sc frags vars C T (selA ++ key_sels ks) = FlatOk (flA ++ key_sels ks).
  Hypothesis Hdisj : keys_disjoint flA flB = true.
  Hypothesis Hunal : keys_unaliased ks flA = true.
  Hypothesis Hc : (4 <= C)%nat.

  Definition EB0 (e : entity) : sres := exec_sels sc U frags vars Mono C T {| ov_ent := e; ov_repr := None |} selB [].
  Definition look_sem (r : json) : json :=
    match find_by_repr U r with Some e => ojson (fst (EB0 e)) | None => JNull end.
  Definition errs_sem (r : json) : list xerr :=
    match find_by_repr U r with Some e => snd (EB0 e) | None => [] end.
  Definition item_c (X : list selection) (it : fval) (q : list pel) : cres :=
    itemwrap nni q (complete_obj sc U frags vars Mono C n cargs it X q).
  Definition ent_static (e : entity) : Prop :=
    en_type e = T /\ find_by_repr U (repr_of e ks) = Some e /\ forallb (key_field_ok sc e) ks = true.
  Definition item_ents_ok (it : fval) : Prop :=
    forall e, obj_target U cargs it = Some (Some e) -> obj_type_ok sc n e = true -> ent_static e.
  Definition item_src (it : fval) (r : json) : Prop :=
    exists e, obj_target U cargs it = Some (Some e) /\ obj_type_ok sc n e = true /\ r = repr_of e ks.

  Definition item_rel_stmt (it : fval) (q : list pel) : Prop :=
    let c1 := item_c (selA ++ key_sels ks) it q in
    let cM := item_c (selA ++ selB) it q in
    c_json cM = merge_item ks flA look_sem (c_json c1) /\
    c_viol c1 = nni && is_null (c_json c1) /\
    c_viol cM = nni && is_null (c_json cM) /\
    (c_errs cM = [] <-> c_errs c1 = [] /\ forall r, In r (collect_item ks (c_json c1)) -> errs_sem r = []) /\
    (forall r, In r (collect_item ks (c_json c1)) -> item_src it r) /\
    (no_oof (c_errs cM) = true ->
     no_oof (c_errs c1) = true /\ forall r, In r (collect_item ks (c_json c1)) -> no_oof (errs_sem r) = true).

  Lemma item_rel_null q errs :
    let c := itemwrap nni q (cnull errs) in
    c_json c = merge_item ks flA look_sem (c_json c) /\
    c_viol c = nni && is_null (c_json c) /\ c_viol c = nni && is_null (c_json c) /\
    (c_errs c = [] <-> c_errs c = [] /\ forall r, In r (collect_item ks (c_json c)) -> errs_sem r = []) /\
    (forall it r, In r (collect_item ks (c_json c)) -> item_src it r) /\
    (no_oof (c_errs c) = true ->
     no_oof (c_errs c) = true /\ forall r, In r (collect_item ks (c_json c)) -> no_oof (errs_sem r) = true).
  Proof.
    cbv zeta. rewrite itemwrap_json. cbn [cnull c_json merge_item collect_item].
    rewrite (itemwrap_viol nni q (cnull errs) eq_refl). cbn [cnull c_json].
    repeat split; try tauto; try (intros ? ? []); try (intros ? []).
  Qed.

  Lemma item_rel it q : item_ents_ok it -> item_rel_stmt it q.
  Proof.
    intros Hok. unfold item_rel_stmt, item_c, complete_obj.
    destruct (obj_target U cargs it) as [[e|]|] eqn:Etg.
    2:{ destruct (item_rel_null q []) as (H1 & H2 & H3 & H4 & H5 & H6). cbv zeta in *. repeat split; try tauto. intros r Hr. apply (H5 it r Hr). }
    2:{ destruct (item_rel_null q [XErr q]) as (H1 & H2 & H3 & H4 & H5 & H6). cbv zeta in *. repeat split; try tauto. intros r Hr. apply (H5 it r Hr). }
    destruct (obj_type_ok sc n e) eqn:Eok; cbn [negb].
    2:{ destruct (item_rel_null q [XErr q]) as (H1 & H2 & H3 & H4 & H5 & H6). cbv zeta in *. repeat split; try tauto. intros r Hr. apply (H5 it r Hr). }
    destruct (Hok e Etg Eok) as (HT & Hfind & Hkeys).
    rewrite !obj_cres_let. rewrite HT.
    rewrite (item_mono_split U sc frags vars T selA selB flA flB C e q HfA HfB HfAB Hdisj).
    rewrite (item_step1_split U sc frags vars T ks selA flA C e q HfA HfK HfAK HT Hkeys Hc).
    pose proof (item_reads U sc frags vars T ks flA C e q Hunal HT Hkeys Hc) as Hreads.
    destruct (item_EA U sc frags vars T flA C e q) as [[la|] ea] eqn:HEA.
    2:{ unfold split_merge, obj_cres. cbn [fst snd].
        destruct (item_rel_null q ea) as (H1 & H2 & H3 & H4 & H5 & H6). cbv zeta in *. repeat split; try tauto. intros r Hr. apply (H5 it r Hr). }
    destruct (Hreads la ea eq_refl) as [Hrepr Hkeep].
    unfold item_EB0. fold (EB0 e). destruct (EB0 e) as [oB eB] eqn:HEB.
    unfold split_merge, shift_sres, obj_cres. cbn [fst snd]. rewrite app_nil_r.
    assert (Hlook : look_sem (repr_of e ks) = ojson oB) by (unfold look_sem; rewrite Hfind, HEB; reflexivity).
    assert (Herrs : errs_sem (repr_of e ks) = eB) by (unfold errs_sem; rewrite Hfind, HEB; reflexivity).
    set (c1 := {| c_json := JObj (la ++ added_members e ks flA); c_errs := ea; c_viol := false |}).
    rewrite !itemwrap_json, !itemwrap_errs_nil.
    rewrite (itemwrap_viol nni q c1 eq_refl).
    cbn [c_json c1 collect_item merge_item]. rewrite Hrepr, Hlook, Hkeep.
    assert (Hsrc : forall r, In r [repr_of e ks] -> item_src it r).
    { intros r [<-|[]]. exists e. repeat split; assumption. }
    destruct oB as [lb|]; cbn [ojson].
    - rewrite itemwrap_viol by reflexivity. cbn [c_json c_errs is_null]. rewrite andb_false_r.
      split; [reflexivity|]. split; [reflexivity|]. split; [reflexivity|]. split.
      + split.
        * intros [H _]. apply app_eq_nil in H. destruct H as [H1 H2]. apply (shift_errs_nil) in H2.
          split; [split; [exact H1|reflexivity]|]. intros r [<-|[]]. rewrite Herrs. exact H2.
        * intros [[H1 _] H2]. specialize (H2 _ (or_introl eq_refl)). rewrite Herrs in H2. unfold c1 in H1. cbn [c_errs] in H1.
          rewrite H1, H2. split; reflexivity.
      + split; [exact Hsrc|]. intros Hn. apply itemwrap_noof in Hn. cbn [c_errs] in Hn.
        rewrite no_oof_app, no_oof_shift in Hn. apply andb_true_iff in Hn. destruct Hn as [Hn1 Hn2].
        split; [unfold itemwrap, c1, nonnull_wrap; destruct nni; exact Hn1|]. intros r [<-|[]]. rewrite Herrs. exact Hn2.
    - assert (HeB : eB <> []).
      { unfold EB0 in HEB. apply (exec_sels_none_errs sc U frags vars Mono _ _ _ _ _ _ HEB). }
      rewrite itemwrap_viol by reflexivity. cbn [cnull c_json c_errs is_null]. rewrite andb_false_r, andb_true_r.
      split; [reflexivity|]. split; [reflexivity|]. split; [reflexivity|]. split.
      + split.
        * intros [H _]. apply app_eq_nil in H. destruct H as [_ H2]. apply shift_errs_nil in H2. contradiction.
        * intros [_ H2]. specialize (H2 _ (or_introl eq_refl)). rewrite Herrs in H2. contradiction.
      + split; [exact Hsrc|]. intros Hn. apply itemwrap_noof in Hn. cbn [c_errs cnull] in Hn.
        rewrite no_oof_app, no_oof_shift in Hn. apply andb_true_iff in Hn. destruct Hn as [Hn1 Hn2].
        split; [unfold itemwrap, c1, nonnull_wrap; destruct nni; exact Hn1|]. intros r [<-|[]]. rewrite Herrs. exact Hn2.
  Qed.

  (* ---- the two list loops, related ---- *)
  Definition list_rel_stmt (items : list fval) (p' : list pel) (i : N) : Prop :=
    let L1 := lst_loop (item_c (selA ++ key_sels ks)) p' i items in
    let LM := lst_loop (item_c (selA ++ selB)) p' i items in
    fst (fst LM) = map (merge_item ks flA look_sem) (fst (fst L1)) /\
    snd L1 = nni && existsb is_null (fst (fst L1)) /\
    snd LM = nni && existsb is_null (fst (fst LM)) /\
    (snd (fst LM) = [] <-> snd (fst L1) = [] /\ forall r, In r (collect_reprs ks (fst (fst L1))) -> errs_sem r = []) /\
    (forall r, In r (collect_reprs ks (fst (fst L1))) -> exists it, In it items /\ item_src it r) /\
    (no_oof (snd (fst LM)) = true ->
     no_oof (snd (fst L1)) = true /\ forall r, In r (collect_reprs ks (fst (fst L1))) -> no_oof (errs_sem r) = true).

  Lemma list_rel items p' :
    (forall it, In it items -> item_ents_ok it) -> forall i, list_rel_stmt items p' i.
  Proof.
    unfold list_rel_stmt. induction items as [|it rest IH]; intros Hok i.
    - cbn [lst_loop fst snd map existsb collect_reprs flat_map]. rewrite andb_false_r.
      repeat split; try tauto; try (intros ? []).
    - cbn [lst_loop].
      assert (Hrest : forall it', In it' rest -> item_ents_ok it') by (intros it' H; apply Hok; right; exact H).
      specialize (IH Hrest (i + 1)).
      destruct (lst_loop (item_c (selA ++ key_sels ks)) p' (i + 1) rest) as [[out1 errs1] viol1].
      destruct (lst_loop (item_c (selA ++ selB)) p' (i + 1) rest) as [[outM errsM] violM].
      cbn [fst snd] in IH. destruct IH as (I1 & I2 & I3 & I4 & I5 & I6).
      destruct (item_rel it (p' ++ [PI i]) (Hok it (or_introl eq_refl))) as (J1 & J2 & J3 & J4 & J5 & J6).
      cbv zeta in J1, J2, J3, J4, J5, J6.
      cbn [fst snd map existsb]. unfold collect_reprs. cbn [flat_map]. fold (collect_reprs ks out1).
      split; [rewrite J1, I1; reflexivity|].
      split; [rewrite J2, I2, andb_orb_distrib_r; reflexivity|].
      split; [rewrite J3, I3, andb_orb_distrib_r; reflexivity|].
      split; [|split].
      + split.
        * intros H. apply app_eq_nil in H. destruct H as [H1 H2].
          destruct (proj1 J4 H1) as [K1 K2]. destruct (proj1 I4 H2) as [K3 K4].
          split; [rewrite K1, K3; reflexivity|]. intros r Hr. apply in_app_or in Hr. destruct Hr as [Hr|Hr]; auto.
        * intros [H Hr]. apply app_eq_nil in H. destruct H as [H1 H2].
          rewrite (proj2 J4), (proj2 I4); [reflexivity| |].
          -- split; [exact H2|]. intros r Hin. apply Hr. apply in_or_app. right. exact Hin.
          -- split; [exact H1|]. intros r Hin. apply Hr. apply in_or_app. left. exact Hin.
      + intros r Hr. apply in_app_or in Hr. destruct Hr as [Hr|Hr].
        * exists it. split; [left; reflexivity|apply J5; exact Hr].
        * destruct (I5 r Hr) as (it' & Hin & Hs). exists it'. split; [right; exact Hin|exact Hs].
      + intros Hn. rewrite no_oof_app in Hn. apply andb_true_iff in Hn. destruct Hn as [Hn1 Hn2].
        destruct (J6 Hn1) as [K1 K2]. destruct (I6 Hn2) as [K3 K4].
        split; [rewrite no_oof_app, K1, K3; reflexivity|].
        intros r Hr. apply in_app_or in Hr. destruct Hr as [Hr|Hr]; auto.
  Qed.
End ListItems.

(* ---- the list hop, unfolded ---- *)
Definition list_ty (nnl nni : bool) (n : name) : ty :=
  let ity := if nni then TNonNull (TNamed n) else TNamed n in
  if nnl then TNonNull (TList ity) else TList ity.
Definition list_hop_fuel (nnl nni : bool) (c : nat) : nat :=
  let g := if nni then S (S c) else S c in
  S (S (if nnl then S (S g) else S g)).

Lemma complete_obj_viol sc U frags vars md c n cargs it X q :
  c_viol (complete_obj sc U frags vars md c n cargs it X q) = false.
Proof.
  unfold complete_obj. destruct (obj_target U cargs it) as [[e|]|]; try reflexivity.
  destruct (negb (obj_type_ok sc n e)); [reflexivity|].
  destruct (exec_sels sc U frags vars md c (en_type e) _ X q) as [[l|] errs]; reflexivity.
Qed.

Lemma itemwrap_viol_errs nni q c :
  c_viol c = false -> c_viol (itemwrap nni q c) = true -> c_errs (itemwrap nni q c) <> [].
Proof.
  unfold itemwrap, nonnull_wrap. destruct nni; [|congruence]. intros Hc.
  destruct (c_json c); cbn [c_viol c_errs]; try congruence. intros _. destruct (c_errs c); discriminate.
Qed.

Lemma field_result_noof_gen nn kf p' c :
  no_oof (snd (field_result nn kf p' c)) = true <-> no_oof (c_errs c) = true.
Proof.
  unfold field_result, nonnull_wrap. destruct nn.
  - destruct (c_json c); cbn [c_viol c_errs]; try (destruct (c_viol c); cbn [snd]; tauto).
    cbn [snd]. destruct (c_errs c); cbn; tauto.
  - destruct (c_viol c); cbn [snd]; tauto.
Qed.

Lemma field_result_cnull_fst nn kf p' errs :
  fst (field_result nn kf p' (cnull errs)) = if nn then None else Some [(kf, JNull)].
Proof. unfold field_result, nonnull_wrap, cnull. destruct nn; reflexivity. Qed.
Lemma field_result_cnull_errs nn kf p' errs :
  errs <> [] -> snd (field_result nn kf p' (cnull errs)) <> [].
Proof. unfold field_result, nonnull_wrap, cnull. destruct nn; cbn; [destruct errs; congruence|auto]. Qed.

Section LHop.
  Variable sc : schema.
  Variable U : universe.
  Variable frags : list fragment.
  Variable vars : list (bytes * json).
  Variables (P : name) (ovP : oval) (af : option name) (f : name) (args : list argument) (dirs : list directive).
  Variable path : list pel.
  Variables (nnl nni : bool) (n : name) (td : type_def) (fd : field_def).
  Variable items : list fval.

  Hypothesis Hname : bytes_eqb f s_typename = false.
  Hypothesis Htd : find_type P (s_types sc) = Some td.
  Hypothesis Hfd : find_field f (td_fields td) = Some fd.
  Hypothesis Hty : fd_type fd = list_ty nnl nni n.
  Hypothesis Hcomp : is_leaf_kind sc n = Some false.
  Hypothesis Hfv : hop_fv ovP f = FLst items.

  Notation kf := (hop_key af f).
  Notation p' := (hop_path af f path).
  Notation cargs := (hop_cargs sc vars args fd).

  Lemma item_complete c X it q :
    complete sc U frags vars Mono (if nni then S (S c) else S c)
             (if nni then TNonNull (TNamed n) else TNamed n) ovP f cargs it X q =
    item_c U sc frags vars nni n cargs c X it q.
  Proof.
    unfold item_c, itemwrap. destruct nni.
    - rewrite complete_S, complete_S, Hcomp. reflexivity.
    - rewrite complete_S, Hcomp. reflexivity.
  Qed.

  Lemma list_hop_exec c X :
    exec_sels sc U frags vars Mono (list_hop_fuel nnl nni c) P ovP [SField af f args dirs X] path =
    if included vars dirs then
      field_result nnl kf p' (list_finish (lst_loop (item_c U sc frags vars nni n cargs c X) p' 0 items))
    else (Some [], []).
  Proof.
    unfold list_hop_fuel. cbv zeta. rewrite exec_sels_S, flatten_S_cons, flatten_S_nil. cbn [flat_here].
    destruct (included vars dirs); cbn [flat_seq app length]; [|reflexivity].
    change (group 2 [SField af f args dirs X]) with (groups [SField af f args dirs X]). rewrite groups_cons.
    cbn [filter flat_map sel_subs sel_key]. rewrite groups_nil, !app_nil_r. cbn [sels_go].
    fold (hop_key af f). fold (hop_path af f path).
    set (g := if nni then S (S c) else S c).
    assert (Hl : complete sc U frags vars Mono (S g) (TList (if nni then TNonNull (TNamed n) else TNamed n))
                          ovP f cargs (FLst items) X p' =
                 list_finish (lst_loop (item_c U sc frags vars nni n cargs c X) p' 0 items)).
    { rewrite complete_S. f_equal. apply lst_loop_ext_in. intros it q _. unfold g. apply item_complete. }
    assert (Hf : exec_field sc U frags vars Mono (S (if nnl then S (S g) else S g)) P ovP kf
                            (SField af f args dirs X) X p' =
                 (if nnl then nonnull_wrap p' else fun r => r)
                   (list_finish (lst_loop (item_c U sc frags vars nni n cargs c X) p' 0 items))).
    { rewrite exec_field_S, Hname. unfold is_entities. rewrite Htd, Hfd, Hty.
      fold cargs. change (field_fval ovP f) with (hop_fv ovP f). rewrite Hfv. unfold list_ty. cbv zeta.
      destruct nnl; [rewrite complete_S|]; rewrite Hl; reflexivity. }
    rewrite Hf. unfold field_result. destruct nnl; cbn beta;
      match goal with |- context [c_viol ?r] => destruct (c_viol r) end; rewrite ?app_nil_r; reflexivity.
  Qed.
End LHop.

(* ---- the batched entity request ---- *)
Lemma join_loop_errs_nil (mono : entity -> sres) path es : forall i,
    snd (join_loop mono path i es) = [] <-> (forall e, In e es -> snd (mono e) = []).
Proof.
  induction es as [|e rest IH]; intros i; [cbn; split; [intros _ e []|reflexivity]|].
  cbn [join_loop]. specialize (IH (i + 1)). destruct (join_loop mono path (i + 1) rest) as [its ers]. cbn [snd] in *.
  split.
  - intros H. apply app_eq_nil in H. destruct H as [H1 H2]. apply shift_errs_nil in H1.
    intros e' [<-|Hin]; [exact H1|]. apply IH; assumption.
  - intros H. rewrite (proj2 (shift_errs_nil _ _) (H e (or_introl eq_refl))). cbn [app].
    apply IH. intros e' Hin. apply H. right. exact Hin.
Qed.

Lemma Forall2_map_r {A B} (P : A -> B -> Prop) (g : A -> B) l :
  Forall (fun a => P a (g a)) l -> Forall2 P l (map g l).
Proof. induction 1; cbn; constructor; auto. Qed.

Definition vars2l_of (vds2 : list vardef) (sup2 : list (bytes * json)) (T : name) (selB : list selection) (rs : list json)
  : list (bytes * json) :=
  effective_vars (entities_op (rep_vd :: vds2) T selB) ((s_representations, JArr rs) :: sup2).
Lemma vars2l_repr vds2 sup2 T selB rs : assoc s_representations (vars2l_of vds2 sup2 T selB rs) = Some (JArr rs).
Proof.
  unfold vars2l_of, effective_vars. cbn [op_vars entities_op flat_map vd_name rep_vd assoc].
  rewrite bytes_eqb_refl. cbn [app assoc]. rewrite bytes_eqb_refl. reflexivity.
Qed.

Section Fetch.
  Variable U : universe.
  Variables (sc : schema) (frags : list fragment) (vars : list (bytes * json)).
  Variables (sc2 : schema) (frags2 : list fragment) (vds2 : list vardef) (sup2 : list (bytes * json)).
  Variable root2 : entity.
  Variables (T : name) (ks : list name) (selB flB2 : list selection).
  Variables (C g2 : nat).

  Hypothesis Hk2 : kind_of sc2 T <> None.
  Hypothesis Hfr2 : frags_noent frags2 = true.
  Hypothesis HsB : sels_noent selB = true.
  Hypothesis Hroot2 : find_entity U (s_query sc2) [] = Some root2.

  Notation EB0' := (EB0 U sc frags vars T selB C).
  Notation look_sem' := (look_sem U sc frags vars T selB C).
  Notation errs_sem' := (errs_sem U sc frags vars T selB C).

  (* what has to hold of a representation sent to subgraph 2 *)
  Definition good_repr (rs : list json) (r : json) : Prop :=
    exists e, find_by_repr U r = Some e /\ en_type e = T /\ r = repr_of e ks /\
              reqs_covered e flB2 ks = true /\ no_oof (snd (EB0' e)) = true /\
              (forall fuel,
                  exec_sels sc2 U frags2 (vars2l_of vds2 sup2 T selB rs) Mono fuel T {| ov_ent := e; ov_repr := None |} selB [] =
                  exec_sels sc U frags vars Mono fuel T {| ov_ent := e; ov_repr := None |} selB []).

  Lemma fetch_list rs f2 :
    flatten sc2 frags2 (vars2l_of vds2 sup2 T selB rs) g2 T selB = FlatOk flB2 ->
    Forall (good_repr rs) rs -> (C + g2 + 3 <= f2)%nat ->
    exists E,
      execute f2 sc2 U Sub (entities_doc (rep_vd :: vds2) T selB frags2) None
              (JObj ((s_representations, JArr rs) :: sup2)) =
      {| rs_data := JObj [(s_entities, JArr (map look_sem' rs))]; rs_errs := E |} /\
      (E = [] <-> forall r, In r rs -> errs_sem' r = []).
  Proof.
    intros Hfl Hgood Hle.
    set (ent_of := fun r => match find_by_repr U r with Some e => e | None => root2 end).
    set (v2 := vars2l_of vds2 sup2 T selB rs).
    assert (Hmono : forall r, In r rs -> mono_at sc2 U frags2 v2 (C + g2) T selB (ent_of r) = EB0' (ent_of r) /\
                                          find_by_repr U r = Some (ent_of r)).
    { intros r Hr. rewrite Forall_forall in Hgood. destruct (Hgood r Hr) as (e & Hf & HT & Hre & Hrq & Hn & H2).
      unfold ent_of. rewrite Hf. split; [|reflexivity]. unfold mono_at. fold v2 in H2. rewrite H2.
      unfold EB0. apply exec_sels_fuel_mono; [lia|exact Hn]. }
    eexists. split.
    - rewrite (entity_join_execute_list sc2 U frags2 (C + g2) f2 (rep_vd :: vds2) T selB
                 (JObj ((s_representations, JArr rs) :: sup2)) root2 flB2 rs (map ent_of rs) Hroot2 Hk2 Hfr2 HsB).
      + cbn [supplied_members]. fold (vars2l_of vds2 sup2 T selB rs). fold v2.
        rewrite join_loop_items. rewrite map_map.
        rewrite (map_ext_in _ look_sem' rs); [reflexivity|].
        intros r Hr. destruct (Hmono r Hr) as [Hm Hf]. rewrite Hm.
        unfold look_sem. rewrite Hf. reflexivity.
      + cbn [supplied_members]. exact (vars2l_repr vds2 sup2 T selB rs).
      + cbn [supplied_members]. apply flatten_mono_ok with (f := g2); [lia|exact Hfl].
      + cbn [supplied_members]. fold (vars2l_of vds2 sup2 T selB rs). fold v2.
        apply Forall2_map_r. apply Forall_forall. intros r Hr.
        destruct (Hmono r Hr) as [Hm Hf]. rewrite Forall_forall in Hgood.
        destruct (Hgood r Hr) as (e & Hf' & HT & Hre & Hrq & Hn & H2).
        assert (He : ent_of r = e) by (unfold ent_of; rewrite Hf'; reflexivity). rewrite He in *.
        split; [exact Hf'|]. split; [exact HT|]. split.
        * rewrite Hre. apply reqs_covered_agree. exact Hrq.
        * rewrite Hm. exact Hn.
      + lia.
    - cbn [supplied_members]. fold (vars2l_of vds2 sup2 T selB rs). fold v2.
      rewrite join_loop_errs_nil. split.
      + intros H r Hr. destruct (Hmono r Hr) as [Hm Hf]. unfold errs_sem. rewrite Hf, <- Hm.
        apply H. apply in_map. exact Hr.
      + intros H e He. apply in_map_iff in He. destruct He as (r & <- & Hr).
        destruct (Hmono r Hr) as [Hm Hf]. rewrite Hm. specialize (H r Hr). unfold errs_sem in H. rewrite Hf in H. exact H.
  Qed.
End Fetch.

(* ---- (2b) the theorem ---- *)
Definition finish_list (nni : bool) (zs : list json) : json :=
  if nni && existsb is_null zs then JNull else JArr zs.

Lemma list_hop_arith fM g0 g2 lk f1 f2 (nnl nni : bool) :
  (fM + g0 + g0 + lk + 12 <= f1)%nat -> (fM + g0 + g0 + lk + 12 + g2 <= f2)%nat ->
  let C := (fM + g0 + g0 + lk + 6)%nat in
  (list_hop_fuel nnl nni C <= f1)%nat /\ (fM <= list_hop_fuel nnl nni C)%nat /\ (g0 <= C)%nat /\ (g0 + g0 <= C)%nat /\
  (lk + 2 <= C)%nat /\ (g0 + (lk + 2) <= C)%nat /\ (4 <= C)%nat /\ (C + g2 + 3 <= f2)%nat /\ (lk + 2 <= lk + 2)%nat.
Proof. intros H1 H2 C. unfold list_hop_fuel, C. destruct nnl, nni; repeat split; lia. Qed.

Lemma existsb_null_merge ks flA look xs :
  existsb is_null xs = true -> existsb is_null (map (merge_item ks flA look) xs) = true.
Proof.
  induction xs as [|x xs IH]; [discriminate|]. cbn [existsb map]. intros H. apply orb_true_iff in H.
  apply orb_true_iff. destruct H as [H|H]; [left; destruct x; try discriminate; reflexivity|right; apply IH; exact H].
Qed.

Section ListHop.
  Variable U : universe.
  Variables (sc : schema) (frags : list fragment) (vars : list (bytes * json)).
  Variables (sc1 : schema) (frags1 : list fragment) (vars1 : list (bytes * json)).
  Variables (sc2 : schema) (frags2 : list fragment) (vds2 : list vardef) (sup2 : list (bytes * json)).
  Variable root2 : entity.
  Variables (P : name) (eP : entity) (af : option name) (f : name) (args : list argument) (dirs : list directive).
  Variable path : list pel.
  Variables (nnl nni : bool) (n : name) (td : type_def) (fd : field_def).
  Variable items : list fval.
  Variables (T : name) (ks : list name) (selA selB : list selection) (flA flB flB2 : list selection).
  Variables (g0 g2 : nat).

  Notation ovP := {| ov_ent := eP; ov_repr := None |}.
  Notation kf := (response_name af f).
  Notation p' := (path ++ [PN (response_name af f)]).
  Notation fld X := (SField af f args dirs X).
  Notation cargs := (hop_cargs sc vars args fd).

  (* step 2 for a list: collect, de-duplicate, fetch once, map back by index, merge item-wise *)
  Definition step2_list (R1 : sres) (f2 : nat) : sres :=
    match R1 with
    | (Some [(_, JArr xs)], errs1) =>
      let rs := dedup (collect_reprs ks xs) in
      let resp := execute f2 sc2 U Sub (entities_doc (rep_vd :: vds2) T selB frags2) None
                          (JObj ((s_representations, JArr rs) :: sup2)) in
      match rs_data resp with
      | JObj [(_, JArr ys)] =>
        let look := fun r => nth (index_of r rs) ys JNull in
        let v := finish_list nni (map (merge_item ks flA look) xs) in
        (match v with JNull => if nnl then None else Some [(kf, JNull)] | _ => Some [(kf, v)] end,
         errs1 ++ rs_errs resp)
      | _ => R1
      end
    | _ => R1
    end.
  Definition two_step_list (f1 f2 : nat) : sres :=
    step2_list (exec_sels sc1 U frags1 vars1 Sub f1 P ovP [fld (selA ++ key_sels ks)] path) f2.

  Hypothesis Hname : bytes_eqb f s_typename = false.
  Hypothesis Htd : find_type P (s_types sc) = Some td.
  Hypothesis Hfd : find_field f (td_fields td) = Some fd.
  Hypothesis Hty : fd_type fd = list_ty nnl nni n.
  Hypothesis Hcomp : is_leaf_kind sc n = Some false.
  Hypothesis Hfv : hop_fv ovP f = FLst items.
  Hypothesis Hfr1 : frags_noent frags1 = true.
  Hypothesis Hs1 : sels_noent [fld (selA ++ key_sels ks)] = true.
  Hypothesis H1 : forall fuel,
      exec_sels sc1 U frags1 vars1 Mono fuel P ovP [fld (selA ++ key_sels ks)] path =
      exec_sels sc U frags vars Mono fuel P ovP [fld (selA ++ key_sels ks)] path.
  Hypothesis Hk2 : kind_of sc2 T <> None.
  Hypothesis Hfr2 : frags_noent frags2 = true.
  Hypothesis HsB : sels_noent selB = true.
  Hypothesis Hroot2 : find_entity U (s_query sc2) [] = Some root2.
  Hypothesis HflA : flatten sc frags vars g0 T selA = FlatOk flA.
  Hypothesis HflB : flatten sc frags vars g0 T selB = FlatOk flB.
  Hypothesis Hdisj : keys_disjoint flA flB = true.
  Hypothesis Hunal : keys_unaliased ks flA = true.
  Hypothesis HflB2 : forall rs, flatten sc2 frags2 (vars2l_of vds2 sup2 T selB rs) g2 T selB = FlatOk flB2.
  (* every entity the list contains *)
  Hypothesis Hent : forall it e,
      In it items -> obj_target U cargs it = Some (Some e) -> obj_type_ok sc n e = true ->
      en_type e = T /\ find_by_repr U (repr_of e ks) = Some e /\ forallb (key_field_ok sc e) ks = true /\
      reqs_covered e flB2 ks = true /\
      (forall rs fuel,
          exec_sels sc2 U frags2 (vars2l_of vds2 sup2 T selB rs) Mono fuel T {| ov_ent := e; ov_repr := None |} selB [] =
          exec_sels sc U frags vars Mono fuel T {| ov_ent := e; ov_repr := None |} selB []).

  Lemma step2_list_null errs f2 :
    step2_list (field_result nnl kf p' (cnull errs)) f2 = field_result nnl kf p' (cnull errs).
  Proof. unfold field_result, nonnull_wrap, cnull. destruct nnl; cbn; reflexivity. Qed.

  Definition list_hop_fuel_bound (fM : nat) : nat := (fM + g0 + g0 + length ks + 12)%nat.

  Theorem federated_two_step_list_main fM f1 f2 :
    no_oof (snd (mono_hop U sc frags vars P eP af f args dirs path selA selB fM)) = true ->
    (list_hop_fuel_bound fM <= f1)%nat -> (list_hop_fuel_bound fM + g2 <= f2)%nat ->
    fst (two_step_list f1 f2) = fst (mono_hop U sc frags vars P eP af f args dirs path selA selB fM) /\
    (snd (two_step_list f1 f2) = [] <-> snd (mono_hop U sc frags vars P eP af f args dirs path selA selB fM) = []).
  Proof.
    intros Hn Hf1 Hf2. unfold list_hop_fuel_bound in *.
    destruct (list_hop_arith fM g0 g2 (length ks) f1 f2 nnl nni Hf1 Hf2)
      as (HC1 & HCM & Hc1 & Hc2 & Hc3 & Hc4 & Hc5 & Hc6 & Hc9).
    set (C := (fM + g0 + g0 + length ks + 6)%nat) in *. clearbody C.
    unfold mono_hop in *.
    assert (HM : exec_sels sc U frags vars Mono (list_hop_fuel nnl nni C) P ovP [fld (selA ++ selB)] path =
                 exec_sels sc U frags vars Mono fM P ovP [fld (selA ++ selB)] path)
      by (apply exec_sels_fuel_mono; assumption).
    rewrite <- HM. rewrite <- HM in Hn. clear HM.
    unfold two_step_list.
    pose proof (list_hop_exec sc U frags vars P ovP af f args dirs path nnl nni n td fd items Hname Htd Hfd Hty Hcomp Hfv C) as Hex.
    unfold hop_path, hop_key in Hex.
    rewrite (Hex (selA ++ selB)) in Hn |- *.
    assert (Htr : no_oof (snd (exec_sels sc U frags vars Mono (list_hop_fuel nnl nni C) P ovP [fld (selA ++ key_sels ks)] path)) = true ->
                  exec_sels sc1 U frags1 vars1 Sub f1 P ovP [fld (selA ++ key_sels ks)] path =
                  exec_sels sc U frags vars Mono (list_hop_fuel nnl nni C) P ovP [fld (selA ++ key_sels ks)] path).
    { intros Hn1. rewrite (exec_sels_sub_mono sc1 U frags1 vars1 f1 P eP _ path Hfr1 Hs1).
      rewrite H1. apply exec_sels_fuel_mono; assumption. }
    rewrite (Hex (selA ++ key_sels ks)) in Htr.
    destruct (included vars dirs).
    2:{ rewrite (Htr eq_refl). split; reflexivity. }
    (* flatten facts at fuel C *)
    assert (HfA : flatten sc frags vars C T selA = FlatOk flA) by (apply flatten_mono_ok with (f := g0); [exact Hc1|exact HflA]).
    assert (HfB : flatten sc frags vars C T selB = FlatOk flB) by (apply flatten_mono_ok with (f := g0); [exact Hc1|exact HflB]).
    assert (HfK : flatten sc frags vars C T (key_sels ks) = FlatOk (key_sels ks)) by (apply flatten_key_sels; exact Hc3).
    assert (HfAB : flatten sc frags vars C T (selA ++ selB) = FlatOk (flA ++ flB)).
    { apply flatten_mono_ok with (f := (g0 + g0)%nat); [exact Hc2|]. apply flatten_app; assumption. }
    assert (HfAK : flatten sc frags vars C T (selA ++ key_sels ks) = FlatOk (flA ++ key_sels ks)).
    { apply flatten_mono_ok with (f := (g0 + (length ks + 2))%nat); [exact Hc4|]. apply flatten_app; [exact HflA|].
      apply flatten_key_sels. exact Hc9. }
    (* the two loops *)
    assert (Hoks : forall it, In it items -> item_ents_ok U sc n cargs T ks it).
    { intros it Hin e He Hok. destruct (Hent it e Hin He Hok) as (Ha & Hb & Hc & _). repeat split; assumption. }
    pose proof (list_rel U sc frags vars nni n cargs T ks selA selB flA flB C HfA HfB HfK HfAB HfAK Hdisj Hunal Hc5
                         items p' Hoks 0) as HR.
    unfold list_rel_stmt in HR. cbv zeta in HR.
    destruct (lst_loop (item_c U sc frags vars nni n cargs C (selA ++ key_sels ks)) p' 0 items) as [[out1 errs1] viol1] eqn:EL1.
    destruct (lst_loop (item_c U sc frags vars nni n cargs C (selA ++ selB)) p' 0 items) as [[outM errsM] violM] eqn:ELM.
    cbn [fst snd] in HR. destruct HR as (I1 & I2 & I3 & I4 & I5 & I6).
    assert (HnM : no_oof errsM = true).
    { apply field_result_noof_gen in Hn. rewrite list_finish_errs in Hn. exact Hn. }
    destruct (I6 HnM) as [Hn1 Hnr].
    rewrite Htr; [|apply field_result_noof_gen; rewrite list_finish_errs; exact Hn1].
    assert (Hitem_viol : forall X it q, c_viol (item_c U sc frags vars nni n cargs C X it q) = true ->
                                        c_errs (item_c U sc frags vars nni n cargs C X it q) <> []).
    { intros X it q. unfold item_c. apply itemwrap_viol_errs. apply complete_obj_viol. }
    unfold list_finish.
    destruct viol1 eqn:Ev1.
    - (* the list is already null after step 1 *)
      rewrite step2_list_null.
      assert (HvM : violM = true).
      { rewrite I3, I1. symmetry in I2. apply andb_true_iff in I2. destruct I2 as [-> I2]. cbn [andb].
        apply existsb_null_merge. exact I2. }
      rewrite HvM. rewrite !field_result_cnull_fst. split; [reflexivity|].
      assert (He1 : errs1 <> []).
      { pose proof (lst_loop_viol_errs _ p' items (Hitem_viol (selA ++ key_sels ks)) 0) as H. rewrite EL1 in H. apply H. reflexivity. }
      assert (HeM : errsM <> []).
      { pose proof (lst_loop_viol_errs _ p' items (Hitem_viol (selA ++ selB)) 0) as H. rewrite ELM in H. apply H. exact HvM. }
      split; intros H; exfalso; [apply (field_result_cnull_errs nnl kf p' errs1 He1)|apply (field_result_cnull_errs nnl kf p' errsM HeM)]; exact H.
    - (* step 1 returned a list *)
      assert (HR1 : field_result nnl kf p' {| c_json := JArr out1; c_errs := errs1; c_viol := false |} =
                    (Some [(kf, JArr out1)], errs1)).
      { unfold field_result, nonnull_wrap. destruct nnl; reflexivity. }
      rewrite HR1. unfold step2_list.
      set (rs := dedup (collect_reprs ks out1)).
      assert (Hgood : Forall (good_repr U sc frags vars sc2 frags2 vds2 sup2 T ks selB flB2 C rs) rs).
      { apply Forall_forall. intros r Hr. unfold rs in Hr. apply (proj1 (dedup_in _ _)) in Hr.
        destruct (I5 r Hr) as (it & Hin & e & He & Hok & ->).
        destruct (Hent it e Hin He Hok) as (HT & Hfind & Hkeys & Hrq & H2).
        exists e. split; [exact Hfind|]. split; [exact HT|]. split; [reflexivity|]. split; [exact Hrq|]. split.
        - specialize (Hnr _ Hr). unfold errs_sem in Hnr. rewrite Hfind in Hnr. exact Hnr.
        - intros fuel. apply H2. }
      destruct (fetch_list U sc frags vars sc2 frags2 vds2 sup2 root2 T ks selB flB2 C g2 Hk2 Hfr2 HsB Hroot2 rs f2
                           (HflB2 rs) Hgood Hc6) as (E & Hresp & HE).
      rewrite Hresp. cbn [rs_data rs_errs fst snd].
      rewrite (merge_item_ext ks flA _ (look_sem U sc frags vars T selB C) out1).
      2:{ intros r Hr. apply nth_index_map. unfold rs. apply (proj2 (dedup_in _ _)). exact Hr. }
      rewrite <- I1. unfold finish_list. rewrite <- I3.
      assert (Herr : errs1 ++ E = [] <-> errsM = []).
      { rewrite I4. split.
        - intros H. apply app_eq_nil in H. destruct H as [H1' H2']. split; [exact H1'|].
          intros r Hr. apply (proj1 HE H2'). unfold rs. apply (proj2 (dedup_in _ _)). exact Hr.
        - intros [H1' H2']. rewrite H1'. cbn [app]. apply HE. intros r Hr. apply H2'. unfold rs in Hr. apply (proj1 (dedup_in _ _)) in Hr. exact Hr. }
      destruct violM eqn:EvM.
      + rewrite field_result_cnull_fst. split; [reflexivity|].
        assert (HeM : errsM <> []).
        { pose proof (lst_loop_viol_errs _ p' items (Hitem_viol (selA ++ selB)) 0) as H. rewrite ELM in H. apply H. reflexivity. }
        split; intros H; exfalso; [apply HeM; apply Herr; exact H|apply (field_result_cnull_errs nnl kf p' errsM HeM); exact H].
      + assert (HRM : field_result nnl kf p' {| c_json := JArr outM; c_errs := errsM; c_viol := false |} =
                      (Some [(kf, JArr outM)], errsM)).
        { unfold field_result, nonnull_wrap. destruct nnl; reflexivity. }
        rewrite HRM. cbn [fst snd]. split; [reflexivity|exact Herr].
  Qed.
End ListHop.
