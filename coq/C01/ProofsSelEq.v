(* C01 / (6): decidable equality of selections (used by the plan-tree validator to compare a flattened selection
   with the selection a plan tree stands for). *)
From Coq Require Import PeanoNat Lia Bool.
From Gv Require Import lib.Bytes lib.Json lib.Gql lib.Exec C01.ProofsBase C01.ProofsCtxBase.

Fixpoint args_eqb (a b : list argument) : bool :=
  match a, b with
  | [], [] => true
  | (k, v) :: a', (k', v') :: b' => bytes_eqb k k' && value_eqb v v' && args_eqb a' b'
  | _, _ => false
  end.
Lemma args_eqb_eq : forall a b, args_eqb a b = true -> a = b.
Proof.
  induction a as [|[k v] a IH]; intros [|[k' v'] b] H; cbn [args_eqb] in H; try discriminate; [reflexivity|].
  apply andb_true_iff in H. destruct H as [H H3]. apply andb_true_iff in H. destruct H as [H1 H2].
  apply bytes_eqb_eq in H1. apply value_eqb_eq in H2. rewrite (IH _ H3). congruence.
Qed.
Definition dir_eqb (a b : directive) : bool := bytes_eqb (d_name a) (d_name b) && args_eqb (d_args a) (d_args b).
Lemma dir_eqb_eq a b : dir_eqb a b = true -> a = b.
Proof.
  destruct a as [n1 a1], b as [n2 a2]. unfold dir_eqb. cbn [d_name d_args]. intros H.
  apply andb_true_iff in H. destruct H as [H1 H2]. apply bytes_eqb_eq in H1. apply args_eqb_eq in H2. congruence.
Qed.
Fixpoint dirs_eqb (a b : list directive) : bool :=
  match a, b with
  | [], [] => true
  | x :: a', y :: b' => dir_eqb x y && dirs_eqb a' b'
  | _, _ => false
  end.
Lemma dirs_eqb_eq : forall a b, dirs_eqb a b = true -> a = b.
Proof.
  induction a as [|x a IH]; intros [|y b] H; cbn [dirs_eqb] in H; try discriminate; [reflexivity|].
  apply andb_true_iff in H. destruct H as [H1 H2]. apply dir_eqb_eq in H1. rewrite (IH _ H2). congruence.
Qed.

Fixpoint sel_eqb (a b : selection) {struct a} : bool :=
  match a, b with
  | SField a1 n1 g1 d1 s1, SField a2 n2 g2 d2 s2 =>
    opt_bytes_eqb a1 a2 && bytes_eqb n1 n2 && args_eqb g1 g2 && dirs_eqb d1 d2 &&
    (fix go (x y : list selection) : bool :=
       match x, y with
       | [], [] => true
       | p :: x', q :: y' => sel_eqb p q && go x' y'
       | _, _ => false
       end) s1 s2
  | SInline c1 d1 s1, SInline c2 d2 s2 =>
    opt_bytes_eqb c1 c2 && dirs_eqb d1 d2 &&
    (fix go (x y : list selection) : bool :=
       match x, y with
       | [], [] => true
       | p :: x', q :: y' => sel_eqb p q && go x' y'
       | _, _ => false
       end) s1 s2
  | SSpread f1 d1, SSpread f2 d2 => bytes_eqb f1 f2 && dirs_eqb d1 d2
  | _, _ => false
  end.
Fixpoint sels_eqb (x y : list selection) : bool :=
  match x, y with
  | [], [] => true
  | p :: x', q :: y' => sel_eqb p q && sels_eqb x' y'
  | _, _ => false
  end.

Lemma opt_bytes_eqb_eq a b : opt_bytes_eqb a b = true -> a = b.
Proof. destruct a, b; cbn; intros H; try discriminate; [apply bytes_eqb_eq in H; congruence|reflexivity]. Qed.

Lemma sel_eqb_eq_n : forall n a b, (sel_size a <= n)%nat -> sel_eqb a b = true -> a = b.
Proof.
  induction n as [|n IH]; intros a b Hn H.
  - destruct a; cbn [sel_size] in Hn; lia.
  - assert (Hgo : forall s1 s2, (sels_size s1 <= n)%nat ->
                  (fix go (x y : list selection) : bool :=
                     match x, y with
                     | [], [] => true
                     | p :: x', q :: y' => sel_eqb p q && go x' y'
                     | _, _ => false
                     end) s1 s2 = true -> s1 = s2).
    { induction s1 as [|p s1 IHs]; intros [|q s2] Hs Hg; try discriminate; [reflexivity|].
      apply andb_true_iff in Hg. destruct Hg as [Hg1 Hg2].
      change (sels_size (p :: s1)) with (sel_size p + sels_size s1)%nat in Hs.
      f_equal; [apply (IH p q); [lia|exact Hg1]|apply IHs; [lia|exact Hg2]]. }
    destruct a as [a1 n1 g1 d1 s1|c1 d1 s1|f1 d1], b as [a2 n2 g2 d2 s2|c2 d2 s2|f2 d2]; cbn [sel_eqb] in H; try discriminate.
    + cbn [sel_size] in Hn.
      apply andb_true_iff in H. destruct H as [H H5]. apply andb_true_iff in H. destruct H as [H H4].
      apply andb_true_iff in H. destruct H as [H H3]. apply andb_true_iff in H. destruct H as [H1 H2].
      apply opt_bytes_eqb_eq in H1. apply bytes_eqb_eq in H2. apply args_eqb_eq in H3. apply dirs_eqb_eq in H4.
      apply Hgo in H5; [congruence|]. fold (sels_size s1) in Hn. lia.
    + cbn [sel_size] in Hn.
      apply andb_true_iff in H. destruct H as [H H3]. apply andb_true_iff in H. destruct H as [H1 H2].
      apply opt_bytes_eqb_eq in H1. apply dirs_eqb_eq in H2.
      apply Hgo in H3; [congruence|]. fold (sels_size s1) in Hn. lia.
    + apply andb_true_iff in H. destruct H as [H1 H2]. apply bytes_eqb_eq in H1. apply dirs_eqb_eq in H2. congruence.
Qed.
Lemma sel_eqb_eq a b : sel_eqb a b = true -> a = b.
Proof. apply (sel_eqb_eq_n (sel_size a)). apply Nat.le_refl. Qed.
Lemma sels_eqb_eq : forall x y, sels_eqb x y = true -> x = y.
Proof.
  induction x as [|p x IH]; intros [|q y] H; cbn [sels_eqb] in H; try discriminate; [reflexivity|].
  apply andb_true_iff in H. destruct H as [H1 H2]. apply sel_eqb_eq in H1. rewrite (IH _ H2). congruence.
Qed.
