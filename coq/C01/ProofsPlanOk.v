(* C01 / (4), part 3: the plan checker [plan_ok_b] and [plan_ok_sound_keys_partial]. *)
From Coq Require Import PeanoNat Lia.
From Gv Require Import lib.Bytes lib.Json lib.Gql lib.Exec
     C01.ProofsBase C01.ProofsFuel C01.ProofsSplit C01.ProofsSim C01.ProofsJoin C01.ProofsOverlap
     C01.ProofsTwoStep C01.ProofsViol C01.ProofsCtxBase C01.ProofsCtx C01.ProofsTwoStepWf C01.ProofsPlanAlg C01.ProofsPlan.
Open Scope N_scope.

Fixpoint names_eqb (a b : list name) : bool :=
  match a, b with
  | [], [] => true
  | x :: a', y :: b' => bytes_eqb x y && names_eqb a' b'
  | _, _ => false
  end.
Lemma names_eqb_eq a b : names_eqb a b = true -> a = b.
Proof.
  revert b. induction a as [|x a IH]; intros [|y b] H; cbn in H; try discriminate; [reflexivity|].
  apply andb_true_iff in H. destruct H as [H1 H2]. apply bytes_eqb_eq in H1. f_equal; [exact H1|apply IH; exact H2].
Qed.
Definition key_declared (decls : list (name * list name)) (T : name) (ks : list name) : bool :=
  existsb (fun d => bytes_eqb (fst d) T && names_eqb (snd d) ks) decls.
Lemma key_declared_In decls T ks : key_declared decls T ks = true -> In (T, ks) decls.
Proof.
  unfold key_declared. intros H. apply existsb_exists in H. destruct H as ([t k] & Hin & H). cbn [fst snd] in H.
  apply andb_true_iff in H. destruct H as [H1 H2]. apply bytes_eqb_eq in H1. apply names_eqb_eq in H2. subst. exact Hin.
Qed.

Definition s_Entity : bytes := [95; 69; 110; 116; 105; 116; 121].

Lemma obj_type_ok_object sc T e :
  declared_obj sc T = true -> bytes_eqb T s_Entity = false -> obj_type_ok sc T e = true -> en_type e = T.
Proof.
  unfold declared_obj, obj_type_ok, kind_of, possible, type_applies. intros Hd HE.
  destruct (find_type T (s_types sc)) as [td|] eqn:Ef; [|discriminate].
  destruct (builtin_scalar T).
  - change [95; 69; 110; 116; 105; 116; 121] with s_Entity. rewrite HE. cbn [orb].
    destruct (td_kind td); try discriminate. rewrite orb_false_r. apply bytes_eqb_eq.
  - change [95; 69; 110; 116; 105; 116; 121] with s_Entity. rewrite HE. cbn [orb].
    destruct (td_kind td); try discriminate. rewrite orb_false_r. apply bytes_eqb_eq.
Qed.

Fixpoint plan_ks (ds : list dfield) : nat :=
  match ds with
  | [] => O
  | d :: r => Nat.max (match df_fetch d with Some phi => length (ef_ks phi) | None => O end) (plan_ks r)
  end.
Lemma plan_ks_le ds d phi : In d ds -> df_fetch d = Some phi -> (length (ef_ks phi) <= plan_ks ds)%nat.
Proof.
  induction ds as [|x r IH]; intros Hin Hf; [destruct Hin|]. cbn [plan_ks]. destruct Hin as [->|Hin].
  - rewrite Hf. lia.
  - specialize (IH Hin Hf). lia.
Qed.

Section PlanOk.
  Variable U : universe.
  Variables (sc : schema) (frags : list fragment) (vdsM : list vardef) (supM : list (bytes * json)).
  Variable sc0 : schema.
  Variable eQ : entity.
  Variables (g0 kq f1 f2 fM : nat).
  Variable decls : list (name * list name).

  Notation vars := (pvars vdsM supM).
  Notation Q := (s_query sc).
  Notation flat_of' := (flat_of sc frags vdsM supM g0).

  Definition flat_okb (T : name) (sel : list selection) : bool :=
    match flatten sc frags vars g0 T sel with FlatOk _ => true | FlatBad _ => false end.

  Definition fetch_ok_b (d : dfield) (phi : efetch) : bool :=
    let T := ef_T phi in let ks := ef_ks phi in let selB := ef_sel phi in let sub := ef_sub phi in
    match find_type Q (s_types sc) with
    | Some td =>
      match find_field (df_name d) (td_fields td) with
      | Some fd => ty_eqb (fd_type fd) (if df_nn d then TNonNull (TNamed T) else TNamed T)
      | None => false
      end
    | None => false
    end &&
    match is_leaf_kind sc T with Some false => true | _ => false end &&
    declared_obj sc T && negb (bytes_eqb T s_Entity) &&
    sels_noent selB &&
    config_wf_b sc sub && univ_ok_b sub U && req_ok_b sub frags vars not_repr kq T selB &&
    match find_entity U (s_query sub) [] with Some _ => true | None => false end &&
    flat_okb T (df_selA d) && flat_okb T selB &&
    keys_disjoint (flat_of' T (df_selA d)) (flat_of' T selB) &&
    keys_unaliased ks (flat_of' T (df_selA d)) &&
    key_declared decls T ks &&
    forallb (fun e => negb (bytes_eqb (en_type e) T) ||
                      (forallb (key_field_ok sc e) ks && reqs_covered e (flat_of' T selB) ks)) U.

  Definition field_ok_b (d : dfield) : bool :=
    negb (bytes_eqb (df_name d) s_typename) &&
    sels_noent [root_sel d] &&
    req_ok_b sc0 frags vars (fun _ => true) kq Q [root_sel d] &&
    match df_fetch d with Some phi => fetch_ok_b d phi | None => true end.

  (* each fetch's request is executable on its subgraph, its representation is a declared key that
     identifies the entity and covers what the fetched selection requires, the fetched and the root
     parts of every sub-selection have disjoint keys, planner-added key fields are hidden *)
  Definition plan_ok_b (ds : list dfield) : bool :=
    frags_noent frags && config_wf_b sc sc0 && univ_ok_b sc0 U &&
    keys_distinct (map root_sel ds) &&
    forallb (fun vd => not_repr (vd_name vd)) vdsM &&
    key_consistent decls U &&
    forallb field_ok_b ds.

  Definition plan_fuel (ds : list dfield) : nat := (fM + g0 + g0 + plan_ks ds + length ds + 12)%nat.

  Hypothesis HeQ : find_entity U Q [] = Some eQ.

  Lemma link_of ds d :
    plan_ok_b ds = true -> In d ds -> (plan_fuel ds <= f1)%nat -> (plan_fuel ds + g0 <= f2)%nat ->
    link U sc frags vdsM supM sc0 eQ g0 f1 f2 fM d.
  Proof.
    intros Hok Hin Hf1 Hf2 Hn. unfold plan_ok_b in Hok.
    repeat (apply andb_true_iff in Hok; destruct Hok as [Hok ?]).
    match goal with H : forallb field_ok_b ds = true |- _ => rename H into HF end.
    match goal with H : key_consistent decls U = true |- _ => rename H into Hkc end.
    match goal with H : forallb (fun vd => not_repr (vd_name vd)) vdsM = true |- _ => rename H into Hnr end.
    match goal with H : univ_ok_b sc0 U = true |- _ => rename H into Hu0 end.
    match goal with H : config_wf_b sc sc0 = true |- _ => rename H into Hwf0 end.
    rename Hok into Hfr.
    rewrite forallb_forall in HF. specialize (HF d Hin). unfold field_ok_b in HF.
    apply andb_true_iff in HF. destruct HF as [HF Hfetch]. apply andb_true_iff in HF. destruct HF as [HF Hreq1].
    apply andb_true_iff in HF. destruct HF as [Hname Hs1]. apply negb_true_iff in Hname.
    destruct (find_entity_In _ _ _ _ HeQ) as [HeU HeT].
    unfold link, tr, a_of, m_of in *.
    destruct (df_fetch d) as [phi|] eqn:Efd.
    - (* a field with an entity fetch: E4 *)
      unfold fetch_ok_b in Hfetch. cbv zeta in Hfetch.
      repeat (apply andb_true_iff in Hfetch; destruct Hfetch as [Hfetch ?]).
      destruct (find_type Q (s_types sc)) as [td|] eqn:Etd; [|discriminate].
      destruct (find_field (df_name d) (td_fields td)) as [fd|] eqn:Efd'; [|discriminate].
      apply ty_eqb_eq in Hfetch.
      destruct (is_leaf_kind sc (ef_T phi)) as [[|]|] eqn:Elk; try discriminate.
      destruct (find_entity U (s_query (ef_sub phi)) []) as [root2|] eqn:Er2; [|discriminate].
      match goal with H : forallb (fun e => _ || _) U = true |- _ => rename H into Hents end.
      match goal with H : key_declared decls _ _ = true |- _ => rename H into Hkd end.
      match goal with H : keys_unaliased _ _ = true |- _ => rename H into Hunal end.
      match goal with H : keys_disjoint _ _ = true |- _ => rename H into Hdisj end.
      match goal with H : flat_okb _ (ef_sel phi) = true |- _ => rename H into HokB end.
      match goal with H : flat_okb _ (df_selA d) = true |- _ => rename H into HokA end.
      match goal with H : req_ok_b (ef_sub phi) _ _ _ _ _ _ = true |- _ => rename H into Hreq2 end.
      match goal with H : univ_ok_b (ef_sub phi) U = true |- _ => rename H into Hu2 end.
      match goal with H : config_wf_b sc (ef_sub phi) = true |- _ => rename H into Hwf2 end.
      match goal with H : sels_noent (ef_sel phi) = true |- _ => rename H into HsB end.
      match goal with H : negb (bytes_eqb (ef_T phi) s_Entity) = true |- _ => rename H into HnE end.
      match goal with H : declared_obj sc (ef_T phi) = true |- _ => rename H into HdT end.
      apply negb_true_iff in HnE.
      assert (HflA : flatten sc frags vars g0 (ef_T phi) (df_selA d) = FlatOk (flat_of' (ef_T phi) (df_selA d))).
      { unfold flat_okb in HokA. unfold flat_of. destruct (flatten sc frags vars g0 (ef_T phi) (df_selA d)); [reflexivity|discriminate]. }
      assert (HflB : flatten sc frags vars g0 (ef_T phi) (ef_sel phi) = FlatOk (flat_of' (ef_T phi) (ef_sel phi))).
      { unfold flat_okb in HokB. unfold flat_of. destruct (flatten sc frags vars g0 (ef_T phi) (ef_sel phi)); [reflexivity|discriminate]. }
      pose proof (plan_ks_le ds d phi Hin Efd) as Hks.
      assert (Hb1 : (two_step_fuel (ef_ks phi) g0 fM <= f1)%nat)
        by (clear -Hks Hf1; unfold two_step_fuel, plan_fuel in *; lia).
      assert (Hb2 : (two_step_fuel (ef_ks phi) g0 fM + g0 <= f2)%nat)
        by (clear -Hks Hf2; unfold two_step_fuel, plan_fuel in *; lia).
      unfold root_sel in Hs1, Hreq1 |- *. unfold client_sel in Hn |- *. rewrite Efd in Hs1, Hreq1, Hn |- *.
      apply (federated_two_step_wf_main U sc frags vars sc0 (ef_sub phi) vdsM supM root2 Q eQ
               (df_alias d) (df_name d) (df_args d) [] [] (df_nn d) (ef_T phi) td fd (ef_T phi) (ef_ks phi)
               (df_selA d) (ef_sel phi) (flat_of' (ef_T phi) (df_selA d)) (flat_of' (ef_T phi) (ef_sel phi)) g0 kq kq);
        try assumption.
      + apply (vars2_agree_client vdsM supM (ef_T phi) (ef_sel phi) [] Hnr).
      + intros e He Hok'.
        assert (HTe : en_type e = ef_T phi) by (apply (obj_type_ok_object sc); assumption).
        assert (HinU : In e U) by (apply (obj_target_In _ _ _ _ He)).
        rewrite forallb_forall in Hents. specialize (Hents e HinU). rewrite HTe, bytes_eqb_refl in Hents.
        cbn [negb orb] in Hents. apply andb_true_iff in Hents. destruct Hents as [Hk1 Hk2].
        split; [exact HTe|]. split; [|split; assumption].
        apply (key_consistent_find decls); [exact Hkc|exact HinU|]. rewrite HTe. apply key_declared_In. exact Hkd.
    - (* a field resolved entirely by the root subgraph *)
      intros. unfold root_sel, client_sel in *. rewrite Efd in *.
      rewrite (exec_sels_sub_mono sc0 U frags vars f1 Q eQ _ [] Hfr Hs1).
      rewrite (req_ok_sound_same_vars sc sc0 U frags vars kq Q eQ None _ [] Hwf0 Hu0 Hreq1 HeU HeT f1).
      apply exec_sels_fuel_mono; [clear -Hf1; unfold plan_fuel in *; lia|exact Hn].
  Qed.

  (* (4) plan soundness, entity fetches at depth 1 *)
  Theorem plan_ok_sound_keys_partial ds :
    plan_ok_b ds = true ->
    no_oof (snd (mono_plan U sc frags vdsM supM eQ fM ds)) = true ->
    (length ds + 2 <= fM)%nat -> (plan_fuel ds <= f1)%nat -> (plan_fuel ds + g0 <= f2)%nat ->
    fst (run_plan U sc frags vdsM supM eQ f1 f2 (plan_of sc frags vdsM supM sc0 g0 ds)) =
    fst (mono_plan U sc frags vdsM supM eQ fM ds) /\
    (snd (run_plan U sc frags vdsM supM eQ f1 f2 (plan_of sc frags vdsM supM sc0 g0 ds)) = [] <->
     snd (mono_plan U sc frags vdsM supM eQ fM ds) = []).
  Proof.
    intros Hok Hn HfM Hf1 Hf2.
    rewrite (run_plan_efs U sc frags vdsM supM sc0 eQ g0 f1 f2 ds).
    apply (plan_alg U sc frags vdsM supM sc0 eQ g0 f1 f2 fM ds); try assumption.
    - apply Forall_forall. intros d Hin. apply (link_of ds d Hok Hin Hf1 Hf2).
    - pose proof Hok as Hok'. unfold plan_ok_b in Hok'.
      repeat (apply andb_true_iff in Hok'; destruct Hok' as [Hok' ?]). assumption.
    - clear -Hf1. unfold plan_fuel in Hf1. lia.
  Qed.
End PlanOk.
