(* C01 / (5) translation validation, part 7: the order of the client's selections.

   The plan theorem speaks about the client's field with the root-resolved part of its
   sub-selection first and the fetched part second; the client wrote them interleaved.  For the
   reference executor the order of the selections of a selection set only decides the order of the
   members of the object (and which errors are reported after a non-null violation):

     [exec_interleave]   a selection set and its two parts (disjoint response keys) executed one after
                         the other: the members are a permutation of each other, null iff null,
                         errors iff errors;
     [mono_order]        hence the monolithic answers to the client's operation and to the plan
                         theorem's operation are equal as JSON values (member order aside) and have
                         errors together. *)
From Coq Require Import PeanoNat Lia Permutation.
From Gv Require Import lib.Bytes lib.Json lib.Gql lib.Exec
     C01.ProofsBase C01.ProofsFuel C01.ProofsSplit C01.ProofsSim C01.ProofsJoin C01.ProofsOverlap
     C01.ProofsTwoStep C01.ProofsViol C01.ProofsCtxBase C01.ProofsCtx C01.ProofsTwoStepWf C01.ProofsPlanAlg
     C01.ProofsPlan C01.ProofsPlanOk C01.ProofsDedup C01.ProofsListHop
     C01.ProofsTvStatic C01.ProofsTvDefs C01.ProofsTvHidden C01.ProofsPlanGen C01.ProofsPlan2 C01.ProofsPlan2Link
     C01.ProofsPlan2Root.
Open Scope N_scope.

(* ---- JSON values equal up to the order of object members ---- *)
Inductive jperm : json -> json -> Prop :=
| JP_refl j : jperm j j
| JP_arr l l' : Forall2 jperm l l' -> jperm (JArr l) (JArr l')
| JP_obj m m' m'' :
    Permutation m m'' ->
    Forall2 (fun a b : bytes * json => fst a = fst b /\ jperm (snd a) (snd b)) m'' m' ->
    jperm (JObj m) (JObj m').

Definition opt_jperm (a b : option (list (bytes * json))) : Prop :=
  match a, b with
  | Some la, Some lb => jperm (JObj la) (JObj lb)
  | None, None => True
  | _, _ => False
  end.
(* results equal as JSON values, errors iff *)
Definition sres_peq (a b : sres) : Prop := opt_jperm (fst a) (fst b) /\ (snd a = [] <-> snd b = []).

Lemma Forall2_refl_members (l : list (bytes * json)) :
  Forall2 (fun a b : bytes * json => fst a = fst b /\ jperm (snd a) (snd b)) l l.
Proof. induction l as [|x l IH]; constructor; [split; [reflexivity|apply JP_refl]|exact IH]. Qed.

Lemma jperm_of_perm l l' : Permutation l l' -> jperm (JObj l) (JObj l').
Proof. intros H. apply (JP_obj l l' l'); [exact H|apply Forall2_refl_members]. Qed.

(* ---- permutation-equality of results at one level ---- *)
Definition sres_p1 (a b : sres) : Prop :=
  match fst a, fst b with
  | Some la, Some lb => Permutation la lb
  | None, None => True
  | _, _ => False
  end /\ (snd a = [] <-> snd b = []).

Lemma sres_p1_refl a : sres_p1 a a.
Proof. split; [destruct (fst a); [apply Permutation_refl|exact I]|tauto]. Qed.
Lemma sres_p1_trans a b c : sres_p1 a b -> sres_p1 b c -> sres_p1 a c.
Proof.
  intros [H1 H2] [H3 H4]. split; [|tauto].
  destruct (fst a), (fst b), (fst c); try contradiction; try exact I. eapply Permutation_trans; eassumption.
Qed.

Lemma sels_go_perm ef p gs gs' :
  (forall key s subs q, c_viol (ef key s subs q) = true -> c_errs (ef key s subs q) <> []) ->
  Permutation gs gs' -> sres_p1 (sels_go ef p gs) (sels_go ef p gs').
Proof.
  intros Hv HP. induction HP as [|[[k s] subs] l l' HP IH|[[k1 s1] subs1] [[k2 s2] subs2] l|l l' l'' HP1 IH1 HP2 IH2].
  - apply sres_p1_refl.
  - cbn [sels_go]. destruct (c_viol (ef k s subs (p ++ [PN k]))); [apply sres_p1_refl|].
    destruct (sels_go ef p l) as [o e]. destruct (sels_go ef p l') as [o' e']. destruct IH as [I1 I2]. cbn [fst snd] in *.
    split; [|cbn [snd]; rewrite !app_nil_iff; tauto].
    destruct o, o'; try contradiction; try exact I. apply perm_skip. exact I1.
  - cbn [sels_go].
    destruct (c_viol (ef k1 s1 subs1 (p ++ [PN k1]))) eqn:E1; destruct (c_viol (ef k2 s2 subs2 (p ++ [PN k2]))) eqn:E2;
      pose proof (Hv k1 s1 subs1 (p ++ [PN k1])) as V1; pose proof (Hv k2 s2 subs2 (p ++ [PN k2])) as V2.
    + specialize (V1 E1). specialize (V2 E2). split; [exact I|]. cbn [snd]. tauto.
    + specialize (V1 E1). split; [exact I|]. cbn [snd]. rewrite app_nil_iff. tauto.
    + specialize (V2 E2). split; [exact I|]. cbn [snd]. rewrite app_nil_iff. tauto.
    + destruct (sels_go ef p l) as [o e]. cbn [fst snd]. split; [|cbn [snd]; rewrite !app_nil_iff; tauto].
      destruct o; [apply perm_swap|exact I].
  - eapply sres_p1_trans; eassumption.
Qed.

(* ---- tagged lists ---- *)
Lemma sel_untagged_app a b : sel_untagged (a ++ b) = sel_untagged a ++ sel_untagged b.
Proof. unfold sel_untagged. rewrite filter_app, map_app. reflexivity. Qed.
Lemma sel_tagged_app a b : sel_tagged (a ++ b) = sel_tagged a ++ sel_tagged b.
Proof. unfold sel_tagged. rewrite filter_app, map_app. reflexivity. Qed.
Lemma sel_untagged_pair (b : bool) (l : list selection) : sel_untagged (map (pair b) l) = if b then [] else l.
Proof. unfold sel_untagged. induction l as [|x l IH]; [destruct b; reflexivity|]. cbn [map filter fst]. destruct b; cbn [negb]; [exact IH|cbn [map snd]; f_equal; exact IH]. Qed.
Lemma sel_tagged_pair (b : bool) (l : list selection) : sel_tagged (map (pair b) l) = if b then l else [].
Proof. unfold sel_tagged. induction l as [|x l IH]; [destruct b; reflexivity|]. cbn [map filter fst]. destruct b; [cbn [map snd]; f_equal; exact IH|exact IH]. Qed.
Lemma map_snd_pair (b : bool) (l : list selection) : map snd (map (pair b) l) = l.
Proof. rewrite map_map. cbn. apply map_id. Qed.

Definition tfilter (p : selection -> bool) (ts : list (bool * selection)) : list (bool * selection) :=
  filter (fun x => p (snd x)) ts.
Lemma tfilter_snd p ts : map snd (tfilter p ts) = filter p (map snd ts).
Proof. induction ts as [|[b s] r IH]; [reflexivity|]. cbn [tfilter filter map snd]. destruct (p s); cbn [map snd]; [f_equal|]; exact IH. Qed.
Lemma tfilter_untagged p ts : sel_untagged (tfilter p ts) = filter p (sel_untagged ts).
Proof.
  unfold sel_untagged, tfilter. induction ts as [|[b s] r IH]; [reflexivity|]. cbn [filter fst snd].
  destruct (p s) eqn:Ep; destruct b; cbn [filter fst snd negb map]; rewrite ?Ep; cbn [map snd]; rewrite ?IH; reflexivity.
Qed.
Lemma tfilter_tagged p ts : sel_tagged (tfilter p ts) = filter p (sel_tagged ts).
Proof.
  unfold sel_tagged, tfilter. induction ts as [|[b s] r IH]; [reflexivity|]. cbn [filter fst snd].
  destruct (p s) eqn:Ep; destruct b; cbn [filter fst snd negb map]; rewrite ?Ep; cbn [map snd]; rewrite ?IH; reflexivity.
Qed.
Lemma tfilter_length p ts : (length (tfilter p ts) <= length ts)%nat.
Proof. apply filter_length_le. Qed.

Lemma keys_disjoint_cons_r la s lb : keys_disjoint la (s :: lb) = true -> has_key (sel_key s) la = false /\ keys_disjoint la lb = true.
Proof.
  induction la as [|a la IH]; [intros _; split; reflexivity|].
  cbn [keys_disjoint forallb]. intros H. apply andb_true_iff in H. destruct H as [H1 H2].
  apply negb_true_iff in H1. unfold has_key in H1. cbn [existsb] in H1. apply orb_false_iff in H1. destruct H1 as [H1a H1b].
  destruct (IH H2) as [I1 I2]. split.
  - unfold has_key. cbn [existsb]. fold (has_key (sel_key s) la). rewrite I1, orb_false_r.
    unfold same_key in *. rewrite bytes_eqb_sym. exact H1a.
  - cbn [keys_disjoint forallb]. fold (keys_disjoint la lb). rewrite I2, andb_true_r. apply negb_true_iff. exact H1b.
Qed.

(* selections with key [k] all sit in one part when the other part has no such key *)
Lemma tfilter_same_tagged k ts :
  has_key k (sel_untagged ts) = false -> filter (same_key k) (map snd ts) = filter (same_key k) (sel_tagged ts).
Proof.
  induction ts as [|[b x] r IH]; intros H; [reflexivity|]. destruct b.
  - change (sel_untagged ((true, x) :: r)) with (sel_untagged r) in H.
    change (sel_tagged ((true, x) :: r)) with (x :: sel_tagged r).
    cbn [map snd filter]. rewrite (IH H). reflexivity.
  - change (sel_untagged ((false, x) :: r)) with (x :: sel_untagged r) in H.
    change (sel_tagged ((false, x) :: r)) with (sel_tagged r).
    unfold has_key in H. cbn [existsb] in H. apply orb_false_iff in H. destruct H as [Hx H].
    cbn [map snd filter]. rewrite Hx. apply IH. exact H.
Qed.
Lemma tfilter_same_untagged k ts :
  has_key k (sel_tagged ts) = false -> filter (same_key k) (map snd ts) = filter (same_key k) (sel_untagged ts).
Proof.
  induction ts as [|[b x] r IH]; intros H; [reflexivity|]. destruct b.
  - change (sel_tagged ((true, x) :: r)) with (x :: sel_tagged r) in H.
    change (sel_untagged ((true, x) :: r)) with (sel_untagged r).
    unfold has_key in H. cbn [existsb] in H. apply orb_false_iff in H. destruct H as [Hx H].
    cbn [map snd filter]. rewrite Hx. apply IH. exact H.
  - change (sel_tagged ((false, x) :: r)) with (sel_tagged r) in H.
    change (sel_untagged ((false, x) :: r)) with (x :: sel_untagged r).
    cbn [map snd filter]. rewrite (IH H). reflexivity.
Qed.

Lemma keys_disjoint_filter_r p la lb : keys_disjoint la lb = true -> keys_disjoint la (filter p lb) = true.
Proof.
  unfold keys_disjoint. intros H. rewrite forallb_forall in H. apply forallb_forall. intros a Ha.
  specialize (H a Ha). apply negb_true_iff in H. apply negb_true_iff.
  unfold has_key in *. destruct (existsb (same_key (sel_key a)) (filter p lb)) eqn:E; [|reflexivity].
  apply existsb_exists in E. destruct E as (x & Hx & Hk). apply filter_In in Hx.
  assert (Ht : existsb (same_key (sel_key a)) lb = true) by (apply existsb_exists; exists x; tauto). congruence.
Qed.

(* the groups of an interleaving of two key-disjoint lists *)
Lemma groups_tagged : forall n tfl,
    (length tfl <= n)%nat -> keys_disjoint (sel_untagged tfl) (sel_tagged tfl) = true ->
    Permutation (groups (map snd tfl)) (groups (sel_untagged tfl) ++ groups (sel_tagged tfl)).
Proof.
  induction n as [|n IH]; intros tfl Hlen Hd.
  - destruct tfl; [apply Permutation_refl|simpl in Hlen; lia].
  - destruct tfl as [|[b s] rest]; [apply Permutation_refl|].
    cbn [map snd]. rewrite groups_cons.
    set (ns := fun x => negb (same_key (sel_key s) x)).
    assert (Hlen' : (length (tfilter ns rest) <= n)%nat) by (pose proof (tfilter_length ns rest); simpl in Hlen; lia).
    destruct b.
    + (* the head is resolved by the entity fetch *)
      assert (HA : sel_untagged ((true, s) :: rest) = sel_untagged rest) by reflexivity.
      assert (HB : sel_tagged ((true, s) :: rest) = s :: sel_tagged rest) by reflexivity.
      rewrite HA, HB in Hd |- *. destruct (keys_disjoint_cons_r _ _ _ Hd) as [HsA HdAB].
      rewrite groups_cons.
      assert (Hsame : filter (same_key (sel_key s)) (map snd rest) = filter (same_key (sel_key s)) (sel_tagged rest)).
      { rewrite tfilter_same_tagged; [reflexivity|exact HsA]. }
      rewrite Hsame.
      specialize (IH (tfilter ns rest) Hlen').
      rewrite tfilter_snd, tfilter_untagged, tfilter_tagged in IH.
      assert (HAk : filter ns (sel_untagged rest) = sel_untagged rest).
      { apply filter_all. unfold has_key in HsA. rewrite <- HsA at 1. apply existsb_ext'. intros x. unfold ns. apply negb_involutive. }
      rewrite HAk in IH.
      eapply Permutation_trans; [apply perm_skip; apply IH; apply keys_disjoint_filter_r; exact HdAB|].
      apply Permutation_middle.
    + (* the head is resolved by the root fetch *)
      assert (HA : sel_untagged ((false, s) :: rest) = s :: sel_untagged rest) by reflexivity.
      assert (HB : sel_tagged ((false, s) :: rest) = sel_tagged rest) by reflexivity.
      rewrite HA, HB in Hd |- *.
      cbn [keys_disjoint forallb] in Hd. apply andb_true_iff in Hd. destruct Hd as [HsB HdAB].
      apply negb_true_iff in HsB. fold (keys_disjoint (sel_untagged rest) (sel_tagged rest)) in HdAB.
      rewrite groups_cons. cbn [app].
      assert (Hsame : filter (same_key (sel_key s)) (map snd rest) = filter (same_key (sel_key s)) (sel_untagged rest)).
      { rewrite tfilter_same_untagged; [reflexivity|exact HsB]. }
      rewrite Hsame.
      specialize (IH (tfilter ns rest) Hlen').
      rewrite tfilter_snd, tfilter_untagged, tfilter_tagged in IH.
      assert (HBk : filter ns (sel_tagged rest) = sel_tagged rest).
      { apply filter_all. unfold has_key in HsB. rewrite <- HsB at 1. apply existsb_ext'. intros x. unfold ns. apply negb_involutive. }
      rewrite HBk in IH.
      apply perm_skip. apply IH. apply keys_disjoint_filter. exact HdAB.
Qed.

(* ---- members equal up to order, values equal up to the order of their members ---- *)
Definition members_peq (l l' : list (bytes * json)) : Prop :=
  exists m'', Permutation l m'' /\ Forall2 (fun a b : bytes * json => fst a = fst b /\ jperm (snd a) (snd b)) m'' l'.
Lemma members_peq_jperm l l' : members_peq l l' -> jperm (JObj l) (JObj l').
Proof. intros (m & H1 & H2). apply (JP_obj l l' m); assumption. Qed.
Lemma members_peq_nil : members_peq [] [].
Proof. exists []. split; [apply Permutation_refl|constructor]. Qed.
Lemma members_peq_cons k v v' l l' : jperm v v' -> members_peq l l' -> members_peq ((k, v) :: l) ((k, v') :: l').
Proof.
  intros Hv (m & H1 & H2). exists ((k, v) :: m). split; [apply perm_skip; exact H1|].
  constructor; [split; [reflexivity|exact Hv]|exact H2].
Qed.

Definition sres_mpeq (a b : sres) : Prop :=
  match fst a, fst b with
  | Some la, Some lb => members_peq la lb
  | None, None => True
  | _, _ => False
  end /\ (snd a = [] <-> snd b = []).
Lemma sres_mpeq_peq a b : sres_mpeq a b -> sres_peq a b.
Proof.
  intros [H1 H2]. split; [|exact H2]. unfold opt_jperm. destruct (fst a), (fst b); try contradiction; try exact I.
  apply members_peq_jperm. exact H1.
Qed.

(* one-member results with the same key and values equal up to member order *)
Definition rel1 (r r' : sres) : Prop :=
  ((fst r = None /\ fst r' = None) \/
   (exists k v v', fst r = Some [(k, v)] /\ fst r' = Some [(k, v')] /\ jperm v v')) /\
  (snd r = [] <-> snd r' = []).

Lemma rel1_refl k r : one_member k r -> rel1 r r.
Proof.
  intros [[e ->]|[v [e ->]]]; (split; [|tauto]); [left; split; reflexivity|right; exists k, v, v; repeat split; apply JP_refl].
Qed.

Lemma fold_rel1 {A} (r1 r2 : A -> sres) (l : list A) :
  (forall d, In d l -> rel1 (r1 d) (r2 d)) ->
  sres_mpeq (fold_right (fun d acc => split_merge (r1 d) acc) (Some [], []) l)
            (fold_right (fun d acc => split_merge (r2 d) acc) (Some [], []) l).
Proof.
  induction l as [|d l IH]; intros H.
  - cbn. split; [apply members_peq_nil|tauto].
  - cbn [fold_right]. specialize (IH (fun x Hx => H x (or_intror Hx))).
    destruct (H d (or_introl eq_refl)) as [Hd He].
    set (F1 := fold_right (fun d acc => split_merge (r1 d) acc) (Some [], []) l) in *.
    set (F2 := fold_right (fun d acc => split_merge (r2 d) acc) (Some [], []) l) in *.
    destruct IH as [I1 I2]. unfold split_merge.
    destruct (r1 d) as [o1 e1]. destruct (r2 d) as [o2 e2]. cbn [fst snd] in *.
    destruct Hd as [[H1 H2]|(k & v & v' & H1 & H2 & Hv)]; subst o1 o2; cbn [fst snd].
    + split; [exact I|exact He].
    + split; [|cbn [snd]; rewrite !app_nil_iff; tauto].
      destruct (fst F1), (fst F2); try contradiction; try exact I. cbn [app]. apply members_peq_cons; assumption.
Qed.

Lemma all_untagged_sel ts : forallb (fun x : bool * selection => negb (fst x)) ts = true -> sel_untagged ts = map snd ts.
Proof.
  induction ts as [|[b s] r IH]; [reflexivity|]. cbn [forallb fst]. intros H. apply andb_true_iff in H. destruct H as [H1 H2].
  destruct b; [discriminate|]. unfold sel_untagged. cbn [filter fst negb map snd]. f_equal. apply IH. exact H2.
Qed.

Section Order.
  Variable sc : schema.
  Variable U : universe.
  Variable frags : list fragment.
  Variable vars : list (bytes * json).

  Lemma flatten_tagged : forall ts f objty fl,
      flatten sc frags vars f objty (map snd ts) = FlatOk fl ->
      exists tfl, map snd tfl = fl /\
                  flatten sc frags vars f objty (sel_untagged ts) = FlatOk (sel_untagged tfl) /\
                  flatten sc frags vars f objty (sel_tagged ts) = FlatOk (sel_tagged tfl).
  Proof.
    induction ts as [|[b s] rest IH]; intros f objty fl H.
    - destruct f as [|f]; [rewrite flatten_0 in H; discriminate|]. cbn [map] in H. rewrite flatten_S_nil in H. injection H as <-.
      exists []. repeat split; reflexivity.
    - destruct f as [|f]; [rewrite flatten_0 in H; discriminate|]. cbn [map snd] in H. rewrite flatten_S_cons in H.
      destruct (flat_here sc frags vars (flatten sc frags vars f objty) objty s) as [l1|e] eqn:Eh; [|discriminate].
      cbn [flat_seq] in H. destruct (flatten sc frags vars f objty (map snd rest)) as [l2|e] eqn:E2; [|discriminate].
      injection H as <-. destruct (IH f objty l2 E2) as (tfl2 & Hm & HA & HB).
      exists (map (pair b) l1 ++ tfl2). split; [rewrite map_app, map_snd_pair, Hm; reflexivity|].
      rewrite sel_untagged_app, sel_tagged_app, sel_untagged_pair, sel_tagged_pair.
      destruct b.
      + change (sel_untagged ((true, s) :: rest)) with (sel_untagged rest).
        change (sel_tagged ((true, s) :: rest)) with (s :: sel_tagged rest).
        split; [apply flatten_mono_ok with (f := f); [lia|exact HA]|].
        rewrite flatten_S_cons, Eh, HB. reflexivity.
      + change (sel_untagged ((false, s) :: rest)) with (s :: sel_untagged rest).
        change (sel_tagged ((false, s) :: rest)) with (sel_tagged rest).
        split; [rewrite flatten_S_cons, Eh, HA; reflexivity|].
        apply flatten_mono_ok with (f := f); [lia|exact HB].
  Qed.

  (* a selection set and its two key-disjoint parts one after the other *)
  Theorem exec_interleave md C objty ov ts p flI flA flB :
    flatten sc frags vars C objty (map snd ts) = FlatOk flI ->
    flatten sc frags vars C objty (sel_untagged ts) = FlatOk flA ->
    flatten sc frags vars C objty (sel_tagged ts) = FlatOk flB ->
    flatten sc frags vars C objty (sel_untagged ts ++ sel_tagged ts) = FlatOk (flA ++ flB) ->
    keys_disjoint flA flB = true ->
    sres_p1 (exec_sels sc U frags vars md C objty ov (map snd ts) p)
            (exec_sels sc U frags vars md C objty ov (sel_untagged ts ++ sel_tagged ts) p).
  Proof.
    intros HI HA HB HAB Hd.
    destruct (flatten_tagged ts C objty flI HI) as (tfl & Hm & HA' & HB').
    rewrite HA in HA'. injection HA' as HA'. rewrite HB in HB'. injection HB' as HB'.
    rewrite (exec_sels_flat sc U frags vars md C objty ov _ p flI HI).
    rewrite (exec_sels_flat sc U frags vars md C objty ov _ p (flA ++ flB) HAB).
    unfold exec_flat. rewrite (groups_app_disjoint (length flA) flA flB (le_n _) Hd).
    apply sels_go_perm.
    - intros key s subs q. apply (viol_errs_all sc U frags vars md (pred C)).
    - rewrite <- Hm, HA', HB'. apply (groups_tagged (length tfl) tfl (le_n _)). rewrite <- HA', <- HB'. exact Hd.
  Qed.

  (* ---- one object-typed field ---- *)
  Section HopOrder.
    Variables (P : name) (ovP : oval) (af : option name) (f : name) (args : list argument) (path : list pel).
    Variables (nn : bool) (T : name) (td : type_def) (fd : field_def).
    Variable ts : list (bool * selection).
    Variables (flI flA flB : list selection) (c : nat).

    Hypothesis Hname : bytes_eqb f s_typename = false.
    Hypothesis Htd : find_type P (s_types sc) = Some td.
    Hypothesis Hfd : find_field f (td_fields td) = Some fd.
    Hypothesis Hty : fd_type fd = if nn then TNonNull (TNamed T) else TNamed T.
    Hypothesis Hcomp : is_leaf_kind sc T = Some false.
    Hypothesis HdT : declared_obj sc T = true.
    Hypothesis HnE : bytes_eqb T s_Entity = false.
    Hypothesis HI : flatten sc frags vars c T (map snd ts) = FlatOk flI.
    Hypothesis HA : flatten sc frags vars c T (sel_untagged ts) = FlatOk flA.
    Hypothesis HB : flatten sc frags vars c T (sel_tagged ts) = FlatOk flB.
    Hypothesis HAB : flatten sc frags vars c T (sel_untagged ts ++ sel_tagged ts) = FlatOk (flA ++ flB).
    Hypothesis Hd : keys_disjoint flA flB = true.

    Lemma hop_order :
      rel1 (exec_sels sc U frags vars Mono (hop_fuel nn c) P ovP [SField af f args [] (map snd ts)] path)
           (exec_sels sc U frags vars Mono (hop_fuel nn c) P ovP [SField af f args [] (sel_untagged ts ++ sel_tagged ts)] path).
    Proof.
      rewrite !(hop_exec sc U frags vars P ovP af f args [] path nn T td fd Hname Htd Hfd Hty Hcomp c).
      cbn [included]. unfold complete_obj.
      set (p' := hop_path af f path).
      destruct (obj_target U (hop_cargs sc vars args fd) (hop_fv ovP f)) as [[e|]|].
      - destruct (obj_type_ok sc T e) eqn:Eok; cbn [negb].
        + assert (HTe : en_type e = T) by (apply (obj_type_ok_object sc); assumption).
          rewrite HTe.
          pose proof (exec_interleave Mono c T {| ov_ent := e; ov_repr := None |} ts p' flI flA flB HI HA HB HAB Hd) as [E1 E2].
          destruct (exec_sels sc U frags vars Mono c T {| ov_ent := e; ov_repr := None |} (map snd ts) p') as [o1 e1].
          destruct (exec_sels sc U frags vars Mono c T {| ov_ent := e; ov_repr := None |} (sel_untagged ts ++ sel_tagged ts) p') as [o2 e2].
          cbn [fst snd] in E1, E2.
          destruct o1 as [l1|], o2 as [l2|]; try contradiction.
          * unfold field_result, nonnull_wrap. destruct nn; cbn [c_json c_errs c_viol fst snd];
              (split; [right; exists (hop_key af f), (JObj l1), (JObj l2); repeat split; apply jperm_of_perm; exact E1|exact E2]).
          * unfold field_result, nonnull_wrap, cnull. destruct nn; cbn [c_json c_errs c_viol fst snd].
            -- split; [left; split; reflexivity|]. split; intros H; [destruct e1|destruct e2]; discriminate H.
            -- split; [right; exists (hop_key af f), JNull, JNull; repeat split; apply JP_refl|exact E2].
        + apply (rel1_refl (hop_key af f)). unfold field_result, nonnull_wrap, cnull. destruct nn; cbn; [left|right]; repeat eexists.
      - apply (rel1_refl (hop_key af f)). unfold field_result, nonnull_wrap, cnull. destruct nn; cbn; [left|right]; repeat eexists.
      - apply (rel1_refl (hop_key af f)). unfold field_result, nonnull_wrap, cnull. destruct nn; cbn; [left|right]; repeat eexists.
    Qed.
  End HopOrder.
End Order.

(* ---- the same for a list-valued field ---- *)
(* completed values equal up to member order *)
Definition crel (c c' : cres) : Prop :=
  c_viol c = c_viol c' /\ jperm (c_json c) (c_json c') /\ is_null (c_json c) = is_null (c_json c') /\
  (c_errs c = [] <-> c_errs c' = []) /\ (c_viol c = true -> c_errs c <> [] /\ c_errs c' <> []).

Lemma crel_refl c : (c_viol c = true -> c_errs c <> []) -> crel c c.
Proof. intros H. repeat split; try tauto; try apply JP_refl; apply H; assumption. Qed.

Lemma nonnull_wrap_crel q c c' : crel c c' -> crel (nonnull_wrap q c) (nonnull_wrap q c').
Proof.
  intros (Hv & Hj & Hn & He & Hve). unfold nonnull_wrap.
  destruct (c_json c) eqn:E1; destruct (c_json c') eqn:E2; cbn [is_null] in Hn; try discriminate;
    try (repeat split; rewrite ?E1, ?E2; cbn [c_viol c_json c_errs is_null]; try tauto; try assumption; try apply Hve; assumption).
  cbn [c_viol c_json c_errs is_null]. repeat split; try apply JP_refl; try discriminate.
  - intros H. destruct (c_errs c); discriminate.
  - intros H. destruct (c_errs c'); discriminate.
  - destruct (c_errs c); discriminate.
  - destruct (c_errs c'); discriminate.
Qed.

Lemma field_result_rel1 nn kf p' c c' : crel c c' -> rel1 (field_result nn kf p' c) (field_result nn kf p' c').
Proof.
  intros H. unfold field_result.
  assert (H' : crel (if nn then nonnull_wrap p' c else c) (if nn then nonnull_wrap p' c' else c'))
    by (destruct nn; [apply nonnull_wrap_crel; exact H|exact H]).
  destruct H' as (Hv & Hj & Hn & He & Hve). rewrite <- Hv.
  destruct (c_viol (if nn then nonnull_wrap p' c else c)); cbn [fst snd].
  - split; [left; split; reflexivity|exact He].
  - split; [right; eexists _, _, _; repeat split; exact Hj|exact He].
Qed.

Definition lrel (a b : list json * list xerr * bool) : Prop :=
  Forall2 jperm (fst (fst a)) (fst (fst b)) /\
  Forall2 (fun x y => is_null x = is_null y) (fst (fst a)) (fst (fst b)) /\
  (snd (fst a) = [] <-> snd (fst b) = []) /\ snd a = snd b /\
  (snd a = true -> snd (fst a) <> [] /\ snd (fst b) <> []).

Lemma lst_loop_lrel (cf cf' : fval -> list pel -> cres) p items :
  (forall it q, crel (cf it q) (cf' it q)) -> forall i, lrel (lst_loop cf p i items) (lst_loop cf' p i items).
Proof.
  intros H. induction items as [|it rest IH]; intros i.
  - cbn. repeat split; try constructor; try tauto; discriminate.
  - cbn [lst_loop]. specialize (IH (i + 1)).
    destruct (lst_loop cf p (i + 1) rest) as [[o e] v]. destruct (lst_loop cf' p (i + 1) rest) as [[o' e'] v'].
    destruct IH as (I1 & I2 & I3 & I4 & I5). cbn [fst snd] in *.
    destruct (H it (p ++ [PI i])) as (Hv & Hj & Hn & He & Hve).
    unfold lrel. cbn [fst snd].
    split; [constructor; assumption|]. split; [constructor; assumption|].
    split; [rewrite !app_nil_iff; tauto|]. split; [rewrite Hv, I4; reflexivity|].
    intros Hor. apply orb_true_iff in Hor. destruct Hor as [Hc|Hr].
    + destruct (Hve Hc) as [X Y]. split; intros Hn'; apply app_eq_nil in Hn'; tauto.
    + destruct (I5 Hr) as [X Y]. split; intros Hn'; apply app_eq_nil in Hn'; tauto.
Qed.

Lemma list_finish_crel a b : lrel a b -> crel (list_finish a) (list_finish b).
Proof.
  destruct a as [[o e] v]. destruct b as [[o' e'] v']. intros (I1 & I2 & I3 & I4 & I5). cbn [fst snd] in *. subst v'.
  unfold list_finish, cnull. destruct v; cbn [c_viol c_json c_errs is_null].
  - repeat split; try apply JP_refl; try tauto; discriminate.
  - repeat split; try (apply JP_arr; exact I1); try tauto; discriminate.
Qed.

Section ListOrder.
  Variable sc : schema.
  Variable U : universe.
  Variable frags : list fragment.
  Variable vars : list (bytes * json).
  Variables (T : name) (ts : list (bool * selection)).
  Variables (flI flA flB : list selection) (c : nat).

  Hypothesis HdT : declared_obj sc T = true.
  Hypothesis HnE : bytes_eqb T s_Entity = false.
  Hypothesis HI : flatten sc frags vars c T (map snd ts) = FlatOk flI.
  Hypothesis HA : flatten sc frags vars c T (sel_untagged ts) = FlatOk flA.
  Hypothesis HB : flatten sc frags vars c T (sel_tagged ts) = FlatOk flB.
  Hypothesis HAB : flatten sc frags vars c T (sel_untagged ts ++ sel_tagged ts) = FlatOk (flA ++ flB).
  Hypothesis Hd : keys_disjoint flA flB = true.

  Lemma complete_obj_order cargs it q :
    crel (complete_obj sc U frags vars Mono c T cargs it (map snd ts) q)
         (complete_obj sc U frags vars Mono c T cargs it (sel_untagged ts ++ sel_tagged ts) q).
  Proof.
    unfold complete_obj.
    destruct (obj_target U cargs it) as [[e|]|]; try (apply crel_refl; discriminate).
    destruct (obj_type_ok sc T e) eqn:Eok; cbn [negb]; [|apply crel_refl; discriminate].
    assert (HTe : en_type e = T) by (apply (obj_type_ok_object sc); assumption).
    rewrite HTe.
    pose proof (exec_interleave sc U frags vars Mono c T {| ov_ent := e; ov_repr := None |} ts q flI flA flB HI HA HB HAB Hd) as [E1 E2].
    destruct (exec_sels sc U frags vars Mono c T {| ov_ent := e; ov_repr := None |} (map snd ts) q) as [o1 e1].
    destruct (exec_sels sc U frags vars Mono c T {| ov_ent := e; ov_repr := None |} (sel_untagged ts ++ sel_tagged ts) q) as [o2 e2].
    cbn [fst snd] in E1, E2.
    destruct o1 as [l1|], o2 as [l2|]; try contradiction; unfold cnull; repeat split; cbn [c_viol c_json c_errs is_null];
      try tauto; try discriminate; try apply JP_refl. apply jperm_of_perm. exact E1.
  Qed.

  Section LHopOrder.
    Variables (P : name) (ovP : oval) (af : option name) (f : name) (args : list argument) (path : list pel).
    Variables (nnl nni : bool) (td : type_def) (fd : field_def) (items : list fval).
    Hypothesis Hname : bytes_eqb f s_typename = false.
    Hypothesis Htd : find_type P (s_types sc) = Some td.
    Hypothesis Hfd : find_field f (td_fields td) = Some fd.
    Hypothesis Hty : fd_type fd = list_ty nnl nni T.
    Hypothesis Hcomp : is_leaf_kind sc T = Some false.
    Hypothesis Hfv : hop_fv ovP f = FLst items.

    Lemma list_hop_order :
      rel1 (exec_sels sc U frags vars Mono (list_hop_fuel nnl nni c) P ovP [SField af f args [] (map snd ts)] path)
           (exec_sels sc U frags vars Mono (list_hop_fuel nnl nni c) P ovP [SField af f args [] (sel_untagged ts ++ sel_tagged ts)] path).
    Proof.
      rewrite !(list_hop_exec sc U frags vars P ovP af f args [] path nnl nni T td fd items Hname Htd Hfd Hty Hcomp Hfv c).
      cbn [included]. apply field_result_rel1. apply list_finish_crel. apply lst_loop_lrel.
      intros it q. unfold item_c, itemwrap. destruct nni; [apply nonnull_wrap_crel|]; apply complete_obj_order.
    Qed.
  End LHopOrder.
End ListOrder.
