(* C01 / (5) translation validation, part 3: the real planner starts the selection of every entity
   fetch with a planner-added [__typename]:

     query($representations: [_Any!]!){_entities(representations: $representations){... on T {__typename selB}}}

   The subgraph answers it with the items of the request without it, each object prefixed with the
   member [__typename] ([execute_entities_tn], for ALL universes and representation lists), so the
   loader step that sends the real request and drops that member ([step2h]) is the loader step of
   the plan theorem ([step2]) -- [step2h_eq]. *)
From Coq Require Import PeanoNat Lia.
From Gv Require Import lib.Bytes lib.Json lib.Gql lib.Exec
     C01.ProofsBase C01.ProofsFuel C01.ProofsSplit C01.ProofsSim C01.ProofsJoin C01.ProofsOverlap
     C01.ProofsTwoStep C01.ProofsViol C01.ProofsCtxBase C01.ProofsCtx C01.ProofsTwoStepWf C01.ProofsPlanAlg
     C01.ProofsPlan C01.ProofsPlanOk C01.ProofsDedup C01.ProofsListHop C01.ProofsTvStatic C01.ProofsTvDefs.
Open Scope N_scope.

(* ---- no top-level field of the selection set (through inline fragments) has response key [k] ---- *)
Fixpoint sel_top_nokey (k : name) (s : selection) : bool :=
  match s with
  | SField a n _ _ _ => negb (bytes_eqb (response_name a n) k)
  | SInline _ _ ss => forallb (sel_top_nokey k) ss
  | SSpread _ _ => false
  end.
Definition sels_top_nokey (k : name) (l : list selection) : bool := forallb (sel_top_nokey k) l.

Lemma has_key_app k a b : has_key k (a ++ b) = has_key k a || has_key k b.
Proof. unfold has_key. apply existsb_app. Qed.

Lemma flatten_top_nokey sc frags vars k : forall f objty sels fl,
    sels_top_nokey k sels = true -> flatten sc frags vars f objty sels = FlatOk fl -> has_key k fl = false.
Proof.
  induction f as [|f IH]; intros objty sels fl Hs Hf; [rewrite flatten_0 in Hf; discriminate|].
  destruct sels as [|s rest]; [rewrite flatten_S_nil in Hf; injection Hf as <-; reflexivity|].
  rewrite flatten_S_cons in Hf. cbn [sels_top_nokey forallb] in Hs. apply andb_true_iff in Hs. destruct Hs as [Hs Hrest].
  destruct (flat_here sc frags vars (flatten sc frags vars f objty) objty s) as [l1|e] eqn:Eh; [|discriminate].
  cbn [flat_seq] in Hf. destruct (flatten sc frags vars f objty rest) as [l2|e] eqn:Er; [|discriminate].
  injection Hf as <-. rewrite has_key_app, (IH objty rest l2 Hrest Er), orb_false_r.
  destruct s as [a n args dirs ss|cond dirs ss|n dirs]; cbn [flat_here sel_top_nokey] in Eh, Hs.
  - destruct (included vars dirs); injection Eh as <-; [|reflexivity].
    unfold has_key. cbn [existsb]. unfold same_key. cbn [sel_key]. apply negb_true_iff in Hs. rewrite Hs. reflexivity.
  - destruct (negb (included vars dirs)); [injection Eh as <-; reflexivity|].
    destruct cond as [c|]; [|apply (IH objty ss); assumption].
    destruct (kind_of sc c).
    + destruct (type_applies sc objty c); [apply (IH objty ss); assumption|injection Eh as <-; reflexivity].
    + destruct (bytes_eqb c [95; 69; 110; 116; 105; 116; 121]); [apply (IH objty ss); assumption|discriminate].
  - discriminate.
Qed.

(* ---- dropping the planner-added member ---- *)
Definition strip_tn (x : json) : json :=
  match x with
  | JObj ((k, _) :: lb) => if bytes_eqb k s_typename then JObj lb else x
  | _ => x
  end.
Definition strip_resp_data (d : json) : json :=
  match d with
  | JObj [(k, JArr items)] => JObj [(k, JArr (map strip_tn items))]
  | _ => d
  end.

Section Tn.
  Variable sc : schema.
  Variable U : universe.
  Variable frags : list fragment.
  Variable vars : list (bytes * json).
  Variables (T : name) (selB : list selection).
  Hypothesis Hnk : sels_top_nokey s_typename selB = true.

  Notation subsB := [SInline (Some T) [] selB].
  Notation subsT := [SInline (Some T) [] (tn_sel :: selB)].

  Lemma groups_tn_cons fl :
    has_key s_typename fl = false ->
    groups (tn_sel :: fl) = (s_typename, tn_sel, []) :: groups fl.
  Proof.
    intros H. rewrite groups_cons. cbn [sel_key tn_sel key_sel response_name].
    assert (H1 : filter (same_key s_typename) fl = []) by (apply filter_none; exact H).
    assert (H2 : filter (fun x => negb (same_key s_typename x)) fl = fl).
    { apply filter_all. unfold has_key in H. rewrite <- H at 1. apply existsb_ext'. intros x. apply negb_involutive. }
    rewrite H1, H2. reflexivity.
  Qed.

  (* one item of the [_entities] list *)
  Lemma item_tn g objty ov q :
    no_oof (snd (exec_sels sc U frags vars Sub g objty ov subsB q)) = true ->
    ojson (fst (exec_sels sc U frags vars Sub g objty ov subsB q)) =
    strip_tn (ojson (fst (exec_sels sc U frags vars Sub (S g) objty ov subsT q))) /\
    snd (exec_sels sc U frags vars Sub (S g) objty ov subsT q) = snd (exec_sels sc U frags vars Sub g objty ov subsB q).
  Proof.
    intros Hn. destruct g as [|k].
    - rewrite exec_sels_0 in Hn. discriminate.
    - rewrite (exec_sels_S sc U frags vars Sub k) in Hn |- *. rewrite (exec_sels_S sc U frags vars Sub (S k)).
      rewrite (flatten_S_cons sc frags vars k) in Hn |- *. rewrite (flatten_S_cons sc frags vars (S k)).
      rewrite (flatten_S_nil sc frags vars k).
      cbn [flat_here included negb] in Hn |- *.
      (* does the type condition apply? *)
      assert (Hcases :
                (exists X, (forall (rec : list selection -> flat) Y,
                               (match kind_of sc T with
                                | Some _ => if type_applies sc objty T then rec Y else FlatOk []
                                | None => if bytes_eqb T [95; 69; 110; 116; 105; 116; 121] then rec Y else FlatBad (XInvalid T)
                                end) = X) /\ (X = FlatOk [] \/ X = FlatBad (XInvalid T))) \/
                (forall (rec : list selection -> flat) Y,
                    (match kind_of sc T with
                     | Some _ => if type_applies sc objty T then rec Y else FlatOk []
                     | None => if bytes_eqb T [95; 69; 110; 116; 105; 116; 121] then rec Y else FlatBad (XInvalid T)
                     end) = rec Y)).
      { destruct (kind_of sc T).
        - destruct (type_applies sc objty T); [right; intros; reflexivity|left; exists (FlatOk []); split; [intros; reflexivity|left; reflexivity]].
        - destruct (bytes_eqb T [95; 69; 110; 116; 105; 116; 121]); [right; intros; reflexivity|].
          left. exists (FlatBad (XInvalid T)). split; [intros; reflexivity|right; reflexivity]. }
      destruct Hcases as [(X & HX & [-> | ->])|Happ].
      + rewrite (HX (flatten sc frags vars k objty) selB) in Hn |- *.
        rewrite (HX (flatten sc frags vars (S k) objty) (tn_sel :: selB)).
        destruct k as [|k]; [rewrite flatten_0 in Hn; cbn in Hn; discriminate|].
        rewrite flatten_S_nil. cbn [flat_seq app length]. split; reflexivity.
      + rewrite (HX (flatten sc frags vars k objty) selB) in Hn |- *.
        rewrite (HX (flatten sc frags vars (S k) objty) (tn_sel :: selB)).
        cbn [flat_seq]. split; reflexivity.
      + rewrite (Happ (flatten sc frags vars k objty) selB) in Hn |- *.
        rewrite (Happ (flatten sc frags vars (S k) objty) (tn_sel :: selB)).
        destruct k as [|k]; [rewrite !flatten_0 in Hn; cbn in Hn; discriminate|].
        rewrite (flatten_S_nil sc frags vars k) in Hn |- *.
        rewrite (flatten_S_cons sc frags vars (S k)). cbn [flat_here tn_sel key_sel included].
        assert (HB : flat_no_oof (flatten sc frags vars (S k) objty selB) = true).
        { destruct (flatten sc frags vars (S k) objty selB) as [l|e]; [reflexivity|].
          cbn [flat_seq snd no_oof forallb] in Hn. destruct e; try reflexivity. cbn in Hn. discriminate. }
        destruct (flatten sc frags vars (S k) objty selB) as [flB|e] eqn:EB; cbn [flat_seq app] in Hn |- *.
        2:{ split; reflexivity. }
        rewrite !app_nil_r in *.
        change (SField None s_typename [] [] [] :: flB) with (tn_sel :: flB).
        fold (groups flB) in Hn |- *. fold (groups (tn_sel :: flB)).
        rewrite (groups_tn_cons flB (flatten_top_nokey sc frags vars s_typename (S k) objty selB flB Hnk EB)).
        cbn [sels_go]. rewrite (exec_field_S sc U frags vars Sub (S k)). cbn [tn_sel key_sel]. rewrite bytes_eqb_refl.
        cbn [c_viol c_json c_errs app].
        rewrite (sels_go_ext_noof (exec_field sc U frags vars Sub (S k) objty ov) (exec_field sc U frags vars Sub (S (S k)) objty ov) q (groups flB));
          [|intros key s subs p Hp; apply exec_field_fuel_mono; [lia|exact Hp]|exact Hn].
        destruct (sels_go (exec_field sc U frags vars Sub (S k) objty ov) q (groups flB)) as [[l|] e2]; cbn [fst snd ojson strip_tn].
        * rewrite bytes_eqb_refl. split; reflexivity.
        * split; reflexivity.
  Qed.

  Lemma ent_loop_tn g path reprs : forall i,
      no_oof (snd (ent_loop U (exec_sels sc U frags vars Sub g) subsB path i reprs)) = true ->
      fst (ent_loop U (exec_sels sc U frags vars Sub g) subsB path i reprs) =
      map strip_tn (fst (ent_loop U (exec_sels sc U frags vars Sub (S g)) subsT path i reprs)) /\
      snd (ent_loop U (exec_sels sc U frags vars Sub (S g)) subsT path i reprs) =
      snd (ent_loop U (exec_sels sc U frags vars Sub g) subsB path i reprs).
  Proof.
    induction reprs as [|r rest IH]; intros i Hn; [split; reflexivity|].
    cbn [ent_loop] in *. unfold ent_item in *.
    destruct (find_by_repr U r) as [e|].
    - pose proof (item_tn g (en_type e) {| ov_ent := e; ov_repr := Some r |} (path ++ [PI i])) as Hit.
      destruct (exec_sels sc U frags vars Sub g (en_type e) {| ov_ent := e; ov_repr := Some r |} subsB (path ++ [PI i])) as [o e2] eqn:EB.
      destruct (exec_sels sc U frags vars Sub (S g) (en_type e) {| ov_ent := e; ov_repr := Some r |} subsT (path ++ [PI i])) as [o' e2'] eqn:ET.
      specialize (IH (i + 1)).
      destruct (ent_loop U (exec_sels sc U frags vars Sub g) subsB path (i + 1) rest) as [its es] eqn:ELB.
      destruct (ent_loop U (exec_sels sc U frags vars Sub (S g)) subsT path (i + 1) rest) as [its' es'] eqn:ELT.
      cbn [fst snd] in *. rewrite no_oof_app in Hn. apply andb_true_iff in Hn. destruct Hn as [Hn1 Hn2].
      destruct (Hit Hn1) as [H1 H2]. destruct (IH Hn2) as [H3 H4].
      cbn [map]. rewrite <- H1, <- H3, H2, H4. split; reflexivity.
    - specialize (IH (i + 1)).
      destruct (ent_loop U (exec_sels sc U frags vars Sub g) subsB path (i + 1) rest) as [its es] eqn:ELB.
      destruct (ent_loop U (exec_sels sc U frags vars Sub (S g)) subsT path (i + 1) rest) as [its' es'] eqn:ELT.
      cbn [fst snd app] in *. destruct (IH Hn) as [H3 H4]. cbn [map strip_tn]. rewrite <- H3, H4. split; reflexivity.
  Qed.
End Tn.

(* the response of an entity request, spelled out *)
Lemma execute_entities_unfold sc U frags vds T X supplied g root :
  find_entity U (s_query sc) [] = Some root ->
  let vars := effective_vars (entities_op vds T X) (supplied_members supplied) in
  let rs := reprs_of vars [(s_representations, VVar s_representations)] in
  execute (S (S g)) sc U Sub (entities_doc vds T X frags) None supplied =
  {| rs_data := JObj [(s_entities, JArr (fst (ent_loop U (exec_sels sc U frags vars Sub g) [SInline (Some T) [] X] [PN s_entities] 0 rs)))];
     rs_errs := snd (ent_loop U (exec_sels sc U frags vars Sub g) [SInline (Some T) [] X] [PN s_entities] 0 rs) |}.
Proof.
  intros Hroot vars rs. unfold execute, entities_doc. cbn [pick_op doc_ops]. rewrite doc_ops_map.
  cbn [op_kind entities_op root_type]. rewrite Hroot.
  cbn [doc_frags]. rewrite doc_frags_map.
  change (effective_vars _ (match supplied with JObj m => m | _ => [] end)) with vars.
  cbn [op_sels entities_op].
  rewrite exec_sels_S. rewrite flatten_S_cons, flatten_S_nil.
  unfold entities_field at 1. cbn [flat_here included flat_seq app length].
  assert (Hg : forall s0 : list selection,
             group 2 [SField None s_entities [(s_representations, VVar s_representations)] [] s0] =
             [(s_entities, SField None s_entities [(s_representations, VVar s_representations)] [] s0, s0)]).
  { intros s0. cbn. rewrite app_nil_r. reflexivity. }
  unfold entities_field. rewrite Hg. cbn [sels_go app].
  rewrite exec_field_S.
  assert (Hne : bytes_eqb s_entities s_typename = false) by reflexivity. rewrite Hne.
  unfold is_entities. rewrite !bytes_eqb_refl. cbn [andb c_viol c_json c_errs].
  rewrite app_nil_r. reflexivity.
Qed.

(* the whole request: the answer to the real request is the answer of the model's request with
   [__typename] in front of every object, same errors -- for every universe, representation list and
   variable values, provided the model's request does not run out of fuel *)
Theorem execute_entities_tn sc U frags vds T selB supplied f :
  sels_top_nokey s_typename selB = true ->
  no_oof (rs_errs (execute f sc U Sub (entities_doc vds T selB frags) None supplied)) = true ->
  rs_data (execute f sc U Sub (entities_doc vds T selB frags) None supplied) =
  strip_resp_data (rs_data (execute (S f) sc U Sub (entities_doc vds T (tn_sel :: selB) frags) None supplied)) /\
  rs_errs (execute (S f) sc U Sub (entities_doc vds T (tn_sel :: selB) frags) None supplied) =
  rs_errs (execute f sc U Sub (entities_doc vds T selB frags) None supplied).
Proof.
  intros Hnk Hn.
  destruct (find_entity U (s_query sc) []) as [root|] eqn:Hroot.
  2:{ unfold execute, entities_doc in *. cbn [pick_op doc_ops] in *. rewrite doc_ops_map in *.
      cbn [op_kind entities_op root_type] in *. rewrite Hroot in *. split; reflexivity. }
  destruct f as [|[|g]].
  - exfalso. unfold execute, entities_doc in Hn. cbn [pick_op doc_ops] in Hn. rewrite doc_ops_map in Hn.
    cbn [op_kind entities_op root_type] in Hn. rewrite Hroot in Hn. rewrite exec_sels_0 in Hn. discriminate.
  - exfalso. unfold execute, entities_doc in Hn. cbn [pick_op doc_ops] in Hn. rewrite doc_ops_map in Hn.
    cbn [op_kind entities_op root_type] in Hn. rewrite Hroot in Hn. cbn [op_sels entities_op] in Hn.
    rewrite exec_sels_S, flatten_S_cons in Hn. unfold entities_field in Hn at 1. cbn [flat_here included] in Hn.
    rewrite flatten_0 in Hn. discriminate.
  - rewrite (execute_entities_unfold sc U frags vds T selB supplied g root Hroot) in Hn |- *.
    rewrite (execute_entities_unfold sc U frags vds T (tn_sel :: selB) supplied (S g) root Hroot).
    cbv zeta in Hn |- *. cbn [rs_data rs_errs] in Hn |- *.
    change (effective_vars (entities_op vds T (tn_sel :: selB)) (supplied_members supplied))
      with (effective_vars (entities_op vds T selB) (supplied_members supplied)).
    set (vars := effective_vars (entities_op vds T selB) (supplied_members supplied)) in *.
    set (rs := reprs_of vars [(s_representations, VVar s_representations)]) in *.
    destruct (ent_loop_tn sc U frags vars T selB Hnk g [PN s_entities] rs 0 Hn) as [H1 H2].
    cbn [strip_resp_data]. rewrite H1, H2. split; reflexivity.
Qed.

(* ---- the loader step with the real request ---- *)
Lemma no_oof_rebase pre new l : no_oof (rebase_errs pre new l) = no_oof l.
Proof.
  unfold rebase_errs, no_oof. induction l as [|x l IH]; [reflexivity|]. cbn [map forallb]. rewrite IH. f_equal.
  destruct x as [q| |]; cbn; try reflexivity. destruct (strip_prefix pre q); reflexivity.
Qed.

Section Step2h.
  Variable U : universe.
  Variables (sc2 : schema) (frags2 : list fragment) (vds2 : list vardef) (sup2 : list (bytes * json)).
  Variables (af : option name) (f : name) (path : list pel) (nn : bool).
  Variables (T : name) (ks : list name) (selB flA : list selection).
  Notation kf := (response_name af f).
  Notation p' := (path ++ [PN (response_name af f)]).

  (* as [step2], but the request is the real one (selection starting with __typename) and the
     planner-added member is dropped from the entity object before the merge *)
  Definition step2h (R1 : sres) (f2 : nat) : sres :=
    match R1 with
    | (Some [(_, JObj l1)], errs1) =>
      let resp := execute (S f2) sc2 U Sub (entities_doc (rep_vd :: vds2) T (tn_sel :: selB) frags2) None
                          (JObj ((s_representations, JArr [repr_from ks l1]) :: sup2)) in
      match rs_data resp with
      | JObj [(_, JArr [x])] =>
        merge_at nn kf p' flA l1 (strip_tn x) (errs1 ++ rebase_errs [PN s_entities; PI 0] p' (rs_errs resp))
      | _ => R1
      end
    | _ => R1
    end.

  Definition resp2 (l1 : list (bytes * json)) (f2 : nat) : response :=
    execute f2 sc2 U Sub (entities_doc (rep_vd :: vds2) T selB frags2) None
            (JObj ((s_representations, JArr [repr_from ks l1]) :: sup2)).

  Lemma step2h_eq R1 f2 :
    sels_top_nokey s_typename selB = true ->
    (forall k l1 errs1, R1 = (Some [(k, JObj l1)], errs1) -> no_oof (rs_errs (resp2 l1 f2)) = true) ->
    step2h R1 f2 = step2 U sc2 frags2 vds2 sup2 af f path nn T ks selB flA R1 f2.
  Proof.
    intros Hnk Hn. destruct R1 as [[[|[k v] [|? ?]]|] errs1]; try reflexivity.
    destruct v as [| | | | |l1]; try reflexivity.
    specialize (Hn k l1 errs1 eq_refl). unfold resp2 in Hn.
    destruct (execute_entities_tn sc2 U frags2 (rep_vd :: vds2) T selB
                (JObj ((s_representations, JArr [repr_from ks l1]) :: sup2)) f2 Hnk Hn) as [Hd He].
    unfold step2h, step2. cbv zeta. rewrite He, Hd.
    destruct (rs_data (execute (S f2) sc2 U Sub (entities_doc (rep_vd :: vds2) T (tn_sel :: selB) frags2) None
                               (JObj ((s_representations, JArr [repr_from ks l1]) :: sup2))))
      as [| | | | |[|[k1 x] [|? ?]]]; cbn [strip_resp_data]; try reflexivity.
    - destruct x as [| | | |[|y [|? ?]]|]; cbn [map]; reflexivity.
    - destruct x as [| | | |[|y [|? ?]]|]; reflexivity.
  Qed.

  (* the entity request did not run out of fuel if the step's result did not *)
  Lemma step2_resp_noof k l1 errs1 f2 :
    (2 <= f2)%nat ->
    no_oof (snd (step2 U sc2 frags2 vds2 sup2 af f path nn T ks selB flA (Some [(k, JObj l1)], errs1) f2)) = true ->
    no_oof (rs_errs (resp2 l1 f2)) = true.
  Proof.
    intros Hf2 Hn. unfold resp2.
    destruct (find_entity U (s_query sc2) []) as [root|] eqn:Hroot.
    2:{ unfold execute, entities_doc. cbn [pick_op doc_ops]. rewrite doc_ops_map.
        cbn [op_kind entities_op root_type]. rewrite Hroot. reflexivity. }
    destruct f2 as [|[|g]]; try lia.
    unfold step2 in Hn.
    rewrite (execute_entities_unfold sc2 U frags2 (rep_vd :: vds2) T selB _ g root Hroot) in Hn |- *.
    cbv zeta in Hn |- *. cbn [rs_data rs_errs supplied_members] in Hn |- *.
    fold (vars2_of vds2 sup2 T selB (repr_from ks l1)) in Hn |- *.
    assert (Hrs : reprs_of (vars2_of vds2 sup2 T selB (repr_from ks l1)) [(s_representations, VVar s_representations)] = [repr_from ks l1]).
    { unfold reprs_of. cbn [assoc]. rewrite bytes_eqb_refl. cbn [lit_json]. rewrite vars2_repr. reflexivity. }
    rewrite Hrs in Hn |- *. cbn [ent_loop] in Hn |- *.
    destruct (ent_item U _ [SInline (Some T) [] selB] [PN s_entities] 0 (repr_from ks l1)) as [it e] eqn:Ei.
    cbn [fst snd] in Hn |- *.
    unfold merge_at in Hn. apply field_result_noof in Hn. cbn [snd] in Hn.
    rewrite no_oof_app, no_oof_rebase in Hn. apply andb_true_iff in Hn. apply Hn.
  Qed.
End Step2h.

Section Step2hList.
  Variable U : universe.
  Variables (sc2 : schema) (frags2 : list fragment) (vds2 : list vardef) (sup2 : list (bytes * json)).
  Variables (af : option name) (f : name) (nnl nni : bool).
  Variables (T : name) (ks : list name) (selB flA : list selection).
  Notation kf := (response_name af f).

  (* the list step with the real request *)
  Definition step2h_list (R1 : sres) (f2 : nat) : sres :=
    match R1 with
    | (Some [(_, JArr xs)], errs1) =>
      let rs := dedup (collect_reprs ks xs) in
      let resp := execute (S f2) sc2 U Sub (entities_doc (rep_vd :: vds2) T (tn_sel :: selB) frags2) None
                          (JObj ((s_representations, JArr rs) :: sup2)) in
      match rs_data resp with
      | JObj [(_, JArr ys)] =>
        let look := fun r => nth (index_of r rs) (map strip_tn ys) JNull in
        let v := finish_list nni (map (merge_item ks flA look) xs) in
        (match v with JNull => if nnl then None else Some [(kf, JNull)] | _ => Some [(kf, v)] end,
         errs1 ++ rs_errs resp)
      | _ => R1
      end
    | _ => R1
    end.

  Definition resp2l (xs : list json) (f2 : nat) : response :=
    execute f2 sc2 U Sub (entities_doc (rep_vd :: vds2) T selB frags2) None
            (JObj ((s_representations, JArr (dedup (collect_reprs ks xs))) :: sup2)).

  Lemma step2h_list_eq R1 f2 :
    sels_top_nokey s_typename selB = true ->
    (forall k xs errs1, R1 = (Some [(k, JArr xs)], errs1) -> no_oof (rs_errs (resp2l xs f2)) = true) ->
    step2h_list R1 f2 = step2_list U sc2 frags2 vds2 sup2 af f nnl nni T ks selB flA R1 f2.
  Proof.
    intros Hnk Hn. destruct R1 as [[[|[k v] [|? ?]]|] errs1]; try reflexivity.
    destruct v as [| | | |xs|]; try reflexivity.
    specialize (Hn k xs errs1 eq_refl). unfold resp2l in Hn.
    destruct (execute_entities_tn sc2 U frags2 (rep_vd :: vds2) T selB
                (JObj ((s_representations, JArr (dedup (collect_reprs ks xs))) :: sup2)) f2 Hnk Hn) as [Hd He].
    unfold step2h_list, step2_list. cbv zeta. rewrite He, Hd.
    destruct (rs_data (execute (S f2) sc2 U Sub (entities_doc (rep_vd :: vds2) T (tn_sel :: selB) frags2) None
                               (JObj ((s_representations, JArr (dedup (collect_reprs ks xs))) :: sup2))))
      as [| | | | |[|[k1 x] [|? ?]]]; cbn [strip_resp_data]; try reflexivity.
    - destruct x as [| | | |ys|]; reflexivity.
    - destruct x as [| | | |ys|]; reflexivity.
  Qed.

  Lemma step2_list_resp_noof k xs errs1 f2 :
    (2 <= f2)%nat ->
    no_oof (snd (step2_list U sc2 frags2 vds2 sup2 af f nnl nni T ks selB flA (Some [(k, JArr xs)], errs1) f2)) = true ->
    no_oof (rs_errs (resp2l xs f2)) = true.
  Proof.
    intros Hf2 Hn. unfold resp2l.
    destruct (find_entity U (s_query sc2) []) as [root|] eqn:Hroot.
    2:{ unfold execute, entities_doc. cbn [pick_op doc_ops]. rewrite doc_ops_map.
        cbn [op_kind entities_op root_type]. rewrite Hroot. reflexivity. }
    destruct f2 as [|[|g]]; try lia.
    unfold step2_list in Hn.
    rewrite (execute_entities_unfold sc2 U frags2 (rep_vd :: vds2) T selB _ g root Hroot) in Hn |- *.
    cbv zeta in Hn |- *. cbn [rs_data rs_errs snd] in Hn |- *.
    rewrite no_oof_app in Hn. apply andb_true_iff in Hn. apply Hn.
  Qed.
End Step2hList.
