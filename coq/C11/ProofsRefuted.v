(* C11: the HISTORICAL transitions (before c11_fix_a / c11_fix_b_inbound / c11_fix_b) violate the
   property; witnesses.  Also examples showing that the hypotheses of the theorems about the
   fixed model are satisfiable by non-trivial runs. *)
From Gv Require Import lib.Bytes C11.Model C11.Spec.
From Coq Require Import Arith.
Open Scope nat_scope.

Definition wreq : req :=
  {| rkey := 7%N; rquery := true; rdedup := true; rok := [111%N; 107%N]; rfail := [102%N]; rcan := [99%N] |}.

(* finding (a): the follower registers after the leader's FinishOk, is taken for the leader and
   closes Done a second time *)
Definition wa : list action :=
  [Tau 0; Tau 1;                        (* 0 LoadOrStore: leader; 1 LoadOrStore: shared *)
   Ans 0 AOk; Wr 0 WOk; Tau 0; Tau 0; Tau 0; Tau 0;  (* 0 executes, writes, FinishOk: Delete, HasFollowers=false, no copy, close *)
   Tau 1; WakeDone 1;                   (* 1 AddFollower, wakes on Done with Data == nil: continues as the leader *)
   Ans 1 AOk; Wr 1 WOk; Tau 1; Tau 1; Tau 1; Tau 1]. (* 1 executes, FinishOk: ... close(Done) again *)

Lemma inb_no_double_close_refuted_l :
  exists reqs tr s o i,
    Inb.run prefix reqs tr Inb.init = Some (s, o) /\ In (ORet i OPanic) o.
Proof.
  exists [wreq; wreq], wa.
  destruct (Inb.run prefix [wreq; wreq] wa Inb.init) as [[s o]|] eqn:E; [|vm_compute in E; discriminate].
  exists s, o, 1. split; [reflexivity|].
  vm_compute in E. inversion E; subst. cbn. auto.
Qed.

(* the same schedule on the fixed code: nobody panics, both write their own bytes *)
Example inb_wa_fixed :
  exists s, Inb.run fixed [wreq; wreq] (firstn 12 wa) Inb.init
            = Some (s, [ORet 0 (OWrote KOk (rok wreq) None); ORet 1 (OWrote KOk (rok wreq) None)]).
Proof. vm_compute. eexists. reflexivity. Qed.

(* finding (b), inbound face: a cancelled leader's failure body is handed to a healthy follower *)
Definition wb : list action :=
  [Tau 0; Tau 1; Tau 1; Cancel 0; Ans 0 ACanBody; Wr 0 WOk; Tau 0; Tau 0; Tau 0; Tau 0; WakeDone 1; Wr 1 WOk].

Lemma inb_transparent_refuted_l :
  exists reqs tr s o i k d f,
    key_determines_body reqs /\
    Inb.run prefix reqs tr Inb.init = Some (s, o) /\
    Inb.a_out (Inb.act s i) = Some (OWrote k d f) /\
    Inb.a_cancel (Inb.act s i) = false /\ d <> body (nth i reqs dreq) KOk /\ d <> body (nth i reqs dreq) KFail.
Proof.
  exists [wreq; wreq], wb.
  destruct (Inb.run prefix [wreq; wreq] wb Inb.init) as [[s o]|] eqn:E; [|vm_compute in E; discriminate].
  exists s, o, 1, KCan, (rcan wreq), (Some 0).
  split.
  { intros i j H.
    assert (A : forall n, nth n [wreq; wreq] dreq = wreq \/ nth n [wreq; wreq] dreq = dreq).
    { intros [|[|[|n]]]; cbn; auto. }
    destruct (A i) as [Hi|Hi], (A j) as [Hj|Hj]; rewrite Hi, Hj in *; auto; discriminate. }
  split; [reflexivity|].
  vm_compute in E. inversion E; subst. cbn. repeat split; try reflexivity; discriminate.
Qed.

(* the same on the error path of the table API: FinishErr(leader's ctx error) reaches the follower *)
Definition wc : list action :=
  [Tau 0; Tau 1; Tau 1; Cancel 0; Ans 0 AErrCtx; Tau 0; Tau 0; Tau 0; WakeDone 1].

Lemma inb_err_origin_refuted_l :
  exists reqs tr s o i j,
    Inb.run prefix reqs tr Inb.init = Some (s, o) /\ j <> i /\
    Inb.a_out (Inb.act s i) = Some (OErr (ECtx j)).
Proof.
  exists [wreq; wreq], wc.
  destruct (Inb.run prefix [wreq; wreq] wc Inb.init) as [[s o]|] eqn:E; [|vm_compute in E; discriminate].
  exists s, o, 1, 0. split; [reflexivity|]. split; [discriminate|].
  vm_compute in E. inversion E; subst. reflexivity.
Qed.

(* finding (b), subgraph: the leader's context.Canceled is published as item.err *)
Definition wd : list action :=
  [Tau 0; Tau 1; Tau 1; Cancel 0; Ans 0 AErrCtx; Tau 0; Tau 0; Tau 0; WakeDone 1].

Lemma sub_err_origin_refuted_l :
  exists reqs tr s o i j,
    Sub.run prefix reqs tr Sub.init = Some (s, o) /\ j <> i /\
    Sub.a_out (Sub.act s i) = Some (OErr (ECtx j)).
Proof.
  exists [wreq; wreq], wd.
  destruct (Sub.run prefix [wreq; wreq] wd Sub.init) as [[s o]|] eqn:E; [|vm_compute in E; discriminate].
  exists s, o, 1, 0. split; [reflexivity|]. split; [discriminate|].
  vm_compute in E. inversion E; subst. reflexivity.
Qed.

(* on the fixed code the follower of a cancelled leader loads on its own and gets its own bytes *)
Example sub_wd_fixed :
  exists s, Sub.run fixed [wreq; wreq] (wd ++ [Ans 1 AOk]) Sub.init
            = Some (s, [ORet 0 (OErr (ECtx 0)); ORet 1 (OWrote KOk (rok wreq) None)]).
Proof. vm_compute. eexists. reflexivity. Qed.

(* ---- satisfiability of the theorems' hypotheses on the fixed model ---- *)
(* a follower that really shares: leader 0, followers 1 and 2 registered before HasFollowers *)
Definition wshare : list action :=
  [Tau 0; Tau 1; Tau 2; Tau 1; Tau 2; Ans 0 AOk; Wr 0 WOk; Tau 0; Tau 0; Tau 0; Tau 0; WakeDone 1; WakeDone 2;
   Wr 1 WOk; Wr 2 WOk].

Example inb_shared_example :
  exists s, inb_reach [wreq; wreq; wreq] s /\
            Inb.a_out (Inb.act s 1) = Some (OWrote KOk (rok wreq) (Some 0)) /\
            Inb.a_out (Inb.act s 2) = Some (OWrote KOk (rok wreq) (Some 0)).
Proof.
  destruct (Inb.run fixed [wreq; wreq; wreq] wshare Inb.init) as [[s o]|] eqn:E; [|vm_compute in E; discriminate].
  exists s. split; [exists wshare, o; exact E|].
  vm_compute in E. inversion E; subst. split; reflexivity.
Qed.

(* a follower that receives the leader's upstream error, and one that leaves with its own ctx error *)
Definition werr : list action :=
  [Tau 0; Tau 1; Tau 2; Tau 1; Tau 2; Cancel 2; WakeCtx 2; Ans 0 AErrUp; Tau 0; Tau 0; Tau 0; WakeDone 1].

Example inb_err_example :
  exists s, inb_reach [wreq; wreq; wreq] s /\
            Inb.a_out (Inb.act s 1) = Some (OErr (EUp 0)) /\
            Inb.a_out (Inb.act s 2) = Some (OErr (ECtx 2)).
Proof.
  destruct (Inb.run fixed [wreq; wreq; wreq] werr Inb.init) as [[s o]|] eqn:E; [|vm_compute in E; discriminate].
  exists s. split; [exists werr, o; exact E|].
  vm_compute in E. inversion E; subst. split; reflexivity.
Qed.

(* a state in which somebody has not returned (progress hypothesis): follower 1 waits for leader 0 *)
Example inb_waiting_example :
  exists s, inb_reach [wreq; wreq] s /\ Inb.a_pc (Inb.act s 1) = Inb.PWait /\ Inb.a_pc (Inb.act s 0) = Inb.PWork.
Proof.
  destruct (Inb.run fixed [wreq; wreq] [Tau 0; Tau 1; Tau 1] Inb.init) as [[s o]|] eqn:E; [|vm_compute in E; discriminate].
  exists s. split; [exists [Tau 0; Tau 1; Tau 1], o; exact E|].
  vm_compute in E. inversion E; subst. split; reflexivity.
Qed.

Example sub_shared_example :
  exists s, sub_reach [wreq; wreq] s /\
            Sub.a_out (Sub.act s 1) = Some (OWrote KOk (rok wreq) (Some 0)).
Proof.
  destruct (Sub.run fixed [wreq; wreq] [Tau 0; Tau 1; Tau 1; Ans 0 AOk; Tau 0; Tau 0; Tau 0; WakeDone 1] Sub.init)
    as [[s o]|] eqn:E; [|vm_compute in E; discriminate].
  exists s. split; [eexists _, o; exact E|].
  vm_compute in E. inversion E; subst. reflexivity.
Qed.

Example key_determines_body_example : key_determines_body [wreq; wreq; wreq].
Proof.
  intros i j H. destruct i as [|[|[|i]]]; destruct j as [|[|[|j]]]; cbn in *; try (destruct i); try (destruct j); cbn in *; auto; discriminate.
Qed.

(* ------------------------------------------------------------------ panics and the deferred release *)

(* the tree before c11_fix_c ([asis]): the inbound leader 0 panics in its work while follower 1 waits.
   Nothing is deferred: 0 is gone, Done stays open, the key stays registered - follower 1 (not cancelled) can
   never move again, nor can anybody else: the only enabled actions are cancellations. *)
Definition wpanic : list action := [Tau 0; Tau 1; Tau 1; Ans 0 APanic].

Lemma inb_panic_wedges_asis_l :
  exists reqs tr s o,
    Inb.run asis reqs tr Inb.init = Some (s, o) /\
    Inb.a_pc (Inb.act s 0) = Inb.PDone /\ Inb.a_out (Inb.act s 0) = Some (OCrash None) /\
    Inb.exists_b reqs 1 = true /\ Inb.a_pc (Inb.act s 1) = Inb.PWait /\ Inb.a_cancel (Inb.act s 1) = false /\
    (forall x, is_cancel x = false -> Inb.step asis reqs s x = None) /\
    Inb.tbl s (rkey wreq) = Some 0 /\ Inb.e_done (Inb.ent s 0) = false.
Proof.
  exists [wreq; wreq], wpanic.
  destruct (Inb.run asis [wreq; wreq] wpanic Inb.init) as [[s o]|] eqn:E; [|vm_compute in E; discriminate].
  exists s, o. split; [reflexivity|].
  vm_compute in E. inversion E; subst. clear E.
  repeat split; try (vm_compute; reflexivity).
  intros x Hx.
  destruct x as [i|i|i|i w|i|i v]; try discriminate;
    (destruct i as [|[|i]]; [| |vm_compute; reflexivity]); try (vm_compute; reflexivity);
    try (destruct w; vm_compute; reflexivity); try (destruct v; vm_compute; reflexivity).
Qed.

(* the same when the leader's client writer panics after the shared work succeeded *)
Definition wpanicw : list action := [Tau 0; Tau 1; Tau 1; Ans 0 AOk; Wr 0 WPanic].

Lemma inb_writer_panic_wedges_asis_l :
  exists reqs tr s o,
    Inb.run asis reqs tr Inb.init = Some (s, o) /\
    Inb.a_pc (Inb.act s 0) = Inb.PDone /\ Inb.a_pc (Inb.act s 1) = Inb.PWait /\
    (forall x, is_cancel x = false -> Inb.step asis reqs s x = None) /\
    Inb.tbl s (rkey wreq) = Some 0.
Proof.
  exists [wreq; wreq], wpanicw.
  destruct (Inb.run asis [wreq; wreq] wpanicw Inb.init) as [[s o]|] eqn:E; [|vm_compute in E; discriminate].
  exists s, o. split; [reflexivity|].
  vm_compute in E. inversion E; subst. clear E.
  repeat split; try (vm_compute; reflexivity).
  intros x Hx.
  destruct x as [i|i|i|i w|i|i v]; try discriminate;
    (destruct i as [|[|i]]; [| |vm_compute; reflexivity]); try (vm_compute; reflexivity);
    try (destruct w; vm_compute; reflexivity); try (destruct v; vm_compute; reflexivity).
Qed.

(* on the repaired code the deferred Abandon frees the key and closes Done with neither Data nor Err:
   follower 1 executes on its own, a request 2 that arrives afterwards is a new leader *)
Example inb_wpanic_fixed :
  exists s, Inb.run fixed [wreq; wreq; wreq]
              (wpanic ++ [Tau 0; Tau 0; WakeDone 1; Ans 1 AOk; Wr 1 WOk; Tau 2; Ans 2 AOk; Wr 2 WFail; Tau 2; Tau 2; Tau 2; Tau 2])
              Inb.init
            = Some (s, [ORet 0 (OCrash None); ORet 1 (OWrote KOk (rok wreq) None); ORet 2 (OWrote KOk (rok wreq) None)]) /\
            Inb.tbl s (rkey wreq) = None /\ Inb.a_ref (Inb.act s 2) = Some 2 /\ Inb.a_wr (Inb.act s 2) = Some WFail.
Proof. vm_compute. eexists. repeat split; reflexivity. Qed.

(* subgraph, [nodefer]: loadByContext with Finish as an ordinary call on the two return paths.  The leader's
   load panics: the item is neither closed nor deleted, follower 1 waits for ever *)
Lemma sub_panic_wedges_nodefer_l :
  exists reqs tr s o,
    Sub.run nodefer reqs tr Sub.init = Some (s, o) /\
    Sub.a_pc (Sub.act s 0) = Sub.PDone /\ Sub.a_out (Sub.act s 0) = Some (OCrash None) /\
    Sub.exists_b reqs 1 = true /\ Sub.a_pc (Sub.act s 1) = Sub.PWait /\ Sub.a_cancel (Sub.act s 1) = false /\
    (forall x, is_cancel x = false -> Sub.step nodefer reqs s x = None) /\
    Sub.tbl s (rkey wreq) = Some 0 /\ Sub.it_loaded (Sub.itm s 0) = false.
Proof.
  exists [wreq; wreq], wpanic.
  destruct (Sub.run nodefer [wreq; wreq] wpanic Sub.init) as [[s o]|] eqn:E; [|vm_compute in E; discriminate].
  exists s, o. split; [reflexivity|].
  vm_compute in E. inversion E; subst. clear E.
  repeat split; try (vm_compute; reflexivity).
  intros x Hx.
  destruct x as [i|i|i|i w|i|i v]; try discriminate;
    (destruct i as [|[|i]]; [| |vm_compute; reflexivity]); try (vm_compute; reflexivity);
    try (destruct w; vm_compute; reflexivity); try (destruct v; vm_compute; reflexivity).
Qed.

(* with the defer: Finish runs while the panic unwinds, the follower wakes on an item with nothing published
   (res.out = nil, reported as [OCrash (Some 0)]), the key is free for request 2 *)
Example sub_wpanic_fixed :
  exists s, Sub.run fixed [wreq; wreq; wreq]
              (wpanic ++ [Tau 0; Tau 0; WakeDone 1; Tau 2; Ans 2 AOk; Tau 2; Tau 2; Tau 2]) Sub.init
            = Some (s, [ORet 0 (OCrash None); ORet 1 (OCrash (Some 0)); ORet 2 (OWrote KOk (rok wreq) None)]) /\
            Sub.tbl s (rkey wreq) = None.
Proof. vm_compute. eexists. split; reflexivity. Qed.

(* the leader's client Write fails after the shared work succeeded and while its context is live:
   the followers get the shared bytes all the same, the failure stays in the leader's [a_wr] *)
Definition wwfail : list action :=
  [Tau 0; Tau 1; Tau 2; Tau 1; Tau 2; Ans 0 AOk; Wr 0 WFail; Tau 0; Tau 0; Tau 0; Tau 0; WakeDone 1; WakeDone 2;
   Wr 1 WOk; Wr 2 WFail].

Example inb_leader_write_fails_example :
  exists s, inb_reach [wreq; wreq; wreq] s /\
            Inb.a_wr (Inb.act s 0) = Some WFail /\
            Inb.a_out (Inb.act s 1) = Some (OWrote KOk (rok wreq) (Some 0)) /\ Inb.a_wr (Inb.act s 1) = Some WOk /\
            Inb.a_out (Inb.act s 2) = Some (OWrote KOk (rok wreq) (Some 0)) /\ Inb.a_wr (Inb.act s 2) = Some WFail.
Proof.
  destruct (Inb.run fixed [wreq; wreq; wreq] wwfail Inb.init) as [[s o]|] eqn:E; [|vm_compute in E; discriminate].
  exists s. split; [exists wwfail, o; exact E|].
  vm_compute in E. inversion E; subst. repeat split; reflexivity.
Qed.
