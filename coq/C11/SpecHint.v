(* C11: the size-hint clauses as a boolean checker that is evaluated on the IMPLEMENTATION's observables of one
   schedule of the size-hint table at quiescence (per leader: how it ended, the hint GetOrCreateItem gave it, the
   length of the response it recorded; per table entry: count and totalBytes read from the real table), and the same
   clauses as a proposition. *)
From Coq Require Import ZArith List Bool Arith Lia.
From Gv Require Import C11.ModelHint.
Import ListNotations.
Open Scope Z_scope.

Inductive hres := HRDone | HRPanic | HRNone.
Record hobs := { ho_res : hres; ho_hint : Z; ho_len : Z }.

Inductive hclause :=
| HCNoPanic      (* a leader panicked (integer divide by zero in the hint computation) *)
| HCReturns      (* a leader did not return although the schedule ran to quiescence *)
| HCHintMean     (* a hint is not within [0, max response length]: not a mean of recorded samples *)
| HCWindow.      (* an entry violates 1 <= count <= 50 /\ 0 <= total <= count * max response length at quiescence *)

Definition max_len (os : list hobs) : Z := fold_right (fun o m => Z.max (ho_len o) m) 0 os.

Definition hobs_ok_b (M : Z) (o : hobs) : option hclause :=
  match ho_res o with
  | HRPanic => Some HCNoPanic
  | HRNone => Some HCReturns
  | HRDone => if (0 <=? ho_hint o) && (ho_hint o <=? M) then None else Some HCHintMean
  end.

Definition size_ok_b (M : Z) (e : Z * Z) : bool :=
  let (c, t) := e in (1 <=? c) && (c <=? Hint.window) && (0 <=? t) && (t <=? c * M).

Fixpoint first_hfail (M : Z) (i : nat) (os : list hobs) : option (nat * hclause) :=
  match os with
  | [] => None
  | o :: os' => match hobs_ok_b M o with Some c => Some (i, c) | None => first_hfail M (S i) os' end
  end.

Definition hint_spec_b (os : list hobs) (sizes : list (Z * Z)) : option (nat * hclause) :=
  let M := max_len os in
  match first_hfail M 0 os with
  | Some f => Some f
  | None => if forallb (size_ok_b M) sizes then None else Some (0%nat, HCWindow)
  end.

Definition hobs_ok (M : Z) (o : hobs) : Prop := ho_res o = HRDone /\ 0 <= ho_hint o <= M.
Definition size_ok (M : Z) (e : Z * Z) : Prop := 1 <= fst e <= Hint.window /\ 0 <= snd e <= fst e * M.

Lemma first_hfail_none : forall M os i, first_hfail M i os = None -> Forall (hobs_ok M) os.
Proof.
  induction os as [|o os IH]; simpl; intros i H; [constructor|].
  destruct (hobs_ok_b M o) eqn:E; [discriminate|]. constructor; [|eapply IH; eauto].
  unfold hobs_ok_b in E. unfold hobs_ok. destruct (ho_res o) eqn:R; try discriminate.
  destruct ((0 <=? ho_hint o) && (ho_hint o <=? M)) eqn:B; [|discriminate].
  apply andb_true_iff in B. destruct B as [B1 B2]. apply Z.leb_le in B1. apply Z.leb_le in B2.
  split; [reflexivity | lia].
Qed.

Lemma hint_spec_b_sound_l : forall os sizes,
  hint_spec_b os sizes = None -> Forall (hobs_ok (max_len os)) os /\ Forall (size_ok (max_len os)) sizes.
Proof.
  intros os sizes H. unfold hint_spec_b in H.
  destruct (first_hfail (max_len os) 0 os) eqn:F; [discriminate|].
  destruct (forallb (size_ok_b (max_len os)) sizes) eqn:S; [|discriminate].
  split; [eapply first_hfail_none; eauto|].
  apply Forall_forall. intros [c t] Hin. rewrite forallb_forall in S. specialize (S _ Hin).
  unfold size_ok_b in S. repeat (apply andb_true_iff in S; destruct S as [S ?]).
  apply Z.leb_le in S. apply Z.leb_le in H0. apply Z.leb_le in H1. apply Z.leb_le in H2.
  unfold size_ok; simpl. lia.
Qed.
