(* C11 subgraph: preservation, part A (internal steps). *)
From Gv Require Import lib.Bytes C11.Model C11.ProofsSub.
From Coq Require Import Arith Lia Bool.
Import Sub.

Section S.
Variable reqs : list req.
Notation rq := (Sub.rq reqs).
Notation exists_b := (Sub.exists_b reqs).
Notation Inv := (Inv reqs).

Lemma inv_tau_start s i s' :
  Inv s -> exists_b i = true -> a_pc (act s i) = PStart -> tau fixed reqs s i = Some s' -> Inv s'.
Proof.
  intros HI He Hpc Hs. unfold tau in Hs. rewrite Hpc in Hs.
  destruct (elig (rq i)) eqn:Hel.
  - destruct (tbl s (rkey (rq i))) as [j|] eqn:Ht; start Hs.
    + solve_inv HI.
    + solve_inv HI.
  - start Hs. solve_inv HI.
Qed.

Lemma inv_tau_y1 s i s' :
  Inv s -> exists_b i = true -> a_pc (act s i) = PY1 -> tau fixed reqs s i = Some s' -> Inv s'.
Proof.
  intros HI He Hpc Hs. unfold tau in Hs. rewrite Hpc in Hs. start Hs.
  solve_inv HI.
Qed.

Lemma inv_tau_publish s i s' :
  Inv s -> exists_b i = true -> a_pc (act s i) = PPublish -> tau fixed reqs s i = Some s' -> Inv s'.
Proof.
  intros HI He Hpc Hs. unfold tau in Hs. rewrite Hpc in Hs.
  destruct (a_ref (act s i)) as [j|] eqn:Hr; [|discriminate]. own HI j i.
  cbn [fix_b fixed andb] in Hs.
  destruct (a_lres (act s i)) as [d|] eqn:Hl.
  - start Hs. solve_inv HI.
  - destruct (a_cancel (act s i)) eqn:Hc; start Hs.
    + solve_inv HI.
    + solve_inv HI.
Qed.

Lemma inv_tau_delete s i s' :
  Inv s -> exists_b i = true -> a_pc (act s i) = PDelete -> tau fixed reqs s i = Some s' -> Inv s'.
Proof.
  intros HI He Hpc Hs. unfold tau in Hs. rewrite Hpc in Hs.
  destruct (a_ref (act s i)) as [j|] eqn:Hr; [|discriminate]. own HI j i. start Hs.
  solve_inv HI.
Qed.

Lemma inv_tau_close s i s' :
  Inv s -> exists_b i = true -> a_pc (act s i) = PClose -> tau fixed reqs s i = Some s' -> Inv s'.
Proof.
  intros HI He Hpc Hs. unfold tau in Hs. rewrite Hpc in Hs.
  destruct (a_ref (act s i)) as [j|] eqn:Hr; [|discriminate]. own HI j i.
  assert (Hd : it_loaded (itm s i) = false).
  { apply (c_lead_open _ _ HI i Hr). rewrite Hpc. reflexivity. }
  rewrite Hd in Hs. start Hs.
  solve_inv HI.
Qed.
End S.
