(* C11: vocabulary of the property statements (reachability in the two transition systems,
   the "same key => same bytes" hypothesis) and the boolean checker [spec_b] that is evaluated
   on the IMPLEMENTATION's per-actor outcomes of one schedule (full-strength spec: no panic,
   everybody returns, bytes = own-alone bytes, sharing only between eligible same-key requests,
   error origin). *)
From Gv Require Import lib.Bytes C11.Model.
From Coq Require Import Arith.
Open Scope nat_scope.

Definition inb_reach (reqs : list req) (s : Inb.state) : Prop :=
  exists tr o, Inb.run fixed reqs tr Inb.init = Some (s, o).
Definition sub_reach (reqs : list req) (s : Sub.state) : Prop :=
  exists tr o, Sub.run fixed reqs tr Sub.init = Some (s, o).

(* requests with the same key get the same bytes on their own (the key covers operation, variables
   and forwarded headers; upstream is a function of those for the duration of the overlap) *)
Definition key_determines_body (reqs : list req) : Prop :=
  forall i j, rkey (nth i reqs dreq) = rkey (nth j reqs dreq) ->
    rok (nth i reqs dreq) = rok (nth j reqs dreq) /\ rfail (nth i reqs dreq) = rfail (nth j reqs dreq).

Definition sub_key_determines_body (reqs : list req) : Prop :=
  forall i j, rkey (nth i reqs dreq) = rkey (nth j reqs dreq) -> rok (nth i reqs dreq) = rok (nth j reqs dreq).

(* ---------------------------------------------------------------- checker on observed outcomes *)
Inductive ires :=
| RWrote (d : bytes)      (* bytes handed to the actor's writer / returned as res.out *)
| RErr (e : err)          (* returned error, identified by origin *)
| RErrOther               (* an error of unknown origin *)
| RPanic                  (* a panic that the environment did not inject into this actor *)
| RNone                   (* did not return although the schedule ran to quiescence *)
| RWrErr (a : nat) (d : bytes)  (* returned the error of actor a's client writer; d = what the actor's OWN writer was handed *)
| RCrash.                 (* the panic injected into its own work / own writer, recovered at the request boundary *)

Record iobs := {
  o_res : ires;
  o_shared : bool;             (* the implementation reports the result as de-duplicated / never executed own work *)
  o_cancelled : bool;          (* the schedule cancelled this actor's context *)
  o_ans : option answer;       (* how the schedule answered this actor's own work, if it executed *)
  o_wr : option wans           (* how the schedule answered the Write on this actor's own client writer, if it was called *)
}.
Definition dobs : iobs := {| o_res := RNone; o_shared := false; o_cancelled := false; o_ans := None; o_wr := None |}.

Inductive clause := CNoPanic | CReturns | CErrOrigin | CSharedKeyQuery | CTransparent
                  | CWriteErr      (* a client writer's failure is reported to its owner and to nobody else *)
                  | CRegistry.     (* no key stays registered once everybody has left *)

Definition ans_eqb (a b : answer) : bool :=
  match a, b with
  | AOk, AOk | AFailBody, AFailBody | ACanBody, ACanBody | AErrUp, AErrUp | AErrCtx, AErrCtx | APanic, APanic => true
  | _, _ => false
  end.
Definition ans_is (o : option answer) (w : answer) : bool :=
  match o with Some a => ans_eqb a w | None => false end.
Definition wans_eqb (a b : wans) : bool :=
  match a, b with WOk, WOk | WFail, WFail | WPanic, WPanic => true | _, _ => false end.
Definition wr_is (o : option wans) (v : wans) : bool :=
  match o with Some a => wans_eqb a v | None => false end.

Section Check.
Variable sub : bool.     (* true: the subgraph table (a follower of a leader whose load panicked gets res.out = nil) *)
Variable reqs : list req.
Variable os : list iobs.
Definition rq (i : nat) : req := nth i reqs dreq.
Definition ob (i : nat) : iobs := nth i os dobs.

(* actor j (another eligible request with the same key) executed the work and it was answered w *)
Definition producer (i : nat) (w : answer) (j : nat) : bool :=
  negb (j =? i) && (rkey (rq j) =? rkey (rq i))%N && elig (rq j) && negb (o_shared (ob j)) &&
  ans_is (o_ans (ob j)) w.

Definition actors : list nat := seq 0 (length reqs).

(* the bytes d were handed to actor i's writer (or returned to it as res.out) *)
Definition check_wrote (i : nat) (d : bytes) : option clause :=
  let r := rq i in
  let o := ob i in
  if o_shared o then
    if negb (elig r) then Some CSharedKeyQuery
    else if sub && bytes_eqb d [] && existsb (fun j => producer i APanic j) actors then None
    else if negb (existsb (fun j => producer i AOk j || producer i AFailBody j || producer i ACanBody j) actors)
    then Some CSharedKeyQuery
    else if existsb (fun j => producer i AOk j) actors && bytes_eqb d (rok r) then None
    else if existsb (fun j => producer i AFailBody j) actors && bytes_eqb d (rfail r) then None
    else Some CTransparent
  else
    match o_ans o with
    | Some AOk => if bytes_eqb d (rok r) then None else Some CTransparent
    | Some AFailBody => if bytes_eqb d (rfail r) then None else Some CTransparent
    | Some ACanBody => if o_cancelled o && bytes_eqb d (rcan r) then None else Some CTransparent
    | _ => Some CTransparent
    end.

Definition check_actor (i : nat) : option clause :=
  let r := rq i in
  let o := ob i in
  match o_res o with
  | RPanic => Some CNoPanic
  | RNone => Some CReturns
  | RErrOther => Some CErrOrigin
  | RCrash => if ans_is (o_ans o) APanic || wr_is (o_wr o) WPanic then None else Some CNoPanic
  | RWrote d => if wr_is (o_wr o) WFail then Some CWriteErr else check_wrote i d
  | RWrErr a d => if (a =? i) && wr_is (o_wr o) WFail then check_wrote i d else Some CWriteErr
  | RErr (ECtx a) => if (a =? i) && o_cancelled o then None else Some CErrOrigin
  | RErr (EUp a) =>
    if a =? i then (if ans_is (o_ans o) AErrUp then None else Some CErrOrigin)
    else if elig r && producer i AErrUp a then None else Some CErrOrigin
  end.

Fixpoint first_fail (l : list nat) : option (nat * clause) :=
  match l with
  | [] => None
  | i :: l' => match check_actor i with Some c => Some (i, c) | None => first_fail l' end
  end.

Definition spec_b : option (nat * clause) := first_fail actors.

(* the checker at quiescence: the per-actor clauses, then the registry: [reg] = the number of keys of this
   schedule that are still registered in the table when nothing can move any more *)
Definition spec_q_b (reg : nat) : option (nat * clause) :=
  match spec_b with
  | Some f => Some f
  | None => if reg =? 0 then None else Some (0, CRegistry)
  end.

(* the same spec as a proposition about one actor's observed outcome *)
Definition wrote_ok (i : nat) (d : bytes) : Prop :=
  let r := rq i in
  let o := ob i in
  if o_shared o then
    elig r = true /\
    exists j w, j < length reqs /\ j <> i /\ rkey (rq j) = rkey (rq i) /\ elig (rq j) = true /\
                o_shared (ob j) = false /\ o_ans (ob j) = Some w /\
                ((w = AOk /\ d = rok r) \/ (w = AFailBody /\ d = rfail r) \/
                 (w = APanic /\ d = [] /\ sub = true))
  else
    (o_ans o = Some AOk /\ d = rok r) \/ (o_ans o = Some AFailBody /\ d = rfail r) \/
    (o_ans o = Some ACanBody /\ o_cancelled o = true /\ d = rcan r).

Definition actor_ok (i : nat) : Prop :=
  let r := rq i in
  let o := ob i in
  match o_res o with
  | RPanic | RNone | RErrOther => False
  | RCrash => o_ans o = Some APanic \/ o_wr o = Some WPanic
  | RWrote d => o_wr o <> Some WFail /\ wrote_ok i d
  | RWrErr a d => a = i /\ o_wr o = Some WFail /\ wrote_ok i d
  | RErr (ECtx a) => a = i /\ o_cancelled o = true
  | RErr (EUp a) =>
    (a = i /\ o_ans o = Some AErrUp) \/
    (a <> i /\ elig r = true /\ rkey (rq a) = rkey (rq i) /\ elig (rq a) = true /\
     o_shared (ob a) = false /\ o_ans (ob a) = Some AErrUp)
  end.

End Check.
