(* C11: the outcomes of every complete run of the fixed subgraph model pass the boolean checker. *)
From Gv Require Import lib.Bytes C11.Model C11.Spec C11.ProofsSub C11.ProofsSubMain C11.ProofsSpec.
From Coq Require Import Arith Bool Lia.
Import Sub.
Open Scope nat_scope.

Definition sub_obs (s : state) (i : nat) : iobs :=
  let a := act s i in
  {| o_res := match a_out a with
              | Some (OWrote _ d _) => RWrote d
              | Some (OErr e) => RErr e
              | Some OPanic => RPanic
              | Some (OCrash None) => RCrash
              | Some (OCrash (Some _)) => RWrote []     (* res.out = nil, err = nil *)
              | None => RNone
              end;
     o_shared := match a_out a with Some (OWrote _ _ (Some _)) | Some (OCrash (Some _)) => true | _ => false end;
     o_cancelled := a_cancel a;
     o_ans := a_ans a;
     o_wr := None |}.

Definition sub_registered (reqs : list req) (s : state) : nat :=
  length (filter (fun i => match tbl s (rkey (Sub.rq reqs i)) with Some _ => true | None => false end)
                 (seq 0 (length reqs))).

Definition sub_observe (reqs : list req) (s : state) : list iobs := map (sub_obs s) (seq 0 (length reqs)).

Lemma bytes_eqb_refl a : bytes_eqb a a = true.
Proof. induction a as [|x a IH]; cbn; auto. rewrite N.eqb_refl. exact IH. Qed.

Lemma ob_observe reqs s i : i < length reqs -> ob (sub_observe reqs s) i = sub_obs s i.
Proof.
  intros Hi. unfold ob, sub_observe.
  rewrite (nth_indep _ dobs (sub_obs s 0)) by (rewrite map_length, seq_length; exact Hi).
  rewrite map_nth. rewrite seq_nth by exact Hi. reflexivity.
Qed.

Section S.
Variable reqs : list req.
Hypothesis KD : sub_key_determines_body reqs.

Lemma exists_lt i : Sub.exists_b reqs i = true -> i < length reqs.
Proof. unfold Sub.exists_b. apply Nat.ltb_lt. Qed.

Lemma leader_exists s j : Inv reqs s -> a_ref (act s j) = Some j -> j < length reqs.
Proof.
  intros HI Hr. apply exists_lt. destruct (Sub.exists_b reqs j) eqn:E; [reflexivity|].
  rewrite (c_absent _ _ HI j E) in Hr. discriminate.
Qed.

Lemma leader_not_shared s j : Inv reqs s -> a_ref (act s j) = Some j -> o_shared (sub_obs s j) = false.
Proof.
  intros HI Hr. unfold sub_obs. cbn.
  destruct (a_out (act s j)) as [[k d [j'|]|e| |[j'|]]|] eqn:Ho; auto.
  - destruct (c_out_sh _ _ HI _ _ _ _ Ho) as (N & Hr' & _). congruence.
  - destruct (c_out_crash_sh _ _ HI _ _ Ho) as (N & Hr' & _). congruence.
Qed.

Lemma producer_intro s i j w :
  Inv reqs s -> i < length reqs -> a_ref (act s i) = Some j -> j <> i -> a_ans (act s j) = Some w ->
  producer reqs (sub_observe reqs s) i w j = true.
Proof.
  intros HI Hi Hr N Ha.
  destruct (c_foll _ _ HI _ _ Hr N) as (Hj & Hk & He & _).
  destruct (c_lead _ _ HI _ Hj) as (Hej & _).
  pose proof (leader_exists _ _ HI Hj) as Hjl.
  unfold producer. rewrite (ob_observe _ _ _ Hjl).
  rewrite (leader_not_shared _ _ HI Hj).
  unfold Spec.rq. unfold Sub.rq in *.
  rewrite <- Hk, N.eqb_refl, Hej. cbn [sub_obs o_ans]. rewrite Ha.
  destruct (Nat.eqb_spec j i); [contradiction|].
  destruct w; reflexivity.
Qed.

Lemma check_actor_model s i :
  sub_reach reqs s -> i < length reqs -> a_out (act s i) <> None ->
  check_actor true reqs (sub_observe reqs s) i = None.
Proof.
  intros HR Hi Hout. pose proof (reach_inv _ _ HR) as HI.
  unfold check_actor, check_wrote. rewrite (ob_observe _ _ _ Hi). unfold sub_obs.
  cbn [o_res o_shared o_cancelled o_ans o_wr wr_is].
  destruct (a_out (act s i)) as [[k d [j|]|[a|a]| |[j|]]|] eqn:Ho; try congruence.
  - destruct (follower_bytes_l _ _ _ _ _ _ HR Ho) as (N & Hd & Hoj & Hb & Hk).
    destruct (c_out_sh _ _ HI _ _ _ _ Ho) as (_ & Hr & _).
    destruct (c_foll _ _ HI _ _ Hr N) as (Hj & Hkey & He & _).
    destruct (c_out_own _ _ HI _ _ _ Hoj) as (_ & _ & Haj).
    pose proof (leader_exists _ _ HI Hj) as Hjl.
    unfold Spec.rq. unfold Sub.rq in *. rewrite He. cbn [negb].
    pose proof (producer_intro s i j _ HI Hi Hr N Haj) as P.
    assert (Hin : In j (actors reqs)) by (apply in_seq; lia).
    pose proof (KD i j Hkey) as E1.
    destruct (true && bytes_eqb d [] && existsb (fun j0 => producer reqs (sub_observe reqs s) i APanic j0) (actors reqs));
      [reflexivity|].
    assert (X : existsb (fun j0 => producer reqs (sub_observe reqs s) i AOk j0 ||
                                   producer reqs (sub_observe reqs s) i AFailBody j0 ||
                                   producer reqs (sub_observe reqs s) i ACanBody j0) (actors reqs) = true).
    { apply existsb_exists. exists j. split; [exact Hin|]. rewrite P. reflexivity. }
    rewrite X. cbn [negb].
    assert (Y : existsb (fun j0 => producer reqs (sub_observe reqs s) i AOk j0) (actors reqs) = true).
    { apply existsb_exists. exists j. split; [exact Hin|exact P]. }
    rewrite Y, Hb, <- E1, bytes_eqb_refl. reflexivity.
  - destruct (c_out_own _ _ HI _ _ _ Ho) as (Hk & Hb & Ha). rewrite Ha.
    unfold Spec.rq. unfold Sub.rq in *. rewrite Hb, bytes_eqb_refl. reflexivity.
  - destruct (c_out_up _ _ HI _ _ Ho) as [(-> & Ha)|(N & Hr & He & _)].
    + rewrite Nat.eqb_refl, Ha. reflexivity.
    + destruct (Nat.eqb_spec a i); [contradiction|].
      destruct (c_foll _ _ HI _ _ Hr N) as (_ & _ & Hel & _).
      unfold Spec.rq. unfold Sub.rq in *. rewrite Hel.
      destruct (c_err _ _ HI _ _ He) as (_ & Ha & _).
      rewrite (producer_intro s i a _ HI Hi Hr N Ha). reflexivity.
  - destruct (c_out_ctx _ _ HI _ _ Ho) as (-> & Hc). rewrite Nat.eqb_refl, Hc. reflexivity.
  - exfalso. exact (c_out_panic _ _ HI i Ho).
  - (* woke on the item of a leader whose load panicked: res.out = nil *)
    destruct (c_out_crash_sh _ _ HI _ _ Ho) as (N & Hr & Hoj & _).
    pose proof (c_out_crash _ _ HI _ Hoj) as Haj.
    destruct (c_foll _ _ HI _ _ Hr N) as (Hj & Hkey & He & _).
    pose proof (leader_exists _ _ HI Hj) as Hjl.
    unfold Spec.rq. unfold Sub.rq in *. rewrite He. cbn [negb].
    pose proof (producer_intro s i j _ HI Hi Hr N Haj) as P.
    assert (Hin : In j (actors reqs)) by (apply in_seq; lia).
    assert (Y : existsb (fun j0 => producer reqs (sub_observe reqs s) i APanic j0) (actors reqs) = true).
    { apply existsb_exists. exists j. split; [exact Hin|exact P]. }
    rewrite Y. reflexivity.
  - (* own injected panic *)
    rewrite (c_out_crash _ _ HI _ Ho). reflexivity.
Qed.

Lemma first_fail_all l os :
  (forall i, In i l -> check_actor true reqs os i = None) -> first_fail true reqs os l = None.
Proof.
  induction l as [|x l IH]; cbn; intros H; [reflexivity|].
  rewrite (H x (or_introl eq_refl)). apply IH. intros i Hin. apply H. right. exact Hin.
Qed.

Lemma spec_b_model s :
  sub_reach reqs s -> (forall i, i < length reqs -> a_out (act s i) <> None) ->
  spec_b true reqs (sub_observe reqs s) = None.
Proof.
  intros HR Hall. unfold spec_b. apply first_fail_all. intros i Hin.
  unfold actors in Hin. apply in_seq in Hin. apply check_actor_model; auto; try lia. apply Hall. lia.
Qed.

Lemma filter_none {A} (f : A -> bool) l : (forall x, In x l -> f x = false) -> filter f l = [].
Proof.
  induction l as [|x l IH]; cbn; intros H; [reflexivity|].
  rewrite (H x (or_introl eq_refl)). apply IH. intros y Hy. apply H. right. exact Hy.
Qed.

Lemma spec_q_b_model s :
  sub_reach reqs s -> (forall i, i < length reqs -> a_pc (act s i) = PDone) ->
  spec_q_b true reqs (sub_observe reqs s) (sub_registered reqs s) = None.
Proof.
  intros HR Hall. unfold spec_q_b.
  rewrite spec_b_model; auto.
  2:{ intros i Hi. apply (returned_iff_outcome reqs s i HR). apply Hall. exact Hi. }
  unfold sub_registered. rewrite filter_none; [reflexivity|].
  intros i _. rewrite (quiescent_registry_empty_l reqs s HR); [reflexivity|].
  intros j Hj. apply Hall. apply exists_lt. exact Hj.
Qed.

End S.
