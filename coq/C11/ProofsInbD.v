(* C11 inbound: preservation, part D (follower wake-ups). *)
From Gv Require Import lib.Bytes C11.Model C11.ProofsInb.
From Coq Require Import Arith Lia.
Import Inb.

Section S.
Variable reqs : list req.
Notation rq := (Inb.rq reqs).
Notation exists_b := (Inb.exists_b reqs).
Notation Inv := (Inv reqs).

Lemma inv_wake_done s i s' :
  Inv s -> exists_b i = true -> wake_done fixed s i = Some s' -> Inv s'.
Proof.
  intros HI He Hs. unfold wake_done in Hs.
  destruct (a_pc (act s i)) eqn:Hpc; try discriminate.
  destruct (a_ref (act s i)) as [j|] eqn:Hr; [|discriminate].
  assert (N : j <> i).
  { intro; subst. pose proof (c_lead _ _ HI i Hr) as [_ L]. rewrite Hpc in L. discriminate. }
  pose proof (c_foll _ _ HI i j Hr N) as (Hj & Hk & Hel & _).
  destruct (e_done (ent s j)) eqn:Hd; [|discriminate].
  destruct (e_err (ent s j)) as [e|] eqn:Herr.
  - start Hs. solve_inv HI.
  - destruct (e_data (ent s j)) as [[k d]|] eqn:Hdata.
    + start Hs. solve_inv HI.
    + cbn [fix_a fixed] in Hs. start Hs. solve_inv HI.
Qed.

Lemma inv_wake_ctx s i s' :
  Inv s -> exists_b i = true -> wake_ctx s i = Some s' -> Inv s'.
Proof.
  intros HI He Hs. unfold wake_ctx in Hs.
  destruct (a_pc (act s i)) eqn:Hpc; try discriminate.
  destruct (a_cancel (act s i)) eqn:Hc; [|discriminate]. start Hs.
  solve_inv HI.
Qed.
End S.
