(* C11 subgraph: preservation, part B (wake-ups, load answers, cancellation). *)
From Gv Require Import lib.Bytes C11.Model C11.ProofsSub.
From Coq Require Import Arith Lia Bool.
Import Sub.

Section S.
Variable reqs : list req.
Notation rq := (Sub.rq reqs).
Notation exists_b := (Sub.exists_b reqs).
Notation Inv := (Inv reqs).

Lemma inv_wake_done s i s' :
  Inv s -> exists_b i = true -> wake_done s i = Some s' -> Inv s'.
Proof.
  intros HI He Hs. unfold wake_done in Hs.
  destruct (a_pc (act s i)) eqn:Hpc; try discriminate.
  destruct (a_ref (act s i)) as [j|] eqn:Hr; [|discriminate].
  assert (N : j <> i).
  { intro; subst. pose proof (c_lead _ _ HI i Hr) as [_ L]. rewrite Hpc in L. discriminate. }
  pose proof (c_foll _ _ HI i j Hr N) as (Hj & Hk & Hel & _).
  destruct (it_loaded (itm s j)) eqn:Hd; [|discriminate].
  destruct (it_abandoned (itm s j)) eqn:Hab.
  - start Hs. solve_inv HI.
  - destruct (it_err (itm s j)) as [e|] eqn:Herr.
    + start Hs. solve_inv HI.
    + destruct (it_resp (itm s j)) as [d|] eqn:Hresp.
      * start Hs. solve_inv HI.
      * (* nothing published: the leader's load panicked, the deferred Finish released the item *)
        assert (Hcr : a_out (act s j) = Some (OCrash None)).
        { apply (c_pubd _ _ HI j Hj Hresp Herr Hab).
          pose proof (c_lead_open _ _ HI j Hj) as O.
          destruct (a_pc (act s j)); cbn in *; try reflexivity; specialize (O eq_refl); congruence. }
        start Hs. solve_inv HI.
Qed.

Lemma inv_wake_ctx s i s' :
  Inv s -> exists_b i = true -> wake_ctx s i = Some s' -> Inv s'.
Proof.
  intros HI He Hs. unfold wake_ctx in Hs.
  destruct (a_pc (act s i)) eqn:Hpc; try discriminate.
  destruct (a_cancel (act s i)) eqn:Hc; [|discriminate]. start Hs.
  solve_inv HI.
Qed.

Lemma inv_loaded_ok s i :
  Inv s -> exists_b i = true -> a_pc (act s i) = PLoad ->
  Inv (loaded s i AOk (Some (rok (rq i))) (EUp i)).
Proof.
  intros HI He Hpc. unfold loaded.
  destruct (a_ref (act s i)) as [j|] eqn:Hr.
  - own HI j i. solve_inv HI.
  - solve_inv HI.
Qed.

Lemma inv_loaded_err s i w e :
  Inv s -> exists_b i = true -> a_pc (act s i) = PLoad ->
  (e = EUp i /\ w = AErrUp \/ e = ECtx i /\ a_cancel (act s i) = true) ->
  Inv (loaded s i w None e).
Proof.
  intros HI He Hpc Hw. unfold loaded.
  destruct (a_ref (act s i)) as [j|] eqn:Hr.
  - own HI j i. destruct Hw as [[-> ->]|[-> Hc]].
    + solve_inv HI.
    + solve_inv HI.
  - destruct Hw as [[-> ->]|[-> Hc]].
    + solve_inv HI.
    + solve_inv HI.
Qed.

Lemma inv_crashed s i :
  Inv s -> exists_b i = true -> a_pc (act s i) = PLoad -> Inv (crashed fixed s i APanic).
Proof.
  intros HI He Hpc. unfold crashed. cbn [sub_defer fixed].
  destruct (a_ref (act s i)) as [j|] eqn:Hr.
  - own HI j i. solve_inv HI.
  - solve_inv HI.
Qed.

Lemma inv_ans s i w s' :
  Inv s -> exists_b i = true -> ans fixed reqs s i w = Some s' -> Inv s'.
Proof.
  intros HI He Hs. unfold ans in Hs.
  destruct (a_pc (act s i)) eqn:Hpc; try discriminate.
  destruct w; try discriminate.
  - start Hs. apply inv_loaded_ok; auto.
  - start Hs. apply inv_loaded_err; auto.
  - destruct (a_cancel (act s i)) eqn:Hc; [|discriminate]. start Hs. apply inv_loaded_err; auto.
  - start Hs. apply inv_crashed; auto.
Qed.

Lemma inv_cancel s i :
  Inv s -> exists_b i = true -> Inv (with_act s i (set_cancel (act s i))).
Proof.
  intros HI He. solve_inv HI.
Qed.
End S.
