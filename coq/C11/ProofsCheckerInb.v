(* C11: the outcomes of every complete run of the fixed inbound model pass the boolean checker that the
   check evaluates on the implementation's outcomes (so a checker failure on the implementation is a
   behaviour the model does not have). *)
From Gv Require Import lib.Bytes C11.Model C11.Spec C11.ProofsInb C11.ProofsInbMain C11.ProofsSpec.
From Coq Require Import Arith Bool Lia.
Import Inb.
Open Scope nat_scope.

Definition inb_obs (s : state) (i : nat) : iobs :=
  let a := act s i in
  {| o_res := match a_out a with
              | Some (OWrote _ d _) => match a_wr a with Some WFail => RWrErr i d | _ => RWrote d end
              | Some (OErr e) => RErr e
              | Some OPanic => RPanic
              | Some (OCrash _) => RCrash
              | None => RNone
              end;
     o_shared := match a_out a with Some (OWrote _ _ (Some _)) => true | _ => false end;
     o_cancelled := a_cancel a;
     o_ans := a_ans a;
     o_wr := a_wr a |}.

(* the number of requests whose key is still registered *)
Definition inb_registered (reqs : list req) (s : state) : nat :=
  length (filter (fun i => match tbl s (rkey (Inb.rq reqs i)) with Some _ => true | None => false end)
                 (seq 0 (length reqs))).

Definition inb_observe (reqs : list req) (s : state) : list iobs := map (inb_obs s) (seq 0 (length reqs)).

Lemma bytes_eqb_refl a : bytes_eqb a a = true.
Proof. induction a as [|x a IH]; cbn; auto. rewrite N.eqb_refl. exact IH. Qed.

Lemma ob_observe reqs s i : i < length reqs -> ob (inb_observe reqs s) i = inb_obs s i.
Proof.
  intros Hi. unfold ob, inb_observe.
  rewrite (nth_indep _ dobs (inb_obs s 0)) by (rewrite map_length, seq_length; exact Hi).
  rewrite map_nth. rewrite seq_nth by exact Hi. reflexivity.
Qed.

Section S.
Variable reqs : list req.
Hypothesis KD : key_determines_body reqs.

Lemma exists_lt i : Inb.exists_b reqs i = true -> i < length reqs.
Proof. unfold Inb.exists_b. apply Nat.ltb_lt. Qed.

Lemma leader_exists s j : Inv reqs s -> a_ref (act s j) = Some j -> j < length reqs.
Proof.
  intros HI Hr. apply exists_lt. destruct (Inb.exists_b reqs j) eqn:E; [reflexivity|].
  rewrite (c_absent _ _ HI j E) in Hr. discriminate.
Qed.

Lemma leader_not_shared s j : Inv reqs s -> a_ref (act s j) = Some j -> o_shared (inb_obs s j) = false.
Proof.
  intros HI Hr. unfold inb_obs. cbn.
  destruct (a_out (act s j)) as [[k d [j'|]|e| |f]|] eqn:Ho; auto.
  destruct (c_out_sh _ _ HI _ _ _ _ Ho) as (N & Hr' & _). congruence.
Qed.

Lemma producer_intro s i j w :
  Inv reqs s -> i < length reqs -> a_ref (act s i) = Some j -> j <> i -> a_ans (act s j) = Some w ->
  producer reqs (inb_observe reqs s) i w j = true.
Proof.
  intros HI Hi Hr N Ha.
  destruct (c_foll _ _ HI _ _ Hr N) as (Hj & Hk & He & _).
  destruct (c_lead _ _ HI _ Hj) as (Hej & _).
  pose proof (leader_exists _ _ HI Hj) as Hjl.
  unfold producer. rewrite (ob_observe _ _ _ Hjl).
  rewrite (leader_not_shared _ _ HI Hj).
  unfold Spec.rq. unfold Inb.rq in *.
  rewrite <- Hk, N.eqb_refl, Hej. cbn [inb_obs o_ans]. rewrite Ha.
  destruct (Nat.eqb_spec j i); [contradiction|].
  destruct w; reflexivity.
Qed.

Lemma check_wrote_model s i k d f :
  inb_reach reqs s -> i < length reqs -> a_out (act s i) = Some (OWrote k d f) ->
  check_wrote false reqs (inb_observe reqs s) i d = None.
Proof.
  intros HR Hi Ho. pose proof (reach_inv _ _ HR) as HI.
  unfold check_wrote. rewrite (ob_observe _ _ _ Hi). unfold inb_obs. cbn [o_res o_shared o_cancelled o_ans].
  rewrite Ho. cbn [andb]. destruct f as [j|].
  - (* shared result *)
    destruct (follower_bytes_l _ _ _ _ _ _ HR Ho) as (N & Hd & Hoj & Hb & Hk).
    destruct (c_out_sh _ _ HI _ _ _ _ Ho) as (_ & Hr & _).
    destruct (c_foll _ _ HI _ _ Hr N) as (Hj & Hkey & He & _).
    destruct (c_out_own _ _ HI _ _ _ Hoj) as (_ & _ & Haj).
    pose proof (leader_exists _ _ HI Hj) as Hjl.
    unfold Spec.rq. unfold Inb.rq in *. rewrite He. cbn [negb].
    pose proof (producer_intro s i j _ HI Hi Hr N Haj) as P.
    assert (Hin : In j (actors reqs)) by (apply in_seq; lia).
    destruct (KD i j Hkey) as (E1 & E2).
    destruct k; cbn [ans_of_kind] in *; try congruence.
    + assert (X : existsb (fun j0 => producer reqs (inb_observe reqs s) i AOk j0 ||
                                     producer reqs (inb_observe reqs s) i AFailBody j0 ||
                                     producer reqs (inb_observe reqs s) i ACanBody j0) (actors reqs) = true).
      { apply existsb_exists. exists j. split; [exact Hin|]. rewrite P. reflexivity. }
      rewrite X. cbn [negb].
      assert (Y : existsb (fun j0 => producer reqs (inb_observe reqs s) i AOk j0) (actors reqs) = true).
      { apply existsb_exists. exists j. split; [exact Hin|exact P]. }
      rewrite Y. cbn in Hb. rewrite Hb, <- E1, bytes_eqb_refl. reflexivity.
    + assert (X : existsb (fun j0 => producer reqs (inb_observe reqs s) i AOk j0 ||
                                     producer reqs (inb_observe reqs s) i AFailBody j0 ||
                                     producer reqs (inb_observe reqs s) i ACanBody j0) (actors reqs) = true).
      { apply existsb_exists. exists j. split; [exact Hin|]. rewrite P. rewrite orb_true_r. reflexivity. }
      rewrite X. cbn [negb].
      assert (Y : existsb (fun j0 => producer reqs (inb_observe reqs s) i AFailBody j0) (actors reqs) = true).
      { apply existsb_exists. exists j. split; [exact Hin|exact P]. }
      rewrite Y. cbn in Hb.
      destruct (existsb (fun j0 => producer reqs (inb_observe reqs s) i AOk j0) (actors reqs) &&
                bytes_eqb d (rok (nth i reqs dreq))); [reflexivity|].
      rewrite Hb, <- E2, bytes_eqb_refl. reflexivity.
  - (* own result *)
    destruct (c_out_own _ _ HI _ _ _ Ho) as (Hb & Hc & Ha). rewrite Ha.
    unfold Spec.rq. unfold Inb.rq in *.
    destruct k; cbn [ans_of_kind]; cbn in Hb; rewrite Hb, bytes_eqb_refl; try reflexivity.
    rewrite (Hc eq_refl). reflexivity.
Qed.

Lemma check_actor_model s i :
  inb_reach reqs s -> i < length reqs -> a_out (act s i) <> None ->
  check_actor false reqs (inb_observe reqs s) i = None.
Proof.
  intros HR Hi Hout. pose proof (reach_inv _ _ HR) as HI.
  destruct (a_out (act s i)) as [[k d f|[a|a]| |f]|] eqn:Ho; try congruence.
  - (* bytes handed to the own writer: reported as written, or as the own writer's error *)
    pose proof (check_wrote_model s i k d f HR Hi Ho) as CW.
    unfold check_actor. rewrite (ob_observe _ _ _ Hi). unfold inb_obs. cbn [o_res o_wr]. rewrite Ho.
    destruct (a_wr (act s i)) as [[| |]|] eqn:Hw; cbn [wr_is wans_eqb]; try exact CW.
    rewrite Nat.eqb_refl. cbn [andb]. exact CW.
  - (* upstream error *)
    unfold check_actor. rewrite (ob_observe _ _ _ Hi). unfold inb_obs. cbn [o_res o_shared o_cancelled o_ans].
    rewrite Ho.
    destruct (c_out_up _ _ HI _ _ Ho) as [(-> & Ha)|(N & Hr & He & _)].
    + rewrite Nat.eqb_refl, Ha. reflexivity.
    + destruct (Nat.eqb_spec a i); [contradiction|].
      destruct (c_foll _ _ HI _ _ Hr N) as (_ & _ & Hel & _).
      unfold Spec.rq. unfold Inb.rq in *. rewrite Hel.
      destruct (c_err _ _ HI _ _ He) as (_ & Ha).
      rewrite (producer_intro s i a _ HI Hi Hr N Ha). reflexivity.
  - (* own context error *)
    unfold check_actor. rewrite (ob_observe _ _ _ Hi). unfold inb_obs. cbn [o_res o_shared o_cancelled o_ans].
    rewrite Ho.
    destruct (c_out_ctx _ _ HI _ _ Ho) as (-> & Hc). rewrite Nat.eqb_refl, Hc. reflexivity.
  - exfalso. exact (c_out_panic _ _ HI i Ho).
  - (* own injected panic *)
    unfold check_actor. rewrite (ob_observe _ _ _ Hi). unfold inb_obs. cbn [o_res o_ans o_wr]. rewrite Ho.
    destruct (c_out_crash _ _ HI _ _ Ho) as (_ & [Ha|Hw]).
    + rewrite Ha. reflexivity.
    + rewrite Hw. cbn. rewrite orb_true_r. reflexivity.
Qed.

Lemma first_fail_all l os :
  (forall i, In i l -> check_actor false reqs os i = None) -> first_fail false reqs os l = None.
Proof.
  induction l as [|x l IH]; cbn; intros H; [reflexivity|].
  rewrite (H x (or_introl eq_refl)). apply IH. intros i Hin. apply H. right. exact Hin.
Qed.

Lemma spec_b_model s :
  inb_reach reqs s -> (forall i, i < length reqs -> a_out (act s i) <> None) ->
  spec_b false reqs (inb_observe reqs s) = None.
Proof.
  intros HR Hall. unfold spec_b. apply first_fail_all. intros i Hin.
  unfold actors in Hin. apply in_seq in Hin. apply check_actor_model; auto; try lia. apply Hall. lia.
Qed.

Lemma filter_none {A} (f : A -> bool) l : (forall x, In x l -> f x = false) -> filter f l = [].
Proof.
  induction l as [|x l IH]; cbn; intros H; [reflexivity|].
  rewrite (H x (or_introl eq_refl)). apply IH. intros y Hy. apply H. right. exact Hy.
Qed.

(* at quiescence (everybody has returned) the checker with the registry clause passes as well *)
Lemma spec_q_b_model s :
  inb_reach reqs s -> (forall i, i < length reqs -> a_pc (act s i) = PDone) ->
  spec_q_b false reqs (inb_observe reqs s) (inb_registered reqs s) = None.
Proof.
  intros HR Hall. unfold spec_q_b.
  rewrite spec_b_model; auto.
  2:{ intros i Hi. apply (returned_iff_outcome reqs s i HR). apply Hall. exact Hi. }
  unfold inb_registered. rewrite filter_none; [reflexivity|].
  intros i _. rewrite (quiescent_registry_empty_l reqs s HR); [reflexivity|].
  intros j Hj. apply Hall. apply exists_lt. exact Hj.
Qed.

End S.
