(* C11: invariants of the size-hint table (ModelHint.v): the reader never divides by zero when it tests
   [count > 0], the rolling window keeps 0 <= count <= 50 and 0 <= total <= count * M for response lengths
   bounded by M (hence no wrap-around of Go's int for M * 50 < 2^63), every hint is a mean (0 <= hint <= M),
   an entry with count = 0 exists only while its publisher sits between LoadOrStore and its first record,
   and no leader is ever stuck on the table. *)
From Coq Require Import ZArith NArith List Bool Arith Lia.
From Gv Require Import C11.ModelHint.
Import ListNotations.
Import Hint.
Open Scope Z_scope.

Lemma quot_bound : forall t c M, 0 <= t <= c * M -> 0 < c -> 0 <= Z.quot t c <= M.
Proof.
  intros t c M H Hc. rewrite Z.quot_div_nonneg by lia. split.
  - apply Z.div_pos; lia.
  - apply Z.div_le_upper_bound; lia.
Qed.

Section P.
Variable guard : bool.
Variable fkeys : list N.
Variable M : Z.
Hypothesis HM : 0 <= M.

Definition entry_ok (e : entry) : Prop :=
  0 <= e_count e <= window /\ 0 <= e_total e <= e_count e * M.

Definition actor_ok (a : actor) : Prop := 0 <= h_len a <= M /\ 0 <= h_hint a <= M.

Record inv (s : state) : Prop := {
  i_tbl : forall k e, tbl s k = Some e -> entry_ok e;
  i_act : forall i, actor_ok (act s i);
  i_held : forall i, (h_pc (act s i) = PAvg \/ h_pc (act s i) = PRec) -> tbl s (fk fkeys i) <> None;
  i_guard : guard = true -> forall i, h_pc (act s i) <> PPanic
}.

Definition bounded_act (x : action) : Prop := match x with HAns _ n => n <= M | HStep _ => True end.

Lemma entry0_ok : entry_ok entry0.
Proof. unfold entry_ok, entry0, window; simpl; lia. Qed.

Lemma record_ok : forall e n, entry_ok e -> 0 <= n <= M -> entry_ok (record e n).
Proof.
  intros e n [Hc Ht] Hn. unfold record, entry_ok, window in *.
  destruct (e_count e =? 0) eqn:E0; cbn [e_count e_total].
  - lia.
  - apply Z.eqb_neq in E0. destruct (e_count e =? 50) eqn:E5; cbn [e_count e_total].
    + apply Z.eqb_eq in E5. rewrite E5 in Ht.
      pose proof (quot_bound (e_total e) 50 M Ht ltac:(lia)). lia.
    + apply Z.eqb_neq in E5. nia.
Qed.

Lemma record_count_pos : forall e n, 0 <= e_count e -> 0 < e_count (record e n).
Proof.
  intros e n H. unfold record, window.
  destruct (e_count e =? 0) eqn:E0; simpl; [lia|].
  apply Z.eqb_neq in E0. destruct (e_count e =? 50); simpl; lia.
Qed.

Lemma init_inv : inv init.
Proof.
  constructor; simpl; intros.
  - discriminate.
  - unfold actor_ok, actor0; simpl; lia.
  - destruct H; discriminate.
  - discriminate.
Qed.

Lemma inv_act : forall s i a', inv s -> actor_ok a' ->
  ((h_pc a' = PAvg \/ h_pc a' = PRec) -> tbl s (fk fkeys i) <> None) ->
  (guard = true -> h_pc a' <> PPanic) -> inv (with_act s i a').
Proof.
  intros s i a' [It Ia Ih Ig] Ha Hh Hg. constructor; simpl; intros.
  - eauto.
  - unfold upd. destruct (Nat.eqb i0 i); auto.
  - unfold upd in H. destruct (Nat.eqb i0 i) eqn:E; auto. apply Nat.eqb_eq in E; subst; auto.
  - unfold upd. destruct (Nat.eqb i0 i); auto.
Qed.

Lemma inv_tbl : forall s k e', inv s -> entry_ok e' -> inv (with_tbl s k e').
Proof.
  intros s k e' [It Ia Ih Ig] He. constructor; simpl; intros; auto.
  - unfold updN in H. destruct (N.eqb k0 k); [inversion H; subst; auto | eauto].
  - unfold updN. destruct (N.eqb (fk fkeys i) k); [discriminate | auto].
Qed.

Lemma actor_ok_pc : forall a p, actor_ok a -> actor_ok (set_pc a p).
Proof. intros a p H; exact H. Qed.

Lemma step_inv : forall s x s', inv s -> bounded_act x -> step guard fkeys s x = Some s' -> inv s'.
Proof.
  intros s x s' I B H.
  destruct x as [i | i n]; simpl in H;
    (destruct (negb (i <? length fkeys)%nat); [discriminate|]).
  - pose proof (i_act s I i) as Hi.
    destruct (h_pc (act s i)) eqn:P; try discriminate.
    + (* PStart *)
      destruct (tbl s (fk fkeys i)) eqn:T; inversion H; subst; clear H;
        (apply inv_act; [auto | apply actor_ok_pc; auto | simpl; intros [?|?]; congruence | simpl; intro; congruence]).
    + (* PAvg *)
      destruct (tbl s (fk fkeys i)) eqn:T; [|discriminate].
      pose proof (i_tbl s I _ _ T) as [Hc Ht].
      destruct guard eqn:G.
      * destruct (0 <? e_count e) eqn:C; inversion H; subst; clear H.
        -- apply Z.ltb_lt in C. pose proof (quot_bound _ _ _ Ht C).
           apply inv_act; [auto | | simpl; intros [?|?]; congruence | simpl; intro; congruence].
           destruct Hi. split; simpl; lia.
        -- apply inv_act; [auto | apply actor_ok_pc; auto | simpl; intros [?|?]; congruence | simpl; intro; congruence].
      * destruct (e_count e =? 0) eqn:C; inversion H; subst; clear H.
        -- apply inv_act; [auto | apply actor_ok_pc; auto | simpl; intros [?|?]; congruence | simpl; intro; congruence].
        -- apply Z.eqb_neq in C. assert (0 < e_count e) as C' by lia. pose proof (quot_bound _ _ _ Ht C').
           apply inv_act; [auto | | simpl; intros [?|?]; congruence | simpl; intro; congruence].
           destruct Hi. split; simpl; lia.
    + (* PFin0 *)
      destruct (tbl s (fk fkeys i)) eqn:T; inversion H; subst; clear H;
        (apply inv_act; [auto | apply actor_ok_pc; auto | simpl; intros [?|?]; congruence | simpl; intro; congruence]).
    + (* PFin1 *)
      destruct (tbl s (fk fkeys i)) eqn:T; inversion H; subst; clear H.
      * apply inv_act; [auto | apply actor_ok_pc; auto | simpl; intros [?|?]; congruence | simpl; intro; congruence].
      * apply inv_act; [apply inv_tbl; [auto | apply entry0_ok] | apply actor_ok_pc; auto | | simpl; intro; congruence].
        intros _. simpl. unfold updN. rewrite N.eqb_refl. discriminate.
    + (* PRec *)
      destruct (tbl s (fk fkeys i)) eqn:T; [|discriminate]. inversion H; subst; clear H.
      apply inv_act; [apply inv_tbl; [auto|] | apply actor_ok_pc; auto | simpl; intros [?|?]; congruence | simpl; intro; congruence].
      apply record_ok; [eapply i_tbl; eauto | apply Hi].
  - pose proof (i_act s I i) as Hi.
    destruct (h_pc (act s i)) eqn:P; try discriminate.
    destruct (n <? 0) eqn:N0; [discriminate|]. apply Z.ltb_ge in N0. inversion H; subst; clear H.
    simpl in B.
    apply inv_act; [auto | | simpl; intros [?|?]; congruence | simpl; intro; congruence].
    destruct Hi. split; simpl; lia.
Qed.

Definition bounded (tr : list action) : Prop := Forall bounded_act tr.

Lemma run_inv : forall tr s s', inv s -> bounded tr -> run guard fkeys tr s = Some s' -> inv s'.
Proof.
  induction tr as [|x tr IH]; simpl; intros s s' I B H.
  - inversion H; subst; auto.
  - inversion B; subst. destruct (step guard fkeys s x) as [s0|] eqn:S; [|discriminate].
    apply (IH s0 s'); [eapply step_inv; eauto | assumption | assumption].
Qed.

(* no leader is ever stuck on the table: an actor that has not finished (and did not panic) can take its next
   step, whatever the others did *)
Lemma step_enabled : forall s i, inv s -> (i < length fkeys)%nat ->
  match h_pc (act s i) with
  | PDone | PPanic => True
  | PWork => forall n, 0 <= n -> step guard fkeys s (HAns i n) <> None
  | _ => step guard fkeys s (HStep i) <> None
  end.
Proof.
  intros s i I L. apply Nat.ltb_lt in L.
  destruct (h_pc (act s i)) eqn:P; auto; simpl; rewrite L; simpl; rewrite P.
  - destruct (tbl s (fk fkeys i)); discriminate.
  - pose proof (i_held s I i (or_introl P)). destruct (tbl s (fk fkeys i)); [|congruence].
    destruct guard; [destruct (0 <? e_count e) | destruct (e_count e =? 0)]; discriminate.
  - intros n Hn. apply Z.ltb_ge in Hn. rewrite Hn. discriminate.
  - destruct (tbl s (fk fkeys i)); discriminate.
  - destruct (tbl s (fk fkeys i)); discriminate.
  - pose proof (i_held s I i (or_intror P)). destruct (tbl s (fk fkeys i)); [discriminate|congruence].
Qed.

End P.

(* ---- an empty entry has a publisher: count = 0 only between LoadOrStore and the first record ---- *)
Section Pub.
Variable guard : bool.
Variable fkeys : list N.

Definition pub_inv (s : state) : Prop :=
  forall k e, tbl s k = Some e ->
    0 <= e_count e /\
    (e_count e = 0 -> exists i, (i < length fkeys)%nat /\ fk fkeys i = k /\ h_pc (act s i) = PRec).

Lemma pub_act : forall s i a', pub_inv s -> (h_pc (act s i) <> PRec \/ h_pc a' = PRec) -> pub_inv (with_act s i a').
Proof.
  intros s i a' I D k e Hk. simpl in Hk. destruct (I k e Hk) as [Hc Hp]. split; auto.
  intro Z0. destruct (Hp Z0) as (j & Lj & Fj & Pj). exists j. split; [auto|split; [auto|]].
  simpl. unfold upd. destruct (Nat.eqb j i) eqn:E; auto. apply Nat.eqb_eq in E; subst. destruct D; congruence.
Qed.

Lemma pub_step : forall s x s', pub_inv s -> step guard fkeys s x = Some s' -> pub_inv s'.
Proof.
  intros s x s' I H. destruct x as [i | i n]; simpl in H;
    (destruct (i <? length fkeys)%nat eqn:L; simpl in H; [apply Nat.ltb_lt in L | discriminate]).
  - destruct (h_pc (act s i)) eqn:P; try discriminate.
    + destruct (tbl s (fk fkeys i)) eqn:T; inversion H; subst; clear H; apply pub_act; auto; left; congruence.
    + destruct (tbl s (fk fkeys i)) eqn:T; [|discriminate].
      destruct guard; [destruct (0 <? e_count e) | destruct (e_count e =? 0)]; inversion H; subst; clear H;
        apply pub_act; auto; left; congruence.
    + destruct (tbl s (fk fkeys i)) eqn:T; inversion H; subst; clear H; apply pub_act; auto; left; congruence.
    + destruct (tbl s (fk fkeys i)) eqn:T; inversion H; subst; clear H.
      * apply pub_act; auto; left; congruence.
      * intros k e0 Hk; simpl in Hk. unfold updN in Hk. destruct (N.eqb k (fk fkeys i)) eqn:E.
        -- apply N.eqb_eq in E. inversion Hk; subst. simpl. split; [lia|]. intros _.
           exists i. split; [auto|split; [auto|]]. simpl. unfold upd. rewrite Nat.eqb_refl. reflexivity.
        -- destruct (I _ _ Hk) as [Hc Hp]; (split; [auto|]).
           intro Z0; destruct (Hp Z0) as (j & Lj & Fj & Pj); exists j; (split; [auto|split; [auto|]]).
           simpl; unfold upd; destruct (Nat.eqb j i) eqn:E'; auto.
    + (* PRec: the recorded entry has count > 0; other keys are untouched and belong to other actors *)
      destruct (tbl s (fk fkeys i)) eqn:T; [|discriminate]. inversion H; subst; clear H.
      intros k e0 Hk; simpl in Hk. unfold updN in Hk. destruct (N.eqb k (fk fkeys i)) eqn:E.
      * inversion Hk; subst. destruct (I _ _ T) as [Hc _].
        pose proof (record_count_pos e (h_len (act s i)) Hc). split; lia.
      * apply N.eqb_neq in E. destruct (I _ _ Hk) as [Hc Hp]; (split; [auto|]).
        intro Z0; destruct (Hp Z0) as (j & Lj & Fj & Pj); exists j; (split; [auto|split; [auto|]]).
        simpl; unfold upd; destruct (Nat.eqb j i) eqn:E'; auto. apply Nat.eqb_eq in E'; subst. congruence.
  - destruct (h_pc (act s i)) eqn:P; try discriminate.
    destruct (n <? 0); [discriminate|]. inversion H; subst; clear H.
    apply pub_act; auto; left; congruence.
Qed.

Lemma pub_run : forall tr s s', pub_inv s -> run guard fkeys tr s = Some s' -> pub_inv s'.
Proof.
  induction tr as [|x tr IH]; simpl; intros s s' I H.
  - inversion H; subst; auto.
  - destruct (step guard fkeys s x) as [s0|] eqn:S; [|discriminate].
    apply (IH s0 s'); [eapply pub_step; eauto | assumption].
Qed.

Lemma pub_init : pub_inv init.
Proof. intros k e H; discriminate. Qed.

End Pub.

(* ---------------------------------------------------------------- statements used by Properties.v *)

Lemma never_panics_l : forall fkeys tr s i,
  run true fkeys tr init = Some s -> h_pc (act s i) <> PPanic.
Proof.
  intros fkeys tr s i H.
  (* the guarded reader has no transition into PPanic: no bound on the samples is needed *)
  assert (forall tr s s', (forall j, h_pc (act s j) <> PPanic) -> run true fkeys tr s = Some s' ->
                          forall j, h_pc (act s' j) <> PPanic) as G.
  { clear. induction tr as [|x tr IH]; simpl; intros s s' I H.
    - inversion H; subst; auto.
    - destruct (step true fkeys s x) as [s0|] eqn:S; [|discriminate].
      apply (IH s0 s'); auto. clear IH H.
      destruct x as [i | i n]; simpl in S; (destruct (negb (i <? length fkeys)%nat); [discriminate|]).
      + destruct (h_pc (act s i)) eqn:P; try discriminate;
          destruct (tbl s (fk fkeys i)) as [e|]; try discriminate;
          try (destruct (0 <? e_count e)); inversion S; subst; intros j; simpl; unfold upd;
          destruct (Nat.eqb j i); simpl; auto; discriminate.
      + destruct (h_pc (act s i)) eqn:P; try discriminate. destruct (n <? 0); [discriminate|].
        inversion S; subst; intros j; simpl; unfold upd; destruct (Nat.eqb j i); simpl; auto; discriminate. }
  apply (G tr init s); auto. intros j; simpl; discriminate.
Qed.

Lemma unguarded_refuted_l :
  exists fkeys tr s, run false fkeys tr init = Some s /\ fk fkeys 0 = fk fkeys 1 /\ h_pc (act s 1) = PPanic /\
                     tbl s (fk fkeys 0) = Some entry0 /\ h_pc (act s 0) = PRec.
Proof.
  exists [7%N; 7%N], [HStep 0; HAns 0 120; HStep 0; HStep 0; HStep 1; HStep 1].
  eexists. split; [vm_compute; reflexivity|]. vm_compute. repeat split; reflexivity.
Qed.

Lemma window_bounds_l : forall guard fkeys M tr s,
  0 <= M -> bounded M tr -> run guard fkeys tr init = Some s ->
  (forall k e, tbl s k = Some e -> 0 <= e_count e <= window /\ 0 <= e_total e <= e_count e * M) /\
  (forall i, 0 <= h_hint (act s i) <= M /\ 0 <= h_len (act s i) <= M).
Proof.
  intros guard fkeys M tr s HM B H.
  pose proof (run_inv guard fkeys M tr init s (init_inv guard fkeys M HM) B H) as I.
  split.
  - intros k e T. exact (i_tbl _ _ _ _ I k e T).
  - intros i. destruct (i_act _ _ _ _ I i). split; assumption.
Qed.

Lemma no_overflow_l : forall guard fkeys M tr s,
  0 <= M -> M * window < 2 ^ 63 -> bounded M tr -> run guard fkeys tr init = Some s ->
  (forall k e, tbl s k = Some e -> e_total e < 2 ^ 63 /\ e_count e < 2 ^ 63) /\
  (forall k e n, tbl s k = Some e -> 0 <= n <= M -> e_total (record e n) < 2 ^ 63) /\
  (forall i, h_hint (act s i) < 2 ^ 63).
Proof.
  intros guard fkeys M tr s HM HO B H.
  destruct (window_bounds_l guard fkeys M tr s HM B H) as [Ht Ha].
  unfold window in *. split; [|split].
  - intros k e T. destruct (Ht k e T). split; nia.
  - intros k e n T Hn. destruct (Ht k e T) as [Hc Hb].
    assert (entry_ok M e) as Ok by (split; assumption).
    destruct (record_ok M e n Ok Hn) as [Hc' Hb']. unfold window in *. nia.
  - intros i. destruct (Ha i). nia.
Qed.

Lemma empty_entry_has_publisher_l : forall guard fkeys tr s k e,
  run guard fkeys tr init = Some s -> tbl s k = Some e ->
  0 <= e_count e /\
  (e_count e = 0 -> exists i, (i < length fkeys)%nat /\ fk fkeys i = k /\ h_pc (act s i) = PRec).
Proof.
  intros guard fkeys tr s k e H T.
  exact (pub_run guard fkeys tr init s (pub_init fkeys) H k e T).
Qed.

Lemma progress_l : forall guard fkeys M tr s i,
  0 <= M -> bounded M tr -> run guard fkeys tr init = Some s -> (i < length fkeys)%nat ->
  match h_pc (act s i) with
  | PDone | PPanic => True
  | PWork => forall n, 0 <= n -> step guard fkeys s (HAns i n) <> None
  | _ => step guard fkeys s (HStep i) <> None
  end.
Proof.
  intros guard fkeys M tr s i HM B H L.
  apply (step_enabled guard fkeys M); auto.
  exact (run_inv guard fkeys M tr init s (init_inv guard fkeys M HM) B H).
Qed.
