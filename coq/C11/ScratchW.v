From Gv Require Import lib.Bytes C11.Model.
Import Inb.
Definition r0 : req := {| rkey := 7%N; rquery := true; rdedup := true; rok := [1%N]; rfail := [2%N]; rcan := [3%N] |}.
Definition wa : list action :=
  [Tau 0; Tau 1; Ans 0 AOk; Tau 0; Tau 0; Tau 0; Tau 0; Tau 1; WakeDone 1; Ans 1 AOk; Tau 1; Tau 1; Tau 1; Tau 1].
Eval vm_compute in (match run prefix [r0; r0] wa init with Some (_, o) => Some o | None => None end).
Eval vm_compute in (match run fixed [r0; r0] wa init with Some (_, o) => Some o | None => None end).
Definition wa2 : list action :=
  [Tau 0; Tau 1; Ans 0 AOk; Tau 0; Tau 0; Tau 0; Tau 0; Tau 1; WakeDone 1; Ans 1 AOk].
Eval vm_compute in (match run fixed [r0; r0] wa2 init with Some (_, o) => Some o | None => None end).
(* b-inbound *)
Definition wb : list action :=
  [Tau 0; Tau 1; Tau 1; Cancel 0; Ans 0 ACanBody; Tau 0; Tau 0; Tau 0; Tau 0; WakeDone 1].
Eval vm_compute in (match run prefix [r0; r0] wb init with Some (_, o) => Some o | None => None end).
Eval vm_compute in (match run fixed [r0; r0] (wb ++ [Ans 1 AOk]) init with Some (_, o) => Some o | None => None end).
