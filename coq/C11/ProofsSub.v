(* C11 subgraph single flight (fixed code): the invariant and the proof automation. *)
From Gv Require Import lib.Bytes C11.Model.
From Coq Require Import Arith Lia.
Import Sub.

Section Inv.
Variable reqs : list req.
Notation rq := (Sub.rq reqs).
Notation exists_b := (Sub.exists_b reqs).

Definition lead_pc (p : pc) : bool := match p with PStart | PY1 | PWait => false | _ => true end.
Definition in_tbl_pc (p : pc) : bool := match p with PLoad | PPublish | PDelete => true | _ => false end.
Definition open_pc (p : pc) : bool := match p with PLoad | PPublish | PDelete | PClose => true | _ => false end.
Definition unpub_pc (p : pc) : bool := match p with PLoad | PPublish => true | _ => false end.
Definition foll_pc (p : pc) : bool := match p with PY1 | PWait | PDone => true | _ => false end.
Definition noref_pc (p : pc) : bool := match p with PStart | PLoad | PDone => true | _ => false end.
Definition run_pc (p : pc) : bool := match p with PStart | PY1 | PWait | PLoad => true | _ => false end.

Record Inv (s : state) : Prop := {
  c_absent : forall i, exists_b i = false -> act s i = actor0;
  c_tbl : forall k j, tbl s k = Some j ->
      a_ref (act s j) = Some j /\ in_tbl_pc (a_pc (act s j)) = true /\ rkey (rq j) = k;
  c_lead : forall i, a_ref (act s i) = Some i -> elig (rq i) = true /\ lead_pc (a_pc (act s i)) = true;
  c_lead_tbl : forall i, a_ref (act s i) = Some i -> in_tbl_pc (a_pc (act s i)) = true ->
      tbl s (rkey (rq i)) = Some i;
  c_lead_open : forall i, a_ref (act s i) = Some i -> open_pc (a_pc (act s i)) = true ->
      it_loaded (itm s i) = false;
  c_lead_unpub : forall i, a_ref (act s i) = Some i -> unpub_pc (a_pc (act s i)) = true ->
      it_resp (itm s i) = None /\ it_err (itm s i) = None /\ it_abandoned (itm s i) = false;
  c_lead_done : forall i, a_ref (act s i) = Some i -> a_pc (act s i) = PDone -> it_loaded (itm s i) = true;
  (* an item past its publication point with nothing published: its leader's load panicked and the
     deferred Finish released it *)
  c_pubd : forall i, a_ref (act s i) = Some i -> it_resp (itm s i) = None -> it_err (itm s i) = None ->
      it_abandoned (itm s i) = false -> unpub_pc (a_pc (act s i)) = false ->
      a_out (act s i) = Some (OCrash None);
  c_foll : forall i j, a_ref (act s i) = Some j -> j <> i ->
      a_ref (act s j) = Some j /\ rkey (rq i) = rkey (rq j) /\ elig (rq i) = true /\
      foll_pc (a_pc (act s i)) = true;
  c_noref : forall i, a_ref (act s i) = None -> noref_pc (a_pc (act s i)) = true;
  c_pristine : forall i, a_ref (act s i) <> Some i -> itm s i = item0;
  c_resp : forall j d, it_resp (itm s j) = Some d ->
      a_out (act s j) = Some (OWrote KOk d None) /\ it_err (itm s j) = None /\ it_abandoned (itm s j) = false;
  c_err : forall j e, it_err (itm s j) = Some e ->
      e = EUp j /\ a_ans (act s j) = Some AErrUp /\ it_abandoned (itm s j) = false;
  c_lres : forall i d, a_pc (act s i) = PPublish -> a_lres (act s i) = Some d ->
      a_out (act s i) = Some (OWrote KOk d None);
  c_lerr : forall i, a_pc (act s i) = PPublish -> a_lres (act s i) = None ->
      (a_lerr (act s i) = EUp i /\ a_ans (act s i) = Some AErrUp) \/
      (a_lerr (act s i) = ECtx i /\ a_cancel (act s i) = true);
  c_out_panic : forall i, a_out (act s i) <> Some OPanic;
  c_out_own : forall i k d, a_out (act s i) = Some (OWrote k d None) ->
      k = KOk /\ d = rok (rq i) /\ a_ans (act s i) = Some AOk;
  c_out_sh : forall i k d j, a_out (act s i) = Some (OWrote k d (Some j)) ->
      j <> i /\ a_ref (act s i) = Some j /\ it_resp (itm s j) = Some d /\ k = KOk /\ a_pc (act s i) = PDone;
  c_out_ctx : forall i a, a_out (act s i) = Some (OErr (ECtx a)) -> a = i /\ a_cancel (act s i) = true;
  c_out_up : forall i a, a_out (act s i) = Some (OErr (EUp a)) ->
      (a = i /\ a_ans (act s i) = Some AErrUp) \/
      (a <> i /\ a_ref (act s i) = Some a /\ it_err (itm s a) = Some (EUp a) /\ a_pc (act s i) = PDone);
  c_out_crash : forall i, a_out (act s i) = Some (OCrash None) -> a_ans (act s i) = Some APanic;
  c_out_crash_sh : forall i j, a_out (act s i) = Some (OCrash (Some j)) ->
      j <> i /\ a_ref (act s i) = Some j /\ a_out (act s j) = Some (OCrash None) /\
      it_loaded (itm s j) = true /\ a_pc (act s i) = PDone;
  c_run : forall i, run_pc (a_pc (act s i)) = true -> a_out (act s i) = None;
  c_nrun : forall i, run_pc (a_pc (act s i)) = false -> a_out (act s i) <> None;
  c_start : forall i, a_pc (act s i) = PStart -> a_ref (act s i) = None
}.

Lemma inv_init : Inv init.
Proof.
  constructor; cbn; intros; try discriminate; try tauto; auto.
Qed.

End Inv.

(* ---- automation ---- *)
Ltac simp :=
  cbn [act itm tbl with_act with_itm with_tbl
       a_pc a_ref a_cancel a_lres a_lerr a_out a_ans
       set_pc set_ref set_cancel set_load set_out set_ans
       it_loaded it_resp it_err it_abandoned it_close it_set_resp it_set_err it_set_abandoned] in *.

Ltac upd1 :=
  match goal with
  | |- context [upd _ ?i _ ?j] =>
    unfold upd at 1; destruct (Nat.eqb_spec j i); [subst|]
  | H : context [upd _ ?i _ ?j] |- _ =>
    unfold upd in H at 1; destruct (Nat.eqb_spec j i); [subst|]
  | |- context [updN _ ?i _ ?j] =>
    unfold updN at 1; destruct (N.eqb_spec j i); [subst|]
  | H : context [updN _ ?i _ ?j] |- _ =>
    unfold updN in H at 1; destruct (N.eqb_spec j i); [subst|]
  end.

Ltac learn t :=
  let T := type of t in
  lazymatch goal with
  | _ : T |- _ => fail
  | _ => pose proof t
  end.

Ltac fwd_light HI :=
  repeat match goal with
  | H : tbl _ ?k = Some ?j |- _ => learn (c_tbl _ _ HI k j H)
  | H : it_resp (itm _ ?j) = Some ?d |- _ => learn (c_resp _ _ HI j d H)
  | H : it_err (itm _ ?j) = Some ?e |- _ => learn (c_err _ _ HI j e H)
  | H : a_out (act _ ?i) = Some (OWrote ?k ?d None) |- _ => learn (c_out_own _ _ HI i k d H)
  | H : a_out (act _ ?i) = Some (OWrote ?k ?d (Some ?j)) |- _ => learn (c_out_sh _ _ HI i k d j H)
  | H : a_out (act _ ?i) = Some (OErr (ECtx ?a)) |- _ => learn (c_out_ctx _ _ HI i a H)
  | H : a_out (act _ ?i) = Some (OErr (EUp ?a)) |- _ => learn (c_out_up _ _ HI i a H)
  | H : a_out (act _ ?i) = Some (OCrash None) |- _ => learn (c_out_crash _ _ HI i H)
  | H : a_out (act _ ?i) = Some (OCrash (Some ?j)) |- _ => learn (c_out_crash_sh _ _ HI i j H)
  | H : a_ref (act _ ?i) = Some ?i |- _ => learn (c_lead _ _ HI i H)
  | H : a_ref (act _ ?i) = Some ?j, N : ?j <> ?i |- _ => learn (c_foll _ _ HI i j H N)
  | H : a_ref (act _ ?i) = None |- _ => learn (c_noref _ _ HI i H)
  | H : Sub.exists_b _ ?i = false |- _ => learn (c_absent _ _ HI i H)
  | P : a_pc (act _ ?i) = PPublish, H : a_lres (act _ ?i) = Some ?d |- _ => learn (c_lres _ _ HI i d P H)
  end.

Ltac fwd HI :=
  fwd_light HI;
  repeat match goal with
  | x : nat |- _ => learn (c_lead_tbl _ _ HI x)
  | x : nat |- _ => learn (c_lead_open _ _ HI x)
  | x : nat |- _ => learn (c_lead_unpub _ _ HI x)
  | x : nat |- _ => learn (c_lead_done _ _ HI x)
  | x : nat |- _ => learn (c_pubd _ _ HI x)
  | x : nat |- _ => learn (c_pristine _ _ HI x)
  | x : nat |- _ => learn (c_lerr _ _ HI x)
  | x : nat |- _ => learn (c_out_panic _ _ HI x)
  | x : nat |- _ => learn (c_run _ _ HI x)
  | x : nat |- _ => learn (c_nrun _ _ HI x)
  | x : nat |- _ => learn (c_start _ _ HI x)
  end.

Ltac rw_pc :=
  repeat match goal with
  | H : a_pc (act ?s ?i) = _ |- _ => rewrite H in *
  | H : a_ref (act ?s ?i) = _ |- _ => rewrite H in *
  end.

Ltac inj :=
  repeat match goal with
  | H : Some _ = Some _ |- _ => inversion H; subst; clear H
  | H : (_, _) = (_, _) |- _ => inversion H; subst; clear H
  end.

Ltac rw_ent :=
  repeat match goal with
  | H : itm ?s ?i = item0 |- _ => rewrite H in *
  | H : act ?s ?i = actor0 |- _ => rewrite H in *
  end; cbn [it_loaded it_resp it_err it_abandoned item0 a_pc a_ref a_cancel a_out a_ans a_lres actor0] in *.

Ltac classes :=
  cbn [lead_pc in_tbl_pc open_pc unpub_pc foll_pc noref_pc run_pc] in *.

Ltac prem :=
  repeat match goal with
  | H : true = true -> _ |- _ => specialize (H eq_refl)
  | H : false = true -> _ |- _ => clear H
  | H : true = false -> _ |- _ => clear H
  | H : ?x = ?x -> _ |- _ => specialize (H eq_refl)
  | H : ?x <> ?x -> _ |- _ => clear H
  | H : _ /\ _ |- _ => destruct H
  | H : ?a = ?b, G : ?a = ?b -> _ |- _ => specialize (G H)
  end.

Ltac norm := inj; rw_pc; classes; prem; rw_ent; prem.

Ltac fin := norm; solve [intuition (subst; norm; try contradiction; try congruence; try discriminate)].

Ltac open_inv := constructor; intros; simp; repeat upd1; simp.

Ltac solve_inv HI :=
  open_inv;
  try solve [fin];
  try solve [fwd_light HI; fin];
  try solve [fwd HI; fin].

Lemma own_ref reqs s i j :
  Inv reqs s -> a_ref (act s i) = Some j -> foll_pc (a_pc (act s i)) = false -> j = i.
Proof.
  intros HI Hr Hp. destruct (Nat.eq_dec j i) as [|N]; [assumption|exfalso].
  pose proof (c_foll _ _ HI i j Hr N) as F. intuition congruence.
Qed.

Ltac own HI j i :=
  let E := fresh "E" in
  assert (E : j = i) by (eapply own_ref; [exact HI|eassumption|
     match goal with H : a_pc _ = _ |- _ => rewrite H end; reflexivity]);
  subst j.

Ltac start Hs := inversion Hs; subst; clear Hs.
