(* C11 inbound: preservation, part A (GetOrCreate: LoadOrStore, AddFollower). *)
From Gv Require Import lib.Bytes C11.Model C11.ProofsInb.
From Coq Require Import Arith Lia.
Import Inb.

Section S.
Variable reqs : list req.
Notation rq := (Inb.rq reqs).
Notation exists_b := (Inb.exists_b reqs).
Notation Inv := (Inv reqs).

Lemma inv_tau_start s i s' :
  Inv s -> exists_b i = true -> a_pc (act s i) = PStart -> tau fixed reqs s i = Some s' -> Inv s'.
Proof.
  intros HI He Hpc Hs. unfold tau in Hs. rewrite Hpc in Hs.
  destruct (elig (rq i)) eqn:Hel.
  - destruct (tbl s (rkey (rq i))) as [j|] eqn:Ht; start Hs.
    + solve_inv HI.
    + solve_inv HI.
  - start Hs. solve_inv HI.
Qed.

Lemma inv_tau_y1 s i s' :
  Inv s -> exists_b i = true -> a_pc (act s i) = PY1 -> tau fixed reqs s i = Some s' -> Inv s'.
Proof.
  intros HI He Hpc Hs. unfold tau in Hs. rewrite Hpc in Hs.
  destruct (a_ref (act s i)) as [j|] eqn:Hr; [|discriminate]. start Hs.
  assert (N : j <> i).
  { intro; subst. pose proof (c_lead _ _ HI i Hr) as [_ L]. rewrite Hpc in L. discriminate. }
  pose proof (c_foll _ _ HI i j Hr N) as (Hj & _).
  solve_inv HI.
Qed.
End S.
