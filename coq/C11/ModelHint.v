(* C11: the size-hint table of the subgraph single flight (shard.sizes, type fetchSize) as a
   transition system of its own.

   v2/pkg/engine/resolve/subgraph_request_singleflight.go keeps, next to the table of in-flight
   items, a second sync.Map [sizes : fetchKey -> *fetchSize] per shard.  It is shared by ALL leaders
   whose requests have the same fetchKey (data source id + root fields) - requests with different
   sfKeys (other variables, other forwarded headers) included - and it is touched at two places:

     GetOrCreateItem, leader branch     sizeValue, ok := shard.sizes.Load(fetchKey)              [PStart]
                                        if ok { lock; if count > 0 { hint = total / count }; unlock }   [PAvg]
     Finish, after close(item.loaded)   sizeValue, ok := shard.sizes.Load(FetchKey)              [PFin0]
                                        if !ok { sizeValue, _ = LoadOrStore(FetchKey, &fetchSize{}) }   [PFin1]
                                        lock; first sample | fold at 50 | add; unlock            [PRec]

   An entry is PUBLISHED (LoadOrStore of an empty fetchSize) before its first sample is recorded: between
   [PFin1] and [PRec] of the first finisher every other leader of the same fetchKey finds an entry with
   count = 0.  Followers never touch the table, so the actors of this system are the leaders only; which
   requests become leaders, and when, is decided by the item table (Sub in Model.v) - here EVERY
   interleaving of any number of leaders is allowed, which covers every election order of Sub.

   One action = one atomic region: one sync.Map operation, or one region under the entry's mutex.
   Entries are never deleted or replaced (LoadOrStore keeps the first), so "the *fetchSize the actor
   holds" is identified by its fetchKey.  Go's int is modelled as Z with the truncating division
   [Z.quot]; ProofsHint.v bounds every value that is ever computed (no wrap-around below the stated
   bound on the response lengths).  [guard = true] is the code as it is; [guard = false] is the variant
   in which the reader divides without testing [count > 0] (the _refuted theorem).  The response length
   of a leader is chosen by the environment ([HAns i n], n >= 0; a leader whose load panicked or failed
   finishes through the deferred Finish with a nil response: n = 0).  No proofs in this file. *)
From Coq Require Import ZArith NArith List Bool Arith.
Import ListNotations.
Open Scope Z_scope.

Module Hint.

Definition window : Z := 50.     (* the magic 50 of Finish *)

Record entry := { e_count : Z; e_total : Z }.
Definition entry0 : entry := {| e_count := 0; e_total := 0 |}.    (* &fetchSize{} *)

Inductive pc :=
| PStart     (* elected leader: sizes.Load(fetchKey) *)
| PAvg       (* holds the entry: lock, read the hint, unlock *)
| PWork      (* the fetch (environment: HAns) *)
| PFin0      (* Finish, after Delete / close(loaded): sizes.Load(FetchKey) *)
| PFin1      (* Load missed: LoadOrStore(FetchKey, &fetchSize{}) *)
| PRec       (* holds the entry: lock, record the sample, unlock *)
| PDone
| PPanic.    (* runtime error: integer divide by zero, in the leader's goroutine *)

Record actor := { h_pc : pc; h_len : Z; h_hint : Z }.
Definition actor0 : actor := {| h_pc := PStart; h_len := 0; h_hint := 0 |}.

Record state := { tbl : N -> option entry; act : nat -> actor }.
Definition init : state := {| tbl := fun _ => None; act := fun _ => actor0 |}.

Definition upd {A} (f : nat -> A) (i : nat) (v : A) : nat -> A := fun j => if Nat.eqb j i then v else f j.
Definition updN {A} (f : N -> A) (k : N) (v : A) : N -> A := fun j => if N.eqb j k then v else f j.

Definition set_pc (a : actor) (p : pc) : actor := {| h_pc := p; h_len := h_len a; h_hint := h_hint a |}.
Definition set_hint (a : actor) (h : Z) : actor := {| h_pc := h_pc a; h_len := h_len a; h_hint := h |}.
Definition set_len (a : actor) (n : Z) : actor := {| h_pc := h_pc a; h_len := n; h_hint := h_hint a |}.
Definition with_act (s : state) (i : nat) (a : actor) : state := {| tbl := tbl s; act := upd (act s) i a |}.
Definition with_tbl (s : state) (k : N) (e : entry) : state := {| tbl := updN (tbl s) k (Some e); act := act s |}.

(* Finish, under the entry's mutex *)
Definition record (e : entry) (n : Z) : entry :=
  if e_count e =? 0 then {| e_count := 1; e_total := n |}
  else
    let e' := if e_count e =? window then {| e_count := 1; e_total := Z.quot (e_total e) window |} else e in
    {| e_count := e_count e' + 1; e_total := e_total e' + n |}.

Inductive action :=
| HStep (i : nat)             (* the next atomic region of leader i *)
| HAns (i : nat) (n : Z).     (* leader i's fetch ends with a response of n bytes *)

Section Step.
Variable guard : bool.
Variable fkeys : list N.       (* fetchKey of leader i *)

Definition fk (i : nat) : N := nth i fkeys 0%N.

Definition step (s : state) (x : action) : option state :=
  match x with
  | HStep i =>
    if negb (i <? length fkeys)%nat then None else
    let a := act s i in
    match h_pc a with
    | PStart =>
      match tbl s (fk i) with
      | Some _ => Some (with_act s i (set_pc a PAvg))
      | None => Some (with_act s i (set_pc a PWork))          (* item.sizeHint stays 0 *)
      end
    | PAvg =>
      match tbl s (fk i) with
      | Some e =>
        if guard then
          if 0 <? e_count e
          then Some (with_act s i (set_pc (set_hint a (Z.quot (e_total e) (e_count e))) PWork))
          else Some (with_act s i (set_pc a PWork))
        else
          if e_count e =? 0
          then Some (with_act s i (set_pc a PPanic))
          else Some (with_act s i (set_pc (set_hint a (Z.quot (e_total e) (e_count e))) PWork))
      | None => None      (* unreachable: entries are never removed *)
      end
    | PFin0 =>
      match tbl s (fk i) with
      | Some _ => Some (with_act s i (set_pc a PRec))
      | None => Some (with_act s i (set_pc a PFin1))
      end
    | PFin1 =>
      match tbl s (fk i) with
      | Some _ => Some (with_act s i (set_pc a PRec))                        (* LoadOrStore: loaded *)
      | None => Some (with_act (with_tbl s (fk i) entry0) i (set_pc a PRec))  (* LoadOrStore: stored *)
      end
    | PRec =>
      match tbl s (fk i) with
      | Some e => Some (with_act (with_tbl s (fk i) (record e (h_len a))) i (set_pc a PDone))
      | None => None      (* unreachable *)
      end
    | PWork | PDone | PPanic => None
    end
  | HAns i n =>
    if negb (i <? length fkeys)%nat then None else
    let a := act s i in
    match h_pc a with
    | PWork => if n <? 0 then None else Some (with_act s i (set_pc (set_len a n) PFin0))
    | _ => None
    end
  end.

Fixpoint run (tr : list action) (s : state) : option state :=
  match tr with
  | [] => Some s
  | x :: tr' => match step s x with Some s' => run tr' s' | None => None end
  end.

End Step.

(* visible summary of an actor for the correspondence: (pc, hint) *)
Definition panicked (s : state) (i : nat) : bool := match h_pc (act s i) with PPanic => true | _ => false end.

End Hint.
