(* C11: the boolean checker is sound for the propositional spec of one observed outcome. *)
From Gv Require Import lib.Bytes C11.Model C11.Spec.
From Coq Require Import Arith Bool Lia.
Open Scope nat_scope.

Lemma bytes_eqb_eq a : forall b, bytes_eqb a b = true -> a = b.
Proof.
  induction a as [|x a IH]; destruct b as [|y b]; cbn; intros H; try discriminate; auto.
  apply andb_prop in H as [H1 H2]. apply N.eqb_eq in H1. subst. f_equal. auto.
Qed.

Lemma ans_is_eq o w : ans_is o w = true -> o = Some w.
Proof. destruct o as [a|]; cbn; [|discriminate]. destruct a, w; cbn; congruence. Qed.

Lemma wr_is_eq o v : wr_is o v = true -> o = Some v.
Proof. destruct o as [a|]; cbn; [|discriminate]. destruct a, v; cbn; congruence. Qed.

Lemma producer_spec reqs os i w j :
  producer reqs os i w j = true ->
  j <> i /\ rkey (rq reqs j) = rkey (rq reqs i) /\ elig (rq reqs j) = true /\
  o_shared (ob os j) = false /\ o_ans (ob os j) = Some w.
Proof.
  unfold producer. intros H.
  repeat (apply andb_prop in H as [H ?]).
  apply negb_true_iff in H. apply Nat.eqb_neq in H.
  repeat split; auto.
  - apply N.eqb_eq; assumption.
  - apply negb_true_iff; assumption.
  - apply ans_is_eq; assumption.
Qed.

Lemma check_wrote_sound sub reqs os i d :
  check_wrote sub reqs os i d = None -> wrote_ok sub reqs os i d.
Proof.
  unfold check_wrote, wrote_ok.
  destruct (o_shared (ob os i)).
  - destruct (elig (rq reqs i)) eqn:El; cbn [negb]; [|discriminate].
    destruct (sub && bytes_eqb d [] && existsb (fun j => producer reqs os i APanic j) (actors reqs)) eqn:Cr.
    { intros _. split; [reflexivity|].
      apply andb_prop in Cr as [Cr E0]. apply andb_prop in Cr as [Sb B0].
      apply existsb_exists in E0 as (j & Hin & Hp). apply producer_spec in Hp as (? & ? & ? & ? & ?).
      exists j, APanic. unfold actors in Hin. apply in_seq in Hin.
      repeat split; auto; try lia. right; right. repeat split; auto. apply bytes_eqb_eq; assumption. }
    destruct (existsb (fun j => producer reqs os i AOk j || producer reqs os i AFailBody j || producer reqs os i ACanBody j) (actors reqs)) eqn:Ex;
      cbn [negb]; [|discriminate].
    intros H. split; [reflexivity|].
    destruct (existsb (fun j => producer reqs os i AOk j) (actors reqs)) eqn:E1.
    + cbn [andb] in H. destruct (bytes_eqb d (rok (rq reqs i))) eqn:B1.
      * apply existsb_exists in E1 as (j & Hin & Hp). apply producer_spec in Hp as (? & ? & ? & ? & ?).
        exists j, AOk. unfold actors in Hin. apply in_seq in Hin.
        repeat split; auto; try lia. left. split; auto. apply bytes_eqb_eq; assumption.
      * destruct (existsb (fun j => producer reqs os i AFailBody j) (actors reqs)) eqn:E2; cbn [andb] in H; [|discriminate].
        destruct (bytes_eqb d (rfail (rq reqs i))) eqn:B2; [|discriminate].
        apply existsb_exists in E2 as (j & Hin & Hp). apply producer_spec in Hp as (? & ? & ? & ? & ?).
        exists j, AFailBody. unfold actors in Hin. apply in_seq in Hin.
        repeat split; auto; try lia. right; left. split; auto. apply bytes_eqb_eq; assumption.
    + cbn [andb] in H.
      destruct (existsb (fun j => producer reqs os i AFailBody j) (actors reqs)) eqn:E2; cbn [andb] in H; [|discriminate].
      destruct (bytes_eqb d (rfail (rq reqs i))) eqn:B2; [|discriminate].
      apply existsb_exists in E2 as (j & Hin & Hp). apply producer_spec in Hp as (? & ? & ? & ? & ?).
      exists j, AFailBody. unfold actors in Hin. apply in_seq in Hin.
      repeat split; auto; try lia. right; left. split; auto. apply bytes_eqb_eq; assumption.
  - destruct (o_ans (ob os i)) as [[| | | | |]|]; try discriminate.
    + destruct (bytes_eqb d (rok (rq reqs i))) eqn:B; [|discriminate]. intros _. left. split; auto.
      apply bytes_eqb_eq; assumption.
    + destruct (bytes_eqb d (rfail (rq reqs i))) eqn:B; [|discriminate]. intros _. right; left. split; auto.
      apply bytes_eqb_eq; assumption.
    + destruct (o_cancelled (ob os i)); cbn [andb]; [|discriminate].
      destruct (bytes_eqb d (rcan (rq reqs i))) eqn:B; [|discriminate]. intros _. right; right.
      repeat split; auto. apply bytes_eqb_eq; assumption.
Qed.

Lemma check_actor_sound sub reqs os i :
  check_actor sub reqs os i = None -> actor_ok sub reqs os i.
Proof.
  unfold check_actor, actor_ok.
  destruct (o_res (ob os i)) as [d|[a|a]| | | |a d|]; try discriminate.
  - destruct (wr_is (o_wr (ob os i)) WFail) eqn:W; [discriminate|].
    intros H. split; [|apply check_wrote_sound; assumption].
    intro X. rewrite X in W. discriminate.
  - destruct (a =? i) eqn:E.
    + apply Nat.eqb_eq in E. subst a.
      destruct (ans_is (o_ans (ob os i)) AErrUp) eqn:A; [|discriminate]. intros _. left. split; auto.
      apply ans_is_eq; assumption.
    + destruct (elig (rq reqs i)) eqn:El; cbn [andb]; [|discriminate].
      destruct (producer reqs os i AErrUp a) eqn:P; [|discriminate]. intros _.
      apply producer_spec in P as (? & ? & ? & ? & ?). right. repeat split; auto.
  - destruct (a =? i) eqn:E; cbn [andb]; [|discriminate].
    destruct (o_cancelled (ob os i)); [|discriminate]. intros _. apply Nat.eqb_eq in E. auto.
  - destruct (a =? i) eqn:E; cbn [andb]; [|discriminate].
    destruct (wr_is (o_wr (ob os i)) WFail) eqn:W; [|discriminate].
    intros H. apply Nat.eqb_eq in E. repeat split; auto.
    + apply wr_is_eq; assumption.
    + apply check_wrote_sound; assumption.
  - destruct (ans_is (o_ans (ob os i)) APanic) eqn:A; cbn [orb].
    + intros _. left. apply ans_is_eq; assumption.
    + destruct (wr_is (o_wr (ob os i)) WPanic) eqn:W; [|discriminate].
      intros _. right. apply wr_is_eq; assumption.
Qed.

Lemma first_fail_none sub reqs os l :
  first_fail sub reqs os l = None -> forall i, In i l -> check_actor sub reqs os i = None.
Proof.
  induction l as [|x l IH]; cbn; intros H i Hin; [contradiction|].
  destruct (check_actor sub reqs os x) eqn:E; [discriminate|].
  destruct Hin as [->|Hin]; auto.
Qed.

Lemma spec_b_sound sub reqs os :
  spec_b sub reqs os = None -> forall i, i < length reqs -> actor_ok sub reqs os i.
Proof.
  intros H i Hi. apply check_actor_sound. eapply first_fail_none; [exact H|].
  unfold actors. apply in_seq. lia.
Qed.

Lemma spec_q_b_sound sub reqs os reg :
  spec_q_b sub reqs os reg = None ->
  reg = 0 /\ forall i, i < length reqs -> actor_ok sub reqs os i.
Proof.
  unfold spec_q_b. destruct (spec_b sub reqs os) eqn:E; [discriminate|].
  destruct (Nat.eqb_spec reg 0); [|discriminate]. intros _. split; [assumption|].
  apply spec_b_sound; assumption.
Qed.
