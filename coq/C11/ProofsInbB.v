(* C11 inbound: preservation, part B (FinishOk: Delete, HasFollowers, copy). *)
From Gv Require Import lib.Bytes C11.Model C11.ProofsInb.
From Coq Require Import Arith Lia Bool.
Import Inb.

Section S.
Variable reqs : list req.
Notation rq := (Inb.rq reqs).
Notation exists_b := (Inb.exists_b reqs).
Notation Inv := (Inv reqs).

Lemma inv_tau_delete s i s' :
  Inv s -> exists_b i = true -> a_pc (act s i) = PDelete -> tau fixed reqs s i = Some s' -> Inv s'.
Proof.
  intros HI He Hpc Hs. unfold tau in Hs. rewrite Hpc in Hs.
  destruct (a_ref (act s i)) as [j|] eqn:Hr; [|discriminate]. own HI j i. start Hs.
  solve_inv HI.
Qed.

Lemma inv_tau_hasf s i s' :
  Inv s -> exists_b i = true -> a_pc (act s i) = PHasF -> tau fixed reqs s i = Some s' -> Inv s'.
Proof.
  intros HI He Hpc Hs. unfold tau in Hs. rewrite Hpc in Hs.
  destruct (a_ref (act s i)) as [j|] eqn:Hr; [|discriminate]. own HI j i.
  cbn [fix_b fixed andb] in Hs. start Hs.
  solve_inv HI.
  apply andb_prop in H0 as [_ Hc]. apply negb_true_iff in Hc.
  pose proof (c_post _ _ HI i) as P. rewrite Hpc in P. specialize (P eq_refl).
  pose proof (c_out_own _ _ HI i _ _ P) as (_ & Q & _).
  intro K. rewrite (Q K) in Hc. discriminate.
Qed.

Lemma inv_tau_copy s i s' :
  Inv s -> exists_b i = true -> a_pc (act s i) = PCopy -> tau fixed reqs s i = Some s' -> Inv s'.
Proof.
  intros HI He Hpc Hs. unfold tau in Hs. rewrite Hpc in Hs.
  destruct (a_ref (act s i)) as [j|] eqn:Hr; [|discriminate]. own HI j i.
  destruct (a_hasf (act s i)) eqn:Hh; start Hs.
  - solve_inv HI.
  - solve_inv HI.
Qed.
End S.
