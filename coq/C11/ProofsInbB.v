(* C11 inbound: preservation, part B (FinishOk: Delete, HasFollowers, copy). *)
From Gv Require Import lib.Bytes C11.Model C11.ProofsInb.
From Coq Require Import Arith Lia.
Import Inb.

Section S.
Variable reqs : list req.
Notation rq := (Inb.rq reqs).
Notation exists_b := (Inb.exists_b reqs).
Notation Inv := (Inv reqs).

Lemma inv_tau_delete s i s' :
  Inv s -> exists_b i = true -> a_pc (act s i) = PDelete -> tau fixed reqs s i = Some s' -> Inv s'.
Proof.
  intros HI He Hpc Hs. unfold tau in Hs. rewrite Hpc in Hs.
  destruct (a_ref (act s i)) as [j|] eqn:Hr; [|discriminate]. own HI j i. start Hs.
  Time solve_inv HI.
  all: idtac "DELETE REMAINING". fwd_light HI. norm. 
  Fail solve [intuition (subst; norm; try congruence; try discriminate)].
  Fail solve [intuition congruence].
  exfalso. Fail congruence. apply n. Fail congruence. symmetry. exact H4.
Admitted.

Lemma inv_tau_hasf s i s' :
  Inv s -> exists_b i = true -> a_pc (act s i) = PHasF -> tau fixed reqs s i = Some s' -> Inv s'.
Proof.
  intros HI He Hpc Hs. unfold tau in Hs. rewrite Hpc in Hs.
  destruct (a_ref (act s i)) as [j|] eqn:Hr; [|discriminate]. own HI j i.
  cbn [fix_b fixed andb] in Hs. start Hs.
  Time solve_inv HI.
  all: idtac "HASF REMAINING". Show.
Qed.

Lemma inv_tau_copy s i s' :
  Inv s -> exists_b i = true -> a_pc (act s i) = PCopy -> tau fixed reqs s i = Some s' -> Inv s'.
Proof.
  intros HI He Hpc Hs. unfold tau in Hs. rewrite Hpc in Hs.
  destruct (a_ref (act s i)) as [j|] eqn:Hr; [|discriminate]. own HI j i.
  destruct (a_hasf (act s i)) eqn:Hh; start Hs.
  - Time solve_inv HI.
    all: idtac "COPY1 REMAINING". Show.
  - Time solve_inv HI.
    all: idtac "COPY2 REMAINING". Show.
Qed.
End S.
