(* C11: labelled transition systems of the two single-flight tables and their callers.

   Inbound  : v2/pkg/engine/resolve/inbound_request_singleflight.go (GetOrCreate, FinishOk, FinishErr)
              + the caller logic of Resolver.ArenaResolveGraphQLResponse (resolve.go).
   Subgraph : v2/pkg/engine/resolve/subgraph_request_singleflight.go (GetOrCreateItem, Finish)
              + Loader.loadByContext (loader.go).

   One actor = one call (one goroutine).  An action is one atomic region of one actor: a region in
   which the actor touches shared state through one atomic operation (sync.Map.LoadOrStore / Delete,
   atomic add / load, channel close) or writes a plain field that is only read after the channel
   close that follows.  Purely local computation is merged into the preceding action.
   Two reads are merged into one action where that loses no behaviour: in FinishOk,
   [HasFollowers() && !leaderGone()] reads the follower counter and then (only if it was positive) the
   leader's own context; the counter only grows, so reading it at the time of the context read gives
   the same value of the conjunction.  The follower's reads of Err and Data after Done is closed are
   one action (both fields are written before the close, by the entry's owner only - an invariant of
   the fixed code, [c_data]/[c_err] in ProofsInb.v).

   The main step functions model the code WITH the fixes c11_fix_a / c11_fix_b_inbound / c11_fix_b
   applied ([fixed]); [prefix] switches the three repaired branches back to the historical code and
   exists only to state the [_refuted] theorems.  No proofs in this file.

   Panics and [defer].  The environment may answer a piece of work (DataSource.Load, resolution) or a
   call of the actor's own client writer with a PANIC.  The panic unwinds the actor's goroutine up to
   the request boundary, where it is recovered (what net/http does for every handler): the actor
   returns with [OCrash None].  While unwinding, exactly the DEFERRED calls run:
   - subgraph: [defer l.singleFlight.Finish(item)] in loadByContext - a panicking leader skips the
     publication of response / err and goes straight to Finish (Delete, Y3, close(loaded));
     [sub_defer = false] is the code in which Finish is an ordinary call on the return paths;
   - inbound: [defer r.inboundRequestSingleFlight.Abandon(inflight)] (c11_fix_c) in
     ArenaResolveGraphQLResponse: Delete + close(Done) with neither Data nor Err unless Done is already
     closed; [fix_c = false] is the tree before that repair: nothing is deferred, the leader is gone and
     its entry stays ([asis]).
   The client writer is a parking point of its own ([PWrite] leader / alone, [PFWrite] follower): the
   environment answers the Write with ok, with the WRITER's error (private to the actor: it is returned
   to the actor's caller and never stored in the shared entry - FinishOk runs all the same), or with a
   panic.  [a_wr] records that answer; [OWrote] keeps meaning "bytes handed to the caller's writer". *)
From Gv Require Import lib.Bytes.
From Coq Require Import Arith.
Open Scope nat_scope.

(* ------------------------------------------------------------------ shared vocabulary *)

(* Errors are identified by their origin: the upstream failure of the work executed by actor a,
   or the context error (cancellation / deadline) of actor a. *)
Inductive err := EUp (a : nat) | ECtx (a : nat).

Definition err_eqb (x y : err) : bool :=
  match x, y with
  | EUp a, EUp b => Nat.eqb a b
  | ECtx a, ECtx b => Nat.eqb a b
  | _, _ => false
  end.

(* What a piece of work can produce as a body: the normal result, a body that reports an upstream
   failure ("Failed to fetch ..." rendered into the response), or a body that reports a failure
   caused by the executing actor's own cancelled context. *)
Inductive bkind := KOk | KFail | KCan.

Record req := {
  rkey : N;          (* de-duplication key (request id + variables hash + headers hash | ds id + input + headers hash) *)
  rquery : bool;     (* operation type is Query *)
  rdedup : bool;     (* de-duplication not disabled in ExecutionOptions *)
  rok : bytes;       (* the bytes this request gets when executed alone and upstream answers *)
  rfail : bytes;     (* ... when executed alone and upstream fails *)
  rcan : bytes       (* ... when executed alone under its own cancelled context *)
}.

Definition dreq : req := {| rkey := 0%N; rquery := false; rdedup := false; rok := []; rfail := []; rcan := [] |}.

Definition body (r : req) (k : bkind) : bytes :=
  match k with KOk => rok r | KFail => rfail r | KCan => rcan r end.

Definition elig (r : req) : bool := rquery r && rdedup r.

Inductive outcome :=
| OWrote (k : bkind) (d : bytes) (from : option nat)  (* bytes handed to the caller's writer; from = Some j: shared result of j *)
| OErr (e : err)
| OPanic                                              (* close of closed channel *)
| OCrash (from : option nat).   (* None: the actor's own work / own writer panicked (environment), recovered at the
                                   request boundary; Some j: woke on the item of j that panic unwinding released
                                   with nothing published (subgraph: res.out = nil, err = nil) *)

(* answers of the environment to a piece of work *)
Inductive answer :=
| AOk         (* upstream answers: normal body *)
| AFailBody   (* upstream fails, the failure is rendered into the body (inbound only) *)
| ACanBody    (* the actor's own context is cancelled, the failure is rendered into the body (inbound only) *)
| AErrUp      (* the work returns the upstream error as a Go error *)
| AErrCtx     (* the work returns the actor's own context error as a Go error *)
| APanic.     (* the work panics on the actor's goroutine *)

(* answers of the environment to a Write on the actor's own client writer *)
Inductive wans := WOk | WFail | WPanic.

Inductive action :=
| Tau (i : nat)               (* next internal atomic region of actor i *)
| WakeDone (i : nat)          (* actor i's select takes the closed Done / loaded channel *)
| WakeCtx (i : nat)           (* actor i's select takes its own ctx.Done() *)
| Ans (i : nat) (w : answer)  (* the work of actor i completes *)
| Cancel (i : nat)            (* environment: the context of actor i is cancelled *)
| Wr (i : nat) (v : wans).    (* the Write on actor i's own client writer completes *)

Definition actor_of (a : action) : nat :=
  match a with Tau i | WakeDone i | WakeCtx i | Ans i _ | Cancel i | Wr i _ => i end.

Definition is_cancel (a : action) : bool := match a with Cancel _ => true | _ => false end.

Inductive obs := ORet (i : nat) (o : outcome).

Record fixes := {
  fix_a : bool; fix_b : bool;
  fix_c : bool;        (* inbound: Abandon is deferred by the leader (runs while a panic unwinds) *)
  sub_defer : bool     (* subgraph: Finish is deferred by the leader (true in every version of the tree) *)
}.
Definition fixed : fixes := {| fix_a := true; fix_b := true; fix_c := true; sub_defer := true |}.
Definition prefix : fixes := {| fix_a := false; fix_b := false; fix_c := false; sub_defer := true |}.
(* the tree before c11_fix_c: inbound leader without a deferred release *)
Definition asis : fixes := {| fix_a := true; fix_b := true; fix_c := false; sub_defer := true |}.
(* loadByContext with Finish called explicitly on the ordinary return paths instead of deferred *)
Definition nodefer : fixes := {| fix_a := true; fix_b := true; fix_c := true; sub_defer := false |}.

Definition upd {A} (f : nat -> A) (i : nat) (v : A) : nat -> A :=
  fun j => if Nat.eqb j i then v else f j.
Definition updN {A} (f : N -> A) (k : N) (v : A) : N -> A :=
  fun j => if N.eqb j k then v else f j.

(* ------------------------------------------------------------------ inbound *)
Module Inb.

(* program counters; the comment gives the next action of the actor *)
Inductive pc :=
| PStart     (* eligibility test + LoadOrStore *)
| PY1        (* follower, Y1: followerCount.Add(1) *)
| PWait      (* follower: select on Done / own ctx *)
| PWork      (* leader or alone: execute (Y-load, answered by the environment) *)
| PWrite     (* leader or alone: writer.Write(buf.Bytes()) on the own client writer (Y-w, answered by the environment) *)
| PFWrite    (* follower holding the shared Data: writer.Write(inflight.Data) (Y-w) *)
| PDelete    (* FinishOk: shard.m.Delete(req.ID) *)
| PHasF      (* FinishOk: HasFollowers() (&& !leaderGone()) *)
| PCopy      (* FinishOk: copy Data iff the read was true *)
| PClose     (* FinishOk: Y2, close(Done) *)
| PFDelete   (* FinishErr: Delete *)
| PFErr      (* FinishErr: Err := err (unless leaderGone()) *)
| PFClose    (* FinishErr: close(Done) *)
| PADelete   (* deferred Abandon while a panic unwinds: Done still open? then Delete *)
| PAClose    (* Abandon: close(Done) *)
| PDone.     (* returned *)

Record actor := {
  a_pc : pc;
  a_ref : option nat;     (* the *InflightRequest the caller holds: the one created by that actor *)
  a_cancel : bool;        (* own context cancelled *)
  a_kind : bkind;         (* result of the work *)
  a_res : bytes;
  a_perr : err;           (* error handed to FinishErr *)
  a_hasf : bool;          (* value read by HasFollowers (&& !leaderGone) *)
  a_out : option outcome;
  a_ans : option answer;  (* ghost: how the environment answered this actor's own work *)
  a_wr : option wans      (* ghost: how the environment answered the Write on this actor's own writer *)
}.

Record entry := {      (* InflightRequest created by actor j (pointer identity = j) *)
  e_done : bool;       (* Done closed *)
  e_data : option (bkind * bytes);
  e_err : option err;
  e_fc : nat           (* followerCount *)
}.

Record state := {
  tbl : N -> option nat;   (* sync.Map of the shard: key -> request (64-bit hashes assumed injective) *)
  ent : nat -> entry;
  act : nat -> actor
}.

Definition actor0 : actor :=
  {| a_pc := PStart; a_ref := None; a_cancel := false; a_kind := KOk; a_res := []; a_perr := EUp 0;
     a_hasf := false; a_out := None; a_ans := None; a_wr := None |}.
Definition entry0 : entry := {| e_done := false; e_data := None; e_err := None; e_fc := 0 |}.
Definition init : state := {| tbl := fun _ => None; ent := fun _ => entry0; act := fun _ => actor0 |}.

Definition set_pc (a : actor) (p : pc) : actor :=
  {| a_pc := p; a_ref := a_ref a; a_cancel := a_cancel a; a_kind := a_kind a; a_res := a_res a;
     a_perr := a_perr a; a_hasf := a_hasf a; a_out := a_out a; a_ans := a_ans a; a_wr := a_wr a |}.
Definition set_ref (a : actor) (r : option nat) : actor :=
  {| a_pc := a_pc a; a_ref := r; a_cancel := a_cancel a; a_kind := a_kind a; a_res := a_res a;
     a_perr := a_perr a; a_hasf := a_hasf a; a_out := a_out a; a_ans := a_ans a; a_wr := a_wr a |}.
Definition set_cancel (a : actor) : actor :=
  {| a_pc := a_pc a; a_ref := a_ref a; a_cancel := true; a_kind := a_kind a; a_res := a_res a;
     a_perr := a_perr a; a_hasf := a_hasf a; a_out := a_out a; a_ans := a_ans a; a_wr := a_wr a |}.
Definition set_work (a : actor) (k : bkind) (d : bytes) : actor :=
  {| a_pc := a_pc a; a_ref := a_ref a; a_cancel := a_cancel a; a_kind := k; a_res := d;
     a_perr := a_perr a; a_hasf := a_hasf a; a_out := a_out a; a_ans := a_ans a; a_wr := a_wr a |}.
Definition set_perr (a : actor) (e : err) : actor :=
  {| a_pc := a_pc a; a_ref := a_ref a; a_cancel := a_cancel a; a_kind := a_kind a; a_res := a_res a;
     a_perr := e; a_hasf := a_hasf a; a_out := a_out a; a_ans := a_ans a; a_wr := a_wr a |}.
Definition set_hasf (a : actor) (b : bool) : actor :=
  {| a_pc := a_pc a; a_ref := a_ref a; a_cancel := a_cancel a; a_kind := a_kind a; a_res := a_res a;
     a_perr := a_perr a; a_hasf := b; a_out := a_out a; a_ans := a_ans a; a_wr := a_wr a |}.
Definition set_out (a : actor) (o : outcome) : actor :=
  {| a_pc := a_pc a; a_ref := a_ref a; a_cancel := a_cancel a; a_kind := a_kind a; a_res := a_res a;
     a_perr := a_perr a; a_hasf := a_hasf a; a_out := Some o; a_ans := a_ans a; a_wr := a_wr a |}.
Definition set_ans (a : actor) (w : answer) : actor :=
  {| a_pc := a_pc a; a_ref := a_ref a; a_cancel := a_cancel a; a_kind := a_kind a; a_res := a_res a;
     a_perr := a_perr a; a_hasf := a_hasf a; a_out := a_out a; a_ans := Some w; a_wr := a_wr a |}.

Definition set_wr (a : actor) (v : wans) : actor :=
  {| a_pc := a_pc a; a_ref := a_ref a; a_cancel := a_cancel a; a_kind := a_kind a; a_res := a_res a;
     a_perr := a_perr a; a_hasf := a_hasf a; a_out := a_out a; a_ans := a_ans a; a_wr := Some v |}.

Definition e_close (e : entry) : entry :=
  {| e_done := true; e_data := e_data e; e_err := e_err e; e_fc := e_fc e |}.
Definition e_set_data (e : entry) (k : bkind) (d : bytes) : entry :=
  {| e_done := e_done e; e_data := Some (k, d); e_err := e_err e; e_fc := e_fc e |}.
Definition e_set_err (e : entry) (x : err) : entry :=
  {| e_done := e_done e; e_data := e_data e; e_err := Some x; e_fc := e_fc e |}.
Definition e_add (e : entry) : entry :=
  {| e_done := e_done e; e_data := e_data e; e_err := e_err e; e_fc := S (e_fc e) |}.

Definition with_act (s : state) (i : nat) (a : actor) : state :=
  {| tbl := tbl s; ent := ent s; act := upd (act s) i a |}.
Definition with_ent (s : state) (j : nat) (e : entry) : state :=
  {| tbl := tbl s; ent := upd (ent s) j e; act := act s |}.
Definition with_tbl (s : state) (k : N) (v : option nat) : state :=
  {| tbl := updN (tbl s) k v; ent := ent s; act := act s |}.

Section Step.
Variable fx : fixes.
Variable reqs : list req.

Definition rq (i : nat) : req := nth i reqs dreq.
Definition exists_b (i : nat) : bool := i <? length reqs.

(* close(Done) of the request held by actor i; the actor returns afterwards *)
Definition do_close (s : state) (i j : nat) (a : actor) : state :=
  if e_done (ent s j)
  then with_act s i (set_pc (set_out a OPanic) PDone)
  else with_act (with_ent s j (e_close (ent s j))) i (set_pc a PDone).

Definition tau (s : state) (i : nat) : option state :=
  let a := act s i in
  let r := rq i in
  match a_pc a with
  | PStart =>
    (* GetOrCreate: DisableInboundRequestDeduplication / SingleFlightAllowed, then LoadOrStore *)
    if elig r then
      match tbl s (rkey r) with
      | None => Some (with_act (with_tbl s (rkey r) (Some i)) i (set_pc (set_ref a (Some i)) PWork))
      | Some j => Some (with_act s i (set_pc (set_ref a (Some j)) PY1))
      end
    else Some (with_act s i (set_pc a PWork))
  | PY1 =>
    match a_ref a with
    | Some j => Some (with_act (with_ent s j (e_add (ent s j))) i (set_pc a PWait))
    | None => None
    end
  | PDelete =>
    (* shard.m.Delete(req.ID): removes whatever sits under the key of the held request *)
    match a_ref a with
    | Some j => Some (with_act (with_tbl s (rkey (rq j)) None) i (set_pc a PHasF))
    | None => None
    end
  | PHasF =>
    match a_ref a with
    | Some j =>
      let gone := fix_b fx && a_cancel (act s j) in     (* req.leaderCtx is the creator's context *)
      Some (with_act s i (set_pc (set_hasf a ((0 <? e_fc (ent s j)) && negb gone)) PCopy))
    | None => None
    end
  | PCopy =>
    match a_ref a with
    | Some j =>
      if a_hasf a
      then Some (with_act (with_ent s j (e_set_data (ent s j) (a_kind a) (a_res a))) i (set_pc a PClose))
      else Some (with_act s i (set_pc a PClose))
    | None => None
    end
  | PClose =>
    match a_ref a with
    | Some j => Some (do_close s i j a)
    | None => None
    end
  | PFDelete =>
    match a_ref a with
    | Some j => Some (with_act (with_tbl s (rkey (rq j)) None) i (set_pc a PFErr))
    | None => None
    end
  | PFErr =>
    match a_ref a with
    | Some j =>
      let gone := fix_b fx && a_cancel (act s j) in
      if gone then Some (with_act s i (set_pc a PFClose))
      else Some (with_act (with_ent s j (e_set_err (ent s j) (a_perr a))) i (set_pc a PFClose))
    | None => None
    end
  | PFClose =>
    match a_ref a with
    | Some j => Some (do_close s i j a)
    | None => None
    end
  | PADelete =>
    (* Abandon: select on Done (closed = FinishOk / FinishErr ran: nothing to do), else Delete *)
    match a_ref a with
    | Some j =>
      if e_done (ent s j) then Some (with_act s i (set_pc a PDone))
      else Some (with_act (with_tbl s (rkey (rq j)) None) i (set_pc a PAClose))
    | None => None
    end
  | PAClose =>
    match a_ref a with
    | Some j => Some (do_close s i j a)
    | None => None
    end
  | PWait | PWork | PWrite | PFWrite | PDone => None
  end.

(* where a panic that unwinds actor a's goroutine leaves it: the holder of a request runs the deferred
   Abandon (c11_fix_c), everybody else - and everybody on the tree without that repair - is simply gone *)
Definition crash_pc (a : actor) : pc :=
  match a_ref a with
  | Some _ => if fix_c fx then PADelete else PDone
  | None => PDone
  end.

(* the follower's select took Done: GetOrCreate's tail and the caller's classification *)
Definition wake_done (s : state) (i : nat) : option state :=
  let a := act s i in
  match a_pc a, a_ref a with
  | PWait, Some j =>
    if e_done (ent s j) then
      match e_err (ent s j) with
      | Some e => Some (with_act s i (set_pc (set_out a (OErr e)) PDone))
      | None =>
        match e_data (ent s j) with
        | Some (k, d) => Some (with_act s i (set_pc (set_work a k d) PFWrite))   (* the caller's follower branch *)
        | None =>
          if fix_a fx
          then Some (with_act s i (set_pc (set_ref a None) PWork))   (* nil, nil: not de-duplicated *)
          else Some (with_act s i (set_pc a PWork))                  (* historical: taken for the leader of j *)
        end
      end
    else None
  | _, _ => None
  end.

Definition wake_ctx (s : state) (i : nat) : option state :=
  let a := act s i in
  match a_pc a with
  | PWait => if a_cancel a then Some (with_act s i (set_pc (set_out a (OErr (ECtx i))) PDone)) else None
  | _ => None
  end.

(* the work produced a body: the caller goes on to write it to its own client writer *)
Definition work_done (s : state) (i : nat) (w : answer) (k : bkind) : state :=
  let a := act s i in
  with_act s i (set_pc (set_ans (set_work a k (body (rq i) k)) w) PWrite).

(* the work panicked *)
Definition crashed (s : state) (i : nat) (w : answer) : state :=
  let a := act s i in
  with_act s i (set_pc (set_ans (set_out a (OCrash None)) w) (crash_pc a)).

Definition finish_err (s : state) (i : nat) (w : answer) (e : err) : state :=
  let a := act s i in
  let a1 := set_ans (set_out (set_perr a e) (OErr e)) w in
  with_act s i (set_pc a1 (match a_ref a with None => PDone | Some _ => PFDelete end)).

Definition ans (s : state) (i : nat) (w : answer) : option state :=
  let a := act s i in
  match a_pc a with
  | PWork =>
    match w with
    | AOk => Some (work_done s i w KOk)
    | AFailBody => Some (work_done s i w KFail)
    | ACanBody => if a_cancel a then Some (work_done s i w KCan) else None
    | AErrUp => Some (finish_err s i w (EUp i))
    | AErrCtx => if a_cancel a then Some (finish_err s i w (ECtx i)) else None
    | APanic => Some (crashed s i w)
    end
  | _ => None
  end.

(* the Write on the own client writer completes.  A failed Write is the actor's private matter: the
   leader's [_, err = writer.Write(buf.Bytes())] is followed by FinishOk(inflight, buf.Bytes()) whatever
   err is, and err is only returned to the leader's own caller. *)
Definition wr (s : state) (i : nat) (v : wans) : option state :=
  let a := act s i in
  match a_pc a with
  | PWrite =>
    match v with
    | WOk | WFail =>
      Some (with_act s i (set_pc (set_wr (set_out a (OWrote (a_kind a) (a_res a) None)) v)
                                 (match a_ref a with None => PDone | Some _ => PDelete end)))
    | WPanic => Some (with_act s i (set_pc (set_wr (set_out a (OCrash None)) v) (crash_pc a)))
    end
  | PFWrite =>
    match a_ref a with
    | Some j =>
      match v with
      | WOk | WFail => Some (with_act s i (set_pc (set_wr (set_out a (OWrote (a_kind a) (a_res a) (Some j))) v) PDone))
      | WPanic => Some (with_act s i (set_pc (set_wr (set_out a (OCrash None)) v) PDone))   (* nothing deferred yet *)
      end
    | None => None
    end
  | _ => None
  end.

Definition step (s : state) (x : action) : option state :=
  if exists_b (actor_of x) then
    match x with
    | Tau i => tau s i
    | WakeDone i => wake_done s i
    | WakeCtx i => wake_ctx s i
    | Ans i w => ans s i w
    | Cancel i => if a_cancel (act s i) then None else Some (with_act s i (set_cancel (act s i)))
    | Wr i v => wr s i v
    end
  else None.

Definition obs_of (s s' : state) (x : action) : list obs :=
  let i := actor_of x in
  match a_out (act s i), a_out (act s' i) with
  | None, Some o => [ORet i o]
  | Some (OWrote _ _ _), Some OPanic => [ORet i OPanic]
  | Some (OErr _), Some OPanic => [ORet i OPanic]
  | Some (OCrash _), Some OPanic => [ORet i OPanic]
  | _, _ => []
  end.

Fixpoint run (tr : list action) (s : state) : option (state * list obs) :=
  match tr with
  | [] => Some (s, [])
  | x :: tr' =>
    match step s x with
    | None => None
    | Some s' =>
      match run tr' s' with
      | None => None
      | Some (s'', o) => Some (s'', obs_of s s' x ++ o)
      end
    end
  end.

End Step.
End Inb.

(* ------------------------------------------------------------------ subgraph *)
Module Sub.

Inductive pc :=
| PStart     (* singleFlightAllowed + GetOrCreateItem (LoadOrStore) *)
| PY1        (* follower after LoadOrStore, before the select *)
| PWait      (* follower: select on loaded / own ctx *)
| PLoad      (* leader or alone: loadByContextDirect (Y-load, answered by the environment) *)
| PPublish   (* leader: item.err / item.abandoned / item.response := ... *)
| PDelete    (* Finish: items.Delete(SFKey) *)
| PClose     (* Finish: Y3, close(loaded) *)
| PDone.

Record actor := {
  a_pc : pc;
  a_ref : option nat;        (* the *SingleFlightItem held (created by that actor) *)
  a_cancel : bool;
  a_lres : option bytes;     (* result of the own load: Some bytes | None = failed with a_lerr *)
  a_lerr : err;
  a_out : option outcome;
  a_ans : option answer      (* ghost *)
}.

Record item := {
  it_loaded : bool;          (* loaded closed *)
  it_resp : option bytes;
  it_err : option err;
  it_abandoned : bool
}.

Record state := {
  tbl : N -> option nat;
  itm : nat -> item;
  act : nat -> actor
}.

Definition actor0 : actor :=
  {| a_pc := PStart; a_ref := None; a_cancel := false; a_lres := None; a_lerr := EUp 0; a_out := None; a_ans := None |}.
Definition item0 : item := {| it_loaded := false; it_resp := None; it_err := None; it_abandoned := false |}.
Definition init : state := {| tbl := fun _ => None; itm := fun _ => item0; act := fun _ => actor0 |}.

Definition set_pc (a : actor) (p : pc) : actor :=
  {| a_pc := p; a_ref := a_ref a; a_cancel := a_cancel a; a_lres := a_lres a; a_lerr := a_lerr a; a_out := a_out a; a_ans := a_ans a |}.
Definition set_ref (a : actor) (r : option nat) : actor :=
  {| a_pc := a_pc a; a_ref := r; a_cancel := a_cancel a; a_lres := a_lres a; a_lerr := a_lerr a; a_out := a_out a; a_ans := a_ans a |}.
Definition set_cancel (a : actor) : actor :=
  {| a_pc := a_pc a; a_ref := a_ref a; a_cancel := true; a_lres := a_lres a; a_lerr := a_lerr a; a_out := a_out a; a_ans := a_ans a |}.
Definition set_load (a : actor) (r : option bytes) (e : err) : actor :=
  {| a_pc := a_pc a; a_ref := a_ref a; a_cancel := a_cancel a; a_lres := r; a_lerr := e; a_out := a_out a; a_ans := a_ans a |}.
Definition set_out (a : actor) (o : outcome) : actor :=
  {| a_pc := a_pc a; a_ref := a_ref a; a_cancel := a_cancel a; a_lres := a_lres a; a_lerr := a_lerr a; a_out := Some o; a_ans := a_ans a |}.
Definition set_ans (a : actor) (w : answer) : actor :=
  {| a_pc := a_pc a; a_ref := a_ref a; a_cancel := a_cancel a; a_lres := a_lres a; a_lerr := a_lerr a; a_out := a_out a; a_ans := Some w |}.

Definition it_close (t : item) : item :=
  {| it_loaded := true; it_resp := it_resp t; it_err := it_err t; it_abandoned := it_abandoned t |}.
Definition it_set_resp (t : item) (d : bytes) : item :=
  {| it_loaded := it_loaded t; it_resp := Some d; it_err := it_err t; it_abandoned := it_abandoned t |}.
Definition it_set_err (t : item) (e : err) : item :=
  {| it_loaded := it_loaded t; it_resp := it_resp t; it_err := Some e; it_abandoned := it_abandoned t |}.
Definition it_set_abandoned (t : item) : item :=
  {| it_loaded := it_loaded t; it_resp := it_resp t; it_err := it_err t; it_abandoned := true |}.

Definition with_act (s : state) (i : nat) (a : actor) : state :=
  {| tbl := tbl s; itm := itm s; act := upd (act s) i a |}.
Definition with_itm (s : state) (j : nat) (t : item) : state :=
  {| tbl := tbl s; itm := upd (itm s) j t; act := act s |}.
Definition with_tbl (s : state) (k : N) (v : option nat) : state :=
  {| tbl := updN (tbl s) k v; itm := itm s; act := act s |}.

Section Step.
Variable fx : fixes.
Variable reqs : list req.

Definition rq (i : nat) : req := nth i reqs dreq.
Definition exists_b (i : nat) : bool := i <? length reqs.

Definition tau (s : state) (i : nat) : option state :=
  let a := act s i in
  let r := rq i in
  match a_pc a with
  | PStart =>
    if elig r then
      match tbl s (rkey r) with
      | None => Some (with_act (with_tbl s (rkey r) (Some i)) i (set_pc (set_ref a (Some i)) PLoad))
      | Some j => Some (with_act s i (set_pc (set_ref a (Some j)) PY1))
      end
    else Some (with_act s i (set_pc a PLoad))     (* loadByContextDirect without single flight *)
  | PY1 => Some (with_act s i (set_pc a PWait))
  | PPublish =>
    match a_ref a with
    | Some j =>
      match a_lres a with
      | Some d => Some (with_act (with_itm s j (it_set_resp (itm s j) d)) i (set_pc a PDelete))
      | None =>
        if fix_b fx && a_cancel a    (* ctx.Err() != nil: read of the own context *)
        then Some (with_act (with_itm s j (it_set_abandoned (itm s j))) i (set_pc a PDelete))
        else Some (with_act (with_itm s j (it_set_err (itm s j) (a_lerr a))) i (set_pc a PDelete))
      end
    | None => None
    end
  | PDelete =>
    match a_ref a with
    | Some j => Some (with_act (with_tbl s (rkey (rq j)) None) i (set_pc a PClose))
    | None => None
    end
  | PClose =>
    match a_ref a with
    | Some j =>
      if it_loaded (itm s j)
      then Some (with_act s i (set_pc (set_out a OPanic) PDone))
      else Some (with_act (with_itm s j (it_close (itm s j))) i (set_pc a PDone))
    | None => None
    end
  | PWait | PLoad | PDone => None
  end.

Definition wake_done (s : state) (i : nat) : option state :=
  let a := act s i in
  match a_pc a, a_ref a with
  | PWait, Some j =>
    let t := itm s j in
    if it_loaded t then
      if it_abandoned t
      then Some (with_act s i (set_pc (set_ref a None) PLoad))   (* load on its own, no single flight *)
      else
        match it_err t with
        | Some e => Some (with_act s i (set_pc (set_out a (OErr e)) PDone))
        | None =>
          match it_resp t with
          | Some d => Some (with_act s i (set_pc (set_out a (OWrote KOk d (Some j))) PDone))
          | None =>
            (* res.out = item.response = nil, return nil: the item was released with nothing published,
               which only the deferred Finish of a panicking leader does *)
            Some (with_act s i (set_pc (set_out a (OCrash (Some j))) PDone))
          end
        end
    else None
  | _, _ => None
  end.

Definition wake_ctx (s : state) (i : nat) : option state :=
  let a := act s i in
  match a_pc a with
  | PWait => if a_cancel a then Some (with_act s i (set_pc (set_out a (OErr (ECtx i))) PDone)) else None
  | _ => None
  end.

(* completion of loadByContextDirect; the outcome of the call is decided here, a leader goes on
   to publish and Finish (deferred) before it returns *)
Definition loaded (s : state) (i : nat) (w : answer) (r : option bytes) (e : err) : state :=
  let a := act s i in
  let o := match r with Some d => OWrote KOk d None | None => OErr e end in
  let a1 := set_ans (set_out (set_load a r e) o) w in
  with_act s i (set_pc a1 (match a_ref a with None => PDone | Some _ => PPublish end)).

(* loadByContextDirect panicked: the leader's deferred Finish runs while the panic unwinds (no
   publication); without the defer the leader is simply gone *)
Definition crashed (s : state) (i : nat) (w : answer) : state :=
  let a := act s i in
  let a1 := set_ans (set_out a (OCrash None)) w in
  with_act s i (set_pc a1 (match a_ref a with
                           | None => PDone
                           | Some _ => if sub_defer fx then PDelete else PDone
                           end)).

Definition ans (s : state) (i : nat) (w : answer) : option state :=
  let a := act s i in
  match a_pc a with
  | PLoad =>
    match w with
    | AOk => Some (loaded s i w (Some (rok (rq i))) (EUp i))
    | APanic => Some (crashed s i w)
    | AErrUp => Some (loaded s i w None (EUp i))
    | AErrCtx => if a_cancel a then Some (loaded s i w None (ECtx i)) else None
    | AFailBody | ACanBody => None
    end
  | _ => None
  end.

Definition step (s : state) (x : action) : option state :=
  if exists_b (actor_of x) then
    match x with
    | Tau i => tau s i
    | WakeDone i => wake_done s i
    | WakeCtx i => wake_ctx s i
    | Ans i w => ans s i w
    | Cancel i => if a_cancel (act s i) then None else Some (with_act s i (set_cancel (act s i)))
    | Wr _ _ => None     (* the client writer is outside loadByContext *)
    end
  else None.

Definition obs_of (s s' : state) (x : action) : list obs :=
  let i := actor_of x in
  match a_out (act s i), a_out (act s' i) with
  | None, Some o => [ORet i o]
  | Some (OWrote _ _ _), Some OPanic => [ORet i OPanic]
  | Some (OErr _), Some OPanic => [ORet i OPanic]
  | Some (OCrash _), Some OPanic => [ORet i OPanic]
  | _, _ => []
  end.

Fixpoint run (tr : list action) (s : state) : option (state * list obs) :=
  match tr with
  | [] => Some (s, [])
  | x :: tr' =>
    match step s x with
    | None => None
    | Some s' =>
      match run tr' s' with
      | None => None
      | Some (s'', o) => Some (s'', obs_of s s' x ++ o)
      end
    end
  end.

End Step.
End Sub.
