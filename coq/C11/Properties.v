(* C11 property theorems: statements only; every proof is [exact lemma].
   [Inb] = inbound single flight + caller, [Sub] = subgraph single flight + loadByContext, both
   WITH the fixes applied ([fixed]); the [_refuted] theorems are about the historical transitions
   ([prefix]).  Quantification: every finite list of requests, every action list accepted by [run] -
   arrivals, completions, failures, cancellations, PANICS of the shared work (leader) and of anybody's own
   work, and every answer (ok / error / panic) of every participant's own client writer. *)
From Gv Require Import lib.Bytes C11.Model C11.Spec C11.ProofsInbMain C11.ProofsSubMain
  C11.ProofsSpec C11.ProofsRefuted C11.ProofsCheckerInb C11.ProofsCheckerSub C11.ModelHint C11.SpecHint.
From Gv Require C11.ProofsHint.
From Coq Require Import Arith.
Open Scope nat_scope.

(* ------------------------------------------------------------------ inbound *)
Theorem c11_inb_no_double_close : forall reqs s i j,
  inb_reach reqs s -> Inb.exists_b reqs i = true ->
  (Inb.a_pc (Inb.act s i) = Inb.PClose \/ Inb.a_pc (Inb.act s i) = Inb.PFClose) ->
  Inb.a_ref (Inb.act s i) = Some j ->
  Inb.e_done (Inb.ent s j) = false.
Proof. exact ProofsInbMain.no_double_close_l. Qed.
Print Assumptions c11_inb_no_double_close.

Theorem c11_inb_no_panic : forall reqs tr s o i,
  Inb.run fixed reqs tr Inb.init = Some (s, o) -> ~ In (ORet i OPanic) o.
Proof. exact ProofsInbMain.no_panic_obs. Qed.
Print Assumptions c11_inb_no_panic.

Theorem c11_inb_follower_bytes_eq_leader_bytes : forall reqs s i k d j,
  inb_reach reqs s -> Inb.a_out (Inb.act s i) = Some (OWrote k d (Some j)) ->
  j <> i /\ Inb.e_data (Inb.ent s j) = Some (k, d) /\
  Inb.a_out (Inb.act s j) = Some (OWrote k d None) /\ d = body (Inb.rq reqs j) k /\ k <> KCan.
Proof. exact ProofsInbMain.follower_bytes_l. Qed.
Print Assumptions c11_inb_follower_bytes_eq_leader_bytes.

Theorem c11_inb_shared_same_key_and_query : forall reqs s i j,
  inb_reach reqs s -> Inb.a_ref (Inb.act s i) = Some j -> j <> i ->
  rkey (Inb.rq reqs i) = rkey (Inb.rq reqs j) /\
  elig (Inb.rq reqs i) = true /\ elig (Inb.rq reqs j) = true.
Proof. exact ProofsInbMain.shared_key_query_l. Qed.
Print Assumptions c11_inb_shared_same_key_and_query.

Theorem c11_inb_err_origin : forall reqs s i e,
  inb_reach reqs s -> Inb.a_out (Inb.act s i) = Some (OErr e) ->
  (e = ECtx i /\ Inb.a_cancel (Inb.act s i) = true) \/
  (e = EUp i /\ Inb.a_ans (Inb.act s i) = Some AErrUp) \/
  (exists j, j <> i /\ e = EUp j /\ Inb.a_ref (Inb.act s i) = Some j /\
             Inb.a_ans (Inb.act s j) = Some AErrUp /\
             rkey (Inb.rq reqs i) = rkey (Inb.rq reqs j) /\
             elig (Inb.rq reqs i) = true /\ elig (Inb.rq reqs j) = true).
Proof. exact ProofsInbMain.err_origin_l. Qed.
Print Assumptions c11_inb_err_origin.

Theorem c11_inb_transparent : forall reqs s i k d f,
  key_determines_body reqs -> inb_reach reqs s ->
  Inb.a_out (Inb.act s i) = Some (OWrote k d f) ->
  d = body (Inb.rq reqs i) k /\ (k = KCan -> f = None /\ Inb.a_cancel (Inb.act s i) = true).
Proof. exact ProofsInbMain.transparent_l. Qed.
Print Assumptions c11_inb_transparent.

Theorem c11_inb_progress : forall reqs s,
  inb_reach reqs s ->
  (exists i, Inb.exists_b reqs i = true /\ Inb.a_pc (Inb.act s i) <> Inb.PDone) ->
  exists x, is_cancel x = false /\ Inb.step fixed reqs s x <> None.
Proof. exact ProofsInbMain.progress_l. Qed.
Print Assumptions c11_inb_progress.

Theorem c11_inb_returned_has_outcome : forall reqs s i,
  inb_reach reqs s ->
  (Inb.a_pc (Inb.act s i) = Inb.PDone -> Inb.a_out (Inb.act s i) <> None) /\
  (Inb.a_out (Inb.act s i) = None -> ProofsInb.run_pc (Inb.a_pc (Inb.act s i)) = true).
Proof. exact ProofsInbMain.returned_iff_outcome. Qed.
Print Assumptions c11_inb_returned_has_outcome.

(* ------------------------------------------------------------------ subgraph *)
Theorem c11_sub_no_double_close : forall reqs s i j,
  sub_reach reqs s -> Sub.exists_b reqs i = true ->
  Sub.a_pc (Sub.act s i) = Sub.PClose -> Sub.a_ref (Sub.act s i) = Some j ->
  Sub.it_loaded (Sub.itm s j) = false.
Proof. exact ProofsSubMain.no_double_close_l. Qed.
Print Assumptions c11_sub_no_double_close.

Theorem c11_sub_no_panic : forall reqs tr s o i,
  Sub.run fixed reqs tr Sub.init = Some (s, o) -> ~ In (ORet i OPanic) o.
Proof. exact ProofsSubMain.no_panic_obs. Qed.
Print Assumptions c11_sub_no_panic.

Theorem c11_sub_follower_bytes_eq_leader_bytes : forall reqs s i k d j,
  sub_reach reqs s -> Sub.a_out (Sub.act s i) = Some (OWrote k d (Some j)) ->
  j <> i /\ Sub.it_resp (Sub.itm s j) = Some d /\
  Sub.a_out (Sub.act s j) = Some (OWrote KOk d None) /\ d = rok (Sub.rq reqs j) /\ k = KOk.
Proof. exact ProofsSubMain.follower_bytes_l. Qed.
Print Assumptions c11_sub_follower_bytes_eq_leader_bytes.

Theorem c11_sub_shared_same_key_and_query : forall reqs s i j,
  sub_reach reqs s -> Sub.a_ref (Sub.act s i) = Some j -> j <> i ->
  rkey (Sub.rq reqs i) = rkey (Sub.rq reqs j) /\
  elig (Sub.rq reqs i) = true /\ elig (Sub.rq reqs j) = true.
Proof. exact ProofsSubMain.shared_key_query_l. Qed.
Print Assumptions c11_sub_shared_same_key_and_query.

Theorem c11_sub_err_origin : forall reqs s i e,
  sub_reach reqs s -> Sub.a_out (Sub.act s i) = Some (OErr e) ->
  (e = ECtx i /\ Sub.a_cancel (Sub.act s i) = true) \/
  (e = EUp i /\ Sub.a_ans (Sub.act s i) = Some AErrUp) \/
  (exists j, j <> i /\ e = EUp j /\ Sub.a_ref (Sub.act s i) = Some j /\
             Sub.a_ans (Sub.act s j) = Some AErrUp /\
             rkey (Sub.rq reqs i) = rkey (Sub.rq reqs j) /\
             elig (Sub.rq reqs i) = true /\ elig (Sub.rq reqs j) = true).
Proof. exact ProofsSubMain.err_origin_l. Qed.
Print Assumptions c11_sub_err_origin.

Theorem c11_sub_transparent : forall reqs s i k d f,
  sub_key_determines_body reqs -> sub_reach reqs s ->
  Sub.a_out (Sub.act s i) = Some (OWrote k d f) ->
  k = KOk /\ d = rok (Sub.rq reqs i).
Proof. exact ProofsSubMain.transparent_l. Qed.
Print Assumptions c11_sub_transparent.

Theorem c11_sub_progress : forall reqs s,
  sub_reach reqs s ->
  (exists i, Sub.exists_b reqs i = true /\ Sub.a_pc (Sub.act s i) <> Sub.PDone) ->
  exists x, is_cancel x = false /\ Sub.step fixed reqs s x <> None.
Proof. exact ProofsSubMain.progress_l. Qed.
Print Assumptions c11_sub_progress.

(* ------------------------------------------------------------------ checker *)
Theorem c11_spec_b_sound : forall sub reqs os,
  spec_b sub reqs os = None -> forall i, i < length reqs -> actor_ok sub reqs os i.
Proof. exact ProofsSpec.spec_b_sound. Qed.
Print Assumptions c11_spec_b_sound.

(* every complete run of the fixed models passes the checker that is evaluated on the implementation *)
Theorem c11_inb_model_passes_checker : forall reqs, key_determines_body reqs -> forall s,
  inb_reach reqs s ->
  (forall i, i < length reqs -> Inb.a_out (Inb.act s i) <> None) ->
  spec_b false reqs (inb_observe reqs s) = None.
Proof. exact ProofsCheckerInb.spec_b_model. Qed.
Print Assumptions c11_inb_model_passes_checker.

Theorem c11_sub_model_passes_checker : forall reqs, sub_key_determines_body reqs -> forall s,
  sub_reach reqs s ->
  (forall i, i < length reqs -> Sub.a_out (Sub.act s i) <> None) ->
  spec_b true reqs (sub_observe reqs s) = None.
Proof. exact ProofsCheckerSub.spec_b_model. Qed.
Print Assumptions c11_sub_model_passes_checker.

(* ------------------------------------------------------------------ panics, the registry, private writers *)
(* no wedge, also after panics: while anybody has not returned, an action is enabled that is neither a
   cancellation nor a panic *)
Theorem c11_inb_progress_benign : forall reqs s,
  inb_reach reqs s ->
  (exists i, Inb.exists_b reqs i = true /\ Inb.a_pc (Inb.act s i) <> Inb.PDone) ->
  exists x, is_cancel x = false /\ ProofsInb.is_panic x = false /\ Inb.step fixed reqs s x <> None.
Proof. exact ProofsInbMain.progress_benign_l. Qed.
Print Assumptions c11_inb_progress_benign.

Theorem c11_sub_progress_benign : forall reqs s,
  sub_reach reqs s ->
  (exists i, Sub.exists_b reqs i = true /\ Sub.a_pc (Sub.act s i) <> Sub.PDone) ->
  exists x, is_cancel x = false /\ ProofsSubMain.is_panic x = false /\ Sub.step fixed reqs s x <> None.
Proof. exact ProofsSubMain.progress_benign_l. Qed.
Print Assumptions c11_sub_progress_benign.

(* a panic is seen only by the participant into whose own work / own writer the environment injected it
   (inbound: the followers of a panicked leader execute on their own) ... *)
Theorem c11_inb_crash_origin : forall reqs s i f,
  inb_reach reqs s -> Inb.a_out (Inb.act s i) = Some (OCrash f) ->
  f = None /\ (Inb.a_ans (Inb.act s i) = Some APanic \/ Inb.a_wr (Inb.act s i) = Some WPanic).
Proof. exact ProofsInbMain.crash_origin_l. Qed.
Print Assumptions c11_inb_crash_origin.

(* ... subgraph: or, as "released with nothing published" (res.out = nil), by the followers of exactly the
   leader whose load panicked - the failure of the shared work *)
Theorem c11_sub_crash_origin : forall reqs s i f,
  sub_reach reqs s -> Sub.a_out (Sub.act s i) = Some (OCrash f) ->
  (f = None /\ Sub.a_ans (Sub.act s i) = Some APanic) \/
  (exists j, f = Some j /\ j <> i /\ Sub.a_ref (Sub.act s i) = Some j /\ Sub.a_ans (Sub.act s j) = Some APanic /\
             Sub.a_out (Sub.act s j) = Some (OCrash None) /\
             rkey (Sub.rq reqs i) = rkey (Sub.rq reqs j) /\
             elig (Sub.rq reqs i) = true /\ elig (Sub.rq reqs j) = true).
Proof. exact ProofsSubMain.crash_origin_l. Qed.
Print Assumptions c11_sub_crash_origin.

(* a key is registered only while its leader is still inside the call and its channel is open *)
Theorem c11_inb_registry_clean : forall reqs s k j,
  inb_reach reqs s -> Inb.tbl s k = Some j ->
  Inb.exists_b reqs j = true /\ Inb.a_ref (Inb.act s j) = Some j /\ rkey (Inb.rq reqs j) = k /\
  Inb.a_pc (Inb.act s j) <> Inb.PDone /\ Inb.e_done (Inb.ent s j) = false.
Proof. exact ProofsInbMain.registry_clean_l. Qed.
Print Assumptions c11_inb_registry_clean.

Theorem c11_sub_registry_clean : forall reqs s k j,
  sub_reach reqs s -> Sub.tbl s k = Some j ->
  Sub.exists_b reqs j = true /\ Sub.a_ref (Sub.act s j) = Some j /\ rkey (Sub.rq reqs j) = k /\
  Sub.a_pc (Sub.act s j) <> Sub.PDone /\ Sub.it_loaded (Sub.itm s j) = false.
Proof. exact ProofsSubMain.registry_clean_l. Qed.
Print Assumptions c11_sub_registry_clean.

Theorem c11_inb_quiescent_registry_empty : forall reqs s,
  inb_reach reqs s -> (forall i, Inb.exists_b reqs i = true -> Inb.a_pc (Inb.act s i) = Inb.PDone) ->
  forall k, Inb.tbl s k = None.
Proof. exact ProofsInbMain.quiescent_registry_empty_l. Qed.
Print Assumptions c11_inb_quiescent_registry_empty.

Theorem c11_sub_quiescent_registry_empty : forall reqs s,
  sub_reach reqs s -> (forall i, Sub.exists_b reqs i = true -> Sub.a_pc (Sub.act s i) = Sub.PDone) ->
  forall k, Sub.tbl s k = None.
Proof. exact ProofsSubMain.quiescent_registry_empty_l. Qed.
Print Assumptions c11_sub_quiescent_registry_empty.

(* a leader that has left - returned, failed, panicked in its work or in its writer - has closed its channel
   and is registered under no key: nobody can join or wait for a dead leader *)
Theorem c11_inb_leader_gone_released : forall reqs s j,
  inb_reach reqs s -> Inb.a_ref (Inb.act s j) = Some j -> Inb.a_pc (Inb.act s j) = Inb.PDone ->
  Inb.e_done (Inb.ent s j) = true /\ forall k, Inb.tbl s k <> Some j.
Proof. exact ProofsInbMain.leader_gone_released_l. Qed.
Print Assumptions c11_inb_leader_gone_released.

Theorem c11_sub_leader_gone_released : forall reqs s j,
  sub_reach reqs s -> Sub.a_ref (Sub.act s j) = Some j -> Sub.a_pc (Sub.act s j) = Sub.PDone ->
  Sub.it_loaded (Sub.itm s j) = true /\ forall k, Sub.tbl s k <> Some j.
Proof. exact ProofsSubMain.leader_gone_released_l. Qed.
Print Assumptions c11_sub_leader_gone_released.

(* the result of a participant's own client Write is its private matter: success and failure lead to states
   that differ in that participant's [a_wr] only *)
Theorem c11_inb_write_failure_private : forall reqs s i s1 s2,
  Inb.step fixed reqs s (Wr i WOk) = Some s1 -> Inb.step fixed reqs s (Wr i WFail) = Some s2 ->
  Inb.tbl s1 = Inb.tbl s2 /\ Inb.ent s1 = Inb.ent s2 /\ (forall j, j <> i -> Inb.act s1 j = Inb.act s2 j) /\
  Inb.a_pc (Inb.act s1 i) = Inb.a_pc (Inb.act s2 i) /\ Inb.a_out (Inb.act s1 i) = Inb.a_out (Inb.act s2 i) /\
  Inb.a_ref (Inb.act s1 i) = Inb.a_ref (Inb.act s2 i).
Proof. exact ProofsInbMain.write_failure_private_l. Qed.
Print Assumptions c11_inb_write_failure_private.

(* shared bytes are the product of the leader's WORK (answered ok / failure body, never under the leader's
   cancelled context), whatever happened to the leader's own Write afterwards *)
Theorem c11_inb_follower_unaffected_by_leader_write : forall reqs s i k d j,
  inb_reach reqs s -> Inb.a_out (Inb.act s i) = Some (OWrote k d (Some j)) ->
  Inb.a_ans (Inb.act s j) = Some (ProofsInb.ans_of_kind k) /\ d = body (Inb.rq reqs j) k /\ k <> KCan.
Proof. exact ProofsInbMain.follower_unaffected_by_leader_write_l. Qed.
Print Assumptions c11_inb_follower_unaffected_by_leader_write.

(* the quiescence checker (per-actor clauses + registry) *)
Theorem c11_spec_q_b_sound : forall sub reqs os reg,
  spec_q_b sub reqs os reg = None -> reg = 0 /\ forall i, i < length reqs -> actor_ok sub reqs os i.
Proof. exact ProofsSpec.spec_q_b_sound. Qed.
Print Assumptions c11_spec_q_b_sound.

Theorem c11_inb_model_passes_quiescence_checker : forall reqs, key_determines_body reqs -> forall s,
  inb_reach reqs s -> (forall i, i < length reqs -> Inb.a_pc (Inb.act s i) = Inb.PDone) ->
  spec_q_b false reqs (inb_observe reqs s) (inb_registered reqs s) = None.
Proof. exact ProofsCheckerInb.spec_q_b_model. Qed.
Print Assumptions c11_inb_model_passes_quiescence_checker.

Theorem c11_sub_model_passes_quiescence_checker : forall reqs, sub_key_determines_body reqs -> forall s,
  sub_reach reqs s -> (forall i, i < length reqs -> Sub.a_pc (Sub.act s i) = Sub.PDone) ->
  spec_q_b true reqs (sub_observe reqs s) (sub_registered reqs s) = None.
Proof. exact ProofsCheckerSub.spec_q_b_model. Qed.
Print Assumptions c11_sub_model_passes_quiescence_checker.

(* ------------------------------------------------------------------ historical code *)
Theorem c11_inb_no_double_close_refuted :
  exists reqs tr s o i,
    Inb.run prefix reqs tr Inb.init = Some (s, o) /\ In (ORet i OPanic) o.
Proof. exact ProofsRefuted.inb_no_double_close_refuted_l. Qed.
Print Assumptions c11_inb_no_double_close_refuted.

Theorem c11_inb_transparent_refuted :
  exists reqs tr s o i k d f,
    key_determines_body reqs /\
    Inb.run prefix reqs tr Inb.init = Some (s, o) /\
    Inb.a_out (Inb.act s i) = Some (OWrote k d f) /\
    Inb.a_cancel (Inb.act s i) = false /\
    d <> body (nth i reqs dreq) KOk /\ d <> body (nth i reqs dreq) KFail.
Proof. exact ProofsRefuted.inb_transparent_refuted_l. Qed.
Print Assumptions c11_inb_transparent_refuted.

Theorem c11_inb_err_origin_refuted :
  exists reqs tr s o i j,
    Inb.run prefix reqs tr Inb.init = Some (s, o) /\ j <> i /\
    Inb.a_out (Inb.act s i) = Some (OErr (ECtx j)).
Proof. exact ProofsRefuted.inb_err_origin_refuted_l. Qed.
Print Assumptions c11_inb_err_origin_refuted.

Theorem c11_sub_err_origin_refuted :
  exists reqs tr s o i j,
    Sub.run prefix reqs tr Sub.init = Some (s, o) /\ j <> i /\
    Sub.a_out (Sub.act s i) = Some (OErr (ECtx j)).
Proof. exact ProofsRefuted.sub_err_origin_refuted_l. Qed.
Print Assumptions c11_sub_err_origin_refuted.

(* the inbound caller before c11_fix_c (nothing deferred, [asis]): a leader that panics in its work, or in
   its client Write after the shared work succeeded, leaves Done open and the key registered; the waiting
   follower is not cancelled and NO action other than a cancellation is enabled any more *)
Theorem c11_inb_panic_wedges_refuted :
  exists reqs tr s o,
    Inb.run asis reqs tr Inb.init = Some (s, o) /\
    Inb.a_pc (Inb.act s 0) = Inb.PDone /\ Inb.a_out (Inb.act s 0) = Some (OCrash None) /\
    Inb.exists_b reqs 1 = true /\ Inb.a_pc (Inb.act s 1) = Inb.PWait /\ Inb.a_cancel (Inb.act s 1) = false /\
    (forall x, is_cancel x = false -> Inb.step asis reqs s x = None) /\
    Inb.tbl s (rkey ProofsRefuted.wreq) = Some 0 /\ Inb.e_done (Inb.ent s 0) = false.
Proof. exact ProofsRefuted.inb_panic_wedges_asis_l. Qed.
Print Assumptions c11_inb_panic_wedges_refuted.

Theorem c11_inb_writer_panic_wedges_refuted :
  exists reqs tr s o,
    Inb.run asis reqs tr Inb.init = Some (s, o) /\
    Inb.a_pc (Inb.act s 0) = Inb.PDone /\ Inb.a_pc (Inb.act s 1) = Inb.PWait /\
    (forall x, is_cancel x = false -> Inb.step asis reqs s x = None) /\
    Inb.tbl s (rkey ProofsRefuted.wreq) = Some 0.
Proof. exact ProofsRefuted.inb_writer_panic_wedges_asis_l. Qed.
Print Assumptions c11_inb_writer_panic_wedges_refuted.

(* loadByContext with Finish called on the ordinary return paths instead of deferred ([nodefer]) *)
Theorem c11_sub_panic_wedges_without_defer_refuted :
  exists reqs tr s o,
    Sub.run nodefer reqs tr Sub.init = Some (s, o) /\
    Sub.a_pc (Sub.act s 0) = Sub.PDone /\ Sub.a_out (Sub.act s 0) = Some (OCrash None) /\
    Sub.exists_b reqs 1 = true /\ Sub.a_pc (Sub.act s 1) = Sub.PWait /\ Sub.a_cancel (Sub.act s 1) = false /\
    (forall x, is_cancel x = false -> Sub.step nodefer reqs s x = None) /\
    Sub.tbl s (rkey ProofsRefuted.wreq) = Some 0 /\ Sub.it_loaded (Sub.itm s 0) = false.
Proof. exact ProofsRefuted.sub_panic_wedges_nodefer_l. Qed.
Print Assumptions c11_sub_panic_wedges_without_defer_refuted.

(* ------------------------------------------------------------------ the size-hint table (ModelHint.v)
   Shared by all leaders of one fetchKey (different sfKeys included).  [Hint.run guard fkeys tr]: every
   interleaving [tr] of the atomic regions of any number of leaders (leader i has fetchKey [nth i fkeys]):
   Load / locked read of the hint in GetOrCreateItem, Load / LoadOrStore(empty entry) / locked record in
   Finish, response lengths chosen by the environment. *)
From Coq Require Import ZArith.

(* the hint computation never divides by zero, for any interleaving and any response lengths: the reader
   tests [count > 0] under the entry's mutex ([guard = true] = the code as it is) *)
Theorem c11_hint_never_panics : forall fkeys tr s i,
  Hint.run true fkeys tr Hint.init = Some s -> Hint.h_pc (Hint.act s i) <> Hint.PPanic.
Proof. exact ProofsHint.never_panics_l. Qed.
Print Assumptions c11_hint_never_panics.

Example c11_hint_never_panics_ex :
  exists s, Hint.run true [7%N; 7%N] [Hint.HStep 0; Hint.HAns 0 120%Z; Hint.HStep 0; Hint.HStep 0; Hint.HStep 1; Hint.HStep 1;
                                     Hint.HStep 0; Hint.HAns 1 80%Z; Hint.HStep 1; Hint.HStep 1] Hint.init = Some s /\
            Hint.h_hint (Hint.act s 1) = 0%Z /\ Hint.h_pc (Hint.act s 1) = Hint.PDone /\
            Hint.tbl s 7%N = Some {| Hint.e_count := 2; Hint.e_total := 200 |}.
Proof. eexists. split; [vm_compute; reflexivity|]. vm_compute. repeat split; reflexivity. Qed.

(* without the test (the reader divides whenever it finds an entry) a second leader of the same fetchKey that is
   elected between the first finisher's LoadOrStore and its first record panics: the entry is published EMPTY *)
Theorem c11_hint_unguarded_refuted :
  exists fkeys tr s, Hint.run false fkeys tr Hint.init = Some s /\ Hint.fk fkeys 0 = Hint.fk fkeys 1 /\
                     Hint.h_pc (Hint.act s 1) = Hint.PPanic /\
                     Hint.tbl s (Hint.fk fkeys 0) = Some Hint.entry0 /\ Hint.h_pc (Hint.act s 0) = Hint.PRec.
Proof. exact ProofsHint.unguarded_refuted_l. Qed.
Print Assumptions c11_hint_unguarded_refuted.

(* the rolling window: with response lengths in [0, M], every entry keeps 0 <= count <= 50 and
   0 <= total <= count * M (the fold at 50 replaces the window by one sample of its mean), every hint
   handed to a leader is a mean: 0 <= hint <= M *)
Theorem c11_hint_window_bounds : forall guard fkeys M tr s,
  (0 <= M)%Z -> ProofsHint.bounded M tr -> Hint.run guard fkeys tr Hint.init = Some s ->
  (forall k e, Hint.tbl s k = Some e ->
     (0 <= Hint.e_count e <= Hint.window)%Z /\ (0 <= Hint.e_total e <= Hint.e_count e * M)%Z) /\
  (forall i, (0 <= Hint.h_hint (Hint.act s i) <= M)%Z /\ (0 <= Hint.h_len (Hint.act s i) <= M)%Z).
Proof. exact ProofsHint.window_bounds_l. Qed.
Print Assumptions c11_hint_window_bounds.

(* hence no wrap-around of Go's 64-bit int as long as 50 responses fit: M * 50 < 2^63 *)
Theorem c11_hint_no_overflow : forall guard fkeys M tr s,
  (0 <= M)%Z -> (M * Hint.window < 2 ^ 63)%Z -> ProofsHint.bounded M tr -> Hint.run guard fkeys tr Hint.init = Some s ->
  (forall k e, Hint.tbl s k = Some e -> (Hint.e_total e < 2 ^ 63)%Z /\ (Hint.e_count e < 2 ^ 63)%Z) /\
  (forall k e n, Hint.tbl s k = Some e -> (0 <= n <= M)%Z -> (Hint.e_total (Hint.record e n) < 2 ^ 63)%Z) /\
  (forall i, (Hint.h_hint (Hint.act s i) < 2 ^ 63)%Z).
Proof. exact ProofsHint.no_overflow_l. Qed.
Print Assumptions c11_hint_no_overflow.

Example c11_hint_window_fold_ex :
  Hint.record {| Hint.e_count := 50; Hint.e_total := 5000 |} 30%Z = {| Hint.e_count := 2; Hint.e_total := 130 |} /\
  Hint.record Hint.entry0 0%Z = {| Hint.e_count := 1; Hint.e_total := 0 |}.
Proof. split; reflexivity. Qed.

(* an entry without a sample exists only while its publisher is between LoadOrStore and its first record;
   so once no finisher is in that window every entry has count >= 1 and the hint is the mean *)
Theorem c11_hint_empty_entry_has_publisher : forall guard fkeys tr s k e,
  Hint.run guard fkeys tr Hint.init = Some s -> Hint.tbl s k = Some e ->
  (0 <= Hint.e_count e)%Z /\
  (Hint.e_count e = 0%Z ->
   exists i, i < length fkeys /\ Hint.fk fkeys i = k /\ Hint.h_pc (Hint.act s i) = Hint.PRec).
Proof. exact ProofsHint.empty_entry_has_publisher_l. Qed.
Print Assumptions c11_hint_empty_entry_has_publisher.

(* the table never blocks a leader: whatever the others did, a leader that has not finished can take its next step *)
Theorem c11_hint_progress : forall guard fkeys M tr s i,
  (0 <= M)%Z -> ProofsHint.bounded M tr -> Hint.run guard fkeys tr Hint.init = Some s -> i < length fkeys ->
  match Hint.h_pc (Hint.act s i) with
  | Hint.PDone | Hint.PPanic => True
  | Hint.PWork => forall n, (0 <= n)%Z -> Hint.step guard fkeys s (Hint.HAns i n) <> None
  | _ => Hint.step guard fkeys s (Hint.HStep i) <> None
  end.
Proof. exact ProofsHint.progress_l. Qed.
Print Assumptions c11_hint_progress.

(* the checker that runs on the implementation's observables of a size-hint schedule decides these clauses *)
Theorem c11_hint_spec_b_sound : forall os sizes,
  hint_spec_b os sizes = None ->
  Forall (hobs_ok (max_len os)) os /\ Forall (size_ok (max_len os)) sizes.
Proof. exact SpecHint.hint_spec_b_sound_l. Qed.
Print Assumptions c11_hint_spec_b_sound.

Example c11_hint_spec_b_ex :
  hint_spec_b [ {| ho_res := HRDone; ho_hint := 0; ho_len := 120 |}; {| ho_res := HRDone; ho_hint := 0; ho_len := 80 |} ]
              [ (2, 200)%Z ] = None /\
  hint_spec_b [ {| ho_res := HRDone; ho_hint := 0; ho_len := 120 |}; {| ho_res := HRPanic; ho_hint := 0; ho_len := 0 |} ]
              [ (1, 120)%Z ] = Some (1, HCNoPanic).
Proof. split; reflexivity. Qed.
