(* C11 property theorems: statements only; every proof is [exact lemma].
   [Inb] = inbound single flight + caller, [Sub] = subgraph single flight + loadByContext, both
   WITH the fixes applied ([fixed]); the [_refuted] theorems are about the historical transitions
   ([prefix]).  Quantification: every finite list of requests, every action list accepted by [run]. *)
From Gv Require Import lib.Bytes C11.Model C11.Spec C11.ProofsInbMain C11.ProofsSubMain
  C11.ProofsSpec C11.ProofsRefuted C11.ProofsCheckerInb C11.ProofsCheckerSub.
From Coq Require Import Arith.
Open Scope nat_scope.

(* ------------------------------------------------------------------ inbound *)
Theorem c11_inb_no_double_close : forall reqs s i j,
  inb_reach reqs s -> Inb.exists_b reqs i = true ->
  (Inb.a_pc (Inb.act s i) = Inb.PClose \/ Inb.a_pc (Inb.act s i) = Inb.PFClose) ->
  Inb.a_ref (Inb.act s i) = Some j ->
  Inb.e_done (Inb.ent s j) = false.
Proof. exact ProofsInbMain.no_double_close_l. Qed.
Print Assumptions c11_inb_no_double_close.

Theorem c11_inb_no_panic : forall reqs tr s o i,
  Inb.run fixed reqs tr Inb.init = Some (s, o) -> ~ In (ORet i OPanic) o.
Proof. exact ProofsInbMain.no_panic_obs. Qed.
Print Assumptions c11_inb_no_panic.

Theorem c11_inb_follower_bytes_eq_leader_bytes : forall reqs s i k d j,
  inb_reach reqs s -> Inb.a_out (Inb.act s i) = Some (OWrote k d (Some j)) ->
  j <> i /\ Inb.e_data (Inb.ent s j) = Some (k, d) /\
  Inb.a_out (Inb.act s j) = Some (OWrote k d None) /\ d = body (Inb.rq reqs j) k /\ k <> KCan.
Proof. exact ProofsInbMain.follower_bytes_l. Qed.
Print Assumptions c11_inb_follower_bytes_eq_leader_bytes.

Theorem c11_inb_shared_same_key_and_query : forall reqs s i j,
  inb_reach reqs s -> Inb.a_ref (Inb.act s i) = Some j -> j <> i ->
  rkey (Inb.rq reqs i) = rkey (Inb.rq reqs j) /\
  elig (Inb.rq reqs i) = true /\ elig (Inb.rq reqs j) = true.
Proof. exact ProofsInbMain.shared_key_query_l. Qed.
Print Assumptions c11_inb_shared_same_key_and_query.

Theorem c11_inb_err_origin : forall reqs s i e,
  inb_reach reqs s -> Inb.a_out (Inb.act s i) = Some (OErr e) ->
  (e = ECtx i /\ Inb.a_cancel (Inb.act s i) = true) \/
  (e = EUp i /\ Inb.a_ans (Inb.act s i) = Some AErrUp) \/
  (exists j, j <> i /\ e = EUp j /\ Inb.a_ref (Inb.act s i) = Some j /\
             Inb.a_ans (Inb.act s j) = Some AErrUp /\
             rkey (Inb.rq reqs i) = rkey (Inb.rq reqs j) /\
             elig (Inb.rq reqs i) = true /\ elig (Inb.rq reqs j) = true).
Proof. exact ProofsInbMain.err_origin_l. Qed.
Print Assumptions c11_inb_err_origin.

Theorem c11_inb_transparent : forall reqs s i k d f,
  key_determines_body reqs -> inb_reach reqs s ->
  Inb.a_out (Inb.act s i) = Some (OWrote k d f) ->
  d = body (Inb.rq reqs i) k /\ (k = KCan -> f = None /\ Inb.a_cancel (Inb.act s i) = true).
Proof. exact ProofsInbMain.transparent_l. Qed.
Print Assumptions c11_inb_transparent.

Theorem c11_inb_progress : forall reqs s,
  inb_reach reqs s ->
  (exists i, Inb.exists_b reqs i = true /\ Inb.a_pc (Inb.act s i) <> Inb.PDone) ->
  exists x, is_cancel x = false /\ Inb.step fixed reqs s x <> None.
Proof. exact ProofsInbMain.progress_l. Qed.
Print Assumptions c11_inb_progress.

Theorem c11_inb_returned_has_outcome : forall reqs s i,
  inb_reach reqs s ->
  (Inb.a_pc (Inb.act s i) = Inb.PDone -> Inb.a_out (Inb.act s i) <> None) /\
  (Inb.a_out (Inb.act s i) = None -> ProofsInb.run_pc (Inb.a_pc (Inb.act s i)) = true).
Proof. exact ProofsInbMain.returned_iff_outcome. Qed.
Print Assumptions c11_inb_returned_has_outcome.

(* ------------------------------------------------------------------ subgraph *)
Theorem c11_sub_no_double_close : forall reqs s i j,
  sub_reach reqs s -> Sub.exists_b reqs i = true ->
  Sub.a_pc (Sub.act s i) = Sub.PClose -> Sub.a_ref (Sub.act s i) = Some j ->
  Sub.it_loaded (Sub.itm s j) = false.
Proof. exact ProofsSubMain.no_double_close_l. Qed.
Print Assumptions c11_sub_no_double_close.

Theorem c11_sub_no_panic : forall reqs tr s o i,
  Sub.run fixed reqs tr Sub.init = Some (s, o) -> ~ In (ORet i OPanic) o.
Proof. exact ProofsSubMain.no_panic_obs. Qed.
Print Assumptions c11_sub_no_panic.

Theorem c11_sub_follower_bytes_eq_leader_bytes : forall reqs s i k d j,
  sub_reach reqs s -> Sub.a_out (Sub.act s i) = Some (OWrote k d (Some j)) ->
  j <> i /\ Sub.it_resp (Sub.itm s j) = Some d /\
  Sub.a_out (Sub.act s j) = Some (OWrote KOk d None) /\ d = rok (Sub.rq reqs j) /\ k = KOk.
Proof. exact ProofsSubMain.follower_bytes_l. Qed.
Print Assumptions c11_sub_follower_bytes_eq_leader_bytes.

Theorem c11_sub_shared_same_key_and_query : forall reqs s i j,
  sub_reach reqs s -> Sub.a_ref (Sub.act s i) = Some j -> j <> i ->
  rkey (Sub.rq reqs i) = rkey (Sub.rq reqs j) /\
  elig (Sub.rq reqs i) = true /\ elig (Sub.rq reqs j) = true.
Proof. exact ProofsSubMain.shared_key_query_l. Qed.
Print Assumptions c11_sub_shared_same_key_and_query.

Theorem c11_sub_err_origin : forall reqs s i e,
  sub_reach reqs s -> Sub.a_out (Sub.act s i) = Some (OErr e) ->
  (e = ECtx i /\ Sub.a_cancel (Sub.act s i) = true) \/
  (e = EUp i /\ Sub.a_ans (Sub.act s i) = Some AErrUp) \/
  (exists j, j <> i /\ e = EUp j /\ Sub.a_ref (Sub.act s i) = Some j /\
             Sub.a_ans (Sub.act s j) = Some AErrUp /\
             rkey (Sub.rq reqs i) = rkey (Sub.rq reqs j) /\
             elig (Sub.rq reqs i) = true /\ elig (Sub.rq reqs j) = true).
Proof. exact ProofsSubMain.err_origin_l. Qed.
Print Assumptions c11_sub_err_origin.

Theorem c11_sub_transparent : forall reqs s i k d f,
  sub_key_determines_body reqs -> sub_reach reqs s ->
  Sub.a_out (Sub.act s i) = Some (OWrote k d f) ->
  k = KOk /\ d = rok (Sub.rq reqs i).
Proof. exact ProofsSubMain.transparent_l. Qed.
Print Assumptions c11_sub_transparent.

Theorem c11_sub_progress : forall reqs s,
  sub_reach reqs s ->
  (exists i, Sub.exists_b reqs i = true /\ Sub.a_pc (Sub.act s i) <> Sub.PDone) ->
  exists x, is_cancel x = false /\ Sub.step fixed reqs s x <> None.
Proof. exact ProofsSubMain.progress_l. Qed.
Print Assumptions c11_sub_progress.

(* ------------------------------------------------------------------ checker *)
Theorem c11_spec_b_sound : forall reqs os,
  spec_b reqs os = None -> forall i, i < length reqs -> actor_ok reqs os i.
Proof. exact ProofsSpec.spec_b_sound. Qed.
Print Assumptions c11_spec_b_sound.

(* every complete run of the fixed models passes the checker that is evaluated on the implementation *)
Theorem c11_inb_model_passes_checker : forall reqs, key_determines_body reqs -> forall s,
  inb_reach reqs s ->
  (forall i, i < length reqs -> Inb.a_out (Inb.act s i) <> None) ->
  spec_b reqs (inb_observe reqs s) = None.
Proof. exact ProofsCheckerInb.spec_b_model. Qed.
Print Assumptions c11_inb_model_passes_checker.

Theorem c11_sub_model_passes_checker : forall reqs, sub_key_determines_body reqs -> forall s,
  sub_reach reqs s ->
  (forall i, i < length reqs -> Sub.a_out (Sub.act s i) <> None) ->
  spec_b reqs (sub_observe reqs s) = None.
Proof. exact ProofsCheckerSub.spec_b_model. Qed.
Print Assumptions c11_sub_model_passes_checker.

(* ------------------------------------------------------------------ historical code *)
Theorem c11_inb_no_double_close_refuted :
  exists reqs tr s o i,
    Inb.run prefix reqs tr Inb.init = Some (s, o) /\ In (ORet i OPanic) o.
Proof. exact ProofsRefuted.inb_no_double_close_refuted_l. Qed.
Print Assumptions c11_inb_no_double_close_refuted.

Theorem c11_inb_transparent_refuted :
  exists reqs tr s o i k d f,
    key_determines_body reqs /\
    Inb.run prefix reqs tr Inb.init = Some (s, o) /\
    Inb.a_out (Inb.act s i) = Some (OWrote k d f) /\
    Inb.a_cancel (Inb.act s i) = false /\
    d <> body (nth i reqs dreq) KOk /\ d <> body (nth i reqs dreq) KFail.
Proof. exact ProofsRefuted.inb_transparent_refuted_l. Qed.
Print Assumptions c11_inb_transparent_refuted.

Theorem c11_inb_err_origin_refuted :
  exists reqs tr s o i j,
    Inb.run prefix reqs tr Inb.init = Some (s, o) /\ j <> i /\
    Inb.a_out (Inb.act s i) = Some (OErr (ECtx j)).
Proof. exact ProofsRefuted.inb_err_origin_refuted_l. Qed.
Print Assumptions c11_inb_err_origin_refuted.

Theorem c11_sub_err_origin_refuted :
  exists reqs tr s o i j,
    Sub.run prefix reqs tr Sub.init = Some (s, o) /\ j <> i /\
    Sub.a_out (Sub.act s i) = Some (OErr (ECtx j)).
Proof. exact ProofsRefuted.sub_err_origin_refuted_l. Qed.
Print Assumptions c11_sub_err_origin_refuted.
