(* C11 inbound: preservation, part E (work answers, cancellation). *)
From Gv Require Import lib.Bytes C11.Model C11.ProofsInb.
From Coq Require Import Arith Lia.
Import Inb.

Section S.
Variable reqs : list req.
Notation rq := (Inb.rq reqs).
Notation exists_b := (Inb.exists_b reqs).
Notation Inv := (Inv reqs).

Lemma inv_work_done s i w k :
  Inv s -> exists_b i = true -> a_pc (act s i) = PWork -> w = ans_of_kind k ->
  (k = KCan -> a_cancel (act s i) = true) -> Inv (work_done reqs s i w k).
Proof.
  intros HI He Hpc Hw Hk. unfold work_done. subst w.
  destruct (a_ref (act s i)) as [j|] eqn:Hr.
  - own HI j i. solve_inv HI.
  - solve_inv HI.
Qed.

Lemma inv_crashed s i :
  Inv s -> exists_b i = true -> a_pc (act s i) = PWork -> Inv (crashed fixed s i APanic).
Proof.
  intros HI He Hpc. unfold crashed, crash_pc. cbn [fix_c fixed].
  destruct (a_ref (act s i)) as [j|] eqn:Hr.
  - own HI j i. solve_inv HI.
  - solve_inv HI.
Qed.

Lemma inv_finish_err s i w e :
  Inv s -> exists_b i = true -> a_pc (act s i) = PWork ->
  (e = EUp i /\ w = AErrUp \/ e = ECtx i /\ a_cancel (act s i) = true) ->
  Inv (finish_err s i w e).
Proof.
  intros HI He Hpc Hw. unfold finish_err.
  destruct (a_ref (act s i)) as [j|] eqn:Hr.
  - own HI j i. destruct Hw as [[-> ->]|[-> Hc]].
    + solve_inv HI.
    + solve_inv HI.
  - destruct Hw as [[-> ->]|[-> Hc]].
    + solve_inv HI.
    + solve_inv HI.
Qed.

Lemma inv_ans s i w s' :
  Inv s -> exists_b i = true -> ans fixed reqs s i w = Some s' -> Inv s'.
Proof.
  intros HI He Hs. unfold ans in Hs.
  destruct (a_pc (act s i)) eqn:Hpc; try discriminate.
  destruct w.
  - start Hs. apply inv_work_done; auto. discriminate.
  - start Hs. apply inv_work_done; auto. discriminate.
  - destruct (a_cancel (act s i)) eqn:Hc; [|discriminate]. start Hs. apply inv_work_done; auto.
  - start Hs. apply inv_finish_err; auto.
  - destruct (a_cancel (act s i)) eqn:Hc; [|discriminate]. start Hs. apply inv_finish_err; auto.
  - start Hs. apply inv_crashed; auto.
Qed.

Lemma inv_cancel s i :
  Inv s -> exists_b i = true -> Inv (with_act s i (set_cancel (act s i))).
Proof.
  intros HI He. solve_inv HI.
Qed.
End S.
