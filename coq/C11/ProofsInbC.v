(* C11 inbound: preservation, part C (close, FinishErr). *)
From Gv Require Import lib.Bytes C11.Model C11.ProofsInb.
From Coq Require Import Arith Lia.
Import Inb.

Section S.
Variable reqs : list req.
Notation rq := (Inb.rq reqs).
Notation exists_b := (Inb.exists_b reqs).
Notation Inv := (Inv reqs).

Lemma inv_close s i s' :
  Inv s -> exists_b i = true ->
  (a_pc (act s i) = PClose \/ a_pc (act s i) = PFClose \/ a_pc (act s i) = PAClose) ->
  a_ref (act s i) = Some i -> do_close s i i (act s i) = s' -> Inv s'.
Proof.
  intros HI He Hpc Hr Hs. unfold do_close in Hs.
  assert (Hd : e_done (ent s i) = false).
  { apply (c_lead_open _ _ HI i Hr). destruct Hpc as [Hpc|[Hpc|Hpc]]; rewrite Hpc; reflexivity. }
  rewrite Hd in Hs. subst s'.
  destruct Hpc as [Hpc|[Hpc|Hpc]].
  - solve_inv HI.
  - solve_inv HI.
  - solve_inv HI.
Qed.

(* the deferred Abandon of a leader whose goroutine is unwinding a panic *)
Lemma inv_tau_adelete s i s' :
  Inv s -> exists_b i = true -> a_pc (act s i) = PADelete -> tau fixed reqs s i = Some s' -> Inv s'.
Proof.
  intros HI He Hpc Hs. unfold tau in Hs. rewrite Hpc in Hs.
  destruct (a_ref (act s i)) as [j|] eqn:Hr; [|discriminate]. own HI j i.
  assert (Hd : e_done (ent s i) = false).
  { apply (c_lead_open _ _ HI i Hr). rewrite Hpc; reflexivity. }
  rewrite Hd in Hs. start Hs.
  solve_inv HI.
Qed.

Lemma inv_tau_aclose s i s' :
  Inv s -> exists_b i = true -> a_pc (act s i) = PAClose -> tau fixed reqs s i = Some s' -> Inv s'.
Proof.
  intros HI He Hpc Hs. unfold tau in Hs. rewrite Hpc in Hs.
  destruct (a_ref (act s i)) as [j|] eqn:Hr; [|discriminate]. own HI j i. start Hs.
  eapply inv_close; eauto.
Qed.

Lemma inv_tau_close s i s' :
  Inv s -> exists_b i = true -> a_pc (act s i) = PClose -> tau fixed reqs s i = Some s' -> Inv s'.
Proof.
  intros HI He Hpc Hs. unfold tau in Hs. rewrite Hpc in Hs.
  destruct (a_ref (act s i)) as [j|] eqn:Hr; [|discriminate]. own HI j i. start Hs.
  eapply inv_close; eauto.
Qed.

Lemma inv_tau_fclose s i s' :
  Inv s -> exists_b i = true -> a_pc (act s i) = PFClose -> tau fixed reqs s i = Some s' -> Inv s'.
Proof.
  intros HI He Hpc Hs. unfold tau in Hs. rewrite Hpc in Hs.
  destruct (a_ref (act s i)) as [j|] eqn:Hr; [|discriminate]. own HI j i. start Hs.
  eapply inv_close; eauto 6.
Qed.

Lemma inv_tau_fdelete s i s' :
  Inv s -> exists_b i = true -> a_pc (act s i) = PFDelete -> tau fixed reqs s i = Some s' -> Inv s'.
Proof.
  intros HI He Hpc Hs. unfold tau in Hs. rewrite Hpc in Hs.
  destruct (a_ref (act s i)) as [j|] eqn:Hr; [|discriminate]. own HI j i. start Hs.
  solve_inv HI.
Qed.

Lemma inv_tau_ferr s i s' :
  Inv s -> exists_b i = true -> a_pc (act s i) = PFErr -> tau fixed reqs s i = Some s' -> Inv s'.
Proof.
  intros HI He Hpc Hs. unfold tau in Hs. rewrite Hpc in Hs.
  destruct (a_ref (act s i)) as [j|] eqn:Hr; [|discriminate]. own HI j i.
  cbn [fix_b fixed andb] in Hs.
  destruct (a_cancel (act s i)) eqn:Hc; start Hs.
  - solve_inv HI.
  - solve_inv HI.
Qed.
End S.
