From Gv Require Import lib.Bytes C11.Model C11.Spec.
From Coq Require Import Arith.
Require Import ExtrOcamlBasic.
Extraction Language OCaml.
Extraction "model.ml" Inb.step Inb.run Inb.init Sub.step Sub.run Sub.init fixed prefix spec_b check_actor
  actor_of is_cancel body elig dreq dobs.
