From Gv Require Import lib.Bytes C11.Model C11.Spec C11.ModelHint C11.SpecHint.
From Coq Require Import Arith NArith ZArith.
Require Import ExtrOcamlBasic.
Extraction Language OCaml.
(* N.of_nat / Z.of_nat only bring the number types that the shared OCaml prelude mentions *)
Extraction "model.ml" Inb.step Inb.run Inb.init Sub.step Sub.run Sub.init fixed prefix asis nodefer spec_b spec_q_b check_actor
  actor_of is_cancel body elig dreq dobs N.of_nat Z.of_nat
  Hint.step Hint.run Hint.init Hint.panicked Hint.fk hint_spec_b.
