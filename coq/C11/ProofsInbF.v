(* C11 inbound: preservation, part F (the Write on the actor's own client writer: ok, failed, panicked). *)
From Gv Require Import lib.Bytes C11.Model C11.ProofsInb.
From Coq Require Import Arith Lia.
Import Inb.

Section S.
Variable reqs : list req.
Notation rq := (Inb.rq reqs).
Notation exists_b := (Inb.exists_b reqs).
Notation Inv := (Inv reqs).

(* the leader's (or a lone actor's) Write returned, with or without an error: FinishOk comes next either way *)
Lemma inv_wr_own s i v :
  Inv s -> exists_b i = true -> a_pc (act s i) = PWrite ->
  Inv (with_act s i (set_pc (set_wr (set_out (act s i) (OWrote (a_kind (act s i)) (a_res (act s i)) None)) v)
                            (match a_ref (act s i) with None => PDone | Some _ => PDelete end))).
Proof.
  intros HI He Hpc.
  destruct (a_ref (act s i)) as [j|] eqn:Hr.
  - own HI j i. solve_inv HI.
  - solve_inv HI.
Qed.

Lemma inv_wr_own_panic s i :
  Inv s -> exists_b i = true -> a_pc (act s i) = PWrite ->
  Inv (with_act s i (set_pc (set_wr (set_out (act s i) (OCrash None)) WPanic) (crash_pc fixed (act s i)))).
Proof.
  intros HI He Hpc. unfold crash_pc. cbn [fix_c fixed].
  destruct (a_ref (act s i)) as [j|] eqn:Hr.
  - own HI j i. solve_inv HI.
  - solve_inv HI.
Qed.

Lemma inv_wr_foll s i j v :
  Inv s -> exists_b i = true -> a_pc (act s i) = PFWrite -> a_ref (act s i) = Some j ->
  Inv (with_act s i (set_pc (set_wr (set_out (act s i) (OWrote (a_kind (act s i)) (a_res (act s i)) (Some j))) v) PDone)).
Proof.
  intros HI He Hpc Hr.
  destruct (c_fwrite _ _ HI i j Hpc Hr) as (N & Hd).
  solve_inv HI.
Qed.

Lemma inv_wr_foll_panic s i j :
  Inv s -> exists_b i = true -> a_pc (act s i) = PFWrite -> a_ref (act s i) = Some j ->
  Inv (with_act s i (set_pc (set_wr (set_out (act s i) (OCrash None)) WPanic) PDone)).
Proof.
  intros HI He Hpc Hr.
  destruct (c_fwrite _ _ HI i j Hpc Hr) as (N & Hd).
  solve_inv HI.
Qed.

Lemma inv_wr s i v s' :
  Inv s -> exists_b i = true -> wr fixed s i v = Some s' -> Inv s'.
Proof.
  intros HI He Hs. unfold wr in Hs.
  destruct (a_pc (act s i)) eqn:Hpc; try discriminate.
  - destruct v; start Hs.
    + apply inv_wr_own; auto.
    + apply inv_wr_own; auto.
    + apply inv_wr_own_panic; auto.
  - destruct (a_ref (act s i)) as [j|] eqn:Hr; [|discriminate].
    destruct v; start Hs.
    + eapply inv_wr_foll; eauto.
    + eapply inv_wr_foll; eauto.
    + eapply inv_wr_foll_panic; eauto.
Qed.
End S.
