(* C11 inbound single flight (fixed code): the invariant and its preservation. *)
From Gv Require Import lib.Bytes C11.Model.
From Coq Require Import Arith Lia.
Import Inb.

Definition ans_of_kind (k : bkind) : answer :=
  match k with KOk => AOk | KFail => AFailBody | KCan => ACanBody end.

Definition is_panic (x : action) : bool :=
  match x with Ans _ APanic | Wr _ WPanic => true | _ => false end.

Section Inv.
Variable reqs : list req.
Notation rq := (Inb.rq reqs).
Notation exists_b := (Inb.exists_b reqs).
Notation step := (Inb.step fixed reqs).


Definition lead_pc (p : pc) : bool := match p with PStart | PY1 | PWait | PFWrite => false | _ => true end.
Definition in_tbl_pc (p : pc) : bool :=
  match p with PWork | PWrite | PDelete | PFDelete | PADelete => true | _ => false end.
Definition open_pc (p : pc) : bool := match p with PStart | PY1 | PWait | PFWrite | PDone => false | _ => true end.
Definition nodata_pc (p : pc) : bool :=
  match p with PWork | PWrite | PDelete | PHasF | PCopy | PFDelete | PFErr | PFClose | PADelete | PAClose => true
  | _ => false end.
Definition noerr_pc (p : pc) : bool :=
  match p with PWork | PWrite | PDelete | PHasF | PCopy | PClose | PFDelete | PFErr | PADelete | PAClose => true
  | _ => false end.
Definition foll_pc (p : pc) : bool := match p with PY1 | PWait | PFWrite | PDone => true | _ => false end.
Definition noref_pc (p : pc) : bool := match p with PStart | PWork | PWrite | PDone => true | _ => false end.
Definition post_pc (p : pc) : bool := match p with PDelete | PHasF | PCopy | PClose => true | _ => false end.
Definition ferr_pc (p : pc) : bool := match p with PFDelete | PFErr | PFClose => true | _ => false end.
Definition data_pc (p : pc) : bool := match p with PClose | PDone => true | _ => false end.
Definition run_pc (p : pc) : bool :=
  match p with PStart | PY1 | PWait | PWork | PWrite | PFWrite => true | _ => false end.

Record Inv (s : state) : Prop := {
  c_absent : forall i, exists_b i = false -> act s i = actor0;
  c_tbl : forall k j, tbl s k = Some j ->
      a_ref (act s j) = Some j /\ in_tbl_pc (a_pc (act s j)) = true /\ rkey (rq j) = k;
  c_lead : forall i, a_ref (act s i) = Some i -> elig (rq i) = true /\ lead_pc (a_pc (act s i)) = true;
  c_lead_tbl : forall i, a_ref (act s i) = Some i -> in_tbl_pc (a_pc (act s i)) = true ->
      tbl s (rkey (rq i)) = Some i;
  c_lead_open : forall i, a_ref (act s i) = Some i -> open_pc (a_pc (act s i)) = true ->
      e_done (ent s i) = false;
  c_lead_nodata : forall i, a_ref (act s i) = Some i -> nodata_pc (a_pc (act s i)) = true ->
      e_data (ent s i) = None;
  c_lead_noerr : forall i, a_ref (act s i) = Some i -> noerr_pc (a_pc (act s i)) = true ->
      e_err (ent s i) = None;
  c_lead_done : forall i, a_ref (act s i) = Some i -> a_pc (act s i) = PDone -> e_done (ent s i) = true;
  c_foll : forall i j, a_ref (act s i) = Some j -> j <> i ->
      a_ref (act s j) = Some j /\ rkey (rq i) = rkey (rq j) /\ elig (rq i) = true /\
      foll_pc (a_pc (act s i)) = true;
  c_noref : forall i, a_ref (act s i) = None -> noref_pc (a_pc (act s i)) = true;
  c_pristine : forall i, a_ref (act s i) <> Some i -> ent s i = entry0;
  c_post : forall i, post_pc (a_pc (act s i)) = true ->
      a_out (act s i) = Some (OWrote (a_kind (act s i)) (a_res (act s i)) None);
  c_data : forall j k d, e_data (ent s j) = Some (k, d) ->
      a_ref (act s j) = Some j /\ data_pc (a_pc (act s j)) = true /\
      a_out (act s j) = Some (OWrote k d None) /\ k <> KCan;
  c_hasf : forall i, a_pc (act s i) = PCopy -> a_hasf (act s i) = true -> a_kind (act s i) <> KCan;
  c_err : forall j e, e_err (ent s j) = Some e -> e = EUp j /\ a_ans (act s j) = Some AErrUp;
  c_perr : forall i, ferr_pc (a_pc (act s i)) = true ->
      (a_perr (act s i) = EUp i /\ a_ans (act s i) = Some AErrUp) \/
      (a_perr (act s i) = ECtx i /\ a_cancel (act s i) = true);
  c_out_panic : forall i, a_out (act s i) <> Some OPanic;
  c_out_own : forall i k d, a_out (act s i) = Some (OWrote k d None) ->
      d = body (rq i) k /\ (k = KCan -> a_cancel (act s i) = true) /\
      a_ans (act s i) = Some (ans_of_kind k);
  c_out_sh : forall i k d j, a_out (act s i) = Some (OWrote k d (Some j)) ->
      j <> i /\ a_ref (act s i) = Some j /\ e_data (ent s j) = Some (k, d) /\ a_pc (act s i) = PDone;
  c_out_ctx : forall i a, a_out (act s i) = Some (OErr (ECtx a)) -> a = i /\ a_cancel (act s i) = true;
  c_out_up : forall i a, a_out (act s i) = Some (OErr (EUp a)) ->
      (a = i /\ a_ans (act s i) = Some AErrUp) \/
      (a <> i /\ a_ref (act s i) = Some a /\ e_err (ent s a) = Some (EUp a) /\ a_pc (act s i) = PDone);
  (* the body the caller is about to hand to its own writer is the one its own work produced *)
  c_write : forall i, a_pc (act s i) = PWrite ->
      a_res (act s i) = body (rq i) (a_kind (act s i)) /\
      (a_kind (act s i) = KCan -> a_cancel (act s i) = true) /\
      a_ans (act s i) = Some (ans_of_kind (a_kind (act s i)));
  (* ... resp. the Data of the request it followed *)
  c_fwrite : forall i j, a_pc (act s i) = PFWrite -> a_ref (act s i) = Some j ->
      j <> i /\ e_data (ent s j) = Some (a_kind (act s i), a_res (act s i));
  c_out_crash : forall i f, a_out (act s i) = Some (OCrash f) ->
      f = None /\ (a_ans (act s i) = Some APanic \/ a_wr (act s i) = Some WPanic);
  c_run : forall i, run_pc (a_pc (act s i)) = true -> a_out (act s i) = None;
  c_nrun : forall i, run_pc (a_pc (act s i)) = false -> a_out (act s i) <> None;
  c_start : forall i, a_pc (act s i) = PStart -> a_ref (act s i) = None
}.

Lemma inv_init : Inv init.
Proof.
  constructor; cbn; intros; try discriminate; try tauto; auto.
Qed.

End Inv.

(* ---- automation ---- *)
Ltac simp :=
  cbn [act ent tbl with_act with_ent with_tbl
       a_pc a_ref a_cancel a_kind a_res a_perr a_hasf a_out a_ans a_wr
       set_pc set_ref set_cancel set_work set_perr set_hasf set_out set_ans set_wr
       e_done e_data e_err e_fc e_close e_set_data e_set_err e_add] in *.

Ltac upd1 :=
  match goal with
  | |- context [upd _ ?i _ ?j] =>
    unfold upd at 1; destruct (Nat.eqb_spec j i); [subst|]
  | H : context [upd _ ?i _ ?j] |- _ =>
    unfold upd in H at 1; destruct (Nat.eqb_spec j i); [subst|]
  | |- context [updN _ ?i _ ?j] =>
    unfold updN at 1; destruct (N.eqb_spec j i); [subst|]
  | H : context [updN _ ?i _ ?j] |- _ =>
    unfold updN in H at 1; destruct (N.eqb_spec j i); [subst|]
  end.

Ltac learn t :=
  let T := type of t in
  lazymatch goal with
  | _ : T |- _ => fail
  | _ => pose proof t
  end.

(* facts triggered by equations in the context *)
Ltac fwd_light HI :=
  repeat match goal with
  | H : tbl _ ?k = Some ?j |- _ => learn (c_tbl _ _ HI k j H)
  | H : e_data (ent _ ?j) = Some (?k, ?d) |- _ => learn (c_data _ _ HI j k d H)
  | H : e_err (ent _ ?j) = Some ?e |- _ => learn (c_err _ _ HI j e H)
  | H : a_out (act _ ?i) = Some (OWrote ?k ?d None) |- _ => learn (c_out_own _ _ HI i k d H)
  | H : a_out (act _ ?i) = Some (OWrote ?k ?d (Some ?j)) |- _ => learn (c_out_sh _ _ HI i k d j H)
  | H : a_out (act _ ?i) = Some (OErr (ECtx ?a)) |- _ => learn (c_out_ctx _ _ HI i a H)
  | H : a_out (act _ ?i) = Some (OErr (EUp ?a)) |- _ => learn (c_out_up _ _ HI i a H)
  | H : a_out (act _ ?i) = Some (OCrash ?f) |- _ => learn (c_out_crash _ _ HI i f H)
  | P : a_pc (act _ ?i) = PFWrite, H : a_ref (act _ ?i) = Some ?j |- _ => learn (c_fwrite _ _ HI i j P H)
  | P : a_pc (act _ ?i) = PWrite |- _ => learn (c_write _ _ HI i P)
  | H : a_ref (act _ ?i) = Some ?i |- _ => learn (c_lead _ _ HI i H)
  | H : a_ref (act _ ?i) = Some ?j, N : ?j <> ?i |- _ => learn (c_foll _ _ HI i j H N)
  | H : a_ref (act _ ?i) = None |- _ => learn (c_noref _ _ HI i H)
  | H : Inb.exists_b _ ?i = false |- _ => learn (c_absent _ _ HI i H)
  end.

(* every per-actor clause at every actor in sight *)
Ltac fwd HI :=
  fwd_light HI;
  repeat match goal with
  | x : nat |- _ => learn (c_lead_tbl _ _ HI x)
  | x : nat |- _ => learn (c_lead_open _ _ HI x)
  | x : nat |- _ => learn (c_lead_nodata _ _ HI x)
  | x : nat |- _ => learn (c_lead_noerr _ _ HI x)
  | x : nat |- _ => learn (c_lead_done _ _ HI x)
  | x : nat |- _ => learn (c_pristine _ _ HI x)
  | x : nat |- _ => learn (c_post _ _ HI x)
  | x : nat |- _ => learn (c_hasf _ _ HI x)
  | x : nat |- _ => learn (c_perr _ _ HI x)
  | x : nat |- _ => learn (c_out_panic _ _ HI x)
  | x : nat |- _ => learn (c_run _ _ HI x)
  | x : nat |- _ => learn (c_nrun _ _ HI x)
  | x : nat |- _ => learn (c_start _ _ HI x)
  end.

Ltac rw_pc :=
  repeat match goal with
  | H : a_pc (act ?s ?i) = _ |- _ => rewrite H in *
  | H : a_ref (act ?s ?i) = _ |- _ => rewrite H in *
  end.

Ltac inj :=
  repeat match goal with
  | H : Some _ = Some _ |- _ => inversion H; subst; clear H
  | H : (_, _) = (_, _) |- _ => inversion H; subst; clear H
  end.

Ltac rw_ent :=
  repeat match goal with
  | H : ent ?s ?i = entry0 |- _ => rewrite H in *
  | H : act ?s ?i = actor0 |- _ => rewrite H in *
  end; cbn [e_done e_data e_err e_fc entry0 a_pc a_ref a_cancel a_out a_ans a_wr actor0] in *.

Ltac classes :=
  cbn [lead_pc in_tbl_pc open_pc nodata_pc noerr_pc foll_pc noref_pc post_pc ferr_pc data_pc run_pc] in *.

Ltac prem :=
  repeat match goal with
  | H : true = true -> _ |- _ => specialize (H eq_refl)
  | H : false = true -> _ |- _ => clear H
  | H : true = false -> _ |- _ => clear H
  | H : ?x = ?x -> _ |- _ => specialize (H eq_refl)
  | H : ?x <> ?x -> _ |- _ => clear H
  | H : _ /\ _ |- _ => destruct H
  | H : ?a = ?b, G : ?a = ?b -> _ |- _ => specialize (G H)
  end.

Ltac norm := inj; rw_pc; classes; prem; rw_ent; prem.

Ltac fin := norm; solve [intuition (subst; norm; try contradiction; try congruence; try discriminate)].

Ltac open_inv := constructor; intros; simp; repeat upd1; simp.

Ltac solve_inv HI :=
  open_inv;
  try solve [fin];
  try solve [fwd_light HI; fin];
  try solve [fwd HI; fin].


(* an actor at a leader-only program counter holds its own request *)
Lemma own_ref reqs s i j :
  Inv reqs s -> a_ref (act s i) = Some j -> foll_pc (a_pc (act s i)) = false -> j = i.
Proof.
  intros HI Hr Hp. destruct (Nat.eq_dec j i) as [|N]; [assumption|exfalso].
  pose proof (c_foll _ _ HI i j Hr N) as F. intuition congruence.
Qed.

Ltac own HI j i :=
  let E := fresh "E" in
  assert (E : j = i) by (eapply own_ref; [exact HI|eassumption|
     match goal with H : a_pc _ = _ |- _ => rewrite H end; reflexivity]);
  subst j.

Ltac start Hs := inversion Hs; subst; clear Hs.
