(* C11 inbound single flight (fixed code): the invariant and its preservation. *)
From Gv Require Import lib.Bytes C11.Model.
From Coq Require Import Arith Lia.
Import Inb.

Definition ans_of_kind (k : bkind) : answer :=
  match k with KOk => AOk | KFail => AFailBody | KCan => ACanBody end.

Section Inv.
Variable reqs : list req.
Notation rq := (Inb.rq reqs).
Notation exists_b := (Inb.exists_b reqs).
Notation step := (Inb.step fixed reqs).

Definition pcof (s : state) (i : nat) : pc := a_pc (act s i).
Definition refof (s : state) (i : nat) : option nat := a_ref (act s i).

Definition in_tbl_pc (p : pc) : bool :=
  match p with PWork | PDelete | PFDelete => true | _ => false end.

Definition leader_ok (s : state) (i : nat) : Prop :=
  match pcof s i with
  | PStart | PY1 | PWait => False
  | PWork | PDelete | PFDelete =>
    tbl s (rkey (rq i)) = Some i /\ e_done (ent s i) = false /\ e_data (ent s i) = None /\ e_err (ent s i) = None
  | PHasF | PCopy | PFErr =>
    e_done (ent s i) = false /\ e_data (ent s i) = None /\ e_err (ent s i) = None
  | PClose => e_done (ent s i) = false /\ e_err (ent s i) = None
  | PFClose => e_done (ent s i) = false /\ e_data (ent s i) = None
  | PDone => e_done (ent s i) = true
  end.

Definition foll_pc (p : pc) : bool :=
  match p with PY1 | PWait | PDone => true | _ => false end.
Definition noref_pc (p : pc) : bool :=
  match p with PStart | PWork | PDone => true | _ => false end.
Definition post_pc (p : pc) : bool :=
  match p with PDelete | PHasF | PCopy | PClose => true | _ => false end.
Definition ferr_pc (p : pc) : bool :=
  match p with PFDelete | PFErr | PFClose => true | _ => false end.

Definition out_ok (s : state) (i : nat) (o : outcome) : Prop :=
  match o with
  | OPanic => False
  | OWrote k d None =>
    d = body (rq i) k /\ (k = KCan -> a_cancel (act s i) = true) /\ a_ans (act s i) = Some (ans_of_kind k)
  | OWrote k d (Some j) =>
    j <> i /\ refof s i = Some j /\ e_data (ent s j) = Some (k, d) /\ pcof s i = PDone
  | OErr (ECtx a) => a = i /\ a_cancel (act s i) = true
  | OErr (EUp a) =>
    (a = i /\ a_ans (act s i) = Some AErrUp) \/
    (a <> i /\ refof s i = Some a /\ e_err (ent s a) = Some (EUp a) /\ pcof s i = PDone)
  end.

Record Inv (s : state) : Prop := {
  c_absent : forall i, exists_b i = false -> act s i = actor0;
  c_tbl : forall k j, tbl s k = Some j ->
            refof s j = Some j /\ in_tbl_pc (pcof s j) = true /\ rkey (rq j) = k;
  c_leader : forall i, refof s i = Some i -> elig (rq i) = true /\ leader_ok s i;
  c_foll : forall i j, refof s i = Some j -> j <> i ->
            refof s j = Some j /\ rkey (rq i) = rkey (rq j) /\ elig (rq i) = true /\ foll_pc (pcof s i) = true;
  c_noref : forall i, refof s i = None -> noref_pc (pcof s i) = true;
  c_pristine : forall i, refof s i <> Some i -> ent s i = entry0;
  c_post : forall i, post_pc (pcof s i) = true ->
            a_out (act s i) = Some (OWrote (a_kind (act s i)) (a_res (act s i)) None);
  c_data : forall j k d, e_data (ent s j) = Some (k, d) ->
            refof s j = Some j /\ (pcof s j = PClose \/ pcof s j = PDone) /\
            a_out (act s j) = Some (OWrote k d None) /\ k <> KCan;
  c_hasf : forall i, pcof s i = PCopy -> a_hasf (act s i) = true -> a_kind (act s i) <> KCan;
  c_err : forall j e, e_err (ent s j) = Some e -> e = EUp j /\ a_ans (act s j) = Some AErrUp;
  c_perr : forall i, ferr_pc (pcof s i) = true ->
            (a_perr (act s i) = EUp i /\ a_ans (act s i) = Some AErrUp) \/
            (a_perr (act s i) = ECtx i /\ a_cancel (act s i) = true);
  c_out : forall i o, a_out (act s i) = Some o -> out_ok s i o;
  c_done : forall i, pcof s i = PDone -> a_out (act s i) <> None;
  c_running : forall i, a_out (act s i) = None ->
            match pcof s i with PStart | PY1 | PWait | PWork => True | _ => False end;
  c_nout : forall i, match pcof s i with PStart | PY1 | PWait | PWork => a_out (act s i) = None | _ => True end;
  c_start : forall i, pcof s i = PStart -> refof s i = None
}.

Lemma inv_init : Inv init.
Proof.
  constructor; unfold pcof, refof; cbn; intros; try discriminate; try tauto; auto.
Qed.

(* ---- automation ---- *)
Ltac simp :=
  cbn [act ent tbl with_act with_ent with_tbl
       a_pc a_ref a_cancel a_kind a_res a_perr a_hasf a_out a_ans
       set_pc set_ref set_cancel set_work set_perr set_hasf set_out set_ans
       e_done e_data e_err e_fc e_close e_set_data e_set_err e_add] in *.

Ltac upd1 :=
  match goal with
  | |- context [upd _ ?i _ ?j] =>
    unfold upd at 1; destruct (Nat.eqb_spec j i); [subst|]
  | H : context [upd _ ?i _ ?j] |- _ =>
    unfold upd in H at 1; destruct (Nat.eqb_spec j i); [subst|]
  | |- context [updN _ ?i _ ?j] =>
    unfold updN at 1; destruct (N.eqb_spec j i); [subst|]
  | H : context [updN _ ?i _ ?j] |- _ =>
    unfold updN in H at 1; destruct (N.eqb_spec j i); [subst|]
  end.


Ltac learn t :=
  let T := type of t in
  lazymatch goal with
  | _ : T |- _ => fail
  | _ => pose proof t
  end.

Ltac fwd HI :=
  repeat match goal with
  | H : tbl _ ?k = Some ?j |- _ => learn (c_tbl _ HI k j H)
  | H : e_data (ent _ ?j) = Some (?k, ?d) |- _ => learn (c_data _ HI j k d H)
  | H : e_err (ent _ ?j) = Some ?e |- _ => learn (c_err _ HI j e H)
  | H : a_out (act _ ?i) = Some ?o |- _ => learn (c_out _ HI i o H)
  | H : a_ref (act _ ?i) = Some ?i |- _ => learn (c_leader _ HI i H)
  | H : a_ref (act _ ?i) = Some ?j, N : ?j <> ?i |- _ => learn (c_foll _ HI i j H N)
  | H : a_ref (act _ ?i) = None |- _ => learn (c_noref _ HI i H)
  | x : nat |- _ => learn (c_absent _ HI x)
  | x : nat |- _ => learn (c_pristine _ HI x)
  | x : nat |- _ => learn (c_post _ HI x)
  | x : nat |- _ => learn (c_hasf _ HI x)
  | x : nat |- _ => learn (c_perr _ HI x)
  | x : nat |- _ => learn (c_done _ HI x)
  | x : nat |- _ => learn (c_running _ HI x)
  | x : nat |- _ => learn (c_nout _ HI x)
  | x : nat |- _ => learn (c_start _ HI x)
  end.


Ltac fwd_light HI :=
  repeat match goal with
  | H : tbl _ ?k = Some ?j |- _ => learn (c_tbl _ HI k j H)
  | H : e_data (ent _ ?j) = Some (?k, ?d) |- _ => learn (c_data _ HI j k d H)
  | H : e_err (ent _ ?j) = Some ?e |- _ => learn (c_err _ HI j e H)
  | H : a_out (act _ ?i) = Some ?o |- _ => learn (c_out _ HI i o H)
  | H : a_ref (act _ ?i) = Some ?i |- _ => learn (c_leader _ HI i H)
  | H : a_ref (act _ ?i) = Some ?j, N : ?j <> ?i |- _ => learn (c_foll _ HI i j H N)
  | H : a_ref (act _ ?i) = None |- _ => learn (c_noref _ HI i H)
  end.

Ltac unf := unfold leader_ok, out_ok, pcof, refof in *.

Ltac rw_pc :=
  repeat match goal with
  | H : a_pc (act ?s ?i) = _ |- _ => rewrite H in *
  | H : a_ref (act ?s ?i) = _ |- _ => rewrite H in *
  end.

Ltac inj :=
  repeat match goal with
  | H : Some _ = Some _ |- _ => inversion H; subst; clear H
  | H : (_, _) = (_, _) |- _ => inversion H; subst; clear H
  end.

Ltac rw_ent :=
  repeat match goal with
  | H : ent ?s ?i = entry0 |- _ => rewrite H in *
  | H : act ?s ?i = actor0 |- _ => rewrite H in *
  end; cbn [e_done e_data e_err e_fc entry0 a_pc a_ref a_cancel a_out a_ans actor0] in *.

Ltac fin0 :=
  unf; inj; rw_pc; cbn [in_tbl_pc foll_pc noref_pc post_pc ferr_pc] in *;
  intuition (subst; try congruence; try discriminate).

Ltac fin :=
  unf; inj; rw_pc; cbn [in_tbl_pc foll_pc noref_pc post_pc ferr_pc] in *;
  try solve [intuition (subst; try congruence; try discriminate)];
  rw_ent;
  intuition (subst; rw_pc; rw_ent; cbn [in_tbl_pc foll_pc noref_pc post_pc ferr_pc] in *; try congruence; try discriminate).

Ltac case_pc :=
  repeat match goal with
  | |- context [match a_pc (act ?s ?i) with _ => _ end] => destruct (a_pc (act s i)) eqn:?
  | H : context [match a_pc (act ?s ?i) with _ => _ end] |- _ => destruct (a_pc (act s i)) eqn:?
  end.

Ltac case_out :=
  repeat match goal with
  | o : outcome |- _ => destruct o as [? ? [?|]|[?|?]|]
  end.

Ltac open_inv := constructor; unf; intros; simp; repeat upd1; simp.

Ltac solve_inv HI :=
  open_inv;
  try solve [fin];
  try solve [fwd_light HI; fin];
  try solve [fwd HI; fin];
  try solve [case_out; fwd HI; fin];
  try solve [case_out; fwd HI; case_pc; fin].


(* an actor at a leader-only program counter holds its own request *)
Lemma own_ref s i j :
  Inv s -> a_ref (act s i) = Some j ->
  match a_pc (act s i) with PY1 | PWait | PDone => False | _ => True end -> j = i.
Proof.
  intros HI Hr Hp. destruct (Nat.eq_dec j i) as [|N]; [assumption|exfalso].
  pose proof (c_foll _ HI i j Hr N) as F. unfold pcof in F.
  destruct (a_pc (act s i)); cbn in *; intuition discriminate.
Qed.

Ltac own HI j i :=
  let E := fresh "E" in
  assert (E : j = i) by (eapply own_ref; [exact HI|eassumption|
     match goal with H : a_pc _ = _ |- _ => rewrite H end; exact I]);
  subst j.

Ltac start HI Hs := inversion Hs; subst; clear Hs.

Lemma inv_tau_start s i s' :
  Inv s -> exists_b i = true -> a_pc (act s i) = PStart -> tau fixed reqs s i = Some s' -> Inv s'.
Proof.
  intros HI He Hpc Hs. unfold tau in Hs. rewrite Hpc in Hs.
  destruct (elig (rq i)) eqn:Hel.
  - destruct (tbl s (rkey (rq i))) as [j|] eqn:Ht; start HI Hs; solve_inv HI.
  - start HI Hs; solve_inv HI.
Qed.

Lemma inv_tau_y1 s i s' :
  Inv s -> exists_b i = true -> a_pc (act s i) = PY1 -> tau fixed reqs s i = Some s' -> Inv s'.
Proof.
  intros HI He Hpc Hs. unfold tau in Hs. rewrite Hpc in Hs.
  destruct (a_ref (act s i)) as [j|] eqn:Hr; [|discriminate]. start HI Hs.
  assert (N : j <> i).
  { intro; subst. pose proof (c_leader _ HI i Hr) as [_ L]. unfold leader_ok, pcof in L. rewrite Hpc in L. exact L. }
  pose proof (c_foll _ HI i j Hr N) as (Hj & _).
  solve_inv HI.
  all: idtac "Y1 REMAINING".
  all: admit.
  Show.
Admitted.

Lemma inv_tau_delete s i s' :
  Inv s -> exists_b i = true -> a_pc (act s i) = PDelete -> tau fixed reqs s i = Some s' -> Inv s'.
Proof.
  intros HI He Hpc Hs. unfold tau in Hs. rewrite Hpc in Hs.
  destruct (a_ref (act s i)) as [j|] eqn:Hr; [|discriminate]. own HI j i. start HI Hs.
  solve_inv HI.
  all: idtac "DELETE REMAINING".
  all: admit.
  Show.
Admitted.

Lemma inv_tau_hasf s i s' :
  Inv s -> exists_b i = true -> a_pc (act s i) = PHasF -> tau fixed reqs s i = Some s' -> Inv s'.
Proof.
  intros HI He Hpc Hs. unfold tau in Hs. rewrite Hpc in Hs.
  destruct (a_ref (act s i)) as [j|] eqn:Hr; [|discriminate]. own HI j i. start HI Hs.
  solve_inv HI.
  all: idtac "HASF REMAINING".
  all: admit.
  Show.
Admitted.

Lemma inv_tau_copy s i s' :
  Inv s -> exists_b i = true -> a_pc (act s i) = PCopy -> tau fixed reqs s i = Some s' -> Inv s'.
Proof.
  intros HI He Hpc Hs. unfold tau in Hs. rewrite Hpc in Hs.
  destruct (a_ref (act s i)) as [j|] eqn:Hr; [|discriminate]. own HI j i.
  destruct (a_hasf (act s i)) eqn:Hh; start HI Hs.
  - solve_inv HI.
    all: idtac "COPY1 REMAINING".
    all: admit.
  - solve_inv HI.
    all: idtac "COPY2 REMAINING".
    all: admit.
  Show.
Admitted.

Lemma inv_close s i s' :
  Inv s -> exists_b i = true -> (a_pc (act s i) = PClose \/ a_pc (act s i) = PFClose) ->
  a_ref (act s i) = Some i -> do_close s i i (act s i) = s' -> Inv s'.
Proof.
  intros HI He Hpc Hr Hs. unfold do_close in Hs.
  pose proof (c_leader _ HI i Hr) as [_ L]. unfold leader_ok, pcof in L.
  assert (Hd : e_done (ent s i) = false) by (destruct Hpc as [Hpc|Hpc]; rewrite Hpc in L; tauto).
  rewrite Hd in Hs. subst s'.
  destruct Hpc as [Hpc|Hpc].
  - solve_inv HI.
    all: idtac "CLOSE1 REMAINING".
    all: admit.
  - solve_inv HI.
    all: idtac "CLOSE2 REMAINING".
    all: admit.
  Show.
Admitted.

Lemma inv_tau_fdelete s i s' :
  Inv s -> exists_b i = true -> a_pc (act s i) = PFDelete -> tau fixed reqs s i = Some s' -> Inv s'.
Proof.
  intros HI He Hpc Hs. unfold tau in Hs. rewrite Hpc in Hs.
  destruct (a_ref (act s i)) as [j|] eqn:Hr; [|discriminate]. own HI j i. start HI Hs.
  solve_inv HI.
  all: idtac "FDELETE REMAINING".
  all: admit.
  Show.
Admitted.

Lemma inv_tau_ferr s i s' :
  Inv s -> exists_b i = true -> a_pc (act s i) = PFErr -> tau fixed reqs s i = Some s' -> Inv s'.
Proof.
  intros HI He Hpc Hs. unfold tau in Hs. rewrite Hpc in Hs.
  destruct (a_ref (act s i)) as [j|] eqn:Hr; [|discriminate]. own HI j i.
  cbn [fix_b fixed andb] in Hs.
  destruct (a_cancel (act s i)) eqn:Hc; start HI Hs.
  - solve_inv HI.
    all: idtac "FERR1 REMAINING".
    all: admit.
  - solve_inv HI.
    all: idtac "FERR2 REMAINING".
    all: admit.
  Show.
Admitted.

End Inv.
