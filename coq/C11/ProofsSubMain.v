(* C11 subgraph: the invariant holds in every reachable state; the property lemmas. *)
From Gv Require Import lib.Bytes C11.Model C11.Spec C11.ProofsSub C11.ProofsSubA C11.ProofsSubB.
From Coq Require Import Arith Lia Bool.
Import Sub.

Section S.
Variable reqs : list req.
Notation rq := (Sub.rq reqs).
Notation exists_b := (Sub.exists_b reqs).
Notation Inv := (Inv reqs).
Notation step := (Sub.step fixed reqs).
Notation run := (Sub.run fixed reqs).

Lemma inv_step s x s' : Inv s -> step s x = Some s' -> Inv s'.
Proof.
  intros HI Hs. unfold Sub.step in Hs.
  destruct (Sub.exists_b reqs (actor_of x)) eqn:He; [|discriminate].
  destruct x as [i|i|i|i w|i|i v]; cbn [actor_of] in He; [| | | | |discriminate].
  - destruct (a_pc (act s i)) eqn:Hpc.
    + eapply inv_tau_start; eauto.
    + eapply inv_tau_y1; eauto.
    + unfold tau in Hs; rewrite Hpc in Hs; discriminate.
    + unfold tau in Hs; rewrite Hpc in Hs; discriminate.
    + eapply inv_tau_publish; eauto.
    + eapply inv_tau_delete; eauto.
    + eapply inv_tau_close; eauto.
    + unfold tau in Hs; rewrite Hpc in Hs; discriminate.
  - eapply inv_wake_done; eauto.
  - eapply inv_wake_ctx; eauto.
  - eapply inv_ans; eauto.
  - destruct (a_cancel (act s i)); [discriminate|]. inversion Hs; subst. apply inv_cancel; auto.
Qed.

Lemma inv_run tr : forall s s' o, Inv s -> run tr s = Some (s', o) -> Inv s'.
Proof.
  induction tr as [|x tr IH]; intros s s' o HI Hr; cbn in Hr.
  - inversion Hr; subst; assumption.
  - destruct (step s x) as [s1|] eqn:Hs; [|discriminate].
    destruct (run tr s1) as [[s2 o2]|] eqn:Hr2; [|discriminate].
    inversion Hr; subst. eapply IH; [|exact Hr2]. eapply inv_step; eauto.
Qed.

Definition reach (s : state) : Prop := exists tr o, run tr init = Some (s, o).

Lemma reach_inv s : reach s -> Inv s.
Proof. intros (tr & o & H). eapply inv_run; [apply inv_init|exact H]. Qed.

Lemma reach_init : reach init.
Proof. exists [], []. reflexivity. Qed.

Lemma run_snoc tr : forall s0 s o x s',
  run tr s0 = Some (s, o) -> step s x = Some s' -> exists o', run (tr ++ [x]) s0 = Some (s', o').
Proof.
  induction tr as [|y tr IH]; intros s0 s o x s' H Hs; cbn in *.
  - inversion H; subst. rewrite Hs. eexists. reflexivity.
  - destruct (step s0 y) as [s1|]; [|discriminate].
    destruct (run tr s1) as [[s2 o2]|] eqn:E; [|discriminate]. inversion H; subst.
    destruct (IH _ _ _ _ _ E Hs) as (o3 & ->). eexists. reflexivity.
Qed.

Lemma reach_step s x s' : reach s -> step s x = Some s' -> reach s'.
Proof.
  intros (tr & o & H) Hs. destruct (run_snoc _ _ _ _ _ _ H Hs) as (o' & H').
  exists (tr ++ [x]), o'. exact H'.
Qed.

Lemma no_double_close_l s i j :
  reach s -> exists_b i = true -> a_pc (act s i) = PClose -> a_ref (act s i) = Some j ->
  it_loaded (itm s j) = false.
Proof.
  intros HR He Hpc Hr. apply reach_inv in HR.
  assert (j = i) by (eapply own_ref; eauto; rewrite Hpc; reflexivity). subst j.
  apply (c_lead_open _ _ HR i Hr). rewrite Hpc; reflexivity.
Qed.

Lemma no_panic_state s i : reach s -> a_out (act s i) <> Some OPanic.
Proof. intros HR. apply (c_out_panic _ _ (reach_inv _ HR)). Qed.

Lemma no_panic_obs_from tr : forall s s' o i,
  Inv s -> run tr s = Some (s', o) -> ~ In (ORet i OPanic) o.
Proof.
  induction tr as [|x tr IH]; intros s s' o i HI Hr; cbn in Hr.
  - inversion Hr; subst. intros [].
  - destruct (step s x) as [s1|] eqn:Hs; [|discriminate].
    destruct (run tr s1) as [[s2 o2]|] eqn:Hr2; [|discriminate].
    inversion Hr; subst. intro Hin. apply in_app_or in Hin as [Hin|Hin].
    + pose proof (inv_step _ _ _ HI Hs) as HI1.
      pose proof (c_out_panic _ _ HI1 (actor_of x)) as P.
      unfold obs_of in Hin.
      destruct (a_out (act s (actor_of x))) as [[k d f|e| |f]|];
        destruct (a_out (act s1 (actor_of x))) as [[k' d' f'|e'| |f']|]; cbn in Hin;
        try contradiction; try (destruct Hin as [Hin|[]]; inversion Hin; subst; congruence).
    + eapply IH; [|exact Hr2|exact Hin]. eapply inv_step; eauto.
Qed.

Lemma no_panic_obs tr s o i : run tr init = Some (s, o) -> ~ In (ORet i OPanic) o.
Proof. apply no_panic_obs_from, inv_init. Qed.

Lemma follower_bytes_l s i k d j :
  reach s -> a_out (act s i) = Some (OWrote k d (Some j)) ->
  j <> i /\ it_resp (itm s j) = Some d /\ a_out (act s j) = Some (OWrote KOk d None) /\
  d = rok (rq j) /\ k = KOk.
Proof.
  intros HR Ho. apply reach_inv in HR.
  destruct (c_out_sh _ _ HR _ _ _ _ Ho) as (N & Hr & Hd & Hk & _).
  destruct (c_resp _ _ HR _ _ Hd) as (Hoj & _).
  destruct (c_out_own _ _ HR _ _ _ Hoj) as (_ & Hb & _).
  repeat split; auto.
Qed.

Lemma shared_key_query_l s i j :
  reach s -> a_ref (act s i) = Some j -> j <> i ->
  rkey (rq i) = rkey (rq j) /\ elig (rq i) = true /\ elig (rq j) = true.
Proof.
  intros HR Hr N. apply reach_inv in HR.
  destruct (c_foll _ _ HR _ _ Hr N) as (Hj & Hk & He & _).
  destruct (c_lead _ _ HR _ Hj) as (Hej & _). auto.
Qed.

Lemma shared_out_ref s i k d j :
  reach s -> a_out (act s i) = Some (OWrote k d (Some j)) -> a_ref (act s i) = Some j /\ j <> i.
Proof.
  intros HR Ho. apply reach_inv in HR.
  destruct (c_out_sh _ _ HR _ _ _ _ Ho) as (N & Hr & _). auto.
Qed.

Lemma err_origin_l s i e :
  reach s -> a_out (act s i) = Some (OErr e) ->
  (e = ECtx i /\ a_cancel (act s i) = true) \/
  (e = EUp i /\ a_ans (act s i) = Some AErrUp) \/
  (exists j, j <> i /\ e = EUp j /\ a_ref (act s i) = Some j /\ a_ans (act s j) = Some AErrUp /\
             rkey (rq i) = rkey (rq j) /\ elig (rq i) = true /\ elig (rq j) = true).
Proof.
  intros HR Ho. pose proof (reach_inv _ HR) as HI. destruct e as [a|a].
  - destruct (c_out_up _ _ HI _ _ Ho) as [(-> & Ha)|(N & Hr & He & _)]; [auto|].
    right; right. exists a. destruct (c_err _ _ HI _ _ He) as (_ & Ha & _).
    destruct (shared_key_query_l _ _ _ HR Hr N) as (? & ? & ?). repeat split; auto.
  - destruct (c_out_ctx _ _ HI _ _ Ho) as (-> & Hc). auto.
Qed.


Lemma transparent_l s i k d f :
  sub_key_determines_body reqs -> reach s -> a_out (act s i) = Some (OWrote k d f) ->
  k = KOk /\ d = rok (rq i).
Proof.
  intros KD HR Ho. pose proof (reach_inv _ HR) as HI. destruct f as [j|].
  - destruct (follower_bytes_l _ _ _ _ _ HR Ho) as (N & _ & _ & Hb & Hk).
    destruct (shared_out_ref _ _ _ _ _ HR Ho) as (Hr & _).
    destruct (shared_key_query_l _ _ _ HR Hr N) as (Hkey & _).
    split; [assumption|]. unfold Sub.rq in *. rewrite (KD _ _ Hkey). assumption.
  - destruct (c_out_own _ _ HI _ _ _ Ho) as (Hk & Hb & _). split; auto.
Qed.

Lemma step_tau_enabled s i :
  Inv s -> exists_b i = true ->
  match a_pc (act s i) with PWait | PLoad | PDone => False | _ => True end ->
  step s (Tau i) <> None.
Proof.
  intros HI He Hp. unfold Sub.step. cbn [actor_of]. rewrite He. unfold tau.
  destruct (a_pc (act s i)) eqn:Hpc; try contradiction.
  - destruct (elig (rq i)); [destruct (tbl s (rkey (rq i)))|]; discriminate.
  - discriminate.
  - destruct (a_ref (act s i)) eqn:Hr.
    + destruct (a_lres (act s i)); [discriminate|]. destruct (fix_b fixed && a_cancel (act s i)); discriminate.
    + pose proof (c_noref _ _ HI i Hr) as X. rewrite Hpc in X. discriminate.
  - destruct (a_ref (act s i)) eqn:Hr; [discriminate|].
    pose proof (c_noref _ _ HI i Hr) as X. rewrite Hpc in X. discriminate.
  - destruct (a_ref (act s i)) eqn:Hr; [destruct (it_loaded (itm s n)); discriminate|].
    pose proof (c_noref _ _ HI i Hr) as X. rewrite Hpc in X. discriminate.
Qed.

(* ---- panics: where an [OCrash] comes from ---- *)
Lemma crash_origin_l s i f :
  reach s -> a_out (act s i) = Some (OCrash f) ->
  (f = None /\ a_ans (act s i) = Some APanic) \/
  (exists j, f = Some j /\ j <> i /\ a_ref (act s i) = Some j /\ a_ans (act s j) = Some APanic /\
             a_out (act s j) = Some (OCrash None) /\
             rkey (rq i) = rkey (rq j) /\ elig (rq i) = true /\ elig (rq j) = true).
Proof.
  intros HR Ho. pose proof (reach_inv _ HR) as HI. destruct f as [j|].
  - right. exists j. destruct (c_out_crash_sh _ _ HI _ _ Ho) as (N & Hr & Hoj & _).
    destruct (shared_key_query_l _ _ _ HR Hr N) as (? & ? & ?).
    pose proof (c_out_crash _ _ HI _ Hoj). repeat split; auto.
  - left. split; [reflexivity|]. apply (c_out_crash _ _ HI _ Ho).
Qed.

(* ---- the registry: a key is registered only while its leader is still inside loadByContext ---- *)
Lemma registry_clean_l s k j :
  reach s -> tbl s k = Some j ->
  exists_b j = true /\ a_ref (act s j) = Some j /\ rkey (rq j) = k /\ a_pc (act s j) <> PDone /\
  it_loaded (itm s j) = false.
Proof.
  intros HR Ht. pose proof (reach_inv _ HR) as HI.
  destruct (c_tbl _ _ HI _ _ Ht) as (Hr & Hp & Hk).
  assert (He : exists_b j = true).
  { destruct (Sub.exists_b reqs j) eqn:E; [reflexivity|]. rewrite (c_absent _ _ HI j E) in Hr. discriminate. }
  repeat split; auto.
  - intro X. rewrite X in Hp. discriminate.
  - apply (c_lead_open _ _ HI j Hr). destruct (a_pc (act s j)); cbn in *; congruence.
Qed.

Lemma quiescent_registry_empty_l s :
  reach s -> (forall i, exists_b i = true -> a_pc (act s i) = PDone) -> forall k, tbl s k = None.
Proof.
  intros HR Hall k. destruct (tbl s k) as [j|] eqn:Ht; [|reflexivity].
  destruct (registry_clean_l _ _ _ HR Ht) as (He & _ & _ & Hn & _). exfalso. apply Hn, Hall, He.
Qed.

(* a leader that has left (in whatever way: returned, failed, panicked) has released its item *)
Lemma leader_gone_released_l s j :
  reach s -> a_ref (act s j) = Some j -> a_pc (act s j) = PDone ->
  it_loaded (itm s j) = true /\ forall k, tbl s k <> Some j.
Proof.
  intros HR Hr Hp. pose proof (reach_inv _ HR) as HI. split.
  - apply (c_lead_done _ _ HI j Hr Hp).
  - intros k Ht. destruct (registry_clean_l _ _ _ HR Ht) as (_ & _ & _ & Hn & _). contradiction.
Qed.

Definition is_panic (x : action) : bool :=
  match x with Ans _ APanic | Wr _ WPanic => true | _ => false end.

Lemma step_ans_enabled s i :
  exists_b i = true -> a_pc (act s i) = PLoad -> step s (Ans i AOk) <> None.
Proof.
  intros He Hpc. unfold Sub.step. cbn [actor_of]. rewrite He. unfold ans. rewrite Hpc. discriminate.
Qed.

Lemma exists_of_moved s i : Inv s -> a_pc (act s i) <> PStart -> exists_b i = true.
Proof.
  intros HI Hp. destruct (Sub.exists_b reqs i) eqn:He; [reflexivity|].
  rewrite (c_absent _ _ HI i He) in Hp. cbn in Hp. congruence.
Qed.

Lemma progress_benign_l s :
  reach s -> (exists i, exists_b i = true /\ a_pc (act s i) <> PDone) ->
  exists x, is_cancel x = false /\ is_panic x = false /\ step s x <> None.
Proof.
  intros HR (i & He & Hnd). pose proof (reach_inv _ HR) as HI.
  destruct (a_pc (act s i)) eqn:Hpc; try congruence;
    try (exists (Tau i); split; [reflexivity|split; [reflexivity|apply step_tau_enabled; auto; rewrite Hpc; exact I]]).
  - (* PWait *)
    destruct (a_ref (act s i)) as [j|] eqn:Hr.
    2:{ pose proof (c_noref _ _ HI i Hr) as X. rewrite Hpc in X. discriminate. }
    assert (N : j <> i).
    { intro; subst. destruct (c_lead _ _ HI i Hr) as [_ L]. rewrite Hpc in L. discriminate. }
    destruct (it_loaded (itm s j)) eqn:Hd.
    + exists (WakeDone i). split; [reflexivity|]. split; [reflexivity|].
      unfold Sub.step. cbn [actor_of]. rewrite He. unfold wake_done. rewrite Hpc, Hr, Hd.
      destruct (it_abandoned (itm s j)); [discriminate|].
      destruct (it_err (itm s j)); [discriminate|]. destruct (it_resp (itm s j)); discriminate.
    + destruct (c_foll _ _ HI _ _ Hr N) as (Hj & _).
      destruct (c_lead _ _ HI _ Hj) as (_ & Lp).
      assert (Hjd : a_pc (act s j) <> PDone).
      { intro X. rewrite (c_lead_done _ _ HI _ Hj X) in Hd. discriminate. }
      assert (Hje : exists_b j = true).
      { apply (exists_of_moved s j); auto. intro X. rewrite X in Lp. discriminate. }
      destruct (a_pc (act s j)) eqn:Hpj; try discriminate; try congruence;
        try (exists (Tau j); split; [reflexivity|split; [reflexivity|apply step_tau_enabled; auto; rewrite Hpj; exact I]]).
      exists (Ans j AOk). split; [reflexivity|split; [reflexivity|apply (step_ans_enabled s j); auto]].
  - exists (Ans i AOk). split; [reflexivity|split; [reflexivity|apply (step_ans_enabled s i); auto]].
Qed.

Lemma progress_l s :
  reach s -> (exists i, exists_b i = true /\ a_pc (act s i) <> PDone) ->
  exists x, is_cancel x = false /\ step s x <> None.
Proof.
  intros HR H. destruct (progress_benign_l s HR H) as (x & ? & _ & ?). exists x. auto.
Qed.

Lemma returned_iff_outcome s i :
  reach s -> (a_pc (act s i) = PDone -> a_out (act s i) <> None) /\
             (a_out (act s i) = None -> run_pc (a_pc (act s i)) = true).
Proof.
  intros HR. pose proof (reach_inv _ HR) as HI. split.
  - intros Hp. apply (c_nrun _ _ HI). rewrite Hp. reflexivity.
  - intros Ho. destruct (run_pc (a_pc (act s i))) eqn:E; [reflexivity|].
    exfalso. apply (c_nrun _ _ HI i E Ho).
Qed.

End S.
