(* C16 property theorems: statements only; every proof is [exact lemma]. *)
From Gv Require Import lib.Bytes C16.Model C16.Spec C16.Proofs C16.ProofsSound gen.Anchors_C16.
From Coq Require Import ZArith.

Theorem c16_anchors :
  anchor_directives = [d_max_age; d_s_maxage; d_no_store; d_public; d_no_cache; d_private]
  /\ anchor_invalid_tokchars = invalid_tokchars
  /\ anchor_trim_cutset = [9; 13; 10]%N
  /\ anchor_join_sep = [44]%N
  /\ anchor_ctl_hi = 31%N /\ anchor_ctl_del = 127%N.
Proof. exact anchors_ok. Qed.
Print Assumptions c16_anchors.

Theorem c16_ttl_positive : forall h d t, ttl h d = Some t -> (0 < t)%Z.
Proof. exact ttl_positive. Qed.
Print Assumptions c16_ttl_positive.

Theorem c16_ttl_sound_rfc_refuted :
  exists h d t, ttl h d = Some t /\ has_directive true n_no_store h = true.
Proof. exact ttl_sound_rfc_refuted_proof. Qed.
Print Assumptions c16_ttl_sound_rfc_refuted.

Theorem c16_ttl_sound_dialect :
  forall (h : list bytes) (d : Z), storable_ok false h d (ttl h d).
Proof. exact ttl_sound_dialect. Qed.
Print Assumptions c16_ttl_sound_dialect.

Theorem c16_readings_agree :
  forall h : list bytes, no_backslash h = true -> elements true h = elements false h.
Proof. exact readings_agree. Qed.
Print Assumptions c16_readings_agree.

Theorem c16_ttl_sound_rfc_no_backslash :
  forall (h : list bytes) (d : Z), no_backslash h = true -> storable_ok true h d (ttl h d).
Proof. exact ttl_sound_rfc_no_backslash. Qed.
Print Assumptions c16_ttl_sound_rfc_no_backslash.

Theorem c16_trim_fuel_ok :
  forall s : bytes,
    strip_space_prefix (trim_left (length s) s) = None /\
    strip_space_suffix_rev (trim_right_rev (length s) s) = None /\
    (let l := trim_left (length s) s in
     strip_space_suffix_rev (trim_right_rev (length l) (rev l)) = None).
Proof. exact trim_space_fuel_ok. Qed.
Print Assumptions c16_trim_fuel_ok.
