(* C16(a): what "honours Cache-Control" means, written without reference to the Go lexer.
   A header value list is read as: join the lines with ",", split at commas that are outside
   quoted strings, trim optional white space around each element, the directive name is the
   case-folded prefix of the element up to "=" or white space.
   Two readings of quoting are given:
     - [Dialect]: every DQUOTE toggles (the implementation's documented choice "D18: quoted-pair
       is not supported");
     - [Rfc]: RFC 9110 quoted-string with backslash quoted-pairs.
   They coincide on headers without a backslash (theorem [readings_agree]). *)
From Gv Require Import lib.Bytes.
From Coq Require Import ZArith.
Open Scope N_scope.

Definition sp_ws (b : byte) : bool := (b =? 32) || (b =? 9) || (b =? 13) || (b =? 10).

(* split at top-level commas.  [esc] is only used by the RFC reading. *)
Fixpoint split_top (rfc : bool) (inq esc : bool) (cur_rev : bytes) (s : bytes) : list bytes :=
  match s with
  | [] => [rev cur_rev]
  | b :: r =>
    if inq then
      if esc then split_top rfc true false (b :: cur_rev) r
      else if rfc && (b =? 92) then split_top rfc true true (b :: cur_rev) r
      else if b =? 34 then split_top rfc false false (b :: cur_rev) r
      else split_top rfc true false (b :: cur_rev) r
    else
      if b =? 44 then rev cur_rev :: split_top rfc false false [] r
      else if b =? 34 then split_top rfc true false (b :: cur_rev) r
      else split_top rfc false false (b :: cur_rev) r
  end.

Fixpoint sp_join (l : list bytes) : bytes :=
  match l with
  | [] => []
  | [x] => x
  | x :: r => x ++ 44 :: sp_join r
  end.

Fixpoint sp_drop_ws (s : bytes) : bytes :=
  match s with
  | b :: r => if sp_ws b then sp_drop_ws r else s
  | [] => []
  end.
Fixpoint sp_take_name (s : bytes) : bytes :=
  match s with
  | b :: r => if sp_ws b || (b =? 61) then [] else to_lower b :: sp_take_name r
  | [] => []
  end.
Fixpoint sp_after_name (s : bytes) : bytes :=
  match s with
  | b :: r => if sp_ws b || (b =? 61) then s else sp_after_name r
  | [] => []
  end.
Definition elem_name (e : bytes) : bytes := sp_take_name (sp_drop_ws e).

Definition elements (rfc : bool) (h : list bytes) : list bytes := split_top rfc false false [] (sp_join h).
Definition has_directive (rfc : bool) (name : bytes) (h : list bytes) : bool :=
  existsb (fun e => bytes_eqb (elem_name e) name) (elements rfc h).

Definition n_public : bytes := [112;117;98;108;105;99].
Definition n_no_store : bytes := [110;111;45;115;116;111;114;101].
Definition n_no_cache : bytes := [110;111;45;99;97;99;104;101].
Definition n_private : bytes := [112;114;105;118;97;116;101].
Definition n_max_age : bytes := [109;97;120;45;97;103;101].
Definition n_s_maxage : bytes := [115;45;109;97;120;97;103;101].

(* delta-seconds carried by an element: name OWS "=" OWS [DQUOTE] 1*DIGIT [DQUOTE] OWS ; anything
   else counts as 0 seconds (already stale). *)
Definition sp_strip_quotes (s : bytes) : bytes :=
  match s with
  | 34 :: r => match rev r with 34 :: m => rev m | _ => s end
  | _ => s
  end.
Definition elem_seconds (e : bytes) : N :=
  match sp_drop_ws (sp_after_name (sp_drop_ws e)) with
  | 61 :: r =>
    let v := sp_strip_quotes (rev (sp_drop_ws (rev (sp_drop_ws r)))) in
    match v with
    | [] => 0
    | _ => if forallb is_digit v then dec_value v else 0
    end
  | _ => 0
  end.

Definition first_with (rfc : bool) (name : bytes) (h : list bytes) : option bytes :=
  find (fun e => bytes_eqb (elem_name e) name) (elements rfc h).

(* lifetime in nanoseconds: first s-maxage, else first max-age, else the default *)
Definition lifetime_ns (rfc : bool) (h : list bytes) (default_ns : Z) : Z :=
  match first_with rfc n_s_maxage h with
  | Some e => (Z.of_N (elem_seconds e) * 1000000000)%Z
  | None =>
    match first_with rfc n_max_age h with
    | Some e => (Z.of_N (elem_seconds e) * 1000000000)%Z
    | None => default_ns
    end
  end.

(* The storability contract for one TTL verdict. *)
Definition storable_ok (rfc : bool) (h : list bytes) (default_ns : Z) (verdict : option Z) : Prop :=
  match verdict with
  | None => True
  | Some t =>
    has_directive rfc n_public h = true /\
    has_directive rfc n_no_store h = false /\
    has_directive rfc n_no_cache h = false /\
    has_directive rfc n_private h = false /\
    (0 < t)%Z /\ (t <= lifetime_ns rfc h default_ns)%Z
  end.

Definition storable_ok_b (rfc : bool) (h : list bytes) (default_ns : Z) (verdict : option Z) : bool :=
  match verdict with
  | None => true
  | Some t =>
    has_directive rfc n_public h &&
    negb (has_directive rfc n_no_store h) &&
    negb (has_directive rfc n_no_cache h) &&
    negb (has_directive rfc n_private h) &&
    (0 <? t)%Z && (t <=? lifetime_ns rfc h default_ns)%Z
  end.

Definition no_backslash (h : list bytes) : bool := forallb (forallb (fun b => negb (b =? 92))) h.
