From Gv Require Import lib.Bytes C16.Model C16.Spec.
From Coq Require Import ZArith.
Require Import ExtrOcamlBasic.
Extraction Language OCaml.
Extraction "model.ml" parse_cache_control ttl storable_ok_b has_directive no_backslash
  n_public n_no_store n_no_cache n_private lifetime_ns.
