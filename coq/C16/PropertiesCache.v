(* C16 part (b) property theorems: statements only; every proof is [exact lemma].
   (Part (a), the Cache-Control parser and TTL, is in Properties.v.) *)
From Gv Require Import lib.Bytes lib.Json C02.Model C07.Model C16.Model C16.Spec C16.ModelCache C16.ProofsCache.
From Coq Require Import ZArith.
Open Scope N_scope.

(* For every history of client requests (response plan + fetch tree each), pointwise deterministic
   subgraphs, every assignment of Cache-Control values to subgraph responses, every default TTL and
   every sequence of cache faults (Get error, Set error, partial Set, evictions = partial hits):
   the outcomes (data bytes, errors, failure) with the cache are those without it.  In particular a
   cache fault never fails a request. *)
Theorem c16_cache_transparent :
  forall (answer : bytes -> bytes -> bytes -> json * list json) (root_answer : bytes -> json * list json)
         (headers : nat -> N -> list bytes) (cfaults : nat -> cfault) (default_ttl : Z) (h : list (node * ftree)),
    fst (run_history (exchange_cache (pw_oracle answer root_answer) headers cfaults default_ttl) h init_cstate) =
    fst (run_history (exchange_plain (pw_oracle answer root_answer) headers) h init_cstate).
Proof. exact cache_transparent_proof. Qed.
Print Assumptions c16_cache_transparent.

(* Every entity ever handed to SetMany -- for ANY subgraph behaviour -- was taken from an upstream
   response of the history that is error free and < 400, under one of that request's keys, and with
   the lifetime part (a)'s [ttl] computes from that response's Cache-Control values; by part (a)
   ([c16_ttl_sound_dialect]) that means: public, no no-store / no-cache / private, lifetime positive
   and within s-maxage / max-age / the default. *)
Theorem c16_stored_implies_storable :
  forall (oracle : request -> response) (headers : nat -> N -> list bytes) (cfaults : nat -> cfault) (default_ttl : Z)
         (h : list (node * ftree)),
    let x := snd (run_history (exchange_cache oracle headers cfaults default_ttl) h init_cstate) in
    forall items stored err e, In (OpSet items stored err) (cs_log x) -> In e items ->
    exists run rq res, In (run, rq, res) (cs_upstream x) /\ stored_from default_ttl e rq res.
Proof. exact stored_implies_storable_proof. Qed.
Print Assumptions c16_stored_implies_storable.

(* A request is answered entirely from the cache (one value per representation) or sent upstream
   whole: a partial hit, a miss and a Get error all trigger the full request. *)
Theorem c16_all_or_nothing :
  forall (oracle : request -> response) (headers : nat -> N -> list bytes) (cfaults : nat -> cfault) (default_ttl : Z)
         (x : cstate) (rq : request),
    let r := exchange_cache oracle headers cfaults default_ttl x rq in
    cs_upstream (snd r) = cs_upstream x ++ [(cs_run x, rq, fst r)] \/
    (cs_upstream (snd r) = cs_upstream x /\ rq_reps rq <> [] /\
     exists vals, fst r = entities_response vals /\ length vals = length (rq_reps rq)).
Proof. exact all_or_nothing_proof. Qed.
Print Assumptions c16_all_or_nothing.

(* ---- non-vacuity: a two-request history over one plan (root fetch + entity fetch) in which the
   entity is stored by the first request and served from the cache by the second ---- *)
From Coq Require Import String Ascii.
Definition bs (s : string) : bytes := List.map (fun a => N_of_ascii a) (list_ascii_of_string s).

Definition ex_rep : node :=
  NObj [] true [] [] [] false
    [Fld (bs "__typename") (Some [bs "A"]) None None (NStr [bs "__typename"] false);
     Fld (bs "id") (Some [bs "A"]) None None (NStr [bs "id"] false)].
Definition ex_root_fetch : fetch :=
  {| f_id := 0; f_kind := FSingle; f_ds := bs "s0"; f_path := []; f_deps := []; f_rep := NNull;
     f_header := bs "{a{__typename id}}"; f_footer := []; f_datapath := [PName k_data]; f_mergepath := [] |}.
Definition ex_entity_fetch : fetch :=
  {| f_id := 1; f_kind := FEntity; f_ds := bs "s1"; f_path := [{| pe_path := [bs "a"]; pe_types := [] |}]; f_deps := [0];
     f_rep := ex_rep; f_header := bs "{_entities(r:["; f_footer := bs "]){x}}";
     f_datapath := [PName k_data; PName k_entities; PIdx 0]; f_mergepath := [] |}.
Definition ex_tree : ftree := FTSeq [FTSingle ex_root_fetch; FTSingle ex_entity_fetch].
Definition ex_root : node :=
  NObj [] false (bs "Query") [] [] false
    [Fld (bs "a") None None None (NObj [bs "a"] true (bs "A") [] [] false [Fld (bs "x") None None None (NStr [bs "x"] false)])].
Definition ex_answer (h f rep : bytes) : json * list json := (JObj [(bs "__typename", JStr (bs "A")); (bs "x", JStr (bs "v"))], []).
Definition ex_root_answer (h : bytes) : json * list json :=
  (JObj [(bs "a", JObj [(bs "__typename", JStr (bs "A")); (bs "id", JStr (bs "1"))])], []).
Definition ex_final : list outcome * cstate :=
  run_history (exchange_cache (pw_oracle ex_answer ex_root_answer) (fun _ _ => [bs "public, max-age=60"]) (fun _ => CFNone) 0%Z)
              [(ex_root, ex_tree); (ex_root, ex_tree)] init_cstate.

Example c16_cache_example :
  List.map (fun o => r_data (o_resolved o)) (fst ex_final) = [bs "{""a"":{""x"":""v""}}"; bs "{""a"":{""x"":""v""}}"] /\
  List.length (cs_upstream (snd ex_final)) = 3%nat /\           (* root, entity, root: the second entity request is a cache hit *)
  List.map (fun op => match op with OpGet _ f _ => List.length f | OpSet i _ _ => List.length i end) (cs_log (snd ex_final)) = [0; 1; 1]%nat /\
  List.map ce_ttl (cs_cache (snd ex_final)) = [60000000000%Z].
Proof. vm_compute. repeat split. Qed.
