(* C16(a): soundness of the TTL verdict against the specification (dialect reading), agreement
   of the two readings on headers without a backslash, and the fuel of TrimSpace. *)
From Gv Require Import lib.Bytes C16.Model C16.Spec C16.Proofs
     C16.ProofsLex C16.ProofsElem C16.ProofsParse.
From Coq Require Import ZArith Lia ZifyBool ZifyN.
Open Scope N_scope.

(* ---- strings.Trim(s, "\t\r\n") only removes white space at both ends ---- *)
Lemma drop_while_split {A} (p : A -> bool) (l : list A) :
  exists pre, l = pre ++ drop_while p l /\ forallb p pre = true.
Proof.
  induction l as [|x l (pre & IH1 & IH2)]; simpl.
  - exists []. auto.
  - destruct (p x) eqn:E.
    + exists (x :: pre). simpl. rewrite E, IH2. rewrite <- IH1. auto.
    + exists []. auto.
Qed.

Lemma cutset_allws s : forallb in_cutset s = true -> allws s = true.
Proof.
  unfold allws. rewrite !forallb_forall. intros H x Hx. specialize (H x Hx).
  unfold in_cutset, sp_ws in *. lia.
Qed.

Lemma trim_cutset_frame s :
  exists pre post, s = pre ++ trim_cutset s ++ post /\ allws pre = true /\ allws post = true.
Proof.
  unfold trim_cutset.
  destruct (drop_while_split in_cutset s) as (p1 & E1 & F1).
  destruct (drop_while_split in_cutset (rev (drop_while in_cutset s))) as (p2 & E2 & F2).
  exists p1, (rev p2). repeat split.
  - rewrite <- rev_app_distr, <- E2, rev_involutive. exact E1.
  - apply cutset_allws. exact F1.
  - apply allws_rev. apply cutset_allws. exact F2.
Qed.

(* ---- from the model's parse to tokens of the untrimmed joined string ---- *)
Lemma pcc_lexT h c :
  parse_cache_control h = Some c ->
  exists ts, lexT LStart (sp_join h) = Some ts /\ parse_toks ts cc_empty = Some c.
Proof.
  unfold parse_cache_control. change (join_comma h) with (sp_join h).
  destruct (trim_cutset_frame (sp_join h)) as (pre & post & E & Hpre & Hpost).
  destruct (trim_cutset (sp_join h)) as [|b v] eqn:Ev.
  - intros H; inversion H; subst. exists []. split; [|reflexivity].
    rewrite E. rewrite lexT_skip_ws by exact Hpre. apply allws_lexT_start. exact Hpost.
  - unfold parse, tokenize. destruct (lex LStart (b :: v) []) as [ts|] eqn:El; simpl; [|discriminate].
    intros H. exists ts. split; [|exact H]. rewrite E. apply lex_lexT_framed; assumption.
Qed.

(* ---- elements against groups ---- *)
Definition R2 (e : bytes) (g : list tok) : Prop :=
  elem_name e = gnm g /\
  forall s, garg g = Some s -> s <> [] -> forallb is_digit s = true -> elem_seconds e = dec_value s.

Lemma Forall2_R2 es gs : Forall2 R es gs -> forallb shape gs = true -> Forall2 R2 es gs.
Proof.
  induction 1 as [|e g es gs [H1 H2] HF IH]; intros Hs; [constructor|].
  simpl in Hs. apply andb_prop in Hs as [Hs1 Hs2]. constructor; [|auto].
  split.
  - apply elem_name_group; auto. apply shape_headok; exact Hs1.
  - intros s Hg Hne Hd. eapply elem_seconds_group; eauto.
Qed.

Lemma existsb_transfer nm es gs : Forall2 R2 es gs ->
  existsb (fun e => bytes_eqb (elem_name e) nm) es = existsb (named nm) gs.
Proof.
  induction 1 as [|e g es gs [H1 H2] HF IH]; [reflexivity|].
  simpl. unfold named at 1. rewrite H1, IH. reflexivity.
Qed.

Lemma find_transfer nm es gs : Forall2 R2 es gs ->
  match find (fun e => bytes_eqb (elem_name e) nm) es, find (named nm) gs with
  | Some e, Some g => R2 e g
  | None, None => True
  | _, _ => False
  end.
Proof.
  induction 1 as [|e g es gs HR HF IH]; [exact I|].
  simpl. change (named nm g) with (bytes_eqb (gnm g) nm). destruct HR as [H1 H2]. rewrite H1.
  destruct (bytes_eqb (gnm g) nm); [split; assumption|exact IH].
Qed.

Lemma parse_groups h c :
  parse_cache_control h = Some c ->
  exists gs, Forall2 R2 (elements false h) gs /\ fold_groups gs cc_empty = Some c.
Proof.
  intros H. destruct (pcc_lexT h c H) as (ts & Hl & Hp).
  exists (split_toks ts).
  assert (Hf : fold_groups (split_toks ts) cc_empty = Some c).
  { apply (parse_toks_fold (length ts)); [lia|exact Hp]. }
  split; [|exact Hf]. apply Forall2_R2; [apply lexT_elements; exact Hl|].
  apply (fold_shape _ _ _ Hf).
Qed.

Lemma age_le s : (Z.of_N (N.min (dec_value s) max_int32) * second <= Z.of_N (dec_value s) * 1000000000)%Z.
Proof. unfold second. lia. Qed.

(* ---- 1. soundness under the dialect reading ---- *)
Theorem ttl_sound_dialect : forall (h : list bytes) (d : Z), storable_ok false h d (ttl h d).
Proof.
  intros h d. unfold storable_ok. destruct (ttl h d) as [t|] eqn:Ht; [|exact I].
  pose proof (ttl_positive h d t Ht) as Hpos.
  unfold ttl in Ht. destruct (parse_cache_control h) as [c|] eqn:Hp; [|discriminate].
  destruct (no_store c) eqn:Hns; [discriminate|].
  destruct (no_cache c) eqn:Hnc; [discriminate|].
  destruct (is_private c) eqn:Hpr; [discriminate|].
  destruct (is_public c) eqn:Hpub; simpl in Ht; [|discriminate].
  destruct (parse_groups h c Hp) as (gs & F2 & Hf).
  unfold has_directive, lifetime_ns, first_with.
  rewrite !(existsb_transfer _ _ _ F2).
  split; [|split; [|split; [|split; [|split]]]].
  - destruct (fold_public _ _ _ Hf Hpub) as [H|H]; [discriminate|exact H].
  - destruct (existsb (named n_no_store) gs) eqn:E; [|reflexivity].
    assert (no_store c = true) by (apply (fold_no_store _ _ _ Hf); right; exact E). congruence.
  - destruct (existsb (named n_no_cache) gs) eqn:E; [|reflexivity].
    assert (no_cache c <> None) by (apply (fold_no_cache _ _ _ Hf); right; exact E). congruence.
  - destruct (existsb (named n_private) gs) eqn:E; [|reflexivity].
    assert (is_private c <> None) by (apply (fold_private _ _ _ Hf); right; exact E). congruence.
  - exact Hpos.
  - pose proof (fold_s_maxage _ _ _ Hf) as Hs. pose proof (fold_max_age _ _ _ Hf) as Hm.
    unfold age_result in Hs, Hm. simpl in Hs, Hm.
    pose proof (find_transfer n_s_maxage _ _ F2) as Ts.
    pose proof (find_transfer n_max_age _ _ F2) as Tm.
    change d_s_maxage with n_s_maxage in Hs. change d_max_age with n_max_age in Hm.
    destruct (find (named n_s_maxage) gs) as [g|].
    + destruct (find (fun e => bytes_eqb (elem_name e) n_s_maxage) (elements false h)) as [e|]; [|tauto].
      destruct Hs as (s & Hg & Hne & Hd & Hv). rewrite Hv in Ht.
      destruct (_ =? 0); [discriminate|]. inversion Ht; subst t.
      destruct Ts as [_ Ts]. rewrite (Ts s Hg Hne Hd). apply age_le.
    + destruct (find (fun e => bytes_eqb (elem_name e) n_s_maxage) (elements false h)) as [e|]; [tauto|].
      rewrite Hs in Ht.
      destruct (find (named n_max_age) gs) as [g|].
      * destruct (find (fun e => bytes_eqb (elem_name e) n_max_age) (elements false h)) as [e|]; [|tauto].
        destruct Hm as (s & Hg & Hne & Hd & Hv). rewrite Hv in Ht.
        destruct (_ =? 0); [discriminate|]. inversion Ht; subst t.
        destruct Tm as [_ Tm]. rewrite (Tm s Hg Hne Hd). apply age_le.
      * destruct (find (fun e => bytes_eqb (elem_name e) n_max_age) (elements false h)) as [e|]; [tauto|].
        rewrite Hm in Ht. destruct (d <=? 0)%Z; [discriminate|]. inversion Ht; subst t. lia.
Qed.

(* ---- 2. the two readings agree when there is no backslash ---- *)
Lemma split_top_no_backslash s : forall inq cur,
  forallb (fun b => negb (b =? 92)) s = true ->
  split_top true inq false cur s = split_top false inq false cur s.
Proof.
  induction s as [|b r IH]; intros inq cur H; [reflexivity|].
  simpl in H. apply andb_prop in H as [H1 H2]. apply negb_true_iff in H1.
  simpl. rewrite H1. simpl.
  destruct inq; [destruct (b =? 34)|destruct (b =? 44); [|destruct (b =? 34)]];
    rewrite ?IH by exact H2; reflexivity.
Qed.

Lemma sp_join_no_backslash h :
  no_backslash h = true -> forallb (fun b => negb (b =? 92)) (sp_join h) = true.
Proof.
  unfold no_backslash. induction h as [|x r IH]; intros H; [reflexivity|].
  simpl in H. apply andb_prop in H as [H1 H2].
  destruct r as [|y r']; [exact H1|].
  change (sp_join (x :: y :: r')) with (x ++ 44 :: sp_join (y :: r')).
  rewrite forallb_app. apply andb_true_intro. split; [exact H1|]. simpl. apply IH. exact H2.
Qed.

Theorem readings_agree : forall h, no_backslash h = true -> elements true h = elements false h.
Proof.
  intros h H. unfold elements. apply split_top_no_backslash. apply sp_join_no_backslash. exact H.
Qed.

Corollary ttl_sound_rfc_no_backslash :
  forall (h : list bytes) (d : Z), no_backslash h = true -> storable_ok true h d (ttl h d).
Proof.
  intros h d H. pose proof (ttl_sound_dialect h d) as S.
  unfold storable_ok, has_directive, lifetime_ns, first_with in *.
  rewrite (readings_agree h H). exact S.
Qed.

(* ---- 3. the fuel of TrimSpace suffices ---- *)
Ltac strip_crush :=
  repeat match goal with
  | |- None = Some _ -> _ => discriminate
  | |- Some _ = Some _ -> _ =>
    let H := fresh "H" in intros H; inversion H; subst; simpl; lia
  | |- (if ?c then _ else _) = Some _ -> _ => destruct c
  | |- match ?x with _ => _ end = Some _ -> _ => destruct x
  end.

Lemma strip_prefix_shorter s r : strip_space_prefix s = Some r -> (length r < length s)%nat.
Proof. unfold strip_space_prefix. strip_crush. Qed.

Lemma strip_suffix_shorter s r : strip_space_suffix_rev s = Some r -> (length r < length s)%nat.
Proof. unfold strip_space_suffix_rev. strip_crush. Qed.

Lemma trim_left_fuel fuel : forall s, (length s <= fuel)%nat ->
  strip_space_prefix (trim_left fuel s) = None.
Proof.
  induction fuel as [|f IH]; intros s Hl.
  - destruct s; [reflexivity|simpl in Hl; lia].
  - simpl. destruct (strip_space_prefix s) as [r|] eqn:E; [|exact E].
    apply IH. apply strip_prefix_shorter in E. lia.
Qed.

Lemma trim_right_fuel fuel : forall s, (length s <= fuel)%nat ->
  strip_space_suffix_rev (trim_right_rev fuel s) = None.
Proof.
  induction fuel as [|f IH]; intros s Hl.
  - destruct s; [reflexivity|simpl in Hl; lia].
  - simpl. destruct (strip_space_suffix_rev s) as [r|] eqn:E; [|exact E].
    apply IH. apply strip_suffix_shorter in E. lia.
Qed.

Lemma trim_space_fuel_ok : forall s : bytes,
  strip_space_prefix (trim_left (length s) s) = None /\
  strip_space_suffix_rev (trim_right_rev (length s) s) = None /\
  (let l := trim_left (length s) s in
   strip_space_suffix_rev (trim_right_rev (length l) (rev l)) = None).
Proof.
  intros s. split; [|split].
  - apply trim_left_fuel. lia.
  - apply trim_right_fuel. lia.
  - intros l. apply trim_right_fuel. rewrite rev_length. lia.
Qed.

(* ---- 4. the statements are not vacuous ---- *)
(* two header lines:   public, ext="a,b"   and   s-maxage = "60"   *)
Definition sound_witness : list bytes :=
  [[112;117;98;108;105;99;44;32;101;120;116;61;34;97;44;98;34];
   [115;45;109;97;120;97;103;101;32;61;32;34;54;48;34]].

Example ttl_sound_witness :
  ttl sound_witness 5%Z = Some 60000000000%Z
  /\ no_backslash sound_witness = true
  /\ storable_ok_b false sound_witness 5%Z (ttl sound_witness 5%Z) = true
  /\ storable_ok_b true sound_witness 5%Z (ttl sound_witness 5%Z) = true
  /\ length (elements false sound_witness) = 3%nat.
Proof. vm_compute. repeat split; reflexivity. Qed.
