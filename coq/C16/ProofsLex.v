(* C16(a): the lexer against the specification's element splitting.
   [lexT] is a forward (accumulator-free on the token side) and slightly more permissive
   restatement of [Model.lex]: CR/LF count as white space outside strings and nothing is
   forbidden.  Whenever [Model.lex] succeeds on the trimmed string, [lexT] yields the same
   tokens on the untrimmed one.  The tokens, split at [TComma], correspond one to one to the
   elements of [Spec.split_top false], each element lexing (alone) to its token group. *)
From Gv Require Import lib.Bytes C16.Model C16.Spec.
From Coq Require Import ZArith Lia ZifyBool ZifyN.
Open Scope N_scope.

Local Arguments N.eqb : simpl never.
Local Arguments N.leb : simpl never.
Local Arguments sp_ws : simpl never.
Local Arguments is_ws : simpl never.
Local Arguments is_forbidden : simpl never.
Local Arguments is_printable : simpl never.
Local Arguments is_invalid_tokchar : simpl never.
Local Arguments to_lower : simpl never.

(* ---- byte facts ---- *)
Lemma ws_not_sep b : sp_ws b = true -> (b =? 61) = false /\ (b =? 44) = false /\ (b =? 34) = false.
Proof. unfold sp_ws. lia. Qed.

Lemma ws_agree b : is_forbidden b = false -> sp_ws b = is_ws b.
Proof. unfold sp_ws, is_ws, is_forbidden, is_ctl. lia. Qed.

Lemma tokchar_plain b :
  negb (is_printable b) || is_invalid_tokchar b = false ->
  sp_ws b = false /\ (b =? 61) = false /\ (b =? 44) = false /\ (b =? 34) = false.
Proof.
  unfold sp_ws, is_printable, is_invalid_tokchar, invalid_tokchars. simpl existsb. lia.
Qed.

Lemma digit_plain b : is_digit b = true -> sp_ws b = false /\ (b =? 34) = false.
Proof. unfold is_digit, sp_ws. lia. Qed.

Definition allws (s : bytes) : bool := forallb sp_ws s.

(* ---- the forward lexer ---- *)
Definition otc (t : tok) (o : option (list tok)) : option (list tok) :=
  match o with Some l => Some (t :: l) | None => None end.

Fixpoint lexT (st : lstate) (s : bytes) : option (list tok) :=
  match s with
  | [] =>
    match st with
    | LStart => Some []
    | LIdent acc => Some [TIdent (rev acc)]
    | LString _ => None
    end
  | b :: r =>
    match st with
    | LStart =>
      if sp_ws b then lexT LStart r
      else if b =? 61 then otc TEquals (lexT LStart r)
      else if b =? 44 then otc TComma (lexT LStart r)
      else if b =? 34 then lexT (LString []) r
      else lexT (LIdent [b]) r
    | LIdent acc =>
      if b =? 44 then otc (TIdent (rev acc)) (otc TComma (lexT LStart r))
      else if b =? 61 then otc (TIdent (rev acc)) (otc TEquals (lexT LStart r))
      else if sp_ws b then otc (TIdent (rev acc)) (lexT LStart r)
      else if negb (is_printable b) || is_invalid_tokchar b then None
      else lexT (LIdent (b :: acc)) r
    | LString acc =>
      if b =? 34 then otc (TString (rev acc)) (lexT LStart r)
      else lexT (LString (b :: acc)) r
    end
  end.

Lemma otc_some t o l : otc t o = Some l -> exists l', o = Some l' /\ l = t :: l'.
Proof. destruct o as [l'|]; simpl; intros H; inversion H. exists l'. auto. Qed.

Ltac otc_inv :=
  repeat match goal with
  | H : otc _ _ = Some _ |- _ =>
    let l := fresh "l" in let E := fresh "E" in let Q := fresh "Q" in
    apply otc_some in H as (l & E & Q); inversion Q; clear Q; subst
  end.

Lemma allws_lexT_start post : allws post = true -> lexT LStart post = Some [].
Proof.
  induction post as [|b r IH]; simpl; intros H; [reflexivity|].
  apply andb_prop in H as [H1 H2]. rewrite H1. auto.
Qed.

Lemma allws_lexT_ident acc post :
  allws post = true -> lexT (LIdent acc) post = Some [TIdent (rev acc)].
Proof.
  destruct post as [|b r]; simpl; intros H; [reflexivity|].
  apply andb_prop in H as [H1 H2].
  destruct (ws_not_sep b H1) as (E1 & E2 & E3). rewrite E1, E2, H1.
  rewrite (allws_lexT_start r H2). reflexivity.
Qed.

Lemma lexT_skip_ws pre s : allws pre = true -> lexT LStart (pre ++ s) = lexT LStart s.
Proof.
  induction pre as [|b r IH]; simpl; intros H; [reflexivity|].
  apply andb_prop in H as [H1 H2]. rewrite H1. auto.
Qed.

(* Model.lex succeeds => lexT gives the same tokens, also with trailing white space added *)
Lemma lex_lexT post : allws post = true ->
  forall v st tr ts, lex st v tr = Some ts ->
  exists ts', lexT st (v ++ post) = Some ts' /\ ts = rev tr ++ ts'.
Proof.
  intros Hp. induction v as [|b r IH]; intros st tr ts H.
  - simpl in *. destruct st; inversion H; subst.
    + exists []. rewrite allws_lexT_start, app_nil_r; auto.
    + exists [TIdent (rev acc_rev)]. rewrite allws_lexT_ident; simpl; auto.
  - simpl in H. destruct (is_forbidden b) eqn:Hf; [discriminate|].
    pose proof (ws_agree b Hf) as Hws.
    destruct st; simpl app; simpl lexT; rewrite ?Hws.
    + destruct (is_ws b); [apply IH in H; exact H|].
      destruct (b =? 61).
      { apply IH in H as (ts' & H1 & H2). exists (TEquals :: ts'). rewrite H1. simpl.
        split; auto. subst. simpl. rewrite <- app_assoc. reflexivity. }
      destruct (b =? 44).
      { apply IH in H as (ts' & H1 & H2). exists (TComma :: ts'). rewrite H1. simpl.
        split; auto. subst. simpl. rewrite <- app_assoc. reflexivity. }
      destruct (b =? 34); apply IH in H; exact H.
    + destruct (b =? 44).
      { apply IH in H as (ts' & H1 & H2). exists (TIdent (rev acc_rev) :: TComma :: ts').
        rewrite H1. simpl. split; auto. subst. simpl. rewrite <- !app_assoc. reflexivity. }
      destruct (b =? 61).
      { apply IH in H as (ts' & H1 & H2). exists (TIdent (rev acc_rev) :: TEquals :: ts').
        rewrite H1. simpl. split; auto. subst. simpl. rewrite <- !app_assoc. reflexivity. }
      destruct (is_ws b).
      { apply IH in H as (ts' & H1 & H2). exists (TIdent (rev acc_rev) :: ts').
        rewrite H1. simpl. split; auto. subst. simpl. rewrite <- !app_assoc. reflexivity. }
      destruct (negb (is_printable b) || is_invalid_tokchar b); [discriminate|].
      apply IH in H; exact H.
    + destruct (b =? 34).
      { apply IH in H as (ts' & H1 & H2). exists (TString (rev acc_rev) :: ts').
        rewrite H1. simpl. split; auto. subst. simpl. rewrite <- !app_assoc. reflexivity. }
      apply IH in H; exact H.
Qed.

Lemma lex_lexT_framed pre v post ts :
  allws pre = true -> allws post = true ->
  lex LStart v [] = Some ts -> lexT LStart (pre ++ v ++ post) = Some ts.
Proof.
  intros Hpre Hpost H. rewrite lexT_skip_ws by exact Hpre.
  destruct (lex_lexT post Hpost v LStart [] ts H) as (ts' & H1 & H2).
  simpl in H2. subst. exact H1.
Qed.

(* ---- splitting: elements and token groups ---- *)
Definition consfirst {A} (b : A) (l : list (list A)) : list (list A) :=
  match l with e :: es => (b :: e) :: es | [] => [] end.

Fixpoint spl (inq : bool) (s : bytes) : list bytes :=
  match s with
  | [] => [[]]
  | b :: r =>
    if inq then consfirst b (spl (negb (b =? 34)) r)
    else if b =? 44 then [] :: spl false r
    else consfirst b (spl (b =? 34) r)
  end.

Lemma split_top_spl s : forall inq cur,
  split_top false inq false cur s =
  match spl inq s with e :: es => (rev cur ++ e) :: es | [] => [] end.
Proof.
  induction s as [|b r IH]; intros inq cur.
  - simpl. rewrite app_nil_r. reflexivity.
  - simpl. destruct inq.
    + destruct (b =? 34); simpl negb; rewrite IH;
        destruct (spl _ r); simpl; [reflexivity| |reflexivity|];
        rewrite <- app_assoc; reflexivity.
    + destruct (b =? 44); [simpl; rewrite app_nil_r; rewrite (IH false []);
                           destruct (spl false r); reflexivity|].
      destruct (b =? 34); rewrite IH;
        destruct (spl _ r); simpl; [reflexivity| |reflexivity|];
        rewrite <- app_assoc; reflexivity.
Qed.

Lemma elements_spl h : elements false h = spl false (sp_join h).
Proof.
  unfold elements. rewrite split_top_spl. destruct (spl false (sp_join h)) eqn:E; [|reflexivity].
  exfalso. destruct (sp_join h) as [|b r]; simpl in E; [discriminate|].
  (* spl never returns the empty list *)
  assert (NE : forall s inq, spl inq s <> []).
  { induction s as [|b' r' IH]; intros inq; simpl; [discriminate|].
    destruct inq; [|destruct (b' =? 44); [discriminate|]];
      match goal with |- consfirst _ (spl ?q r') <> [] =>
        specialize (IH q); destruct (spl q r'); [congruence|discriminate] end. }
  apply (NE (b :: r) false). simpl. exact E.
Qed.

Fixpoint nocomma (g : list tok) : bool :=
  match g with
  | [] => true
  | TComma :: _ => false
  | _ :: r => nocomma r
  end.

Fixpoint split_toks (ts : list tok) : list (list tok) :=
  match ts with
  | [] => [[]]
  | TComma :: r => [] :: split_toks r
  | t :: r => consfirst t (split_toks r)
  end.

Definition isq (st : lstate) : bool := match st with LString _ => true | _ => false end.

(* an element lexes, alone, to its comma-free token group *)
Definition R (e : bytes) (g : list tok) : Prop := lexT LStart e = Some g /\ nocomma g = true.

Definition HR (st : lstate) (es : list bytes) (gs : list (list tok)) : Prop :=
  match es, gs with
  | e :: es', g :: gs' => (lexT st e = Some g /\ nocomma g = true) /\ Forall2 R es' gs'
  | _, _ => False
  end.

Lemma HR_start es gs : HR LStart es gs -> Forall2 R es gs.
Proof. destruct es, gs; simpl; try tauto. intros [H1 H2]. constructor; assumption. Qed.

Ltac rwb := repeat match goal with
  | H : _ = true |- _ => rewrite H
  | H : _ = false |- _ => rewrite H
  end.

Ltac fin IH r :=
  otc_inv;
  match goal with
  | E : lexT _ r = Some ?l |- _ =>
    apply IH in E; simpl isq in E; simpl split_toks;
    destruct (spl _ r) as [|e es], (split_toks l) as [|g gs]; simpl in E; try tauto;
    simpl; rwb; destruct E as [[E1 E2] E3]; rewrite ?E1; simpl; rwb; tauto
  end.

Ltac fin_comma IH r :=
  otc_inv;
  match goal with
  | E : lexT _ r = Some ?l |- _ =>
    apply IH in E; simpl isq in E; apply HR_start in E; simpl; repeat split; exact E
  end.

Lemma lex_split s : forall st ts, lexT st s = Some ts -> HR st (spl (isq st) s) (split_toks ts).
Proof.
  induction s as [|b r IH]; intros st ts H.
  - destruct st; simpl in H; inversion H; subst; simpl; repeat split; constructor.
  - destruct st; simpl in H; simpl isq; simpl spl.
    + (* LStart *)
      destruct (sp_ws b) eqn:Ews.
      { destruct (ws_not_sep b Ews) as (E61 & E44 & E34). rewrite E44, E34. fin IH r. }
      destruct (b =? 61) eqn:E61.
      { assert (E44 : (b =? 44) = false) by lia. assert (E34 : (b =? 34) = false) by lia.
        rewrite E44, E34. fin IH r. }
      destruct (b =? 44) eqn:E44; [fin_comma IH r|].
      destruct (b =? 34) eqn:E34; fin IH r.
    + (* LIdent *)
      destruct (b =? 44) eqn:E44; [fin_comma IH r|].
      destruct (b =? 61) eqn:E61.
      { assert (E34 : (b =? 34) = false) by lia. rewrite E34. fin IH r. }
      destruct (sp_ws b) eqn:Ews.
      { destruct (ws_not_sep b Ews) as (_ & _ & E34). rewrite E34. fin IH r. }
      destruct (negb (is_printable b) || is_invalid_tokchar b) eqn:Einv; [discriminate|].
      destruct (tokchar_plain b Einv) as (_ & _ & _ & E34). rewrite E34. fin IH r.
    + (* LString *)
      destruct (b =? 34) eqn:E34; simpl negb; fin IH r.
Qed.

Lemma lexT_elements h ts :
  lexT LStart (sp_join h) = Some ts -> Forall2 R (elements false h) (split_toks ts).
Proof. intros H. rewrite elements_spl. apply HR_start. apply (lex_split _ LStart ts H). Qed.
