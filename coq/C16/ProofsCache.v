(* C16(b) proofs: the cache layer is transparent for pointwise deterministic subgraphs, and every
   stored entity comes from a clean response with a storable Cache-Control (part (a)'s ttl). *)
From Gv Require Import lib.Bytes lib.Json C02.Model C07.Model C07.ProofsBase C16.Model C16.Spec C16.ProofsSound C16.ModelCache.
From Coq Require Import ZArith Lia.
Open Scope N_scope.

Lemma bytes_eqb_true : forall a b, bytes_eqb a b = true -> a = b.
Proof.
  induction a as [|x a IH]; destruct b as [|y b]; simpl; intros H; try discriminate; auto.
  apply andb_prop in H as [H1 H2]. apply N.eqb_eq in H1. subst. f_equal. auto.
Qed.

Lemma ckey_eqb_true : forall a b, ckey_eqb a b = true -> a = b.
Proof.
  intros [r1 h1 f1] [r2 h2 f2]; unfold ckey_eqb; simpl; intros H.
  apply andb_prop in H as [H H3]. apply andb_prop in H as [H1 H2].
  apply bytes_eqb_true in H1, H2, H3. subst. reflexivity.
Qed.

Lemma cache_get_in : forall k c e, cache_get k c = Some e -> In e c /\ ce_key e = k.
Proof.
  induction c as [|e' c IH]; simpl; intros e H; [discriminate|].
  destruct (ckey_eqb k (ce_key e')) eqn:E.
  - inversion H; subst. split; [left; reflexivity|]. symmetry. apply ckey_eqb_true. exact E.
  - destruct (IH e H) as [Hi Hk]. split; [right; exact Hi|exact Hk].
Qed.

Lemma cache_del_incl : forall k c e, In e (cache_del k c) -> In e c.
Proof.
  induction c as [|e' c IH]; simpl; intros e H; [exact H|].
  destruct (ckey_eqb k (ce_key e')); [right; auto|]. destruct H as [H|H]; [left; exact H|right; auto].
Qed.

Lemma evict_first_incl : forall keys c e, In e (evict_first keys c) -> In e c.
Proof.
  induction keys as [|k r IH]; simpl; intros c e H; [exact H|].
  destruct (cache_get k c); [eapply cache_del_incl; exact H|auto].
Qed.

Lemma filter_len_le : forall {A} (p : A -> bool) l, (length (filter p l) <= length l)%nat.
Proof. induction l as [|y l IH]; simpl; [lia|]. destruct (p y); simpl; lia. Qed.

Lemma filter_length_all : forall {A} (p : A -> bool) l, length (filter p l) = length l -> forall x, In x l -> p x = true.
Proof.
  induction l as [|y l IH]; simpl; intros H x Hin; [contradiction|].
  destruct (p y) eqn:E.
  - simpl in H. destruct Hin as [->|Hin]; [exact E|]. apply IH; [lia|exact Hin].
  - pose proof (filter_len_le p l). lia.
Qed.

Lemma flat_map_nil : forall {A B} (g : A -> list B) l, flat_map g l = [] -> forall x, In x l -> g x = [].
Proof.
  induction l as [|y l IH]; simpl; intros H x Hin; [contradiction|].
  apply app_eq_nil in H as [H1 H2]. destruct Hin as [->|Hin]; auto.
Qed.

Lemma combine_map_l_r : forall {A B C} (f : A -> B) (g : A -> C) l,
  combine (map f l) (map g l) = map (fun x => (f x, g x)) l.
Proof. induction l as [|x l IH]; simpl; [reflexivity|]. f_equal. exact IH. Qed.

Section Transparent.
  Variable answer : bytes -> bytes -> bytes -> json * list json.
  Variable root_answer : bytes -> json * list json.
  Variable headers : nat -> N -> list bytes.
  Variable cfaults : nat -> cfault.
  Variable default_ttl : Z.

  Let oracle := pw_oracle answer root_answer.

  Definition entry_ok (e : centry) : Prop :=
    let k := ce_key e in
    ce_value e = fst (answer (ck_header k) (ck_footer k) (ck_rep k)) /\ snd (answer (ck_header k) (ck_footer k) (ck_rep k)) = [].
  Definition cache_ok (c : cache) : Prop := forall e, In e c -> entry_ok e.

  Lemma cache_put_ok : forall e c, entry_ok e -> cache_ok c -> cache_ok (cache_put e c).
  Proof.
    intros e c He Hc e' [<-|Hin]; [exact He|]. apply Hc. eapply cache_del_incl; exact Hin.
  Qed.

  Lemma fold_put_ok : forall items c, (forall e, In e items -> entry_ok e) -> cache_ok c ->
    cache_ok (fold_left (fun c e => cache_put e c) items c).
  Proof.
    induction items as [|e r IH]; simpl; intros c Hi Hc; [exact Hc|].
    apply IH; [intros; apply Hi; right; assumption|]. apply cache_put_ok; [apply Hi; left; reflexivity|exact Hc].
  Qed.

  (* the body of an entity request's clean response *)
  Lemma oracle_entity_body : forall rq r reps, rq_reps rq = r :: reps ->
    oracle rq =
    {| rs_err := false; rs_status := 200;
       rs_body := BJson (JObj ((k_data, JObj [(k_entities, JArr (map (fun rep => fst (answer (rq_header rq) (rq_footer rq) rep)) (rq_reps rq)))])
                               :: errors_member (flat_map (fun rep => snd (answer (rq_header rq) (rq_footer rq) rep)) (rq_reps rq))));
       rs_cc := [] |}.
  Proof.
    intros rq r reps H. unfold oracle, pw_oracle, clean_response, is_single. rewrite H.
    cbv beta iota. rewrite map_map. f_equal. f_equal. f_equal.
    rewrite flat_map_concat_map, map_map, <- flat_map_concat_map. reflexivity.
  Qed.

  Lemma keys_of_rep : forall rq, map ck_rep (keys_of rq) = rq_reps rq.
  Proof. intros rq. unfold keys_of. rewrite map_map. simpl. apply map_id. Qed.

  Lemma collect_items_ok : forall rq cc items, rq_reps rq <> [] ->
    collect default_ttl (keys_of rq) (with_cc (oracle rq) cc) = CItems items -> forall e, In e items -> entry_ok e.
  Proof.
    intros rq cc items Hne Hc e Hin.
    destruct (rq_reps rq) as [|r reps] eqn:Hr; [congruence|].
    rewrite (oracle_entity_body rq r reps Hr) in Hc.
    unfold collect, with_cc in Hc. cbn [rs_err rs_body rs_status rs_cc] in Hc.
    change (400 <=? 200) with false in Hc. cbv iota in Hc.
    match type of Hc with (if negb (valid_numbers ?j) then _ else _) = _ => destruct (negb (valid_numbers j)); [discriminate|] end.
    set (errs := flat_map (fun rep => snd (answer (rq_header rq) (rq_footer rq) rep)) (rq_reps rq)) in *.
    destruct errs as [|e0 errs'] eqn:Herrs.
    2:{ unfold errors_member in Hc. cbn in Hc. discriminate. }
    unfold errors_member in Hc. cbn in Hc.
    destruct (ttl cc default_ttl) as [t|]; [|discriminate].
    rewrite map_length in Hc. unfold keys_of in Hc. rewrite map_length in Hc. rewrite Nat.eqb_refl in Hc.
    inversion Hc; subst items. clear Hc.
    apply in_flat_map in Hin as ((k, v) & Hkv & He).
    rewrite combine_map_l_r in Hkv.
    apply in_map_iff in Hkv as (rep & Heq & Hrep). inversion Heq; subst k v. clear Heq.
    destruct (fst (answer (rq_header rq) (rq_footer rq) rep)) eqn:Hf; simpl in He; try contradiction.
    destruct He as [<-|[]]. unfold entry_ok. simpl. split; [symmetry; exact Hf|].
    subst errs. eapply (flat_map_nil _ _ Herrs). exact Hrep.
  Qed.

  Lemma in_firstn : forall {A} n (l : list A) x, In x (firstn n l) -> In x l.
  Proof.
    induction n as [|n IH]; intros l x H; [destruct l; simpl in H; contradiction|].
    destruct l as [|y l]; simpl in H; [contradiction|]. destruct H as [H|H]; [left; exact H|right; auto].
  Qed.

  Definition after_miss (x : cstate) (rq : request) : response * cstate :=
    let '(res, x2) := upstream oracle headers x rq in
    match collect default_ttl (keys_of rq) res with
    | CNothing => (res, x2)
    | CError => (res, report x2)
    | CItems items => (res, flush cfaults x2 items)
    end.

  Lemma after_miss_ok : forall x rq x2p, rq_reps rq <> [] -> cache_ok (cs_cache x) ->
    resp_eqv (fst (after_miss x rq)) (fst (upstream oracle headers x2p rq)) /\ cache_ok (cs_cache (snd (after_miss x rq))).
  Proof.
    intros x rq x2p Hne Hc. unfold after_miss, upstream.
    destruct (collect default_ttl (keys_of rq) (with_cc (oracle rq) (headers (cs_run x) (rq_fetch rq)))) as [| |items] eqn:C;
      simpl; (split; [repeat split|]); try exact Hc.
    unfold flush. destruct items as [|i0 items']; [exact Hc|].
    remember (i0 :: items') as items eqn:Hitems.
    assert (Hall : forall e, In e items -> entry_ok e) by (intros e He; eapply collect_items_ok; eauto).
    cbn [cs_calls cs_cache]. destruct (cfaults (cs_calls x)); cbn [cs_cache]; apply fold_put_ok; auto;
      intros e He; try contradiction; apply Hall; eauto using in_firstn.
  Qed.

  Lemma lookup_core : forall (c : cache) keys, cache_ok c ->
    Nat.eqb (length (filter (fun k => match cache_get k c with Some _ => true | None => false end) keys)) (length keys) = true ->
    map (fun k => match cache_get k c with Some e => ce_value e | None => JNull end) keys =
    map (fun k => fst (answer (ck_header k) (ck_footer k) (ck_rep k))) keys /\
    forall k, In k keys -> snd (answer (ck_header k) (ck_footer k) (ck_rep k)) = [].
  Proof.
    intros c keys Hcc E. apply Nat.eqb_eq in E. pose proof (filter_length_all _ _ E) as Hall.
    split; [apply map_ext_in; intros k Hk|intros k Hk]; specialize (Hall k Hk); cbv beta in Hall;
      destruct (cache_get k c) as [e|] eqn:G; try discriminate; apply cache_get_in in G as [Gi Gk];
      destruct (Hcc e Gi) as [V1 V2]; rewrite Gk in V1, V2; assumption.
  Qed.

  Lemma lookup_ok : forall x keys o x', lookup cfaults x keys = (o, x') -> cache_ok (cs_cache x) ->
    cache_ok (cs_cache x') /\
    (forall vals, o = Some vals ->
       vals = map (fun k => fst (answer (ck_header k) (ck_footer k) (ck_rep k))) keys /\
       forall k, In k keys -> snd (answer (ck_header k) (ck_footer k) (ck_rep k)) = []).
  Proof.
    intros x keys o x' H Hc. unfold lookup in H.
    assert (Hsub : forall c, (forall e, In e c -> In e (cs_cache x)) -> cache_ok c) by (intros c Hs e He; apply Hc, Hs, He).
    assert (Hev : cache_ok (evict_first keys (cs_cache x))) by (apply Hsub; intros e He; eapply evict_first_incl; exact He).
    assert (Hnil : cache_ok []) by (intros e []).
    pose (fin := fun (c : cache) => c).
    destruct (cfaults (cs_calls x)) eqn:F; cbv zeta in H.
    2:{ inversion H; subst; cbn [cs_cache]; split; [exact Hc|intros; discriminate]. }
    1,2,3: (match type of H with (if ?b then _ else _) = _ => destruct b eqn:E end;
            inversion H; subst; cbn [cs_cache]; (split; [assumption|]); intros vals Hv; try discriminate;
            inversion Hv; subst vals; apply (lookup_core (cs_cache x)); assumption).
    - match type of H with (if ?b then _ else _) = _ => destruct b eqn:E end;
        inversion H; subst; cbn [cs_cache]; (split; [assumption|]); intros vals Hv; try discriminate;
        inversion Hv; subst vals; apply (lookup_core (evict_first keys (cs_cache x))); assumption.
    - match type of H with (if ?b then _ else _) = _ => destruct b eqn:E end;
        inversion H; subst; cbn [cs_cache]; (split; [assumption|]); intros vals Hv; try discriminate;
        inversion Hv; subst vals; apply (lookup_core (@nil centry)); assumption.
  Qed.

  Lemma flat_map_all_nil : forall {A B} (g : A -> list B) l, (forall x, In x l -> g x = []) -> flat_map g l = [].
  Proof.
    induction l as [|y l IH]; simpl; intros H; [reflexivity|]. rewrite H by (left; reflexivity). simpl. apply IH. intros; apply H; right; assumption.
  Qed.

  Definition CInv (x1 x2 : cstate) : Prop := cache_ok (cs_cache x1).

  Lemma exchange_step : forall x1 x2 rq, CInv x1 x2 ->
    resp_eqv (fst (exchange_cache oracle headers cfaults default_ttl x1 rq)) (fst (exchange_plain oracle headers x2 rq)) /\
    CInv (snd (exchange_cache oracle headers cfaults default_ttl x1 rq)) (snd (exchange_plain oracle headers x2 rq)).
  Proof.
    intros x1 x2 rq HI. unfold CInv in *. unfold exchange_cache, exchange_plain.
    destruct (keys_of rq) as [|k ks] eqn:K.
    - unfold upstream; simpl. split; [repeat split|exact HI].
    - assert (Hne : rq_reps rq <> []).
      { intro E. unfold keys_of in K. rewrite E in K. discriminate. }
      destruct (lookup cfaults x1 (k :: ks)) as [o x1'] eqn:L.
      destruct (lookup_ok _ _ _ _ L HI) as [Hc' Hv].
      destruct o as [vals|].
      + destruct (Hv vals eq_refl) as [Hvals Hnil]. cbn [fst snd]. split; [|exact Hc'].
        destruct (rq_reps rq) as [|r reps] eqn:Hr; [congruence|].
        unfold upstream. cbn [fst]. unfold with_cc. rewrite (oracle_entity_body rq r reps Hr). cbn [rs_err rs_status rs_body].
        unfold resp_eqv, entities_response. cbn [rs_err rs_status rs_body]. repeat split.
        rewrite flat_map_all_nil.
        2:{ intros rep Hrep. rewrite <- K in Hnil.
            specialize (Hnil {| ck_rep := rep; ck_header := rq_header rq; ck_footer := rq_footer rq |}).
            apply Hnil. unfold keys_of. apply in_map_iff. exists rep. split; [reflexivity|exact Hrep]. }
        unfold errors_member. rewrite Hvals, <- K. unfold keys_of. rewrite map_map. reflexivity.
      + rewrite <- K.
        change (resp_eqv (fst (after_miss x1' rq)) (fst (upstream oracle headers x2 rq)) /\ cache_ok (cs_cache (snd (after_miss x1' rq)))).
        apply after_miss_ok; assumption.
  Qed.

  Theorem history_transparent : forall h x1 x2, CInv x1 x2 ->
    fst (run_history (exchange_cache oracle headers cfaults default_ttl) h x1) = fst (run_history (exchange_plain oracle headers) h x2).
  Proof.
    induction h as [|[root t] r IH]; intros x1 x2 HI; [reflexivity|].
    simpl. unfold load.
    pose proof (run_tree_sim cstate cstate _ _ CInv exchange_step t init_state x1 x2 HI) as [Hf HI'].
    destruct (run_tree cstate (exchange_cache oracle headers cfaults default_ttl) t (init_state, x1)) as [s1 y1].
    destruct (run_tree cstate (exchange_plain oracle headers) t (init_state, x2)) as [s2 y2].
    simpl in Hf, HI'. subst s2.
    specialize (IH (next_run y1) (next_run y2) HI').
    destruct (run_history (exchange_cache oracle headers cfaults default_ttl) r (next_run y1)) as [o1 z1].
    destruct (run_history (exchange_plain oracle headers) r (next_run y2)) as [o2 z2].
    simpl in *. subst o2. reflexivity.
  Qed.

  Theorem cache_transparent_proof : forall h,
    fst (run_history (exchange_cache oracle headers cfaults default_ttl) h init_cstate) =
    fst (run_history (exchange_plain oracle headers) h init_cstate).
  Proof. intros h. apply history_transparent. intros e []. Qed.
End Transparent.

(* ---- stored => clean source with a storable Cache-Control ---- *)
Section Stored.
  Variable oracle : request -> response.
  Variable headers : nat -> N -> list bytes.
  Variable cfaults : nat -> cfault.
  Variable default_ttl : Z.

  Lemma collect_sound : forall keys rq res items, keys = keys_of rq ->
    collect default_ttl keys res = CItems items -> forall e, In e items -> stored_from default_ttl e rq res.
  Proof.
    intros keys rq res items Hk Hc e Hin. unfold collect in Hc.
    destruct (rs_err res) eqn:Eerr; [discriminate|].
    destruct (rs_body res) as [| |resp] eqn:Eb; try discriminate.
    { destruct (400 <=? rs_status res); discriminate. }
    destruct (400 <=? rs_status res) eqn:Est; [discriminate|].
    destruct (negb (valid_numbers resp)); [discriminate|].
    assert (Hne : resp_has_errors res = false).
    { unfold resp_has_errors. rewrite Eb. destruct (get_loc [PName k_errors] resp) as [[| | | |[|]|]|]; try reflexivity. discriminate. }
    assert (Hc' : match ttl (rs_cc res) default_ttl with
                  | None => CNothing
                  | Some t =>
                    match get_loc [PName k_data; PName k_entities] resp with
                    | Some (JArr vals) =>
                      if Nat.eqb (length vals) (length keys) then
                        CItems (flat_map (fun kv => match snd kv with
                                                    | JObj _ => [{| ce_key := fst kv; ce_value := snd kv; ce_ttl := t |}]
                                                    | _ => []
                                                    end) (combine keys vals))
                      else CError
                    | _ => CError
                    end
                  end = CItems items).
    { destruct (get_loc [PName k_errors] resp) as [[| | | |[|]|]|]; try exact Hc. discriminate. }
    clear Hc. destruct (ttl (rs_cc res) default_ttl) as [t|] eqn:Et; [|discriminate].
    destruct (get_loc [PName k_data; PName k_entities] resp) as [[| | | |vals|]|] eqn:Eent; try discriminate.
    destruct (Nat.eqb (length vals) (length keys)); [|discriminate].
    inversion Hc'; subst items. clear Hc'.
    apply in_flat_map in Hin as ((k, v) & Hkv & He). simpl in He.
    destruct v; simpl in He; try contradiction. destruct He as [<-|[]]. simpl.
    unfold stored_from. cbn [ce_key ce_ttl].
    refine (conj _ (conj _ (conj _ (conj _ (conj _ (conj _ _)))))).
    - rewrite <- Hk. eapply in_combine_l; exact Hkv.
    - exact Eerr.
    - apply N.ltb_lt. apply N.leb_gt in Est. exact Est.
    - exact Hne.
    - exact Et.
    - pose proof (ttl_sound_dialect (rs_cc res) default_ttl) as S. rewrite Et in S. exact S.
    - exists resp, vals. split; [exact Eb|]. split; [exact Eent|]. rewrite <- Hk. exact Hkv.
  Qed.

  Definition log_ok (x : cstate) : Prop :=
    forall items stored err e, In (OpSet items stored err) (cs_log x) -> In e items ->
    exists run rq res, In (run, rq, res) (cs_upstream x) /\ stored_from default_ttl e rq res.

  Lemma exchange_log_ok : forall x rq, log_ok x -> log_ok (snd (exchange_cache oracle headers cfaults default_ttl x rq)).
  Proof.
    intros x rq H. unfold exchange_cache.
    assert (Hup : forall y, log_ok y -> log_ok (snd (upstream oracle headers y rq))).
    { intros y Hy items stored err e Hi He. unfold upstream in *. cbn [snd cs_log cs_upstream] in *.
      destruct (Hy items stored err e Hi He) as (run & rq' & res & Hu & Hs).
      exists run, rq', res. split; [apply in_or_app; left; exact Hu|exact Hs]. }
    destruct (keys_of rq) as [|k ks] eqn:K; [apply Hup; exact H|].
    assert (Hlk : forall o x1, lookup cfaults x (k :: ks) = (o, x1) -> log_ok x1).
    { intros o x1 L. unfold lookup in L.
      assert (Hadd : forall c calls g, log_ok {| cs_cache := c; cs_calls := calls; cs_run := cs_run x; cs_log := cs_log x ++ [g];
                                                 cs_upstream := cs_upstream x; cs_reported := cs_reported x |} \/ True) by (intros; right; exact I).
      destruct (cfaults (cs_calls x)); cbv zeta in L;
        try (match type of L with (if ?b then _ else _) = _ => destruct b end);
        inversion L; subst; intros items stored err e Hi He; cbn [cs_log cs_upstream] in *;
        (apply in_app_or in Hi as [Hi|[Hi|[]]]; [|discriminate]); exact (H items stored err e Hi He). }
    destruct (lookup cfaults x (k :: ks)) as [o x1] eqn:L.
    specialize (Hlk o x1 eq_refl).
    destruct o as [vals|]; [exact Hlk|].
    unfold upstream. cbn [fst snd].
    set (res := with_cc (oracle rq) (headers (cs_run x1) (rq_fetch rq))).
    set (x2 := {| cs_cache := cs_cache x1; cs_calls := cs_calls x1; cs_run := cs_run x1; cs_log := cs_log x1;
                  cs_upstream := cs_upstream x1 ++ [(cs_run x1, rq, res)]; cs_reported := cs_reported x1 |}).
    assert (H2 : log_ok x2).
    { intros items stored err e Hi He. cbn [cs_log cs_upstream x2] in *.
      destruct (Hlk items stored err e Hi He) as (run & rq' & res' & Hu & Hs).
      exists run, rq', res'. split; [apply in_or_app; left; exact Hu|exact Hs]. }
    destruct (collect default_ttl (k :: ks) res) as [| |items] eqn:C; cbn [snd].
    - exact H2.
    - intros items stored err e Hi He. exact (H2 items stored err e Hi He).
    - unfold flush. destruct items as [|i0 items']; [exact H2|].
      remember (i0 :: items') as items eqn:Hitems.
      intros items2 stored err e Hi He. cbn [cs_log cs_upstream] in *.
      apply in_app_or in Hi as [Hi|[Hi|[]]].
      + exact (H2 items2 stored err e Hi He).
      + inversion Hi; subst items2. exists (cs_run x1), rq, res. split.
        * cbn [x2 cs_upstream]. apply in_or_app. right. left. reflexivity.
        * eapply collect_sound; [symmetry; exact K|exact C|exact He].
  Qed.

  Theorem history_log_ok : forall h x, log_ok x ->
    log_ok (snd (run_history (exchange_cache oracle headers cfaults default_ttl) h x)).
  Proof.
    induction h as [|[root t] r IH]; intros x Hx; [exact Hx|].
    simpl. unfold load.
    pose proof (run_tree_inv cstate _ log_ok exchange_log_ok t init_state x Hx) as H1.
    destruct (run_tree cstate (exchange_cache oracle headers cfaults default_ttl) t (init_state, x)) as [s1 y1]. simpl in H1.
    assert (H2 : log_ok (next_run y1)) by exact H1.
    specialize (IH (next_run y1) H2).
    destruct (run_history (exchange_cache oracle headers cfaults default_ttl) r (next_run y1)) as [o z]. exact IH.
  Qed.

  Theorem stored_implies_storable_proof : forall h,
    log_ok (snd (run_history (exchange_cache oracle headers cfaults default_ttl) h init_cstate)).
  Proof. intros h. apply history_log_ok. intros items stored err e []. Qed.
End Stored.

(* ---- all or nothing: a request is either answered entirely from the cache or sent upstream whole ---- *)
Section AllOrNothing.
  Variable oracle : request -> response.
  Variable headers : nat -> N -> list bytes.
  Variable cfaults : nat -> cfault.
  Variable default_ttl : Z.

  Lemma flush_upstream : forall x items, cs_upstream (flush cfaults x items) = cs_upstream x.
  Proof. intros x items. unfold flush. destruct items; reflexivity. Qed.

  Lemma lookup_upstream : forall x keys o x1, lookup cfaults x keys = (o, x1) ->
    cs_upstream x1 = cs_upstream x /\ cs_run x1 = cs_run x /\ forall vals, o = Some vals -> length vals = length keys.
  Proof.
    intros x keys o x1 L. unfold lookup in L.
    destruct (cfaults (cs_calls x)); cbv zeta in L;
      try (match type of L with (if ?b then _ else _) = _ => destruct b end);
      inversion L; subst; cbn [cs_upstream cs_run]; (split; [reflexivity|split; [reflexivity|]]);
      intros vals Hv; try discriminate; inversion Hv; apply map_length.
  Qed.

  Theorem all_or_nothing_proof : forall x rq,
    let r := exchange_cache oracle headers cfaults default_ttl x rq in
    cs_upstream (snd r) = cs_upstream x ++ [(cs_run x, rq, fst r)] \/
    (cs_upstream (snd r) = cs_upstream x /\ rq_reps rq <> [] /\
     exists vals, fst r = entities_response vals /\ length vals = length (rq_reps rq)).
  Proof.
    intros x rq. unfold exchange_cache.
    destruct (keys_of rq) as [|k ks] eqn:K; [left; reflexivity|].
    destruct (lookup cfaults x (k :: ks)) as [o x1] eqn:L.
    destruct (lookup_upstream _ _ _ _ L) as (Hu & Hr & Hl).
    destruct o as [vals|].
    - right. cbn [fst snd]. split; [exact Hu|]. split.
      + intro E. unfold keys_of in K. rewrite E in K. discriminate.
      + exists vals. split; [reflexivity|]. rewrite (Hl vals eq_refl), <- K. unfold keys_of. apply map_length.
    - left. unfold upstream. cbn [fst snd].
      destruct (collect default_ttl (k :: ks) (with_cc (oracle rq) (headers (cs_run x1) (rq_fetch rq)))); cbn [fst snd];
        try rewrite flush_upstream; cbn [cs_upstream report]; rewrite Hu, Hr; reflexivity.
  Qed.
End AllOrNothing.
