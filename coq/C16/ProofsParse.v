(* C16(a): [Model.parse_toks] as a fold over comma-separated token groups, and what the
   resulting [cc] says about the groups. *)
From Gv Require Import lib.Bytes C16.Model C16.Spec C16.ProofsLex C16.ProofsElem.
From Coq Require Import ZArith Lia ZifyBool ZifyN.
Open Scope N_scope.

Local Arguments apply_directive : simpl never.

Definition shape (g : list tok) : bool :=
  match g with
  | [] => true
  | [TIdent _] => true
  | [TIdent _; TEquals] => true
  | [TIdent _; TEquals; TIdent _] => true
  | [TIdent _; TEquals; TString _] => true
  | _ => false
  end.

Definition parse_group (g : list tok) (c : cc) : option cc :=
  match g with
  | [] => Some c
  | [TIdent n] => apply_directive n false [] c
  | [TIdent n; TEquals] => apply_directive n true [] c
  | [TIdent n; TEquals; TIdent s] => apply_directive n true s c
  | [TIdent n; TEquals; TString s] => apply_directive n true s c
  | _ => None
  end.

Fixpoint fold_groups (gs : list (list tok)) (c : cc) : option cc :=
  match gs with
  | [] => Some c
  | g :: gs' => bind (parse_group g c) (fold_groups gs')
  end.

Lemma shape_headok g : shape g = true -> headok g = true.
Proof. destruct g as [|[n| | |] r]; simpl; auto. Qed.

(* ---- parse_toks is the fold ---- *)
Ltac pt_end H := simpl; rewrite H; reflexivity.
Ltac pt_comma IH H :=
  let E := fresh "E" in
  match type of H with
  | bind ?a _ = Some _ =>
    destruct a eqn:E; simpl in H; [|discriminate];
    apply IH in H; [|simpl in *; lia];
    simpl; rewrite E; simpl; exact H
  end.

Lemma parse_toks_fold : forall n ts c c',
  (length ts <= n)%nat -> parse_toks ts c = Some c' -> fold_groups (split_toks ts) c = Some c'.
Proof.
  induction n as [|n IH]; intros ts c c' Hl H.
  - destruct ts; simpl in Hl; [|lia]. simpl in *. exact H.
  - destruct ts as [|[n1| | |s1] r]; simpl in H; try discriminate.
    + simpl. exact H.
    + destruct r as [|[n2| | |s2] r2]; try discriminate.
      * pt_end H.
      * pt_comma IH H.
      * destruct r2 as [|[n3| | |s3] r3]; try discriminate.
        -- pt_end H.
        -- destruct r3 as [|[n4| | |s4] r4]; try discriminate; [pt_end H|pt_comma IH H].
        -- pt_comma IH H.
        -- destruct r3 as [|[n4| | |s4] r4]; try discriminate; [pt_end H|pt_comma IH H].
    + simpl. apply IH; [simpl in Hl; lia|exact H].
Qed.

(* ---- one directive ---- *)
Lemma bytes_eqb_eq a : forall b, bytes_eqb a b = true -> a = b.
Proof.
  induction a as [|x a IH]; destruct b as [|y b]; simpl; intros H; try discriminate; [reflexivity|].
  apply andb_prop in H as [H1 H2]. apply N.eqb_eq in H1. subst. f_equal. auto.
Qed.

Lemma delta_inv p t v : delta_seconds p t = Some v ->
  p = true /\ t <> [] /\ forallb is_digit t = true /\ v = N.min (dec_value t) max_int32.
Proof.
  unfold delta_seconds. destruct p; simpl; [|discriminate].
  destruct t as [|x t']; [discriminate|].
  destruct (forallb is_digit (x :: t')) eqn:E; [|discriminate].
  intros H; inversion H. repeat split; auto. discriminate.
Qed.

Definition age_clause (nm : bytes) (get : cc -> option N) (d : bytes)
           (c c' : cc) (arg : option bytes) : Prop :=
  if bytes_eqb nm d then
    match get c with
    | Some v => get c' = Some v
    | None => exists s, arg = Some s /\ s <> [] /\ forallb is_digit s = true /\
                        get c' = Some (N.min (dec_value s) max_int32)
    end
  else get c' = get c.

Definition clauses (nm : bytes) (arg : option bytes) (c c' : cc) : Prop :=
  (is_public c' = true -> is_public c = true \/ bytes_eqb nm d_public = true) /\
  (no_store c = true \/ bytes_eqb nm d_no_store = true -> no_store c' = true) /\
  (no_cache c <> None \/ bytes_eqb nm d_no_cache = true -> no_cache c' <> None) /\
  (is_private c <> None \/ bytes_eqb nm d_private = true -> is_private c' <> None) /\
  age_clause nm s_maxage d_s_maxage c c' arg /\
  age_clause nm max_age d_max_age c c' arg.

Ltac evalb :=
  repeat match goal with
  | |- context [bytes_eqb ?a ?b] =>
    let v := eval vm_compute in (bytes_eqb a b) in change (bytes_eqb a b) with v
  end.

Ltac clause_fin :=
  unfold clauses, age_clause; evalb; simpl;
  repeat split; intros;
  try tauto; try congruence; try (intuition (discriminate || congruence)).

Lemma apply_clauses n p t c c' :
  apply_directive n p t c = Some c' ->
  clauses (lower n) (if p then match t with [] => None | _ => Some t end else None) c c'.
Proof.
  unfold apply_directive.
  destruct (bytes_eqb (lower n) d_max_age) eqn:E1.
  { apply bytes_eqb_eq in E1. rewrite E1.
    destruct (max_age c) eqn:Em.
    - intros H; inversion H; subst. clause_fin. rewrite Em. reflexivity.
    - destruct (delta_seconds p t) eqn:Ed; [|discriminate].
      apply delta_inv in Ed as (-> & Hne & Hd & ->).
      intros H; inversion H; subst. clause_fin. rewrite Em. exists t.
      destruct t; [congruence|]. auto. }
  destruct (bytes_eqb (lower n) d_s_maxage) eqn:E2.
  { apply bytes_eqb_eq in E2. rewrite E2.
    destruct (s_maxage c) eqn:Em.
    - intros H; inversion H; subst. clause_fin. rewrite Em. reflexivity.
    - destruct (delta_seconds p t) eqn:Ed; [|discriminate].
      apply delta_inv in Ed as (-> & Hne & Hd & ->).
      intros H; inversion H; subst. clause_fin. rewrite Em. exists t.
      destruct t; [congruence|]. auto. }
  destruct (bytes_eqb (lower n) d_no_store) eqn:E3.
  { apply bytes_eqb_eq in E3. rewrite E3 in *.
    intros H; inversion H; subst. unfold clauses, age_clause. rewrite E1, E2. clause_fin. }
  destruct (bytes_eqb (lower n) d_public) eqn:E4.
  { apply bytes_eqb_eq in E4. rewrite E4 in *.
    intros H; inversion H; subst. unfold clauses, age_clause. rewrite E1, E2. clause_fin. }
  destruct (bytes_eqb (lower n) d_no_cache) eqn:E5.
  { apply bytes_eqb_eq in E5. rewrite E5 in *.
    intros H; inversion H; subst. unfold clauses, age_clause. rewrite E1, E2. clause_fin. }
  destruct (bytes_eqb (lower n) d_private) eqn:E6.
  { apply bytes_eqb_eq in E6. rewrite E6 in *.
    intros H; inversion H; subst. unfold clauses, age_clause. rewrite E1, E2. clause_fin. }
  intros H; inversion H; subst. unfold clauses, age_clause.
  rewrite E1, E2, E3, E4, E5, E6. repeat split; intros; try tauto; intuition discriminate.
Qed.

(* ---- one group ---- *)
Lemma group_clauses g c c1 :
  parse_group g c = Some c1 -> shape g = true /\ clauses (gnm g) (garg g) c c1.
Proof.
  intros H.
  destruct g as [|[n| | |] [|[| | |] [|[a| | |a] [|]]]]; try discriminate; simpl in H.
  - inversion H; subst. split; [reflexivity|]. simpl gnm. clause_fin.
  - split; [reflexivity|]. apply apply_clauses in H. exact H.
  - split; [reflexivity|]. apply apply_clauses in H. exact H.
  - split; [reflexivity|]. apply apply_clauses in H. simpl gnm. simpl garg.
    unfold clauses, age_clause in *.
    destruct H as (H1 & H2 & H3 & H4 & H5 & H6). repeat split; auto.
    + destruct (bytes_eqb (lower n) d_s_maxage); auto. destruct (s_maxage c); auto.
      destruct H5 as (s & Hs & Hne & Hd & Hv). destruct a; [discriminate|]. inversion Hs; subst. eauto.
    + destruct (bytes_eqb (lower n) d_max_age); auto. destruct (max_age c); auto.
      destruct H6 as (s & Hs & Hne & Hd & Hv). destruct a; [discriminate|]. inversion Hs; subst. eauto.
  - split; [reflexivity|]. apply apply_clauses in H. simpl gnm. simpl garg.
    unfold clauses, age_clause in *.
    destruct H as (H1 & H2 & H3 & H4 & H5 & H6). repeat split; auto.
    + destruct (bytes_eqb (lower n) d_s_maxage); auto. destruct (s_maxage c); auto.
      destruct H5 as (s & Hs & Hne & Hd & Hv). destruct a; [discriminate|]. inversion Hs; subst. eauto.
    + destruct (bytes_eqb (lower n) d_max_age); auto. destruct (max_age c); auto.
      destruct H6 as (s & Hs & Hne & Hd & Hv). destruct a; [discriminate|]. inversion Hs; subst. eauto.
Qed.

(* ---- the whole fold ---- *)
Definition named (d : bytes) (g : list tok) : bool := bytes_eqb (gnm g) d.

Lemma fold_step g gs c c' :
  fold_groups (g :: gs) c = Some c' ->
  exists c1, parse_group g c = Some c1 /\ fold_groups gs c1 = Some c'.
Proof. simpl. destruct (parse_group g c) as [c1|]; simpl; [eauto|discriminate]. Qed.

Lemma fold_shape gs : forall c c', fold_groups gs c = Some c' -> forallb shape gs = true.
Proof.
  induction gs as [|g gs IH]; intros c c' H; [reflexivity|].
  apply fold_step in H as (c1 & Hg & Hf). apply group_clauses in Hg as [Hs _].
  simpl. rewrite Hs. eauto.
Qed.

Lemma fold_public gs : forall c c', fold_groups gs c = Some c' ->
  is_public c' = true -> is_public c = true \/ existsb (named d_public) gs = true.
Proof.
  induction gs as [|g gs IH]; intros c c' H Hp.
  - simpl in H. inversion H; subst. auto.
  - apply fold_step in H as (c1 & Hg & Hf). apply group_clauses in Hg as [_ (H1 & _)].
    simpl. unfold named at 1. destruct (IH _ _ Hf Hp) as [Hc|He].
    + destruct (H1 Hc) as [? | ->]; auto.
    + rewrite He, orb_true_r. auto.
Qed.

Lemma fold_no_store gs : forall c c', fold_groups gs c = Some c' ->
  no_store c = true \/ existsb (named d_no_store) gs = true -> no_store c' = true.
Proof.
  induction gs as [|g gs IH]; intros c c' H Hp.
  - simpl in *. inversion H; subst. destruct Hp; [auto|discriminate].
  - apply fold_step in H as (c1 & Hg & Hf). apply group_clauses in Hg as [_ (_ & H2 & _)].
    apply (IH _ _ Hf). simpl in Hp. unfold named at 1 in Hp.
    destruct Hp as [Hp|Hp]; [left; auto|].
    apply orb_prop in Hp as [Hp|Hp]; auto.
Qed.

Lemma fold_no_cache gs : forall c c', fold_groups gs c = Some c' ->
  no_cache c <> None \/ existsb (named d_no_cache) gs = true -> no_cache c' <> None.
Proof.
  induction gs as [|g gs IH]; intros c c' H Hp.
  - simpl in *. inversion H; subst. destruct Hp; [auto|discriminate].
  - apply fold_step in H as (c1 & Hg & Hf). apply group_clauses in Hg as [_ (_ & _ & H3 & _)].
    apply (IH _ _ Hf). simpl in Hp. unfold named at 1 in Hp.
    destruct Hp as [Hp|Hp]; [left; auto|].
    apply orb_prop in Hp as [Hp|Hp]; auto.
Qed.

Lemma fold_private gs : forall c c', fold_groups gs c = Some c' ->
  is_private c <> None \/ existsb (named d_private) gs = true -> is_private c' <> None.
Proof.
  induction gs as [|g gs IH]; intros c c' H Hp.
  - simpl in *. inversion H; subst. destruct Hp; [auto|discriminate].
  - apply fold_step in H as (c1 & Hg & Hf). apply group_clauses in Hg as [_ (_ & _ & _ & H4 & _)].
    apply (IH _ _ Hf). simpl in Hp. unfold named at 1 in Hp.
    destruct Hp as [Hp|Hp]; [left; auto|].
    apply orb_prop in Hp as [Hp|Hp]; auto.
Qed.

Definition age_result (get : cc -> option N) (d : bytes) (gs : list (list tok)) (c c' : cc) : Prop :=
  match get c with
  | Some v => get c' = Some v
  | None =>
    match find (named d) gs with
    | None => get c' = None
    | Some g => exists s, garg g = Some s /\ s <> [] /\ forallb is_digit s = true /\
                          get c' = Some (N.min (dec_value s) max_int32)
    end
  end.

Lemma fold_age get d
  (Hcl : forall g c c1, parse_group g c = Some c1 -> age_clause (gnm g) get d c c1 (garg g)) :
  forall gs c c', fold_groups gs c = Some c' -> age_result get d gs c c'.
Proof.
  unfold age_result.
  induction gs as [|g gs IH]; intros c c' H.
  - simpl in *. inversion H; subst. destruct (get c'); reflexivity.
  - apply fold_step in H as (c1 & Hg & Hf). apply Hcl in Hg. unfold age_clause in Hg.
    specialize (IH _ _ Hf). simpl find. unfold named at 1.
    destruct (bytes_eqb (gnm g) d).
    + destruct (get c) as [v|].
      * rewrite Hg in IH. exact IH.
      * destruct Hg as (s & Hs & Hne & Hd & Hv). rewrite Hv in IH. exists s. auto.
    + rewrite Hg in IH. exact IH.
Qed.

Lemma fold_s_maxage gs c c' :
  fold_groups gs c = Some c' -> age_result s_maxage d_s_maxage gs c c'.
Proof.
  apply fold_age. intros g c0 c1 H. apply group_clauses in H as [_ (_ & _ & _ & _ & H5 & _)]. exact H5.
Qed.

Lemma fold_max_age gs c c' :
  fold_groups gs c = Some c' -> age_result max_age d_max_age gs c c'.
Proof.
  apply fold_age. intros g c0 c1 H. apply group_clauses in H as [_ (_ & _ & _ & _ & _ & H6)]. exact H6.
Qed.
