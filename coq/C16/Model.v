(* C16(a): executable model of v2/pkg/engine/cache/lex.go, cache_control.go and
   v2/pkg/caching/cachecontrol.go (TTL).  Mirrors the Go control flow; no proofs here. *)
From Gv Require Import lib.Bytes.
From Coq Require Import ZArith.
Open Scope N_scope.

(* ---- lex.go ---- *)
Inductive tok :=
| TIdent (lit : bytes)
| TComma
| TEquals
| TString (lit : bytes).

Definition is_ctl (b : byte) : bool := (b <=? 31) || (b =? 127).
Definition is_forbidden (b : byte) : bool := negb (b =? 9) && is_ctl b.
Definition is_ws (b : byte) : bool := (b =? 32) || (b =? 9).
Definition is_printable (b : byte) : bool := (32 <=? b) && (b <=? 126).
(* parens, angle brackets, at, comma, semicolon, colon, backslash, dquote, slash, square brackets, question mark, equals, braces, SP, HTAB *)
Definition invalid_tokchars : list byte :=
  [40; 41; 60; 62; 64; 44; 59; 58; 92; 34; 47; 91; 93; 63; 61; 123; 125; 32; 9].
Definition is_invalid_tokchar (b : byte) : bool := existsb (N.eqb b) invalid_tokchars.

Inductive lstate :=
| LStart
| LIdent (acc_rev : bytes)
| LString (acc_rev : bytes).

(* One pass over the bytes; [toks_rev] accumulates tokens.  None = lexer error. *)
Fixpoint lex (st : lstate) (s : bytes) (toks_rev : list tok) : option (list tok) :=
  match s with
  | [] =>
    match st with
    | LStart => Some (rev toks_rev)
    | LIdent acc => Some (rev (TIdent (rev acc) :: toks_rev))
    | LString _ => None                               (* unexpected end of input *)
    end
  | b :: r =>
    if is_forbidden b then None else
    match st with
    | LStart =>
      if is_ws b then lex LStart r toks_rev
      else if b =? 61 then lex LStart r (TEquals :: toks_rev)
      else if b =? 44 then lex LStart r (TComma :: toks_rev)
      else if b =? 34 then lex (LString []) r toks_rev
      else lex (LIdent [b]) r toks_rev               (* first byte of an ident is not validated *)
    | LIdent acc =>
      if b =? 44 then lex LStart r (TComma :: TIdent (rev acc) :: toks_rev)
      else if b =? 61 then lex LStart r (TEquals :: TIdent (rev acc) :: toks_rev)
      else if is_ws b then lex LStart r (TIdent (rev acc) :: toks_rev)
      else if negb (is_printable b) || is_invalid_tokchar b then None
      else lex (LIdent (b :: acc)) r toks_rev
    | LString acc =>
      if b =? 34 then lex LStart r (TString (rev acc) :: toks_rev)
      else lex (LString (b :: acc)) r toks_rev
    end
  end.

Definition tokenize (s : bytes) : option (list tok) := lex LStart s [].

(* ---- cache_control.go ---- *)
Record fieldnames := { fn_locked : bool; fn_names : list bytes }.
Record cc := {
  max_age : option N;
  s_maxage : option N;
  no_store : bool;
  no_cache : option fieldnames;
  is_public : bool;
  is_private : option fieldnames }.
Definition cc_empty : cc :=
  {| max_age := None; s_maxage := None; no_store := false; no_cache := None;
     is_public := false; is_private := None |}.

Definition max_int32 : N := 2147483647.

(* deltaSecondsArgument: None = error *)
Definition delta_seconds (present : bool) (text : bytes) : option N :=
  if negb present then None else
  match text with
  | [] => None
  | _ => if forallb is_digit text
         then Some (N.min (dec_value text) max_int32)
         else None
  end.

(* strings.TrimSpace on a Go string: ASCII white space and the UTF-8 encodings of the
   Unicode White_Space runes.  Inside a token text no control byte other than TAB occurs,
   but the model keeps the whole set. *)
Definition ascii_space (b : byte) : bool :=
  (b =? 32) || ((9 <=? b) && (b <=? 13)).
Definition strip_space_prefix (s : bytes) : option bytes :=
  match s with
  | b :: r =>
    if ascii_space b then Some r else
    match s with
    | 194 :: 133 :: r2 => Some r2
    | 194 :: 160 :: r2 => Some r2
    | 225 :: 154 :: 128 :: r3 => Some r3
    | 226 :: 128 :: c :: r3 =>
      if ((128 <=? c) && (c <=? 138)) || (c =? 168) || (c =? 169) || (c =? 175) then Some r3 else None
    | 226 :: 129 :: 159 :: r3 => Some r3
    | 227 :: 128 :: 128 :: r3 => Some r3
    | _ => None
    end
  | [] => None
  end.
Fixpoint trim_left (fuel : nat) (s : bytes) : bytes :=
  match fuel with
  | O => s
  | S f => match strip_space_prefix s with Some r => trim_left f r | None => s end
  end.
(* the same on the reversed string: suffixes become reversed prefixes *)
Definition strip_space_suffix_rev (s : bytes) : option bytes :=
  match s with
  | b :: r =>
    if ascii_space b then Some r else
    match s with
    | 133 :: 194 :: r2 => Some r2
    | 160 :: 194 :: r2 => Some r2
    | 128 :: 154 :: 225 :: r3 => Some r3
    | c :: 128 :: 226 :: r3 =>
      if ((128 <=? c) && (c <=? 138)) || (c =? 168) || (c =? 169) || (c =? 175) then Some r3 else None
    | 159 :: 129 :: 226 :: r3 => Some r3
    | 128 :: 128 :: 227 :: r3 => Some r3
    | _ => None
    end
  | [] => None
  end.
Fixpoint trim_right_rev (fuel : nat) (s : bytes) : bytes :=
  match fuel with
  | O => s
  | S f => match strip_space_suffix_rev s with Some r => trim_right_rev f r | None => s end
  end.
Definition trim_space (s : bytes) : bytes :=
  let l := trim_left (length s) s in
  rev (trim_right_rev (length l) (rev l)).

Fixpoint split_comma (cur_rev : bytes) (s : bytes) : list bytes :=
  match s with
  | [] => [rev cur_rev]
  | b :: r => if b =? 44 then rev cur_rev :: split_comma [] r else split_comma (b :: cur_rev) r
  end.

Definition fn_add (f : fieldnames) (name : bytes) : fieldnames :=
  if fn_locked f then f
  else if mem_bytes name (fn_names f) then f
  else {| fn_locked := false; fn_names := fn_names f ++ [name] |}.
Definition fn_lock (f : fieldnames) : fieldnames := {| fn_locked := true; fn_names := fn_names f |}.

(* fieldNamesArgument *)
Definition field_names_argument (present : bool) (text : bytes) (f : fieldnames) : fieldnames :=
  if negb present then fn_lock f else
  let elems := filter (fun e => match e with [] => false | _ => true end)
                      (map trim_space (split_comma [] text)) in
  match elems with
  | [] => fn_lock f
  | _ => fold_left fn_add elems f
  end.
Definition fn_new : fieldnames := {| fn_locked := false; fn_names := [] |}.

Definition d_max_age : bytes := [109;97;120;45;97;103;101].
Definition d_s_maxage : bytes := [115;45;109;97;120;97;103;101].
Definition d_no_store : bytes := [110;111;45;115;116;111;114;101].
Definition d_public : bytes := [112;117;98;108;105;99].
Definition d_no_cache : bytes := [110;111;45;99;97;99;104;101].
Definition d_private : bytes := [112;114;105;118;97;116;101].

(* parseIdent after readArgument; None = error *)
Definition apply_directive (name : bytes) (present : bool) (text : bytes) (c : cc) : option cc :=
  let n := lower name in
  if bytes_eqb n d_max_age then
    match max_age c with
    | Some _ => Some c
    | None => match delta_seconds present text with
              | None => None
              | Some v => Some {| max_age := Some v; s_maxage := s_maxage c; no_store := no_store c;
                                  no_cache := no_cache c; is_public := is_public c; is_private := is_private c |}
              end
    end
  else if bytes_eqb n d_s_maxage then
    match s_maxage c with
    | Some _ => Some c
    | None => match delta_seconds present text with
              | None => None
              | Some v => Some {| max_age := max_age c; s_maxage := Some v; no_store := no_store c;
                                  no_cache := no_cache c; is_public := is_public c; is_private := is_private c |}
              end
    end
  else if bytes_eqb n d_no_store then
    Some {| max_age := max_age c; s_maxage := s_maxage c; no_store := true;
            no_cache := no_cache c; is_public := is_public c; is_private := is_private c |}
  else if bytes_eqb n d_public then
    Some {| max_age := max_age c; s_maxage := s_maxage c; no_store := no_store c;
            no_cache := no_cache c; is_public := true; is_private := is_private c |}
  else if bytes_eqb n d_no_cache then
    let f := match no_cache c with Some f => f | None => fn_new end in
    Some {| max_age := max_age c; s_maxage := s_maxage c; no_store := no_store c;
            no_cache := Some (field_names_argument present text f);
            is_public := is_public c; is_private := is_private c |}
  else if bytes_eqb n d_private then
    let f := match is_private c with Some f => f | None => fn_new end in
    Some {| max_age := max_age c; s_maxage := s_maxage c; no_store := no_store c;
            no_cache := no_cache c; is_public := is_public c;
            is_private := Some (field_names_argument present text f) |}
  else Some c.

Definition bind {A B} (o : option A) (f : A -> option B) : option B :=
  match o with Some a => f a | None => None end.

(* parse(): the token loop.  readArgument is inlined as the nested match so that the
   recursion is structural on the token list. *)
Fixpoint parse_toks (ts : list tok) (c : cc) : option cc :=
  match ts with
  | [] => Some c
  | TComma :: r => parse_toks r c
  | TEquals :: _ => None
  | TString _ :: _ => None
  | TIdent name :: r =>
    match r with
    | TEquals :: TString s :: r2 =>
      match r2 with
      | [] => apply_directive name true s c
      | TComma :: r3 => bind (apply_directive name true s c) (parse_toks r3)
      | _ => None                       (* junk after a closing quote *)
      end
    | TEquals :: TIdent s :: r2 =>
      match r2 with
      | [] => apply_directive name true s c
      | TComma :: r3 => bind (apply_directive name true s c) (parse_toks r3)
      | _ => None
      end
    | TEquals :: r2 =>                  (* "=" with nothing usable after it *)
      match r2 with
      | [] => apply_directive name true [] c
      | TComma :: r3 => bind (apply_directive name true [] c) (parse_toks r3)
      | _ => None
      end
    | [] => apply_directive name false [] c
    | TComma :: r3 => bind (apply_directive name false [] c) (parse_toks r3)
    | _ => None
    end
  end.

Definition parse (s : bytes) : option cc :=
  bind (tokenize s) (fun ts => parse_toks ts cc_empty).

(* strings.Join(values, ",") *)
Fixpoint join_comma (l : list bytes) : bytes :=
  match l with
  | [] => []
  | [x] => x
  | x :: r => x ++ 44 :: join_comma r
  end.

(* strings.Trim(s, "\t\r\n") *)
Definition in_cutset (b : byte) : bool := (b =? 9) || (b =? 13) || (b =? 10).
Fixpoint drop_while {A} (p : A -> bool) (l : list A) : list A :=
  match l with
  | [] => []
  | x :: r => if p x then drop_while p r else l
  end.
Definition trim_cutset (s : bytes) : bytes :=
  rev (drop_while in_cutset (rev (drop_while in_cutset s))).

Definition parse_cache_control (values : list bytes) : option cc :=
  match trim_cutset (join_comma values) with
  | [] => Some cc_empty
  | v => parse v
  end.

(* ---- caching.TTL; durations in nanoseconds ---- *)
Definition second : Z := 1000000000%Z.
Definition ttl (values : list bytes) (default_ns : Z) : option Z :=
  match parse_cache_control values with
  | None => None
  | Some c =>
    if no_store c then None else
    match no_cache c, is_private c with
    | None, None =>
      if negb (is_public c) then None else
      match s_maxage c with
      | Some v => if (v =? 0) then None else Some (Z.of_N v * second)%Z
      | None =>
        match max_age c with
        | Some v => if (v =? 0) then None else Some (Z.of_N v * second)%Z
        | None => if (default_ns <=? 0)%Z then None else Some default_ns
        end
      end
    | _, _ => None
    end
  end.
