(* C16(a): what the specification reads off one element, given the token group that the
   element lexes to ([ProofsLex.R]). *)
From Gv Require Import lib.Bytes C16.Model C16.Spec C16.ProofsLex.
From Coq Require Import ZArith Lia ZifyBool ZifyN.
Open Scope N_scope.

Local Arguments N.eqb : simpl never.
Local Arguments N.leb : simpl never.
Local Arguments sp_ws : simpl never.
Local Arguments is_printable : simpl never.
Local Arguments is_invalid_tokchar : simpl never.
Local Arguments to_lower : simpl never.

(* name and argument of a token group *)
Definition gnm (g : list tok) : bytes := match g with TIdent n :: _ => lower n | _ => [] end.
Definition garg (g : list tok) : option bytes :=
  match g with
  | [TIdent _; TEquals; TIdent s] => Some s
  | [TIdent _; TEquals; TString s] => Some s
  | _ => None
  end.
Definition headok (g : list tok) : bool :=
  match g with [] => true | TIdent _ :: _ => true | _ => false end.

(* ---- first token produced from a non-start state ---- *)
Lemma lexT_string_head r : forall acc g, lexT (LString acc) r = Some g -> exists s g', g = TString s :: g'.
Proof.
  induction r as [|b r IH]; intros acc g H; simpl in H; [discriminate|].
  destruct (b =? 34); [otc_inv; eauto|eauto].
Qed.

Lemma lexT_ident_name r : forall acc g,
  lexT (LIdent acc) r = Some g -> nocomma g = true ->
  exists m g', g = TIdent (rev acc ++ m) :: g' /\ sp_take_name r = map to_lower m.
Proof.
  induction r as [|b r IH]; intros acc g H NC; simpl in H.
  - inversion H; subst. exists [], []. rewrite app_nil_r. auto.
  - destruct (b =? 44) eqn:E44; [otc_inv; discriminate|].
    destruct (b =? 61) eqn:E61.
    { otc_inv. exists [], (TEquals :: l0). rewrite app_nil_r. simpl. rewrite E61, orb_true_r. auto. }
    destruct (sp_ws b) eqn:Ews.
    { otc_inv. exists [], l. rewrite app_nil_r. simpl. rewrite Ews. auto. }
    destruct (negb (is_printable b) || is_invalid_tokchar b) eqn:Einv; [discriminate|].
    destruct (IH _ _ H NC) as (m & g' & Hg & Hn). exists (b :: m), g'. split.
    + rewrite Hg. simpl. rewrite <- app_assoc. reflexivity.
    + simpl. rewrite Ews, E61. simpl. rewrite Hn. reflexivity.
Qed.

(* ---- the directive name ---- *)
Lemma elem_name_group e : forall g,
  lexT LStart e = Some g -> nocomma g = true -> headok g = true -> elem_name e = gnm g.
Proof.
  unfold elem_name, gnm, lower.
  induction e as [|b r IH]; intros g H NC HO; simpl in H.
  - inversion H; subst. reflexivity.
  - simpl sp_drop_ws. destruct (sp_ws b) eqn:Ews; [eauto|].
    destruct (b =? 61) eqn:E61; [otc_inv; discriminate|].
    destruct (b =? 44) eqn:E44; [otc_inv; discriminate|].
    destruct (b =? 34) eqn:E34.
    { apply lexT_string_head in H as (s & g' & ->). discriminate. }
    destruct (lexT_ident_name _ _ _ H NC) as (m & g' & -> & Hn).
    simpl. rewrite Ews, E61. simpl. rewrite Hn. reflexivity.
Qed.

(* ---- what follows the name ---- *)
Lemma lexT_start_equals r : forall g',
  lexT LStart r = Some (TEquals :: g') ->
  exists r', sp_drop_ws r = 61 :: r' /\ lexT LStart r' = Some g'.
Proof.
  induction r as [|b r IH]; intros g' H; simpl in H; [discriminate|].
  simpl. destruct (sp_ws b) eqn:Ews; [eauto|].
  destruct (b =? 61) eqn:E61.
  { otc_inv. apply N.eqb_eq in E61. subst. eauto. }
  destruct (b =? 44) eqn:E44; [otc_inv; discriminate|].
  destruct (b =? 34) eqn:E34.
  { apply lexT_string_head in H as (s & g1 & Hg). discriminate. }
  assert (NC : nocomma [] = true) by reflexivity.
  exfalso. clear IH. revert H. generalize [b]. induction r as [|c r IHr]; intros acc H; simpl in H.
  - discriminate.
  - destruct (c =? 44); [otc_inv; discriminate|].
    destruct (c =? 61); [otc_inv; discriminate|].
    destruct (sp_ws c); [otc_inv; discriminate|].
    destruct (negb (is_printable c) || is_invalid_tokchar c); [discriminate|eauto].
Qed.

Lemma lexT_ident_equals r : forall acc n g',
  lexT (LIdent acc) r = Some (TIdent n :: TEquals :: g') ->
  exists r', sp_drop_ws (sp_after_name r) = 61 :: r' /\ lexT LStart r' = Some g'.
Proof.
  induction r as [|b r IH]; intros acc n g' H; simpl in H; [discriminate|].
  destruct (b =? 44) eqn:E44; [otc_inv; discriminate|].
  destruct (b =? 61) eqn:E61.
  { otc_inv. apply N.eqb_eq in E61. subst.
    exists r. simpl. auto. }
  destruct (sp_ws b) eqn:Ews.
  { otc_inv. simpl. rewrite Ews. simpl. rewrite Ews.
    apply lexT_start_equals. exact E. }
  destruct (negb (is_printable b) || is_invalid_tokchar b) eqn:Einv; [discriminate|].
  simpl. rewrite Ews, E61. simpl. eauto.
Qed.

Lemma lexT_after_name e : forall n g',
  lexT LStart e = Some (TIdent n :: TEquals :: g') ->
  exists r, sp_drop_ws (sp_after_name (sp_drop_ws e)) = 61 :: r /\ lexT LStart r = Some g'.
Proof.
  induction e as [|b r IH]; intros n g' H; simpl in H; [discriminate|].
  simpl sp_drop_ws. destruct (sp_ws b) eqn:Ews; [eauto|].
  destruct (b =? 61) eqn:E61; [otc_inv; discriminate|].
  destruct (b =? 44) eqn:E44; [otc_inv; discriminate|].
  destruct (b =? 34) eqn:E34.
  { apply lexT_string_head in H as (s & g1 & Hg). discriminate. }
  simpl. rewrite Ews, E61. simpl. eapply lexT_ident_equals. exact H.
Qed.

(* ---- shape of an argument ---- *)
Lemma lexT_start_nil r : lexT LStart r = Some [] -> allws r = true.
Proof.
  induction r as [|b r IH]; intros H; simpl in H; [reflexivity|].
  simpl. destruct (sp_ws b) eqn:Ews; [auto|].
  destruct (b =? 61); [otc_inv; discriminate|].
  destruct (b =? 44); [otc_inv; discriminate|].
  destruct (b =? 34).
  { apply lexT_string_head in H as (s & g1 & Hg). discriminate. }
  destruct (lexT_ident_name _ _ _ H eq_refl) as (m & g' & Hg & _). discriminate.
Qed.

Lemma lexT_ident_single r : forall acc s,
  lexT (LIdent acc) r = Some [TIdent s] ->
  exists m w2, r = m ++ w2 /\ s = rev acc ++ m /\ allws w2 = true.
Proof.
  induction r as [|b r IH]; intros acc s H; simpl in H.
  - inversion H; subst. exists [], []. rewrite !app_nil_r. auto.
  - destruct (b =? 44); [otc_inv; discriminate|].
    destruct (b =? 61); [otc_inv; discriminate|].
    destruct (sp_ws b) eqn:Ews.
    { otc_inv. apply lexT_start_nil in E.
      exists [], (b :: r). rewrite app_nil_r. simpl. rewrite Ews, E. auto. }
    destruct (negb (is_printable b) || is_invalid_tokchar b); [discriminate|].
    destruct (IH _ _ H) as (m & w2 & -> & -> & Hw). exists (b :: m), w2.
    simpl. rewrite <- app_assoc. auto.
Qed.

Lemma lexT_single_ident r : forall s,
  lexT LStart r = Some [TIdent s] ->
  exists w1 w2, r = w1 ++ s ++ w2 /\ allws w1 = true /\ allws w2 = true.
Proof.
  induction r as [|b r IH]; intros s H; simpl in H; [discriminate|].
  destruct (sp_ws b) eqn:Ews.
  { destruct (IH _ H) as (w1 & w2 & -> & H1 & H2). exists (b :: w1), w2.
    simpl. rewrite Ews. auto. }
  destruct (b =? 61); [otc_inv; discriminate|].
  destruct (b =? 44); [otc_inv; discriminate|].
  destruct (b =? 34).
  { apply lexT_string_head in H as (s' & g1 & Hg). discriminate. }
  destruct (lexT_ident_single _ _ _ H) as (m & w2 & -> & -> & Hw).
  exists [], w2. simpl. auto.
Qed.

Lemma lexT_string_single r : forall acc s,
  lexT (LString acc) r = Some [TString s] ->
  exists m w2, r = m ++ 34 :: w2 /\ s = rev acc ++ m /\ allws w2 = true.
Proof.
  induction r as [|b r IH]; intros acc s H; simpl in H; [discriminate|].
  destruct (b =? 34) eqn:E34.
  { otc_inv. apply lexT_start_nil in E. apply N.eqb_eq in E34. subst.
    exists [], r. rewrite app_nil_r. auto. }
  destruct (IH _ _ H) as (m & w2 & -> & -> & Hw). exists (b :: m), w2.
  simpl. rewrite <- app_assoc. auto.
Qed.

Lemma lexT_single_string r : forall s,
  lexT LStart r = Some [TString s] ->
  exists w1 w2, r = w1 ++ (34 :: s ++ [34]) ++ w2 /\ allws w1 = true /\ allws w2 = true.
Proof.
  induction r as [|b r IH]; intros s H; simpl in H; [discriminate|].
  destruct (sp_ws b) eqn:Ews.
  { destruct (IH _ H) as (w1 & w2 & -> & H1 & H2). exists (b :: w1), w2.
    simpl. rewrite Ews. auto. }
  destruct (b =? 61); [otc_inv; discriminate|].
  destruct (b =? 44); [otc_inv; discriminate|].
  destruct (b =? 34) eqn:E34.
  { destruct (lexT_string_single _ _ _ H) as (m & w2 & -> & -> & Hw).
    apply N.eqb_eq in E34. subst. exists [], w2. simpl. rewrite <- app_assoc. auto. }
  destruct (lexT_ident_name _ _ _ H eq_refl) as (m & g' & Hg & _). discriminate.
Qed.

(* ---- trimming white space on both sides ---- *)
Lemma drop_ws_allws w s : allws w = true -> sp_drop_ws (w ++ s) = sp_drop_ws s.
Proof.
  induction w as [|b w IH]; simpl; intros H; [reflexivity|].
  apply andb_prop in H as [H1 H2]. rewrite H1. auto.
Qed.

Lemma allws_rev w : allws w = true -> allws (rev w) = true.
Proof.
  unfold allws. rewrite !forallb_forall. intros H x Hx. apply H. apply in_rev. exact Hx.
Qed.

Lemma trim_both w1 m w2 x m' y m'' :
  allws w1 = true -> allws w2 = true ->
  m = x :: m' -> sp_ws x = false -> rev m = y :: m'' -> sp_ws y = false ->
  rev (sp_drop_ws (rev (sp_drop_ws (w1 ++ m ++ w2)))) = m.
Proof.
  intros H1 H2 Hm Hx Hr Hy. rewrite drop_ws_allws by exact H1.
  assert (E : sp_drop_ws (m ++ w2) = m ++ w2).
  { rewrite Hm. simpl. rewrite Hx. reflexivity. }
  rewrite E, rev_app_distr, drop_ws_allws by (apply allws_rev; exact H2).
  rewrite Hr. simpl. rewrite Hy. rewrite <- Hr. apply rev_involutive.
Qed.

Lemma strip_quotes_other x s : x <> 34 -> sp_strip_quotes (x :: s) = x :: s.
Proof.
  intros H. unfold sp_strip_quotes. destruct x as [|p]; [reflexivity|].
  repeat (destruct p as [p|p|]; try reflexivity).
  exfalso. apply H. reflexivity.
Qed.

Lemma strip_quotes_quoted s : sp_strip_quotes (34 :: s ++ [34]) = s.
Proof.
  unfold sp_strip_quotes. rewrite rev_app_distr. simpl. apply rev_involutive.
Qed.

(* ---- delta-seconds of an element ---- *)
Lemma elem_seconds_group e g s :
  lexT LStart e = Some g -> garg g = Some s ->
  s <> [] -> forallb is_digit s = true -> elem_seconds e = dec_value s.
Proof.
  intros H Hg Hne Hd.
  destruct s as [|x s']; [congruence|].
  assert (Hx : is_digit x = true) by (simpl in Hd; apply andb_prop in Hd; tauto).
  destruct (digit_plain x Hx) as (Hxw & Hx34).
  destruct (rev (x :: s')) as [|y t] eqn:Hrev.
  { apply (f_equal (@length _)) in Hrev. rewrite rev_length in Hrev. discriminate. }
  assert (Hy : is_digit y = true).
  { rewrite forallb_forall in Hd. apply Hd. apply in_rev. rewrite Hrev. left. reflexivity. }
  destruct (digit_plain y Hy) as (Hyw & _).
  unfold elem_seconds.
  destruct g as [|[n| | |] [|[| | |] [|[a| | |a] [|]]]]; try discriminate; simpl in Hg; inversion Hg; subst a.
  - destruct (lexT_after_name _ _ _ H) as (r & -> & Hr).
    destruct (lexT_single_ident _ _ Hr) as (w1 & w2 & -> & H1 & H2).
    pose proof (trim_both w1 (x :: s') w2 x s' y t H1 H2 eq_refl Hxw Hrev Hyw) as T.
    unfold byte, bytes in *. rewrite T.
    rewrite strip_quotes_other by (apply N.eqb_neq; exact Hx34).
    unfold byte in *. rewrite Hd. reflexivity.
  - destruct (lexT_after_name _ _ _ H) as (r & -> & Hr).
    destruct (lexT_single_string _ _ Hr) as (w1 & w2 & -> & H1 & H2).
    assert (Hq : sp_ws 34 = false) by reflexivity.
    assert (Hrq : rev (34 :: (x :: s') ++ [34]) = 34 :: rev (x :: s') ++ [34]).
    { simpl. rewrite rev_app_distr. reflexivity. }
    pose proof (trim_both w1 _ w2 34 _ 34 _ H1 H2 eq_refl Hq Hrq Hq) as T.
    unfold byte, bytes in *. rewrite T.
    rewrite strip_quotes_quoted. unfold byte in *. rewrite Hd. reflexivity.
Qed.
