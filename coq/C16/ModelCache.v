(* C16 part (b): the entity response cache of v2/pkg/engine/resolve/response_cache.go as a layer
   around the subgraph exchange of the shared loader model (C07.Model): responseCacheLookup
   (all-or-nothing GetMany, synthesised _entities response on a full hit), responseCacheCollect
   (only from error-free < 400 responses whose Cache-Control headers give a TTL -- the decision
   is C16.Model.ttl of part (a)), responseCacheFlush (SetMany after the merge).

   The cache key is (entity representation hash) x (selection hash of header|0|footer); both
   hashes are abstracted to the bytes they hash.  Cached values are JSON trees (MarshalTo followed
   by a re-parse on a hit is tied by the correspondence).  The Cache implementation is the lab's
   recording cache: an association list that never expires (time is outside the model), with
   injected faults by call index: Get error, Set error, partial Set, evictions (partial hits). *)
From Gv Require Import lib.Bytes lib.Json C02.Model C07.Model C16.Model C16.Spec.
From Coq Require Import ZArith.
Open Scope N_scope.

Record ckey := { ck_rep : bytes; ck_header : bytes; ck_footer : bytes }.
Definition ckey_eqb (a b : ckey) : bool :=
  bytes_eqb (ck_rep a) (ck_rep b) && bytes_eqb (ck_header a) (ck_header b) && bytes_eqb (ck_footer a) (ck_footer b).
Record centry := { ce_key : ckey; ce_value : json; ce_ttl : Z }.
Definition cache := list centry.

Fixpoint cache_get (k : ckey) (c : cache) : option centry :=
  match c with
  | [] => None
  | e :: r => if ckey_eqb k (ce_key e) then Some e else cache_get k r
  end.
Fixpoint cache_del (k : ckey) (c : cache) : cache :=
  match c with
  | [] => []
  | e :: r => if ckey_eqb k (ce_key e) then cache_del k r else e :: cache_del k r
  end.
Definition cache_put (e : centry) (c : cache) : cache := e :: cache_del (ce_key e) c.

Inductive cfault := CFNone | CFGetErr | CFSetErr | CFSetPartial | CFEvictOne | CFEvictAll.

Inductive cop :=
| OpGet (keys found : list ckey) (err : bool)
| OpSet (items : list centry) (stored : list ckey) (err : bool).

Record cstate := {
  cs_cache : cache;
  cs_calls : nat;                              (* number of cache calls so far (fault index) *)
  cs_run : nat;                                (* index of the client request in the history *)
  cs_log : list cop;
  cs_upstream : list (nat * request * response); (* (run, request, response) sent upstream *)
  cs_reported : nat                            (* cache errors handed to onError *)
}.

Definition keys_of (rq : request) : list ckey :=
  map (fun rep => {| ck_rep := rep; ck_header := rq_header rq; ck_footer := rq_footer rq |}) (rq_reps rq).

Fixpoint evict_first (keys : list ckey) (c : cache) : cache :=
  match keys with
  | [] => c
  | k :: r => match cache_get k c with Some _ => cache_del k c | None => evict_first r c end
  end.

Definition entities_response (vals : list json) : response :=
  {| rs_err := false; rs_status := 200;
     rs_body := BJson (JObj [(k_data, JObj [(k_entities, JArr vals)])]); rs_cc := [] |}.

Section Cache.
  Variable oracle : request -> response.             (* the subgraphs (deterministic) *)
  Variable headers : nat -> N -> list bytes.         (* Cache-Control values of the response to (client request, fetch) *)
  Variable cfaults : nat -> cfault.                  (* by cache call index *)
  Variable default_ttl : Z.

  Definition with_cc (r : response) (cc : list bytes) : response :=
    {| rs_err := rs_err r; rs_status := rs_status r; rs_body := rs_body r; rs_cc := cc |}.

  (* responseCacheLookup: Some values on a full hit *)
  Definition lookup (x : cstate) (keys : list ckey) : option (list json) * cstate :=
    let f := cfaults (cs_calls x) in
    match f with
    | CFGetErr =>
      (None, {| cs_cache := cs_cache x; cs_calls := S (cs_calls x); cs_run := cs_run x;
                cs_log := cs_log x ++ [OpGet keys [] true]; cs_upstream := cs_upstream x; cs_reported := S (cs_reported x) |})
    | _ =>
      let c := match f with
               | CFEvictOne => evict_first keys (cs_cache x)
               | CFEvictAll => []
               | _ => cs_cache x
               end in
      let found := filter (fun k => match cache_get k c with Some _ => true | None => false end) keys in
      let x' := {| cs_cache := c; cs_calls := S (cs_calls x); cs_run := cs_run x;
                   cs_log := cs_log x ++ [OpGet keys found false]; cs_upstream := cs_upstream x; cs_reported := cs_reported x |} in
      if Nat.eqb (length found) (length keys)
      then (Some (map (fun k => match cache_get k c with Some e => ce_value e | None => JNull end) keys), x')
      else (None, x')
    end.

  Inductive collected := CNothing | CError | CItems (items : list centry).

  (* responseCacheCollect *)
  Definition collect (keys : list ckey) (res : response) : collected :=
    if rs_err res then CNothing else
    match rs_body res with
    | BEmpty => CNothing
    | BInvalid => if 400 <=? rs_status res then CNothing else CError
    | BJson resp =>
      if 400 <=? rs_status res then CNothing else
      if negb (valid_numbers resp) then CError else                  (* parsedResponse rejects non-JSON number tokens *)
      match get_loc [PName k_errors] resp with
      | Some (JArr (_ :: _)) => CNothing
      | _ =>
        match ttl (rs_cc res) default_ttl with
        | None => CNothing
        | Some t =>
          match get_loc [PName k_data; PName k_entities] resp with
          | Some (JArr vals) =>
            if Nat.eqb (length vals) (length keys) then
              CItems (flat_map (fun kv => match snd kv with
                                          | JObj _ => [{| ce_key := fst kv; ce_value := snd kv; ce_ttl := t |}]
                                          | _ => []
                                          end) (combine keys vals))
            else CError
          | _ => CError
          end
        end
      end
    end.

  (* responseCacheFlush *)
  Definition flush (x : cstate) (items : list centry) : cstate :=
    match items with
    | [] => x
    | _ =>
      let f := cfaults (cs_calls x) in
      let stored := match f with CFSetErr => [] | CFSetPartial => firstn (Nat.div2 (length items)) items | _ => items end in
      let err := match f with CFSetErr | CFSetPartial => true | _ => false end in
      {| cs_cache := fold_left (fun c e => cache_put e c) stored (cs_cache x);
         cs_calls := S (cs_calls x); cs_run := cs_run x;
         cs_log := cs_log x ++ [OpSet items (map ce_key stored) err];
         cs_upstream := cs_upstream x; cs_reported := if err then S (cs_reported x) else cs_reported x |}
    end.

  Definition upstream (x : cstate) (rq : request) : response * cstate :=
    let res := with_cc (oracle rq) (headers (cs_run x) (rq_fetch rq)) in
    (res, {| cs_cache := cs_cache x; cs_calls := cs_calls x; cs_run := cs_run x; cs_log := cs_log x;
             cs_upstream := cs_upstream x ++ [(cs_run x, rq, res)]; cs_reported := cs_reported x |}).

  Definition report (x : cstate) : cstate :=
    {| cs_cache := cs_cache x; cs_calls := cs_calls x; cs_run := cs_run x; cs_log := cs_log x;
       cs_upstream := cs_upstream x; cs_reported := S (cs_reported x) |}.

  (* loadPhase + responseCacheCollect + responseCacheFlush for one request *)
  Definition exchange_cache (x : cstate) (rq : request) : response * cstate :=
    match keys_of rq with
    | [] => upstream x rq
    | keys =>
      match lookup x keys with
      | (Some vals, x1) => (entities_response vals, x1)
      | (None, x1) =>
        let '(res, x2) := upstream x1 rq in
        match collect keys res with
        | CNothing => (res, x2)
        | CError => (res, report x2)
        | CItems items => (res, flush x2 items)
        end
      end
    end.

  (* without a cache: the same subgraphs, the same header assignment *)
  Definition exchange_plain (x : cstate) (rq : request) : response * cstate := upstream x rq.

  Definition next_run (x : cstate) : cstate :=
    {| cs_cache := cs_cache x; cs_calls := cs_calls x; cs_run := S (cs_run x); cs_log := cs_log x;
       cs_upstream := cs_upstream x; cs_reported := cs_reported x |}.

  Definition init_cstate : cstate :=
    {| cs_cache := []; cs_calls := 0; cs_run := 0; cs_log := []; cs_upstream := []; cs_reported := 0 |}.

  (* a history of client requests (response plan, fetch tree) over one cache *)
  Fixpoint run_history (exch : cstate -> request -> response * cstate) (h : list (node * ftree)) (x : cstate)
    : list outcome * cstate :=
    match h with
    | [] => ([], x)
    | (root, t) :: r =>
      let '(s, x1) := load cstate exch t x in
      let '(outs, x2) := run_history exch r (next_run x1) in
      (finish root s :: outs, x2)
    end.
End Cache.

(* ---- the pointwise deterministic subgraphs of the theorems: the answer to a request is a function
   of its bytes -- per representation for entity requests (header and footer are the operation) *)
Section Pointwise.
  Variable answer : bytes -> bytes -> bytes -> json * list json.   (* header, footer, representation *)
  Variable root_answer : bytes -> json * list json.                 (* whole input of a root fetch *)
  Definition is_single (rq : request) : bool := match rq_reps rq with [] => true | _ => false end.
  Definition pw_oracle (rq : request) : response :=
    clean_response (fun _ rep => answer (rq_header rq) (rq_footer rq) rep) (fun _ => root_answer (rq_header rq)) rq (is_single rq).
End Pointwise.

(* ---- what "stored" must imply (the theorem's predicate): the entry was taken from an upstream
   response that is error free and < 400 and whose Cache-Control values make part (a)'s [ttl]
   return the entry's lifetime -- hence public, no refusing directive, lifetime within the header's *)
Definition resp_has_errors (res : response) : bool :=
  match rs_body res with
  | BJson resp => match get_loc [PName k_errors] resp with Some (JArr (_ :: _)) => true | _ => false end
  | _ => false
  end.
Definition stored_from (default_ttl : Z) (e : centry) (rq : request) (res : response) : Prop :=
  In (ce_key e) (keys_of rq) /\
  rs_err res = false /\ (rs_status res <? 400) = true /\ resp_has_errors res = false /\
  ttl (rs_cc res) default_ttl = Some (ce_ttl e) /\
  storable_ok false (rs_cc res) default_ttl (Some (ce_ttl e)) /\
  (* the entry pairs the key with the entity the response holds at that key's position *)
  (exists resp vals, rs_body res = BJson resp /\ get_loc [PName k_data; PName k_entities] resp = Some (JArr vals) /\
                     In (ce_key e, ce_value e) (combine (keys_of rq) vals)).

(* ---- C16(b) specification: boolean checkers evaluated on the implementation's observables
   (upstream requests with their status / error count / Cache-Control values, the recording
   cache's log).  [*_seq] is the number of upstream requests of the client request made so far. *)
Record up_obs := { uo_run : nat; uo_seq : nat; uo_status : N; uo_nerrs : N; uo_cc : list bytes; uo_keys : list ckey;
                   uo_entities : list json (* the `_entities` of the response, in request order *) }.
Record set_obs := { so_run : nat; so_seq : nat; so_items : list (ckey * json * Z) }.
Record get_obs := { go_run : nat; go_seq : nat; go_keys : list ckey; go_found : list ckey; go_err : bool }.

Fixpoint keys_eqb (a b : list ckey) : bool :=
  match a, b with
  | [], [] => true
  | x :: a', y :: b' => ckey_eqb x y && keys_eqb a' b'
  | _, _ => false
  end.

(* the response a SetMany call took its items from: the last upstream request before it *)
Definition source_of (ups : list up_obs) (s : set_obs) : option up_obs :=
  find (fun u => Nat.eqb (uo_run u) (so_run s) && Nat.eqb (S (uo_seq u)) (so_seq s)) ups.

(* stored(e) => clean (< 400, no errors) source whose headers make ttl = Some t, lifetime <= t, and the
   entry pairs a key of that request with the (object) entity the response has AT THAT KEY'S POSITION *)
Definition clean_source_b (u : up_obs) : bool := (uo_status u <? 400) && (uo_nerrs u =? 0).
Definition stored_ok_b (default : Z) (ups : list up_obs) (s : set_obs) : bool :=
  match source_of ups s with
  | None => false
  | Some u =>
    clean_source_b u &&
    match ttl (uo_cc u) default with
    | None => false
    | Some t => forallb (fun it => (0 <? snd it)%Z && (snd it <=? t)%Z &&
                                   existsb (fun kv => ckey_eqb (fst (fst it)) (fst kv) && json_eqb (snd (fst it)) (snd kv) &&
                                                      match snd kv with JObj _ => true | _ => false end)
                                           (combine (uo_keys u) (uo_entities u))) (so_items s)
    end
  end.
(* refused: nothing is stored from a response whose headers give no lifetime *)
Definition refused_b (default : Z) (ups : list up_obs) (s : set_obs) : bool :=
  match source_of ups s with
  | None => false
  | Some u => match ttl (uo_cc u) default with None => false | Some _ => true end
  end.
(* all_or_nothing: a lookup that is not a full hit (miss, partial hit, Get error) is followed by the
   upstream request for all its keys, and every upstream entity request follows such a lookup (a
   full hit sends nothing).  Linked by (client request, number of upstream requests so far, keys). *)
Definition full_hit (g : get_obs) : bool := negb (go_err g) && Nat.eqb (length (go_found g)) (length (go_keys g)).
Definition same_point (u : up_obs) (g : get_obs) : bool :=
  Nat.eqb (uo_run u) (go_run g) && Nat.eqb (uo_seq u) (go_seq g) && keys_eqb (uo_keys u) (go_keys g).
Definition miss_sends_b (ups : list up_obs) (g : get_obs) : bool :=
  full_hit g || existsb (fun u => same_point u g) ups.
Definition sent_has_miss_b (gets : list get_obs) (u : up_obs) : bool :=
  match uo_keys u with
  | [] => true
  | _ => existsb (fun g => negb (full_hit g) && same_point u g) gets
  end.
