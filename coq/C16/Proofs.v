(* C16(a) proofs. *)
From Gv Require Import lib.Bytes C16.Model C16.Spec gen.Anchors_C16.
From Coq Require Import ZArith Lia.
Open Scope N_scope.

(* ---- the model uses exactly the tables found in the Go source today ---- *)
Lemma anchors_ok :
  anchor_directives = [d_max_age; d_s_maxage; d_no_store; d_public; d_no_cache; d_private]
  /\ anchor_invalid_tokchars = invalid_tokchars
  /\ anchor_trim_cutset = [9; 13; 10]
  /\ anchor_join_sep = [44]
  /\ anchor_ctl_hi = 31 /\ anchor_ctl_del = 127.
Proof. repeat split; reflexivity. Qed.

(* ---- the verdict is positive whenever there is one ---- *)
Lemma ttl_positive h d t : ttl h d = Some t -> (0 < t)%Z.
Proof.
  unfold ttl. destruct (parse_cache_control h) as [c|]; [|discriminate].
  destruct (no_store c); [discriminate|].
  destruct (no_cache c); [discriminate|]. destruct (is_private c); [discriminate|].
  destruct (negb (is_public c)); [discriminate|].
  destruct (s_maxage c) as [v|].
  - destruct (v =? 0) eqn:E; [discriminate|]. intros H; inversion H; subst.
    apply N.eqb_neq in E. unfold second. lia.
  - destruct (max_age c) as [v|].
    + destruct (v =? 0) eqn:E; [discriminate|]. intros H; inversion H; subst.
      apply N.eqb_neq in E. unfold second. lia.
    + destruct (d <=? 0)%Z eqn:E; [discriminate|]. intros H; inversion H; subst.
      apply Z.leb_gt in E. exact E.
Qed.

(* ---- RFC reading: refuted on the faithful model (quoted-pair is not implemented) ---- *)
Definition rfc_witness : list bytes :=
  (* a="\", public, b=", no-store, c=" *)
  [[97;61;34;92;34;44;32;112;117;98;108;105;99;44;32;98;61;34;44;32;110;111;45;115;116;111;114;101;44;32;99;61;34]].
Lemma ttl_sound_rfc_refuted_proof :
  exists h d t, ttl h d = Some t /\ has_directive true n_no_store h = true.
Proof. exists rfc_witness, 5%Z, 5%Z. vm_compute. split; reflexivity. Qed.
