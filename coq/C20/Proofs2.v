(* C20 lemmas, part 2: value kinds (list-ness, nullability, __typename), reformulation
   corollaries, refutation witnesses, examples. *)
From Gv Require Import lib.Bytes lib.Json C20.Model C20.Spec C20.Proofs.
From Coq Require Import List NArith Bool Lia Permutation.
Import ListNotations.
Open Scope N_scope.

(* ------------------------------------------------------------------ map_res *)
Lemma map_res_ok : forall {A B} (f : A -> res B) l vs,
  map_res f l = Ok vs -> Forall2 (fun x y => f x = Ok y) l vs.
Proof.
  induction l as [|x r IH]; simpl; intros vs H.
  - inversion H. constructor.
  - destruct (f x) as [y|] eqn:E; simpl in H; try discriminate.
    destruct (map_res f r) as [ys|] eqn:E2; simpl in H; try discriminate.
    inversion H; subst. constructor; auto.
Qed.

(* ------------------------------------------------------------------ list wrappers *)
(* what traverseList can return at a level: null only where that level is declared optional,
   otherwise an array whose items are, recursively, values of the next level *)
Fixpoint list_shape (levels : list bool) (k level : nat) (v : json) : Prop :=
  match v with
  | JNull => nth_error levels level = Some true
  | JArr items => match k with
                  | O => True
                  | S k' => Forall (list_shape levels k' (S level)) items
                  end
  | _ => False
  end.

Lemma traverse_shape : forall em sub hm levels k level data v,
  traverse em sub hm levels k level data = Ok v -> list_shape levels k level v.
Proof.
  induction k as [|k IH]; intros level data v H; simpl in H.
  - destruct (field_by_num 1 data) as [fv|]; try discriminate.
    destruct fv as [s| |w|l|l]; try discriminate.
    + destruct (nth_error levels level) as [[|]|] eqn:E; try discriminate. inversion H; subst. simpl. auto.
    + destruct (field_by_num 1 w) as [lv|]; try discriminate.
      destruct lv as [s| |w2|items|items]; try discriminate.
      * destruct hm.
        -- destruct items; try discriminate. inversion H. simpl. auto.
        -- inversion H. simpl. auto.
      * destruct hm.
        -- destruct (map_res sub items); simpl in H; try discriminate. inversion H. simpl. auto.
        -- inversion H. simpl. auto.
  - destruct (field_by_num 1 data) as [fv|]; try discriminate.
    destruct fv as [s| |w|l|l]; try discriminate.
    + destruct (nth_error levels level) as [[|]|] eqn:E; try discriminate. inversion H; subst. simpl. auto.
    + destruct (field_by_num 1 w) as [lv|]; try discriminate.
      destruct lv as [s| |w2|items|items]; try discriminate.
      * destruct items; try discriminate. inversion H. simpl. constructor.
      * destruct (map_res (traverse em sub hm levels k (S level)) items) as [vs|] eqn:E; simpl in H; try discriminate.
        inversion H; subst. simpl.
        apply map_res_ok in E. clear H. induction E; constructor; auto.
        apply (IH _ _ _ H).
Qed.

(* ------------------------------------------------------------------ kinds of the values *)
Definition level0_optional (m : fmeta) : Prop :=
  match f_md m with Some (_, levels) => nth_error levels 0 = Some true | None => False end.

Lemma action_kind : forall em members d c v,
  field_action em members d c = Ok (ASet v) ->
  if negb (is_empty (f_static (c_meta c))) then exists s, v = JStr s
  else match field_by_name (f_name (c_meta c)) d with
       | Some (FListS _) => is_arr v
       | Some (FListM _) => is_arr v
       | Some FAbsent => v = JNull
       | Some (FMsg _) =>
         f_is_list_type (c_meta c) = true ->
         match f_md (c_meta c) with
         | Some (nesting, levels) => list_shape levels (Nat.pred nesting) 0 v
         | None => False
         end
       | _ => True
       end.
Proof.
  intros em members d c v H. unfold field_action in H.
  destruct (negb (is_empty (f_static (c_meta c)))).
  - destruct members as [|mm mr].
    + inversion H; subst. eexists. reflexivity.
    + destruct (mem_bytes (tname_of d) (mm :: mr)); inversion H; subst. eexists. reflexivity.
  - destruct (field_by_name (f_name (c_meta c)) d) as [fv|]; auto.
    destruct fv as [s| |m|l|l]; auto.
    + inversion H. auto.
    + intros LT. rewrite LT in H.
      unfold flatten_list in H. destruct (f_md (c_meta c)) as [[nesting levels]|]; simpl in H; try discriminate.
      destruct (Nat.ltb (length levels) nesting); simpl in H; try discriminate.
      destruct (traverse em (c_sub c) (c_has_msg c) levels (Nat.pred nesting) 0 m) as [x|] eqn:T; simpl in H; try discriminate.
      inversion H; subst. apply (traverse_shape _ _ _ _ _ _ _ _ T).
    + inversion H. unfold is_arr. eauto.
    + destruct (map_res (c_sub c) l); simpl in H; try discriminate. inversion H. unfold is_arr. eauto.
Qed.

(* a list wrapper at its outermost level: an array, or null where the list is declared nullable *)
Lemma list_shape_top : forall levels k v,
  list_shape levels k 0 v -> is_arr v \/ (v = JNull /\ nth_error levels 0 = Some true).
Proof.
  intros levels k v H. destruct k; destruct v; simpl in H; try contradiction;
    try (right; split; [reflexivity | exact H]); left; unfold is_arr; eauto.
Qed.

(* __typename: a static field of a message without member types yields its static value; with
   member types it yields the protobuf type name of the data exactly when that is a member *)
Lemma typename_action : forall em members d c,
  is_empty (f_static (c_meta c)) = false ->
  field_action em members d c =
    match members with
    | [] => Ok (ASet (JStr (f_static (c_meta c))))
    | _ => if mem_bytes (tname_of d) members then Ok (ASet (JStr (tname_of d))) else Ok ANone
    end.
Proof. intros. unfold field_action. rewrite H. simpl. auto. Qed.

Lemma typename_present : forall em p d d' j n,
  marshal em p d = Ok j ->
  unwrap_oneof (p_oneof p) d = Ok d' ->
  Forall nonflat (pvalid p (tname_of d')) ->
  In n (pvalid p (tname_of d')) ->
  key_coherent em (p_members p) d' n (pvalid p (tname_of d')) ->
  is_empty (f_static (meta_of n)) = false ->
  In (tname_of d') (p_members p) ->
  jget (pkey n) j = Some (JStr (tname_of d')).
Proof.
  intros em p d d' j n H U NF Hin Hco St Mem.
  rewrite (field_value em p d d' j n H U NF Hin Hco).
  unfold paction. rewrite typename_action by (destruct n; exact St).
  destruct (p_members p) as [|mm mr] eqn:E; try contradiction.
  apply mem_bytes_In in Mem. rewrite Mem. reflexivity.
Qed.

(* plan-level value kinds *)
Lemma shape_values : forall em p d d' j n v,
  marshal em p d = Ok j ->
  unwrap_oneof (p_oneof p) d = Ok d' ->
  Forall nonflat (pvalid p (tname_of d')) ->
  In n (pvalid p (tname_of d')) ->
  key_coherent em (p_members p) d' n (pvalid p (tname_of d')) ->
  jget (pkey n) j = Some v ->
  let m := meta_of n in
  if negb (is_empty (f_static m)) then exists s, v = JStr s
  else match field_by_name (f_name m) d' with
       | Some (FListS _) => is_arr v
       | Some (FListM _) => is_arr v
       | Some FAbsent => v = JNull
       | Some (FMsg _) =>
         f_is_list_type m = true -> is_arr v \/ (v = JNull /\ level0_optional m)
       | _ => True
       end.
Proof.
  intros em p d d' j n v H U NF Hin Hco G.
  rewrite (field_value em p d d' j n H U NF Hin Hco) in G.
  unfold paction in G. destruct (field_action em (p_members p) d' (compile_field em n)) as [[x|x|]|] eqn:FA; simpl in G; try discriminate.
  inversion G; subst x. pose proof (action_kind _ _ _ _ _ FA) as K.
  destruct n as [m s]. simpl in *.
  destruct (negb (is_empty (f_static m))); auto.
  destruct (field_by_name (f_name m) d') as [fv|]; auto.
  destruct fv; auto.
  intros LT. specialize (K LT). unfold level0_optional.
  destruct (f_md m) as [[nesting levels]|]; try contradiction.
  apply list_shape_top in K. auto.
Qed.

(* ------------------------------------------------------------------ reformulation corollaries *)
Lemma same_node_coherent : forall em members d vf n,
  (forall x, In x vf -> pkey x = pkey n -> same_node x n) -> key_coherent em members d n vf.
Proof. intros em members d vf n H x Hx Hk. apply paction_same_node. auto. Qed.

(* the four reformulations, stated on the lists of fields the builder iterates over *)
Lemma reform_alias : forall em p1 p2 d d' j1 j2 n1 n2,
  p_oneof p1 = p_oneof p2 -> p_members p1 = p_members p2 ->
  marshal em p1 d = Ok j1 -> marshal em p2 d = Ok j2 ->
  unwrap_oneof (p_oneof p1) d = Ok d' ->
  Forall nonflat (pvalid p1 (tname_of d')) -> Forall nonflat (pvalid p2 (tname_of d')) ->
  NoDup (map pkey (pvalid p1 (tname_of d'))) -> NoDup (map pkey (pvalid p2 (tname_of d'))) ->
  In n1 (pvalid p1 (tname_of d')) -> In n2 (pvalid p2 (tname_of d')) ->
  same_node n1 n2 ->
  jget (pkey n1) j1 = jget (pkey n2) j2.
Proof.
  intros. eapply field_independence_gen; eauto; apply nodup_coherent; auto.
Qed.

Lemma reform_reorder : forall em p1 p2 d d' j1 j2,
  p_oneof p1 = p_oneof p2 -> p_members p1 = p_members p2 ->
  marshal em p1 d = Ok j1 -> marshal em p2 d = Ok j2 ->
  unwrap_oneof (p_oneof p1) d = Ok d' ->
  Forall nonflat (pvalid p1 (tname_of d')) ->
  NoDup (map pkey (pvalid p1 (tname_of d'))) ->
  Permutation (pvalid p1 (tname_of d')) (pvalid p2 (tname_of d')) ->
  forall n, In n (pvalid p1 (tname_of d')) -> jget (pkey n) j1 = jget (pkey n) j2.
Proof.
  intros em p1 p2 d d' j1 j2 Eo Em H1 H2 U NF ND Pm n Hin.
  assert (Forall nonflat (pvalid p2 (tname_of d'))) as NF2.
  { apply Forall_forall. intros x Hx. rewrite Forall_forall in NF. apply NF.
    apply (Permutation_in _ (Permutation_sym Pm) Hx). }
  assert (NoDup (map pkey (pvalid p2 (tname_of d')))) as ND2.
  { apply (Permutation_NoDup (Permutation_map pkey Pm) ND). }
  eapply reform_alias; eauto.
  - apply (Permutation_in _ Pm Hin).
  - apply same_node_refl.
Qed.

Lemma reform_subset : forall em p1 p2 d d' j1 j2,
  p_oneof p1 = p_oneof p2 -> p_members p1 = p_members p2 ->
  marshal em p1 d = Ok j1 -> marshal em p2 d = Ok j2 ->
  unwrap_oneof (p_oneof p1) d = Ok d' ->
  Forall nonflat (pvalid p1 (tname_of d')) ->
  NoDup (map pkey (pvalid p1 (tname_of d'))) -> NoDup (map pkey (pvalid p2 (tname_of d'))) ->
  incl (pvalid p2 (tname_of d')) (pvalid p1 (tname_of d')) ->
  forall n, In n (pvalid p2 (tname_of d')) -> jget (pkey n) j2 = jget (pkey n) j1.
Proof.
  intros em p1 p2 d d' j1 j2 Eo Em H1 H2 U NF ND1 ND2 Inc n Hin.
  assert (Forall nonflat (pvalid p2 (tname_of d'))) as NF2.
  { apply Forall_forall. intros x Hx. rewrite Forall_forall in NF. apply NF. apply Inc. auto. }
  symmetry. eapply reform_alias; eauto. apply same_node_refl.
Qed.

(* duplication: copies of a node (same node up to the alias) all carry the node's value, whether
   they share its response key or have a fresh one; the other keys need not be distinct *)
Lemma reform_duplicate : forall em p1 p2 d d' j1 j2 n n',
  p_oneof p1 = p_oneof p2 -> p_members p1 = p_members p2 ->
  marshal em p1 d = Ok j1 -> marshal em p2 d = Ok j2 ->
  unwrap_oneof (p_oneof p1) d = Ok d' ->
  Forall nonflat (pvalid p1 (tname_of d')) -> Forall nonflat (pvalid p2 (tname_of d')) ->
  In n (pvalid p1 (tname_of d')) -> In n' (pvalid p2 (tname_of d')) ->
  same_node n n' ->
  (forall x, In x (pvalid p1 (tname_of d')) -> pkey x = pkey n -> same_node x n) ->
  (forall x, In x (pvalid p2 (tname_of d')) -> pkey x = pkey n' -> same_node x n') ->
  jget (pkey n') j2 = jget (pkey n) j1.
Proof.
  intros. symmetry. eapply field_independence_gen; eauto; apply same_node_coherent; auto.
Qed.

(* ------------------------------------------------------------------ witnesses *)
Definition bs (l : list N) : bytes := l.
Definition mk_meta (name alias jp : bytes) : fmeta :=
  {| f_name := name; f_alias := alias; f_jsonpath := jp; f_static := []; f_optional := false;
     f_is_msg := false; f_is_list_type := false; f_repeated := false; f_md := None |}.
Definition w_a : bytes := [97].   (* "a" *)
Definition w_b : bytes := [98].   (* "b" *)
Definition w_x : bytes := [120].  (* "x" *)
Definition w_y : bytes := [121].  (* "y" *)
Definition w_T : bytes := [84].   (* "T" *)
Definition w_1 : bytes := [49].
Definition w_2 : bytes := [50].

Definition w_data : pmsg :=
  PMsg w_T [] [PFE w_a 1 (FScalar (SStr w_1)); PFE w_b 2 (FScalar (SStr w_2))].

Definition w_na : pfield := PField (mk_meta w_a [] w_x) None.      (* proto field a under key "x" *)
Definition w_nb : pfield := PField (mk_meta w_b [] w_x) None.      (* proto field b under key "x" too *)
Definition w_p1 : pmessage := PMessage w_T [w_na; w_nb] [] OneNone [].
Definition w_p2 : pmessage := PMessage w_T [w_na] [] OneNone [].

(* two fields with one response key: the later one wins, so the value at n's key depends on a sibling *)
Lemma dup_key_witness :
  In w_na (pvalid w_p1 w_T) /\ In w_na (pvalid w_p2 w_T) /\
  Forall nonflat (pvalid w_p1 w_T) /\ Forall nonflat (pvalid w_p2 w_T) /\
  exists j1 j2, marshal [] w_p1 w_data = Ok j1 /\ marshal [] w_p2 w_data = Ok j2 /\
                jget (pkey w_na) j1 = Some (JStr w_2) /\ jget (pkey w_na) j2 = Some (JStr w_1).
Proof.
  repeat split; try (simpl; auto; fail).
  - repeat constructor.
  - repeat constructor.
  - eexists. eexists. repeat split; vm_compute; reflexivity.
Qed.

(* a sibling whose JSONPath is empty is merged into the parent object and overwrites n's key *)
Definition w_sub : pmessage := PMessage w_T [PField (mk_meta w_b [] w_x) None] [] OneNone [].
Definition w_flat : pfield :=
  PField {| f_name := w_y; f_alias := []; f_jsonpath := []; f_static := []; f_optional := false;
            f_is_msg := true; f_is_list_type := false; f_repeated := false; f_md := None |} (Some w_sub).
Definition w_data2 : pmsg :=
  PMsg w_T [] [PFE w_a 1 (FScalar (SStr w_1));
               PFE w_y 2 (FMsg (PMsg w_T [] [PFE w_b 1 (FScalar (SStr w_2))]))].
Definition w_p3 : pmessage := PMessage w_T [w_na; w_flat] [] OneNone [].

Lemma flatten_witness :
  NoDup (map pkey (pvalid w_p3 w_T)) /\
  exists j1 j2, marshal [] w_p3 w_data2 = Ok j1 /\ marshal [] w_p2 w_data2 = Ok j2 /\
                jget (pkey w_na) j1 = Some (JStr w_2) /\ jget (pkey w_na) j2 = Some (JStr w_1).
Proof.
  split.
  - simpl. constructor.
    + simpl. intros [H|H]; try discriminate; auto.
    + constructor; auto. constructor.
  - eexists. eexists. repeat split; vm_compute; reflexivity.
Qed.

(* a sibling that fails (union member not set) takes the whole message down: selecting a subset
   can turn an error into data *)
Definition w_union : pmessage := PMessage w_T [] [] OneUnion [].
Definition w_bad : pfield :=
  PField {| f_name := w_y; f_alias := []; f_jsonpath := w_y; f_static := []; f_optional := false;
            f_is_msg := true; f_is_list_type := false; f_repeated := false; f_md := None |} (Some w_union).
Definition w_data3 : pmsg :=
  PMsg w_T [] [PFE w_a 1 (FScalar (SStr w_1));
               PFE w_y 2 (FMsg (PMsg w_T [(oneof_field_name OneUnion, None)] []))].
Definition w_p4 : pmessage := PMessage w_T [w_na; w_bad] [] OneNone [].

Lemma error_witness :
  incl (pvalid w_p2 w_T) (pvalid w_p4 w_T) /\
  marshal [] w_p4 w_data3 = Err EOneofUnset /\
  marshal [] w_p2 w_data3 = Ok (JObj [(w_x, JStr w_1)]).
Proof.
  split.
  - intros x H. simpl in *. destruct H as [H|[]]. auto.
  - split; vm_compute; reflexivity.
Qed.

(* a field declared non-null (Optional = false) whose message is absent is rendered as null *)
Definition w_obj : pfield :=
  PField {| f_name := w_y; f_alias := []; f_jsonpath := w_y; f_static := []; f_optional := false;
            f_is_msg := true; f_is_list_type := false; f_repeated := false; f_md := None |} (Some w_p2).
Lemma nonnull_witness :
  f_optional (meta_of w_obj) = false /\
  marshal [] (PMessage w_T [w_obj] [] OneNone []) (PMsg w_T [] [PFE w_y 1 FAbsent]) = Ok (JObj [(w_y, JNull)]).
Proof. split; vm_compute; reflexivity. Qed.

(* ------------------------------------------------------------------ examples (hypotheses are satisfiable) *)
(* an interface message: common field, __typename, per-type fragments, an alias; data is a Cat *)
Definition e_name : bytes := [110;97;109;101].
Definition e_tn : bytes := [95;95;116;121;112;101;110;97;109;101].
Definition e_Animal : bytes := [65;110;105;109;97;108].
Definition e_Cat : bytes := [67;97;116].
Definition e_Dog : bytes := [68;111;103].
Definition e_cat : bytes := [99;97;116].
Definition e_meow : bytes := [109;101;111;119].
Definition e_bark : bytes := [98;97;114;107].
Definition e_static (v : bytes) : pfield :=
  PField {| f_name := e_tn; f_alias := []; f_jsonpath := e_tn; f_static := v; f_optional := false;
            f_is_msg := false; f_is_list_type := false; f_repeated := false; f_md := None |} None.
Definition e_plan : pmessage :=
  PMessage e_Animal [PField (mk_meta e_name w_a e_name) None; e_static e_Animal]
           [(e_Cat, [PField (mk_meta e_meow [] e_meow) None]); (e_Dog, [PField (mk_meta e_bark [] e_bark) None])]
           OneIface [e_Cat; e_Dog].
Definition e_data : pmsg :=
  PMsg e_Animal [(oneof_field_name OneIface, Some e_cat)]
       [PFE e_cat 1 (FMsg (PMsg e_Cat [] [PFE e_name 1 (FScalar (SStr w_1)); PFE e_meow 2 (FScalar (SI32 w_2))]))].

Example e_marshal :
  marshal [] e_plan e_data = Ok (JObj [(w_a, JStr w_1); (e_tn, JStr e_Cat); (e_meow, JNum w_2)]).
Proof. vm_compute. reflexivity. Qed.

Example e_hyps :
  exists d', unwrap_oneof (p_oneof e_plan) e_data = Ok d' /\
             Forall nonflat (pvalid e_plan (tname_of d')) /\
             NoDup (map pkey (pvalid e_plan (tname_of d'))) /\
             In (tname_of d') (p_members e_plan) /\
             (forall f, In f (pvalid e_plan (tname_of d')) -> exists v, paction [] (p_members e_plan) d' f = Ok (ASet v)).
Proof.
  eexists. split. { vm_compute. reflexivity. }
  split. { vm_compute. repeat constructor. }
  split. { vm_compute. repeat constructor; simpl; intuition discriminate. }
  split. { vm_compute. auto. }
  intros f H. vm_compute in H. destruct H as [H|[H|[H|[]]]]; subst f; eexists; vm_compute; reflexivity.
Qed.

(* mergeWithPath: a parent that is null is skipped, the resolved values go to the other parents in
   order (before the repair of flattenObject this input failed the whole fetch with
   "expected array or object, got null") *)
Definition n_items : bytes := [105;116;101;109;115].
Definition n_top : bytes := [116;111;112].
Definition n_cnt : bytes := [99;110;116].
Example null_parent_skipped :
  merge_with_path
    (JObj [(n_items, JArr [JObj [(n_top, JObj [(w_a, JStr w_1)])]; JObj [(n_top, JNull)]; JObj [(n_top, JObj [(w_a, JStr w_2)])]])])
    (JObj [(name_result, JArr [JObj [(n_cnt, JNum w_1)]; JObj [(n_cnt, JNum w_2)]])])
    [n_items; n_top; n_cnt] None
  = Ok (JObj [(n_items, JArr [JObj [(n_top, JObj [(w_a, JStr w_1); (n_cnt, JNum w_1)])];
                              JObj [(n_top, JNull)];
                              JObj [(n_top, JObj [(w_a, JStr w_2); (n_cnt, JNum w_2)])]])]).
Proof. vm_compute. reflexivity. Qed.

(* ------------------------------------------------------------------ statements of Properties.v with longer proofs *)
Lemma shape_nonnull_refuted_proof :
  exists em p d n, In n (pvalid p (tname_of d)) /\ f_optional (meta_of n) = false /\
                   exists j, marshal em p d = Ok j /\ jget (pkey n) j = Some JNull.
Proof.
  exists [], (PMessage w_T [w_obj] [] OneNone []), (PMsg w_T [] [PFE w_y 1 FAbsent]), w_obj.
  split. { simpl. auto. }
  split. { exact (proj1 nonnull_witness). }
  eexists. split. { exact (proj2 nonnull_witness). } reflexivity.
Qed.

Lemma field_independence_refuted_proof :
  exists em p1 p2 d d' j1 j2 n,
    p_oneof p1 = p_oneof p2 /\ p_members p1 = p_members p2 /\
    marshal em p1 d = Ok j1 /\ marshal em p2 d = Ok j2 /\ unwrap_oneof (p_oneof p1) d = Ok d' /\
    Forall nonflat (pvalid p1 (tname_of d')) /\ Forall nonflat (pvalid p2 (tname_of d')) /\
    In n (pvalid p1 (tname_of d')) /\ In n (pvalid p2 (tname_of d')) /\
    jget (pkey n) j1 <> jget (pkey n) j2.
Proof.
  destruct dup_key_witness as (I1 & I2 & N1 & N2 & j1 & j2 & M1 & M2 & G1 & G2).
  exists [], w_p1, w_p2, w_data, w_data, j1, j2, w_na.
  repeat split; auto. rewrite G1, G2. discriminate.
Qed.

Lemma field_independence_flatten_refuted_proof :
  exists em p1 p2 d j1 j2 n,
    NoDup (map pkey (pvalid p1 (tname_of d))) /\ NoDup (map pkey (pvalid p2 (tname_of d))) /\
    marshal em p1 d = Ok j1 /\ marshal em p2 d = Ok j2 /\
    In n (pvalid p1 (tname_of d)) /\ In n (pvalid p2 (tname_of d)) /\
    jget (pkey n) j1 <> jget (pkey n) j2.
Proof.
  destruct flatten_witness as (ND & j1 & j2 & M1 & M2 & G1 & G2).
  exists [], w_p3, w_p2, w_data2, j1, j2, w_na.
  repeat split; auto.
  - simpl. repeat constructor. simpl. tauto.
  - simpl. auto.
  - simpl. auto.
  - rewrite G1, G2. discriminate.
Qed.

Lemma field_independence_partial_proof : forall em p1 p2 d d' j1 j2 n,
  p_oneof p1 = p_oneof p2 -> p_members p1 = p_members p2 ->
  marshal em p1 d = Ok j1 -> marshal em p2 d = Ok j2 ->
  unwrap_oneof (p_oneof p1) d = Ok d' ->
  Forall nonflat (pvalid p1 (tname_of d')) -> Forall nonflat (pvalid p2 (tname_of d')) ->
  In n (pvalid p1 (tname_of d')) -> In n (pvalid p2 (tname_of d')) ->
  key_coherent em (p_members p1) d' n (pvalid p1 (tname_of d')) ->
  key_coherent em (p_members p2) d' n (pvalid p2 (tname_of d')) ->
  jget (pkey n) j1 = jget (pkey n) j2.
Proof.
  intros. eapply field_independence_gen; eauto. apply same_node_refl.
Qed.

Lemma reformulation_subset_refuted_proof :
  exists em p1 p2 d e j2,
    incl (pvalid p2 (tname_of d)) (pvalid p1 (tname_of d)) /\
    marshal em p1 d = Err e /\ marshal em p2 d = Ok j2.
Proof.
  destruct error_witness as (I & E & O).
  exists [], w_p4, w_p2, w_data3, EOneofUnset, (JObj [(w_x, JStr w_1)]). auto.
Qed.
