From Gv Require Import lib.Bytes lib.Json C20.Model C20.Spec.
From Coq Require Import ZArith.
Require Import ExtrOcamlBasic.
Extraction Language OCaml.
(* Z.of_N only so that the shared OCaml prelude finds the type z *)
Extraction "model.ml" load marshal conf_b project consistent_b proj_chk json_eqb Z.of_N.
