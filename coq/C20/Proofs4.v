(* C20 lemmas, part 4: the result-merging step of DataSource.Load (mergeWithPath with flattenObject /
   flattenList) after the repairs of the findings resolver-under-list-wrapper and
   entity-batch-mixed-types; the pre-repair variants live in Legacy.v. *)
From Gv Require Import lib.Bytes lib.Json C20.Model C20.Spec C20.Proofs C20.Legacy.
From Coq Require Import List NArith Bool Lia.
Import ListNotations.

(* ------------------------------------------------------------------ the loops as list functions *)
Lemma flat_item_arr : forall f l, flat_item f (JArr l) = flat_items f l.
Proof.
  intros f l. cbn [flat_item]. induction l as [|x r IH]; cbn [flat_items]; auto.
  rewrite <- IH. reflexivity.
Qed.

Lemma upd_item_arr : forall g l vals,
  upd_item g (JArr l) vals = p <- upd_items g l vals ;; Ok (JArr (fst p), snd p).
Proof.
  intros g l vals. cbn [upd_item].
  assert (E : forall l vals,
             (fix go (l : list json) (vals : list json) : res (list json * list json) :=
                match l with
                | [] => Ok ([], vals)
                | x :: r => p <- upd_item g x vals ;; q <- go r (snd p) ;; Ok (fst p :: fst q, snd q)
                end) l vals = upd_items g l vals).
  { clear. induction l as [|x r IH]; intros vals; cbn [upd_items]; auto.
    destruct (upd_item g x vals) as [p|e]; cbn [bind]; auto. rewrite IH. reflexivity. }
  rewrite E. reflexivity.
Qed.

(* ------------------------------------------------------------------ nested lists are transparent *)
Lemma flat_items_app : forall f l r,
  flat_items f (l ++ r) = a <- flat_items f l ;; b <- flat_items f r ;; Ok (a + b)%nat.
Proof.
  intros f l r. induction l as [|x l IH]; cbn [app flat_items bind].
  - destruct (flat_items f r); reflexivity.
  - rewrite IH. destruct (flat_item f x) as [a|e]; cbn [bind]; auto.
    destruct (flat_items f l) as [a'|e]; cbn [bind]; auto.
    destruct (flat_items f r) as [b|e]; cbn [bind]; auto.
    f_equal. lia.
Qed.

Lemma nested_list_count : forall f l r, flat_items f (JArr l :: r) = flat_items f (l ++ r).
Proof.
  intros f l r. rewrite flat_items_app. cbn [flat_items]. rewrite flat_item_arr. reflexivity.
Qed.

(* ------------------------------------------------------------------ counting and assigning agree *)
(* [g] assigns exactly as many values as [f] counts, and never fails where [f] succeeds *)
Definition agrees (f : json -> res nat) (g : upd) : Prop :=
  forall v n, f v = Ok n -> forall vals extra, length vals = n ->
    exists v', g v (vals ++ extra) = Ok (v', extra).

Lemma upd_items_agrees_list : forall f g l,
  Forall (fun x => forall n, flat_item f x = Ok n -> forall vals extra, length vals = n ->
                   exists v', upd_item g x (vals ++ extra) = Ok (v', extra)) l ->
  forall n, flat_items f l = Ok n -> forall vals extra, length vals = n ->
    exists us, upd_items g l (vals ++ extra) = Ok (us, extra) /\ length us = length l.
Proof.
  intros f g l H. induction H as [|x r Hx Hr IH]; intros n E vals extra L.
  - cbn in E. inversion E; subst. destruct vals; [|discriminate]. exists []. cbn. auto.
  - cbn [flat_items] in E.
    destruct (flat_item f x) as [a|e] eqn:Ea; cbn [bind] in E; [|discriminate].
    destruct (flat_items f r) as [b|e] eqn:Eb; cbn [bind] in E; [|discriminate].
    inversion E; subst n.
    assert (S : vals ++ extra = firstn a vals ++ (skipn a vals ++ extra)).
    { rewrite app_assoc. rewrite firstn_skipn. reflexivity. }
    destruct (Hx a eq_refl (firstn a vals) (skipn a vals ++ extra)) as (v' & Ev).
    { rewrite firstn_length. lia. }
    destruct (IH b eq_refl (skipn a vals) extra) as (us & Eu & Lu).
    { rewrite skipn_length. lia. }
    exists (v' :: us). cbn [upd_items]. rewrite S, Ev. cbn [bind fst snd]. rewrite Eu. cbn [bind fst snd].
    split; auto. cbn. lia.
Qed.

Lemma upd_item_agrees : forall f g, agrees f g -> agrees (flat_item f) (upd_item g).
Proof.
  intros f g A v. induction v using json_ind'; intros n E vals extra L;
    try (cbn [flat_item] in E; cbn [upd_item]; eapply A; eauto; fail).
  - (* null: skipped *)
    cbn in E. inversion E; subst. destruct vals; [|discriminate]. exists JNull. reflexivity.
  - (* nested array *)
    rewrite flat_item_arr in E. rewrite upd_item_arr.
    destruct (upd_items_agrees_list f g l H n E vals extra L) as (us & Eu & _).
    rewrite Eu. cbn [bind fst snd]. eauto.
Qed.

Lemma upd_items_agrees : forall f g, agrees f g ->
  forall l n, flat_items f l = Ok n -> forall vals extra, length vals = n ->
    exists us, upd_items g l (vals ++ extra) = Ok (us, extra) /\ length us = length l.
Proof.
  intros f g A l. apply upd_items_agrees_list.
  apply Forall_forall. intros x _. apply (upd_item_agrees f g A x).
Qed.

Lemma flat_update_agrees : forall elem path, agrees (flat_count path) (flat_update elem path).
Proof.
  intros elem path. induction path as [|seg rest IH]; intros v n E vals extra L.
  - cbn in E. inversion E; subst n.
    destruct vals as [|x [|y t]]; try discriminate. cbn. eauto.
  - cbn [flat_count] in E. cbn [flat_update].
    destruct v as [| | | | |vo]; try (cbn in E; discriminate).
    cbn [jget_go] in E.
    destruct (obj_get seg vo) as [c|] eqn:G; [|discriminate].
    destruct c as [| | | |items|o]; try discriminate.
    + inversion E; subst n. destruct vals; [|discriminate]. cbn. eauto.
    + destruct (upd_items_agrees _ _ IH items n E vals extra L) as (us & Eu & _).
      rewrite Eu. cbn [bind fst snd]. eauto.
    + destruct (IH (JObj o) n E vals extra L) as (v' & Ev). rewrite Ev. cbn [bind fst snd]. eauto.
Qed.

(* once the length check of mergeWithPath has passed, every resolved value is assigned to a target:
   no failure, nothing left over, one (possibly updated) item per item *)
Lemma merge_assigns_all : forall elem rest targets vals n,
  flat_items (flat_count rest) targets = Ok n -> length vals = n ->
  exists us, upd_items (flat_update elem rest) targets vals = Ok (us, []) /\ length us = length targets.
Proof.
  intros elem rest targets vals n E L.
  destruct (upd_items_agrees _ _ (flat_update_agrees elem rest) targets n E vals [] L) as (us & Eu & Lu).
  rewrite app_nil_r in Eu. eauto.
Qed.

(* ------------------------------------------------------------------ entities of other types stay untouched *)
Lemma set_item_length : forall i v a, (i < length a)%nat -> length (set_item i v a) = length a.
Proof.
  induction i as [|i IH]; intros v a L; destruct a as [|x r]; cbn in *; try lia.
  rewrite IH; lia.
Qed.

Lemma set_item_other : forall i v a j,
  (i < length a)%nat -> j <> i -> nth_error (set_item i v a) j = nth_error a j.
Proof.
  induction i as [|i IH]; intros v a j L N; destruct a as [|x r]; cbn in L; try lia.
  - destruct j; [congruence|]. reflexivity.
  - destruct j; cbn; auto. apply IH; lia.
Qed.

Lemma write_back_length : forall pos us items,
  Forall (fun i => (i < length items)%nat) pos -> length (write_back pos us items) = length items.
Proof.
  induction pos as [|i pr IH]; intros us items F; cbn [write_back]; auto.
  destruct us as [|u ur]; auto.
  inversion F as [|? ? Hi Hr]; subst.
  assert (Li : length (set_item i u items) = length items) by (apply set_item_length; auto).
  rewrite IH; auto. rewrite Li. auto.
Qed.

Lemma write_back_other : forall pos us items j,
  Forall (fun i => (i < length items)%nat) pos -> ~ In j pos ->
  nth_error (write_back pos us items) j = nth_error items j.
Proof.
  induction pos as [|i pr IH]; intros us items j F N; cbn [write_back]; auto.
  destruct us as [|u ur]; auto.
  inversion F as [|? ? Hi Hr]; subst.
  assert (Li : length (set_item i u items) = length items) by (apply set_item_length; auto).
  rewrite IH.
  - apply set_item_other; auto. intro. apply N. left. auto.
  - rewrite Li. auto.
  - intro. apply N. right. auto.
Qed.

Lemma select_items_pos : forall idx items,
  Forall (fun i => (i < length items)%nat) (map fst (select_items idx items)) /\
  incl (map fst (select_items idx items)) idx.
Proof.
  induction idx as [|i r IH]; intros items; cbn [select_items].
  - split; [constructor | apply incl_refl].
  - destruct (IH items) as (F & I).
    destruct (nth_error items i) as [x|] eqn:E; cbn [map fst].
    + split.
      * constructor; auto. apply nth_error_Some. congruence.
      * apply incl_cons; [left; auto | apply incl_tl; auto].
    + split; auto. apply incl_tl. auto.
Qed.

Lemma entities_eqb_refl : bytes_eqb name_entities name_entities = true.
Proof. reflexivity. Qed.

Lemma entity_followup_untouched : forall bo resolved p' idx r items,
  p' <> [] ->
  obj_get name_entities bo = Some (JArr items) ->
  merge_with_path (JObj bo) resolved (name_entities :: p') (Some idx) = Ok r ->
  exists ro items', r = JObj ro /\ obj_get name_entities ro = Some (JArr items') /\
    length items' = length items /\
    forall pos, ~ In pos idx -> nth_error items' pos = nth_error items pos.
Proof.
  intros bo resolved p' idx r items NE G M.
  unfold merge_with_path in M.
  destruct (match jget_go name_result resolved with Some (JArr l) => l | _ => [] end) as [|v0 vs] eqn:V.
  { inversion M; subst. exists bo, items. auto. }
  destruct p' as [|x xs]; [congruence|].
  change (removelast (name_entities :: x :: xs)) with (name_entities :: removelast (x :: xs)) in M.
  cbv iota beta in M. rewrite G in M. rewrite entities_eqb_refl in M.
  set (sel := select_items idx items) in *.
  destruct (flat_items (flat_count (removelast (x :: xs))) (map snd sel)) as [n|e]; cbn [bind] in M; [|discriminate].
  destruct (negb (Nat.eqb n (length (v0 :: vs)))); [discriminate|].
  destruct (upd_items _ (map snd sel) (v0 :: vs)) as [q|e]; cbn [bind] in M; [|discriminate].
  inversion M; subst r. clear M.
  exists (obj_set name_entities (JArr (write_back (map fst sel) (fst q) items)) bo),
         (write_back (map fst sel) (fst q) items).
  destruct (select_items_pos idx items) as (F & I). fold sel in F, I.
  split; auto. split; [apply obj_get_set_same|].
  split.
  - apply write_back_length; auto.
  - intros pos NI. apply write_back_other; auto.
Qed.

(* ------------------------------------------------------------------ witnesses *)
Definition x_author : bytes := [97;117;116;104;111;114].
Definition x_prefs : bytes := [112;114;101;102;115].
Definition x_kind : bytes := [107;105;110;100].
Definition x_tp : bytes := [116;112].
Definition x_tn : bytes := [95;95;116;121;112;101;110;97;109;101].
Definition x_Product : bytes := [80;114;111;100;117;99;116].
Definition x_Storage : bytes := [83;116;111;114;97;103;101].
Definition x_ks : bytes := [107;115].
Definition x_1 : bytes := [49].
Definition x_2 : bytes := [50].

(* {author{prefs{kind tp}}} with prefs : [[T!]!]! and the field resolver tp *)
Definition x_base : json :=
  JObj [(x_author, JObj [(x_prefs, JArr [JArr [JObj [(x_kind, JStr x_1)]; JObj [(x_kind, JStr x_2)]]])])].
Definition x_resolved : json := JObj [(name_result, JArr [JObj [(x_tp, JNum x_1)]; JObj [(x_tp, JNum x_2)]])].

Lemma nested_list_v0_refuted_proof :
  exists base resolved path,
    merge_with_path_v0 base resolved path = Err ELenMismatch /\
    merge_with_path base resolved path None =
    Ok (JObj [(x_author, JObj [(x_prefs, JArr [JArr [JObj [(x_kind, JStr x_1); (x_tp, JNum x_1)];
                                                     JObj [(x_kind, JStr x_2); (x_tp, JNum x_2)]]])])]).
Proof. exists x_base, x_resolved, [x_author; x_prefs; x_tp]. split; vm_compute; reflexivity. Qed.

Example merge_assigns_all_hyps :
  flat_items (flat_count []) [JArr [JObj [(x_kind, JStr x_1)]; JNull; JObj [(x_kind, JStr x_2)]]] = Ok 2%nat.
Proof. vm_compute. reflexivity. Qed.

(* _entities = [Product, Storage]; the @requires field ks belongs to Storage (position 1) *)
Definition x_ents : json :=
  JObj [(name_entities, JArr [JObj [(x_tn, JStr x_Product)]; JObj [(x_tn, JStr x_Storage)]])].

(* pre-repair: the call was made for both representations and its results spread over both entities *)
Lemma entity_followup_v0_refuted_proof :
  exists base resolved path idx pos r,
    ~ In pos idx /\
    merge_with_path_v0 base resolved path = Ok r /\
    (exists l, jget name_entities base = Some (JArr l) /\
               exists l', jget name_entities r = Some (JArr l') /\ nth_error l' pos <> nth_error l pos).
Proof.
  exists x_ents, (JObj [(name_result, JArr [JObj [(x_ks, JStr x_1)]; JObj [(x_ks, JStr x_2)]])]),
         [name_entities; x_ks], [1%nat], 0%nat.
  eexists. split. { cbn. intuition discriminate. }
  split. { vm_compute. reflexivity. }
  eexists. split. { vm_compute. reflexivity. }
  eexists. split. { vm_compute. reflexivity. }
  vm_compute. discriminate.
Qed.

Example entity_followup_hyps :
  merge_with_path x_ents (JObj [(name_result, JArr [JObj [(x_ks, JStr x_2)]])]) [name_entities; x_ks] (Some [1%nat])
  = Ok (JObj [(name_entities, JArr [JObj [(x_tn, JStr x_Product)]; JObj [(x_tn, JStr x_Storage); (x_ks, JStr x_2)]])]).
Proof. vm_compute. reflexivity. Qed.

(* ------------------------------------------------------------------ list wrappers: the builder's answer is the
   projection of the service's data (S3), at every nesting depth *)
Fixpoint nest_plist (n : nat) (t : ptype) : ptype :=
  match n with O => t | S n' => PList (nest_plist n' t) end.

(* the item loop of [proj_chk] at a list level *)
Fixpoint proj_items (em : enum_map) (t : ptype) (i : nat) (vs : list pfld) (js : list json) : option pfail :=
  match vs, js with
  | [], [] => None
  | x :: vr, y :: jr =>
    match under (SIdx i) (proj_chk em t x y) with
    | Some f => Some f
    | None => proj_items em t (S i) vr jr
    end
  | _, _ => Some ([], why_length)
  end.

Lemma proj_list_msgs : forall em t items w inner js,
  field_by_num 1 w = Some (FMsg inner) ->
  field_by_num 1 inner = Some (FListM items) ->
  proj_chk em (PList t) (FMsg w) (JArr js) = proj_items em t O (map FMsg items) js.
Proof.
  intros em t items w inner js H1 H2. cbn [proj_chk]. unfold list_view. rewrite H1, H2.
  generalize O. generalize (map FMsg items). clear.
  intros vs. revert js. induction vs as [|x vr IH]; intros js i; destruct js as [|y jr]; cbn [proj_items]; auto.
  destruct (under (SIdx i) (proj_chk em t x y)); auto.
Qed.

Lemma proj_items_map : forall em t (f : pmsg -> res json) items vs,
  map_res f items = Ok vs ->
  (forall m j, In m items -> f m = Ok j -> proj_chk em t (FMsg m) j = None) ->
  forall i, proj_items em t i (map FMsg items) vs = None.
Proof.
  intros em t f items. induction items as [|m r IH]; intros vs E H i.
  - cbn in E. inversion E. reflexivity.
  - cbn [map_res] in E. destruct (f m) as [y|e] eqn:Ey; cbn [bind] in E; [|discriminate].
    destruct (map_res f r) as [ys|e] eqn:Er; cbn [bind] in E; [|discriminate].
    inversion E; subst vs. cbn [map proj_items].
    rewrite (H m y (or_introl eq_refl) Ey). cbn [under].
    apply IH; auto. intros m' j' I. apply H. right. auto.
Qed.

Lemma traverse_projection : forall em sub t levels,
  (forall m j, sub m = Ok j -> proj_chk em t (FMsg m) j = None) ->
  forall k level data v,
    traverse em sub true levels k level data = Ok v ->
    proj_chk em (nest_plist (S k) t) (FMsg data) v = None.
Proof.
  intros em sub t levels Hsub. induction k as [|k IH]; intros level data v E.
  - cbn [traverse] in E. cbn [nest_plist].
    destruct (field_by_num 1 data) as [f|] eqn:F1; [|discriminate].
    destruct f as [s| |w|l|l]; try discriminate.
    + destruct (nth_error levels level) as [[|]|]; try discriminate. inversion E; subst v.
      cbn [proj_chk]. unfold list_view. rewrite F1. reflexivity.
    + destruct (field_by_num 1 w) as [g|] eqn:F2; [|discriminate].
      destruct g as [s| |w'|l|items]; try discriminate.
      * destruct l; [|discriminate]. inversion E; subst v.
        cbn [proj_chk]. unfold list_view. rewrite F1, F2. reflexivity.
      * destruct (map_res sub items) as [vs|e] eqn:M; cbn [bind] in E; [|discriminate].
        inversion E; subst v.
        rewrite (proj_list_msgs em t items data w vs F1 F2).
        eapply proj_items_map; eauto.
  - cbn [traverse] in E. change (nest_plist (S (S k)) t) with (PList (nest_plist (S k) t)).
    destruct (field_by_num 1 data) as [f|] eqn:F1; [|discriminate].
    destruct f as [s| |w|l|l]; try discriminate.
    + destruct (nth_error levels level) as [[|]|]; try discriminate. inversion E; subst v.
      cbn [proj_chk]. unfold list_view. rewrite F1. reflexivity.
    + destruct (field_by_num 1 w) as [g|] eqn:F2; [|discriminate].
      destruct g as [s| |w'|l|items]; try discriminate.
      * destruct l; [|discriminate]. inversion E; subst v.
        cbn [proj_chk]. unfold list_view. rewrite F1, F2. reflexivity.
      * destruct (map_res (traverse em sub true levels k (S level)) items) as [vs|e] eqn:M; cbn [bind] in E; [|discriminate].
        inversion E; subst v.
        rewrite (proj_list_msgs em (nest_plist (S k) t) items data w vs F1 F2).
        eapply proj_items_map; eauto.
Qed.

(* [[T]] with the data of seeded regression C20-m1: items [[a]; null] -- the null inner list must be null *)
Definition y_list : bytes := [108;105;115;116].
Definition y_items : bytes := [105;116;101;109;115].
Definition y_wrap (tn : bytes) (items : pfld) : pmsg :=
  PMsg tn [] [PFE y_list 1 (FMsg (PMsg y_list [] [PFE y_items 1 items]))].
Definition y_data : pmsg :=
  y_wrap x_author (FListM [y_wrap x_prefs (FListM [PMsg x_kind [] []]); PMsg x_prefs [] [PFE y_list 1 FAbsent]]).

Example traverse_projection_hyps :
  traverse [] (fun _ => Ok (JObj [])) true [true; true] 1 0 y_data = Ok (JArr [JArr [JObj []]; JNull]) /\
  proj_chk [] (nest_plist 2 (PObj [])) (FMsg y_data) (JArr [JArr [JObj []]; JNull]) = None /\
  (* the answer of the seeded regression ([] for the null inner list) is rejected, with the position *)
  proj_chk [] (nest_plist 2 (PObj [])) (FMsg y_data) (JArr [JArr [JObj []]; JArr []])
  = Some ([SIdx 1], why_absent_not_null).
Proof. repeat split; vm_compute; reflexivity. Qed.
