(* C20 lemmas, part 3: the shape theorem at every depth, by structural induction on the plan
   (nested induction principle for the plan tree). *)
From Gv Require Import lib.Bytes lib.Json C20.Model C20.Spec C20.Proofs C20.Proofs2.
From Coq Require Import List NArith Bool Lia.
Import ListNotations.
Open Scope N_scope.

(* ------------------------------------------------------------------ induction on plans *)
Section PlanInd.
  Variable P : pmessage -> Prop.
  Definition sub_P (f : pfield) : Prop :=
    match sub_of_field f with Some sp => P sp | None => True end.
  Hypothesis Hstep : forall name fields frags oneof members,
    Forall sub_P fields ->
    Forall (fun kf => Forall sub_P (snd kf)) frags ->
    P (PMessage name fields frags oneof members).

  Fixpoint pmessage_ind' (p : pmessage) : P p :=
    match p with
    | PMessage name fields frags oneof members =>
      let go :=
          fix go (l : list pfield) : Forall sub_P l :=
            match l with
            | [] => Forall_nil _
            | f :: r =>
              Forall_cons f
                (match f return sub_P f with
                 | PField m (Some sp) => pmessage_ind' sp
                 | PField m None => I
                 end) (go r)
            end in
      Hstep name fields frags oneof members (go fields)
        ((fix gof (l : list (bytes * list pfield)) : Forall (fun kf => Forall sub_P (snd kf)) l :=
            match l with
            | [] => Forall_nil _
            | (k, fl) :: r => Forall_cons (k, fl) (go fl) (gof r)
            end) frags)
    end.
End PlanInd.

(* ------------------------------------------------------------------ well-formed plans *)
(* every field, at every depth, has a JSONPath (the plan visitors always set it) *)
Inductive wf_plan : pmessage -> Prop :=
| WFP : forall name fields frags oneof members,
    Forall wf_field fields ->
    Forall (fun kf => Forall wf_field (snd kf)) frags ->
    wf_plan (PMessage name fields frags oneof members)
with wf_field : pfield -> Prop :=
| WFF_leaf : forall m, is_empty (f_jsonpath m) = false -> wf_field (PField m None)
| WFF_node : forall m sp, is_empty (f_jsonpath m) = false -> wf_plan sp -> wf_field (PField m (Some sp)).

(* a plain nested object field: not static, not a list wrapper, not an optional-scalar wrapper *)
Definition regular_msg (n : pfield) (sp : pmessage) : Prop :=
  sub_of_field n = Some sp /\ is_empty (f_static (meta_of n)) = true /\
  f_is_list_type (meta_of n) = false /\ (f_optional (meta_of n) && negb (f_is_msg (meta_of n))) = false.

(* the output conforms to the plan at every depth: at each message exactly the response keys of
   the fields that set a value, first occurrences in builder order; below every plain nested
   object and every repeated message the same holds recursively *)
Inductive conforms (em : enum_map) : pmessage -> pmsg -> json -> Prop :=
| Conf : forall p d d' o,
    unwrap_oneof (p_oneof p) d = Ok d' ->
    map fst o = dedup_first [] (emitted_keys em (p_members p) d' (pvalid p (tname_of d'))) ->
    (forall n sp m,
        In n (pvalid p (tname_of d')) ->
        key_coherent em (p_members p) d' n (pvalid p (tname_of d')) ->
        regular_msg n sp ->
        field_by_name (f_name (meta_of n)) d' = Some (FMsg m) ->
        exists v, obj_get (pkey n) o = Some v /\ conforms em sp m v) ->
    (forall n sp l,
        In n (pvalid p (tname_of d')) ->
        key_coherent em (p_members p) d' n (pvalid p (tname_of d')) ->
        sub_of_field n = Some sp -> is_empty (f_static (meta_of n)) = true ->
        field_by_name (f_name (meta_of n)) d' = Some (FListM l) ->
        exists vs, obj_get (pkey n) o = Some (JArr vs) /\ Forall2 (conforms em sp) l vs) ->
    conforms em p d (JObj o).

(* ------------------------------------------------------------------ where valid fields come from *)
Lemma dedup_keys_incl : forall {A} (kf : A -> bytes) l seen x, In x (dedup_keys kf seen l) -> In x l.
Proof.
  induction l as [|y r IH]; simpl; intros seen x H; auto.
  destruct (mem_bytes (kf y) seen).
  - right. apply (IH _ _ H).
  - destruct H as [H|H]; auto. right. apply (IH _ _ H).
Qed.

Lemma assoc_In : forall {A} k (l : list (bytes * A)) v, assoc k l = Some v -> exists k', In (k', v) l.
Proof.
  induction l as [|[k' v'] r IH]; simpl; intros v H; try discriminate.
  destruct (bytes_eqb k k').
  - inversion H; subst. exists k'. auto.
  - destruct (IH _ H) as (k2 & I). exists k2. auto.
Qed.

Lemma pvalid_origin : forall name fields frags oneof members tn n,
  In n (pvalid (PMessage name fields frags oneof members) tn) ->
  In n fields \/ exists k fl, In (k, fl) frags /\ In n fl.
Proof.
  intros name fields frags oneof members tn n H. simpl in H. unfold valid_fields in H.
  destruct (is_oneof oneof); auto.
  apply in_app_or in H. destruct H as [H|H]; auto.
  right. unfold select_fields in H. apply dedup_keys_incl in H.
  apply in_concat in H. destruct H as (fl & Hfl & Hn).
  apply in_map_iff in Hfl. destruct Hfl as (t & Et & _). subst fl.
  unfold frag_lookup in Hn. destruct (assoc t frags) as [fl|] eqn:A; try contradiction.
  destruct (assoc_In _ _ _ A) as (k & I). exists k, fl. auto.
Qed.

Lemma fold_all_ok : forall em members d vf root o,
  fold_res (step em members d) vf root = Ok o ->
  forall c, In c vf -> exists a, field_action em members d c = Ok a.
Proof.
  induction vf as [|x r IH]; simpl; intros root o H c Hc; try contradiction.
  unfold step at 1 in H. destruct (field_action em members d x) as [a|e] eqn:FA; simpl in H; try discriminate.
  destruct Hc as [E|Hc].
  - subst. eauto.
  - destruct (apply_action (ckey x) a root) as [root'|] eqn:AA; simpl in H; try discriminate.
    apply (IH _ _ H c Hc).
Qed.

(* ------------------------------------------------------------------ the deep shape theorem *)
Lemma deep_shape : forall em p,
  wf_plan p -> forall d j, marshal em p d = Ok j -> conforms em p d j.
Proof.
  intros em. apply (pmessage_ind' (fun p => wf_plan p -> forall d j, marshal em p d = Ok j -> conforms em p d j)).
  intros name fields frags oneof members IHf IHfr WF d j H.
  set (p := PMessage name fields frags oneof members) in *.
  destruct (marshal_ok_inv _ _ _ _ H) as (d' & o & U & Ej & F). subst j.
  inversion WF as [? ? ? ? ? WFf WFfr]; subst.
  (* every valid field is well-formed and carries the induction hypothesis *)
  assert (forall n, In n (pvalid p (tname_of d')) ->
                    wf_field n /\ sub_P (fun q => wf_plan q -> forall d j, marshal em q d = Ok j -> conforms em q d j) n) as ORIG.
  { intros n Hn. destruct (pvalid_origin _ _ _ _ _ _ _ Hn) as [I|(k & fl & Ik & In')].
    - rewrite Forall_forall in WFf, IHf. auto.
    - rewrite Forall_forall in WFfr, IHfr. specialize (WFfr _ Ik). specialize (IHfr _ Ik). simpl in *.
      rewrite Forall_forall in WFfr, IHfr. auto. }
  assert (Forall nonflat (pvalid p (tname_of d'))) as NF.
  { apply Forall_forall. intros n Hn. destruct (ORIG n Hn) as (W & _). inversion W; subst; assumption. }
  destruct (shape_keys em p d d' (JObj o) H U NF) as (o2 & E2 & K). inversion E2; subst o2.
  apply (Conf em p d d' o U K).
  - (* plain nested object *)
    intros n sp m Hn Hco (Hs & Hst & Hlt & Hopt) Hfd.
    pose proof (field_value em p d d' (JObj o) n H U NF Hn Hco) as FV.
    destruct (fold_all_ok _ _ _ _ _ _ F (compile_field em n) (in_map _ _ _ Hn)) as (a & FA).
    destruct (ORIG n Hn) as (W & IH). unfold sub_P in IH. rewrite Hs in IH.
    unfold paction in FV. rewrite FA in FV.
    destruct n as [mt s]. simpl in Hs, Hst, Hlt, Hopt, Hfd. subst s.
    inversion W as [|? ? Hjp Hsub]; subst.
    unfold field_action in FA. simpl in FA. rewrite Hst in FA. simpl in FA.
    rewrite Hfd in FA. rewrite Hlt, Hopt in FA.
    destruct (marshal em sp m) as [v|] eqn:M; simpl in FA; try discriminate.
    rewrite Hjp in FA. inversion FA; subst a. simpl in FV.
    exists v. split; auto.
  - (* repeated message *)
    intros n sp l Hn Hco Hs Hst Hfd.
    pose proof (field_value em p d d' (JObj o) n H U NF Hn Hco) as FV.
    destruct (fold_all_ok _ _ _ _ _ _ F (compile_field em n) (in_map _ _ _ Hn)) as (a & FA).
    destruct (ORIG n Hn) as (W & IH). unfold sub_P in IH. rewrite Hs in IH.
    unfold paction in FV. rewrite FA in FV.
    destruct n as [mt s]. simpl in Hs, Hst, Hfd. subst s.
    inversion W as [|? ? Hjp Hsub]; subst.
    unfold field_action in FA. simpl in FA. rewrite Hst in FA. simpl in FA.
    rewrite Hfd in FA.
    destruct (map_res (marshal em sp) l) as [vs|] eqn:M; simpl in FA; try discriminate.
    inversion FA; subst a. simpl in FV.
    exists vs. split; auto.
    apply map_res_ok in M. clear - M IH Hsub.
    induction M; constructor; auto.
Qed.

(* the hypothesis is satisfiable and the conclusion says something: two levels *)
Definition d_sub : pmessage := PMessage w_T [PField (mk_meta w_b [] w_b) None] [] OneNone [].
Definition d_plan : pmessage :=
  PMessage w_T
    [PField (mk_meta w_a [] w_a) None;
     PField {| f_name := w_y; f_alias := w_x; f_jsonpath := w_y; f_static := []; f_optional := false;
               f_is_msg := true; f_is_list_type := false; f_repeated := true; f_md := None |} (Some d_sub)]
    [] OneNone [].
Definition d_data : pmsg :=
  PMsg w_T [] [PFE w_a 1 (FScalar (SStr w_1));
               PFE w_y 2 (FListM [PMsg w_T [] [PFE w_b 1 (FScalar (SStr w_2))]; PMsg w_T [] [PFE w_b 1 (FScalar (SStr w_1))]])].

Example d_wf : wf_plan d_plan.
Proof. repeat (constructor; simpl; auto). Qed.

Example d_marshal :
  marshal [] d_plan d_data =
  Ok (JObj [(w_a, JStr w_1); (w_x, JArr [JObj [(w_b, JStr w_2)]; JObj [(w_b, JStr w_1)]])]).
Proof. vm_compute. reflexivity. Qed.
