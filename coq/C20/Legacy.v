(* C20: HISTORICAL variants of the result-merging part of the model, as the Go code was before two repairs
   (json_builder.go flattenObject / flattenList / mergeWithPath):
     - [flat_count_v0] / [flat_update_v0]: flattenList handed every item to flattenObject, so the items of a
       nested list ([[T]]: arrays inside the array) were never descended (finding resolver-under-list-wrapper);
     - [merge_with_path_v0]: no entity positions; a follow-up call of an entity lookup was merged over ALL
       entities of the batch (finding entity-batch-mixed-types).
   Only used to state what the repairs changed (Properties.v, the ..._v0_refuted theorems).  No proofs here. *)
From Gv Require Import lib.Bytes lib.Json C20.Model.
From Coq Require Import List NArith Bool.
Import ListNotations.
Open Scope N_scope.

Fixpoint flat_count_v0 (path : list bytes) (value : json) : res nat :=
  match path with
  | [] => Ok 1%nat
  | seg :: rest =>
    match jget_go seg value with
    | None => Err ENotFound
    | Some (JObj o) => flat_count_v0 rest (JObj o)
    | Some (JArr items) => ns <- map_res (flat_count_v0 rest) items ;; Ok (fold_left Nat.add ns 0%nat)
    | Some JNull => Ok 0%nat
    | Some _ => Err EExpected
    end
  end.

Fixpoint flat_update_v0 (elem : bytes) (path : list bytes) (value : json) (vals : list json)
  : res (json * list json) :=
  match path with
  | [] =>
    match vals with
    | [] => Err ELenMismatch
    | v :: vs => Ok (set_target elem v value, vs)
    end
  | seg :: rest =>
    match value with
    | JObj vo =>
      match obj_get seg vo with
      | None => Err ENotFound
      | Some (JObj o) =>
        p <- flat_update_v0 elem rest (JObj o) vals ;; Ok (JObj (obj_set seg (fst p) vo), snd p)
      | Some (JArr items) =>
        p <- map_state (flat_update_v0 elem rest) items vals ;; Ok (JObj (obj_set seg (JArr (fst p)) vo), snd p)
      | Some JNull => Ok (value, vals)
      | Some _ => Err EExpected
      end
    | _ => Err ENotFound
    end
  end.

Definition merge_with_path_v0 (base resolved : json) (path : list bytes) : res json :=
  match path with
  | [] => Err EPathEmpty
  | _ =>
    let vals := match jget_go name_result resolved with Some (JArr l) => l | _ => [] end in
    match vals with
    | [] => Ok base
    | _ =>
      let elem := last path [] in
      match removelast path with
      | [] => Err EPanic
      | s0 :: rest =>
        match base with
        | JObj bo =>
          match obj_get s0 bo with
          | None => Err EPanic
          | Some cur =>
            n <- match cur with
                 | JArr items => ns <- map_res (flat_count_v0 rest) items ;; Ok (fold_left Nat.add ns 0%nat)
                 | _ => flat_count_v0 rest cur
                 end ;;
            if negb (Nat.eqb n (length vals)) then Err ELenMismatch
            else
              p <- match cur with
                   | JArr items => q <- map_state (flat_update_v0 elem rest) items vals ;; Ok (JArr (fst q), snd q)
                   | _ => flat_update_v0 elem rest cur vals
                   end ;;
              Ok (JObj (obj_set s0 (fst p) bo))
          end
        | _ => Err EPanic
        end
      end
    end
  end.
