(* C20 lemmas, part 1: objects, the field loop, field independence, response keys. *)
From Gv Require Import lib.Bytes lib.Json C20.Model C20.Spec.
From Coq Require Import List NArith Bool Lia Permutation.
Import ListNotations.
Open Scope N_scope.

(* ------------------------------------------------------------------ bytes *)
Lemma bytes_eqb_refl : forall a, bytes_eqb a a = true.
Proof. induction a; simpl; auto. rewrite N.eqb_refl. auto. Qed.

Lemma bytes_eqb_eq : forall a b, bytes_eqb a b = true <-> a = b.
Proof.
  induction a; destruct b; simpl; split; intros H; try discriminate; auto.
  - apply andb_true_iff in H. destruct H as [H1 H2]. apply N.eqb_eq in H1. apply IHa in H2. subst. auto.
  - inversion H; subst. rewrite N.eqb_refl. simpl. apply bytes_eqb_refl.
Qed.

Lemma bytes_eqb_neq : forall a b, bytes_eqb a b = false <-> a <> b.
Proof.
  intros. split; intros H.
  - intros E. subst. rewrite bytes_eqb_refl in H. discriminate.
  - destruct (bytes_eqb a b) eqn:E; auto. apply bytes_eqb_eq in E. contradiction.
Qed.

Lemma bytes_eqb_sym : forall a b, bytes_eqb a b = bytes_eqb b a.
Proof.
  intros. destruct (bytes_eqb a b) eqn:E.
  - apply bytes_eqb_eq in E. subst. symmetry. apply bytes_eqb_refl.
  - symmetry. apply bytes_eqb_neq. apply bytes_eqb_neq in E. auto.
Qed.

Lemma mem_bytes_In : forall x l, mem_bytes x l = true <-> In x l.
Proof.
  induction l; simpl; split; intros H; try discriminate; try contradiction.
  - apply orb_true_iff in H. destruct H as [H|H].
    + left. apply bytes_eqb_eq in H. auto.
    + right. apply IHl. auto.
  - apply orb_true_iff. destruct H as [H|H].
    + left. subst. apply bytes_eqb_refl.
    + right. apply IHl. auto.
Qed.

Lemma mem_bytes_app1 : forall x l y, mem_bytes x (l ++ [y]) = mem_bytes x l || bytes_eqb x y.
Proof. induction l; simpl; intros. - rewrite orb_false_r. auto. - rewrite IHl. rewrite orb_assoc. auto. Qed.

(* ------------------------------------------------------------------ objects *)
Lemma obj_get_set_same : forall k v o, obj_get k (obj_set k v o) = Some v.
Proof.
  induction o as [|[k' v'] o IH]; simpl.
  - rewrite bytes_eqb_refl. auto.
  - destruct (bytes_eqb k k') eqn:E; simpl; rewrite E; auto.
Qed.

Lemma obj_get_set_other : forall k k' v o, k <> k' -> obj_get k' (obj_set k v o) = obj_get k' o.
Proof.
  induction o as [|[k2 v2] o IH]; simpl; intros N.
  - apply bytes_eqb_neq in N. rewrite bytes_eqb_sym. rewrite N. auto.
  - destruct (bytes_eqb k k2) eqn:E; simpl.
    + apply bytes_eqb_eq in E. subst k2.
      assert (bytes_eqb k' k = false) as X by (apply bytes_eqb_neq; auto). rewrite X. auto.
    + destruct (bytes_eqb k' k2); auto.
Qed.

Lemma obj_get_set : forall k k' v o,
  obj_get k' (obj_set k v o) = if bytes_eqb k k' then Some v else obj_get k' o.
Proof.
  intros. destruct (bytes_eqb k k') eqn:E.
  - apply bytes_eqb_eq in E. subst. apply obj_get_set_same.
  - apply obj_get_set_other. apply bytes_eqb_neq. auto.
Qed.

Lemma obj_set_keys : forall k v o,
  map fst (obj_set k v o) = if mem_bytes k (map fst o) then map fst o else map fst o ++ [k].
Proof.
  induction o as [|[k' v'] o IH]; simpl; auto.
  destruct (bytes_eqb k k') eqn:E; simpl; auto.
  rewrite IH. destruct (mem_bytes k (map fst o)); auto.
Qed.

(* ------------------------------------------------------------------ the field loop *)
Section Loop.
  Variable em : enum_map.
  Variable members : list bytes.
  Variable d : pmsg.

  Definition cnonflat (c : cfield) : Prop := is_empty (f_jsonpath (c_meta c)) = false.

  Lemma action_merge_flat : forall c v, field_action em members d c = Ok (AMerge v) -> is_empty (f_jsonpath (c_meta c)) = true.
  Proof.
    intros c v H. unfold field_action in H.
    destruct (negb (is_empty (f_static (c_meta c)))).
    - destruct members as [|mm mr]; try discriminate. destruct (mem_bytes (tname_of d) (mm :: mr)); discriminate.
    - destruct (field_by_name (f_name (c_meta c)) d) as [fv|]; try discriminate.
      destruct fv; try discriminate.
      + destruct (scalar_json em s); discriminate.
      + destruct (f_is_list_type (c_meta c)).
        * destruct (flatten_list em (c_sub c) (c_has_msg c) (f_md (c_meta c)) m); simpl in H; discriminate.
        * destruct (f_optional (c_meta c) && negb (f_is_msg (c_meta c))).
          -- destruct (field_by_name name_value m) as [x|]; try discriminate.
             destruct x; try discriminate. destruct (scalar_json em s); discriminate.
          -- destruct (c_sub c m); simpl in H; try discriminate.
             destruct (is_empty (f_jsonpath (c_meta c))); auto. discriminate.
      + destruct (map_res (c_sub c) l); simpl in H; discriminate.
  Qed.

  (* the value the last field with response key k assigned, [acc] if none did *)
  Fixpoint last_set (k : bytes) (vf : list cfield) (acc : option json) : option json :=
    match vf with
    | [] => acc
    | c :: r =>
      last_set k r (if bytes_eqb (ckey c) k
                    then match field_action em members d c with Ok (ASet v) => Some v | _ => acc end
                    else acc)
    end.

  Lemma fold_get : forall vf root o k,
    Forall cnonflat vf ->
    fold_res (step em members d) vf root = Ok o ->
    obj_get k o = last_set k vf (obj_get k root).
  Proof.
    induction vf as [|c r IH]; simpl; intros root o k NF H.
    - inversion H; subst. auto.
    - inversion NF as [|? ? NFc NFr]; subst.
      unfold step at 1 in H. destruct (field_action em members d c) as [a|e] eqn:FA; simpl in H; try discriminate.
      destruct a as [v|v|]; simpl in H.
      + rewrite (IH _ _ k NFr H). rewrite obj_get_set. auto.
      + apply action_merge_flat in FA. unfold cnonflat in NFc. congruence.
      + rewrite (IH _ _ k NFr H). destruct (bytes_eqb (ckey c) k); auto.
  Qed.

  Lemma last_set_none : forall k vf acc,
    (forall x, In x vf -> ckey x = k -> action_value (field_action em members d x) = None) ->
    last_set k vf acc = acc.
  Proof.
    induction vf as [|c r IH]; simpl; intros acc H; auto.
    rewrite IH by (intros; apply H; auto).
    destruct (bytes_eqb (ckey c) k) eqn:E; auto.
    apply bytes_eqb_eq in E. specialize (H c (or_introl eq_refl) E).
    destruct (field_action em members d c) as [[?|?|]|]; simpl in H; try discriminate; auto.
  Qed.

  Lemma last_set_some : forall k v vf acc,
    (forall x, In x vf -> ckey x = k -> action_value (field_action em members d x) = Some v) ->
    last_set k vf acc = if existsb (fun x => bytes_eqb (ckey x) k) vf then Some v else acc.
  Proof.
    induction vf as [|c r IH]; simpl; intros acc H; auto.
    rewrite IH by (intros; apply H; auto).
    destruct (bytes_eqb (ckey c) k) eqn:E; simpl.
    - apply bytes_eqb_eq in E. specialize (H c (or_introl eq_refl) E).
      destruct (field_action em members d c) as [[?|?|]|]; simpl in H; try discriminate.
      inversion H; subst. destruct (existsb _ r); auto.
    - auto.
  Qed.

  (* field value: whatever else is selected, a field all of whose key-sharers agree with it
     puts exactly its own value under its key *)
  Lemma field_value_at : forall vf o c,
    Forall cnonflat vf ->
    In c vf ->
    (forall x, In x vf -> ckey x = ckey c -> field_action em members d x = field_action em members d c) ->
    fold_res (step em members d) vf [] = Ok o ->
    obj_get (ckey c) o = action_value (field_action em members d c).
  Proof.
    intros vf o c NF Hin Hco H.
    rewrite (fold_get _ _ _ (ckey c) NF H). simpl.
    destruct (action_value (field_action em members d c)) as [v|] eqn:AV.
    - rewrite (last_set_some (ckey c) v).
      + assert (existsb (fun x => bytes_eqb (ckey x) (ckey c)) vf = true) as X.
        { apply existsb_exists. exists c. split; auto. apply bytes_eqb_refl. }
        rewrite X. auto.
      + intros x Hx Hk. rewrite (Hco x Hx Hk). auto.
    - apply last_set_none. intros x Hx Hk. rewrite (Hco x Hx Hk). auto.
  Qed.

  (* ---- response keys *)
  Fixpoint cemitted (vf : list cfield) : list bytes :=
    match vf with
    | [] => []
    | c :: r => match field_action em members d c with
                | Ok (ASet _) => ckey c :: cemitted r
                | _ => cemitted r
                end
    end.

  Fixpoint keys_after (ks : list bytes) (new : list bytes) : list bytes :=
    match new with
    | [] => ks
    | k :: r => keys_after (if mem_bytes k ks then ks else ks ++ [k]) r
    end.

  Lemma fold_keys : forall vf root o,
    Forall cnonflat vf ->
    fold_res (step em members d) vf root = Ok o ->
    map fst o = keys_after (map fst root) (cemitted vf).
  Proof.
    induction vf as [|c r IH]; simpl; intros root o NF H.
    - inversion H; subst. auto.
    - inversion NF as [|? ? NFc NFr]; subst.
      unfold step at 1 in H. destruct (field_action em members d c) as [a|e] eqn:FA; simpl in H; try discriminate.
      destruct a as [v|v|]; simpl in H.
      + rewrite (IH _ _ NFr H). simpl. rewrite obj_set_keys. auto.
      + apply action_merge_flat in FA. unfold cnonflat in NFc. congruence.
      + apply (IH _ _ NFr H).
  Qed.

  Lemma keys_after_dedup : forall new ks seen,
    (forall x, mem_bytes x seen = mem_bytes x ks) ->
    keys_after ks new = ks ++ dedup_first seen new.
  Proof.
    induction new as [|k r IH]; simpl; intros ks seen Hs.
    - rewrite app_nil_r. auto.
    - rewrite (Hs k). destruct (mem_bytes k ks) eqn:M.
      + apply IH. auto.
      + rewrite (IH (ks ++ [k]) (k :: seen)).
        * rewrite <- app_assoc. auto.
        * intros x. simpl. rewrite mem_bytes_app1. rewrite Hs. apply orb_comm.
  Qed.

  Lemma fold_keys_dedup : forall vf o,
    Forall cnonflat vf ->
    fold_res (step em members d) vf [] = Ok o ->
    map fst o = dedup_first [] (cemitted vf).
  Proof.
    intros. rewrite (fold_keys _ _ _ H H0). simpl. rewrite (keys_after_dedup _ [] []); auto.
  Qed.
End Loop.

(* ------------------------------------------------------------------ marshal = body over compiled fields *)
Definition compile_frags (em : enum_map) (frs : list (bytes * list pfield)) : list (bytes * list cfield) :=
  map (fun kf => (fst kf, map (compile_field em) (snd kf))) frs.

Lemma marshal_unfold : forall em name fields frags oneof members,
  marshal em (PMessage name fields frags oneof members) =
  marshal_body em name oneof members (map (compile_field em) fields) (compile_frags em frags).
Proof.
  intros. simpl.
  assert (forall l,
    (fix comp (l : list pfield) : list cfield :=
       match l with
       | [] => []
       | PField m s :: r =>
         {| c_meta := m;
            c_has_msg := match s with Some _ => true | None => false end;
            c_sub := match s with Some sp => marshal em sp | None => fun _ => Ok JNull end |} :: comp r
       end) l = map (compile_field em) l) as C.
  { induction l as [|[m s] l IH]; simpl; auto. rewrite IH. auto. }
  f_equal.
  - apply C.
  - unfold compile_frags. induction frags as [|[k fl] r IH]; simpl; auto. rewrite C. rewrite IH. auto.
Qed.

Lemma ckey_compile : forall em f, ckey (compile_field em f) = pkey f.
Proof. intros em [m s]. reflexivity. Qed.

Lemma dedup_keys_map : forall {A B} (f : A -> B) (ka : A -> bytes) (kb : B -> bytes),
  (forall x, kb (f x) = ka x) ->
  forall l seen, dedup_keys kb seen (map f l) = map f (dedup_keys ka seen l).
Proof.
  intros A B f ka kb H. induction l as [|x r IH]; simpl; intros seen; auto.
  rewrite H. destruct (mem_bytes (ka x) seen); simpl; rewrite IH; auto.
Qed.

Lemma frag_lookup_map : forall em frs t,
  frag_lookup (compile_frags em frs) t = map (compile_field em) (frag_lookup frs t).
Proof.
  intros. unfold frag_lookup, compile_frags.
  induction frs as [|[k fl] r IH]; simpl; auto.
  destruct (bytes_eqb t k); auto.
Qed.

Lemma valid_fields_compile : forall em name oneof fields frags tn,
  valid_fields ckey name oneof (map (compile_field em) fields) (compile_frags em frags) tn =
  map (compile_field em) (valid_fields pkey name oneof fields frags tn).
Proof.
  intros. unfold valid_fields. destruct (is_oneof oneof); auto.
  rewrite map_app. f_equal. unfold select_fields.
  rewrite <- (dedup_keys_map (compile_field em) pkey ckey (ckey_compile em)).
  f_equal. rewrite concat_map. f_equal. rewrite !map_map.
  apply map_ext. intros. apply frag_lookup_map.
Qed.

(* ------------------------------------------------------------------ plan level *)
Lemma marshal_ok_inv : forall em p d j,
  marshal em p d = Ok j ->
  exists d' o,
    unwrap_oneof (p_oneof p) d = Ok d' /\ j = JObj o /\
    fold_res (step em (p_members p) d') (map (compile_field em) (pvalid p (tname_of d'))) [] = Ok o.
Proof.
  intros em [name fields frags oneof members] d j H.
  rewrite marshal_unfold in H. unfold marshal_body in H. simpl.
  destruct (unwrap_oneof oneof d) as [d'|] eqn:U; simpl in H; try discriminate.
  rewrite valid_fields_compile in H.
  destruct (fold_res _ _ _) as [o|] eqn:F; simpl in H; try discriminate.
  inversion H; subst. exists d', o. auto.
Qed.

Lemma Forall_nonflat_compile : forall em vf, Forall nonflat vf -> Forall cnonflat (map (compile_field em) vf).
Proof.
  intros em vf H. induction H; simpl; constructor; auto.
  destruct x as [m s]. exact H.
Qed.

(* the value found under a field's response key is the field's own contribution *)
Lemma field_value : forall em p d d' j n,
  marshal em p d = Ok j ->
  unwrap_oneof (p_oneof p) d = Ok d' ->
  Forall nonflat (pvalid p (tname_of d')) ->
  In n (pvalid p (tname_of d')) ->
  key_coherent em (p_members p) d' n (pvalid p (tname_of d')) ->
  jget (pkey n) j = action_value (paction em (p_members p) d' n).
Proof.
  intros em p d d' j n H U NF Hin Hco.
  destruct (marshal_ok_inv _ _ _ _ H) as (d'' & o & U' & Ej & F).
  rewrite U in U'. inversion U'; subst d''. subst j. simpl.
  rewrite <- (ckey_compile em n). unfold paction.
  apply (field_value_at em (p_members p) d' (map (compile_field em) (pvalid p (tname_of d')))).
  - apply Forall_nonflat_compile. auto.
  - apply in_map. auto.
  - intros x Hx Hk. apply in_map_iff in Hx. destruct Hx as (y & Ey & Hy). subst x.
    rewrite !ckey_compile in Hk. apply (Hco y Hy Hk).
  - auto.
Qed.

(* field_action does not read the alias *)
Lemma paction_same_node : forall em members d n1 n2,
  same_node n1 n2 -> paction em members d n1 = paction em members d n2.
Proof.
  intros em members d [m1 s1] [m2 s2] (Hs & Hn & Hj & Hst & Ho & Hm & Hl & Hmd).
  simpl in *. subst s2. unfold paction, field_action. simpl.
  rewrite Hn, Hj, Hst, Ho, Hm, Hl, Hmd. reflexivity.
Qed.

(* field independence, general form: two plans for the same message type, a node of one and a
   node of the other that are equal up to the alias *)
Lemma field_independence_gen : forall em p1 p2 d d' j1 j2 n1 n2,
  p_oneof p1 = p_oneof p2 -> p_members p1 = p_members p2 ->
  marshal em p1 d = Ok j1 -> marshal em p2 d = Ok j2 ->
  unwrap_oneof (p_oneof p1) d = Ok d' ->
  Forall nonflat (pvalid p1 (tname_of d')) -> Forall nonflat (pvalid p2 (tname_of d')) ->
  In n1 (pvalid p1 (tname_of d')) -> In n2 (pvalid p2 (tname_of d')) ->
  key_coherent em (p_members p1) d' n1 (pvalid p1 (tname_of d')) ->
  key_coherent em (p_members p2) d' n2 (pvalid p2 (tname_of d')) ->
  same_node n1 n2 ->
  jget (pkey n1) j1 = jget (pkey n2) j2.
Proof.
  intros em p1 p2 d d' j1 j2 n1 n2 Eo Em H1 H2 U NF1 NF2 I1 I2 C1 C2 SN.
  rewrite (field_value em p1 d d' j1 n1 H1 U NF1 I1 C1).
  assert (unwrap_oneof (p_oneof p2) d = Ok d') as U2 by (rewrite <- Eo; auto).
  rewrite (field_value em p2 d d' j2 n2 H2 U2 NF2 I2 C2).
  rewrite <- Em. rewrite (paction_same_node em (p_members p1) d' n1 n2 SN). auto.
Qed.

Lemma same_node_refl : forall n, same_node n n.
Proof. intros [m s]. unfold same_node. simpl. repeat split; auto. Qed.

(* distinct response keys make every field key-coherent *)
Lemma nodup_coherent : forall em members d vf n,
  NoDup (map pkey vf) -> In n vf -> key_coherent em members d n vf.
Proof.
  intros em members d vf n ND Hin x Hx Hk.
  assert (x = n) as E.
  { clear - ND Hin Hx Hk. induction vf as [|y r IH]; simpl in *; try contradiction.
    inversion ND as [|? ? Hy NDr]; subst.
    destruct Hin as [E1|I1]; destruct Hx as [E2|I2]; subst; auto.
    - exfalso. apply Hy. rewrite <- Hk. apply in_map. auto.
    - exfalso. apply Hy. rewrite Hk. apply in_map. auto. }
  subst. auto.
Qed.

(* ------------------------------------------------------------------ keys of the output *)
Lemma cemitted_compile : forall em members d vf,
  cemitted em members d (map (compile_field em) vf) = emitted_keys em members d vf.
Proof.
  induction vf as [|f r IH]; simpl; auto.
  unfold paction. rewrite ckey_compile. rewrite IH. auto.
Qed.

Lemma shape_keys : forall em p d d' j,
  marshal em p d = Ok j ->
  unwrap_oneof (p_oneof p) d = Ok d' ->
  Forall nonflat (pvalid p (tname_of d')) ->
  exists o, j = JObj o /\
            map fst o = dedup_first [] (emitted_keys em (p_members p) d' (pvalid p (tname_of d'))).
Proof.
  intros em p d d' j H U NF.
  destruct (marshal_ok_inv _ _ _ _ H) as (d'' & o & U' & Ej & F).
  rewrite U in U'. inversion U'; subst d''. exists o. split; auto.
  rewrite (fold_keys_dedup em (p_members p) d' _ _ (Forall_nonflat_compile em _ NF) F).
  rewrite cemitted_compile. auto.
Qed.

Lemma dedup_first_nodup : forall l seen,
  NoDup l -> (forall x, In x l -> ~ In x seen) -> dedup_first seen l = l.
Proof.
  induction l as [|k r IH]; simpl; intros seen ND Hs; auto.
  inversion ND as [|? ? Hk NDr]; subst.
  destruct (mem_bytes k seen) eqn:M.
  - apply mem_bytes_In in M. exfalso. apply (Hs k); auto.
  - f_equal. apply IH; auto. intros x Hx [E|I].
    + subst. contradiction.
    + apply (Hs x); auto.
Qed.

Lemma emitted_all : forall em members d vf,
  (forall f, In f vf -> exists v, paction em members d f = Ok (ASet v)) ->
  emitted_keys em members d vf = map pkey vf.
Proof.
  induction vf as [|f r IH]; simpl; intros H; auto.
  destruct (H f (or_introl eq_refl)) as (v & E). rewrite E. f_equal. apply IH. intros; apply H; auto.
Qed.

(* exactly the plan's response keys, in plan order *)
Lemma shape_keys_exact : forall em p d d' j,
  marshal em p d = Ok j ->
  unwrap_oneof (p_oneof p) d = Ok d' ->
  Forall nonflat (pvalid p (tname_of d')) ->
  NoDup (map pkey (pvalid p (tname_of d'))) ->
  (forall f, In f (pvalid p (tname_of d')) -> exists v, paction em (p_members p) d' f = Ok (ASet v)) ->
  exists o, j = JObj o /\ map fst o = map pkey (pvalid p (tname_of d')).
Proof.
  intros em p d d' j H U NF ND EM.
  destruct (shape_keys em p d d' j H U NF) as (o & Ej & K).
  exists o. split; auto. rewrite K. rewrite emitted_all by auto.
  apply dedup_first_nodup; auto.
Qed.
