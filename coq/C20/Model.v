(* C20: executable model of v2/pkg/engine/datasource/grpc_datasource/json_builder.go
   (protobuf response message -> GraphQL JSON), branch by branch, plus the part of
   DataSource.Load (grpc_datasource.go) that assembles the per-call results.

   Inputs are what the Go code reads:
     - the response plan of a call: an [RPCMessage] tree ([pmessage] / [pfield]);
     - the protobuf answer as protoreflect shows it ([pmsg]): per message its type name, which
       member of each oneof is set, and every field of the descriptor with name, number and value
       (default values for unset scalars, [FAbsent] for an unpopulated message field);
     - the enum value mapping of the GRPCMapping.
   Output: lib/Json values.  astjson's Set / SetArrayItem / MergeValues are modelled here
   (object member order is kept; numbers are raw tokens).  No proofs in this file. *)
From Gv Require Import lib.Bytes lib.Json.
From Coq Require Import List NArith Bool.
Import ListNotations.
Open Scope N_scope.

(* ------------------------------------------------------------------ results *)
Inductive err :=
| EOneofMissing      (* "oneof %s not found in message" (descriptor has no such oneof) *)
| EOneofUnset        (* WhichOneof returned nil *)
| EListMeta          (* "list metadata not found" *)
| EListLevels        (* "nesting level data does not match ..." *)
| ENonNullList       (* "cannot add null item to response for non nullable list" *)
| EFieldNum1         (* "field with number 1 not found" *)
| ENotMessage        (* "field %q is not a message" *)
| ENotList           (* "field %q is not a list" *)
| EOptionalValue     (* "unable to resolve optional field: field "value" not found" *)
| EMergeTypes        (* astjson.ErrMergeDifferentTypes *)
| EMergeLen          (* astjson.ErrMergeDifferingArrayLengths *)
| EPathEmpty         (* "path is empty" *)
| ENotFound          (* "field %s not found in object" *)
| EExpected          (* "expected array or object, got %s" *)
| ELenMismatch       (* "length of values doesn't match the length of the result array" *)
| EEntityCount       (* validateEntityResponse *)
| EPanic.            (* the Go code would panic (nil dereference, index out of range, wrong Value kind) *)

Inductive res (A : Type) := Ok (a : A) | Err (e : err).
Arguments Ok {A} a.
Arguments Err {A} e.

Definition bind {A B} (r : res A) (f : A -> res B) : res B :=
  match r with Ok a => f a | Err e => Err e end.
Notation "x <- r ;; k" := (bind r (fun x => k)) (at level 61, r at next level, right associativity).

Fixpoint map_res {A B} (f : A -> res B) (l : list A) : res (list B) :=
  match l with
  | [] => Ok []
  | x :: r => y <- f x ;; ys <- map_res f r ;; Ok (y :: ys)
  end.

Fixpoint fold_res {A S} (f : S -> A -> res S) (l : list A) (s : S) : res S :=
  match l with
  | [] => Ok s
  | x :: r => s' <- f s x ;; fold_res f r s'
  end.

(* state-passing map: threads a supply of values through the elements *)
Fixpoint map_state {A B S} (f : A -> S -> res (B * S)) (l : list A) (s : S) : res (list B * S) :=
  match l with
  | [] => Ok ([], s)
  | x :: r => p <- f x s ;; q <- map_state f r (snd p) ;; Ok (fst p :: fst q, snd q)
  end.

(* ------------------------------------------------------------------ protobuf value tree *)
Inductive pscalar :=
| SBool (b : bool)
| SStr (s : bytes)
| SI32 (raw : bytes)          (* strconv.Itoa text *)
| SI64 (raw : bytes)
| SUint (raw : bytes)         (* uint32 / uint64 *)
| SFloat (raw : bytes)        (* float / double, text as astjson.FloatValue prints it *)
| SBytes (s : bytes)
| SEnum (ename : bytes) (vname : option bytes)   (* enum type; value name if the number is declared *)
| SOther.                     (* sint32, sint64, fixed32, ... : no case in the Go switch *)

Inductive pmsg :=
| PMsg (tname : bytes) (oneofs : list (bytes * option bytes)) (fields : list pfe)
with pfe :=
| PFE (name : bytes) (num : N) (v : pfld)
with pfld :=
| FScalar (s : pscalar)
| FAbsent                      (* singular message field, not populated: Message().IsValid() = false *)
| FMsg (m : pmsg)
| FListS (l : list pscalar)    (* repeated scalar / enum *)
| FListM (l : list pmsg).      (* repeated message *)

Definition tname_of (d : pmsg) : bytes := match d with PMsg t _ _ => t end.
Definition oneofs_of (d : pmsg) := match d with PMsg _ o _ => o end.
Definition fields_of (d : pmsg) := match d with PMsg _ _ f => f end.

Fixpoint assoc {A} (k : bytes) (l : list (bytes * A)) : option A :=
  match l with
  | [] => None
  | (k', v) :: r => if bytes_eqb k k' then Some v else assoc k r
  end.

Fixpoint pfe_by_name (k : bytes) (l : list pfe) : option pfld :=
  match l with
  | [] => None
  | PFE n _ v :: r => if bytes_eqb k n then Some v else pfe_by_name k r
  end.
Fixpoint pfe_by_num (k : N) (l : list pfe) : option pfld :=
  match l with
  | [] => None
  | PFE _ n v :: r => if k =? n then Some v else pfe_by_num k r
  end.
Definition field_by_name (k : bytes) (d : pmsg) := pfe_by_name k (fields_of d).
Definition field_by_num (k : N) (d : pmsg) := pfe_by_num k (fields_of d).

(* ------------------------------------------------------------------ plan tree *)
Inductive oneof_type := OneNone | OneIface | OneUnion.

Record fmeta := {
  f_name : bytes;           (* RPCField.Name: protobuf field name *)
  f_alias : bytes;          (* RPCField.Alias *)
  f_jsonpath : bytes;       (* RPCField.JSONPath *)
  f_static : bytes;         (* RPCField.StaticValue *)
  f_optional : bool;        (* RPCField.Optional *)
  f_is_msg : bool;          (* ProtoTypeName == DataTypeMessage *)
  f_is_list_type : bool;    (* RPCField.IsListType *)
  f_repeated : bool;        (* RPCField.Repeated (not read by the builder) *)
  f_md : option (nat * list bool)   (* ListMetadata: nesting level, Optional per level *)
}.

Inductive pfield :=
| PField (meta : fmeta) (sub : option pmessage)
with pmessage :=
| PMessage (name : bytes) (fields : list pfield) (frags : list (bytes * list pfield))
           (oneof : oneof_type) (members : list bytes).

Definition meta_of (f : pfield) := match f with PField m _ => m end.
Definition sub_of_field (f : pfield) := match f with PField _ s => s end.

Definition is_empty (b : bytes) : bool := match b with [] => true | _ => false end.

(* RPCField.AliasOrPath *)
Definition key (m : fmeta) : bytes := if is_empty (f_alias m) then f_jsonpath m else f_alias m.

Definition is_oneof (o : oneof_type) : bool := match o with OneNone => false | _ => true end.
(* OneOfType.FieldName: "instance" / "value" *)
Definition oneof_field_name (o : oneof_type) : bytes :=
  match o with
  | OneNone => []
  | OneIface => [105;110;115;116;97;110;99;101]
  | OneUnion => [118;97;108;117;101]
  end.
Definition name_value : bytes := [118;97;108;117;101].                    (* "value" *)
Definition name_result : bytes := [114;101;115;117;108;116].              (* "result" *)
Definition name_entities : bytes := [95;101;110;116;105;116;105;101;115]. (* "_entities" *)
Definition name_data : bytes := [100;97;116;97].                          (* "data" *)

(* ------------------------------------------------------------------ astjson pieces *)
(* Object.Set: replace the value of an existing key in place, otherwise append *)
Fixpoint obj_set (k : bytes) (v : json) (o : list (bytes * json)) : list (bytes * json) :=
  match o with
  | [] => [(k, v)]
  | (k', v') :: r => if bytes_eqb k k' then (k', v) :: r else (k', v') :: obj_set k v r
  end.

(* Value.SetArrayItem: pad with null up to idx, then assign *)
Fixpoint set_item (i : nat) (v : json) (a : list json) : list json :=
  match i, a with
  | O, [] => [v]
  | O, _ :: r => v :: r
  | S i', [] => JNull :: set_item i' v []
  | S i', x :: r => x :: set_item i' v r
  end.

Fixpoint arr_from (i : nat) (vals : list (option json)) (a : list json) : list json :=
  match vals with
  | [] => a
  | Some v :: r => arr_from (S i) r (set_item i v a)
  | None :: r => arr_from (S i) r a
  end.
(* items set at their own index; an item whose kind the Go switch does not handle sets nothing *)
Definition arr_of (vals : list (option json)) : list json := arr_from O vals [].

(* Value.Get with one key: objects by member name; arrays only by decimal index, which a
   GraphQL name never is *)
Definition jget_go (k : bytes) (j : json) : option json :=
  match j with JObj m => obj_get k m | _ => None end.

(* astjson.MergeValues(a, b) -- the merged value (the "changed" flag only tells the caller
   whether to re-assign, which a functional model does unconditionally).  Numbers are compared
   by raw token here (Go compares the float64 readings). *)
Fixpoint merge (a b : json) {struct b} : res json :=
  match b with
  | JNull => match a with JObj _ => Ok a | JNull => Ok a | _ => Err EMergeTypes end
  | JBool y => match a with JBool x => if Bool.eqb x y then Ok a else Ok b | _ => Err EMergeTypes end
  | JNum y => match a with JNum x => if bytes_eqb x y then Ok a else Ok b | _ => Err EMergeTypes end
  | JStr y => match a with JStr x => if bytes_eqb x y then Ok a else Ok b | _ => Err EMergeTypes end
  | JArr bl =>
    match a with
    | JArr al =>
      match al, bl with
      | [], _ => Ok b
      | _, [] => Ok a
      | _, _ =>
        l <- (fix go (al bl : list json) {struct bl} : res (list json) :=
                match al, bl with
                | [], [] => Ok []
                | x :: al', y :: bl' => r <- merge x y ;; rs <- go al' bl' ;; Ok (r :: rs)
                | _, _ => Err EMergeLen
                end) al bl ;;
        Ok (JArr l)
      end
    | _ => Err EMergeTypes
    end
  | JObj bm =>
    match a with
    | JObj am =>
      o <- (fix go (am : list (bytes * json)) (bm : list (bytes * json)) {struct bm} : res (list (bytes * json)) :=
              match bm with
              | [] => Ok am
              | (k, r) :: bm' =>
                match obj_get k am with
                | None => go (obj_set k r am) bm'
                | Some l => n <- merge l r ;; go (obj_set k n am) bm'
                end
              end) am bm ;;
      Ok (JObj o)
    | _ => Err EMergeTypes
    end
  end.

(* ------------------------------------------------------------------ scalars *)
Definition enum_map := list (bytes * list (bytes * bytes)).   (* enum -> (GraphQL value, gRPC value) *)

(* GRPCMapping.FindEnumValueMapping *)
Fixpoint find_enum_in (l : list (bytes * bytes)) (v : bytes) : option bytes :=
  match l with
  | [] => None
  | (gv, tv) :: r => if bytes_eqb gv v then Some tv else if bytes_eqb tv v then Some gv else find_enum_in r v
  end.
Definition find_enum (em : enum_map) (ename v : bytes) : option bytes :=
  match assoc ename em with None => None | Some l => find_enum_in l v end.

(* setJSONValue / setArrayItem: [None] = nothing is set *)
Definition scalar_json (em : enum_map) (s : pscalar) : option json :=
  match s with
  | SBool b => Some (JBool b)
  | SStr x => Some (JStr x)
  | SI32 r => Some (JNum r)
  | SI64 r => Some (JNum r)
  | SUint r => Some (JNum r)
  | SFloat r => Some (JNum r)
  | SBytes x => Some (JStr x)
  | SEnum en None => Some JNull
  | SEnum en (Some v) => Some (match find_enum em en v with Some g => JStr g | None => JNull end)
  | SOther => None
  end.

(* ------------------------------------------------------------------ list wrappers *)
(* traverseList.  [k] = NestingLevel - 1 - level (number of intermediate levels still below);
   [sub] = marshalResponseJSON for field.Message, [has_msg] = (field.Message != nil). *)
Fixpoint traverse (em : enum_map) (sub : pmsg -> res json) (has_msg : bool) (levels : list bool)
         (k : nat) (level : nat) (data : pmsg) {struct k} : res json :=
  match field_by_num 1 data with
  | None => Err EFieldNum1
  | Some (FScalar _) => Err ENotMessage
  | Some (FListS _) => Err ENotMessage
  | Some (FListM _) => Err EPanic
  | Some FAbsent =>
    match nth_error levels level with
    | None => Err EPanic
    | Some true => Ok JNull
    | Some false => Err ENonNullList
    end
  | Some (FMsg w) =>
    match field_by_num 1 w with
    | None => Err EPanic
    | Some (FListM items) =>
      match k with
      | S k' => vs <- map_res (traverse em sub has_msg levels k' (S level)) items ;; Ok (JArr vs)
      | O => if has_msg then vs <- map_res sub items ;; Ok (JArr vs) else Ok (JArr [])
      end
    | Some (FListS items) =>
      match k with
      | S _ => match items with [] => Ok (JArr []) | _ => Err EPanic end
      | O => if has_msg then match items with [] => Ok (JArr []) | _ => Err EPanic end
             else Ok (JArr (arr_of (map (scalar_json em) items)))
      end
    | Some _ => Err ENotList
    end
  end.

(* flattenListStructure (data is valid: the caller checked) *)
Definition flatten_list (em : enum_map) (sub : pmsg -> res json) (has_msg : bool)
           (md : option (nat * list bool)) (data : pmsg) : res json :=
  match md with
  | None => Err EListMeta
  | Some (nesting, levels) =>
    if Nat.ltb (length levels) nesting then Err EListLevels
    else traverse em sub has_msg levels (Nat.pred nesting) O data
  end.

(* ------------------------------------------------------------------ one field *)
Inductive action :=
| ASet (v : json)       (* root.Set(field.AliasOrPath(), v) *)
| AMerge (v : json)     (* root = MergeValues(root, v)   (JSONPath == "") *)
| ANone.                (* nothing happens to root *)

(* a field of the plan with the builder of its sub-message already attached *)
Record cfield := {
  c_meta : fmeta;
  c_has_msg : bool;                 (* field.Message != nil *)
  c_sub : pmsg -> res json          (* marshalResponseJSON(field.Message, .) *)
}.
Definition ckey (c : cfield) : bytes := key (c_meta c).

(* what one iteration of the field loop of marshalResponseJSON does, as a function of the field's
   plan node (meta + builder of its sub-message), the enclosing message's MemberTypes and the
   (oneof-unwrapped) protobuf message *)
Definition field_action (em : enum_map) (members : list bytes) (d : pmsg) (c : cfield) : res action :=
  let m := c_meta c in
  if negb (is_empty (f_static m)) then
    match members with
    | [] => Ok (ASet (JStr (f_static m)))
    | _ => if mem_bytes (tname_of d) members then Ok (ASet (JStr (tname_of d))) else Ok ANone
    end
  else
    match field_by_name (f_name m) d with
    | None => Ok ANone
    | Some (FListS l) => Ok (ASet (JArr (arr_of (map (scalar_json em) l))))
    | Some (FListM l) => vs <- map_res (c_sub c) l ;; Ok (ASet (JArr vs))
    | Some FAbsent => Ok (ASet JNull)
    | Some (FMsg msg) =>
      if f_is_list_type m then
        v <- flatten_list em (c_sub c) (c_has_msg c) (f_md m) msg ;; Ok (ASet v)
      else if f_optional m && negb (f_is_msg m) then
        match field_by_name name_value msg with
        | None => Err EOptionalValue
        | Some (FScalar s) => match scalar_json em s with Some v => Ok (ASet v) | None => Ok ANone end
        | Some (FListS _) => Err EPanic
        | Some _ => Ok ANone
        end
      else
        v <- c_sub c msg ;;
        if is_empty (f_jsonpath m) then Ok (AMerge v) else Ok (ASet v)
    | Some (FScalar s) => match scalar_json em s with Some v => Ok (ASet v) | None => Ok ANone end
    end.

Definition apply_action (k : bytes) (a : action) (root : list (bytes * json)) : res (list (bytes * json)) :=
  match a with
  | ASet v => Ok (obj_set k v root)
  | ANone => Ok root
  | AMerge v =>
    r <- merge (JObj root) v ;;
    match r with JObj o => Ok o | _ => Err EPanic end
  end.

(* ------------------------------------------------------------------ one message *)
(* the oneof part of marshalResponseJSON: the message the fields are read from *)
Definition unwrap_oneof (oneof : oneof_type) (d : pmsg) : res pmsg :=
  if is_oneof oneof then
    match assoc (oneof_field_name oneof) (oneofs_of d) with
    | None => Err EOneofMissing
    | Some None => Err EOneofUnset
    | Some (Some fname) =>
      match field_by_name fname d with
      | Some (FMsg m') => Ok m'
      | Some (FScalar _) => Ok d
      | _ => Err EPanic
      end
    end
  else Ok d.

(* RPCMessage.SelectValidTypes *)
Definition valid_types (name tn : bytes) : list bytes :=
  if bytes_eqb name tn then [name] else [name; tn].

(* RPCFieldSelectionSet.SelectFieldsForTypes: the fields of the valid types in order, first
   occurrence of every AliasOrPath *)
Fixpoint dedup_keys {A} (keyf : A -> bytes) (seen : list bytes) (l : list A) : list A :=
  match l with
  | [] => []
  | x :: r => if mem_bytes (keyf x) seen then dedup_keys keyf seen r
              else x :: dedup_keys keyf (keyf x :: seen) r
  end.
Definition frag_lookup {A} (frs : list (bytes * list A)) (t : bytes) : list A :=
  match assoc t frs with Some l => l | None => [] end.
Definition select_fields {A} (keyf : A -> bytes) (frs : list (bytes * list A)) (types : list bytes) : list A :=
  dedup_keys keyf [] (concat (map (frag_lookup frs) types)).

(* validFields *)
Definition valid_fields {A} (keyf : A -> bytes) (name : bytes) (oneof : oneof_type)
           (fields : list A) (frs : list (bytes * list A)) (tn : bytes) : list A :=
  if is_oneof oneof then fields ++ select_fields keyf frs (valid_types name tn) else fields.

Definition step (em : enum_map) (members : list bytes) (d : pmsg)
           (root : list (bytes * json)) (c : cfield) : res (list (bytes * json)) :=
  a <- field_action em members d c ;; apply_action (ckey c) a root.

Definition marshal_body (em : enum_map) (name : bytes) (oneof : oneof_type) (members : list bytes)
           (cf : list cfield) (cfr : list (bytes * list cfield)) (d : pmsg) : res json :=
  d' <- unwrap_oneof oneof d ;;
  o <- fold_res (step em members d') (valid_fields ckey name oneof cf cfr (tname_of d')) [] ;;
  Ok (JObj o).

(* marshalResponseJSON, by structural recursion on the plan.  The builders of the sub-messages
   are attached to the fields first ([compile]), the loop itself is [marshal_body]. *)
Fixpoint marshal (em : enum_map) (p : pmessage) {struct p} : pmsg -> res json :=
  match p with
  | PMessage name fields frags oneof members =>
    let comp :=
        fix comp (l : list pfield) : list cfield :=
          match l with
          | [] => []
          | PField m s :: r =>
            {| c_meta := m;
               c_has_msg := match s with Some _ => true | None => false end;
               c_sub := match s with Some sp => marshal em sp | None => fun _ => Ok JNull end |} :: comp r
          end in
    let compf :=
        fix compf (l : list (bytes * list pfield)) : list (bytes * list cfield) :=
          match l with
          | [] => []
          | (k, fl) :: r => (k, comp fl) :: compf r
          end in
    marshal_body em name oneof members (comp fields) (compf frags)
  end.

(* the same attachment as a plain function, for stating lemmas *)
Definition compile_field (em : enum_map) (f : pfield) : cfield :=
  match f with
  | PField m s =>
    {| c_meta := m;
       c_has_msg := match s with Some _ => true | None => false end;
       c_sub := match s with Some sp => marshal em sp | None => fun _ => Ok JNull end |}
  end.

(* ------------------------------------------------------------------ DataSource.Load assembly *)
Inductive call_kind := CStd | CEntity | CResolve | CRequired.

Record call := {
  c_kind : call_kind;
  c_path : list bytes;         (* RPCCall.ResponsePath (field names) *)
  c_plan : pmessage;           (* RPCCall.Response *)
  c_resp : pmsg;               (* the protobuf answer *)
  c_idx : list nat;            (* entity calls: positions of the representations of the requested type *)
  c_nreps : nat;               (* entity calls: number of representations *)
  c_ents : option (list nat)   (* follow-up calls of an entity lookup: positions of the representations of its type *)
}.

(* mergeEntities (left is the root object) *)
Definition merge_entities (left right : json) (idx : list nat) : res json :=
  match left with
  | JObj lo =>
    let ents := match jget_go name_entities right with Some (JArr l) => l | _ => [] end in
    let arr0 := match obj_get name_entities lo with Some (JArr l) => l | _ => [] end in
    let lo' := match obj_get name_entities lo with Some (JArr _) => lo | _ => obj_set name_entities (JArr []) lo end in
    arr <- (fix go (i : nat) (es : list json) (arr : list json) : res (list json) :=
              match es with
              | [] => Ok arr
              | e :: r => match nth_error idx i with
                          | None => Err EPanic
                          | Some pos => go (S i) r (set_item pos e arr)
                          end
              end) O ents arr0 ;;
    Ok (JObj (obj_set name_entities (JArr arr) lo'))
  | _ => Err EPanic
  end.

(* validateEntityResponse *)
Definition validate_entities (resp : json) (idx : list nat) (nreps : nat) : res unit :=
  match nreps with
  | O => Err EEntityCount
  | _ =>
    let ents := match jget_go name_entities resp with Some (JArr l) => l | _ => [] end in
    if Nat.eqb (length ents) (length idx) then Ok tt else Err EEntityCount
  end.

(* flattenList's loop: a nested array is descended (the path applies below the innermost items), a
   null item is skipped, every other item goes to flattenObject ([f]) with the same path.  Counting
   version and, below, the assigning version. *)
Fixpoint flat_item (f : json -> res nat) (item : json) {struct item} : res nat :=
  match item with
  | JArr l =>
    (fix go (l : list json) : res nat :=
       match l with
       | [] => Ok 0%nat
       | x :: r => a <- flat_item f x ;; b <- go r ;; Ok (a + b)%nat
       end) l
  | JNull => Ok 0%nat
  | _ => f item
  end.
Fixpoint flat_items (f : json -> res nat) (l : list json) : res nat :=
  match l with
  | [] => Ok 0%nat
  | x :: r => a <- flat_item f x ;; b <- flat_items f r ;; Ok (a + b)%nat
  end.

(* flattenObject / flattenList, counting the targets *)
Fixpoint flat_count (path : list bytes) (value : json) : res nat :=
  match path with
  | [] => Ok 1%nat
  | seg :: rest =>
    match jget_go seg value with
    | None => Err ENotFound
    | Some (JObj o) => flat_count rest (JObj o)
    | Some (JArr items) => flat_items (flat_count rest) items
    | Some JNull => Ok 0%nat           (* a null parent is skipped (it has no resolver context either) *)
    | Some _ => Err EExpected
    end
  end.

(* responseValues[i].Set(elementName, resolvedValues[i].Get(elementName)) on one target *)
Definition set_target (elem : bytes) (resolved : json) (target : json) : json :=
  match target with
  | JObj o => JObj (obj_set elem (match jget_go elem resolved with Some x => x | None => JNull end) o)
  | _ => target
  end.

Definition upd := json -> list json -> res (json * list json).

Fixpoint upd_item (f : upd) (item : json) (vals : list json) {struct item} : res (json * list json) :=
  match item with
  | JArr l =>
    p <- (fix go (l : list json) (vals : list json) : res (list json * list json) :=
            match l with
            | [] => Ok ([], vals)
            | x :: r => p <- upd_item f x vals ;; q <- go r (snd p) ;; Ok (fst p :: fst q, snd q)
            end) l vals ;;
    Ok (JArr (fst p), snd p)
  | JNull => Ok (JNull, vals)
  | _ => f item vals
  end.
Fixpoint upd_items (f : upd) (l : list json) (vals : list json) : res (list json * list json) :=
  match l with
  | [] => Ok ([], vals)
  | x :: r => p <- upd_item f x vals ;; q <- upd_items f r (snd p) ;; Ok (fst p :: fst q, snd q)
  end.

(* the same traversal, assigning the resolved values to the targets in order *)
Fixpoint flat_update (elem : bytes) (path : list bytes) (value : json) (vals : list json)
  : res (json * list json) :=
  match path with
  | [] =>
    match vals with
    | [] => Err ELenMismatch
    | v :: vs => Ok (set_target elem v value, vs)
    end
  | seg :: rest =>
    match value with
    | JObj vo =>
      match obj_get seg vo with
      | None => Err ENotFound
      | Some (JObj o) =>
        p <- flat_update elem rest (JObj o) vals ;; Ok (JObj (obj_set seg (fst p) vo), snd p)
      | Some (JArr items) =>
        p <- upd_items (flat_update elem rest) items vals ;; Ok (JObj (obj_set seg (JArr (fst p)) vo), snd p)
      | Some JNull => Ok (value, vals)
      | Some _ => Err EExpected
      end
    | _ => Err ENotFound
    end
  end.

(* the entities a follow-up call of an entity lookup belongs to: the positions of [idx] that exist, in
   the order of [idx] *)
Fixpoint select_items (idx : list nat) (items : list json) : list (nat * json) :=
  match idx with
  | [] => []
  | i :: r => match nth_error items i with
              | Some x => (i, x) :: select_items r items
              | None => select_items r items
              end
  end.
(* Go updates the selected values in place; here they are written back to their positions *)
Fixpoint write_back (pos : list nat) (us : list json) (items : list json) : list json :=
  match pos, us with
  | i :: pr, u :: ur => write_back pr ur (set_item i u items)
  | _, _ => items
  end.

(* mergeWithPath.  [ents] = the entityIndexMap of a follow-up call (@requires, field resolver) of an
   entity lookup: under "_entities" only the entities at these positions take part. *)
Definition merge_with_path (base resolved : json) (path : list bytes) (ents : option (list nat)) : res json :=
  match path with
  | [] => Err EPathEmpty
  | _ =>
    let vals := match jget_go name_result resolved with Some (JArr l) => l | _ => [] end in
    match vals with
    | [] => Ok base
    | _ =>
      let elem := last path [] in
      match removelast path with
      | [] => Err EPanic
      | s0 :: rest =>
        match base with
        | JObj bo =>
          match obj_get s0 bo with
          | None => Err EPanic                       (* current.Type() on a nil *Value *)
          | Some (JArr items) =>
            let sel := match ents with
                       | Some idx => if bytes_eqb s0 name_entities then Some (select_items idx items) else None
                       | None => None
                       end in
            let targets := match sel with Some s => map snd s | None => items end in
            n <- flat_items (flat_count rest) targets ;;
            if negb (Nat.eqb n (length vals)) then Err ELenMismatch
            else
              q <- upd_items (flat_update elem rest) targets vals ;;
              let items' := match sel with Some s => write_back (map fst s) (fst q) items | None => fst q end in
              Ok (JObj (obj_set s0 (JArr items') bo))
          | Some cur =>
            n <- flat_count rest cur ;;
            if negb (Nat.eqb n (length vals)) then Err ELenMismatch
            else
              p <- flat_update elem rest cur vals ;;
              Ok (JObj (obj_set s0 (fst p) bo))
          end
        | _ => Err EPanic
        end
      end
    end
  end.

Definition load_step (em : enum_map) (root : json) (c : call) : res json :=
  resp <- marshal em (c_plan c) (c_resp c) ;;
  match c_kind c with
  | CResolve | CRequired => merge_with_path root resp (c_path c) (c_ents c)
  | CStd => merge root resp
  | CEntity => _ <- validate_entities resp (c_idx c) (c_nreps c) ;; merge_entities root resp (c_idx c)
  end.

(* DataSource.Load, after the calls were made: the "data" envelope around the merged results *)
Definition load (em : enum_map) (calls : list call) : res json :=
  root <- fold_res (load_step em) calls (JObj []) ;;
  Ok (JObj [(name_data, root)]).
