(* C20: what "the answer is a consistent projection" means.
   Part 1 - the spec checkers that run on the IMPLEMENTATION's JSON (extracted):
     [conf_b]        S1: a JSON value has the shape an operation's selection demands
                     (response keys, nesting, list-ness, nullability, __typename, scalar kinds);
                     the expected shape [gtype] is computed by the harness from operation + schema
                     (GraphQL CollectFields), never from the library;
     [project], [consistent_b]   S2: values at response positions common to an operation and a
                     reformulation of it are equal; positions are aligned by the uid of the field
                     instance they stem from.
   Part 2 - the builder-level notions the theorems are stated with. *)
From Gv Require Import lib.Bytes lib.Json C20.Model.
From Coq Require Import List NArith Bool.
Import ListNotations.
Open Scope N_scope.

(* ------------------------------------------------------------------ expected shapes *)
Inductive gtype :=
| GNonNull (t : gtype)
| GList (t : gtype)
| GEntities (names : list bytes) (t : gtype)
  (* the _entities list: one item per representation, the i-th of the i-th representation's type *)
| GScalar (name : bytes)               (* String Int Float Boolean ID, or a custom scalar *)
| GEnum (values : list bytes)
| GTypename
| GObj (variants : list (list bytes * list (bytes * N * gtype))).
  (* one variant per possible concrete type: its name(s), and key / uid / type per response key *)

Definition s_String : bytes := [83;116;114;105;110;103].
Definition s_Int : bytes := [73;110;116].
Definition s_Float : bytes := [70;108;111;97;116].
Definition s_Boolean : bytes := [66;111;111;108;101;97;110].
Definition s_ID : bytes := [73;68].
Definition s_typename : bytes := [95;95;116;121;112;101;110;97;109;101].

(* JSON integer token: -?digits *)
Definition int_token (r : bytes) : bool :=
  match r with
  | 45 :: (_ :: _) as ds => forallb is_digit ds
  | _ :: _ => forallb is_digit r
  | [] => false
  end.

Definition scalar_ok (name : bytes) (j : json) : bool :=
  if bytes_eqb name s_String then match j with JStr _ => true | _ => false end
  else if bytes_eqb name s_ID then match j with JStr _ => true | JNum r => int_token r | _ => false end
  else if bytes_eqb name s_Int then match j with JNum r => int_token r | _ => false end
  else if bytes_eqb name s_Float then match j with JNum _ => true | _ => false end
  else if bytes_eqb name s_Boolean then match j with JBool _ => true | _ => false end
  else true.

Fixpoint keys_distinct (m : list (bytes * json)) : bool :=
  match m with
  | [] => true
  | (k, _) :: r => negb (match obj_get k r with Some _ => true | None => false end) && keys_distinct r
  end.

(* S1 *)
Fixpoint conf_b (t : gtype) (j : json) {struct t} : bool :=
  match t with
  | GNonNull t' => match j with JNull => false | _ => conf_b t' j end
  | GList t' => match j with JNull => true | JArr items => forallb (conf_b t') items | _ => false end
  | GEntities names t' =>
    match j with
    | JArr items =>
      (fix go (ns : list bytes) (is : list json) {struct is} : bool :=
         match ns, is with
         | [], [] => true
         | n :: ns', i :: is' =>
           conf_b t' i && match jget s_typename i with Some (JStr s) => bytes_eqb s n | _ => false end && go ns' is'
         | _, _ => false
         end) names items
    | _ => false
    end
  | GScalar n => match j with JNull => true | _ => scalar_ok n j end
  | GEnum vs => match j with JNull => true | JStr s => mem_bytes s vs | _ => false end
  | GTypename => match j with JStr _ => true | _ => false end
  | GObj variants =>
    match j with
    | JNull => true
    | JObj members =>
      keys_distinct members &&
      (fix anyv (vs : list (list bytes * list (bytes * N * gtype))) : bool :=
         match vs with
         | [] => false
         | (names, fields) :: r =>
           (Nat.eqb (length members) (length fields) &&
            (fix allf (fs : list (bytes * N * gtype)) : bool :=
               match fs with
               | [] => true
               | (k, _, ft) :: fr =>
                 match obj_get k members with
                 | None => false
                 | Some v =>
                   match ft with
                   | GTypename => match v with JStr s => mem_bytes s names | _ => false end
                   | GNonNull GTypename => match v with JStr s => mem_bytes s names | _ => false end
                   | _ => conf_b ft v
                   end && allf fr
                 end
               end) fields)
           || anyv r
         end) variants
    | _ => false
    end
  end.

(* S2 *)
Inductive canon :=
| CNull
| CLeaf (j : json)
| CList (l : list canon)
| CObj (m : list (N * canon))
| CBad.                       (* the value does not have the expected shape: S1 reports it *)

Definition variant_matches (members : list (bytes * json)) (names : list bytes)
           (fields : list (bytes * N * gtype)) : bool :=
  Nat.eqb (length members) (length fields) &&
  forallb (fun f => match f with
                    | (k, _, ft) =>
                      match obj_get k members with
                      | None => false
                      | Some v => match ft with
                                  | GTypename | GNonNull GTypename =>
                                    match v with JStr s => mem_bytes s names | _ => true end
                                  | _ => true
                                  end
                      end
                    end) fields.

Fixpoint project (t : gtype) (j : json) {struct t} : canon :=
  match t with
  | GNonNull t' => project t' j
  | GList t' => match j with JNull => CNull | JArr items => CList (map (project t') items) | _ => CBad end
  | GEntities _ t' => match j with JNull => CNull | JArr items => CList (map (project t') items) | _ => CBad end
  | GScalar _ | GEnum _ | GTypename => match j with JNull => CNull | _ => CLeaf j end
  | GObj variants =>
    match j with
    | JNull => CNull
    | JObj members =>
      (fix pick (vs : list (list bytes * list (bytes * N * gtype))) : canon :=
         match vs with
         | [] => CBad
         | (names, fields) :: r =>
           if variant_matches members names fields then
             CObj ((fix allf (fs : list (bytes * N * gtype)) : list (N * canon) :=
                      match fs with
                      | [] => []
                      | (k, uid, ft) :: fr =>
                        (uid, match obj_get k members with Some v => project ft v | None => CBad end) :: allf fr
                      end) fields)
           else pick r
         end) variants
    | _ => CBad
    end
  end.

Fixpoint consistent_b (a b : canon) {struct a} : bool :=
  match a, b with
  | CBad, _ => true
  | _, CBad => true
  | CNull, CNull => true
  | CLeaf x, CLeaf y => json_eqb x y
  | CList la, CList lb =>
    (fix go (la lb : list canon) {struct la} : bool :=
       match la, lb with
       | [], [] => true
       | x :: la', y :: lb' => consistent_b x y && go la' lb'
       | _, _ => false
       end) la lb
  | CObj ma, CObj mb =>
    (fix goa (ma : list (N * canon)) : bool :=
       match ma with
       | [] => true
       | (u, ca) :: ra =>
         (fix gob (mb : list (N * canon)) : bool :=
            match mb with
            | [] => true
            | (u', cb) :: rb => (if u =? u' then consistent_b ca cb else true) && gob rb
            end) mb && goa ra
       end) ma
  | _, _ => false
  end.

(* ------------------------------------------------------------------ S3: projection of the service data *)
(* The answer is a projection of the SERVICE's data: at every response position that is read from a
   protobuf answer, null-ness, list-ness, list lengths, the object chosen for an abstract value and the
   scalar leaves are those of the protobuf value at the corresponding position.  The correspondence of
   positions comes from the GraphQL schema and the configured GRPCMapping only (response key -> protobuf
   field name), never from the compiled plan.  Protobuf conventions of the mapped schema:
     [T!]!            a repeated field;
     any other list   a wrapper message { List list = 1 } with List { repeated .. items = 1 }: wrapper or
                      its [list] unset = null; nested lists nest the wrappers;
     nullable scalar  a wrapper message with a field "value": unset = null;
     object           a message field: unset = null;
     union/interface  a message with a oneof "value" / "instance" whose set member is the object. *)
Inductive ptype :=
| PScalar                      (* scalar or enum leaf *)
| PSkip                        (* not examined here (__typename, values that stem from another call) *)
| PList (t : ptype)            (* one list level *)
| PObj (variants : list (list bytes * list (bytes * bytes * ptype))).
  (* per concrete type: response key, protobuf field name, type *)

Inductive pstep := SKey (k : bytes) | SIdx (i : nat).
Definition pfail := (list pstep * N)%type.

Definition why_absent_not_null : N := 1.   (* the service sent no value, the answer is not null *)
Definition why_present_null : N := 2.      (* the service sent a value, the answer is null *)
Definition why_not_list : N := 3.
Definition why_length : N := 4.            (* list of another length than the service's *)
Definition why_scalar : N := 5.            (* another leaf value than the service's *)
Definition why_not_object : N := 6.

Definition under (s : pstep) (r : option pfail) : option pfail :=
  match r with None => None | Some (p, w) => Some (s :: p, w) end.

Definition name_instance : bytes := [105;110;115;116;97;110;99;101].

(* the object an abstract value stands for: the set member of the oneof "instance" / "value" *)
Definition spec_unwrap (m : pmsg) : pmsg :=
  let pick (name : bytes) :=
      match assoc name (oneofs_of m) with
      | Some (Some f) => match field_by_name f m with Some (FMsg m') => Some m' | _ => None end
      | _ => None
      end in
  match pick name_instance with
  | Some m' => m'
  | None => match pick name_value with Some m' => m' | None => m end
  end.

Inductive lview := LNull | LScalars (l : list pscalar) | LMsgs (l : list pmsg) | LOther.
Definition list_view (v : pfld) : lview :=
  match v with
  | FAbsent => LNull
  | FListS l => LScalars l
  | FListM l => LMsgs l
  | FMsg w =>
    match field_by_num 1 w with
    | Some FAbsent => LNull
    | Some (FMsg inner) =>
      match field_by_num 1 inner with
      | Some (FListS l) => LScalars l
      | Some (FListM l) => LMsgs l
      | _ => LOther
      end
    | _ => LOther
    end
  | FScalar _ => LOther
  end.

Definition null_expected (j : json) : option pfail :=
  match j with JNull => None | _ => Some ([], why_absent_not_null) end.

Fixpoint find_variant {A} (tn : bytes) (vs : list (list bytes * A)) : option A :=
  match vs with
  | [] => None
  | (names, x) :: r => if mem_bytes tn names then Some x else find_variant tn r
  end.

(* None = the answer is the projection; Some (path, why) = the first position where it is not *)
Fixpoint proj_chk (em : enum_map) (t : ptype) (v : pfld) (j : json) {struct t} : option pfail :=
  match t with
  | PSkip => None
  | PScalar =>
    let cmp (s : pscalar) :=
        match scalar_json em s with
        | Some x => if json_eqb x j then None else Some ([], why_scalar)
        | None => None
        end in
    match v with
    | FScalar s => cmp s
    | FAbsent => null_expected j
    | FMsg m => match field_by_name name_value m with Some (FScalar s) => cmp s | _ => None end
    | _ => None
    end
  | PList t' =>
    let items (vs : list pfld) :=
        match j with
        | JNull => Some ([], why_present_null)
        | JArr js =>
          (fix go (i : nat) (vs : list pfld) (js : list json) {struct vs} : option pfail :=
             match vs, js with
             | [], [] => None
             | x :: vr, y :: jr =>
               match under (SIdx i) (proj_chk em t' x y) with
               | Some f => Some f
               | None => go (S i) vr jr
               end
             | _, _ => Some ([], why_length)
             end) O vs js
        | _ => Some ([], why_not_list)
        end in
    match list_view v with
    | LOther => None
    | LNull => null_expected j
    | LScalars l => items (map FScalar l)
    | LMsgs l => items (map FMsg l)
    end
  | PObj variants =>
    match v with
    | FAbsent => null_expected j
    | FMsg m =>
      let m' := spec_unwrap m in
      match j with
      | JNull => Some ([], why_present_null)
      | JObj members =>
        (fix pick (vs : list (list bytes * list (bytes * bytes * ptype))) : option pfail :=
           match vs with
           | [] => None
           | (names, fields) :: r =>
             if mem_bytes (tname_of m') names then
               (fix allf (fs : list (bytes * bytes * ptype)) : option pfail :=
                  match fs with
                  | [] => None
                  | (k, pn, ft) :: fr =>
                    match
                      match obj_get k members, field_by_name pn m' with
                      | Some jv, Some fv => under (SKey k) (proj_chk em ft fv jv)
                      | _, _ => None
                      end
                    with
                    | Some f => Some f
                    | None => allf fr
                    end
                  end) fields
             else pick r
           end) variants
      | _ => Some ([], why_not_object)
      end
    | _ => None
    end
  end.

(* ------------------------------------------------------------------ builder-level notions *)
Definition pkey (f : pfield) : bytes := key (meta_of f).

(* the fields marshalResponseJSON iterates over for a message read from (unwrapped) data of
   protobuf type [tn] *)
Definition pvalid (p : pmessage) (tn : bytes) : list pfield :=
  match p with PMessage name fields frags oneof _ => valid_fields pkey name oneof fields frags tn end.

Definition p_oneof (p : pmessage) := match p with PMessage _ _ _ o _ => o end.
Definition p_members (p : pmessage) := match p with PMessage _ _ _ _ m => m end.
Definition p_name (p : pmessage) := match p with PMessage n _ _ _ _ => n end.

(* no "merge into the parent" field (RPCField.JSONPath == ""): the plan visitors always set it *)
Definition nonflat (f : pfield) : Prop := is_empty (f_jsonpath (meta_of f)) = false.

(* what the field contributes: the value it sets, if any *)
Definition action_value (r : res action) : option json :=
  match r with Ok (ASet v) => Some v | _ => None end.

Definition paction (em : enum_map) (members : list bytes) (d : pmsg) (f : pfield) : res action :=
  field_action em members d (compile_field em f).

(* every field of the list that shares n's response key does exactly what n does *)
Definition key_coherent (em : enum_map) (members : list bytes) (d : pmsg) (n : pfield) (vf : list pfield) : Prop :=
  forall x, In x vf -> pkey x = pkey n -> paction em members d x = paction em members d n.

(* same plan node up to the alias *)
Definition same_node (n1 n2 : pfield) : Prop :=
  sub_of_field n1 = sub_of_field n2 /\
  let m1 := meta_of n1 in let m2 := meta_of n2 in
  f_name m1 = f_name m2 /\ f_jsonpath m1 = f_jsonpath m2 /\ f_static m1 = f_static m2 /\
  f_optional m1 = f_optional m2 /\ f_is_msg m1 = f_is_msg m2 /\ f_is_list_type m1 = f_is_list_type m2 /\
  f_md m1 = f_md m2.

(* first occurrences *)
Fixpoint dedup_first (seen : list bytes) (l : list bytes) : list bytes :=
  match l with
  | [] => []
  | k :: r => if mem_bytes k seen then dedup_first seen r else k :: dedup_first (k :: seen) r
  end.

(* the keys of the fields that set a value, in order *)
Fixpoint emitted_keys (em : enum_map) (members : list bytes) (d : pmsg) (vf : list pfield) : list bytes :=
  match vf with
  | [] => []
  | f :: r => match paction em members d f with
              | Ok (ASet _) => pkey f :: emitted_keys em members d r
              | _ => emitted_keys em members d r
              end
  end.

Definition is_arr (j : json) : Prop := exists l, j = JArr l.
