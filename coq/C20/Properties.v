(* C20 property theorems: statements only; every proof is [exact lemma]. *)
From Gv Require Import lib.Bytes lib.Json C20.Model C20.Spec C20.Legacy C20.Proofs C20.Proofs2 C20.Proofs3 C20.Proofs4.
From Coq Require Import List NArith Bool Permutation.
Import ListNotations.

(* shape: for ALL plan messages and ALL protobuf values, the output of marshalResponseJSON is an
   object whose keys are the response keys of the fields that set a value, in the order the
   builder visits them (plan order: Fields, then the fragment fields selected for the concrete
   type), each key once at its first position *)
Theorem c20_shape_keys : forall em p d d' j,
  marshal em p d = Ok j ->
  unwrap_oneof (p_oneof p) d = Ok d' ->
  Forall nonflat (pvalid p (tname_of d')) ->
  exists o, j = JObj o /\
            map fst o = dedup_first [] (emitted_keys em (p_members p) d' (pvalid p (tname_of d'))).
Proof. exact shape_keys. Qed.
Print Assumptions c20_shape_keys.

(* ... exactly the plan's response keys in plan order when they are distinct and every field has
   something to say (descriptor has the field, type name is a member, scalar kind is handled) *)
Theorem c20_shape_keys_exact : forall em p d d' j,
  marshal em p d = Ok j ->
  unwrap_oneof (p_oneof p) d = Ok d' ->
  Forall nonflat (pvalid p (tname_of d')) ->
  NoDup (map pkey (pvalid p (tname_of d'))) ->
  (forall f, In f (pvalid p (tname_of d')) -> exists v, paction em (p_members p) d' f = Ok (ASet v)) ->
  exists o, j = JObj o /\ map fst o = map pkey (pvalid p (tname_of d')).
Proof. exact shape_keys_exact. Qed.
Print Assumptions c20_shape_keys_exact.

(* list-ness and nullability: a static field is a string; a repeated protobuf field always gives
   an array; an unpopulated message gives null; a list wrapper gives an array, or null only if
   the outermost list level is declared optional *)
Theorem c20_shape_values : forall em p d d' j n v,
  marshal em p d = Ok j ->
  unwrap_oneof (p_oneof p) d = Ok d' ->
  Forall nonflat (pvalid p (tname_of d')) ->
  In n (pvalid p (tname_of d')) ->
  key_coherent em (p_members p) d' n (pvalid p (tname_of d')) ->
  jget (pkey n) j = Some v ->
  let m := meta_of n in
  if negb (is_empty (f_static m)) then exists s, v = JStr s
  else match field_by_name (f_name m) d' with
       | Some (FListS _) => is_arr v
       | Some (FListM _) => is_arr v
       | Some FAbsent => v = JNull
       | Some (FMsg _) =>
         f_is_list_type m = true -> is_arr v \/ (v = JNull /\ level0_optional m)
       | _ => True
       end.
Proof. exact shape_values. Qed.
Print Assumptions c20_shape_values.

(* nested list wrappers, all levels: null only where that level is declared optional *)
Theorem c20_list_wrapper_shape : forall em sub hm levels k level data v,
  traverse em sub hm levels k level data = Ok v -> list_shape levels k level v.
Proof. exact traverse_shape. Qed.
Print Assumptions c20_list_wrapper_shape.

(* __typename is present for abstract members and names the concrete type *)
Theorem c20_typename_present : forall em p d d' j n,
  marshal em p d = Ok j ->
  unwrap_oneof (p_oneof p) d = Ok d' ->
  Forall nonflat (pvalid p (tname_of d')) ->
  In n (pvalid p (tname_of d')) ->
  key_coherent em (p_members p) d' n (pvalid p (tname_of d')) ->
  is_empty (f_static (meta_of n)) = false ->
  In (tname_of d') (p_members p) ->
  jget (pkey n) j = Some (JStr (tname_of d')).
Proof. exact typename_present. Qed.
Print Assumptions c20_typename_present.

(* non-null is NOT guaranteed for object-typed fields: an absent message is rendered as null *)
Theorem c20_shape_nonnull_refuted :
  exists em p d n, In n (pvalid p (tname_of d)) /\ f_optional (meta_of n) = false /\
                   exists j, marshal em p d = Ok j /\ jget (pkey n) j = Some JNull.
Proof. exact shape_nonnull_refuted_proof. Qed.
Print Assumptions c20_shape_nonnull_refuted.

(* field independence, the statement as asked -- the value at a node's response key is the same in
   every plan the node occurs in -- is false of the faithful model: two fields may share a
   response key (the later assignment wins) ... *)
Theorem c20_field_independence_refuted :
  exists em p1 p2 d d' j1 j2 n,
    p_oneof p1 = p_oneof p2 /\ p_members p1 = p_members p2 /\
    marshal em p1 d = Ok j1 /\ marshal em p2 d = Ok j2 /\ unwrap_oneof (p_oneof p1) d = Ok d' /\
    Forall nonflat (pvalid p1 (tname_of d')) /\ Forall nonflat (pvalid p2 (tname_of d')) /\
    In n (pvalid p1 (tname_of d')) /\ In n (pvalid p2 (tname_of d')) /\
    jget (pkey n) j1 <> jget (pkey n) j2.
Proof. exact field_independence_refuted_proof. Qed.
Print Assumptions c20_field_independence_refuted.

(* ... and a sibling with an empty JSONPath is merged into the parent object (distinct keys do not help) *)
Theorem c20_field_independence_flatten_refuted :
  exists em p1 p2 d j1 j2 n,
    NoDup (map pkey (pvalid p1 (tname_of d))) /\ NoDup (map pkey (pvalid p2 (tname_of d))) /\
    marshal em p1 d = Ok j1 /\ marshal em p2 d = Ok j2 /\
    In n (pvalid p1 (tname_of d)) /\ In n (pvalid p2 (tname_of d)) /\
    jget (pkey n) j1 <> jget (pkey n) j2.
Proof. exact field_independence_flatten_refuted_proof. Qed.
Print Assumptions c20_field_independence_flatten_refuted.

(* the strongest true variant: no merged fields, and the fields sharing the node's response key do
   what the node does (in particular: distinct keys, or exact duplicates) *)
Theorem c20_field_independence_partial : forall em p1 p2 d d' j1 j2 n,
  p_oneof p1 = p_oneof p2 -> p_members p1 = p_members p2 ->
  marshal em p1 d = Ok j1 -> marshal em p2 d = Ok j2 ->
  unwrap_oneof (p_oneof p1) d = Ok d' ->
  Forall nonflat (pvalid p1 (tname_of d')) -> Forall nonflat (pvalid p2 (tname_of d')) ->
  In n (pvalid p1 (tname_of d')) -> In n (pvalid p2 (tname_of d')) ->
  key_coherent em (p_members p1) d' n (pvalid p1 (tname_of d')) ->
  key_coherent em (p_members p2) d' n (pvalid p2 (tname_of d')) ->
  jget (pkey n) j1 = jget (pkey n) j2.
Proof. exact field_independence_partial_proof. Qed.
Print Assumptions c20_field_independence_partial.

(* the value under a node's key is a function of the node and the message alone *)
Theorem c20_field_value : forall em p d d' j n,
  marshal em p d = Ok j ->
  unwrap_oneof (p_oneof p) d = Ok d' ->
  Forall nonflat (pvalid p (tname_of d')) ->
  In n (pvalid p (tname_of d')) ->
  key_coherent em (p_members p) d' n (pvalid p (tname_of d')) ->
  jget (pkey n) j = action_value (paction em (p_members p) d' n).
Proof. exact field_value. Qed.
Print Assumptions c20_field_value.

(* reformulation invariance at builder level *)
Theorem c20_reformulation_alias : forall em p1 p2 d d' j1 j2 n1 n2,
  p_oneof p1 = p_oneof p2 -> p_members p1 = p_members p2 ->
  marshal em p1 d = Ok j1 -> marshal em p2 d = Ok j2 ->
  unwrap_oneof (p_oneof p1) d = Ok d' ->
  Forall nonflat (pvalid p1 (tname_of d')) -> Forall nonflat (pvalid p2 (tname_of d')) ->
  NoDup (map pkey (pvalid p1 (tname_of d'))) -> NoDup (map pkey (pvalid p2 (tname_of d'))) ->
  In n1 (pvalid p1 (tname_of d')) -> In n2 (pvalid p2 (tname_of d')) ->
  same_node n1 n2 ->
  jget (pkey n1) j1 = jget (pkey n2) j2.
Proof. exact reform_alias. Qed.
Print Assumptions c20_reformulation_alias.

Theorem c20_reformulation_reorder : forall em p1 p2 d d' j1 j2,
  p_oneof p1 = p_oneof p2 -> p_members p1 = p_members p2 ->
  marshal em p1 d = Ok j1 -> marshal em p2 d = Ok j2 ->
  unwrap_oneof (p_oneof p1) d = Ok d' ->
  Forall nonflat (pvalid p1 (tname_of d')) ->
  NoDup (map pkey (pvalid p1 (tname_of d'))) ->
  Permutation (pvalid p1 (tname_of d')) (pvalid p2 (tname_of d')) ->
  forall n, In n (pvalid p1 (tname_of d')) -> jget (pkey n) j1 = jget (pkey n) j2.
Proof. exact reform_reorder. Qed.
Print Assumptions c20_reformulation_reorder.

Theorem c20_reformulation_duplicate : forall em p1 p2 d d' j1 j2 n n',
  p_oneof p1 = p_oneof p2 -> p_members p1 = p_members p2 ->
  marshal em p1 d = Ok j1 -> marshal em p2 d = Ok j2 ->
  unwrap_oneof (p_oneof p1) d = Ok d' ->
  Forall nonflat (pvalid p1 (tname_of d')) -> Forall nonflat (pvalid p2 (tname_of d')) ->
  In n (pvalid p1 (tname_of d')) -> In n' (pvalid p2 (tname_of d')) ->
  same_node n n' ->
  (forall x, In x (pvalid p1 (tname_of d')) -> pkey x = pkey n -> same_node x n) ->
  (forall x, In x (pvalid p2 (tname_of d')) -> pkey x = pkey n' -> same_node x n') ->
  jget (pkey n') j2 = jget (pkey n) j1.
Proof. exact reform_duplicate. Qed.
Print Assumptions c20_reformulation_duplicate.

Theorem c20_reformulation_subset_partial : forall em p1 p2 d d' j1 j2,
  p_oneof p1 = p_oneof p2 -> p_members p1 = p_members p2 ->
  marshal em p1 d = Ok j1 -> marshal em p2 d = Ok j2 ->
  unwrap_oneof (p_oneof p1) d = Ok d' ->
  Forall nonflat (pvalid p1 (tname_of d')) ->
  NoDup (map pkey (pvalid p1 (tname_of d'))) -> NoDup (map pkey (pvalid p2 (tname_of d'))) ->
  incl (pvalid p2 (tname_of d')) (pvalid p1 (tname_of d')) ->
  forall n, In n (pvalid p2 (tname_of d')) -> jget (pkey n) j2 = jget (pkey n) j1.
Proof. exact reform_subset. Qed.
Print Assumptions c20_reformulation_subset_partial.

(* subset invariance needs "both succeed": a failing sibling (union member not set) fails the whole
   message, the subset without it succeeds *)
Theorem c20_reformulation_subset_refuted :
  exists em p1 p2 d e j2,
    incl (pvalid p2 (tname_of d)) (pvalid p1 (tname_of d)) /\
    marshal em p1 d = Err e /\ marshal em p2 d = Ok j2.
Proof. exact reformulation_subset_refuted_proof. Qed.
Print Assumptions c20_reformulation_subset_refuted.

(* shape at every depth, by structural induction on the plan tree: the whole output conforms to the
   plan -- at each message exactly the response keys of the fields that set a value, and the same
   recursively below every plain nested object and every item of every repeated message *)
Theorem c20_deep_shape : forall em p,
  wf_plan p -> forall d j, marshal em p d = Ok j -> conforms em p d j.
Proof. exact deep_shape. Qed.
Print Assumptions c20_deep_shape.

(* ---- merging the results of follow-up calls (mergeWithPath), after two repairs ---- *)

(* HISTORICAL (json_builder.go before the repair of resolver-under-list-wrapper, Legacy.v): the targets of a
   field resolver below a nested list ([[T]]) were not found -- the whole fetch failed with "length of values
   doesn't match"; the repaired mergeWithPath merges the same input *)
Theorem c20_merge_nested_list_v0_refuted :
  exists base resolved path,
    merge_with_path_v0 base resolved path = Err ELenMismatch /\
    merge_with_path base resolved path None =
    Ok (JObj [(x_author, JObj [(x_prefs, JArr [JArr [JObj [(x_kind, JStr x_1); (x_tp, JNum x_1)];
                                                     JObj [(x_kind, JStr x_2); (x_tp, JNum x_2)]]])])]).
Proof. exact nested_list_v0_refuted_proof. Qed.
Print Assumptions c20_merge_nested_list_v0_refuted.

(* repaired: list nesting is transparent for the targets of a merge, at every depth ... *)
Theorem c20_merge_nested_list : forall f l r, flat_items f (JArr l :: r) = flat_items f (l ++ r).
Proof. exact nested_list_count. Qed.
Print Assumptions c20_merge_nested_list.

(* ... and once the length check of mergeWithPath has passed, every resolved value is assigned to a
   target: the assignment cannot fail, leaves no value over and keeps one item per item *)
Theorem c20_merge_assigns_all : forall elem rest targets vals n,
  flat_items (flat_count rest) targets = Ok n -> length vals = n ->
  exists us, upd_items (flat_update elem rest) targets vals = Ok (us, []) /\ length us = length targets.
Proof. exact merge_assigns_all. Qed.
Print Assumptions c20_merge_assigns_all.

(* HISTORICAL (before the repair of entity-batch-mixed-types): the results of a follow-up call of an entity
   lookup were spread over all entities of the batch, also those of another type (position not in idx) *)
Theorem c20_entity_followup_v0_refuted :
  exists base resolved path idx pos r,
    ~ In pos idx /\
    merge_with_path_v0 base resolved path = Ok r /\
    (exists l, jget name_entities base = Some (JArr l) /\
               exists l', jget name_entities r = Some (JArr l') /\ nth_error l' pos <> nth_error l pos).
Proof. exact entity_followup_v0_refuted_proof. Qed.
Print Assumptions c20_entity_followup_v0_refuted.

(* repaired: a follow-up call (@requires field, field resolver) of an entity lookup only touches the
   entities at the positions of its own entity type; every other entity, and the length of _entities,
   is unchanged -- for ALL batches, results and paths *)
Theorem c20_entity_followup_untouched : forall bo resolved p' idx r items,
  p' <> [] ->
  obj_get name_entities bo = Some (JArr items) ->
  merge_with_path (JObj bo) resolved (name_entities :: p') (Some idx) = Ok r ->
  exists ro items', r = JObj ro /\ obj_get name_entities ro = Some (JArr items') /\
    length items' = length items /\
    forall pos, ~ In pos idx -> nth_error items' pos = nth_error items pos.
Proof. exact entity_followup_untouched. Qed.
Print Assumptions c20_entity_followup_untouched.

(* ---- S3: the answer is a projection of the service's data ---- *)

(* list wrappers at EVERY nesting depth: whatever the wrapper messages hold, the list the builder renders is
   the projection of the service's data -- null exactly where a wrapper's list is unset, the service's
   lengths at every level -- provided the items are (the hypothesis on [sub], the builder of the item
   message).  A builder that renders a null inner list as [] (seeded regression C20-m1) breaks exactly this. *)
Theorem c20_list_wrapper_projection : forall em sub t levels,
  (forall m j, sub m = Ok j -> proj_chk em t (FMsg m) j = None) ->
  forall k level data v,
    traverse em sub true levels k level data = Ok v ->
    proj_chk em (nest_plist (S k) t) (FMsg data) v = None.
Proof. exact traverse_projection. Qed.
Print Assumptions c20_list_wrapper_projection.
