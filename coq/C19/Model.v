(* C19 model: the WebSocket subscription server as a labelled transition system.

   One connection = UniversalProtocolHandler.Handle (execution/subscription/handler.go) reading
   client messages, a protocol handler (websocket/protocol_graphql_transport_ws.go or
   websocket/protocol_graphql_ws.go), the ExecutorEngine (engine.go) with its subCancellations
   map (context.go) and one goroutine per started operation, the init-timeout goroutine
   (time_out.go) and the heartbeat / keep-alive goroutines.

   Inputs are client messages AND environment events (an executor flushes / returns, a timer
   fires, the client goes away).  Outputs are what reaches the TransportClient: messages
   (type, id) and close frames (code).  No proofs in this file. *)
From Coq Require Import List NArith Bool.
From Gv Require Import lib.Bytes.
Import ListNotations.
Open Scope N_scope.

(* ---------------------------------------------------------------- alphabet *)
Inductive proto := TWS (* graphql-transport-ws *) | GWS (* graphql-ws, legacy *).

(* operation ids are small naturals on the wire ("1", "2", ...); 0 stands for the empty /
   absent id (both handlers read a missing "id" as "" and write "" as no "id" at all). *)
Definition id := N.

Inductive opkind := KSub | KQuery.

(* what the payload of subscribe / start is, as far as handler + executor pool care *)
Inductive payload :=
| PSub          (* pool.Get succeeds, OperationType() = subscription *)
| PQuery        (* pool.Get succeeds, any other operation type *)
| PNoPayload    (* no payload at all: DeserializeSubscribePayload fails (transport-ws) /
                   pool.Get fails on the empty payload (graphql-ws) *)
| PGetFail.     (* well-formed payload the executor pool rejects *)

Inductive initp := INone (* no payload: InitFunc not consulted *) | IAccept | IReject.

Inductive ret := ROk (* nil, nothing buffered *) | RData (* nil, result in the buffer *) | RErr.

Inductive input :=
(* client messages *)
| CInit (p : initp)                (* "connection_init" *)
| CPing | CPong                    (* transport-ws "ping" / "pong" *)
| CSubscribe (i : id) (p : payload)(* transport-ws "subscribe" *)
| CComplete (i : id)               (* transport-ws "complete" (also a legacy type name, server->client only) *)
| CStart (i : id) (p : payload)    (* legacy "start" *)
| CStop (i : id)                   (* legacy "stop" *)
| CTerminate                       (* legacy "connection_terminate" *)
| CBadJson                         (* not JSON: *json.SyntaxError *)
| CWrongShape                      (* JSON, but not decodable into the message struct (other json error) *)
| CUnknown                         (* decodable, type string in neither switch *)
(* environment *)
| EFlush (t : N)                   (* operation goroutine t: executor writes + Flush()es inside Execute *)
| ERet (t : N) (r : ret) (again : bool)
                                   (* operation goroutine t: Execute returns.  [again] is the scheduler's
                                      choice in the select of startSubscription when the context is
                                      already cancelled AND the update tick is due: true = the tick wins
                                      and Execute is entered once more.  Ignored otherwise. *)
| EInitTimeout                     (* the connection-init timeout elapses *)
| ETick                            (* one heartbeat / keep-alive goroutine's interval elapses *)
| EClientClose.                    (* the client closes the socket *)

Inductive mtype :=
| MAck | MError | MComplete        (* both protocols *)
| MPong | MPongHb | MNext          (* transport-ws; MPongHb = pong carrying the heartbeat payload *)
| MConnError | MKa | MData.        (* legacy *)

Inductive output := OMsg (m : mtype) (i : id) | OClose (code : N).

(* ---------------------------------------------------------------- tables tied to the Go source *)
Definition n_connection_init : bytes := [99;111;110;110;101;99;116;105;111;110;95;105;110;105;116].
Definition n_connection_ack : bytes := [99;111;110;110;101;99;116;105;111;110;95;97;99;107].
Definition n_connection_error : bytes := [99;111;110;110;101;99;116;105;111;110;95;101;114;114;111;114].
Definition n_connection_terminate : bytes := [99;111;110;110;101;99;116;105;111;110;95;116;101;114;109;105;110;97;116;101].
Definition n_ping : bytes := [112;105;110;103].
Definition n_pong : bytes := [112;111;110;103].
Definition n_subscribe : bytes := [115;117;98;115;99;114;105;98;101].
Definition n_next : bytes := [110;101;120;116].
Definition n_error : bytes := [101;114;114;111;114].
Definition n_complete : bytes := [99;111;109;112;108;101;116;101].
Definition n_ka : bytes := [107;97].
Definition n_start : bytes := [115;116;97;114;116].
Definition n_stop : bytes := [115;116;111;112].
Definition n_data : bytes := [100;97;116;97].

(* the case arms of the two Handle switches, in source order *)
Definition tws_handle_arms : list bytes := [n_connection_init; n_ping; n_pong; n_subscribe; n_complete].
Definition gws_handle_arms : list bytes := [n_connection_init; n_start; n_stop; n_connection_terminate].

(* wire name of a server message type *)
Definition wire_name (pr : proto) (m : mtype) : bytes :=
  match m with
  | MAck => n_connection_ack | MError => n_error | MComplete => n_complete
  | MPong | MPongHb => n_pong | MNext => n_next
  | MConnError => n_connection_error | MKa => n_ka | MData => n_data
  end.
(* the arms of the two HandleWriteEvent switches, in source order (what the writers can send) *)
Definition tws_write_arms : list bytes := [n_complete; n_next; n_error; n_connection_ack; n_ping; n_pong].
Definition gws_write_arms : list bytes := [n_complete; n_data; n_error; n_connection_error; n_ka; n_connection_ack].
(* message types the model's server sends *)
Definition tws_server_types : list mtype := [MComplete; MNext; MError; MAck; MPong].
Definition gws_server_types : list mtype := [MComplete; MData; MError; MConnError; MKa; MAck].

(* Emit of the two event handlers: engine event -> message types written, in source order of
   the arms (an empty list: the arm writes no message) *)
Definition ev_completed : bytes := [69;118;101;110;116;84;121;112;101;79;110;83;117;98;115;99;114;105;112;116;105;111;110;67;111;109;112;108;101;116;101;100].
Definition ev_data : bytes := [69;118;101;110;116;84;121;112;101;79;110;83;117;98;115;99;114;105;112;116;105;111;110;68;97;116;97].
Definition ev_nonsub_result : bytes := [69;118;101;110;116;84;121;112;101;79;110;78;111;110;83;117;98;115;99;114;105;112;116;105;111;110;69;120;101;99;117;116;105;111;110;82;101;115;117;108;116].
Definition ev_error : bytes := [69;118;101;110;116;84;121;112;101;79;110;69;114;114;111;114].
Definition ev_opened : bytes := [69;118;101;110;116;84;121;112;101;79;110;67;111;110;110;101;99;116;105;111;110;79;112;101;110;101;100].
Definition ev_duplicate : bytes := [69;118;101;110;116;84;121;112;101;79;110;68;117;112;108;105;99;97;116;101;100;83;117;98;115;99;114;105;98;101;114;73;68].
Definition ev_conn_error : bytes := [69;118;101;110;116;84;121;112;101;79;110;67;111;110;110;101;99;116;105;111;110;69;114;114;111;114].
Definition emit_table (pr : proto) : list (bytes * list mtype) :=
  match pr with
  | TWS => [ (ev_completed, [MComplete]); (ev_data, [MNext]); (ev_nonsub_result, [MNext; MComplete]);
             (ev_error, [MError]); (ev_opened, []); (ev_duplicate, []) (* closes 4409 instead *) ]
  | GWS => [ (ev_completed, [MComplete]); (ev_data, [MData]); (ev_nonsub_result, [MData; MComplete]);
             (ev_error, [MError]); (ev_duplicate, [MError]); (ev_conn_error, [MConnError]) ]
  end.
Fixpoint lookup_ev (e : bytes) (t : list (bytes * list mtype)) : list mtype :=
  match t with
  | [] => []
  | (k, v) :: r => if bytes_eqb e k then v else lookup_ev e r
  end.

(* close codes, by the place that issues them *)
Definition code_bad_json : N := 4400.          (* tws Handle, json.SyntaxError *)
Definition code_init_rejected : N := 4401.     (* tws Handle, InitFunc error *)
Definition code_invalid_type : N := 4400.      (* tws Handle, default arm *)
Definition code_too_many_inits : N := 4429.    (* tws handleInit *)
Definition code_unauthorized : N := 4401.      (* tws handleSubscribe before init *)
Definition code_init_timeout : N := 4408.      (* tws startConnectionInitTimer *)
Definition code_duplicate_id : N := 4409.      (* tws event handler Emit, duplicated subscriber id *)
Definition code_writer_default : N := 4400.    (* tws HandleWriteEvent default arm: no caller reaches it *)
Definition code_internal : N := 1011.          (* CompiledCloseReasonInternalServerError (ws.StatusInternalServerError) *)
(* every NewCloseReason in the transport-ws file, by enclosing function, in source order *)
Definition tws_close_table : list (bytes * list N) :=
  [ ([69;109;105;116] (* Emit *), [code_duplicate_id]);
    ([72;97;110;100;108;101;87;114;105;116;101;69;118;101;110;116] (* HandleWriteEvent *), [code_writer_default]);
    ([72;97;110;100;108;101] (* Handle *), [code_bad_json; code_init_rejected; code_invalid_type]);
    ([115;116;97;114;116;67;111;110;110;101;99;116;105;111;110;73;110;105;116;84;105;109;101;114] (* startConnectionInitTimer *), [code_init_timeout]);
    ([104;97;110;100;108;101;73;110;105;116] (* handleInit *), [code_too_many_inits]);
    ([104;97;110;100;108;101;83;117;98;115;99;114;105;98;101] (* handleSubscribe *), [code_unauthorized]) ].
(* the legacy file builds no close reason and never disconnects *)
Definition gws_close_table : list (bytes * list N) := [].
Definition heartbeat_payload : bytes := [123;34;116;121;112;101;34;58;34;104;101;97;114;116;98;101;97;116;34;125].

(* ---------------------------------------------------------------- state *)
(* One goroutine started by ExecutorEngine.StartOperation.  [o_cancelled]: its context was
   cancelled.  subCancellations holds an entry for id i exactly while the operation started
   under i has an un-cancelled context: AddWithParent and the go statement happen together in
   StartOperation, Cancel(id) cancels and deletes together; so "i is in subCancellations" is
   [active] below. *)
Record op := mkOp { o_tok : N; o_id : id; o_kind : opkind; o_cancelled : bool }.

(* connection-init timer (transport-ws): TRunning = goroutine waiting, cancel func stored;
   TStopped = cancelled by handleInit, cancel func nil; TFired = time-out action ran (cancel
   func still stored). *)
Inductive timer := TRunning | TStopped | TFired.

Record state := mkState {
  s_closed : bool;   (* the transport client is disconnected (then the read loop has exited and
                        TerminateAllSubscriptions has run; every later write is dropped) *)
  s_init : bool;     (* transport-ws connectionInitialized *)
  s_timer : timer;
  s_hb : N;          (* heartbeat (tws: heartbeatStarted, 0/1) / keep-alive (legacy: one per init) goroutines *)
  s_ops : list op;   (* live operation goroutines, oldest first; between steps each is inside Execute *)
  s_next : N         (* token of the next goroutine *)
}.

Definition init_state (pr : proto) : state :=
  (* EventTypeOnConnectionOpened has been emitted: transport-ws started its init timer *)
  mkState false false (match pr with TWS => TRunning | GWS => TStopped end) 0 [] 0.

Definition set_ops (st : state) (ops : list op) : state :=
  mkState (s_closed st) (s_init st) (s_timer st) (s_hb st) ops (s_next st).

Definition cancel_op (o : op) : op := mkOp (o_tok o) (o_id o) (o_kind o) true.

Definition op_active (i : id) (o : op) : bool := negb (o_cancelled o) && (o_id o =? i).
(* subCancellations has an entry for i *)
Definition active (st : state) (i : id) : bool := existsb (op_active i) (s_ops st).

Fixpoint find_op (t : N) (ops : list op) : option op :=
  match ops with
  | [] => None
  | o :: r => if o_tok o =? t then Some o else find_op t r
  end.
Definition remove_op (t : N) (ops : list op) : list op := filter (fun o => negb (o_tok o =? t)) ops.

(* subCancellations.Cancel(id) *)
Definition cancel_id (i : id) (st : state) : state :=
  set_ops st (map (fun o => if op_active i o then cancel_op o else o) (s_ops st)).

(* ExecutorEngine.TerminateAllSubscriptions: cancels every entry; the event it emits is ignored
   by both protocol event handlers *)
Definition terminate_all (st : state) : state := set_ops st (map cancel_op (s_ops st)).

(* the socket goes away (DisconnectWithReason, or the client leaves): the read loop exits, its
   deferred TerminateAllSubscriptions and cancel() run *)
Definition close_state (st : state) : state :=
  mkState true (s_init st) (s_timer st) (s_hb st) (map cancel_op (s_ops st)) (s_next st).

(* WriteBytesToClient on a disconnected client fails without reaching the wire *)
Definition emit (st : state) (outs : list output) : list output := if s_closed st then [] else outs.

(* DisconnectWithReason: on an already closed client it fails without sending a frame *)
Definition do_close (st : state) (code : N) : state * list output :=
  if s_closed st then (st, []) else (close_state st, [OClose code]).

Definition data_msg (pr : proto) : mtype := match pr with TWS => MNext | GWS => MData end.

(* ---------------------------------------------------------------- engine *)
(* ExecutorEngine.StartOperation (the OnBeforeStart hook exists only for ExecutorV2: not modelled) *)
Definition start_operation (pr : proto) (st : state) (i : id) (p : payload) : state * list output :=
  match p with
  | PNoPayload | PGetFail => (st, [])                       (* executorPool.Get error: returned, logged *)
  | PSub | PQuery =>
    if active st i then
      (* checkForDuplicateSubscriberID -> EventTypeOnDuplicatedSubscriberID *)
      match pr with
      | TWS => do_close st code_duplicate_id
      | GWS => (st, emit st [OMsg MError i])
      end
    else
      let k := match p with PSub => KSub | _ => KQuery end in
      (mkState (s_closed st) (s_init st) (s_timer st) (s_hb st)
               (s_ops st ++ [mkOp (s_next st) i k false]) (s_next st + 1), [])
  end.

(* ExecutorEngine.StopSubscription: "complete" only if Cancel(id) found the id registered
   (since fix 1; the code as found is in ModelV0.v) *)
Definition stop_subscription (st : state) (i : id) : state * list output :=
  if active st i then (cancel_id i st, emit st [OMsg MComplete i]) else (st, []).

(* the executor of goroutine t writes and flushes while inside Execute *)
Definition exec_flush (pr : proto) (st : state) (t : N) : state * list output :=
  match find_op t (s_ops st) with
  | None => (st, [])
  | Some o =>
    match o_kind o with
    | KSub =>                                              (* flush callback of executeSubscription: *)
      (st, if o_cancelled o then [] else emit st [OMsg (data_msg pr) (o_id o)])  (* silent once ctx.Err() != nil (fix 2) *)
    | KQuery => (st, [])                                   (* handleNonSubscriptionOperation sets no callback *)
    end
  end.

(* Execute of goroutine t returns *)
Definition exec_return (pr : proto) (st : state) (t : N) (r : ret) (again : bool) : state * list output :=
  match find_op t (s_ops st) with
  | None => (st, [])
  | Some o =>
    let i := o_id o in
    match o_kind o with
    | KSub =>
      (* executeSubscription, then the select of startSubscription: a cancelled context ends the
         goroutine, otherwise it calls Execute again after the update interval *)
      let outs := if o_cancelled o then []       (* ctx.Err() != nil after Execute: return (fix 2) *)
                  else match r with ROk => [] | RData => [OMsg (data_msg pr) i] | RErr => [OMsg MError i] end in
      (if o_cancelled o && negb again then set_ops st (remove_op t (s_ops st)) else st, emit st outs)
    | KQuery =>
      (* handleNonSubscriptionOperation: with a cancelled context nothing is sent and the deferred
         Cancel(id) is skipped (fix 2); otherwise error, or result + complete, then the deferred
         subCancellations.Cancel(id) *)
      if o_cancelled o then (set_ops st (remove_op t (s_ops st)), [])
      else
      let outs := match r with
                  | RErr => [OMsg MError i]
                  | _ => [OMsg (data_msg pr) i; OMsg MComplete i]
                  end in
      let st1 := cancel_id i st in
      (set_ops st1 (remove_op t (s_ops st1)), emit st outs)
    end
  end.

(* ---------------------------------------------------------------- protocol handlers *)
(* ProtocolGraphQLTransportWSHandler.Handle *)
Definition handle_tws (st : state) (m : input) : state * list output :=
  match m with
  | CBadJson => do_close st code_bad_json
  | CWrongShape => (st, [])                                  (* error returned to the read loop, logged *)
  | CInit p =>
    if s_init st then
      do_close st code_too_many_inits                        (* handleInit; startHeartbeat is a no-op then *)
    else
      match p with
      | IReject => do_close st code_init_rejected            (* returns before startHeartbeat *)
      | _ =>
        let r := match s_timer st with
                 | TStopped => do_close st code_internal     (* stopConnectionInitTimer() = false *)
                 | _ => (st, emit st [OMsg MAck 0])
                 end in
        let st1 := fst r in
        (mkState (s_closed st1) true TStopped 1 (s_ops st1) (s_next st1), snd r)
      end
  | CPing => (st, emit st [OMsg MPong 0])
  | CPong => (st, [])
  | CSubscribe i p =>
    if negb (s_init st) then do_close st code_unauthorized
    else match p with
         | PNoPayload => (st, [])                            (* DeserializeSubscribePayload error *)
         | _ => start_operation TWS st i p
         end
  | CComplete i => stop_subscription st i                    (* no init check (nothing can be active then) *)
  | CStart _ _ | CStop _ | CTerminate | CUnknown => do_close st code_invalid_type
  | _ => (st, [])
  end.

(* ProtocolGraphQLWSHandler.Handle *)
Definition handle_gws (st : state) (m : input) : state * list output :=
  match m with
  | CBadJson => (st, emit st [OMsg MError 0])
  | CWrongShape => (st, [])
  | CInit IReject => (terminate_all st, emit st [OMsg MConnError 0])
  | CInit _ =>
    (* ack, and one more keep-alive goroutine per init *)
    (mkState (s_closed st) (s_init st) (s_timer st) (s_hb st + 1) (s_ops st) (s_next st), emit st [OMsg MAck 0])
  | CStart i p => start_operation GWS st i p
  | CStop i => stop_subscription st i
  | CTerminate => (terminate_all st, [])
  | CPing | CPong | CSubscribe _ _ | CComplete _ | CUnknown => (st, emit st [OMsg MConnError 0])
  | _ => (st, [])
  end.

Definition is_client_msg (m : input) : bool :=
  match m with EFlush _ | ERet _ _ _ | EInitTimeout | ETick | EClientClose => false | _ => true end.

(* ---------------------------------------------------------------- the step function *)
Definition step (pr : proto) (st : state) (m : input) : state * list output :=
  match m with
  | EFlush t => exec_flush pr st t
  | ERet t r again => exec_return pr st t r again
  | EInitTimeout =>
    match pr, s_timer st with
    | TWS, TRunning =>
      let r := do_close st code_init_timeout in
      let st1 := fst r in
      (mkState (s_closed st1) (s_init st1) TFired (s_hb st1) (s_ops st1) (s_next st1), snd r)
    | _, _ => (st, [])                (* the legacy handler has no such timer *)
    end
  | ETick =>
    if (0 <? s_hb st) && negb (s_closed st)
    then (st, [OMsg (match pr with TWS => MPongHb | GWS => MKa end) 0])
    else (st, [])
  | EClientClose => (close_state st, [])
  | _ =>
    if s_closed st then (st, [])     (* nobody reads any more *)
    else match pr with TWS => handle_tws st m | GWS => handle_gws st m end
  end.

Definition step_tws := step TWS.
Definition step_gws := step GWS.

(* run from a given state, collecting the outputs of every step *)
Fixpoint run_from (pr : proto) (st : state) (ins : list input) : state * list (list output) :=
  match ins with
  | [] => (st, [])
  | m :: r =>
    let '(st1, o) := step pr st m in
    let '(st2, os) := run_from pr st1 r in
    (st2, o :: os)
  end.
Definition run (pr : proto) (ins : list input) : state := fst (run_from pr (init_state pr) ins).
Definition run_outs (pr : proto) (ins : list input) : list (list output) := snd (run_from pr (init_state pr) ins).

(* live goroutines as the harness sees them: (token, id, is-subscription) *)
Definition live (st : state) : list (N * id * bool) :=
  map (fun o => (o_tok o, o_id o, match o_kind o with KSub => true | KQuery => false end)) (s_ops st).
