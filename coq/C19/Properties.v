(* C19 property theorems: statements only; every proof is [exact lemma]. *)
From Coq Require Import List NArith Bool.
From Gv Require Import lib.Bytes C19.Model C19.ModelV0 C19.Spec C19.Causes C19.ProofsBase C19.Proofs gen.Anchors_C19.
Import ListNotations.
Open Scope N_scope.

(* the model's tables are the ones in the Go source today *)
Theorem c19_anchors :
  anchor_tws_handle_arms = tws_handle_arms
  /\ anchor_gws_handle_arms = gws_handle_arms
  /\ anchor_tws_write_arms = tws_write_arms
  /\ anchor_gws_write_arms = gws_write_arms
  /\ anchor_tws_emit = wire_table TWS
  /\ anchor_gws_emit = wire_table GWS
  /\ anchor_tws_close_table = tws_close_table
  /\ anchor_gws_close_table = gws_close_table
  /\ anchor_gws_disconnect_calls = 0
  /\ anchor_tws_heartbeat_payload = heartbeat_payload
  /\ forallb (fun t => mem_bytes (wire_name TWS t) tws_write_arms) tws_server_types = true
  /\ forallb (fun t => mem_bytes (wire_name GWS t) gws_write_arms) gws_server_types = true.
Proof. exact anchors_ok. Qed.
Print Assumptions c19_anchors.

(* full strength -- every trace of either protocol is accepted -- is FALSE of the faithful model of
   the current code: one cause is left (an Execute error of a subscription sends "error" but the
   subscription runs on and keeps its id) *)
Theorem c19_tws_trace_accepted_refuted : ~ trace_accepted TWS.
Proof. exact (trace_accepted_refuted_proof TWS). Qed.
Print Assumptions c19_tws_trace_accepted_refuted.

Theorem c19_gws_trace_accepted_refuted : ~ trace_accepted GWS.
Proof. exact (trace_accepted_refuted_proof GWS). Qed.
Print Assumptions c19_gws_trace_accepted_refuted.

Theorem c19_sub_error_refutes : forall pr : proto,
  exists ins, causes_of pr ins = [KSubErrorGoesOn] /\ monitor_accepts pr ins (run_outs pr ins) = false.
Proof. exact sub_error_refutes_proof. Qed.
Print Assumptions c19_sub_error_refutes.

(* strongest true variant: for ALL input sequences (client messages and environment events, any
   length, any interleaving) in which no step is an instance of that cause (Causes.offending: Execute
   of a running subscription returns an error), the monitor accepts the server's output trace *)
Theorem c19_tws_trace_accepted_partial : forall ins : list input,
  causes_of TWS ins = [] -> monitor_accepts TWS ins (run_outs TWS ins) = true.
Proof. exact (trace_accepted_partial_proof TWS). Qed.
Print Assumptions c19_tws_trace_accepted_partial.

Theorem c19_gws_trace_accepted_partial : forall ins : list input,
  causes_of GWS ins = [] -> monitor_accepts GWS ins (run_outs GWS ins) = true.
Proof. exact (trace_accepted_partial_proof GWS). Qed.
Print Assumptions c19_gws_trace_accepted_partial.

(* historical (code as found, ModelV0.v): each of the three causes -- complete for an id that is
   not running, emitting after the context was cancelled, the subscription error -- refuted the
   full statement on its own under either protocol; the first two are repaired (fix 1, fix 2) and
   their witnesses are accepted on the current code *)
Theorem c19_each_cause_refuted_v0 : forall (pr : proto) (k : cause),
  exists ins, causes_of_v0 pr ins = [k] /\ monitor_accepts pr ins (run_outs_v0 pr ins) = false.
Proof. exact each_cause_refuted_v0_proof. Qed.
Print Assumptions c19_each_cause_refuted_v0.

Theorem c19_repaired_witnesses_accepted :
  monitor_accepts TWS w_tws_stop_unknown (run_outs TWS w_tws_stop_unknown) = true
  /\ monitor_accepts TWS w_tws_stop_before_init (run_outs TWS w_tws_stop_before_init) = true
  /\ monitor_accepts TWS w_tws_emit_after_cancel (run_outs TWS w_tws_emit_after_cancel) = true
  /\ monitor_accepts GWS w_gws_stop_unknown (run_outs GWS w_gws_stop_unknown) = true
  /\ monitor_accepts GWS w_gws_emit_after_cancel (run_outs GWS w_gws_emit_after_cancel) = true.
Proof. exact repaired_witnesses_accepted. Qed.
Print Assumptions c19_repaired_witnesses_accepted.

(* clauses that hold at full strength, for every input sequence *)
Theorem c19_nothing_after_close : forall (pr : proto) (ins : list input) (inp : input),
  s_closed (run pr ins) = true ->
  snd (step pr (run pr ins) inp) = [] /\ s_closed (fst (step pr (run pr ins) inp)) = true.
Proof. exact nothing_after_close_proof. Qed.
Print Assumptions c19_nothing_after_close.

Theorem c19_tws_no_operation_before_init : forall ins : list input,
  s_init (run TWS ins) = false -> s_ops (run TWS ins) = [] /\ forall i, active (run TWS ins) i = false.
Proof. exact tws_no_operation_before_init_proof. Qed.
Print Assumptions c19_tws_no_operation_before_init.

Theorem c19_tws_prescribed_closes : forall ins : list input,
  let st := run TWS ins in
  s_closed st = false ->
  (s_init st = true -> forall p, step TWS st (CInit p) = (close_state st, [OClose 4429]))
  /\ (s_init st = false -> forall i p, step TWS st (CSubscribe i p) = (close_state st, [OClose 4401]))
  /\ (forall i p, payload_ok p = true -> active st i = true ->
        step TWS st (CSubscribe i p) = (close_state st, [OClose 4409]))
  /\ step TWS st CBadJson = (close_state st, [OClose 4400])
  /\ step TWS st CUnknown = (close_state st, [OClose 4400])
  /\ (forall i p, step TWS st (CStart i p) = (close_state st, [OClose 4400]))
  /\ (s_init st = false -> snd (step TWS st EInitTimeout) = [OClose 4408]
                           /\ s_closed (fst (step TWS st EInitTimeout)) = true)
  /\ (s_init st = true -> step TWS st EInitTimeout = (st, []))
  /\ (s_init st = false -> snd (step TWS st (CInit IReject)) = [OClose 4401]).
Proof. exact tws_prescribed_closes_proof. Qed.
Print Assumptions c19_tws_prescribed_closes.

(* no input sequence leaves the model in a state from which the connection neither is closed nor
   can continue (state invariant + responsiveness of every reachable open state) *)
Theorem c19_never_wedged : forall (pr : proto) (ins : list input),
  let st := run pr ins in wf pr st /\ (s_closed st = true \/ responsive pr st).
Proof. exact never_wedged_proof. Qed.
Print Assumptions c19_never_wedged.
