(* C19: the ways in which the faithful model steps outside the monitor, as a predicate on
   (model state, next input).  [offending] is about the CURRENT code (one cause left) and is the
   exact exclusion of the _partial theorems; the driver uses it to attribute a spec failure on an
   implementation trace to the listed cause.  [offending_v0] is about the code as found
   (ModelV0.v): three causes, two of them repaired since. *)
From Coq Require Import List NArith Bool.
From Gv Require Import C19.Model C19.ModelV0.
Import ListNotations.
Open Scope N_scope.

Inductive cause :=
| KStopUnknown       (* REPAIRED (fix 1).  client complete/stop for an id with no running operation:
                        StopSubscription emitted "complete" regardless *)
| KEmitAfterCancel   (* REPAIRED (fix 2).  an operation goroutine whose context is already cancelled
                        (the server has sent its terminal message, or dropped it) still emitted *)
| KSubErrorGoesOn.   (* Execute of a subscription returns an error: "error" is sent but the
                        subscription stays registered and keeps executing *)

Definition cause_eqb (a b : cause) : bool :=
  match a, b with
  | KStopUnknown, KStopUnknown | KEmitAfterCancel, KEmitAfterCancel | KSubErrorGoesOn, KSubErrorGoesOn => true
  | _, _ => false
  end.

(* ---- current code *)
Definition offending (pr : proto) (st : state) (inp : input) : option cause :=
  if s_closed st then None
  else match inp with
  | ERet t RErr _ =>
    match find_op t (s_ops st) with
    | Some o => match o_kind o with
                | KSub => if o_cancelled o then None else Some KSubErrorGoesOn
                | KQuery => None
                end
    | None => None
    end
  | _ => None
  end.

Fixpoint causes_from (pr : proto) (st : state) (ins : list input) : list cause :=
  match ins with
  | [] => []
  | m :: r =>
    match offending pr st m with
    | Some k => k :: causes_from pr (fst (step pr st m)) r
    | None => causes_from pr (fst (step pr st m)) r
    end
  end.
Definition causes_of (pr : proto) (ins : list input) : list cause := causes_from pr (init_state pr) ins.

(* ---- the code as found *)
Definition offending_v0 (pr : proto) (st : state) (inp : input) : option cause :=
  if s_closed st then None
  else match inp with
  | CComplete i => match pr with TWS => if active st i then None else Some KStopUnknown | GWS => None end
  | CStop i => match pr with GWS => if active st i then None else Some KStopUnknown | TWS => None end
  | EFlush t =>
    match find_op t (s_ops st) with
    | Some o => match o_kind o with
                | KSub => if o_cancelled o then Some KEmitAfterCancel else None
                | KQuery => None
                end
    | None => None
    end
  | ERet t r _ =>
    match find_op t (s_ops st) with
    | Some o =>
      match o_kind o with
      | KSub => if o_cancelled o
                then match r with ROk => None | _ => Some KEmitAfterCancel end
                else match r with RErr => Some KSubErrorGoesOn | _ => None end
      | KQuery => if o_cancelled o then Some KEmitAfterCancel else None
      end
    | None => None
    end
  | _ => None
  end.

Fixpoint causes_from_v0 (pr : proto) (st : state) (ins : list input) : list cause :=
  match ins with
  | [] => []
  | m :: r =>
    match offending_v0 pr st m with
    | Some k => k :: causes_from_v0 pr (fst (step_v0 pr st m)) r
    | None => causes_from_v0 pr (fst (step_v0 pr st m)) r
    end
  end.
Definition causes_of_v0 (pr : proto) (ins : list input) : list cause := causes_from_v0 pr (init_state pr) ins.
