(* C19: the model's traces are accepted by the reference monitor as long as no step is an
   instance of one of the three listed causes (Causes.offending) -- by a simulation between model
   state and monitor state, induction over the input list, no length bound. *)
From Coq Require Import List NArith Bool Lia ZifyN ZifyBool.
From Gv Require Import lib.Bytes C19.Model C19.Spec C19.Causes C19.ProofsBase.
Import ListNotations.
Open Scope N_scope.

(* ---------------------------------------------------------------- nothing after close *)
Lemma closed_silent pr st m :
  s_closed st = true -> snd (step pr st m) = [] /\ s_closed (fst (step pr st m)) = true.
Proof.
  intros Hc. destruct m; simpl; rewrite ?Hc; simpl; auto.
  - unfold exec_flush. destruct (find_op t (s_ops st)) as [o|]; simpl; auto.
    destruct (o_kind o); simpl; unfold emit; rewrite Hc; auto. destruct (o_cancelled o); auto.
  - unfold exec_return. destruct (find_op t (s_ops st)) as [o|]; simpl; auto.
    destruct (o_kind o); simpl; unfold emit; rewrite Hc; simpl; auto.
    + destruct (o_cancelled o && negb again); simpl; auto.
    + destruct (o_cancelled o); simpl; rewrite ?Hc; auto.
  - destruct pr; simpl; auto. destruct (s_timer st); simpl; auto. unfold do_close. rewrite Hc. simpl. auto.
  - rewrite andb_false_r. auto.
Qed.

(* ---------------------------------------------------------------- monitor bookkeeping *)
Lemma mem_del j i l : mem j (del i l) = mem j l && negb (j =? i).
Proof.
  unfold mem, del. induction l as [|a r IH]; simpl; [reflexivity|].
  destruct (a =? i) eqn:E; simpl.
  - rewrite IH. apply N.eqb_eq in E. subst a.
    destruct (j =? i) eqn:F; simpl; [rewrite andb_false_r; reflexivity|reflexivity].
  - rewrite IH. destruct (j =? a) eqn:F; simpl; [|reflexivity].
    apply N.eqb_eq in F. subst a. rewrite E. reflexivity.
Qed.

Lemma active_snoc st i k j :
  existsb (op_active j) (s_ops st ++ [mkOp (s_next st) i k false]) = active st j || (j =? i).
Proof.
  rewrite existsb_app. simpl. unfold op_active at 2. simpl. rewrite orb_false_r, (N.eqb_sym i j). reflexivity.
Qed.

(* ---------------------------------------------------------------- the simulation relation *)
Definition R (pr : proto) (st : state) (m : mon) : Prop :=
  m_closed m = s_closed st /\
  (s_closed st = false ->
   match pr with
   | TWS => m_acked m = s_init st /\ forall i, mem i (m_active m) = active st i
   | GWS => ((0 <? s_hb st) = true -> m_acked m = true) /\
            forall i, active st i = true -> mem i (m_active m) = true
   end).

Lemma R_init pr : R pr (init_state pr) mon_init.
Proof. unfold R, init_state, mon_init; simpl. split; auto. intros _. destruct pr; simpl; split; auto; discriminate. Qed.

Lemma R_closed pr st m : s_closed st = true -> m_closed m = true -> R pr st m.
Proof. intros A B. split; [congruence|]. rewrite A. discriminate. Qed.

(* a step in a closed state *)
Lemma sim_closed pr st m inp :
  s_closed st = true -> R pr st m ->
  exists m', mon_step pr m inp (snd (step pr st inp)) = inl m' /\ R pr (fst (step pr st inp)) m'.
Proof.
  intros Hc [Hm _]. destruct (closed_silent pr st inp Hc) as [E1 E2].
  exists m. rewrite E1. unfold mon_step. rewrite Hm, Hc. split; [reflexivity|].
  apply R_closed; congruence.
Qed.

(* closing in an open state, where the monitor allows exactly this code *)
Lemma sim_close pr st act ack inp code c :
  s_closed st = false ->
  inp <> EClientClose ->
  ctx_of pr (mkMon false ack act) inp = c -> mem code (c_closes c) = true ->
  activate pr (mkMon false ack act) inp = mkMon false ack act ->
  exists m', mon_step pr (mkMon false ack act) inp (snd (do_close st code)) = inl m' /\
             R pr (fst (do_close st code)) m'.
Proof.
  intros Hc Hne Hctx Hmem Hact. unfold do_close. rewrite Hc. simpl.
  unfold mon_step. simpl.
  destruct inp; try congruence; rewrite Hctx, Hact; simpl; rewrite Hmem; simpl;
    (eexists; split; [reflexivity|apply R_closed; reflexivity]).
Qed.

Ltac close_side :=
  auto; try discriminate;
  try (simpl; repeat match goal with
              | H : s_init _ = _ |- _ => rewrite H
              | H : forall i, mem i _ = active _ i |- _ => rewrite H
              | H : active _ _ = _ |- _ => rewrite H
              end; reflexivity).

Ltac done_open :=
  eexists; split; [reflexivity|]; split; [simpl; auto|]; simpl; intros _.

(* ---------------------------------------------------------------- graphql-transport-ws *)
Lemma sim_step_tws st m inp :
  wf TWS st -> R TWS st m -> offending TWS st inp = None ->
  exists m', mon_step TWS m inp (snd (step TWS st inp)) = inl m' /\ R TWS (fst (step TWS st inp)) m'.
Proof.
  intros W HR Hoff. destruct (s_closed st) eqn:Hc; [apply sim_closed; auto|].
  destruct HR as [Hmc HR]. specialize (HR Hc). destruct HR as [Hack Hact].
  destruct m as [mc ma act]. simpl in Hmc, Hack, Hact. rewrite Hc in Hmc. subst mc ma.
  destruct W as (W1 & W2 & W3 & W4 & W5 & W6 & W7 & W8).
  specialize (W5 eq_refl Hc). specialize (W6 eq_refl Hc). specialize (W7 eq_refl). specialize (W8 eq_refl).
  unfold offending in Hoff. rewrite Hc in Hoff.
  destruct inp; unfold step; rewrite ?Hc.
  - (* connection_init *)
    unfold handle_tws. destruct (s_init st) eqn:I.
    + apply sim_close with (c := ctx_close [4429] true); close_side.
    + destruct p.
      * rewrite (W5 eq_refl). unfold emit. rewrite Hc. unfold mon_step. simpl. rewrite ?I. simpl.
        done_open. split; auto.
      * rewrite (W5 eq_refl). unfold emit. rewrite Hc. unfold mon_step. simpl. rewrite ?I. simpl.
        done_open. split; auto.
      * apply sim_close with (c := ctx_close [4401; 4403] true); close_side.
  - (* ping *)
    unfold handle_tws, emit. rewrite Hc. unfold mon_step. simpl. done_open. split; auto.
  - (* pong *)
    unfold handle_tws. unfold mon_step. simpl. done_open. split; auto.
  - (* subscribe *)
    unfold handle_tws. destruct (s_init st) eqn:I; simpl.
    + destruct p.
      * (* subscription *)
        unfold start_operation. destruct (active st i) eqn:A.
        -- apply sim_close with (c := ctx_close [4409] true); close_side.
        -- unfold mon_step. simpl. rewrite ?I, ?Hact, ?A. simpl.
           done_open. split; auto. intros j. unfold active at 1. simpl s_ops. rewrite active_snoc, Hact.
           apply orb_comm.
      * unfold start_operation. destruct (active st i) eqn:A.
        -- apply sim_close with (c := ctx_close [4409] true); close_side.
        -- unfold mon_step. simpl. rewrite ?I, ?Hact, ?A. simpl.
           done_open. split; auto. intros j. unfold active at 1. simpl s_ops. rewrite active_snoc, Hact.
           apply orb_comm.
      * unfold mon_step. simpl. rewrite ?I. simpl. rewrite andb_false_r. done_open. split; auto.
      * unfold start_operation. unfold mon_step. simpl. rewrite ?I. simpl. rewrite andb_false_r.
        done_open. split; auto.
    + apply sim_close with (c := ctx_close [4401] true); close_side.
  - (* complete *)
    unfold handle_tws, stop_subscription. destruct (active st i) eqn:A.
    + unfold emit. rewrite Hc. unfold mon_step. simpl.
      rewrite Hact, A. simpl. done_open. split; auto.
      intros j. rewrite mem_del, Hact. unfold active, cancel_id, set_ops. simpl.
      rewrite active_cancel_some. reflexivity.
    + unfold mon_step. simpl. done_open. split; auto.
  - (* start: not a transport-ws type *)
    apply sim_close with (c := ctx_close [4400] true); close_side.
  - apply sim_close with (c := ctx_close [4400] true); close_side.
  - apply sim_close with (c := ctx_close [4400] true); close_side.
  - (* not JSON *)
    apply sim_close with (c := ctx_close [4400] true); close_side.
  - (* wrong shape *)
    unfold handle_tws, mon_step. simpl. done_open. split; auto.
  - (* unknown type *)
    apply sim_close with (c := ctx_close [4400] true); close_side.
  - (* flush *)
    unfold exec_flush. destruct (find_op t (s_ops st)) as [o|] eqn:F.
    + destruct (o_kind o) eqn:K.
      * destruct (o_cancelled o) eqn:C; [unfold mon_step; simpl; done_open; split; auto|].
        unfold emit. rewrite Hc. unfold mon_step. simpl.
        rewrite Hact. unfold active. rewrite (active_of_live _ _ _ F C). done_open. split; auto.
      * unfold mon_step. simpl. done_open. split; auto.
    + unfold mon_step. simpl. done_open. split; auto.
  - (* return *)
    unfold exec_return. destruct (find_op t (s_ops st)) as [o|] eqn:F.
    + destruct (o_kind o) eqn:K.
      * destruct (o_cancelled o) eqn:C.
        -- unfold emit. rewrite Hc. unfold mon_step. simpl.
           destruct again; simpl; (done_open; split; auto). intros j. rewrite Hact. unfold active, set_ops; simpl.
           rewrite (active_remove_cancelled _ _ _ j W1 F C). reflexivity.
        -- destruct r; [| |rewrite ?F, ?K, ?C in Hoff; discriminate]; unfold emit; rewrite Hc; unfold mon_step; simpl.
           ++ done_open. split; auto.
           ++ rewrite Hact. unfold active. rewrite (active_of_live _ _ _ F C). done_open. split; auto.
      * destruct (o_cancelled o) eqn:C.
        { unfold mon_step. simpl. done_open. split; auto. intros j. rewrite Hact. unfold active, set_ops; simpl.
          rewrite (active_remove_cancelled _ _ _ j W1 F C). reflexivity. }
        assert (Hlive : mem (o_id o) act = true).
        { rewrite Hact. unfold active. apply (active_of_live _ _ _ F C). }
        assert (Hafter : forall j, mem j (del (o_id o) act) =
                  active (set_ops (cancel_id (o_id o) st) (remove_op t (s_ops (cancel_id (o_id o) st)))) j).
        { intros j. rewrite mem_del, Hact. unfold active, cancel_id, set_ops. simpl.
          unfold remove_op. rewrite existsb_filter_irrel.
          - rewrite active_cancel_some. reflexivity.
          - intros x Hin G. apply negb_false_iff, N.eqb_eq in G.
            apply in_map_iff in Hin. destruct Hin as [y [Ey Hy]].
            assert (Ty : o_tok y = t).
            { rewrite <- G, <- Ey. destruct (op_active (o_id o) y); reflexivity. }
            rewrite (find_op_unique t _ o W1 F y Hy Ty) in Ey.
            subst x. unfold op_active at 2. rewrite C, N.eqb_refl. simpl. reflexivity. }
        destruct r; unfold emit; rewrite Hc; unfold mon_step; simpl; rewrite ?Hlive; simpl;
          rewrite ?Hlive; simpl; (done_open; split; auto).
    + unfold mon_step. simpl. done_open. split; auto.
  - (* init timeout *)
    destruct (s_init st) eqn:I.
    + rewrite (W6 eq_refl). unfold mon_step. simpl. rewrite ?I. simpl. done_open. split; auto.
    + rewrite (W5 eq_refl). unfold do_close. rewrite Hc. unfold mon_step. simpl. rewrite ?I. simpl.
      eexists; split; [reflexivity|apply R_closed; reflexivity].
  - (* heartbeat tick *)
    rewrite ?Hc. simpl. rewrite ?andb_true_r. destruct (0 <? s_hb st) eqn:Hb.
    + assert (I : s_init st = true) by (apply W7; lia).
      unfold mon_step. simpl. rewrite ?I. done_open. split; auto.
    + unfold mon_step. simpl. done_open. split; auto.
  - (* client leaves *)
    unfold mon_step. simpl. eexists; split; [reflexivity|apply R_closed; reflexivity].
Qed.

(* ---------------------------------------------------------------- legacy graphql-ws *)
Lemma sim_step_gws st m inp :
  wf GWS st -> R GWS st m -> offending GWS st inp = None ->
  exists m', mon_step GWS m inp (snd (step GWS st inp)) = inl m' /\ R GWS (fst (step GWS st inp)) m'.
Proof.
  intros W HR Hoff. destruct (s_closed st) eqn:Hc; [apply sim_closed; auto|].
  destruct HR as [Hmc HR]. specialize (HR Hc). destruct HR as [Hack Hact].
  destruct m as [mc ma act]. simpl in Hmc, Hack, Hact. rewrite Hc in Hmc. subst mc.
  destruct W as (W1 & W2 & W3 & W4 & _).
  unfold offending in Hoff. rewrite Hc in Hoff.
  assert (Hsub : forall ops', (forall j, existsb (op_active j) ops' = true -> active st j = true) ->
                 forall j, existsb (op_active j) ops' = true -> mem j act = true).
  { intros ops' H j Hj. apply Hact, H, Hj. }
  destruct inp; unfold step; rewrite ?Hc.
  - (* connection_init *)
    destruct p; unfold handle_gws, emit; rewrite Hc; unfold mon_step; simpl.
    + done_open. split; auto.
    + done_open. split; auto.
    + done_open. split; auto. intros j. unfold active, terminate_all, set_ops. simpl.
      rewrite active_cancel_all. discriminate.
  - (* ping: not a legacy type *)
    unfold handle_gws, emit. rewrite Hc. unfold mon_step. simpl. done_open. split; auto.
  - unfold handle_gws, emit. rewrite Hc. unfold mon_step. simpl. done_open. split; auto.
  - unfold handle_gws, emit. rewrite Hc. unfold mon_step. simpl. done_open. split; auto.
  - unfold handle_gws, emit. rewrite Hc. unfold mon_step. simpl. done_open. split; auto.
  - (* start *)
    unfold handle_gws, start_operation.
    destruct p.
    + destruct (active st i) eqn:A.
      * unfold emit. rewrite Hc. unfold mon_step. simpl. rewrite (Hact i A). simpl.
        rewrite N.eqb_refl. simpl. done_open. split; auto.
      * unfold mon_step. simpl. destruct (mem i act) eqn:M; simpl.
        -- done_open. split; auto. intros j. unfold active at 1. simpl s_ops. rewrite active_snoc. intros H.
           apply orb_true_iff in H. destruct H as [H|H]; [apply Hact; exact H|].
           apply N.eqb_eq in H. subst j. exact M.
        -- done_open. split; auto. intros j. unfold active at 1. simpl s_ops. rewrite active_snoc. intros H.
           apply orb_true_iff in H. destruct H as [H|H]; [rewrite (Hact j H); apply orb_true_r|].
           rewrite H. reflexivity.
    + destruct (active st i) eqn:A.
      * unfold emit. rewrite Hc. unfold mon_step. simpl. rewrite (Hact i A). simpl.
        rewrite N.eqb_refl. simpl. done_open. split; auto.
      * unfold mon_step. simpl. destruct (mem i act) eqn:M; simpl.
        -- done_open. split; auto. intros j. unfold active at 1. simpl s_ops. rewrite active_snoc. intros H.
           apply orb_true_iff in H. destruct H as [H|H]; [apply Hact; exact H|].
           apply N.eqb_eq in H. subst j. exact M.
        -- done_open. split; auto. intros j. unfold active at 1. simpl s_ops. rewrite active_snoc. intros H.
           apply orb_true_iff in H. destruct H as [H|H]; [rewrite (Hact j H); apply orb_true_r|].
           rewrite H. reflexivity.
    + unfold mon_step. simpl. rewrite andb_false_r. simpl. done_open. split; auto.
    + unfold mon_step. simpl. rewrite andb_false_r. simpl. done_open. split; auto.
  - (* stop *)
    unfold handle_gws, stop_subscription. destruct (active st i) eqn:A.
    + unfold emit. rewrite Hc. unfold mon_step. simpl.
      rewrite (Hact i A). simpl. done_open. split; auto.
      intros j. unfold active, cancel_id, set_ops. simpl. rewrite active_cancel_some, mem_del.
      intros H. apply andb_true_iff in H. destruct H as [H1 H2]. rewrite H2, (Hact j H1). reflexivity.
    + unfold mon_step. simpl. done_open. split; auto.
  - (* connection_terminate *)
    unfold handle_gws, mon_step. simpl. done_open. split; auto.
    intros j. unfold active, terminate_all, set_ops. simpl. rewrite active_cancel_all. discriminate.
  - (* not JSON *)
    unfold handle_gws, emit. rewrite Hc. unfold mon_step. simpl. done_open. split; auto.
  - unfold handle_gws, mon_step. simpl. done_open. split; auto.
  - unfold handle_gws, emit. rewrite Hc. unfold mon_step. simpl. done_open. split; auto.
  - (* flush *)
    unfold exec_flush. destruct (find_op t (s_ops st)) as [o|] eqn:F.
    + destruct (o_kind o) eqn:K.
      * destruct (o_cancelled o) eqn:C; [unfold mon_step; simpl; done_open; split; auto|].
        unfold emit. rewrite Hc. unfold mon_step. simpl.
        rewrite (Hact _ (active_of_live _ _ _ F C)). done_open. split; auto.
      * unfold mon_step. simpl. done_open. split; auto.
    + unfold mon_step. simpl. done_open. split; auto.
  - (* return *)
    unfold exec_return. destruct (find_op t (s_ops st)) as [o|] eqn:F.
    + destruct (o_kind o) eqn:K.
      * destruct (o_cancelled o) eqn:C.
        -- unfold emit. rewrite Hc. unfold mon_step. simpl.
           destruct again; simpl; (done_open; split; auto). intros j. unfold active at 1. unfold set_ops; simpl.
           rewrite (active_remove_cancelled _ _ _ j W1 F C). apply Hact.
        -- destruct r; [| |rewrite ?F, ?K, ?C in Hoff; discriminate]; unfold emit; rewrite Hc; unfold mon_step; simpl.
           ++ done_open. split; auto.
           ++ rewrite (Hact _ (active_of_live _ _ _ F C)). done_open. split; auto.
      * destruct (o_cancelled o) eqn:C.
        { unfold mon_step. simpl. done_open. split; auto. intros j. unfold active at 1. unfold set_ops; simpl.
          rewrite (active_remove_cancelled _ _ _ j W1 F C). apply Hact. }
        pose proof (Hact _ (active_of_live _ _ _ F C)) as Hlive.
        assert (Hafter : forall j,
                  active (set_ops (cancel_id (o_id o) st) (remove_op t (s_ops (cancel_id (o_id o) st)))) j = true ->
                  mem j (del (o_id o) act) = true).
        { intros j. rewrite mem_del. unfold active, cancel_id, set_ops. simpl.
          unfold remove_op. rewrite existsb_filter_irrel.
          - rewrite active_cancel_some. intros H. apply andb_true_iff in H. destruct H as [H1 H2].
            rewrite H2, (Hact j H1). reflexivity.
          - intros x Hin G. apply negb_false_iff, N.eqb_eq in G.
            apply in_map_iff in Hin. destruct Hin as [y [Ey Hy]].
            assert (Ty : o_tok y = t).
            { rewrite <- G, <- Ey. destruct (op_active (o_id o) y); reflexivity. }
            rewrite (find_op_unique t _ o W1 F y Hy Ty) in Ey.
            subst x. unfold op_active at 2. rewrite C, N.eqb_refl. simpl. reflexivity. }
        destruct r; unfold emit; rewrite Hc; unfold mon_step; simpl; rewrite ?Hlive; simpl;
          rewrite ?Hlive; simpl; (done_open; split; auto).
    + unfold mon_step. simpl. done_open. split; auto.
  - (* init timeout: the legacy handler has no such timer *)
    unfold mon_step. simpl. done_open. split; auto.
  - (* keep-alive tick *)
    rewrite ?Hc. simpl. rewrite ?andb_true_r. destruct (0 <? s_hb st) eqn:Hb.
    + unfold mon_step. simpl. rewrite (Hack eq_refl). done_open. split; auto.
    + unfold mon_step. simpl. done_open. split; auto; intros; congruence.
  - unfold mon_step. simpl. eexists; split; [reflexivity|apply R_closed; reflexivity].
Qed.
