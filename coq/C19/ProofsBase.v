(* C19: basic lemmas about the model's bookkeeping, the state invariant and its preservation. *)
From Coq Require Import List NArith Bool Lia ZifyN ZifyBool.
From Gv Require Import lib.Bytes C19.Model.
Import ListNotations.
Open Scope N_scope.

(* ---------------------------------------------------------------- lists of goroutines *)
Lemma find_op_In t ops o : find_op t ops = Some o -> In o ops /\ o_tok o = t.
Proof.
  induction ops as [|x r IH]; simpl; [discriminate|].
  destruct (o_tok x =? t) eqn:E.
  - intros H; inversion H; subst. apply N.eqb_eq in E. auto.
  - intros H. destruct (IH H). auto.
Qed.

Lemma find_op_unique t ops o :
  NoDup (map o_tok ops) -> find_op t ops = Some o ->
  forall x, In x ops -> o_tok x = t -> x = o.
Proof.
  induction ops as [|y r IH]; simpl; [discriminate|].
  intros ND F x Hin Hx. inversion ND as [|? ? Hnin ND']; subst.
  destruct (o_tok y =? o_tok x) eqn:E.
  - inversion F; subst. apply N.eqb_eq in E.
    destruct Hin as [->|Hin]; [reflexivity|].
    exfalso. apply Hnin. rewrite E. apply in_map. exact Hin.
  - apply N.eqb_neq in E. destruct Hin as [->|Hin]; [congruence|].
    apply IH; auto.
Qed.

Lemma existsb_filter_irrel {A} (f g : A -> bool) l :
  (forall x, In x l -> g x = false -> f x = false) -> existsb f (filter g l) = existsb f l.
Proof.
  induction l as [|a r IH]; simpl; [reflexivity|]. intros H.
  assert (IH' : existsb f (filter g r) = existsb f r) by (apply IH; intros; apply H; auto).
  destruct (g a) eqn:G; simpl.
  - rewrite IH'. reflexivity.
  - rewrite IH'. rewrite (H a (or_introl eq_refl) G). reflexivity.
Qed.

Lemma op_active_cancel i o : op_active i (cancel_op o) = false.
Proof. reflexivity. Qed.

Lemma active_cancel_some ops i j :
  existsb (op_active j) (map (fun o => if op_active i o then cancel_op o else o) ops)
  = existsb (op_active j) ops && negb (j =? i).
Proof.
  induction ops as [|o r IH]; simpl; [reflexivity|].
  rewrite IH. destruct (op_active i o) eqn:A.
  - rewrite op_active_cancel. simpl.
    unfold op_active in *. destruct (o_cancelled o); simpl in *; [discriminate|].
    apply N.eqb_eq in A. subst i.
    destruct (j =? o_id o) eqn:E.
    + apply N.eqb_eq in E. subst j. rewrite N.eqb_refl. simpl. rewrite andb_false_r. reflexivity.
    + rewrite N.eqb_sym, E. reflexivity.
  - destruct (op_active j o) eqn:B; simpl; [|reflexivity].
    unfold op_active in *. destruct (o_cancelled o); simpl in *; [discriminate|].
    apply N.eqb_eq in B. subst j. rewrite A. reflexivity.
Qed.

Lemma active_cancel_all ops j : existsb (op_active j) (map cancel_op ops) = false.
Proof. induction ops; simpl; auto. Qed.

Lemma active_remove_cancelled ops t o j :
  NoDup (map o_tok ops) -> find_op t ops = Some o -> o_cancelled o = true ->
  existsb (op_active j) (remove_op t ops) = existsb (op_active j) ops.
Proof.
  intros ND F C. unfold remove_op. apply existsb_filter_irrel.
  intros x Hin G. apply negb_false_iff, N.eqb_eq in G.
  rewrite (find_op_unique t ops o ND F x Hin G).
  unfold op_active. rewrite C. reflexivity.
Qed.

Lemma active_of_live ops t o :
  find_op t ops = Some o -> o_cancelled o = false -> existsb (op_active (o_id o)) ops = true.
Proof.
  intros F C. apply find_op_In in F. destruct F as [Hin _].
  apply existsb_exists. exists o. split; auto. unfold op_active. rewrite C, N.eqb_refl. reflexivity.
Qed.

(* ---------------------------------------------------------------- NoDup under map / filter *)
Lemma in_map_filter {A B} (f : A -> B) (g : A -> bool) (l : list A) (x : B) : In x (map f (filter g l)) -> In x (map f l).
Proof.
  rewrite !in_map_iff. intros [y [E H]]. apply filter_In in H. exists y. tauto.
Qed.

Lemma NoDup_map_filter {A B} (f : A -> B) (g : A -> bool) (l : list A) : NoDup (map f l) -> NoDup (map f (filter g l)).
Proof.
  induction l as [|a r IH]; simpl; [auto|]. intros ND. inversion ND; subst.
  destruct (g a); simpl; auto. constructor; auto.
  intros H. apply in_map_filter in H. contradiction.
Qed.

Definition nc (o : op) : bool := negb (o_cancelled o).

Lemma filter_nc_cancel_some (c : op -> bool) (ops : list op) :
  filter nc (map (fun o => if c o then cancel_op o else o) ops) = filter (fun o => negb (c o)) (filter nc ops).
Proof.
  induction ops as [|o r IH]; simpl; [reflexivity|].
  destruct (c o) eqn:C; simpl.
  - unfold nc at 1. simpl. destruct (nc o); simpl; rewrite ?C; simpl; exact IH.
  - destruct (nc o); simpl; rewrite ?C; simpl; rewrite IH; reflexivity.
Qed.

Lemma filter_nc_cancel_all ops : filter nc (map cancel_op ops) = [].
Proof. induction ops; simpl; auto. Qed.

Lemma filter_comm {A} (f g : A -> bool) l : filter f (filter g l) = filter g (filter f l).
Proof.
  induction l as [|a r IH]; simpl; [reflexivity|].
  destruct (f a) eqn:F, (g a) eqn:G; simpl; rewrite ?F, ?G, IH; reflexivity.
Qed.

(* ---------------------------------------------------------------- the state invariant *)
Definition wf (pr : proto) (st : state) : Prop :=
  NoDup (map o_tok (s_ops st))
  /\ Forall (fun o => o_tok o < s_next st) (s_ops st)
  (* at most one un-cancelled goroutine per id: subCancellations is a map *)
  /\ NoDup (map o_id (filter nc (s_ops st)))
  (* once the socket is gone every context is cancelled *)
  /\ (s_closed st = true -> Forall (fun o => o_cancelled o = true) (s_ops st))
  (* transport-ws: the init timer runs exactly until the accepted connection_init *)
  /\ (pr = TWS -> s_closed st = false -> s_init st = false -> s_timer st = TRunning)
  /\ (pr = TWS -> s_closed st = false -> s_init st = true -> s_timer st = TStopped)
  /\ (pr = TWS -> 0 < s_hb st -> s_init st = true)
  (* transport-ws: no operation before the accepted connection_init *)
  /\ (pr = TWS -> s_init st = false -> s_ops st = []).

Lemma wf_init pr : wf pr (init_state pr).
Proof.
  unfold wf, init_state; simpl. repeat split; try constructor; intros; subst; simpl in *; auto; try lia; try discriminate.
Qed.

Lemma Forall_map_cancel ops : Forall (fun o => o_cancelled o = true) (map cancel_op ops).
Proof. induction ops; simpl; constructor; auto. Qed.

Lemma map_tok_cancel_some (c : op -> bool) (ops : list op) : map o_tok (map (fun o => if c o then cancel_op o else o) ops) = map o_tok ops.
Proof. induction ops as [|o r IH]; simpl; [reflexivity|]. rewrite IH. destruct (c o); reflexivity. Qed.
Lemma map_tok_cancel_all ops : map o_tok (map cancel_op ops) = map o_tok ops.
Proof. induction ops as [|o r IH]; simpl; [reflexivity|]. rewrite IH. reflexivity. Qed.

Lemma Forall_tok_cancel_some (c : op -> bool) n ops :
  Forall (fun o => o_tok o < n) ops -> Forall (fun o => o_tok o < n) (map (fun o => if c o then cancel_op o else o) ops).
Proof. induction 1; simpl; constructor; auto. destruct (c x); auto. Qed.
Lemma Forall_tok_cancel_all n ops :
  Forall (fun o => o_tok o < n) ops -> Forall (fun o => o_tok o < n) (map cancel_op ops).
Proof. induction 1; simpl; constructor; auto. Qed.
Lemma Forall_canc_cancel_some (c : op -> bool) ops :
  Forall (fun o => o_cancelled o = true) ops ->
  Forall (fun o => o_cancelled o = true) (map (fun o => if c o then cancel_op o else o) ops).
Proof. induction 1; simpl; constructor; auto. destruct (c x); auto. Qed.
Lemma Forall_filter {A} (P : A -> Prop) g l : Forall P l -> Forall P (filter g l).
Proof. induction 1; simpl; auto. destruct (g x); auto. Qed.

Lemma map_nil_inv {A B} (f : A -> B) l : l = [] -> map f l = [].
Proof. intros ->. reflexivity. Qed.

(* the three ways a state changes its goroutines keep the invariant *)
Ltac wf_split := unfold wf; simpl; (split; [|split; [|split; [|split; [|split; [|split; [|split]]]]]]).

Ltac wf_ops H :=
  auto; try (intros; discriminate);
  try (rewrite map_tok_cancel_some; assumption);
  try (rewrite map_tok_cancel_all; assumption);
  try (apply Forall_tok_cancel_some; assumption);
  try (apply Forall_tok_cancel_all; assumption);
  try (rewrite filter_nc_cancel_some; apply NoDup_map_filter; assumption);
  try (rewrite filter_nc_cancel_all; constructor);
  try (intros; apply Forall_canc_cancel_some; auto; fail);
  try (intros; apply Forall_map_cancel);
  try (apply NoDup_map_filter; assumption);
  try (apply Forall_filter; assumption);
  try (rewrite filter_comm; apply NoDup_map_filter; assumption);
  try (intros; apply Forall_filter; auto; fail);
  try (let Hp := fresh in let Hi := fresh in intros Hp Hi; rewrite (H Hp Hi); reflexivity).

Lemma wf_cancel_id pr st i : wf pr st -> wf pr (cancel_id i st).
Proof.
  intros (A & B & C & D & E & F & G & H). unfold cancel_id, set_ops. wf_split; wf_ops H.
Qed.

Lemma wf_terminate_all pr st : wf pr st -> wf pr (terminate_all st).
Proof.
  intros (A & B & C & D & E & F & G & H). unfold terminate_all, set_ops. wf_split; wf_ops H.
Qed.

Lemma wf_close_state pr st : wf pr st -> wf pr (close_state st).
Proof.
  intros (A & B & C & D & E & F & G & H). unfold close_state. wf_split; wf_ops H.
Qed.

Lemma wf_remove_op pr st t : wf pr st -> wf pr (set_ops st (remove_op t (s_ops st))).
Proof.
  intros (A & B & C & D & E & F & G & H). unfold set_ops, remove_op. wf_split; wf_ops H.
Qed.

Lemma wf_do_close pr st code : wf pr st -> wf pr (fst (do_close st code)).
Proof. intros W. unfold do_close. destruct (s_closed st); simpl; auto using wf_close_state. Qed.

Lemma not_active_not_in st i :
  active st i = false -> ~ In i (map o_id (filter nc (s_ops st))).
Proof.
  unfold active. intros H Hin. apply in_map_iff in Hin. destruct Hin as [o [E Hf]].
  apply filter_In in Hf. destruct Hf as [Hin Hn].
  assert (existsb (op_active i) (s_ops st) = true).
  { apply existsb_exists. exists o. split; auto. unfold op_active. unfold nc in Hn. rewrite Hn, E, N.eqb_refl. reflexivity. }
  congruence.
Qed.

Lemma NoDup_snoc {A} (l : list A) x : NoDup l -> ~ In x l -> NoDup (l ++ [x]).
Proof.
  induction l as [|a r IH]; simpl; intros ND Hn.
  - repeat constructor; auto.
  - inversion ND; subst. constructor.
    + rewrite in_app_iff. simpl. intros [H|[H|[]]]; auto.
    + apply IH; auto.
Qed.

Lemma wf_add_op pr st i k :
  (pr = TWS -> s_init st = true) -> s_closed st = false -> active st i = false ->
  wf pr st ->
  wf pr (mkState (s_closed st) (s_init st) (s_timer st) (s_hb st)
                 (s_ops st ++ [mkOp (s_next st) i k false]) (s_next st + 1)).
Proof.
  intros Hi Hc Act (A & B & C & D & E & F & G & H). unfold wf; simpl.
  repeat split; auto; try (intros; congruence).
  - rewrite map_app. simpl. apply NoDup_snoc; auto.
    intros Hin. apply in_map_iff in Hin. destruct Hin as [o [E1 Hin]].
    rewrite Forall_forall in B. specialize (B o Hin). lia.
  - apply Forall_app. split.
    + eapply Forall_impl; [|exact B]. simpl. intros; lia.
    + constructor; [simpl; lia|constructor].
  - rewrite filter_app, map_app. simpl. apply NoDup_snoc; auto.
    apply not_active_not_in. exact Act.
  - intros Hp Hf. rewrite (Hi Hp) in Hf. discriminate.
Qed.

Lemma wf_start_operation pr st i p :
  (pr = TWS -> s_init st = true) -> s_closed st = false ->
  wf pr st -> wf pr (fst (start_operation pr st i p)).
Proof.
  intros Hi Hc W. unfold start_operation.
  destruct p; simpl; auto; (destruct (active st i) eqn:Act;
    [destruct pr; simpl; auto using wf_do_close|]); simpl; apply wf_add_op; auto.
Qed.

Lemma wf_exec_return pr st t r b : wf pr st -> wf pr (fst (exec_return pr st t r b)).
Proof.
  intros W. unfold exec_return. destruct (find_op t (s_ops st)) as [o|]; simpl; auto.
  destruct (o_kind o); simpl.
  - destruct (o_cancelled o && negb b); simpl; auto using wf_remove_op.
  - destruct (o_cancelled o); simpl; [apply wf_remove_op; exact W|].
    apply (wf_remove_op pr (cancel_id (o_id o) st)). apply wf_cancel_id. exact W.
Qed.

Lemma wf_exec_flush pr st t : wf pr st -> wf pr (fst (exec_flush pr st t)).
Proof.
  intros W. unfold exec_flush. destruct (find_op t (s_ops st)) as [o|]; simpl; auto.
  destruct (o_kind o); simpl; auto.
Qed.

Lemma wf_stop_subscription pr st i : wf pr st -> wf pr (fst (stop_subscription st i)).
Proof. intros W. unfold stop_subscription. destruct (active st i); simpl; auto using wf_cancel_id. Qed.

Lemma wf_handle_tws st m : s_closed st = false -> wf TWS st -> wf TWS (fst (handle_tws st m)).
Proof.
  intros Hc W. destruct m; simpl; auto using wf_do_close, wf_stop_subscription.
  - (* init *)
    destruct (s_init st) eqn:I; [apply wf_do_close; auto|].
    destruct p; [| |apply wf_do_close; auto].
    all: destruct W as (A & B & C & D & E & F & G & H);
      rewrite (E eq_refl Hc I); simpl; unfold wf; simpl;
      repeat split; auto; try (intros; congruence).
  - (* subscribe *)
    destruct (s_init st) eqn:I; simpl; [|apply wf_do_close; auto].
    destruct p; auto; apply wf_start_operation; auto.
Qed.

Lemma wf_handle_gws st m : s_closed st = false -> wf GWS st -> wf GWS (fst (handle_gws st m)).
Proof.
  intros Hc W. destruct m; simpl; auto using wf_stop_subscription, wf_terminate_all.
  - destruct p; simpl; auto using wf_terminate_all.
    all: destruct W as (A & B & C & D & E & F & G & H); unfold wf; simpl;
      repeat split; auto; try (intros; congruence).
  - apply wf_start_operation; auto. intros; discriminate.
Qed.

Theorem wf_step pr st m : wf pr st -> wf pr (fst (step pr st m)).
Proof.
  intros W.
  assert (Hcl : forall x, wf pr (fst (if s_closed st then (st, @nil output)
                 else match pr with TWS => handle_tws st x | GWS => handle_gws st x end))).
  { intros x. destruct (s_closed st) eqn:Hc; [exact W|].
    destruct pr; [apply wf_handle_tws|apply wf_handle_gws]; auto. }
  destruct m; try (unfold step; apply Hcl); clear Hcl; simpl.
  - apply wf_exec_flush; auto.
  - apply wf_exec_return; auto.
  - (* init timeout *)
    destruct pr; simpl; auto. destruct (s_timer st) eqn:T; simpl; auto.
    unfold do_close. destruct (s_closed st) eqn:Hc; simpl.
    + destruct W as (A & B & C & D & E & F & G & H); unfold wf; simpl.
      repeat split; auto; try (intros; congruence).
    + pose proof (wf_close_state TWS st W) as W'.
      destruct W' as (A & B & C & D & E & F & G & H); unfold wf; simpl in *.
      repeat split; auto; try (intros; congruence).
  - destruct ((0 <? s_hb st) && negb (s_closed st)); simpl; auto.
  - apply wf_close_state; auto.
Qed.

Lemma run_from_app pr st a b :
  run_from pr st (a ++ b) =
  let '(st1, o1) := run_from pr st a in let '(st2, o2) := run_from pr st1 b in (st2, o1 ++ o2).
Proof.
  revert st. induction a as [|m r IH]; intros st; simpl.
  - destruct (run_from pr st b); reflexivity.
  - destruct (step pr st m) as [st1 o]. rewrite IH.
    destruct (run_from pr st1 r) as [st2 os]. destruct (run_from pr st2 b). reflexivity.
Qed.

Lemma wf_run_from pr st ins : wf pr st -> wf pr (fst (run_from pr st ins)).
Proof.
  revert st. induction ins as [|m r IH]; intros st W; simpl; auto.
  pose proof (wf_step pr st m W) as W1. destruct (step pr st m) as [st1 o]. simpl in W1.
  specialize (IH st1 W1). destruct (run_from pr st1 r). exact IH.
Qed.

Theorem wf_run pr ins : wf pr (run pr ins).
Proof. apply wf_run_from, wf_init. Qed.
