(* C19: the hypotheses of the theorems are satisfiable by non-trivial values, and the refutation
   witnesses in full. *)
From Coq Require Import List NArith Bool.
From Gv Require Import lib.Bytes C19.Model C19.ModelV0 C19.Spec C19.Causes C19.ProofsBase C19.Proofs.
Import ListNotations.
Open Scope N_scope.

(* a long clean trace: handshake, two operations, data, a duplicate id -> 4409, drain *)
Definition ex_tws_clean : list input :=
  [CPing; CInit IAccept; CSubscribe 1 PSub; CSubscribe 2 PQuery; EFlush 0; ERet 1 RData false; ERet 0 RData true;
   CComplete 1; ERet 0 ROk false; CSubscribe 1 PQuery; CSubscribe 1 PSub; ERet 2 RData false].
Example ex_partial_tws :
  causes_of TWS ex_tws_clean = [] /\ monitor_accepts TWS ex_tws_clean (run_outs TWS ex_tws_clean) = true
  /\ run_outs TWS ex_tws_clean =
     [[OMsg MPong 0]; [OMsg MAck 0]; []; []; [OMsg MNext 1]; [OMsg MNext 2; OMsg MComplete 2]; [OMsg MNext 1];
      [OMsg MComplete 1]; []; []; [OClose 4409]; []].
Proof. vm_compute. repeat split; reflexivity. Qed.

Definition ex_gws_clean : list input :=
  [CStart 1 PSub; CInit INone; CStart 1 PQuery; EFlush 0; CBadJson; CPing; CStart 2 PQuery; ERet 1 RErr false;
   CInit IReject; CStart 1 PSub; EFlush 2; CStop 1; ETick; CTerminate].
Example ex_partial_gws :
  causes_of GWS ex_gws_clean = [] /\ monitor_accepts GWS ex_gws_clean (run_outs GWS ex_gws_clean) = true
  /\ run_outs GWS ex_gws_clean =
     [[]; [OMsg MAck 0]; [OMsg MError 1]; [OMsg MData 1]; [OMsg MError 0]; [OMsg MConnError 0]; [];
      [OMsg MError 2]; [OMsg MConnError 0]; []; [OMsg MData 1]; [OMsg MComplete 1]; [OMsg MKa 0]; []].
Proof. vm_compute. repeat split; reflexivity. Qed.

(* the partial theorems now cover what used to be findings: complete for ids that are not
   running, results arriving after the client completed *)
Definition ex_tws_formerly_bad : list input :=
  [CComplete 4; CInit INone; CSubscribe 1 PQuery; CSubscribe 2 PSub; CComplete 1; ERet 0 RData false;
   CComplete 2; EFlush 1; ERet 1 RErr false; CComplete 2; CSubscribe 2 PQuery; ERet 2 RData false].
Example ex_partial_tws_formerly_bad :
  causes_of TWS ex_tws_formerly_bad = [] /\ monitor_accepts TWS ex_tws_formerly_bad (run_outs TWS ex_tws_formerly_bad) = true
  /\ run_outs TWS ex_tws_formerly_bad =
     [[]; [OMsg MAck 0]; []; []; [OMsg MComplete 1]; []; [OMsg MComplete 2]; []; []; []; [];
      [OMsg MNext 2; OMsg MComplete 2]]
  /\ causes_of_v0 TWS ex_tws_formerly_bad = [KStopUnknown; KEmitAfterCancel; KEmitAfterCancel; KEmitAfterCancel; KStopUnknown].
Proof. vm_compute. repeat split; reflexivity. Qed.

(* the refutation witnesses, with the model's outputs *)
Example ex_refuted_tws_sub_error : run_outs TWS w_tws_sub_error = [[OMsg MAck 0]; []; [OMsg MError 1]; [OMsg MNext 1]].
Proof. reflexivity. Qed.
Example ex_refuted_tws_sub_error_id_taken :
  run_outs TWS w_tws_sub_error_id_taken = [[OMsg MAck 0]; []; [OMsg MError 1]; [OClose 4409]].
Proof. reflexivity. Qed.
(* historical *)
Example ex_refuted_v0_tws_query_after_complete :
  run_outs_v0 TWS w_tws_emit_after_cancel = [[OMsg MAck 0]; []; [OMsg MComplete 1]; [OMsg MNext 1; OMsg MComplete 1]]
  /\ run_outs TWS w_tws_emit_after_cancel = [[OMsg MAck 0]; []; [OMsg MComplete 1]; []].
Proof. split; reflexivity. Qed.
Example ex_refuted_v0_tws_complete_before_init :
  run_outs_v0 TWS w_tws_stop_before_init = [[OMsg MComplete 1]] /\ run_outs TWS w_tws_stop_before_init = [[]].
Proof. split; reflexivity. Qed.

(* nothing_after_close / prescribed closes / no operation before init: reachable states of each kind *)
Example ex_closed_state : s_closed (run TWS [CInit INone; CInit INone]) = true
  /\ s_closed (run TWS [EInitTimeout]) = true /\ s_closed (run GWS [CStart 1 PSub; EClientClose]) = true.
Proof. vm_compute. auto. Qed.
Example ex_open_uninitialised : s_closed (run TWS [CPing; CComplete 3; CWrongShape]) = false
  /\ s_init (run TWS [CPing; CComplete 3; CWrongShape]) = false.
Proof. vm_compute. auto. Qed.
Example ex_open_with_running_op :
  let st := run TWS [CInit INone; CSubscribe 7 PSub] in
  s_closed st = false /\ s_init st = true /\ active st 7 = true /\ active st 8 = false.
Proof. vm_compute. auto. Qed.
(* never_wedged: an open reachable state with live goroutines, cancelled and not *)
Example ex_responsive_state :
  let st := run GWS [CStart 1 PSub; CStart 2 PQuery; CStop 1; CInit IReject] in
  s_closed st = false /\ live st = [(0, 1, true); (1, 2, false)] /\ active st 1 = false /\ active st 2 = false.
Proof. vm_compute. auto. Qed.
