(* C19 specification: a reference monitor per protocol, written from the protocol documents
   (graphql-transport-ws: enisdenjo/graphql-ws PROTOCOL.md; legacy graphql-ws:
   apollographql/subscriptions-transport-ws PROTOCOL.md) and the property text.  It shares
   only the alphabet (input / output / proto) with the model: it never looks at the model's
   state, it keeps its own.

   What the monitor demands, per step (one input, the outputs the server produced for it):
   * nothing at all once the socket is closed (by either side);
   * only message types of the negotiated protocol;
   * graphql-transport-ws: the prescribed close codes, exactly where prescribed --
       second connection_init 4429, a message that is not JSON / whose type the protocol does
       not know 4400, subscribe before the acknowledged init 4401, subscribe with the id of a
       running operation 4409, init timeout before the acknowledged init 4408, a rejected
       init 4401 or 4403 -- and no close anywhere else;
   * connection_ack exactly once in answer to an accepted connection_init; pong in answer to ping;
     heartbeats only after the ack;
   * per operation id: next/data only while the operation is running; error or complete ends it;
     nothing for that id afterwards until the client starts it again; nothing for ids never
     started -- in particular (graphql-transport-ws) nothing before the acknowledged init.
   Deliberate leniency (the documents do not prescribe a reaction): a JSON value of the wrong
   shape may be ignored or (transport-ws) answered with 4400, a subscribe/start without a usable
   payload (none, or one the executor pool refuses) may be ignored or (transport-ws) answered with
   4400 or, if its id is running, 4409; legacy: no init requirement, an id-less "error" is accepted as the report
   of an unparsable message, "error" for the id of a running operation in answer to a second
   start with that id is read as the rejection of the second start (the first keeps running),
   connection_terminate needs no reaction. *)
From Coq Require Import List NArith Bool.
From Gv Require Import C19.Model.
Import ListNotations.
Open Scope N_scope.

Inductive clause :=
| VAfterClose      (* output after the socket was closed *)
| VForeignType     (* message type of the other protocol *)
| VAck             (* connection_ack that no connection_init called for *)
| VPong            (* pong that no ping called for *)
| VHeartbeat       (* heartbeat / keep-alive before the ack *)
| VConnError       (* connection_error out of place *)
| VDataNoOp        (* next / data for an id with no running operation *)
| VTerminalNoOp    (* error / complete for an id with no running operation *)
| VCloseCode       (* close where none is prescribed, or with another code than prescribed *)
| VMustClose       (* prescribed close missing *)
| VMissingReply    (* connection_ack / pong owed and not sent *)
| VLength.         (* trace shape *)

Record mon := mkMon { m_closed : bool; m_acked : bool; m_active : list id }.
Definition mon_init : mon := mkMon false false [].

Definition mem (i : N) (l : list N) : bool := existsb (N.eqb i) l.
Definition del (i : N) (l : list N) : list N := filter (fun j => negb (j =? i)) l.

(* what the input of this step entitles / obliges the server to *)
Record ctx := mkCtx {
  c_ack : bool;             (* a connection_ack is due *)
  c_pong : bool;            (* a pong is due *)
  c_closes : list N;        (* close codes allowed in this step *)
  c_must_close : bool;      (* ... and one of them is required *)
  c_connerr : bool;         (* legacy: connection_error / id-less error allowed *)
  c_rejected : option id    (* legacy: "error" for this id allowed as the rejection of a start *)
}.
Definition ctx_none : ctx := mkCtx false false [] false false None.
Definition ctx_close (codes : list N) (must : bool) : ctx := mkCtx false false codes must false None.

Definition payload_ok (p : payload) : bool := match p with PSub | PQuery => true | _ => false end.

Definition ctx_of (pr : proto) (m : mon) (inp : input) : ctx :=
  match pr with
  | TWS =>
    match inp with
    | CInit p =>
      if m_acked m then ctx_close [4429] true
      else match p with
           | IReject => ctx_close [4401; 4403] true
           | _ => mkCtx true false [] false false None
           end
    | CPing => mkCtx false true [] false false None
    | CSubscribe i p =>
      if negb (m_acked m) then ctx_close [4401] true
      else if payload_ok p then (if mem i (m_active m) then ctx_close [4409] true else ctx_none)
      else ctx_close [4400; 4409] false
    | CBadJson | CUnknown | CStart _ _ | CStop _ | CTerminate => ctx_close [4400] true
    | CWrongShape => ctx_close [4400] false
    | EInitTimeout => if m_acked m then ctx_none else ctx_close [4408] true
    | _ => ctx_none
    end
  | GWS =>
    match inp with
    | CInit IReject => mkCtx false false [] false true None
    | CInit _ => mkCtx true false [] false false None
    | CStart i p =>
      if payload_ok p && negb (mem i (m_active m)) then ctx_none
      else mkCtx false false [] false false (Some i)
    | CBadJson | CWrongShape | CUnknown | CPing | CPong | CSubscribe _ _ | CComplete _ =>
      mkCtx false false [] false true None
    | _ => ctx_none
    end
  end.

(* an accepted subscribe / start makes its id a running operation *)
Definition activate (pr : proto) (m : mon) (inp : input) : mon :=
  match pr, inp with
  | TWS, CSubscribe i p =>
    if m_acked m && negb (mem i (m_active m)) && payload_ok p
    then mkMon (m_closed m) (m_acked m) (i :: m_active m) else m
  | GWS, CStart i p =>
    if negb (mem i (m_active m)) && payload_ok p
    then mkMon (m_closed m) (m_acked m) (i :: m_active m) else m
  | _, _ => m
  end.

Definition own_type (pr : proto) (t : mtype) : bool :=
  match pr, t with
  | _, (MAck | MError | MComplete) => true
  | TWS, (MPong | MPongHb | MNext) => true
  | GWS, (MConnError | MKa | MData) => true
  | _, _ => false
  end.

Definition opt_id_eqb (o : option id) (i : id) : bool :=
  match o with Some j => j =? i | None => false end.

(* scanning state: monitor, ack seen in this step, pong seen in this step *)
Definition scan1 (pr : proto) (c : ctx) (q : mon * bool * bool) (o : output) : (mon * bool * bool) + clause :=
  let '(m, ack, pong) := q in
  if m_closed m then inr VAfterClose
  else match o with
  | OClose code =>
    if mem code (c_closes c) then inl (mkMon true (m_acked m) (m_active m), ack, pong) else inr VCloseCode
  | OMsg t i =>
    if negb (own_type pr t) then inr VForeignType
    else match t with
    | MAck => if c_ack c && negb ack then inl (mkMon false true (m_active m), true, pong) else inr VAck
    | MPong => if c_pong c && negb pong then inl (m, ack, true) else inr VPong
    | MPongHb | MKa => if m_acked m then inl q else inr VHeartbeat
    | MConnError => if c_connerr c then inl q else inr VConnError
    | MNext | MData => if mem i (m_active m) then inl q else inr VDataNoOp
    | MError =>
      if c_connerr c && (i =? 0) then inl q
      else if opt_id_eqb (c_rejected c) i then inl q
      else if mem i (m_active m) then inl (mkMon false (m_acked m) (del i (m_active m)), ack, pong)
      else inr VTerminalNoOp
    | MComplete =>
      if mem i (m_active m) then inl (mkMon false (m_acked m) (del i (m_active m)), ack, pong)
      else inr VTerminalNoOp
    end
  end.

Fixpoint scan (pr : proto) (c : ctx) (q : mon * bool * bool) (outs : list output) : (mon * bool * bool) + clause :=
  match outs with
  | [] => inl q
  | o :: r => match scan1 pr c q o with inl q' => scan pr c q' r | inr v => inr v end
  end.

Definition mon_step (pr : proto) (m : mon) (inp : input) (outs : list output) : mon + clause :=
  if m_closed m then match outs with [] => inl m | _ => inr VAfterClose end
  else match inp with
  | EClientClose => match outs with [] => inl (mkMon true (m_acked m) (m_active m)) | _ => inr VAfterClose end
  | _ =>
    let c := ctx_of pr m inp in
    match scan pr c (activate pr m inp, false, false) outs with
    | inr v => inr v
    | inl (m1, ack, pong) =>
      if m_closed m1 then inl m1
      else if c_must_close c then inr VMustClose
      else if (c_ack c && negb ack) || (c_pong c && negb pong) then inr VMissingReply
      else inl m1
    end
  end.

(* first failing step (index from 0) and the clause, or the final monitor state *)
Fixpoint mon_run (pr : proto) (m : mon) (k : nat) (ins : list input) (outs : list (list output)) : mon + (nat * clause) :=
  match ins, outs with
  | [], [] => inl m
  | i :: ins', o :: outs' =>
    match mon_step pr m i o with
    | inl m' => mon_run pr m' (S k) ins' outs'
    | inr v => inr (k, v)
    end
  | _, _ => inr (k, VLength)
  end.

Definition monitor_check (pr : proto) (ins : list input) (outs : list (list output)) : mon + (nat * clause) :=
  mon_run pr mon_init 0 ins outs.

Definition monitor_accepts (pr : proto) (ins : list input) (outs : list (list output)) : bool :=
  match monitor_check pr ins outs with inl _ => true | inr _ => false end.

(* ---- the property ---- *)
(* full strength: whatever the clients sends and however the environment interleaves, the
   server's output trace is accepted *)
Definition trace_accepted (pr : proto) : Prop :=
  forall ins : list input, monitor_accepts pr ins (run_outs pr ins) = true.
