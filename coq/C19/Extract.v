From Gv Require Import lib.Bytes C19.Model C19.Spec C19.Causes.
From Coq Require Import NArith ZArith.
Require Import ExtrOcamlBasic.
Extraction Language OCaml.
Extraction "model.ml" step init_state live s_closed wire_name tws_server_types gws_server_types
  monitor_check mon_step mon_init offending cause_eqb Z.of_N Z.to_nat.
