(* C19: the theorems (proved here, restated in Properties.v). *)
From Coq Require Import List NArith Bool Lia ZifyN ZifyBool.
From Gv Require Import lib.Bytes C19.Model C19.ModelV0 C19.Spec C19.Causes C19.ProofsBase C19.ProofsSim gen.Anchors_C19.
Import ListNotations.
Open Scope N_scope.

(* ---------------------------------------------------------------- anchors *)
Definition wire_table (pr : proto) : list (bytes * list bytes) :=
  map (fun e => (fst e, map (wire_name pr) (snd e))) (emit_table pr).

Lemma anchors_ok :
  anchor_tws_handle_arms = tws_handle_arms
  /\ anchor_gws_handle_arms = gws_handle_arms
  /\ anchor_tws_write_arms = tws_write_arms
  /\ anchor_gws_write_arms = gws_write_arms
  /\ anchor_tws_emit = wire_table TWS
  /\ anchor_gws_emit = wire_table GWS
  /\ anchor_tws_close_table = tws_close_table
  /\ anchor_gws_close_table = gws_close_table
  /\ anchor_gws_disconnect_calls = 0
  /\ anchor_tws_heartbeat_payload = heartbeat_payload
  /\ forallb (fun t => mem_bytes (wire_name TWS t) tws_write_arms) tws_server_types = true
  /\ forallb (fun t => mem_bytes (wire_name GWS t) gws_write_arms) gws_server_types = true.
Proof. repeat split; reflexivity. Qed.

(* the engine functions of the model write what the Emit table says *)
Definition msgs (ms : list mtype) (i : id) : list output := map (fun m => OMsg m i) ms.

Lemma model_uses_emit_table pr st i t o :
  (active st i = true ->
   snd (stop_subscription st i) = emit st (msgs (lookup_ev ev_completed (emit_table pr)) i))
  /\ (find_op t (s_ops st) = Some o -> o_kind o = KSub -> o_cancelled o = false ->
      snd (exec_flush pr st t) = emit st (msgs (lookup_ev ev_data (emit_table pr)) (o_id o))
      /\ snd (exec_return pr st t RData true) = emit st (msgs (lookup_ev ev_data (emit_table pr)) (o_id o))
      /\ snd (exec_return pr st t RErr true) = emit st (msgs (lookup_ev ev_error (emit_table pr)) (o_id o)))
  /\ (find_op t (s_ops st) = Some o -> o_kind o = KQuery -> o_cancelled o = false ->
      snd (exec_return pr st t RData false) = emit st (msgs (lookup_ev ev_nonsub_result (emit_table pr)) (o_id o))
      /\ snd (exec_return pr st t RErr false) = emit st (msgs (lookup_ev ev_error (emit_table pr)) (o_id o)))
  /\ (active st i = true ->
      snd (start_operation GWS st i PSub) = emit st (msgs (lookup_ev ev_duplicate (emit_table GWS)) i)).
Proof.
  split; [intros A; unfold stop_subscription; rewrite A; destruct pr; reflexivity|]. split; [|split].
  - intros F K C. unfold exec_flush, exec_return. rewrite F, K, C. destruct pr; repeat split; reflexivity.
  - intros F K C. unfold exec_return. rewrite F, K, C. destruct pr; split; reflexivity.
  - intros A. unfold start_operation. rewrite A. reflexivity.
Qed.

(* ---------------------------------------------------------------- accepted unless a listed cause occurs *)
Lemma sim_step pr st m inp :
  wf pr st -> R pr st m -> offending pr st inp = None ->
  exists m', mon_step pr m inp (snd (step pr st inp)) = inl m' /\ R pr (fst (step pr st inp)) m'.
Proof. destruct pr; [apply sim_step_tws|apply sim_step_gws]. Qed.

Lemma sim_run pr : forall ins st m k,
  wf pr st -> R pr st m -> causes_from pr st ins = [] ->
  exists m', mon_run pr m k ins (snd (run_from pr st ins)) = inl m'.
Proof.
  induction ins as [|a r IH]; intros st m k W HR Hc; simpl.
  - exists m. reflexivity.
  - simpl in Hc. destruct (offending pr st a) eqn:O; [discriminate|].
    destruct (sim_step pr st m a W HR O) as [m1 [E1 R1]].
    pose proof (wf_step pr st a W) as W1.
    destruct (step pr st a) as [st1 o] eqn:Hs. simpl in *.
    destruct (IH st1 m1 (S k) W1 R1 Hc) as [m2 E2].
    destruct (run_from pr st1 r) as [st2 os] eqn:Rn. simpl in *.
    rewrite E1. exists m2. exact E2.
Qed.

Theorem trace_accepted_partial_proof pr ins :
  causes_of pr ins = [] -> monitor_accepts pr ins (run_outs pr ins) = true.
Proof.
  intros H. unfold monitor_accepts, monitor_check, run_outs.
  destruct (sim_run pr ins (init_state pr) mon_init 0%nat (wf_init pr) (R_init pr) H) as [m' E].
  rewrite E. reflexivity.
Qed.

(* ---------------------------------------------------------------- refutations *)
Definition w_tws_stop_unknown : list input := [CInit INone; CSubscribe 1 PQuery; ERet 0 RData false; CComplete 1].
Definition w_tws_stop_before_init : list input := [CComplete 1].
Definition w_tws_emit_after_cancel : list input := [CInit INone; CSubscribe 1 PQuery; CComplete 1; ERet 0 RData false].
Definition w_tws_sub_error : list input := [CInit INone; CSubscribe 1 PSub; ERet 0 RErr true; EFlush 0].
Definition w_tws_sub_error_id_taken : list input := [CInit INone; CSubscribe 1 PSub; ERet 0 RErr true; CSubscribe 1 PSub].
Definition w_gws_stop_unknown : list input := [CStart 1 PQuery; ERet 0 RData false; CStop 1].
Definition w_gws_emit_after_cancel : list input := [CStart 1 PSub; CStop 1; EFlush 0].
Definition w_gws_sub_error : list input := [CStart 1 PSub; ERet 0 RErr true; ERet 0 RData true].

(* the current code: one cause left *)
Lemma refuted_witnesses :
  (causes_of TWS w_tws_sub_error = [KSubErrorGoesOn]
   /\ monitor_check TWS w_tws_sub_error (run_outs TWS w_tws_sub_error) = inr (3%nat, VDataNoOp))
  /\ (causes_of TWS w_tws_sub_error_id_taken = [KSubErrorGoesOn]
   /\ monitor_check TWS w_tws_sub_error_id_taken (run_outs TWS w_tws_sub_error_id_taken) = inr (3%nat, VCloseCode))
  /\ (causes_of GWS w_gws_sub_error = [KSubErrorGoesOn]
   /\ monitor_check GWS w_gws_sub_error (run_outs GWS w_gws_sub_error) = inr (2%nat, VDataNoOp)).
Proof. vm_compute. repeat split; reflexivity. Qed.

Theorem trace_accepted_refuted_proof pr : ~ trace_accepted pr.
Proof.
  intros H. destruct pr.
  - specialize (H w_tws_sub_error). vm_compute in H. discriminate.
  - specialize (H w_gws_sub_error). vm_compute in H. discriminate.
Qed.

Theorem sub_error_refutes_proof pr :
  exists ins, causes_of pr ins = [KSubErrorGoesOn] /\ monitor_accepts pr ins (run_outs pr ins) = false.
Proof.
  destruct pr.
  - exists w_tws_sub_error. vm_compute. split; reflexivity.
  - exists w_gws_sub_error. vm_compute. split; reflexivity.
Qed.

(* historical: the code as found (ModelV0) -- each of the three causes refuted the full statement
   on its own, under either protocol *)
Definition trace_accepted_v0 (pr : proto) : Prop :=
  forall ins : list input, monitor_accepts pr ins (run_outs_v0 pr ins) = true.

Lemma refuted_witnesses_v0 :
  (causes_of_v0 TWS w_tws_stop_unknown = [KStopUnknown]
   /\ monitor_check TWS w_tws_stop_unknown (run_outs_v0 TWS w_tws_stop_unknown) = inr (3%nat, VTerminalNoOp))
  /\ (causes_of_v0 TWS w_tws_stop_before_init = [KStopUnknown]
   /\ monitor_check TWS w_tws_stop_before_init (run_outs_v0 TWS w_tws_stop_before_init) = inr (0%nat, VTerminalNoOp))
  /\ (causes_of_v0 TWS w_tws_emit_after_cancel = [KEmitAfterCancel]
   /\ monitor_check TWS w_tws_emit_after_cancel (run_outs_v0 TWS w_tws_emit_after_cancel) = inr (3%nat, VDataNoOp))
  /\ (causes_of_v0 GWS w_gws_stop_unknown = [KStopUnknown]
   /\ monitor_check GWS w_gws_stop_unknown (run_outs_v0 GWS w_gws_stop_unknown) = inr (2%nat, VTerminalNoOp))
  /\ (causes_of_v0 GWS w_gws_emit_after_cancel = [KEmitAfterCancel]
   /\ monitor_check GWS w_gws_emit_after_cancel (run_outs_v0 GWS w_gws_emit_after_cancel) = inr (2%nat, VDataNoOp)).
Proof. vm_compute. repeat split; reflexivity. Qed.

Theorem each_cause_refuted_v0_proof pr (k : cause) :
  exists ins, causes_of_v0 pr ins = [k] /\ monitor_accepts pr ins (run_outs_v0 pr ins) = false.
Proof.
  destruct pr, k.
  - exists w_tws_stop_unknown. vm_compute. split; reflexivity.
  - exists w_tws_emit_after_cancel. vm_compute. split; reflexivity.
  - exists w_tws_sub_error. vm_compute. split; reflexivity.
  - exists w_gws_stop_unknown. vm_compute. split; reflexivity.
  - exists w_gws_emit_after_cancel. vm_compute. split; reflexivity.
  - exists w_gws_sub_error. vm_compute. split; reflexivity.
Qed.

(* ... and the witnesses of the two repaired causes are accepted on the current code *)
Lemma repaired_witnesses_accepted :
  monitor_accepts TWS w_tws_stop_unknown (run_outs TWS w_tws_stop_unknown) = true
  /\ monitor_accepts TWS w_tws_stop_before_init (run_outs TWS w_tws_stop_before_init) = true
  /\ monitor_accepts TWS w_tws_emit_after_cancel (run_outs TWS w_tws_emit_after_cancel) = true
  /\ monitor_accepts GWS w_gws_stop_unknown (run_outs GWS w_gws_stop_unknown) = true
  /\ monitor_accepts GWS w_gws_emit_after_cancel (run_outs GWS w_gws_emit_after_cancel) = true.
Proof. vm_compute. repeat split; reflexivity. Qed.

(* ---------------------------------------------------------------- full-strength clauses *)
(* nothing reaches the wire once the socket is closed, and it stays closed *)
Theorem nothing_after_close_proof pr ins inp :
  s_closed (run pr ins) = true ->
  snd (step pr (run pr ins) inp) = [] /\ s_closed (fst (step pr (run pr ins) inp)) = true.
Proof. apply closed_silent. Qed.

(* graphql-transport-ws: no operation goroutine exists before the accepted connection_init *)
Theorem tws_no_operation_before_init_proof ins :
  s_init (run TWS ins) = false -> s_ops (run TWS ins) = [] /\ forall i, active (run TWS ins) i = false.
Proof.
  intros I. destruct (wf_run TWS ins) as (_ & _ & _ & _ & _ & _ & _ & W8).
  rewrite (W8 eq_refl I). split; [reflexivity|]. intros i. unfold active. rewrite (W8 eq_refl I). reflexivity.
Qed.

Lemma active_needs_init ins i : active (run TWS ins) i = true -> s_init (run TWS ins) = true.
Proof.
  intros A. destruct (s_init (run TWS ins)) eqn:I; [reflexivity|].
  destruct (tws_no_operation_before_init_proof ins I) as [_ H]. rewrite H in A. discriminate.
Qed.

(* graphql-transport-ws: the prescribed close codes, in every reachable open state *)
Theorem tws_prescribed_closes_proof ins :
  let st := run TWS ins in
  s_closed st = false ->
  (s_init st = true -> forall p, step TWS st (CInit p) = (close_state st, [OClose 4429]))
  /\ (s_init st = false -> forall i p, step TWS st (CSubscribe i p) = (close_state st, [OClose 4401]))
  /\ (forall i p, payload_ok p = true -> active st i = true ->
        step TWS st (CSubscribe i p) = (close_state st, [OClose 4409]))
  /\ step TWS st CBadJson = (close_state st, [OClose 4400])
  /\ step TWS st CUnknown = (close_state st, [OClose 4400])
  /\ (forall i p, step TWS st (CStart i p) = (close_state st, [OClose 4400]))
  /\ (s_init st = false -> snd (step TWS st EInitTimeout) = [OClose 4408]
                           /\ s_closed (fst (step TWS st EInitTimeout)) = true)
  /\ (s_init st = true -> step TWS st EInitTimeout = (st, []))
  /\ (s_init st = false -> snd (step TWS st (CInit IReject)) = [OClose 4401]).
Proof.
  intros st Hc. pose proof (wf_run TWS ins) as W. fold st in W.
  destruct W as (_ & _ & _ & _ & W5 & W6 & _ & _).
  specialize (W5 eq_refl Hc). specialize (W6 eq_refl Hc).
  repeat split.
  - intros I p. unfold step. rewrite Hc. unfold handle_tws. rewrite I. unfold do_close. rewrite Hc. reflexivity.
  - intros I i p. unfold step. rewrite Hc. unfold handle_tws. rewrite I. simpl. unfold do_close. rewrite Hc. reflexivity.
  - intros i p P A. pose proof (active_needs_init ins i A) as I. fold st in I.
    unfold step. rewrite Hc. unfold handle_tws. rewrite I. simpl.
    destruct p; try discriminate; unfold start_operation; rewrite A; unfold do_close; rewrite Hc; reflexivity.
  - unfold step. rewrite Hc. unfold handle_tws, do_close. rewrite Hc. reflexivity.
  - unfold step. rewrite Hc. unfold handle_tws, do_close. rewrite Hc. reflexivity.
  - intros i p. unfold step. rewrite Hc. unfold handle_tws, do_close. rewrite Hc. reflexivity.
  - unfold step. rewrite (W5 H). unfold do_close. rewrite Hc. reflexivity.
  - unfold step. rewrite (W5 H). unfold do_close. rewrite Hc. reflexivity.
  - intros I. unfold step. rewrite (W6 I). reflexivity.
  - intros I. unfold step. rewrite Hc. unfold handle_tws. rewrite I. unfold do_close. rewrite Hc. reflexivity.
Qed.

(* ---------------------------------------------------------------- never wedged *)
(* In every reachable state the connection is either closed or can go on: the handshake (if still
   due) is answered, a new operation can be started under any free id, and a running operation
   can be ended by the client. *)
Definition responsive (pr : proto) (st : state) : Prop :=
  (forall p, p <> IReject ->
     match pr with
     | TWS => s_init st = false ->
              snd (step TWS st (CInit p)) = [OMsg MAck 0]
              /\ s_init (fst (step TWS st (CInit p))) = true /\ s_closed (fst (step TWS st (CInit p))) = false
     | GWS => snd (step GWS st (CInit p)) = [OMsg MAck 0] /\ s_closed (fst (step GWS st (CInit p))) = false
     end)
  /\ (forall i p, payload_ok p = true -> active st i = false ->
      (pr = TWS -> s_init st = true) ->
      let inp := match pr with TWS => CSubscribe i p | GWS => CStart i p end in
      snd (step pr st inp) = [] /\ active (fst (step pr st inp)) i = true /\ s_closed (fst (step pr st inp)) = false)
  /\ (forall i, active st i = true ->
      let inp := match pr with TWS => CComplete i | GWS => CStop i end in
      snd (step pr st inp) = [OMsg MComplete i]
      /\ active (fst (step pr st inp)) i = false /\ s_closed (fst (step pr st inp)) = false).

Theorem never_wedged_proof pr ins :
  let st := run pr ins in wf pr st /\ (s_closed st = true \/ responsive pr st).
Proof.
  intros st. pose proof (wf_run pr ins) as W. fold st in W. split; [exact W|].
  destruct (s_closed st) eqn:Hc; [left; reflexivity|right].
  destruct W as (_ & _ & _ & _ & W5 & W6 & _ & _).
  unfold responsive. repeat split.
  - intros p Hp. destruct pr.
    + intros I. specialize (W5 eq_refl Hc I). unfold step. rewrite Hc. unfold handle_tws. rewrite I, W5.
      unfold emit. rewrite Hc. destruct p; try congruence; simpl; auto.
    + unfold step. rewrite Hc. unfold handle_gws, emit. rewrite Hc. destruct p; try congruence; simpl; auto.
  - destruct pr; unfold step; rewrite Hc.
    + unfold handle_tws. rewrite (H1 eq_refl). simpl.
      destruct p; try discriminate; unfold start_operation; rewrite H0; reflexivity.
    + unfold handle_gws. destruct p; try discriminate; unfold start_operation; rewrite H0; reflexivity.
  - destruct pr; unfold step; rewrite Hc.
    + unfold handle_tws. rewrite (H1 eq_refl). simpl.
      destruct p; try discriminate; unfold start_operation; rewrite H0; simpl;
        unfold active; simpl; rewrite active_snoc, N.eqb_refl; apply orb_true_r.
    + unfold handle_gws. destruct p; try discriminate; unfold start_operation; rewrite H0; simpl;
        unfold active; simpl; rewrite active_snoc, N.eqb_refl; apply orb_true_r.
  - destruct pr; unfold step; rewrite Hc.
    + unfold handle_tws. rewrite (H1 eq_refl). simpl.
      destruct p; try discriminate; unfold start_operation; rewrite H0; simpl; exact Hc.
    + unfold handle_gws. destruct p; try discriminate; unfold start_operation; rewrite H0; simpl; exact Hc.
  - destruct pr; unfold step; rewrite Hc; simpl; unfold stop_subscription; rewrite H; simpl;
      unfold emit; rewrite Hc; reflexivity.
  - destruct pr; unfold step; rewrite Hc; simpl; unfold stop_subscription; rewrite H; simpl;
      unfold active, cancel_id, set_ops; simpl; rewrite active_cancel_some, N.eqb_refl; apply andb_false_r.
  - destruct pr; unfold step; rewrite Hc; simpl; unfold stop_subscription; rewrite H; simpl; exact Hc.
Qed.
