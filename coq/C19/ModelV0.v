(* C19, historical: the engine AS FOUND (before fixes 1 and 2 in execution/subscription/engine.go):
   StopSubscription answered every client complete/stop with "complete", and the operation
   goroutines emitted without looking at their context.  Kept only for the _refuted statements
   about the two repaired causes; the current code is Model.v.  No proofs in this file. *)
From Coq Require Import List NArith Bool.
From Gv Require Import lib.Bytes C19.Model.
Import ListNotations.
Open Scope N_scope.

Definition stop_subscription_v0 (st : state) (i : id) : state * list output :=
  (cancel_id i st, emit st [OMsg MComplete i]).

Definition exec_flush_v0 (pr : proto) (st : state) (t : N) : state * list output :=
  match find_op t (s_ops st) with
  | None => (st, [])
  | Some o =>
    match o_kind o with
    | KSub => (st, emit st [OMsg (data_msg pr) (o_id o)])  (* flush callback of executeSubscription *)
    | KQuery => (st, [])                                   (* handleNonSubscriptionOperation sets no callback *)
    end
  end.

Definition exec_return_v0 (pr : proto) (st : state) (t : N) (r : ret) (again : bool) : state * list output :=
  match find_op t (s_ops st) with
  | None => (st, [])
  | Some o =>
    let i := o_id o in
    match o_kind o with
    | KSub =>
      (* executeSubscription, then the select of startSubscription: a cancelled context ends the
         goroutine, otherwise it calls Execute again after the update interval *)
      let outs := match r with ROk => [] | RData => [OMsg (data_msg pr) i] | RErr => [OMsg MError i] end in
      (if o_cancelled o && negb again then set_ops st (remove_op t (s_ops st)) else st, emit st outs)
    | KQuery =>
      (* handleNonSubscriptionOperation: error, or result + complete; then the deferred
         subCancellations.Cancel(id) -- by id, whoever holds it now *)
      let outs := match r with
                  | RErr => [OMsg MError i]
                  | _ => [OMsg (data_msg pr) i; OMsg MComplete i]
                  end in
      let st1 := cancel_id i st in
      (set_ops st1 (remove_op t (s_ops st1)), emit st outs)
    end
  end.

Definition handle_tws_v0 (st : state) (m : input) : state * list output :=
  match m with
  | CBadJson => do_close st code_bad_json
  | CWrongShape => (st, [])                                  (* error returned to the read loop, logged *)
  | CInit p =>
    if s_init st then
      do_close st code_too_many_inits                        (* handleInit; startHeartbeat is a no-op then *)
    else
      match p with
      | IReject => do_close st code_init_rejected            (* returns before startHeartbeat *)
      | _ =>
        let r := match s_timer st with
                 | TStopped => do_close st code_internal     (* stopConnectionInitTimer() = false *)
                 | _ => (st, emit st [OMsg MAck 0])
                 end in
        let st1 := fst r in
        (mkState (s_closed st1) true TStopped 1 (s_ops st1) (s_next st1), snd r)
      end
  | CPing => (st, emit st [OMsg MPong 0])
  | CPong => (st, [])
  | CSubscribe i p =>
    if negb (s_init st) then do_close st code_unauthorized
    else match p with
         | PNoPayload => (st, [])                            (* DeserializeSubscribePayload error *)
         | _ => start_operation TWS st i p
         end
  | CComplete i => stop_subscription_v0 st i                    (* no init check *)
  | CStart _ _ | CStop _ | CTerminate | CUnknown => do_close st code_invalid_type
  | _ => (st, [])
  end.

Definition handle_gws_v0 (st : state) (m : input) : state * list output :=
  match m with
  | CBadJson => (st, emit st [OMsg MError 0])
  | CWrongShape => (st, [])
  | CInit IReject => (terminate_all st, emit st [OMsg MConnError 0])
  | CInit _ =>
    (* ack, and one more keep-alive goroutine per init *)
    (mkState (s_closed st) (s_init st) (s_timer st) (s_hb st + 1) (s_ops st) (s_next st), emit st [OMsg MAck 0])
  | CStart i p => start_operation GWS st i p
  | CStop i => stop_subscription_v0 st i
  | CTerminate => (terminate_all st, [])
  | CPing | CPong | CSubscribe _ _ | CComplete _ | CUnknown => (st, emit st [OMsg MConnError 0])
  | _ => (st, [])
  end.

Definition step_v0 (pr : proto) (st : state) (m : input) : state * list output :=
  match m with
  | EFlush t => exec_flush_v0 pr st t
  | ERet t r again => exec_return_v0 pr st t r again
  | EInitTimeout =>
    match pr, s_timer st with
    | TWS, TRunning =>
      let r := do_close st code_init_timeout in
      let st1 := fst r in
      (mkState (s_closed st1) (s_init st1) TFired (s_hb st1) (s_ops st1) (s_next st1), snd r)
    | _, _ => (st, [])                (* the legacy handler has no such timer *)
    end
  | ETick =>
    if (0 <? s_hb st) && negb (s_closed st)
    then (st, [OMsg (match pr with TWS => MPongHb | GWS => MKa end) 0])
    else (st, [])
  | EClientClose => (close_state st, [])
  | _ =>
    if s_closed st then (st, [])     (* nobody reads any more *)
    else match pr with TWS => handle_tws_v0 st m | GWS => handle_gws_v0 st m end
  end.

Fixpoint run_from_v0 (pr : proto) (st : state) (ins : list input) : state * list (list output) :=
  match ins with
  | [] => (st, [])
  | m :: r =>
    let '(st1, o) := step_v0 pr st m in
    let '(st2, os) := run_from_v0 pr st1 r in
    (st2, o :: os)
  end.
Definition run_outs_v0 (pr : proto) (ins : list input) : list (list output) := snd (run_from_v0 pr (init_state pr) ins).
