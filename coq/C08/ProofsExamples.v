(* C08: soundness of the acyclicity certificate, and examples showing that the hypotheses of
   the theorems are satisfiable by non-trivial plans and that the checkers discriminate. *)
From Gv Require Import C08.Model C08.Spec C08.ProofsSpec C08.ProofsSort C08.ProofsWaves C08.ProofsOrganize
  C08.ProofsMember C08.ProofsMulti.
From Coq Require Import List Arith Bool Permutation Lia.
Import ListNotations.

Lemma topo_witness_sound l order : topo_witness_b l order = true -> acyclic l.
Proof.
  intros H. exists (fun x => index_of x order). intros f d Hf Hd Hk.
  unfold topo_witness_b in H. rewrite forallb_forall in H. specialize (H f Hf).
  rewrite forallb_forall in H. specialize (H d Hd). apply orb_true_iff in H. destruct H as [H | H].
  - apply negb_true_iff in H. apply memb_false in H. contradiction.
  - apply Nat.ltb_lt. exact H.
Qed.

Lemma plain_b_sound l : plain_b l = true -> plain l.
Proof.
  unfold plain_b. intros H f Hf. rewrite forallb_forall in H. specialize (H f Hf).
  destruct (fmerged f); [reflexivity | discriminate].
Qed.

Lemma plan_checks_sound l : unique_ids_b l = true -> acyclic_b l = true -> acyclic l /\ unique_ids l.
Proof.
  intros U A. split.
  - unfold acyclic_b in A. destruct (order_sequence l) as [s|]; [|discriminate].
    eapply topo_witness_sound. exact A.
  - unfold unique_ids_b in U. apply negb_true_iff in U. apply has_dup_false. exact U.
Qed.

(* a fork (0), a join (5), a dependency on an id outside the list (9), ids out of order *)
Definition ex_plan : list fetch :=
  [ (mkf 5 [2; 1]);
    (mkf 1 [0]);
    (mkf 2 [9; 0]);
    (mkf 7 []);
    (mkf 0 []);
    (mkf 4 [7]) ].

Example ex_plan_wellformed : acyclic ex_plan /\ unique_ids ex_plan.
Proof. apply plan_checks_sound; vm_compute; reflexivity. Qed.

Example ex_waves :
  organize false false false ex_plan =
  Done (Sequence
          [ Parallel [Single (mkf 0 []); Single (mkf 7 [])];
            Parallel [Single (mkf 1 [0]); Single (mkf 4 [7])];
            Single (mkf 2 [9; 0]);
            Single (mkf 5 [2; 1]) ]).
Proof. vm_compute. reflexivity. Qed.

Example ex_scheduler :
  organize true false false ex_plan =
  Done (Parallel
          [ Sequence [Single (mkf 0 []);
                      Parallel [Single (mkf 1 [0]); Single (mkf 2 [9; 0])];
                      Single (mkf 5 [2; 1])];
            Sequence [Single (mkf 7 []); Single (mkf 4 [7])] ]).
Proof. vm_compute. reflexivity. Qed.

(* the comparator on two nodes of the example: 2 transitive dependencies against 4 *)
Example ex_cmp :
  exists ra rb,
    node_depends_on 7 ex_plan (mkf 2 [9; 0]) = Some ra /\
    node_depends_on 7 ex_plan (mkf 5 [2; 1]) = Some rb /\
    length ra = 2 /\ length rb = 4 /\
    go_cmp ((mkf 2 [9; 0]), ra) ((mkf 5 [2; 1]), rb) = Lt.
Proof. eexists. eexists. vm_compute. repeat split; reflexivity. Qed.

(* validateSchedule accepts a correct nesting and rejects one where a dependency runs alongside *)
Definition ex_good : tree :=
  Sequence [Parallel [Single (mkf 0 []); Single (mkf 7 [])];
            Parallel [Single (mkf 1 [0]); Single (mkf 2 [9; 0]);
                      Single (mkf 4 [7])];
            Single (mkf 5 [2; 1])].
Definition ex_bad : tree :=
  Sequence [Parallel [Single (mkf 0 []); Single (mkf 7 []);
                      Single (mkf 1 [0])];
            Parallel [Single (mkf 2 [9; 0]); Single (mkf 4 [7])];
            Single (mkf 5 [2; 1])].
Example ex_validate :
  validate_schedule ex_plan (Some ex_good) = true /\ validate_schedule ex_plan (Some ex_bad) = false /\
  respects_deps_b ex_good = true /\ exactly_once_b ex_good ex_plan = true /\
  respects_deps_b ex_bad = false.
Proof. vm_compute. repeat split; reflexivity. Qed.

(* the rejected tree really has an execution that prepares fetch 1 before fetch 0 is merged:
   the checker does not reject it for a formal reason only *)
Example ex_bad_execution :
  exists s, lin ex_bad s /\ ~ before (Merge 0) (Prepare 1) s.
Proof.
  exists (run_rl ex_bad). split; [apply run_rl_lin|].
  assert (R : run_rl ex_bad =
              [Prepare 1; Merge 1; Prepare 7; Merge 7; Prepare 0; Merge 0;
               Prepare 4; Merge 4; Prepare 2; Merge 2; Prepare 5; Merge 5]) by (vm_compute; reflexivity).
  rewrite R. intros H. apply bef_before in H.
  repeat match goal with
         | H : bef _ _ (_ :: _) |- _ => inversion H; clear H; subst
         | H : bef _ _ [] |- _ => inversion H
         | H : In _ _ |- _ => simpl in H; intuition discriminate
         end.
Qed.

(* the model's fuel is enough on the example in every configuration *)
Example ex_all_modes :
  forall sched multi trigger, organize sched multi trigger ex_plan <> OutOfFuel.
Proof. intros [] [] []; vm_compute; discriminate. Qed.

(* ---- merged fetches ---- *)
Definition ent (id : nat) (deps : list nat) (ds : nat) : fetch :=
  {| fid := id; fdeps := deps; fsrc := Some (ds, 0); fmerged := [] |}.

(* entity fetches 2 and 3 hit the same datasource in the same wave and are merged; 3 lists the
   shared dependency 0 before its own dependency 1 (the plan of seeded mutant C08-m2) *)
Definition ex_multi_plan : list fetch := [ mkf 0 []; mkf 1 []; ent 2 [0] 0; ent 3 [0; 1] 0 ].

Example ex_multi_wellformed : acyclic ex_multi_plan /\ unique_ids ex_multi_plan /\ plain ex_multi_plan.
Proof.
  split; [|split].
  - apply plan_checks_sound; vm_compute; reflexivity.
  - apply plan_checks_sound; vm_compute; reflexivity.
  - apply plain_b_sound. vm_compute. reflexivity.
Qed.

Definition ex_multi_node : fetch := {| fid := 2; fdeps := [0; 1]; fsrc := None; fmerged := [2; 3] |}.
Example ex_multi_sched :
  organize true true false ex_multi_plan =
  Done (Sequence [Parallel [Single (mkf 0 []); Single (mkf 1 [])]; Single ex_multi_node]).
Proof. vm_compute. reflexivity. Qed.
Example ex_multi_waves :
  organize false true false ex_multi_plan =
  Done (Sequence [Parallel [Single (mkf 0 []); Single (mkf 1 [])]; Single ex_multi_node]).
Proof. vm_compute. reflexivity. Qed.

(* the tree that the mutant produces: self-consistent for its own (truncated) dependency list,
   rejected by the member-level check against the planner's dependencies *)
Definition ex_multi_truncated : tree :=
  Parallel [Sequence [Single (mkf 0 []);
                      Single {| fid := 2; fdeps := [0]; fsrc := None; fmerged := [2; 3] |}];
            Single (mkf 1 [])].
Example ex_multi_checkers :
  respects_deps_b ex_multi_truncated = true /\
  respects_member_deps_b ex_multi_truncated ex_multi_plan = false /\
  members_once_b ex_multi_truncated ex_multi_plan = true /\
  respects_member_deps_b (Sequence [Parallel [Single (mkf 0 []); Single (mkf 1 [])]; Single ex_multi_node])
                         ex_multi_plan = true.
Proof. vm_compute. repeat split; reflexivity. Qed.
