(* C08: soundness of the acyclicity certificate, and examples showing that the hypotheses of
   the theorems are satisfiable by non-trivial plans and that the checkers discriminate. *)
From Gv Require Import C08.Model C08.Spec C08.ProofsSpec C08.ProofsSort C08.ProofsWaves C08.ProofsOrganize.
From Coq Require Import List Arith Bool Permutation Lia.
Import ListNotations.

Lemma topo_witness_sound l order : topo_witness_b l order = true -> acyclic l.
Proof.
  intros H. exists (fun x => index_of x order). intros f d Hf Hd Hk.
  unfold topo_witness_b in H. rewrite forallb_forall in H. specialize (H f Hf).
  rewrite forallb_forall in H. specialize (H d Hd). apply orb_true_iff in H. destruct H as [H | H].
  - apply negb_true_iff in H. apply memb_false in H. contradiction.
  - apply Nat.ltb_lt. exact H.
Qed.

Lemma plan_checks_sound l : unique_ids_b l = true -> acyclic_b l = true -> acyclic l /\ unique_ids l.
Proof.
  intros U A. split.
  - unfold acyclic_b in A. destruct (order_sequence l) as [s|]; [|discriminate].
    eapply topo_witness_sound. exact A.
  - unfold unique_ids_b in U. apply negb_true_iff in U. apply has_dup_false. exact U.
Qed.

(* a fork (0), a join (5), a dependency on an id outside the list (9), ids out of order *)
Definition ex_plan : list fetch :=
  [ (mkf 5 [2; 1]);
    (mkf 1 [0]);
    (mkf 2 [9; 0]);
    (mkf 7 []);
    (mkf 0 []);
    (mkf 4 [7]) ].

Example ex_plan_wellformed : acyclic ex_plan /\ unique_ids ex_plan.
Proof. apply plan_checks_sound; vm_compute; reflexivity. Qed.

Example ex_waves :
  organize false false false ex_plan =
  Done (Sequence
          [ Parallel [Single (mkf 0 []); Single (mkf 7 [])];
            Parallel [Single (mkf 1 [0]); Single (mkf 4 [7])];
            Single (mkf 2 [9; 0]);
            Single (mkf 5 [2; 1]) ]).
Proof. vm_compute. reflexivity. Qed.

Example ex_scheduler :
  organize true false false ex_plan =
  Done (Parallel
          [ Sequence [Single (mkf 0 []);
                      Parallel [Single (mkf 1 [0]); Single (mkf 2 [9; 0])];
                      Single (mkf 5 [2; 1])];
            Sequence [Single (mkf 7 []); Single (mkf 4 [7])] ]).
Proof. vm_compute. reflexivity. Qed.

(* the comparator on two nodes of the example: 2 transitive dependencies against 4 *)
Example ex_cmp :
  exists ra rb,
    node_depends_on 7 ex_plan (mkf 2 [9; 0]) = Some ra /\
    node_depends_on 7 ex_plan (mkf 5 [2; 1]) = Some rb /\
    length ra = 2 /\ length rb = 4 /\
    go_cmp ((mkf 2 [9; 0]), ra) ((mkf 5 [2; 1]), rb) = Lt.
Proof. eexists. eexists. vm_compute. repeat split; reflexivity. Qed.

(* validateSchedule accepts a correct nesting and rejects one where a dependency runs alongside *)
Definition ex_good : tree :=
  Sequence [Parallel [Single (mkf 0 []); Single (mkf 7 [])];
            Parallel [Single (mkf 1 [0]); Single (mkf 2 [9; 0]);
                      Single (mkf 4 [7])];
            Single (mkf 5 [2; 1])].
Definition ex_bad : tree :=
  Sequence [Parallel [Single (mkf 0 []); Single (mkf 7 []);
                      Single (mkf 1 [0])];
            Parallel [Single (mkf 2 [9; 0]); Single (mkf 4 [7])];
            Single (mkf 5 [2; 1])].
Example ex_validate :
  validate_schedule ex_plan (Some ex_good) = true /\ validate_schedule ex_plan (Some ex_bad) = false /\
  respects_deps_b ex_good = true /\ exactly_once_b ex_good ex_plan = true /\
  respects_deps_b ex_bad = false.
Proof. vm_compute. repeat split; reflexivity. Qed.

(* the rejected tree really has an execution that prepares fetch 1 before fetch 0 is merged:
   the checker does not reject it for a formal reason only *)
Example ex_bad_execution :
  exists s, lin ex_bad s /\ ~ before (Merge 0) (Prepare 1) s.
Proof.
  exists (run_rl ex_bad). split; [apply run_rl_lin|].
  assert (R : run_rl ex_bad =
              [Prepare 1; Merge 1; Prepare 7; Merge 7; Prepare 0; Merge 0;
               Prepare 4; Merge 4; Prepare 2; Merge 2; Prepare 5; Merge 5]) by (vm_compute; reflexivity).
  rewrite R. intros H. apply bef_before in H.
  repeat match goal with
         | H : bef _ _ (_ :: _) |- _ => inversion H; clear H; subst
         | H : bef _ _ [] |- _ => inversion H
         | H : In _ _ |- _ => simpl in H; intuition discriminate
         end.
Qed.

(* the model's fuel is enough on the example in every configuration *)
Example ex_all_modes :
  forall sched multi trigger, organize sched multi trigger ex_plan <> OutOfFuel.
Proof. intros [] [] []; vm_compute; discriminate. Qed.
