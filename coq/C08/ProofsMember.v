(* C08: merged fetches.  Soundness of the member-level checkers, and the transfer principle:
   if the list [l'] of (possibly merged) nodes COVERS the plan [l] -- every planned fetch is a
   member of one node and every planned dependency of every member is represented in the node's
   own dependency list -- then a tree that respects the declared dependencies of [l'] respects
   the planner's per-member dependencies. *)
From Gv Require Import C08.Model C08.Spec C08.ProofsSpec C08.ProofsSort.
From Coq Require Import List Arith Bool Permutation Lia.
Import ListNotations.

Lemma planned_ids_plain f : fmerged f = [] -> planned_ids f = [fid f].
Proof. unfold planned_ids. intros H. rewrite H. reflexivity. Qed.

Lemma planned_of_tree_in t d :
  In d (planned_of_tree t) <-> exists D, In D (tree_fetches t) /\ In d (planned_ids D).
Proof. unfold planned_of_tree. apply in_flat_map. Qed.

(* ---- soundness of the structural member check ---- *)
Definition guardedM (l : list fetch) (B : list nat) (fs : list fetch) (s : list event) : Prop :=
  forall M m g d, In M fs -> In m (planned_ids M) -> In g l -> fid g = m ->
                  In d (fdeps g) -> In d (ids l) ->
  In d B \/ exists D, In D fs /\ In d (planned_ids D) /\ before (Merge (fid D)) (Prepare (fid M)) s.

Lemma guardedM_weaken l B fs fs' s s' :
  incl fs fs' ->
  (forall a b, before a b s -> before a b s') ->
  forall M m g d, In M fs -> In m (planned_ids M) -> In g l -> fid g = m -> In d (fdeps g) -> In d (ids l) ->
  (In d B \/ exists D, In D fs /\ In d (planned_ids D) /\ before (Merge (fid D)) (Prepare (fid M)) s) ->
  (In d B \/ exists D, In D fs' /\ In d (planned_ids D) /\ before (Merge (fid D)) (Prepare (fid M)) s').
Proof.
  intros I Hb M m g d _ _ _ _ _ _ [H | [D [A1 [A2 A3]]]]; [left; exact H | right].
  exists D. split; [apply I; exact A1 | split; [exact A2 | apply Hb; exact A3]].
Qed.

Lemma mc_sound_all l :
  NoDup (ids l) ->
  (forall t s, lin t s -> forall B, mc l B t = true -> guardedM l B (tree_fetches t) s) /\
  (forall ts s, lin_seq ts s -> forall B, mc_seq (mc l) B ts = true ->
                guardedM l B (flat_map tree_fetches ts) s) /\
  (forall ts s, lin_par ts s -> forall B, forallb (mc l B) ts = true ->
                guardedM l B (flat_map tree_fetches ts) s).
Proof.
  intros N. apply lin_mutind.
  - (* single *)
    intros M0 B H M m g d HM Hm Hg Eg Hd Hk. simpl in HM. destruct HM as [E | []]. subst M0.
    simpl in H. rewrite forallb_forall in H. specialize (H m Hm).
    rewrite <- Eg in H. rewrite (node_by_id_unique l g N Hg) in H.
    rewrite forallb_forall in H. specialize (H d Hd).
    apply orb_true_iff in H. destruct H as [H | H].
    + apply negb_true_iff in H. apply memb_false in H. contradiction.
    + left. apply memb_In. exact H.
  - intros ts s L IH B H. simpl in *. apply IH. exact H.
  - intros ts s L IH B H. simpl in *. apply IH. exact H.
  - intros B _ M m g d HM. simpl in HM. contradiction.
  - (* seq cons *)
    intros t ts s1 s2 L1 IH1 L2 IH2 B H M m g d HM Hm Hg Eg Hd Hk.
    simpl in H. apply andb_true_iff in H. destruct H as [H1 H2].
    change (flat_map tree_fetches (t :: ts)) with (tree_fetches t ++ flat_map tree_fetches ts) in *.
    apply in_app_or in HM. destruct HM as [HM | HM].
    + apply (guardedM_weaken l B (tree_fetches t) _ s1 (s1 ++ s2)) with (m := m) (g := g); try assumption.
      * apply incl_appl. apply incl_refl.
      * intros a b Hb. apply before_app_l. exact Hb.
      * apply (IH1 B H1 M m g d); assumption.
    + destruct (IH2 _ H2 M m g d HM Hm Hg Eg Hd Hk) as [R | [D [A1 [A2 A3]]]].
      * apply in_app_or in R. destruct R as [R | R]; [right | left; exact R].
        apply planned_of_tree_in in R. destruct R as [D [HD Hp]].
        exists D. split; [apply in_or_app; left; exact HD|]. split; [exact Hp|].
        apply before_split.
        -- eapply Permutation_in; [apply Permutation_sym; apply lin_events; exact L1|].
           apply events_of_in_merge. apply in_ids. exact HD.
        -- eapply Permutation_in; [apply Permutation_sym; apply lin_seq_events; exact L2|].
           apply events_of_in_prepare. exact HM.
      * right. exists D. split; [apply in_or_app; right; exact A1|]. split; [exact A2|].
        apply before_app_r. exact A3.
  - intros B _ M m g d HM. simpl in HM. contradiction.
  - (* par cons *)
    intros t ts s1 s2 s L1 IH1 L2 IH2 I B H M m g d HM Hm Hg Eg Hd Hk.
    simpl in H. apply andb_true_iff in H. destruct H as [H1 H2].
    change (flat_map tree_fetches (t :: ts)) with (tree_fetches t ++ flat_map tree_fetches ts) in *.
    apply in_app_or in HM. destruct HM as [HM | HM].
    + apply (guardedM_weaken l B (tree_fetches t) _ s1 s) with (m := m) (g := g); try assumption.
      * apply incl_appl. apply incl_refl.
      * intros a b Hb. eapply before_interleave_l; eassumption.
      * apply (IH1 B H1 M m g d); assumption.
    + apply (guardedM_weaken l B (flat_map tree_fetches ts) _ s2 s) with (m := m) (g := g); try assumption.
      * apply incl_appr. apply incl_refl.
      * intros a b Hb. eapply before_interleave_r; eassumption.
      * apply (IH2 B H2 M m g d); assumption.
Qed.

Lemma respects_member_deps_b_sound t l :
  NoDup (ids l) -> respects_member_deps_b t l = true -> member_respects t l.
Proof.
  intros N H s L M m g d HM Hm Hg Eg Hd Hk.
  destruct (proj1 (mc_sound_all l N) t s L [] H M m g d HM Hm Hg Eg Hd Hk) as [[] | R]. exact R.
Qed.

Lemma nodup_ids_runs t :
  NoDup (tree_ids t) -> forall s, lin t s -> NoDup s /\ Permutation s (events_of (tree_fetches t)).
Proof.
  intros ND s L. pose proof (lin_events t s L) as Q. split; [|exact Q].
  eapply Permutation_NoDup; [apply Permutation_sym; exact Q|]. apply events_of_nodup. exact ND.
Qed.

Lemma members_once_b_sound t l : members_once_b t l = true -> members_once t l.
Proof.
  unfold members_once_b. intros H. apply andb_true_iff in H. destruct H as [H H4].
  apply andb_true_iff in H. destruct H as [H H3]. apply andb_true_iff in H. destruct H as [H1 H2].
  apply negb_true_iff in H1. apply has_dup_false in H1.
  apply negb_true_iff in H2. apply has_dup_false in H2. apply Nat.leb_le in H3.
  split; [|apply nodup_ids_runs; exact H1].
  apply NoDup_Permutation_bis; [exact H2 | unfold ids; rewrite map_length; exact H3 |].
  intros m Hm. rewrite forallb_forall in H4. apply memb_In. apply H4. exact Hm.
Qed.

Lemma member_checkers_sound t l :
  NoDup (ids l) -> members_once_b t l = true -> respects_member_deps_b t l = true ->
  member_respects t l /\ members_once t l.
Proof.
  intros N A B. split; [apply respects_member_deps_b_sound; assumption | apply members_once_b_sound; exact A].
Qed.

(* ---- covering ---- *)
Definition cover (l l' : list fetch) : Prop :=
  Permutation (flat_map planned_ids l') (ids l) /\
  forall M m g d, In M l' -> In m (planned_ids M) -> In g l -> fid g = m ->
                  In d (fdeps g) -> In d (ids l) ->
  exists D, In D l' /\ In d (planned_ids D) /\ In (fid D) (fdeps M).

Lemma cover_perm l l1 l2 : Permutation l1 l2 -> cover l l1 -> cover l l2.
Proof.
  intros P [A B]. split.
  - eapply Permutation_trans; [|exact A]. apply Permutation_flat_map. apply Permutation_sym. exact P.
  - intros M m g d HM Hm Hg Eg Hd Hk.
    destruct (B M m g d) as [D [D1 [D2 D3]]]; try assumption.
    + eapply Permutation_in; [apply Permutation_sym; exact P | exact HM].
    + exists D. split; [eapply Permutation_in; [exact P | exact D1] | split; assumption].
Qed.

Lemma flat_map_planned_plain l : plain l -> flat_map planned_ids l = ids l.
Proof.
  induction l as [|f l IH]; simpl; intros H; [reflexivity|].
  rewrite (planned_ids_plain f); [|apply H; left; reflexivity]. simpl. f_equal.
  apply IH. intros g Hg. apply H. right. exact Hg.
Qed.

Lemma cover_refl l : NoDup (ids l) -> plain l -> cover l l.
Proof.
  intros N P. split; [rewrite (flat_map_planned_plain l P); apply Permutation_refl|].
  intros M m g d HM Hm Hg Eg Hd Hk.
  rewrite (planned_ids_plain M (P M HM)) in Hm. destruct Hm as [E | []].
  assert (g = M).
  { apply (map_injective_in fid l); try assumption. congruence. }
  subst g. apply ids_in in Hk. destruct Hk as [D [HD ED]].
  exists D. split; [exact HD|]. rewrite (planned_ids_plain D (P D HD)).
  split; [left; exact ED | rewrite ED; exact Hd].
Qed.

Lemma cover_transfer l l' t :
  cover l l' -> NoDup (ids l') -> Permutation (tree_fetches t) l' -> plan_respects t l' ->
  member_respects t l /\ members_once t l.
Proof.
  intros [CA CB] N P R. split.
  - intros s L M m g d HM Hm Hg Eg Hd Hk.
    assert (HM' : In M l') by (eapply Permutation_in; [exact P | exact HM]).
    destruct (CB M m g d HM' Hm Hg Eg Hd Hk) as [D [D1 [D2 D3]]].
    exists D. split; [eapply Permutation_in; [apply Permutation_sym; exact P | exact D1]|].
    split; [exact D2|]. apply (R s L M (fid D) HM' D3). apply in_ids. exact D1.
  - split.
    + unfold planned_of_tree. eapply Permutation_trans; [|exact CA]. apply Permutation_flat_map. exact P.
    + apply nodup_ids_runs. eapply Permutation_NoDup; [|exact N]. unfold tree_ids, ids.
      apply Permutation_map. apply Permutation_sym. exact P.
Qed.
